(** C16: the monitor clauses 8 (Done exactly once at every level) and 9 (every
    underlying reader closed exactly once) never fire on the model's own
    observation: an alarm of these clauses on the unchanged tree can only come
    from an implementation observation that differs from the model's. *)
From Coq Require Import List ZArith NArith Bool Lia.
From BBS Require Import Common.Sx Buffer.Source Buffer.Validate Buffer.Convert Buffer.ErrHandler
  Buffer.ErrHandlerProofs Buffer.ClosedOnceProofs Buffer.ErrHandlerStackProofs Run.R09 Run.R16.
Import ListNotations.
Open Scope Z_scope.

Lemma enc_dones_count log : enc_dones log = A (Z.of_nat (count_done log)).
Proof.
  unfold enc_dones, of_nat, count_done. do 3 f_equal. apply filter_ext. intros [e|]; reflexivity.
Qed.

Theorem clauses_8_9_silent_on_model : forall inp,
  clause8 (q_anss (dec_case16 inp)) (obs_dones (run16 inp)) = true /\
  clause9 (obs_closes (run16 inp)) = true.
Proof.
  intros inp. unfold run16. set (c := dec_case16 inp).
  destruct (run_stack_good (lookup (q_tbl c)) (q_cfg c) (stack_fuel (q_b0 c) (q_anss c)) (q_b0 c) (q_anss c) (q_meth c))
    as (Hlen & Hdone & Hcl).
  set (o := run_stack _ _ _ _ _ _) in *.
  unfold obs_dones, obs_closes, enc_out16s, sx_nth, sx_list, sx_Zs. cbn [nth].
  split.
  - unfold clause8. cbn [sx_list]. rewrite !map_map, map_length, Hlen, Nat.eqb_refl, andb_true_r.
    apply forallb_forall. intros d Hin. apply in_map_iff in Hin. destruct Hin as (log & <- & Hin).
    rewrite enc_dones_count. cbn [sx_Z]. rewrite Forall_forall in Hdone. rewrite (Hdone _ Hin). reflexivity.
  - unfold clause9, of_nats. cbn [sx_list]. rewrite map_map.
    apply forallb_forall. intros d Hin. apply in_map_iff in Hin. destruct Hin as (n & <- & Hin).
    unfold all_one in Hcl. rewrite Forall_forall in Hcl. rewrite (Hcl _ Hin). reflexivity.
Qed.

(** * Clause 10 (the stack offering rule) holds of the model's observation *)
From BBS Require Import Buffer.ValidateProofs Buffer.StackRuleProofs.

Lemma skipn_cons_nth {A} : forall n (l : list A) x r,
  skipn n l = x :: r -> nth_error l n = Some x /\ skipn (S n) l = r.
Proof.
  induction n as [|n IH]; intros l x r Hs.
  - cbn in Hs. subst l. split; reflexivity.
  - destruct l as [|y l]; [discriminate|]. cbn [skipn] in Hs. destruct (IH _ _ _ Hs) as [H1 H2]. split; assumption.
Qed.
Lemma skipn_nil_len {A} n (l : list A) : skipn n l = [] -> (length l <= n)%nat.
Proof. intros Hs. pose proof (skipn_length n l) as Hl. rewrite Hs in Hl. cbn in Hl. lia. Qed.
Lemma firstn_S_nth {A} : forall n (l : list A) x, nth_error l n = Some x -> firstn (S n) l = firstn n l ++ [x].
Proof.
  induction n as [|n IH]; intros l x Hn; destruct l as [|y l]; try discriminate.
  - cbn in Hn. inv Hn. reflexivity.
  - cbn [nth_error] in Hn. cbn [firstn app]. f_equal. apply IH. exact Hn.
Qed.
Lemma snoc_cases {A} (x : list A) : x = [] \/ exists x' y, x = x' ++ [y].
Proof. destruct x as [|a x] using rev_ind; [left; reflexivity|right; exists x, a; reflexivity]. Qed.

Definition script_answer (ans : list answer) (i : nat) : answer :=
  match nth_error ans i with Some x => x | None => Fail 10 end.

Lemma on_error_script h e ans n :
  h_answers h = skipn n ans ->
  fst (on_error h e) = script_answer ans n /\ h_answers (snd (on_error h e)) = skipn (S n) ans /\
  (forall b, fst (on_error h e) = Replace b -> nth_error ans n = Some (Replace b)).
Proof.
  intros Ha. unfold on_error, script_answer. destruct (h_answers h) as [|a r] eqn:E; cbn [fst snd h_answers].
  - symmetry in Ha. pose proof (skipn_nil_len _ _ Ha) as Hl.
    assert (Hn : nth_error ans n = None) by (apply nth_error_None; exact Hl).
    rewrite Hn. rsplit; auto.
    + symmetry. apply skipn_all2. lia.
    + intros b Hb. discriminate.
  - symmetry in Ha. destruct (skipn_cons_nth _ _ _ _ Ha) as [H1 H2]. rewrite H1. rsplit; auto.
    intros b ->. reflexivity.
Qed.

Lemma hrun_script ans h tr : hrun ans h tr ->
  h_answers h = skipn (length tr) ans /\
  (forall i e a, nth_error tr i = Some (e, a) -> a = script_answer ans i) /\
  (forall l x, tr = l ++ x -> quietT l -> firstn (length l) ans = map snd l).
Proof.
  induction 1 as [|h tr e _ (IH1 & IH2 & IH3)|h tr _ IH].
  - rsplit; [reflexivity| |].
    + intros i e a Hn. destruct i; discriminate.
    + intros l x Hx _. symmetry in Hx. apply app_eq_nil in Hx. destruct Hx as [-> _]. reflexivity.
  - destruct (on_error_script h e ans (length tr) IH1) as (Hf & Hs & Hrep).
    rewrite app_length. cbn [length]. rewrite Nat.add_1_r. rsplit; [exact Hs| |].
    + intros i e0 a Hn. destruct (Nat.lt_ge_cases i (length tr)) as [Hlt|Hge].
      * rewrite nth_error_app1 in Hn by exact Hlt. eapply IH2; exact Hn.
      * rewrite nth_error_app2 in Hn by exact Hge. destruct (i - length tr)%nat eqn:Ed.
        -- cbn in Hn. inv Hn. replace i with (length tr) by lia. exact Hf.
        -- destruct n; discriminate.
    + intros l x Hx Hq. destruct (snoc_cases x) as [->|(x' & y & ->)].
      * rewrite app_nil_r in Hx. subst l. apply Forall_app in Hq. destruct Hq as [Hq1 Hq2].
        inversion Hq2 as [|p ps [b Hb] _]; subst. cbn [snd] in Hb.
        rewrite app_length. cbn [length]. rewrite Nat.add_1_r.
        rewrite (firstn_S_nth _ _ _ (Hrep _ Hb)), (IH3 tr [] (eq_sym (app_nil_r _)) Hq1), map_app. cbn [map snd].
        rewrite Hb. reflexivity.
      * rewrite app_assoc in Hx. apply app_inj_tail in Hx. destruct Hx as [Hx _]. eapply IH3; eassumption.
  - exact IH.
Qed.

Lemma returned_failed ans h tr c : hrun ans h tr -> failedT c tr -> returned ans (length tr) = Some c.
Proof.
  intros Hr (l & e & -> & _). destruct (hrun_script _ _ _ Hr) as (_ & H2 & _).
  rewrite app_length. cbn [length]. rewrite Nat.add_1_r. cbn [returned].
  assert (Hn : nth_error (l ++ [(e, Fail c)]) (length l) = Some (e, Fail c))
    by (rewrite nth_error_app2 by lia; rewrite Nat.sub_diag; reflexivity).
  apply H2 in Hn. unfold script_answer in Hn. destruct (nth_error ans (length l)) as [x|]; [subst x; reflexivity|].
  inv Hn. reflexivity.
Qed.
Lemma returned_quiet ans h tr : hrun ans h tr -> quietT tr -> returned ans (length tr) = None.
Proof.
  intros Hr Hq. destruct (hrun_script _ _ _ Hr) as (_ & H2 & _).
  destruct (snoc_cases tr) as [->|(l & [e a] & ->)]; [reflexivity|].
  apply Forall_app in Hq. destruct Hq as [_ Hq]. inversion Hq as [|p ps [b Hb] _]; subst. cbn [snd] in Hb. subst a.
  rewrite app_length. cbn [length]. rewrite Nat.add_1_r. cbn [returned].
  assert (Hn : nth_error (l ++ [(e, Replace b)]) (length l) = Some (e, Replace b))
    by (rewrite nth_error_app2 by lia; rewrite Nat.sub_diag; reflexivity).
  apply H2 in Hn. unfold script_answer in Hn. destruct (nth_error ans (length l)) as [x|]; [subst x; reflexivity|discriminate].
Qed.

Lemma existsb_fail_reps l : Forall isrep l ->
  existsb (fun a => match a with Fail _ => true | Replace _ => false end) (map snd l) = false.
Proof. induction 1 as [|p l [b Hb] _ IH]; cbn; [reflexivity|]. rewrite Hb, IH. reflexivity. Qed.

Lemma not_asked_again g : gvalid g -> asked_after_error (g_ans g) (length (g_tr g)) = false.
Proof.
  intros [Hr Hst]. destruct (hrun_script _ _ _ Hr) as (_ & _ & H3). unfold asked_after_error.
  assert (Hpre : exists l x, g_tr g = l ++ x /\ quietT l /\ Nat.pred (length (g_tr g)) = length l).
  { destruct Hst as [Hq|(c & l & e & Ht & Hl)].
    - destruct (snoc_cases (g_tr g)) as [E|(l & y & E)]; rewrite E in *.
      + exists [], []. rsplit; auto; try constructor.
      + exists l, [y]. apply Forall_app in Hq. destruct Hq as [Hq _]. rsplit; auto.
        rewrite app_length. cbn. lia.
    - exists l, [(e, Fail c)]. rsplit; auto. rewrite Ht, app_length. cbn. lia. }
  destruct Hpre as (l & x & Ht & Hq & ->). pose proof (H3 _ _ Ht Hq) as Hf.
  rewrite Hf, (existsb_fail_reps _ Hq). cbn [orb].
  apply Nat.ltb_ge. pose proof (firstn_length (length l) (g_ans g)) as Hl. rewrite Hf, map_length in Hl. lia.
Qed.

Definition offd_of (g : ghost) : list Z := map code_of (map fst (g_tr g)).

Lemma stack_rule_ghosts : forall G prev, Forall gvalid G -> chain prev (trs G) ->
  stack_rule (scr G) (map offd_of G) = true.
Proof.
  induction G as [|g1 G IH]; intros prev Hv Hc; [reflexivity|].
  destruct G as [|g2 G']; [reflexivity|].
  inversion Hv as [|x l [Hr1 Hs1] Hv']; subst.
  cbn [trs map chain] in Hc. destruct Hc as (_ & Hadj & Hc').
  cbn [scr map stack_rule]. fold (scr G'). 
  assert (Hlen : length (offd_of g1) = length (g_tr g1)) by (unfold offd_of; rewrite !map_length; reflexivity).
  rewrite Hlen. apply andb_true_intro. split.
  - destruct Hadj as [(Hq & Ht2)|(c & Hf & (a & rest & Ht2))].
    + rewrite (returned_quiet _ _ _ Hr1 Hq). unfold offd_of. rewrite Ht2. reflexivity.
    + rewrite (returned_failed _ _ _ _ Hr1 Hf). unfold offd_of. rewrite Ht2. cbn. apply Z.eqb_refl.
  - apply (IH (Some (g_tr g1)) Hv'). cbn [trs map chain]. split; [right; exact I|exact Hc'] || (split; [|exact Hc']).
    destruct Hadj as [H1|H2]; [left; exact H1|right; exact H2].
Qed.

Lemma forall2b_ghosts : forall G, Forall gvalid G ->
  forall2b (fun ans o => negb (asked_after_error ans (length o))) (scr G) (map offd_of G) = true.
Proof.
  induction 1 as [|g G Hg _ IH]; [reflexivity|]. cbn [scr map forall2b]. fold (scr G). rewrite IH, andb_true_r.
  unfold offd_of. rewrite !map_length, (not_asked_again _ Hg). reflexivity.
Qed.

Lemma enc_onerrors_codes log : sx_Zs (enc_onerrors log) = map code_of (onerrors log).
Proof.
  unfold enc_onerrors, onerrors, sx_Zs. cbn [sx_list]. induction log as [|[e|] log IH]; cbn [flat_map map app]; [reflexivity| |exact IH].
  rewrite IH. f_equal.
Qed.

Theorem clause_10_silent_on_model : forall inp,
  clause10 (q_anss (dec_case16 inp)) (obs_offered (run16 inp)) = true.
Proof.
  intros inp. unfold run16. set (c := dec_case16 inp).
  destruct (run_stack_ruled (lookup (q_tbl c)) (q_cfg c) (stack_fuel (q_b0 c) (q_anss c)) (q_b0 c) (q_anss c) (q_meth c))
    as (G & Hscr & Hlogs & Hv & Hch).
  set (o := run_stack _ _ _ _ _ _) in *.
  assert (Hoff : obs_offered (enc_out16s (q_report c) o) = map offd_of G).
  { unfold obs_offered, enc_out16s, sx_nth. cbn [sx_list nth]. rewrite <- Hlogs, !map_map.
    apply map_ext_in. intros g Hin. rewrite enc_onerrors_codes. unfold offd_of.
    rewrite Forall_forall in Hv. destruct (Hv _ Hin) as [Hr _]. rewrite (hrun_log _ _ _ Hr). reflexivity. }
  rewrite Hoff, <- Hscr. unfold clause10.
  rewrite (stack_rule_ghosts G None Hv Hch), (forall2b_ghosts G Hv). unfold scr. rewrite !map_length, Nat.eqb_refl.
  reflexivity.
Qed.
