(** C04P, "the monitor is silent on the model" — part 1: the monitor against
    an abstract accounting of regions.

    [acc]: which blocks (id, region) are listed, popped and waiting for their
    Release(), released; the free regions; the state write in flight (call
    number, how many waiting blocks it will release, the regions it lists).
    [prel m c]: the monitor's bookkeeping is consistent with the accounting and
    no clause has fired.  One lemma per event of the log: PopFront, NewBlock,
    completion of a state write, Release(), start of a state write, and the
    capacity check at a quiescent point.  Pure list reasoning; the model enters
    in part 2. *)
From Coq Require Import List NArith ZArith Bool Arith Lia Permutation.
From BBS Require Import Common.Sx Persist.PBL Persist.PBLProofs Persist.Syncer Run.R07 Run.R04P Run.R07MonBase.
Import ListNotations.
Local Open Scope nat_scope.

Record acc := mkAcc {
  c_listed : list (nat * Z);
  c_rel : list (nat * Z);
  c_pend : list (nat * Z);
  c_free : list Z;
  c_wr : option (nat * nat * list Z)
}.

Definition held (c : acc) : list Z := map snd (c_listed c ++ c_pend c).
Definition pop_pos (m : pmon) (q : nat * Z) (pp : nat) : Prop := nlookup (fst q) (pm_pop m) = Some pp.

Record prel (nreg : nat) (m : pmon) (c : acc) : Prop := mkPrel {
  p_listed : pm_listed m = length (c_listed c);
  p_viol : pm_viol m = [];
  p_pop : forall q, In q (c_rel c ++ c_pend c) ->
            exists pp, pop_pos m q pp /\ pp < pm_pos m /\ exists lp, pm_lastpop m = Some lp /\ pp <= lp;
  p_rel : forall id, natmem id (pm_rel m) = true -> In id (map fst (c_rel c));
  p_ids : NoDup (map fst (c_rel c ++ c_pend c ++ c_listed c));
  p_done : forall w, In w (pm_done m) -> fst w < pm_pos m /\
             forall q pp, In q (c_pend c) -> pop_pos m q pp -> fst w < pp;
  p_durable : forall e, In e (snd (pm_durable m)) -> In (fst e) (held c);
  p_regions : NoDup (c_free c ++ held c);
  p_count : length (c_free c) + length (c_listed c) + length (c_pend c) = nreg;
  p_wr : forall n k regs, c_wr c = Some (n, k, regs) ->
           exists w, nlookup_w n (pm_cur m) = Some w /\ map fst (snd w) = regs /\ fst w < pm_pos m /\ k <= length (c_pend c)
             /\ (forall r, In r regs -> In r (map snd (c_listed c)) \/ In r (map snd (skipn k (c_pend c))))
             /\ (forall q pp, In q (firstn k (c_pend c)) -> pop_pos m q pp -> pp < fst w)
             /\ (forall q pp, In q (skipn k (c_pend c)) -> pop_pos m q pp -> fst w < pp)
}.

(** ---- lookups ---- *)
Lemma nlookup_cons_ne k k' v l : k <> k' -> nlookup k ((k', v) :: l) = nlookup k l.
Proof. intros H. cbn. destruct (Nat.eqb_spec k k'); [contradiction|reflexivity]. Qed.

Lemma nlookup_cons_eq k v l : nlookup k ((k, v) :: l) = Some v.
Proof. cbn. rewrite Nat.eqb_refl. reflexivity. Qed.

Lemma natmem_in n l : natmem n l = true <-> In n l.
Proof.
  unfold natmem. rewrite existsb_exists. split.
  - intros [y [Hy E]]. apply Nat.eqb_eq in E. subst. exact Hy.
  - intros H. exists n. split; [exact H|apply Nat.eqb_refl].
Qed.

Lemma existsb_false {A} (f : A -> bool) l : (forall x, In x l -> f x = false) -> existsb f l = false.
Proof.
  intros H. induction l as [|a r IH]; [reflexivity|]. cbn. rewrite H by (left; reflexivity). cbn.
  apply IH. intros x Hx. apply H. right. exact Hx.
Qed.

Lemma sx_Z_A z : sx_Z (A z) = z. Proof. reflexivity. Qed.

Lemma in_firstn {A} n : forall (l : list A) x, In x (firstn n l) -> In x l.
Proof. induction n as [|n IH]; intros [|a l] x H; cbn in *; auto; try contradiction. destruct H; auto. Qed.

Lemma in_skipn {A} n : forall (l : list A) x, In x (skipn n l) -> In x l.
Proof. induction n as [|n IH]; intros [|a l] x H; cbn in *; auto. Qed.

Lemma NoDup_snoc_list {A} (l : list A) z : NoDup l -> ~ In z l -> NoDup (l ++ [z]).
Proof.
  induction l as [|a r IH]; intros Hn Hi; cbn; [constructor; [intros []|constructor]|].
  inversion Hn; subst. constructor.
  - intros H. apply in_app_or in H. destruct H as [H|[H|[]]]; [contradiction|subst; apply Hi; left; reflexivity].
  - apply IH; [assumption|]. intros H. apply Hi. right. exact H.
Qed.

Lemma NoDup_app_disj {A} (l1 l2 : list A) x : NoDup (l1 ++ l2) -> In x l1 -> In x l2 -> False.
Proof.
  induction l1 as [|a r IH]; intros Hn H1 H2; [destruct H1|]. cbn in Hn. inversion Hn; subst.
  destruct H1 as [->|H1]; [apply H3; apply in_or_app; right; exact H2|eapply IH; eauto].
Qed.

Lemma NoDup_app_r {A} (l1 l2 : list A) : NoDup (l1 ++ l2) -> NoDup l2.
Proof. induction l1 as [|a r IH]; intros Hn; [exact Hn|]. cbn in Hn. inversion Hn; subst. auto. Qed.

Lemma map_skipn_in {A B} (f : A -> B) n (l : list A) x : In x (map f (skipn n l)) <-> In x (skipn n (map f l)).
Proof. rewrite <- skipn_map. reflexivity. Qed.

(** ---- PopFront ---- *)
Lemma ev_pop nreg m c id off rest : prel nreg m c -> c_listed c = (id, off) :: rest ->
  prel nreg (pm_event m (L [A 3; of_nat id; A off]))
       (mkAcc rest (c_rel c) (c_pend c ++ [(id, off)]) (c_free c) (c_wr c)).
Proof.
  intros [P1 P2 P3 P4 P5 P6 P7 P8 P9 P10] El.
  unfold pm_event.
  change (sx_Z (sx_nth (L [A 3%Z; of_nat id; A off]) 0)) with 3%Z.
  change (sx_nat (sx_nth (L [A 3%Z; of_nat id; A off]) 1)) with (sx_nat (of_nat id)). rewrite sx_nat_of_nat.
  cbn iota.
  assert (Hfresh : forall q, In q (c_rel c ++ c_pend c) -> fst q <> id).
  { intros q Hq E. rewrite El in P5. rewrite app_assoc, map_app in P5. cbn [map fst] in P5.
    apply NoDup_remove_2 in P5. apply P5. apply in_or_app. left. rewrite <- E. apply in_map. exact Hq. }
  constructor; cbn [pm_listed pm_viol pm_pop pm_pos pm_lastpop pm_rel pm_done pm_durable pm_cur
                    c_listed c_rel c_pend c_free c_wr].
  - rewrite P1, El. reflexivity.
  - exact P2.
  - intros q Hq. rewrite app_assoc in Hq. apply in_app_or in Hq. destruct Hq as [Hq|[<-|[]]].
    + destruct (P3 q Hq) as [pp [H1 [H2 [lp [H3 H4]]]]]. exists pp. unfold pop_pos in *. cbn [pm_pop].
      rewrite nlookup_cons_ne by (apply Hfresh; exact Hq).
      split; [exact H1|split; [lia|exists (pm_pos m); split; [reflexivity|lia]]].
    + exists (pm_pos m). unfold pop_pos. cbn [pm_pop fst]. rewrite nlookup_cons_eq.
      split; [reflexivity|split; [lia|exists (pm_pos m); split; [reflexivity|lia]]].
  - exact P4.
  - rewrite El in P5. rewrite <- (app_assoc (c_pend c)). cbn [app]. exact P5.
  - intros w Hw. destruct (P6 w Hw) as [H1 H2]. split; [lia|]. intros q pp Hq Hp.
    apply in_app_or in Hq. destruct Hq as [Hq|[<-|[]]].
    + unfold pop_pos in Hp. cbn [pm_pop] in Hp.
      rewrite nlookup_cons_ne in Hp by (apply Hfresh; apply in_or_app; right; exact Hq). eapply H2; eauto.
    + unfold pop_pos in Hp. cbn [pm_pop fst] in Hp. rewrite nlookup_cons_eq in Hp. inversion Hp; subst. exact H1.
  - intros e He. specialize (P7 e He). unfold held in *. cbn [c_listed c_pend]. rewrite El in P7.
    eapply Permutation_in; [|exact P7]. apply Permutation_map. rewrite app_assoc.
    cbn [app]. apply Permutation_cons_append.
  - unfold held in *. cbn [c_listed c_pend]. rewrite El in P8.
    eapply Permutation_NoDup; [|exact P8]. apply Permutation_app_head. apply Permutation_map.
    rewrite app_assoc. cbn [app]. apply Permutation_cons_append.
  - rewrite El in P9. cbn [length] in P9. rewrite app_length. cbn. lia.
  - intros n k regs Hwr. destruct (P10 n k regs Hwr) as [w [H1 [H2 [H3 [H4 [H5 [H6 H7]]]]]]].
    exists w. split; [exact H1|split; [exact H2|split; [lia|split; [rewrite app_length; cbn; lia|split; [|split]]]]].
    + intros r Hr. rewrite skipn_app. replace (k - length (c_pend c)) with 0 by lia. cbn [skipn].
      destruct (H5 r Hr) as [H|H].
      * rewrite El in H. cbn [map] in H. destruct H as [<-|H]; [|left; exact H].
        right. rewrite map_app. apply in_or_app. right. left. reflexivity.
      * right. rewrite map_app. apply in_or_app. left. exact H.
    + intros q pp Hq Hp. rewrite firstn_app in Hq. replace (k - length (c_pend c)) with 0 in Hq by lia.
      cbn [firstn] in Hq. rewrite app_nil_r in Hq.
      unfold pop_pos in Hp. cbn [pm_pop] in Hp. rewrite nlookup_cons_ne in Hp.
      * eapply H6; eauto.
      * apply Hfresh. apply in_or_app. right. eapply in_firstn; eauto.
    + intros q pp Hq Hp. rewrite skipn_app in Hq. replace (k - length (c_pend c)) with 0 in Hq by lia.
      cbn [skipn] in Hq. apply in_app_or in Hq. destruct Hq as [Hq|[<-|[]]].
      * unfold pop_pos in Hp. cbn [pm_pop] in Hp. rewrite nlookup_cons_ne in Hp.
        -- eapply H7; eauto.
        -- apply Hfresh. apply in_or_app. right. eapply in_skipn; eauto.
      * unfold pop_pos in Hp. cbn [pm_pop fst] in Hp. rewrite nlookup_cons_eq in Hp. inversion Hp; subst. exact H3.
Qed.

(** ---- NewBlock ---- *)
Lemma ev_push nreg m c id off f' : prel nreg m c -> c_free c = off :: f' ->
  ~ In id (map fst (c_rel c ++ c_pend c ++ c_listed c)) ->
  prel nreg (pm_event m (L [A 1; of_nat id; A off]))
       (mkAcc (c_listed c ++ [(id, off)]) (c_rel c) (c_pend c) f' (c_wr c)).
Proof.
  intros [P1 P2 P3 P4 P5 P6 P7 P8 P9 P10] Ef Hfresh.
  unfold pm_event.
  change (sx_Z (sx_nth (L [A 1%Z; of_nat id; A off]) 0)) with 1%Z.
  change (sx_nat (sx_nth (L [A 1%Z; of_nat id; A off]) 1)) with (sx_nat (of_nat id)). rewrite sx_nat_of_nat.
  change (sx_Z (sx_nth (L [A 1%Z; of_nat id; A off]) 2)) with off.
  cbn iota.
  assert (Hnl : lists_region (pm_durable m) off = false).
  { unfold lists_region. apply existsb_false. intros e He. apply Z.eqb_neq. intros E.
    specialize (P7 e He). rewrite E in P7. rewrite Ef in P8. cbn [app] in P8. apply NoDup_cons_iff in P8.
    apply (proj1 P8). apply in_or_app. right. exact P7. }
  rewrite Hnl. cbn [andb]. rewrite app_nil_r.
  constructor; cbn [pm_listed pm_viol pm_pop pm_pos pm_lastpop pm_rel pm_done pm_durable pm_cur
                    c_listed c_rel c_pend c_free c_wr].
  - rewrite P1, app_length. cbn. lia.
  - exact P2.
  - intros q Hq. destruct (P3 q Hq) as [pp [H1 [H2 H3]]]. exists pp. split; [exact H1|split; [lia|exact H3]].
  - exact P4.
  - rewrite !app_assoc. rewrite map_app. cbn [map fst]. apply NoDup_snoc_list; [rewrite <- !app_assoc; exact P5|].
    rewrite <- !app_assoc. exact Hfresh.
  - intros w Hw. destruct (P6 w Hw) as [H1 H2]. split; [lia|exact H2].
  - intros e He. specialize (P7 e He). unfold held in *. cbn [c_listed c_pend].
    rewrite map_app in *. apply in_app_or in P7. apply in_or_app. destruct P7 as [H|H]; [left|right; exact H].
    rewrite map_app. apply in_or_app. left. exact H.
  - unfold held in *. cbn [c_listed c_pend]. rewrite Ef in P8. cbn [app] in P8.
    eapply Permutation_NoDup; [|exact P8].
    rewrite !map_app. cbn [map snd].
    transitivity (f' ++ off :: map snd (c_listed c) ++ map snd (c_pend c)); [apply Permutation_middle|].
    apply Permutation_app_head. rewrite <- app_assoc. cbn [app]. apply Permutation_middle.
  - rewrite Ef in P9. cbn [length] in P9. rewrite app_length. cbn. lia.
  - intros n k regs Hwr. destruct (P10 n k regs Hwr) as [w [H1 [H2 [H3 [H4 [H5 [H6 H7]]]]]]].
    exists w. split; [exact H1|split; [exact H2|split; [lia|split; [exact H4|split; [|split; [exact H6|exact H7]]]]]].
    intros r Hr. destruct (H5 r Hr) as [H|H]; [left|right; exact H]. rewrite map_app. apply in_or_app. left. exact H.
Qed.

(** ---- a state write completes ---- *)
(** after a successful completion [k] Release() calls are due: the relation in between *)
Record prelD (nreg : nat) (m : pmon) (c : acc) (k : nat) (w : wstate) : Prop := mkPrelD {
  d_listed : pm_listed m = length (c_listed c);
  d_viol : pm_viol m = [];
  d_pop : forall q, In q (c_rel c ++ c_pend c) ->
            exists pp, pop_pos m q pp /\ pp < pm_pos m /\ exists lp, pm_lastpop m = Some lp /\ pp <= lp;
  d_rel : forall id, natmem id (pm_rel m) = true -> In id (map fst (c_rel c));
  d_ids : NoDup (map fst (c_rel c ++ c_pend c ++ c_listed c));
  d_done : exists dn, pm_done m = w :: dn /\ pm_durable m = w /\ fst w < pm_pos m /\
             forall w', In w' dn -> fst w' < pm_pos m /\ forall q pp, In q (c_pend c) -> pop_pos m q pp -> fst w' < pp;
  d_regions : NoDup (c_free c ++ held c);
  d_count : length (c_free c) + length (c_listed c) + length (c_pend c) = nreg;
  d_wr : c_wr c = None;
  d_w : k <= length (c_pend c)
        /\ (forall r, In r (map fst (snd w)) -> In r (map snd (c_listed c)) \/ In r (map snd (skipn k (c_pend c))))
        /\ (forall q pp, In q (firstn k (c_pend c)) -> pop_pos m q pp -> pp < fst w)
        /\ (forall q pp, In q (skipn k (c_pend c)) -> pop_pos m q pp -> fst w < pp)
}.

Lemma ev_done_ok nreg m c n k regs : prel nreg m c -> c_wr c = Some (n, k, regs) ->
  exists w, prelD nreg (pm_event m (L [A 5; of_nat n; of_bool true]))
                  (mkAcc (c_listed c) (c_rel c) (c_pend c) (c_free c) None) k w.
Proof.
  intros [P1 P2 P3 P4 P5 P6 P7 P8 P9 P10] Ew.
  destruct (P10 n k regs Ew) as [w [H1 [H2 [H3 [H4 [H5 [H6 H7]]]]]]].
  exists w. unfold pm_event.
  change (sx_Z (sx_nth (L [A 5%Z; of_nat n; of_bool true]) 0)) with 5%Z.
  change (sx_nat (sx_nth (L [A 5%Z; of_nat n; of_bool true]) 1)) with (sx_nat (of_nat n)). rewrite sx_nat_of_nat.
  change (sx_bool (sx_nth (L [A 5%Z; of_nat n; of_bool true]) 2)) with true.
  cbn iota. rewrite H1.
  constructor; cbn [pm_listed pm_viol pm_pop pm_pos pm_lastpop pm_rel pm_done pm_durable pm_cur
                    c_listed c_rel c_pend c_free c_wr]; auto.
  - intros q Hq. destruct (P3 q Hq) as [pp [G1 [G2 G3]]]. exists pp. split; [exact G1|split; [lia|exact G3]].
  - exists (pm_done m). split; [reflexivity|]. split; [reflexivity|]. split; [lia|].
    intros w' Hw'. destruct (P6 w' Hw') as [G1 G2]. split; [lia|exact G2].
  - rewrite <- H2 in H5. auto.
Qed.

Lemma ev_done_fail nreg m c n k regs : prel nreg m c -> c_wr c = Some (n, k, regs) ->
  prel nreg (pm_event m (L [A 5; of_nat n; of_bool false]))
       (mkAcc (c_listed c) (c_rel c) (c_pend c) (c_free c) None).
Proof.
  intros [P1 P2 P3 P4 P5 P6 P7 P8 P9 P10] Ew.
  destruct (P10 n k regs Ew) as [w [H1 _]].
  unfold pm_event.
  change (sx_Z (sx_nth (L [A 5%Z; of_nat n; of_bool false]) 0)) with 5%Z.
  change (sx_nat (sx_nth (L [A 5%Z; of_nat n; of_bool false]) 1)) with (sx_nat (of_nat n)). rewrite sx_nat_of_nat.
  change (sx_bool (sx_nth (L [A 5%Z; of_nat n; of_bool false]) 2)) with false.
  cbn iota. rewrite H1.
  constructor; cbn [pm_listed pm_viol pm_pop pm_pos pm_lastpop pm_rel pm_done pm_durable pm_cur
                    c_listed c_rel c_pend c_free c_wr]; auto.
  - intros q Hq. destruct (P3 q Hq) as [pp [G1 [G2 G3]]]. exists pp. split; [exact G1|split; [lia|exact G3]].
  - intros w' Hw'. destruct (P6 w' Hw') as [G1 G2]. split; [lia|exact G2].
  - intros n0 k0 regs0 H. discriminate.
Qed.

(** ---- Release() ---- *)
Lemma ev_release nreg m c k w id off pend' : prelD nreg m c (S k) w -> c_pend c = (id, off) :: pend' ->
  prelD nreg (pm_event m (L [A 2; of_nat id; A off; A 0]))
        (mkAcc (c_listed c) (c_rel c ++ [(id, off)]) pend' (c_free c ++ [off]) None) k w.
Proof.
  intros [D1 D2 D3 D4 D5 [dn [D6a [D6b [D6c D6d]]]] D7 D8 D9 [D10a [D10b [D10c D10d]]]] Ep.
  unfold pm_event.
  change (sx_Z (sx_nth (L [A 2%Z; of_nat id; A off; A 0%Z]) 0)) with 2%Z.
  change (sx_nat (sx_nth (L [A 2%Z; of_nat id; A off; A 0%Z]) 1)) with (sx_nat (of_nat id)). rewrite sx_nat_of_nat.
  change (sx_Z (sx_nth (L [A 2%Z; of_nat id; A off; A 0%Z]) 2)) with off.
  cbn iota.
  assert (Hq : In (id, off) (c_rel c ++ c_pend c)) by (rewrite Ep; apply in_or_app; right; left; reflexivity).
  destruct (D3 _ Hq) as [pp [Hpp [Hlt Hlp]]]. unfold pop_pos in Hpp. cbn [fst] in Hpp.
  (* not released before *)
  assert (Hnr : natmem id (pm_rel m) = false).
  { destruct (natmem id (pm_rel m)) eqn:E; [exfalso|reflexivity]. apply D4 in E.
    rewrite Ep in D5. rewrite map_app in D5. apply NoDup_app_disj with (x := id) in D5; [exact D5|exact E|].
    cbn [map fst app]. left. reflexivity. }
  (* the completed write covers it *)
  assert (Hoff : ~ In off (map fst (snd w))).
  { intros Hi. unfold held in D7. rewrite Ep in D7. rewrite map_app in D7. cbn [map snd] in D7.
    apply NoDup_app_r in D7. destruct (D10b off Hi) as [H|H].
    - apply NoDup_app_disj with (x := off) in D7; [exact D7|exact H|left; reflexivity].
    - rewrite Ep in H. cbn [skipn] in H. apply NoDup_app_r in D7. apply NoDup_cons_iff in D7.
      apply (proj1 D7). apply in_map_iff in H. destruct H as [y [E Hy]]. apply in_skipn in Hy.
      rewrite <- E. apply in_map. exact Hy. }
  assert (Hokc : existsb (fun w0 : nat * list (Z * nat) => (pp <? fst w0) && negb (lists_block w0 off id)) (pm_done m) = true).
  { rewrite D6a. cbn [existsb]. apply orb_true_iff. left. apply andb_true_iff. split.
    - apply Nat.ltb_lt. apply (D10c (id, off)); [rewrite Ep; left; reflexivity|exact Hpp].
    - apply negb_true_iff. unfold lists_block. apply existsb_false. intros e He.
      destruct (Z.eqb_spec (fst e) off) as [E|E]; [|reflexivity]. exfalso. apply Hoff. rewrite <- E. apply in_map. exact He. }
  rewrite Hpp. cbv iota. rewrite Hokc, Hnr. cbn [negb orb]. rewrite app_nil_r.
  constructor; cbn [pm_listed pm_viol pm_pop pm_pos pm_lastpop pm_rel pm_done pm_durable pm_cur
                    c_listed c_rel c_pend c_free c_wr]; auto.
  - intros q Hq'. rewrite <- app_assoc in Hq'. cbn [app] in Hq'. rewrite <- Ep in Hq'.
    destruct (D3 q Hq') as [pp' [G1 [G2 G3]]]. exists pp'. split; [exact G1|split; [lia|exact G3]].
  - intros id' Hid. cbn [natmem existsb] in Hid. apply orb_true_iff in Hid. rewrite map_app. apply in_or_app.
    destruct Hid as [Hid|Hid]; [right; apply Nat.eqb_eq in Hid; subst; left; reflexivity|left; apply D4; exact Hid].
  - rewrite Ep in D5. rewrite <- app_assoc. cbn [app] in *. exact D5.
  - exists dn. split; [exact D6a|split; [exact D6b|split; [lia|]]].
    intros w' Hw'. destruct (D6d w' Hw') as [G1 G2]. split; [lia|]. intros q pp' Hq' Hp'. apply (G2 q pp'); [rewrite Ep; right; exact Hq'|exact Hp'].
  - unfold held in *. cbn [c_listed c_pend]. rewrite Ep in D7.
    eapply Permutation_NoDup; [|exact D7]. rewrite <- app_assoc. apply Permutation_app_head.
    rewrite !map_app. cbn [map snd app]. symmetry. apply Permutation_middle.
  - rewrite Ep in D8. cbn [length] in D8. rewrite app_length. cbn. lia.
  - rewrite Ep in D10a, D10b, D10c, D10d. cbn [length firstn skipn] in *. split; [lia|]. split; [exact D10b|]. split.
    + intros q pp' Hq' Hp'. apply (D10c q pp'); [right; exact Hq'|exact Hp'].
    + exact D10d.
Qed.

Lemma prelD_done nreg m c w : prelD nreg m c 0 w -> prel nreg m c.
Proof.
  intros [D1 D2 D3 D4 D5 [dn [D6a [D6b [D6c D6d]]]] D7 D8 D9 [D10a [D10b [D10c D10d]]]].
  cbn [skipn firstn] in *. constructor; auto.
  - rewrite D6a. intros w' [<-|Hw']; [split; [exact D6c|exact D10d]|apply D6d; exact Hw'].
  - rewrite D6b. intros e He. unfold held. rewrite map_app. apply in_or_app.
    destruct (D10b (fst e) (in_map fst _ _ He)); auto.
  - intros n k regs H. rewrite D9 in H. discriminate.
Qed.

(** ---- a state write starts ---- *)
Lemma ev_start nreg m c n (oc : sx) (bl : list bstate) : prel nreg m c -> c_wr c = None ->
  (forall r, In r (map (fun b => fst (bs_loc b)) bl) -> In r (map snd (c_listed c))) ->
  prel nreg (pm_event m (L [A 4; of_nat n; oc; L (map enc_bstate bl)]))
       (mkAcc (c_listed c) (c_rel c) (c_pend c) (c_free c)
              (Some (n, length (c_pend c), map (fun b => fst (bs_loc b)) bl))).
Proof.
  intros [P1 P2 P3 P4 P5 P6 P7 P8 P9 P10] Ew Hregs.
  unfold pm_event.
  change (sx_Z (sx_nth (L [A 4%Z; of_nat n; oc; L (map enc_bstate bl)]) 0)) with 4%Z.
  change (sx_nat (sx_nth (L [A 4%Z; of_nat n; oc; L (map enc_bstate bl)]) 1)) with (sx_nat (of_nat n)). rewrite sx_nat_of_nat.
  change (sx_list (sx_nth (L [A 4%Z; of_nat n; oc; L (map enc_bstate bl)]) 3)) with (map enc_bstate bl).
  cbn iota.
  constructor; cbn [pm_listed pm_viol pm_pop pm_pos pm_lastpop pm_rel pm_done pm_durable pm_cur
                    c_listed c_rel c_pend c_free c_wr]; auto.
  - intros q Hq. destruct (P3 q Hq) as [pp [G1 [G2 G3]]]. exists pp. split; [exact G1|split; [lia|exact G3]].
  - intros w' Hw'. destruct (P6 w' Hw') as [G1 G2]. split; [lia|exact G2].
  - intros n0 k regs H. inversion H; subst. eexists. split; [cbn; rewrite Nat.eqb_refl; reflexivity|].
    cbn [fst snd]. split; [rewrite !map_map; apply map_ext; intros b; reflexivity|].
    split; [lia|]. split; [lia|]. split; [intros r Hr; left; apply Hregs; exact Hr|]. split.
    + intros q pp Hq Hp. rewrite firstn_all in Hq. destruct (P3 q) as [pp' [G1 [G2 _]]]; [apply in_or_app; right; exact Hq|].
      unfold pop_pos in *. cbn [pm_pop] in Hp. rewrite Hp in G1. inversion G1; subst. exact G2.
    + intros q pp Hq. rewrite skipn_all in Hq. destruct Hq.
Qed.

(** ---- the capacity check at a quiescent point ---- *)
Lemma q_check nreg m c : prel nreg m c -> prel nreg (pm_quiescent nreg m (length (c_free c))) c.
Proof.
  intros P. pose proof P as [P1 P2 P3 P4 P5 P6 P7 P8 P9 P10]. unfold pm_quiescent.
  assert ((match pm_lastpop m with
           | None => true
           | Some lp => existsb (fun w : nat * list (Z * nat) => (lp <? fst w)) (pm_done m)
           end && negb (Nat.eqb (length (c_free c) + pm_listed m) nreg)) = false) as ->.
  { destruct (c_pend c) as [|q pend'] eqn:Ep.
    - rewrite P1. cbn [length] in P9. replace (length (c_free c) + length (c_listed c)) with nreg by lia.
      rewrite Nat.eqb_refl. apply andb_false_r.
    - destruct (P3 q) as [pp [G1 [G2 [lp [G3 G4]]]]]; [apply in_or_app; right; left; reflexivity|].
      rewrite G3. assert (existsb (fun w : nat * list (Z * nat) => (lp <? fst w)) (pm_done m) = false) as ->; [|reflexivity].
      apply existsb_false. intros w Hw. destruct (P6 w Hw) as [_ H]. specialize (H q pp (or_introl eq_refl) G1).
      apply Nat.ltb_ge. lia. }
  rewrite app_nil_r. destruct m. exact P.
Qed.

(** ---- restored blocks ---- *)
Lemma fold_restored : forall (l : list (nat * Z)) pos occ alc d n,
  fold_left pm_event (map (fun p => L [A 0; of_nat (fst p); A (snd p)]) l)
            (mkPm pos occ alc [] None [] [] [] (O, d) n [])
  = mkPm pos (map (fun p => (snd p, fst p)) (rev l) ++ occ) (map (fun p => (fst p, O)) (rev l) ++ alc)
         [] None [] [] [] (O, d ++ map (fun p => (snd p, fst p)) l) (length l + n) [].
Proof.
  induction l as [|[id off] r IH]; intros pos occ alc d n.
  - cbn. rewrite app_nil_r. reflexivity.
  - cbn [map fold_left]. unfold pm_event at 2.
    change (sx_Z (sx_nth (L [A 0%Z; of_nat (fst (id, off)); A (snd (id, off))]) 0)) with 0%Z.
    change (sx_nat (sx_nth (L [A 0%Z; of_nat (fst (id, off)); A (snd (id, off))]) 1)) with (sx_nat (of_nat id)).
    rewrite sx_nat_of_nat.
    change (sx_Z (sx_nth (L [A 0%Z; of_nat (fst (id, off)); A (snd (id, off))]) 2)) with off.
    cbn iota. cbn [pm_pos pm_occ pm_alloc pm_pop pm_lastpop pm_rel pm_cur pm_done pm_durable pm_listed pm_viol fst snd].
    rewrite IH. cbn [rev map length]. rewrite !map_app. cbn [map fst snd app]. rewrite <- !app_assoc. cbn [app].
    f_equal. lia.
Qed.

Lemma init_prel nreg (listed : list (nat * Z)) (free : list Z) :
  NoDup (map fst listed) -> NoDup (free ++ map snd listed) -> length free + length listed = nreg ->
  prel nreg (fold_left pm_event (map (fun p => L [A 0; of_nat (fst p); A (snd p)]) listed) pm_init)
       (mkAcc listed [] [] free None).
Proof.
  intros H1 H2 H3. unfold pm_init. rewrite fold_restored.
  constructor; cbn [pm_listed pm_viol pm_pop pm_pos pm_lastpop pm_rel pm_done pm_durable pm_cur
                    c_listed c_rel c_pend c_free c_wr app].
  - lia.
  - reflexivity.
  - intros q [].
  - intros id H. discriminate.
  - exact H1.
  - intros w [].
  - cbn [snd]. intros e He. unfold held. cbn [c_listed c_pend]. rewrite app_nil_r.
    apply in_map_iff in He. destruct He as [p [<- Hp]]. cbn [fst]. apply in_map. exact Hp.
  - unfold held. cbn [c_listed c_pend]. rewrite app_nil_r. exact H2.
  - cbn. lia.
  - intros n k regs H. discriminate.
Qed.
