(** Facts about the sx data format used by the "monitor is silent on the
    model" proofs (Run/R13Proofs.v, R14Proofs.v, R20Proofs.v, R17Proofs.v):
    structural equality test, encoder/decoder round trips. *)
From BBS Require Import Common.Sx.

Lemma sx_eqb_eq : forall a b, sx_eqb a b = true -> a = b.
Proof.
  fix IH 1. intros [x|xs] [y|ys]; cbn [sx_eqb]; try discriminate.
  - intro H. apply Z.eqb_eq in H. subst. reflexivity.
  - intro H. f_equal. revert ys H.
    induction xs as [|x xs IHxs]; intros [|y ys] H; try discriminate; [reflexivity|].
    apply andb_prop in H. destruct H as [H1 H2].
    f_equal; [apply IH; exact H1|apply IHxs; exact H2].
Qed.

Lemma sx_eqb_refl : forall a, sx_eqb a a = true.
Proof.
  fix IH 1. intros [x|xs]; cbn [sx_eqb]; [apply Z.eqb_refl|].
  induction xs as [|x xs IHxs]; [reflexivity|]. rewrite IH, IHxs. reflexivity.
Qed.

Lemma sx_nats_of_nats l : sx_nats (of_nats l) = l.
Proof.
  unfold sx_nats, of_nats. cbn [sx_list]. rewrite map_map.
  induction l as [|x t IH]; [reflexivity|]. cbn [map]. rewrite IH. f_equal.
  unfold sx_nat, of_nat. cbn [sx_Z]. apply Nat2Z.id.
Qed.

Lemma sx_list_of_nats_length l : length (sx_list (of_nats l)) = length l.
Proof. unfold of_nats. cbn [sx_list]. apply map_length. Qed.

Lemma sx_Zs_of_Zs l : sx_Zs (of_Zs l) = l.
Proof.
  unfold sx_Zs, of_Zs. cbn [sx_list]. rewrite map_map. cbn [sx_Z]. apply map_id.
Qed.

Lemma sx_bool_of_bool b : sx_bool (of_bool b) = b.
Proof. destruct b; reflexivity. Qed.

Lemma sx_nth_L l i : sx_nth (L l) i = nth i l (L []).
Proof. reflexivity. Qed.
