(** Run/R01SMonInv.v — the joint invariant of the harness model [exec] (sector-writer state
    plus the validating chunk readers [vst]) and the monitor's bookkeeping ([minfo]), and its
    preservation by one harness event; per event: the monitor's clauses 2, 3, 5 do not fire on
    the model's device writes, and (for any state satisfying the invariant) clause 1 does not
    fire on the model's device contents. *)
From Coq Require Import List Arith ZArith Bool Lia.
From BBS Require Import Common.Sx Store.SectorWriter Store.SectorWriterProofs Store.SectorWriterSpec
  Store.SectorWriterCommute Store.SectorWriterInv Store.SectorWriterAccum
  Store.SectorWriterDevice Run.R01S Run.R01SMonBase.
Import ListNotations.
Open Scope nat_scope.

(** * the monitor step, taken apart *)

Definition ws_next (ev res : sx) (ws : list minfo) : list minfo :=
  let kind := sx_nat (sx_nth ev 0) in
  let arg := sx_nat (sx_nth ev 1) in
  match kind with
  | 0 => if sx_bool (sx_nth res 0)
         then ws ++ [{| m_size := arg; m_data := []; m_ok := false; m_fin := false |}] else ws
  | 1 => match nth_error ws arg with
         | Some m => if m_fin m then ws else
                       upd ws arg {| m_size := m_size m; m_data := m_data m ++ dec_bytes (sx_nth ev 2);
                                     m_ok := false; m_fin := negb (Z.eqb (sx_Z (sx_nth res 0)) 0) |}
         | None => ws end
  | 2 | 3 => match nth_error ws arg with
             | Some m => if m_fin m then ws else
                           upd ws arg {| m_size := m_size m; m_data := m_data m;
                                         m_ok := Z.eqb (sx_Z (sx_nth res 0)) 1;
                                         m_fin := negb (Z.eqb (sx_Z (sx_nth res 0)) 0) |}
             | None => ws end
  | _ => ws
  end.

Definition b2 (k : cfg01s) (log : list dwrite) : list Z :=
  let c := k_cfg k in
  if forallb (in_range (c_base c * c_sector c) ((c_base c + c_spb c) * c_sector c)) log then [] else [2%Z].

Definition b5 (k : cfg01s) (log : list dwrite) : list Z :=
  let c := k_cfg k in
  match k_restored k with
  | Some r => if forallb (fun w => c_base c * c_sector c + r <=? fst w) log then [] else [5%Z]
  | None => [] end.

Definition b3 (k : cfg01s) (starts : list nat) (ev : sx) (ws : list minfo) (log : list dwrite) : list Z :=
  let c := k_cfg k in
  let S := c_sector c in
  let kind := sx_nat (sx_nth ev 0) in
  let arg := sx_nat (sx_nth ev 1) in
  let blo := c_base c * S in
  match kind with
  | 1 | 2 | 3 =>
      match nth_error ws arg with
      | Some m =>
          let s := nth arg starts 0 in
          let lo := blo + s / S * S in
          let hi := blo + (s + m_size m + S - 1) / S * S in
          if forallb (in_range lo hi) log then [] else [3%Z]
      | None => match log with [] => [] | _ => [3%Z] end
      end
  | _ => []
  end.

Lemma mon_step_eq k starts ev res l dev ws bad :
  mon_step k starts ev (L [res; enc_log l]) (dev, ws, bad) =
  (apply_writes dev l, ws_next ev res ws,
   bad ++ (if holds (k_cfg k) starts (apply_writes dev l) (ws_next ev res ws) then [] else [1%Z]) ++
          b2 k l ++ b3 k starts ev ws l ++ b5 k l).
Proof.
  unfold mon_step.
  change (sx_nth (L [res; enc_log l]) 1) with (enc_log l).
  change (sx_nth (L [res; enc_log l]) 0) with res.
  rewrite dec_enc_log. reflexivity.
Qed.

Lemma b2_nil k : b2 k [] = [].
Proof. reflexivity. Qed.

Lemma b5_nil k : b5 k [] = [].
Proof. unfold b5. destruct (k_restored k); reflexivity. Qed.

Lemma b3_nil k starts ev ws : b3 k starts ev ws [] = [].
Proof.
  unfold b3. destruct (sx_nat (sx_nth ev 0)) as [|[|[|[|n]]]]; try reflexivity;
    destruct (nth_error ws (sx_nat (sx_nth ev 1))); reflexivity.
Qed.

(** * the invariant *)

Definition pend (v : vst) : list byte := match v_pending v with Some ch => ch | None => [] end.

(** writer record of the model, its validating reader, the monitor's record of it *)
Definition rel (t : thread) (v : vst) (m : minfo) : Prop :=
  m_size m = t_size t /\ v_size v = t_size t /\ v_live v = negb (m_fin m) /\
  (v_live v = true ->
     t_status t = Active /\ m_ok m = false /\ m_data m = t_data t ++ pend v /\
     v_fed v = length (m_data m) /\ v_fed v <= v_size v /\ (v_pending v <> None -> v_fed v = v_size v)) /\
  (m_ok m = true -> t_status t = Flushed /\ m_data m = t_data t).

Lemma rel_dead t v' m' :
  m_size m' = t_size t -> v_size v' = t_size t -> v_live v' = false -> m_fin m' = true -> m_ok m' = false ->
  rel t v' m'.
Proof.
  intros E1 E2 E3 E4 E5. unfold rel. rewrite E3, E4, E5.
  split; [exact E1|]. split; [exact E2|]. split; [reflexivity|]. split; intros; discriminate.
Qed.

Lemma rel_flushed t v' m' :
  m_size m' = t_size t -> v_size v' = t_size t -> v_live v' = false -> m_fin m' = true ->
  t_status t = Flushed -> m_data m' = t_data t -> rel t v' m'.
Proof.
  intros E1 E2 E3 E4 E5 E6. unfold rel. rewrite E3, E4.
  split; [exact E1|]. split; [exact E2|]. split; [reflexivity|]. split; [intros; discriminate|auto].
Qed.

Lemma rel_live t v' m' :
  m_size m' = t_size t -> v_size v' = t_size t -> v_live v' = true -> m_fin m' = false ->
  t_status t = Active -> m_ok m' = false -> m_data m' = t_data t ++ pend v' ->
  v_fed v' = length (m_data m') -> v_fed v' <= v_size v' -> (v_pending v' <> None -> v_fed v' = v_size v') ->
  rel t v' m'.
Proof.
  intros E1 E2 E3 E4 E5 E6 E7 E8 E9 E10. unfold rel. rewrite E3, E4, E6.
  split; [exact E1|]. split; [exact E2|]. split; [reflexivity|]. split; [auto 10|intros; discriminate].
Qed.

Definition R3 (ts : list thread) (vs : list vst) (ws : list minfo) : Prop :=
  length vs = length ts /\ length ws = length ts /\
  forall j t v m, nth_error ts j = Some t -> nth_error vs j = Some v -> nth_error ws j = Some m -> rel t v m.

Lemma nth_error_ex {T} (l : list T) j : j < length l -> exists x, nth_error l j = Some x.
Proof. intros H. destruct (nth_error l j) eqn:E; [eauto|]. apply nth_error_None in E. lia. Qed.

Lemma R3_get ts vs ws j v : R3 ts vs ws -> nth_error vs j = Some v ->
  exists t m, nth_error ts j = Some t /\ nth_error ws j = Some m /\ rel t v m.
Proof.
  intros (L1 & L2 & H) Hv. pose proof (nth_error_lt _ _ _ Hv) as Hl.
  destruct (nth_error_ex ts j ltac:(lia)) as [t Ht]. destruct (nth_error_ex ws j ltac:(lia)) as [m Hm].
  exists t, m. eauto.
Qed.

Lemma R3_none ts vs ws j : R3 ts vs ws -> nth_error vs j = None -> nth_error ws j = None.
Proof. intros (L1 & L2 & _) Hv. apply nth_error_None in Hv. apply nth_error_None. lia. Qed.

Lemma R3_upd ts vs ws j t' v' m' :
  R3 ts vs ws -> rel t' v' m' -> R3 (upd ts j t') (upd vs j v') (upd ws j m').
Proof.
  intros (L1 & L2 & H) Hr. unfold R3. rewrite !upd_length. split; [exact L1|split; [exact L2|]].
  intros i t v m Ht Hv Hm. destruct (Nat.eq_dec j i) as [->|Hne].
  - pose proof (nth_error_lt _ _ _ Ht) as Hl. rewrite upd_length in Hl.
    rewrite nth_error_upd_eq in Ht by lia. rewrite nth_error_upd_eq in Hv by lia.
    rewrite nth_error_upd_eq in Hm by lia. congruence.
  - rewrite nth_error_upd_ne in Ht by exact Hne. rewrite nth_error_upd_ne in Hv by exact Hne.
    rewrite nth_error_upd_ne in Hm by exact Hne. eauto.
Qed.

Lemma R3_upd2 ts vs ws j t v' m' :
  R3 ts vs ws -> nth_error ts j = Some t -> rel t v' m' -> R3 ts (upd vs j v') (upd ws j m').
Proof. intros H Ht Hr. rewrite <- (upd_same ts j t Ht). apply R3_upd; assumption. Qed.

Lemma R3_app ts vs ws t v m : R3 ts vs ws -> rel t v m -> R3 (ts ++ [t]) (vs ++ [v]) (ws ++ [m]).
Proof.
  intros (L1 & L2 & H) Hr. unfold R3. rewrite !app_length. cbn [length]. split; [lia|split; [lia|]].
  intros i t1 v1 m1 Ht Hv Hm. destruct (Nat.lt_ge_cases i (length ts)) as [Hi|Hi].
  - rewrite nth_error_app1 in Ht by lia. rewrite nth_error_app1 in Hv by lia.
    rewrite nth_error_app1 in Hm by lia. eauto.
  - pose proof (nth_error_lt _ _ _ Ht) as Hl. rewrite app_length in Hl. cbn [length] in Hl.
    assert (i = length ts) by lia. subst i.
    rewrite nth_error_app2 in Ht by lia. rewrite Nat.sub_diag in Ht.
    rewrite <- L1 in Hv. rewrite nth_error_app2 in Hv by lia. rewrite Nat.sub_diag in Hv.
    rewrite <- L2 in Hm. rewrite nth_error_app2 in Hm by lia. rewrite Nat.sub_diag in Hm.
    cbn in Ht, Hv, Hm. congruence.
Qed.

Section Inv.
Variable k : cfg01s.
Let c := k_cfg k.
Let SS := c_sector c.
Hypothesis HS : 1 <= c_sector c.
Hypothesis Hbase : c_base c = c_spb c.

Definition Inv (r : rstate) (dev : list byte) (ws : list minfo) : Prop :=
  Reach k (r_st r) /\ dev = st_dev (r_st r) /\ R3 (st_threads (r_st r)) (r_v r) ws.

(** [starts] (the final start offsets) agree with the writers of [s] *)
Definition compat (starts : list nat) (s : state) : Prop :=
  forall j t, nth_error (st_threads s) j = Some t -> nth j starts 0 = t_start t.

Lemma compat_ext starts s s2 : ext s s2 -> compat starts s2 -> compat starts s.
Proof. intros He Hc j t Hj. destruct (He _ _ Hj) as (t2 & H2 & E & _). rewrite (Hc _ _ H2). exact E. Qed.

(** ** clause 1 on any state satisfying the invariant *)
Fixpoint hgo (starts : list nat) (dev : list byte) (j : nat) (ws : list minfo) : bool :=
  match ws with
  | [] => true
  | m :: ws' =>
      (if m_ok m then
         bytes_eqb (slice dev (c_base c * c_sector c + nth j starts 0) (m_size m)) (m_data m)
       else true) && hgo starts dev (S j) ws'
  end.

Lemma holds_hgo starts dev ws : holds c starts dev ws = hgo starts dev 0 ws.
Proof.
  unfold holds. generalize 0 at 2 3. induction ws as [|m ws IH]; intros j; [reflexivity|].
  cbn [hgo]. rewrite <- IH. reflexivity.
Qed.

Lemma hgo_true starts dev ws : forall j0,
  (forall j m, nth_error ws j = Some m -> m_ok m = true ->
     slice dev (c_base c * c_sector c + nth (j0 + j) starts 0) (m_size m) = m_data m) ->
  hgo starts dev j0 ws = true.
Proof.
  induction ws as [|m ws IH]; intros j0 H; cbn [hgo]; [reflexivity|].
  apply andb_true_intro; split.
  - destruct (m_ok m) eqn:Hok; [|reflexivity].
    pose proof (H 0 m eq_refl Hok) as E. rewrite Nat.add_0_r in E. rewrite E. apply bytes_eqb_refl.
  - apply IH. intros j m' Hj Hok. replace (S j0 + j) with (j0 + S j) by lia. apply H; assumption.
Qed.

Lemma holds_ok r dev ws starts : Inv r dev ws -> compat starts (r_st r) -> holds c starts dev ws = true.
Proof.
  intros (HR & -> & H3) Hc. rewrite holds_hgo. apply hgo_true. intros j m Hm Hok. cbn [Nat.add].
  destruct H3 as (L1 & L2 & H3). pose proof (nth_error_lt _ _ _ Hm) as Hl.
  destruct (nth_error_ex (st_threads (r_st r)) j ltac:(lia)) as [t Ht].
  destruct (nth_error_ex (r_v r) j ltac:(lia)) as [v Hv].
  destruct (H3 _ _ _ _ Ht Hv Hm) as (E1 & _ & _ & _ & Hf). destruct (Hf Hok) as [Hfl Hd].
  rewrite (Hc _ _ Ht), E1, Hd. apply (reach_flushed_slice k HS Hbase _ _ _ HR Ht Hfl).
Qed.

(** ** one writer action of the model: state change and device writes *)
Definition tact (s : state) (j : nat) (t : thread) (s' : state) (l : list dwrite) (t' : thread) : Prop :=
  (Reach k s -> Reach k s') /\
  st_threads s' = upd (st_threads s) j t' /\ t_start t' = t_start t /\ t_size t' = t_size t /\
  st_dev s' = apply_writes (st_dev s) l /\
  (Reach k s -> span_ok k (t_start t) (t_size t) l).

Lemma tact_write s j t ch :
  nth_error (st_threads s) j = Some t -> t_status t = Active ->
  length (t_data t) + length ch <= t_size t ->
  exists s' l t', step_skip c s (EWrite j ch) = (s', l) /\ tact s j t s' l t' /\
    t_data t' = t_data t ++ ch /\ t_status t' = Active.
Proof.
  intros Hj Ha Hl. destruct (step_write_ok c s j t ch Hj Ha Hl) as (s' & l & t' & Hs & E1 & E2 & E3 & E4 & E5 & E6).
  exists s', l, t'. split; [apply step_skip_some; exact Hs|]. split; [|auto].
  unfold tact. split; [intros HR; eapply reach_step; eauto|].
  split; [exact E1|]. split; [exact E2|]. split; [exact E3|]. split; [exact E6|].
  intros HR. exact (reach_step_span k HS Hbase _ _ _ _ _ _ HR Hs eq_refl Hj).
Qed.

Lemma tact_flush s j t :
  nth_error (st_threads s) j = Some t -> t_status t = Active -> length (t_data t) = t_size t ->
  exists s' l t', step_skip c s (EFlush j) = (s', l) /\ tact s j t s' l t' /\
    t_data t' = t_data t /\ t_status t' = Flushed.
Proof.
  intros Hj Ha Hl. destruct (step_flush_ok c s j t Hj Ha Hl) as (s' & l & t' & Hs & E1 & E2 & E3 & E4 & E5 & E6).
  exists s', l, t'. split; [apply step_skip_some; exact Hs|]. split; [|auto].
  unfold tact. split; [intros HR; eapply reach_step; eauto|].
  split; [exact E1|]. split; [exact E2|]. split; [exact E3|]. split; [exact E6|].
  intros HR. exact (reach_step_span k HS Hbase _ _ _ _ _ _ HR Hs eq_refl Hj).
Qed.

Lemma tact_abandon s j t :
  nth_error (st_threads s) j = Some t -> t_status t = Active ->
  exists s' t', step_skip c s (EAbandon j) = (s', []) /\ tact s j t s' [] t' /\
    t_data t' = t_data t /\ t_status t' = Abandoned.
Proof.
  intros Hj Ha. destruct (step_abandon_ok c s j t Hj Ha) as (s' & t' & Hs & E1 & E2 & E3 & E4 & E5 & E6).
  exists s', t'. split; [apply step_skip_some; exact Hs|]. split; [|auto].
  unfold tact. split; [intros HR; eapply reach_step; eauto|].
  split; [exact E1|]. split; [exact E2|]. split; [exact E3|]. split; [exact E6|].
  intros HR. apply span_ok_nil.
Qed.

Lemma tact_trans s j t s1 l1 t1 s2 l2 t2 :
  tact s j t s1 l1 t1 -> tact s1 j t1 s2 l2 t2 -> tact s j t s2 (l1 ++ l2) t2.
Proof.
  intros (A1 & A2 & A3 & A4 & A5 & A6) (B1 & B2 & B3 & B4 & B5 & B6). unfold tact. repeat apply conj.
  - auto.
  - rewrite B2, A2. apply upd_upd.
  - congruence.
  - congruence.
  - rewrite B5, A5. symmetry. apply apply_writes_app.
  - intros HR. apply span_ok_app; [auto|]. rewrite <- A3, <- A4. auto.
Qed.

(** the invariant after a writer action; clauses 2, 3, 5 on its device writes *)
Lemma leaf r dev ws j t m s' l t' v' m' starts :
  Inv r dev ws -> nth_error (st_threads (r_st r)) j = Some t -> m_size m = t_size t ->
  tact (r_st r) j t s' l t' -> rel t' v' m' ->
  Inv {| r_st := s'; r_v := upd (r_v r) j v' |} (apply_writes dev l) (upd ws j m') /\
  (compat starts s' ->
   b2 k l = [] /\
   (if forallb (in_range (c_base c * SS + nth j starts 0 / SS * SS)
                         (c_base c * SS + (nth j starts 0 + m_size m + SS - 1) / SS * SS)) l
    then [] else [3%Z]) = [] /\ b5 k l = []).
Proof.
  intros (HR & -> & H3) Hj Hsz (T1 & T2 & T3 & T4 & T5 & T6) Hrel. split.
  - unfold Inv. cbn [r_st r_v]. split; [auto|]. split; [symmetry; exact T5|].
    rewrite T2. apply R3_upd; assumption.
  - intros Hc. assert (E : nth j starts 0 = t_start t).
    { rewrite <- T3. apply Hc. rewrite T2. apply nth_error_upd_eq. eapply nth_error_lt; eauto. }
    destruct (T6 HR) as (S1 & S2 & S3). rewrite E, Hsz. unfold b2, b5, span_ok in *. unfold SS, c in *.
    rewrite S1, S2. split; [reflexivity|]. split; [reflexivity|].
    destruct (k_restored k) as [r0|]; [|reflexivity].
    rewrite (S3 r0 eq_refl). reflexivity.
Qed.
End Inv.
