(** C11 — the property monitor [mon11] is silent on the model's own output
    ([mon11_silent_on_model]) and on every observation the judge accepts
    ([mon11_silent_on_allowed]; Put and FindMissing run two goroutines, so
    [agree_ops] accepts any ONE of the model's errors and any order of the
    logged replica calls); hence for the judge "agree" implies "no violation"
    ([judge11_agree_not_violates]).  The per-operation argument is in
    Compose/MonSilentOp.v; this file adds the sx decoding and the induction
    over the operation list. *)
From BBS Require Import Common.Sx Common.ListX Common.SxFactsMA Compose.Mirrored Compose.MirroredProofs
  Compose.MirroredFM Compose.MirroredHist Compose.MonSilentOp Run.R11.
From Coq Require Import Arith.
Local Open Scope nat_scope.

(** * Hypotheses (all decidable on the input / observation) *)

(** every digest an operation mentions is below the universe size [n]: the
    observation carries the replica contents for digests [0..n) only *)
Definition op_in_rangeb (n : nat) (p : op) : bool := forallb (fun d => d <? n) (op_digests p).
Definition wf11_range (inp : sx) : bool :=
  forallb (fun s => op_in_rangeb (sx_nat (sx_nth inp 0)) (snd (dec_op s))) (sx_list (sx_nth inp 3)).

(** [call_key] (used by [agree_ops] to compare call logs up to order) packs the
    digest into the decimal digits below 100000: the digests of the
    two-goroutine operations must fit *)
Definition key_safe_op (p : op) : bool :=
  bump_op p || forallb (fun d => (Z.of_nat d <? 100000)%Z) (op_digests p).
Definition wf11_keys (inp : sx) : bool :=
  forallb (fun s => key_safe_op (snd (dec_op s))) (sx_list (sx_nth inp 3)).

(** the call log observed for a two-goroutine operation consists of
    well-formed call encodings (replica 0/1, kind 0..3, digest in 0..99999) *)
Definition wf_call_sx (c : sx) : bool :=
  sx_eqb c (enc_call (dec_call c)) && (sx_Z (sx_nth c 2) <? 100000)%Z.
Fixpoint wf11_calls (ops obs : list sx) : bool :=
  match ops, obs with
  | s :: t, ob :: obt =>
      (bump_op (snd (dec_op s)) || forallb wf_call_sx (sx_list (sx_nth ob 5))) && wf11_calls t obt
  | _, _ => true
  end.

(** * Decoding what was encoded *)
Lemma lookup_store_of_from (h : nat -> Z) : forall m i d,
  lookup (store_of_from i (map h (seq i m))) d =
  if (i <=? d) && (d <? i + m)
  then (if (h d <? 0)%Z then None else Some (Z.to_nat (h d))) else None.
Proof.
  induction m as [|m IH]; intros i d.
  - cbn [seq map store_of_from lookup].
    destruct (Nat.leb_spec i d), (Nat.ltb_spec d (i + 0)); cbn [andb]; try reflexivity; lia.
  - cbn [seq map store_of_from]. destruct (h i <? 0)%Z eqn:Hn.
    + rewrite IH.
      destruct (Nat.leb_spec i d), (Nat.ltb_spec d (i + S m)), (Nat.leb_spec (S i) d),
        (Nat.ltb_spec d (S i + m)); cbn [andb]; try reflexivity; try lia.
      assert (d = i) by lia. subst d. rewrite Hn. reflexivity.
    + cbn [lookup]. destruct (Nat.eqb_spec i d) as [<-|Ne].
      * rewrite Hn. destruct (Nat.leb_spec i i), (Nat.ltb_spec i (i + S m)); cbn [andb]; try reflexivity; lia.
      * rewrite IH.
        destruct (Nat.leb_spec i d), (Nat.ltb_spec d (i + S m)), (Nat.leb_spec (S i) d),
          (Nat.ltb_spec d (S i + m)); cbn [andb]; try reflexivity; lia.
Qed.

Lemma lookup_trunc n s d :
  lookup (store_of (enc_store n s)) d = if d <? n then lookup s d else None.
Proof.
  unfold store_of, enc_store, sx_Zs. cbn [sx_list]. rewrite map_map.
  rewrite (lookup_store_of_from
             (fun d => sx_Z (match lookup s d with Some x => of_nat x | None => A (-1) end)) n 0 d).
  cbn [Nat.leb andb Nat.add]. destruct (d <? n); [|reflexivity].
  destruct (lookup s d) as [x|]; cbn [sx_Z of_nat].
  - destruct (Z.ltb_spec (Z.of_nat x) 0); [lia|]. rewrite Nat2Z.id. reflexivity.
  - reflexivity.
Qed.

Lemma eqn_trunc n s : eqn n (store_of (enc_store n s)) s.
Proof. intros d Ld. rewrite lookup_trunc. apply Nat.ltb_lt in Ld. rewrite Ld. reflexivity. Qed.

Lemma dec_enc_call c : dec_call (enc_call c) = c.
Proof.
  destruct c as [[r k] d]. unfold dec_call, enc_call, sx_nth. cbn [sx_list nth sx_Z].
  rewrite sx_nat_of_nat. destruct r, k; reflexivity.
Qed.
Lemma map_dec_enc_call cs : map dec_call (map enc_call cs) = cs.
Proof. rewrite map_map. rewrite (map_ext _ (fun c => c) dec_enc_call). apply map_id. Qed.

Lemma dec_enc_err e :
  mkerr (ecode e) (dec_tag (enc_tag (etag_of e))) (if (enc_origin (eorigin e) =? 2)%Z then RB else RA) = e.
Proof. destruct e as [c t og]. cbn [ecode etag_of eorigin]. destruct t as [|[]|[]|[]], og; reflexivity. Qed.

Lemma dec_obs_enc_res n st rm :
  dec_obs_res (enc_res n st rm) = mkres (okv rm) (firstn 1 (errs rm)) (calls rm).
Proof.
  unfold dec_obs_res, enc_res. destruct (errs rm) as [|e l]; unfold sx_nth; cbn [sx_list nth];
    rewrite sx_nats_of_nats, map_dec_enc_call.
  - reflexivity.
  - change (sx_bool (A 0)) with false. cbn [sx_Z firstn]. rewrite dec_enc_err. reflexivity.
Qed.

Lemma enc_res_stores n st rm :
  sx_nth (enc_res n st rm) 6 = enc_store n (sA st) /\ sx_nth (enc_res n st rm) 7 = enc_store n (sB st).
Proof. unfold enc_res. destruct (errs rm); split; reflexivity. Qed.

(** * The relation between a model run and an observation under which the
    monitor is silent *)
Definition obs_ok (n : nat) (p : op) (st' : mstate) (rm : result) (ob : sx) : Prop :=
  obs_rel p rm (dec_obs_res ob)
  /\ eqn n (store_of (sx_nth ob 6)) (sA st') /\ eqn n (store_of (sx_nth ob 7)) (sB st').

Fixpoint rel_ops (n : nat) (st : mstate) (ops obs : list sx) : Prop :=
  match ops, obs with
  | s :: t, ob :: obt =>
      let '(o, p) := dec_op s in
      let '(st', r) := step o st p in
      obs_ok n p st' r ob /\ rel_ops n st' t obt
  | _, _ => True
  end.

Lemma mon_ops_silent n : forall ops obs k pa pb st,
  rel_ops n st ops obs ->
  (forall s, In s ops -> op_in_range n (snd (dec_op s))) ->
  eqn n pa (sA st) -> eqn n pb (sB st) -> k = rnd st ->
  mon_ops n k pa pb ops obs = [].
Proof.
  induction ops as [|s t IH]; intros obs k pa pb st HR Hrng Ha Hb Hk; [reflexivity|].
  destruct obs as [|ob obt]; [reflexivity|].
  cbn [mon_ops rel_ops] in *.
  assert (Rp : op_in_range n (snd (dec_op s))) by (apply Hrng; left; reflexivity).
  destruct (dec_op s) as [o p] eqn:D. cbn [snd] in Rp.
  destruct (step o st p) as [st' rm] eqn:S1.
  destruct HR as ((Hrel & Hqa & Hqb) & HR').
  rewrite (check_op_ext n o pa pb p _ _ _ (sA st) (sB st) (sA st') (sB st') Ha Hb Hqa Hqb Rp).
  rewrite (check_op_model n _ _ _ _ _ _ S1 Hrel). subst k.
  rewrite (check_alt_model _ _ _ _ _ _ S1 Hrel). cbn [app].
  apply (IH obt _ _ _ st' HR'); [|exact Hqa|exact Hqb|].
  - intros s' Hs. apply Hrng. right. exact Hs.
  - rewrite (step_rnd_next _ _ _ _ _ S1). reflexivity.
Qed.

Lemma wf11_range_spec inp :
  wf11_range inp = true ->
  forall s, In s (sx_list (sx_nth inp 3)) -> op_in_range (sx_nat (sx_nth inp 0)) (snd (dec_op s)).
Proof.
  intros H s Hs d Hd. unfold wf11_range in H.
  pose proof (proj1 (forallb_forall _ _) H s Hs) as H1. unfold op_in_rangeb in H1.
  apply Nat.ltb_lt. exact (proj1 (forallb_forall _ _) H1 d Hd).
Qed.

Lemma mon11_of_rel inp obs :
  wf11_range inp = true -> is_panic obs = false ->
  length (sx_list (sx_nth inp 3)) = length (sx_list obs) ->
  rel_ops (sx_nat (sx_nth inp 0)) (init_state inp) (sx_list (sx_nth inp 3)) (sx_list obs) ->
  mon11 inp obs = [].
Proof.
  intros Hr Hp Hl HR. unfold mon11. rewrite Hp, Hl, Nat.eqb_refl. cbn [app].
  apply (mon_ops_silent _ _ _ _ _ _ (init_state inp) HR (wf11_range_spec inp Hr));
    [apply eqn_refl|apply eqn_refl|reflexivity].
Qed.

(** * (1) the model's own output *)
Lemma rel_ops_model n : forall ops st,
  rel_ops n st ops (map (fun x => enc_res n (fst x) (snd x)) (run_ops n st ops)).
Proof.
  induction ops as [|s t IH]; intros st; [exact I|].
  cbn [run_ops]. destruct (dec_op s) as [o p] eqn:D. destruct (step o st p) as [st' rm] eqn:S1.
  cbn [map rel_ops fst snd]. rewrite D, S1. split; [|apply IH].
  unfold obs_ok. rewrite dec_obs_enc_res. destruct (enc_res_stores n st' rm) as [-> ->].
  split; [|split; apply eqn_trunc].
  split; cbn [okv errs calls]; auto using incl_refl.
  - destruct (errs rm); reflexivity.
  - destruct (errs rm) as [|e l]; [apply incl_refl|]. intros x [<-|[]]. left. reflexivity.
Qed.

Lemma run_ops_length n : forall ops st, length (run_ops n st ops) = length ops.
Proof.
  induction ops as [|s t IH]; intros st; [reflexivity|].
  cbn [run_ops]. destruct (dec_op s) as [o p]. destruct (step o st p) as [st' rm].
  cbn [length]. rewrite IH. reflexivity.
Qed.

Lemma run11_not_panic inp : is_panic (run11 inp) = false.
Proof.
  unfold run11. cbv zeta.
  destruct (run_ops _ _ _) as [|x l]; [reflexivity|]. cbn [map].
  unfold enc_res at 1. destruct (errs (snd x)); reflexivity.
Qed.

Theorem mon11_silent_on_model : forall inp, wf11_range inp = true -> mon11 inp (run11 inp) = [].
Proof.
  intros inp Hr. apply (mon11_of_rel inp (run11 inp) Hr (run11_not_panic inp)).
  - unfold run11. cbn [sx_list]. rewrite map_length, run_ops_length. reflexivity.
  - unfold run11. cbn [sx_list]. apply rel_ops_model.
Qed.

(** * (2) every observation the judge accepts *)
Lemma insertZ_in x y l : In y (insertZ x l) <-> y = x \/ In y l.
Proof.
  induction l as [|h t IH]; cbn [insertZ].
  - cbn. intuition.
  - destruct (x <=? h)%Z; [cbn; intuition|]. cbn [In]. rewrite IH. intuition.
Qed.
Lemma sortZ_in y l : In y (sortZ l) <-> In y l.
Proof.
  induction l as [|h t IH]; cbn [sortZ fold_right]; [reflexivity|].
  fold (sortZ t). rewrite insertZ_in, IH. cbn. intuition.
Qed.

Lemma call_key_enc c :
  call_key (enc_call c) =
  (enc_rid (fst (fst c)) * 1000000 + enc_kind (snd (fst c)) * 100000 + Z.of_nat (snd c))%Z.
Proof. destruct c as [[r k] d]. reflexivity. Qed.

Lemma key_inj c1 c2 :
  (Z.of_nat (snd c1) < 100000)%Z -> (Z.of_nat (snd c2) < 100000)%Z ->
  call_key (enc_call c1) = call_key (enc_call c2) -> c1 = c2.
Proof.
  rewrite !call_key_enc. destruct c1 as [[r1 k1] d1], c2 as [[r2 k2] d2]. cbn [fst snd].
  destruct r1, k1, r2, k2; cbn [enc_rid enc_kind]; intros H1 H2 H;
    first [ (f_equal; lia) | (exfalso; lia) ].
Qed.

Lemma wf_call_sx_spec c :
  wf_call_sx c = true -> c = enc_call (dec_call c) /\ (Z.of_nat (snd (dec_call c)) < 100000)%Z.
Proof.
  unfold wf_call_sx. rewrite Bool.andb_true_iff. intros [E B]. apply sx_eqb_eq in E.
  split; [exact E|]. apply Z.ltb_lt in B. unfold dec_call. cbn [snd]. unfold sx_nat. lia.
Qed.

Lemma keys_incl (cs : list call) (l5 : list sx) :
  (forall c, In c cs -> (Z.of_nat (snd c) < 100000)%Z) ->
  forallb wf_call_sx l5 = true ->
  sortZ (map call_key (map enc_call cs)) = sortZ (map call_key l5) ->
  incl (map dec_call l5) cs /\ incl cs (map dec_call l5).
Proof.
  intros Hcs Hwf Hs.
  assert (Hin : forall z, In z (map call_key (map enc_call cs)) <-> In z (map call_key l5)).
  { intros z. rewrite <- (sortZ_in z (map call_key (map enc_call cs))), Hs. apply sortZ_in. }
  assert (W : forall c, In c l5 -> c = enc_call (dec_call c) /\ (Z.of_nat (snd (dec_call c)) < 100000)%Z).
  { intros c Hc. apply wf_call_sx_spec. exact (proj1 (forallb_forall _ _) Hwf c Hc). }
  split.
  - intros c' Hc'. apply in_map_iff in Hc'. destruct Hc' as (c & <- & Hc).
    assert (Hk : In (call_key c) (map call_key (map enc_call cs))).
    { apply Hin. apply in_map. exact Hc. }
    rewrite map_map in Hk. apply in_map_iff in Hk. destruct Hk as (cm & Ek & Hcm).
    destruct (W c Hc) as [Ec Bc]. rewrite Ec in Ek.
    rewrite <- (key_inj cm (dec_call c) (Hcs cm Hcm) Bc Ek). exact Hcm.
  - intros cm Hcm.
    assert (Hk : In (call_key (enc_call cm)) (map call_key l5)).
    { apply Hin. rewrite map_map. apply (in_map (fun c => call_key (enc_call c))). exact Hcm. }
    apply in_map_iff in Hk. destruct Hk as (c & Ek & Hc).
    destruct (W c Hc) as [Ec Bc]. rewrite Ec in Ek.
    rewrite (key_inj cm (dec_call c) (Hcs cm Hcm) Bc (eq_sym Ek)). apply in_map. exact Hc.
Qed.

Lemma of_Zs_inj a b : of_Zs a = of_Zs b -> a = b.
Proof. intros H. rewrite <- (sx_Zs_of_Zs a), <- (sx_Zs_of_Zs b), H. reflexivity. Qed.

Lemma agree_op_ok n o st p st' rm ob :
  step o st p = (st', rm) ->
  key_safe_op p = true ->
  bump_op p || forallb wf_call_sx (sx_list (sx_nth ob 5)) = true ->
  agree_op n p st' rm ob = true -> obs_ok n p st' rm ob.
Proof.
  intros S1 Hk Hw Hag. unfold agree_op in Hag. cbv zeta in Hag.
  rewrite !Bool.andb_true_iff in Hag. destruct Hag as (((((H1 & H2) & H3) & H4) & H5) & H6).
  apply Bool.eqb_prop in H1. apply sx_eqb_eq in H2, H5, H6.
  unfold obs_ok. rewrite <- H5, <- H6. split; [|split; apply eqn_trunc].
  assert (HC : incl (map dec_call (sx_list (sx_nth ob 5))) (calls rm)
               /\ incl (calls rm) (map dec_call (sx_list (sx_nth ob 5)))
               /\ (bump_op p = true -> map dec_call (sx_list (sx_nth ob 5)) = calls rm)).
  { destruct (bump_op p) eqn:B.
    - apply sx_eqb_eq in H4. rewrite <- H4. cbn [sx_list]. rewrite map_dec_enc_call.
      auto using incl_refl.
    - cbn [orb] in Hw. apply sx_eqb_eq, of_Zs_inj in H4.
      unfold key_safe_op in Hk. rewrite B in Hk. cbn [orb] in Hk.
      destruct (keys_incl (calls rm) (sx_list (sx_nth ob 5))) as [I1 I2]; [|exact Hw|exact H4|].
      + intros c Hc. destruct (step_calls_digests _ _ _ _ _ S1 B c Hc) as [->|I]; [reflexivity|].
        apply Z.ltb_lt. exact (proj1 (forallb_forall _ _) Hk _ I).
      + split; [exact I1|]. split; [exact I2|discriminate]. }
  destruct HC as (C1 & C2 & C3).
  unfold dec_obs_res. split; cbn [okv errs calls]; try assumption.
  - rewrite H2. apply sx_nats_of_nats.
  - rewrite H1. destruct (is_nil (errs rm)); reflexivity.
  - destruct (sx_bool (sx_nth ob 0)); [apply incl_nil_l|]. cbn [orb] in H3.
    apply existsb_exists in H3. destruct H3 as (e & He & Hc).
    rewrite !Bool.andb_true_iff, !Z.eqb_eq in Hc. destruct Hc as ((Hc1 & Hc2) & Hc3).
    rewrite <- Hc1, <- Hc2, <- Hc3, dec_enc_err. intros x [<-|[]]. exact He.
Qed.

Lemma agree_ops_rel n : forall ops obs st,
  forallb (fun s => key_safe_op (snd (dec_op s))) ops = true ->
  wf11_calls ops obs = true ->
  agree_ops n st ops obs = true ->
  length ops = length obs /\ rel_ops n st ops obs.
Proof.
  induction ops as [|s t IH]; intros obs st Hk Hw Hag; destruct obs as [|ob obt]; try discriminate.
  - split; [reflexivity|exact I].
  - cbn [agree_ops rel_ops wf11_calls forallb length] in *.
    destruct (dec_op s) as [o p] eqn:D. cbn [snd] in *. destruct (step o st p) as [st' rm] eqn:S1.
    apply Bool.andb_true_iff in Hk, Hw, Hag. destruct Hk as [Hk1 Hk2], Hw as [Hw1 Hw2], Hag as [Ha1 Ha2].
    destruct (IH obt st' Hk2 Hw2 Ha2) as [L R].
    split; [rewrite L; reflexivity|]. split; [|exact R].
    exact (agree_op_ok _ _ _ _ _ _ _ S1 Hk1 Hw1 Ha1).
Qed.

Theorem mon11_silent_on_allowed : forall inp obs,
  wf11_range inp = true -> wf11_keys inp = true ->
  wf11_calls (sx_list (sx_nth inp 3)) (sx_list obs) = true ->
  is_panic obs = false ->
  agree_ops (sx_nat (sx_nth inp 0)) (init_state inp) (sx_list (sx_nth inp 3)) (sx_list obs) = true ->
  mon11 inp obs = [].
Proof.
  intros inp obs Hr Hk Hw Hp Hag.
  destruct (agree_ops_rel _ _ _ _ Hk Hw Hag) as [L R].
  exact (mon11_of_rel inp obs Hr Hp L R).
Qed.

(** * The judge: "agree" implies "no violation" *)
Definition verdict_agree (v : sx) : bool := sx_bool (sx_nth v 0).
Definition verdict_violates (v : sx) : bool := sx_bool (sx_nth v 1).

Lemma verdict_fields11 a v m d :
  verdict_agree (verdict a v m d) = a /\ verdict_violates (verdict a v m d) = v.
Proof.
  unfold verdict_agree, verdict_violates, verdict, sx_nth. cbn [sx_list nth].
  rewrite !sx_bool_of_bool. split; reflexivity.
Qed.

Theorem judge11_agree_not_violates : forall inp obs,
  wf11_range inp = true -> wf11_keys inp = true ->
  wf11_calls (sx_list (sx_nth inp 3)) (sx_list obs) = true ->
  verdict_agree (judge11 inp obs) = true -> verdict_violates (judge11 inp obs) = false.
Proof.
  intros inp obs Hr Hk Hw. unfold judge11. cbv zeta.
  destruct (verdict_fields11
              (negb (is_panic obs)
               && agree_ops (sx_nat (sx_nth inp 0)) (init_state inp) (sx_list (sx_nth inp 3)) (sx_list obs))
              (negb (match mon11 inp obs with [] => true | _ => false end))
              (run11 inp) (of_Zs (mon11 inp obs))) as [-> ->].
  intros Ha. apply Bool.andb_true_iff in Ha. destruct Ha as [Hp Hag].
  apply Bool.negb_true_iff in Hp.
  rewrite (mon11_silent_on_allowed inp obs Hr Hk Hw Hp Hag). reflexivity.
Qed.

(** * The digest bound of [wf11_keys] is needed even when every digest is in
    range.  For any universe [n] above 100000 and [d] = 100000 < n: an upload
    of [d] whose B branch is answered NOT_FOUND.  The model's call log
    {(A,Put,d), (B,Put,d)} and the (well-formed) observed log {(A,FindMissing,0),
    (B,FindMissing,0)} have the same [call_key]s, the judge's agreement
    accepts the observation, and clause 8 fires on it because NOT_FOUND was
    not injected on any call of the observed log.  (Stated for symbolic [n],
    [d]: evaluating the monitor at n = 100001 takes ~10^10 steps.) *)
Definition kn_fault : sx := L [A 1; A 1; A 100000; A 5].
Definition kn_op : sx := L [A 1; L [kn_fault]; A 100000; A 5; A 0].
Definition kn_inp (n : nat) : sx := L [of_nat n; L []; L []; L [kn_op]].
Definition kn_ob (n d : nat) : sx :=
  L [A 0; L []; A 5; A 2; A 2; L [L [A 0; A 2; A 0]; L [A 1; A 2; A 0]];
     enc_store n [(d, 5)]; enc_store n []].
Definition kn_obs (n d : nat) : sx := L [kn_ob n d].
Definition kn_o : oracle := oracle_of [kn_fault].

Lemma kn_oracle d : Z.of_nat d = 100000%Z -> forall r k d',
  kn_o r k d' = if rid_eqb r RB && kind_eqb k KPut && Nat.eqb d' d then 5%Z else 0%Z.
Proof.
  intros Hd r k d'. assert (Hdz : Z.to_nat 100000 = d) by lia.
  unfold kn_o, oracle_of, kn_fault, sx_nth, sx_nat. cbn [sx_list nth sx_Z]. rewrite Hdz.
  destruct r, k; reflexivity.
Qed.

Lemma kn_dec_op d : Z.of_nat d = 100000%Z -> dec_op kn_op = (kn_o, OPut d 5).
Proof.
  intros Hd. assert (Hdz : Z.to_nat 100000 = d) by lia.
  unfold dec_op, kn_op, sx_nth, sx_nat. cbn [sx_list nth sx_Z Z.eqb Pos.eqb]. rewrite Hdz. reflexivity.
Qed.

Lemma kn_step d : Z.of_nat d = 100000%Z ->
  step kn_o (mkst [] [] 0) (OPut d 5) =
  (mkst [(d, 5)] [] 0, mkres [] [mkerr 5 (TBackend RB) RB] [(RA, KPut, d); (RB, KPut, d)]).
Proof.
  intros Hd. cbn [step]. unfold m_put, put_branch, rput. cbn [sto sA sB].
  rewrite (kn_oracle d Hd RA KPut d). cbn [rid_eqb andb Z.eqb set_sto sto sA sB rnd].
  rewrite (kn_oracle d Hd RB KPut d), Nat.eqb_refl. reflexivity.
Qed.

Theorem keys_hypothesis_needed : forall n d, Z.of_nat d = 100000%Z -> d < n ->
  wf11_range (kn_inp n) = true
  /\ wf11_keys (kn_inp n) = false
  /\ wf11_calls (sx_list (sx_nth (kn_inp n) 3)) (sx_list (kn_obs n d)) = true
  /\ is_panic (kn_obs n d) = false
  /\ agree_ops (sx_nat (sx_nth (kn_inp n) 0)) (init_state (kn_inp n))
       (sx_list (sx_nth (kn_inp n) 3)) (sx_list (kn_obs n d)) = true
  /\ mon11 (kn_inp n) (run11 (kn_inp n)) = []
  /\ In 8%Z (mon11 (kn_inp n) (kn_obs n d)).
Proof.
  intros n d Hd Hn.
  assert (N0 : sx_nat (sx_nth (kn_inp n) 0) = n) by apply sx_nat_of_nat.
  assert (O3 : sx_list (sx_nth (kn_inp n) 3) = [kn_op]) by reflexivity.
  assert (I0 : init_state (kn_inp n) = mkst [] [] 0) by reflexivity.
  assert (R : wf11_range (kn_inp n) = true).
  { unfold wf11_range. rewrite N0, O3. cbn [forallb]. rewrite (kn_dec_op d Hd).
    unfold op_in_rangeb. cbn [snd op_digests forallb]. apply Nat.ltb_lt in Hn. rewrite Hn. reflexivity. }
  split; [exact R|]. split.
  { unfold wf11_keys. rewrite O3. cbn [forallb]. rewrite (kn_dec_op d Hd).
    unfold key_safe_op. cbn [snd bump_op op_digests forallb orb]. rewrite Hd. reflexivity. }
  split; [reflexivity|]. split; [reflexivity|]. split.
  { rewrite N0, O3, I0. cbn [kn_obs sx_list agree_ops]. rewrite (kn_dec_op d Hd), (kn_step d Hd).
    rewrite Bool.andb_true_r. unfold agree_op, kn_ob, sx_nth. cbn [sx_list nth sA sB errs okv calls bump_op].
    rewrite !sx_eqb_refl. cbn [map]. rewrite !call_key_enc. cbn [fst snd]. rewrite Hd. reflexivity. }
  split; [exact (mon11_silent_on_model _ R)|].
  unfold mon11. change (is_panic (kn_obs n d)) with false. cbv iota.
  apply in_or_app. right. rewrite N0, O3. cbn [kn_obs sx_list mon_ops]. rewrite (kn_dec_op d Hd).
  apply in_or_app. left. rewrite check_op_eq.
  apply in_or_app. right. apply in_or_app. right. apply in_or_app. right. apply in_or_app. left.
  assert (C8 : cl8 kn_o (store_of (sx_nth (kn_inp n) 1)) (store_of (sx_nth (kn_inp n) 2)) (OPut d 5)
                   (dec_obs_res (kn_ob n d)) = false).
  { unfold cl8, dec_obs_res, kn_ob, sx_nth. cbn [sx_list nth errs calls map forallb].
    unfold wf_on, dec_call, sx_nth. cbn [sx_list nth map forallb sx_Z].
    change (dec_rid 0) with RA. change (dec_rid 1) with RB. change (dec_kind 2) with KFM.
    change (sx_nat (A 0)) with 0.
    rewrite (kn_oracle d Hd RA KFM 0), (kn_oracle d Hd RB KFM 0). reflexivity. }
  rewrite C8. left. reflexivity.
Qed.

(** one step of the model, both clause groups *)
Lemma mon11_one_step : forall n o st p st' rm r,
  step o st p = (st', rm) -> obs_rel p rm r ->
  check_op n o (sA st) (sB st) p r (sA st') (sB st') = nil /\ check_alt (rnd st) p r = nil.
Proof. intros n o st p st' rm r H R. exact (conj (check_op_model n _ _ _ _ _ _ H R) (check_alt_model _ _ _ _ _ _ H R)). Qed.
