(** C07, "the monitor is silent on the model" — part 6: coverage along one
    [quiesce] (clauses 4 and 6).

    [ctraj]: while the loops run to quiescence the ghost records of the
    acknowledged uploads stay valid; their levels change only from 0 to 1 (a
    DataSyncer call is entered through NotifySyncStarting); at most one
    GetPersistentState happens, and the state it takes passes [check_write]
    for every acknowledged upload ([okw]); a state write that was already in
    flight keeps passing it. *)
From Coq Require Import List NArith ZArith Bool Arith Lia.
From BBS Require Import Common.Sx Persist.PBL Persist.PBLProofs Persist.Syncer Persist.SyncerProofs
  Persist.LiveActs Persist.LiveCover Persist.LiveRelease Run.R07 Run.R07MonBase Run.R07MonOps Run.R07MonC123
  Run.R07MonCov1.
Import ListNotations.
Local Open Scope nat_scope.

Definition offs (p : pbl) : list Z := map (fun b => fst (b_loc b)) (blocks p).

Lemma int_fields a p p' : apply_act a p = Ok p' ->
  match a with
  | APush _ | APop | AFin _ _ _ _ => True
  | _ => offs p' = offs p /\ epochSeeds p' = epochSeeds p
  end.
Proof.
  destruct a as [|al| |tok blk size seed| |b|t|t]; cbn [apply_act]; auto.
  - intros H; inversion H; auto.
  - intros H; inversion H; subst. unfold offs. cbn. rewrite map_map. auto.
  - intros H; inversion H; subst. destruct (nsc_fields p) as [Fb [Fs _]].
    destruct b; unfold offs; cbn [blocks epochSeeds notify_sync_starting]; rewrite Fb, Fs, ?map_map; auto.
  - destruct (get_persistent_state p) as [[p1 st]|] eqn:Eg; [|discriminate]. cbn. intros H; inversion H; subst.
    destruct (gps_fields _ _ _ Eg) as [Hc _]. unfold core in Hc. inversion Hc. unfold offs. split; congruence.
  - intros H. destruct (nsw_fields _ _ H) as [Hc _]. unfold core in Hc. inversion Hc. unfold offs. split; congruence.
Qed.

Lemma u32_u32 a : u32 (u32 a) = u32 a.
Proof. unfold u32. apply N.mod_mod. discriminate. Qed.

Definition winv (st : pstate) (E : nat) (p : pbl) : Prop :=
  u32 (oldestEpochID p) = u32 (fst st + N.of_nat E) /\ st_nseeds st <= synchronizedEpochs p + E.

Lemma winv_act st E a p p' : pbl_inv p -> winv st E p -> apply_act a p = Ok p' -> winv st (E + popc a p) p'.
Proof.
  intros I [W1 W2] Ha.
  assert (Hsame : sfields p' = sfields p -> popc a p = 0 -> winv st (E + popc a p) p').
  { intros Hs Hp. unfold sfields in Hs. inversion Hs as [[H1 H2 H3 H4]]. rewrite Hp, Nat.add_0_r.
    unfold winv. rewrite H2, H3. auto. }
  destruct a as [|al| |tok blk size seed| |b|t|t]; cbn [apply_act] in Ha.
  - inversion Ha; subst. apply Hsame; reflexivity.
  - inversion Ha; subst. apply Hsame; [apply push_sfields|reflexivity].
  - destruct (blocks p) as [|fb rest] eqn:Eb; [unfold pop_front in Ha; rewrite Eb in Ha; discriminate|].
    destruct (pop_fields _ _ _ _ Eb Ha) as [_ [_ [_ [_ [_ [Fsd [_ [_ [_ [_ Fo]]]]]]]]]].
    cbn [popc]. rewrite Eb. unfold winv. rewrite Fsd, Fo. split; [|lia].
    rewrite u32_u32, <- u32_idem_l, W1, u32_idem_l. f_equal. lia.
  - destruct (put_finalize _ _ _ _ _) as [[p1 fr]|] eqn:Ef; [|discriminate]. cbn in Ha. inversion Ha; subst.
    apply Hsame; [eapply fin_sfields; eauto|reflexivity].
  - inversion Ha; subst. cbn [popc]. rewrite Nat.add_0_r. unfold winv. cbn. auto.
  - inversion Ha; subst. cbn [popc]. rewrite Nat.add_0_r.
    destruct (nsc_fields p) as [_ [_ [_ [_ [_ [Fsd [_ [_ [_ [_ Fo]]]]]]]]]]. pose proof (i_sync1 _ I).
    destruct b; unfold winv; cbn [synchronizedEpochs oldestEpochID notify_sync_starting]; rewrite Fsd, Fo; split; auto; lia.
  - destruct (get_persistent_state p) as [[p1 st1]|] eqn:Eg; [|discriminate]. cbn in Ha. inversion Ha; subst.
    destruct (gps_fields _ _ _ Eg) as [Hc [_ [_ [_ [_ [Ho _]]]]]]. apply Hsame; [|reflexivity].
    unfold core in Hc. inversion Hc. unfold sfields. congruence.
  - destruct (nsw_fields _ _ Ha) as [Hc [_ [_ [_ [_ Ho]]]]]. apply Hsame; [|reflexivity].
    unfold core in Hc. inversion Hc. unfold sfields. congruence.
Qed.

Definition should (j : option nat) (k : ack) : bool :=
  match j with Some j0 => (k_step k <? j0)%nat | None => false end.

Definition Wp (acks : list ack) (Etot sb : nat) (s : sys) (cur : option pendw) : Prop :=
  forall t st, written_state s t = Some st ->
    exists j popped E, cur = Some (mkPendw (enc_st st) j popped)
      /\ Forall (okw (mkPendw (enc_st st) j popped)) acks
      /\ winv st E (s_pbl s) /\ E <= Etot /\ (forall j0, j = Some j0 -> j0 <= sb).

Definition lift (e : bool) (g : gack) : gack :=
  if e then mkG (g_o g) (Nat.max (g_lv g) 1) (g_d g) else g.
Definition entered (x1 xc : xst) : bool := negb (is_syncing (x_sys x1)) && is_syncing (x_sys xc).

Lemma F2_next a p p' acks gs : pbl_inv p -> inv_last p -> apply_act a p = Ok p' ->
  Forall2 (ack_ok p) acks gs -> Forall2 (ack_ok p') acks (map (g_next a p) gs).
Proof.
  intros I L Ha F. induction F as [|k g ks gs' Hk F IH]; cbn [map]; constructor; auto.
  eapply ack_ok_act; eauto.
Qed.

Lemma g_next_id a p g : (forall lv, lv_next lv a = lv) -> popc a p = 0 -> g_next a p g = g.
Proof. intros H1 H2. destruct g. unfold g_next. cbn. rewrite H1, H2, Nat.add_0_r. reflexivity. Qed.

Lemma thr_uploads cfg s t a s' : inv1 s -> step cfg s (EStep t a) = Some (Ok s') -> s_uploads s' = s_uploads s.
Proof.
  intros II. destruct t; cbn [step].
  - unfold rstep. destruct (s_r s) as [|ch|w].
    + intros H; inversion H; reflexivity.
    + destruct (is_closed _ _); [|discriminate]. intros H; inversion H; reflexivity.
    + destruct (wstep cfg TR w a s) as [o|] eqn:Ew; [|discriminate].
      destruct (wstep_inv1 _ _ _ _ _ _ II Ew) as [s1 [w' [-> [_ [Hu _]]]]].
      destruct w'; intros H; inversion H; subst; exact Hu.
  - unfold pstep. destruct (s_p s) as [|ch|ch|dl|keep|keep final|keep final|keep final dl|keep w|].
    + intros H; inversion H; reflexivity.
    + destruct (is_closed _ _); intros H; inversion H; reflexivity.
    + destruct (s_cancel s && _); [|destruct (is_closed _ _); [|discriminate]]; intros H; inversion H; reflexivity.
    + destruct (s_cancel s && _); [|destruct (_ && _)%bool; [|discriminate]]; intros H; inversion H; reflexivity.
    + intros H; inversion H; reflexivity.
    + destruct (a_ok a); intros H; inversion H; reflexivity.
    + destruct (negb keep && negb final); intros H; inversion H; reflexivity.
    + destruct (_ <=? _)%N; [|discriminate]. intros H; inversion H; reflexivity.
    + destruct (wstep cfg TP w a s) as [o|] eqn:Ew; [|discriminate].
      destruct (wstep_inv1 _ _ _ _ _ _ II Ew) as [s1 [w' [-> [_ [Hu _]]]]].
      destruct w'; intros H; inversion H; subst; exact Hu.
    + discriminate.
Qed.

(** a thread that is inside WritePersistentState holds storeLock *)
Lemma writing_holds s t st : written_state s t = Some st ->
  match t with TR => r_holds s = true | TP => p_holds s = true end.
Proof.
  destruct t; cbn [written_state]; unfold r_holds, p_holds.
  - destruct (s_r s) as [| |[]]; try discriminate. reflexivity.
  - destruct (s_p s) as [| | | | | | | |? []|]; try discriminate. reflexivity.
Qed.

Lemma getstate_holds s t : at_getstate t s = true ->
  match t with TR => r_holds s = true | TP => p_holds s = true end.
Proof.
  destruct t; cbn [at_getstate]; unfold r_holds, p_holds.
  - destruct (s_r s) as [| |[]]; try discriminate. reflexivity.
  - destruct (s_p s) as [| | | | | | | |? []|]; try discriminate. reflexivity.
Qed.

Lemma holds_excl s t t' : inv3 s ->
  match t with TR => r_holds s = true | TP => p_holds s = true end ->
  match t' with TR => r_holds s = true | TP => p_holds s = true end -> t = t'.
Proof.
  intros [_ I3] H1 H2. destruct t, t'; auto; rewrite H1, H2 in I3; discriminate.
Qed.

Lemma written_frame cfg s t a s' t0 : inv1 s -> step cfg s (EStep t a) = Some (Ok s') -> t0 <> t ->
  written_state s' t0 = written_state s t0.
Proof.
  intros II Hs Hne. destruct t; cbn [step] in Hs; destruct t0; try congruence; cbn [written_state].
  - rewrite (rstep_frame _ _ _ _ II Hs). reflexivity.
  - rewrite (pstep_frame _ _ _ _ II Hs). reflexivity.
Qed.

Lemma act_getstate s t a : act_of s (EStep t a) = AGetState t <-> at_getstate t s = true.
Proof.
  destruct t; cbn [act_of at_getstate].
  - destruct (s_r s) as [| |[]]; cbn; split; intros H; try discriminate; reflexivity.
  - destruct (s_p s) as [| | | | | | | |? []|]; cbn; split; intros H; try discriminate; reflexivity.
Qed.

(** a thread enters WWriting only through GetPersistentState *)
Lemma written_new cfg s t a s' st : step cfg s (EStep t a) = Some (Ok s') -> inv1 s ->
  written_state s' t = Some st -> written_state s t = Some st \/ at_getstate t s = true.
Proof.
  intros Hs II Hw. destruct t; cbn [step] in Hs; cbn [written_state at_getstate] in *.
  - pose proof (rstep_shape _ _ _ _ Hs) as Sh. revert Sh Hw.
    destruct (s_r s) as [|c|w]; intros Sh Hw.
    + destruct Sh as [c Sh]. rewrite Sh in Hw. discriminate.
    + rewrite Sh in Hw. discriminate.
    + destruct Sh as [[w' [Sh Sw]]|[_ Sh]]; rewrite Sh in Hw; [|discriminate].
      destruct w.
      * subst w'. discriminate Hw.
      * right. reflexivity.
      * destruct Sw as [[_ ->]|[_ ->]]; discriminate Hw.
      * destruct Sw.
      * subst w'. discriminate Hw.
  - destruct (pstep_shape _ _ _ _ II Hs) as [_ [_ [Sh _]]]. revert Sh Hw.
    destruct (s_p s) as [|ch|ch|dl|keep|keep final|keep final|keep final dl|keep w|]; intros Sh Hw.
    + destruct Sh as [c Sh]. rewrite Sh in Hw. discriminate.
    + destruct Sh as [Sh|Sh]; rewrite Sh in Hw; discriminate.
    + destruct Sh as [[_ Sh]|Sh]; rewrite Sh in Hw; discriminate.
    + destruct Sh as [[_ [Sh _]]|[Sh _]]; rewrite Sh in Hw; discriminate.
    + rewrite Sh in Hw. discriminate.
    + destruct Sh as [[_ Sh]|[_ Sh]]; rewrite Sh in Hw; discriminate.
    + destruct Sh as [[_ [_ Sh]]|[_ Sh]]; rewrite Sh in Hw; discriminate.
    + rewrite Sh in Hw. discriminate.
    + destruct Sh as [[w' [Sh Sw]]|[_ Sh]]; rewrite Sh in Hw; [|destruct keep; discriminate].
      destruct w.
      * subst w'. discriminate Hw.
      * right. reflexivity.
      * destruct Sw as [[_ ->]|[_ ->]]; discriminate Hw.
      * destruct Sw.
      * subst w'. discriminate Hw.
    + destruct Sh.
Qed.

Lemma F2_lv2_gen j acks gs e : Forall2 (fun k g => g_lv g = 2 <-> should j k = true) acks gs ->
  Forall2 (fun k g => g_lv g = 2 <-> should j k = true) acks (map (lift e) gs).
Proof.
  intros F. induction F as [|k g ks gs' Hk F IH]; cbn [map]; constructor; auto.
  destruct e; cbn [lift g_lv]; [|exact Hk]. destruct Hk as [H1 H2]. split; intros H.
  - apply H1. lia.
  - specialize (H2 H). lia.
Qed.

Lemma F2_zm_lift popped tr acks gs e :
  Forall2 (fun k g => o_block (g_o g) < tr -> zmem (k_loc k) popped = true) acks gs ->
  Forall2 (fun k g => o_block (g_o g) < tr -> zmem (k_loc k) popped = true) acks (map (lift e) gs).
Proof.
  intros F. induction F as [|k g ks gs' Hk F IH]; cbn [map]; constructor; auto.
  destruct e; cbn [lift g_o]; exact Hk.
Qed.

Lemma okw_all p p' st j popped acks gl :
  pbl_inv p -> inv_last p -> get_persistent_state p = Ok (p', st) -> length (epochSeeds p) < N.to_nat M32 ->
  Forall2 (fun k g => o_block (g_o g) < totalReleased p -> zmem (k_loc k) popped = true) acks gl ->
  Forall2 (ack_ok p) acks gl ->
  Forall2 (fun k g => g_lv g = 2 <-> should j k = true) acks gl ->
  Forall (okw (mkPendw (enc_st st) j popped)) acks.
Proof.
  intros I L Hg Hb Hz Hok Hl2. induction Hok as [|k g ks gs' Hk F IH]; [constructor|].
  inversion Hz; subst. inversion Hl2; subst. constructor; [|apply IH; auto].
  eapply okw_at_issue; eauto.
Qed.

Section Traj.
Variable cfg : config.
Variable alloc : loc -> Z -> bool.
Variable oldest : N.
Variable init : list bstate.
Variable t0 : N.
Notation good := (good cfg alloc oldest init t0).

(* the monitor's values after this operation, fixed while the loops run *)
Variable acks' : list ack.
Variable gs1 : list gack.
Variable cur1 : option pendw.
Variable j' : option nat.
Variable popped' : list Z.
Variable Etot sb : nat.
Variable x1 : xst.

Hypothesis Hbound : length (epochSeeds (s_pbl (x_sys x1))) < N.to_nat M32.
Hypothesis Hzm : Forall2 (fun k g => o_block (g_o g) < totalReleased (s_pbl (x_sys x1)) -> zmem (k_loc k) popped' = true)
                         acks' gs1.
Hypothesis Hlv : Forall2 (fun k g => g_lv g = 2 <-> should j' k = true) acks' gs1.
Hypothesis Hjsb : forall j0, j' = Some j0 -> j0 <= sb.

Record ctraj (xc : xst) : Prop := mkCT {
  ct_gs : Forall2 (ack_ok (s_pbl (x_sys xc))) acks' (map (lift (entered x1 xc)) gs1);
  ct_not_ret : forall k f, s_p (x_sys xc) <> PSyncRet k f;
  ct_sync1 : is_syncing (x_sys x1) = true -> s_p (x_sys xc) = s_p (x_sys x1);
  ct_w : exists cur_c, Wp acks' Etot sb (x_sys xc) cur_c /\
           ((x_nwr xc = x_nwr x1 /\ cur_c = cur1) \/
            (x_nwr xc = S (x_nwr x1) /\ exists t st, written_state (x_sys xc) t = Some st
                                        /\ cur_c = Some (mkPendw (enc_st st) j' popped')));
  ct_offs : offs (s_pbl (x_sys xc)) = offs (s_pbl (x_sys x1));
  ct_seeds : epochSeeds (s_pbl (x_sys xc)) = epochSeeds (s_pbl (x_sys x1));
  ct_tr : totalReleased (s_pbl (x_sys xc)) = totalReleased (s_pbl (x_sys x1));
  ct_upl : s_uploads (x_sys xc) = s_uploads (x_sys x1);
  ct_cnt : same_counters x1 xc
}.

Lemma F2_lv2 e : Forall2 (fun k g => g_lv g = 2 <-> should j' k = true) acks' (map (lift e) gs1).
Proof. apply F2_lv2_gen. exact Hlv. Qed.

Lemma ctraj_step xc t x' : ctraj xc -> good (x_sys xc) -> t_internal cfg (x_sys xc) t = true ->
  tstep cfg t internal_ans xc = Some (Ok x') -> ctraj x'.
Proof.
  intros [C1 C2 C3 [cur_c [C4 C4']] C5 C6 C7 C8 C9] G Hi Ht.
  destruct (tstep_ok _ _ _ _ _ Ht) as [Hs [Hcnt [Hwr Hsy]]].
  pose proof (good_inv1 _ _ _ _ _ _ G) as II.
  destruct (reachable_linv _ _ _ _ _ _ (proj1 G)) as [_ LL].
  destruct (reachable_inv_all _ _ _ _ _ _ (proj1 G)) as [_ [_ [I3 _]]].
  pose proof (step_act _ _ _ _ Hs) as Ha.
  set (s := x_sys xc) in *. set (a := act_of s (EStep t internal_ans)) in *.
  pose proof (thr_uploads _ _ _ _ _ II Hs) as Hup.
  pose proof (internal_act_tr _ _ _ _ _ Hs) as Htr.
  (* classification of the step *)
  assert (Hcls : (a = ANone \/ a = AWritten t \/ a = AGetState t) \/
                 (a = ASyncStart /\ t = TP /\ exists k, s_p s = PNotify k)).
  { unfold a, act_of. destruct t.
    - destruct (s_r s) as [| |[]]; cbn; auto.
    - destruct (s_p s) as [| | | |k|k f|k f|k f d|k w|] eqn:Ep; cbn; auto.
      + right. eauto.
      + exfalso. first [eapply C2; exact Ep|eapply C2; reflexivity].
      + destruct w; cbn; auto. }
  pose proof (int_fields _ _ _ Ha) as Hf.
  assert (Hf' : offs (s_pbl (x_sys x')) = offs (s_pbl s) /\ epochSeeds (s_pbl (x_sys x')) = epochSeeds (s_pbl s)).
  { destruct Hcls as [[E|[E|E]]|[E _]]; rewrite E in Hf; exact Hf. }
  destruct Hf' as [Hf1 Hf2].
  assert (Hpop0 : popc a (s_pbl s) = 0).
  { destruct Hcls as [[E|[E|E]]|[E _]]; rewrite E; reflexivity. }
  (* is the put loop inside a DataSyncer call afterwards? *)
  assert (Hsyn : is_syncing (x_sys x') = match a with ASyncStart => true | _ => is_syncing s end
                 /\ (a = ASyncStart -> is_syncing s = false /\ is_syncing (x_sys x1) = false)
                 /\ (is_syncing (x_sys x1) = true -> s_p (x_sys x') = s_p (x_sys x1))).
  { destruct t; cbn [step t_internal] in *.
    - pose proof (rstep_frame _ _ _ _ II Hs) as Ep.
      assert (a <> ASyncStart) as Hn.
      { destruct Hcls as [[E|[E|E]]|[_ [E _]]]; [rewrite E; discriminate|rewrite E; discriminate|rewrite E; discriminate|discriminate E]. }
      unfold is_syncing. rewrite Ep. split; [destruct a; try reflexivity; congruence|]. split; [congruence|].
      intros H. apply C3. exact H.
    - destruct (pstep_shape _ _ _ _ II Hs) as [_ [_ [Sh _]]].
      assert (Hns : is_syncing s = false).
      { unfold p_internal, p_in_io in Hi. unfold is_syncing. destruct (s_p s); try reflexivity. cbn in Hi. discriminate. }
      assert (Hn1 : is_syncing (x_sys x1) = false).
      { destruct (is_syncing (x_sys x1)) eqn:E1; [|reflexivity]. specialize (C3 eq_refl).
        unfold is_syncing in Hns, E1. fold s in C3. rewrite C3 in Hns. congruence. }
      split; [|split; [auto|intros H; congruence]].
      destruct Hcls as [Hc|[E [_ [k Ep]]]].
      + assert (is_syncing (x_sys x') = false) as ->.
        { unfold is_syncing. unfold is_syncing in Hns. unfold p_internal, p_in_io, p_in_timer in Hi.
          revert Sh. unfold a, act_of in Hc.
          destruct (s_p s) as [|ch|ch|dl|keep|keep final|keep final|keep final dl|keep w|] eqn:Ep; intros Sh;
            try rewrite Ep in Hc; try rewrite Ep in Hns; try rewrite Ep in Hi.
          - destruct Sh as [c ->]. reflexivity.
          - destruct Sh as [->| ->]; reflexivity.
          - destruct Sh as [[_ ->]| ->]; reflexivity.
          - destruct Sh as [[_ [-> _]]|[-> _]]; reflexivity.
          - destruct Hc as [Hc|[Hc|Hc]]; discriminate Hc.
          - discriminate Hns.
          - exfalso. first [eapply C2; exact Ep|eapply C2; reflexivity].
          - cbn in Hi. discriminate Hi.
          - destruct Sh as [[w' [-> _]]|[_ ->]]; [reflexivity|destruct keep; reflexivity].
          - destruct Sh. }
        rewrite Hns. destruct Hc as [E|[E|E]]; rewrite E; reflexivity.
      + rewrite E. rewrite Ep in Sh. unfold is_syncing. rewrite Sh. reflexivity. }
  destruct Hsyn as [Hsyn [Hsyn2 Hsyn3]].
  (* the ghost records *)
  assert (Hgs : Forall2 (ack_ok (s_pbl (x_sys x'))) acks' (map (lift (entered x1 x')) gs1)).
  { pose proof (F2_next _ _ _ _ _ (proj1 II) LL Ha C1) as F.
    assert (map (g_next a (s_pbl s)) (map (lift (entered x1 xc)) gs1) = map (lift (entered x1 x')) gs1) as <-; [|exact F].
    rewrite map_map. apply map_ext. intros g. unfold entered. rewrite Hsyn. fold s.
    destruct Hcls as [Hc|[E _]].
    - assert (match a with ASyncStart => true | _ => is_syncing s end = is_syncing s) as ->.
      { destruct Hc as [E|[E|E]]; rewrite E; reflexivity. }
      apply g_next_id; [|exact Hpop0]. intros lv. destruct Hc as [E|[E|E]]; rewrite E; reflexivity.
    - destruct (Hsyn2 E) as [H1 H2]. rewrite E, H1, H2. cbn [negb andb lift].
      unfold g_next. cbn [g_o g_lv g_d lv_next popc]. rewrite Nat.add_0_r. reflexivity. }
  constructor; auto.
  - (* never at PSyncRet *)
    intros k f E. destruct t; cbn [step] in Hs.
    + rewrite (rstep_frame _ _ _ _ II Hs) in E. eapply C2. exact E.
    + destruct (pstep_shape _ _ _ _ II Hs) as [_ [_ [Sh _]]]. revert Sh.
      cbn [t_internal] in Hi. unfold p_internal, p_in_io in Hi.
      destruct (s_p s) as [|ch|ch|dl|keep|keep final|keep final|keep final dl|keep w|] eqn:Ep; intros Sh;
        try rewrite Ep in Hi.
      * destruct Sh as [c Sh]. congruence.
      * destruct Sh as [Sh|Sh]; congruence.
      * destruct Sh as [[_ Sh]|Sh]; congruence.
      * destruct Sh as [[_ [Sh _]]|[Sh _]]; congruence.
      * congruence.
      * cbn in Hi. discriminate Hi.
      * first [eapply C2; exact Ep|eapply C2; reflexivity].
      * congruence.
      * destruct Sh as [[w' [Sh _]]|[_ Sh]]; [congruence|destruct keep; congruence].
      * destruct Sh.
  - (* the state write in flight *)
    destruct (at_getstate t s) eqn:Eg.
    + (* GetPersistentState *)
      pose proof (proj2 (act_getstate s t internal_ans) Eg) as Ea. fold a in Ea.
      destruct (getstate_step _ _ _ _ _ Hs Ea) as [p' [st [Hgps [Hw [Hp' _]]]]].
      assert (Hnw : x_nwr xc = x_nwr x1).
      { destruct C4' as [[E _]|[_ [t1 [st1 [Hw1 _]]]]]; [exact E|exfalso].
        pose proof (holds_excl _ _ _ I3 (writing_holds _ _ _ Hw1) (getstate_holds _ _ Eg)) as Et. subst t1.
        destruct t; cbn [written_state at_getstate] in Hw1, Eg; fold s in Hw1.
        - destruct (s_r s) as [| |[]]; discriminate.
        - destruct (s_p s) as [| | | | | | | |? []|]; discriminate. }
      exists (Some (mkPendw (enc_st st) j' popped')). split.
      * intros t2 st2 Hw2.
        assert (t2 = t) as ->.
        { destruct (tid_eqb t2 t) eqn:Et; [destruct t2, t; auto; discriminate|exfalso].
          assert (t2 <> t) as Hne by (intros ->; destruct t; discriminate).
          rewrite (written_frame _ _ _ _ _ _ II Hs Hne) in Hw2.
          pose proof (holds_excl _ _ _ I3 (writing_holds _ _ _ Hw2) (getstate_holds _ _ Eg)). congruence. }
        rewrite Hw in Hw2. inversion Hw2; subst st2.
        exists j', popped', 0. split; [reflexivity|]. split; [|split; [|split; [lia|exact Hjsb]]].
        -- eapply okw_all; [exact (proj1 II)|exact LL|exact Hgps|fold s in C6; rewrite C6; exact Hbound| |exact C1|apply F2_lv2].
           fold s in C7. rewrite C7. apply F2_zm_lift. exact Hzm.
        -- unfold winv. rewrite Hp'. destruct (gps_fields _ _ _ Hgps) as [Hc [_ [_ [_ [_ [Ho [Hfst _]]]]]]].
           unfold core in Hc. injection Hc as H1 H2 H3 H4 H5 H6. rewrite Ho, H6, Hfst.
           split; [f_equal; lia|]. rewrite (gps_nseeds _ _ _ (proj1 II) Hgps). lia.
      * right. split; [rewrite Hwr; fold s; rewrite ?Eg; cbv iota; congruence|]. exists t, st. auto.
    + (* no GetPersistentState in this step *)
      exists cur_c. split.
      * intros t2 st2 Hw2.
        assert (written_state s t2 = Some st2) as Hw0.
        { destruct (tid_eqb t2 t) eqn:Et.
          - assert (t2 = t) as -> by (destruct t2, t; auto; discriminate).
            destruct (written_new _ _ _ _ _ _ Hs II Hw2) as [H|H]; [exact H|congruence].
          - assert (t2 <> t) as Hne by (intros ->; destruct t; discriminate).
            rewrite <- (written_frame _ _ _ _ _ _ II Hs Hne). exact Hw2. }
        destruct (C4 _ _ Hw0) as [j [po [E [H1 [H2 [H3 [H4 H5]]]]]]].
        exists j, po, E. splits; auto.
        pose proof (winv_act _ _ _ _ _ (proj1 II) H3 Ha) as W. rewrite Hpop0, Nat.add_0_r in W. exact W.
      * rewrite Hwr. fold s. rewrite ?Eg. cbv iota. destruct C4' as [[E1 E2]|[E1 [t1 [st1 [Hw1 E2]]]]]; [left; auto|right].
        split; [exact E1|]. exists t1, st1. split; [|exact E2].
        destruct (tid_eqb t1 t) eqn:Et.
        -- assert (t1 = t) as -> by (destruct t1, t; auto; discriminate). exfalso.
           (* the writer cannot take an internal step *)
           destruct t; cbn [written_state t_internal] in Hw1, Hi; fold s in Hw1.
           ++ unfold r_internal, r_in_io in Hi. destruct (s_r s) as [| |[]]; try discriminate.
           ++ unfold p_internal, p_in_io in Hi. destruct (s_p s) as [| | | | | | | |? []|]; try discriminate.
        -- assert (t1 <> t) as Hne by (intros ->; destruct t; discriminate).
           rewrite (written_frame _ _ _ _ _ _ II Hs Hne). exact Hw1.
  - congruence.
  - congruence.
  - congruence.
  - congruence.
  - destruct C9 as [E1 [E2 E3]]. destruct Hcnt as [F1 [F2 F3]]. unfold same_counters. splits; congruence.
Qed.

Lemma ctraj_refl : Forall2 (ack_ok (s_pbl (x_sys x1))) acks' gs1 -> (forall k f, s_p (x_sys x1) <> PSyncRet k f) ->
  Wp acks' Etot sb (x_sys x1) cur1 -> ctraj x1.
Proof.
  intros F Hn W. constructor; auto.
  - assert (entered x1 x1 = false) as ->.
    { unfold entered. destruct (is_syncing (x_sys x1)); reflexivity. }
    rewrite map_id. exact F.
  - exists cur1. auto.
  - unfold same_counters. auto.
Qed.

Lemma quiesce_ctraj f rw x2 : good (x_sys x1) -> ctraj x1 -> quiesce cfg f rw x1 = Ok x2 -> ctraj x2.
Proof.
  intros G C H.
  destruct (quiesce_ind cfg alloc oldest init t0 ctraj
              (fun x t x' Q Gx Hi Ht => ctraj_step x t x' Q Gx Hi Ht) f rw x1 x2 G C H) as [Q _].
  exact Q.
Qed.

End Traj.
