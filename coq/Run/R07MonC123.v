(** C07, "the monitor is silent on the model" — part 3: clauses 1 (release
    stall), 2 (minimum interval between schedule times, including the
    "unarmed" extension) and 3 (panic / hang marker) never fire on the model,
    for every input and every hint list.

    The simulation relation [rel1] ties the monitor's bookkeeping to the model
    state after each operation: clock, lastSynchronizationTime, cancellation,
    DataSyncer call counter, "the put loop waits on the interval timer",
    the retry flag, and the number of popped blocks.  Soundness of the
    "unarmed" extension of clause 2 is [rel1_finish] case (A): in the model a
    non-retry DataSyncer call while the store is running is entered from
    [PNotify true] only, and [PNotify true] is created only by the expiry of
    the interval timer in the same operation. *)
From Coq Require Import List NArith ZArith Bool Arith Lia.
From BBS Require Import Common.Sx Persist.PBL Persist.PBLProofs Persist.Syncer Persist.SyncerProofs
  Persist.LiveActs Persist.LiveCover Persist.LiveRelease Run.R07 Run.R07MonBase Run.R07MonOps.
Import ListNotations.
Local Open Scope nat_scope.

Definition is_ptimer (p : ppc) : bool := match p with PTimer _ => true | _ => false end.
Definition prev_timer (prev : sx) : bool := Z.eqb (tag prev) 2 && Z.eqb (sx_Z (sx_nth prev 2)) 0.

Lemma enc_p_timer x : prev_timer (enc_p x) = is_ptimer (s_p (x_sys x)).
Proof.
  unfold enc_p. destruct (s_p (x_sys x)) as [| | | | | | | |k w|]; try reflexivity. destruct w; reflexivity.
Qed.

Lemma new_sync_eq m res x : ms_new_sync m (enc_obs res x) = is_syncing (x_sys x) && (m_nsy m <? x_nsy x).
Proof.
  unfold ms_new_sync. rewrite obs_nth2. unfold enc_p, is_syncing.
  destruct (s_p (x_sys x)) as [| | | | | | | |k w|]; try reflexivity.
  - change (sx_nth (L [A 3; of_nat (x_nsy x)]) 1) with (of_nat (x_nsy x)). rewrite sx_nat_of_nat. reflexivity.
  - destruct w; reflexivity.
Qed.

Lemma bp_len m op o :
  length (ms_popped m op o) <= length (m_popped m) + (if Z.eqb (tag op) 3 && ms_hit o then 1 else 0).
Proof.
  unfold ms_popped, ms_bp. destruct (Z.eqb (tag op) 3 && ms_hit o).
  - destruct (m_blocks m); cbn [snd]; rewrite ?app_length; cbn; lia.
  - destruct (_ && _)%bool; cbn [snd]; lia.
Qed.

Lemma check_write_46 w acks k : In k (check_write w acks) -> k = 4%Z \/ k = 6%Z.
Proof.
  unfold check_write. intros H. apply in_flat_map in H. destruct H as [a [_ H]].
  destruct (zmem _ _); [destruct H|]. apply in_app_or in H. destruct H as [H|H].
  - destruct (_ && _)%bool; [destruct H as [H|[]]; auto|destruct H].
  - destruct (_ && _)%bool; [destruct H as [H|[]]; auto|destruct H].
Qed.

Lemma dedupz_in k l : In k (dedupz l) -> In k l.
Proof.
  induction l as [|x r IH]; cbn; [auto|]. destruct (zmem x r).
  - intros H. right. auto.
  - intros [H|H]; auto.
Qed.

Lemma env_ok_code op x e res : env_ok op x e res ->
  Z.eqb (tag op) 7 = match e with ETick _ => true | _ => false end /\
  Z.eqb (tag op) 9 = match e with ECancel => true | _ => false end /\
  Z.eqb (tag op) 3 = match e with EPopFront => true | _ => false end /\
  tag op <> 5%Z /\ tag op <> 8%Z /\
  match e with ETick d => d = sx_N (sx_nth op 1) | EStep _ _ => False | _ => True end.
Proof.
  destruct e; cbn [env_ok]; intros He;
    repeat match goal with H : _ /\ _ |- _ => destruct H end;
    match goal with H : tag op = _ |- _ => rewrite H | H : False |- _ => destruct H end;
    repeat split; try reflexivity; try discriminate; auto.
Qed.

Section C123.
Variable cfg : config.
Variable alloc : loc -> Z -> bool.
Variable oldest : N.
Variable init : list bstate.
Variable t0 : N.
Notation good := (good cfg alloc oldest init t0).
Notation interval := (c_interval cfg).

Record rel1 (m : mst) (x : xst) : Prop := mkRel1 {
  r1_good : good (x_sys x);
  r1_quiet : quiet cfg (x_sys x);
  r1_now : m_now m = s_now (x_sys x);
  r1_last : m_last_sched m = s_last (x_sys x);
  r1_armed : m_armed m = false;
  r1_cancel : m_cancelled m = s_cancel (x_sys x);
  r1_nsy : m_nsy m = x_nsy x;
  r1_prev : prev_timer (m_prev_p m) = is_ptimer (s_p (x_sys x));
  r1_retry1 : is_sleep (s_p (x_sys x)) = true -> m_retry m = true;
  r1_retry2 : m_retry m = true -> is_sleep (s_p (x_sys x)) = true \/ is_syncing (x_sys x) = true;
  r1_pop : length (m_popped m) <= totalReleased (s_pbl (x_sys x))
}.

(** ---- clause 1 on a quiescent reachable state ---- *)
Lemma v1_silent x res popped : good (x_sys x) -> quiet cfg (x_sys x) ->
  length popped <= totalReleased (s_pbl (x_sys x)) -> ms_v1 (enc_obs res x) popped = [].
Proof.
  intros [R [C K]] [Qr Qp] Hp. unfold ms_v1. rewrite obs_nth5, map_length.
  destruct (Nat.ltb_spec (length (releasedLog (s_pbl (x_sys x)))) (length popped)) as [Hlt|Hge]; [|reflexivity].
  cbn [andb].
  assert (toRelease (s_pbl (x_sys x)) <> []) as Hne.
  { unfold relc in C. intros E. rewrite E in C. cbn in C. lia. }
  pose proof (release_progress_reach _ _ _ _ _ _ R Hne) as Pr.
  destruct (reachable_inv_all _ _ _ _ _ _ R) as [I1 [_ [[I3a I3b] _]]].
  assert (ms_r_waits (enc_obs res x) = false) as ->; [|reflexivity].
  unfold ms_r_waits. rewrite obs_nth1, obs_nth2.
  destruct Pr as [Pr|[Pr|[Pr|[Er [Est Pr]]]]].
  - congruence.
  - unfold r_in_io in Pr. unfold enc_r. destruct (s_r (x_sys x)) as [| |[]]; try discriminate. reflexivity.
  - unfold r_in_timer in Pr. unfold enc_r. destruct (s_r (x_sys x)) as [| |[]]; try discriminate. reflexivity.
  - destruct Pr as [Pr|Pr]; [|congruence].
    unfold enc_r. rewrite Er. cbn [enc_wpc].
    unfold r_holds in I3a. rewrite Er in I3a. cbn in I3a.
    unfold p_holds in I3a. unfold p_in_io in Pr. unfold enc_p.
    destruct (s_p (x_sys x)) as [| | | | | | | |k w|]; try congruence.
    destruct w; try discriminate; try (cbn in I3a; congruence). reflexivity.
Qed.

Lemma quiet_not_notify s k : quiet cfg s -> s_p s <> PNotify k.
Proof.
  intros [_ Qp] E. unfold p_internal, p_in_io, p_in_timer, enabled in Qp. cbn [step] in Qp. unfold pstep in Qp.
  rewrite E in Qp. discriminate.
Qed.

(** ---- the common tail of every case ---- *)
Lemma rel1_finish m x op res x1 x2 :
  rel1 m x -> good (x_sys x1) -> qtraj x1 x2 -> good (x_sys x2) -> quiet cfg (x_sys x2) ->
  let o := enc_obs res x2 in
  s_now (x_sys x1) = ms_now m op ->
  s_cancel (x_sys x1) = ms_cancelled m op ->
  length (ms_popped m op o) <= totalReleased (s_pbl (x_sys x1)) ->
  (is_sleep (s_p (x_sys x1)) = true -> ms_retry m op o = true) ->
  (ms_retry m op o = true -> is_sleep (s_p (x_sys x1)) = true \/ is_syncing (x_sys x1) = true) ->
  (x_nsy x1 = m_nsy m \/ (x_nsy x1 = S (m_nsy m) /\ is_syncing (x_sys x1) = true /\ ms_retry m op o = true)) ->
  ((s_p (x_sys x1) <> PNotify true /\ s_last (x_sys x1) = m_last_sched m /\ ms_fired m op o = false) \/
   (s_p (x_sys x1) = PNotify true /\ s_last (x_sys x1) = ms_now m op /\
    (m_last_sched m + interval <= ms_now m op)%N /\ ms_retry m op o = false /\ ms_cancelled m op = false
    /\ x_nsy x1 = m_nsy m)) ->
  rel1 (mon_step interval m op o) x2 /\ ms_v2 interval m op o = [] /\ ms_v1 o (ms_popped m op o) = [].
Proof.
  intros R G1 Q G2 Q2 o Hnow Hcan Hpop Hr1 Hr2 Hnsy Hfire.
  destruct Q as [Q1 Qc Q3 Q4 Q5 Q6 Q7 Q8 Q9].
  assert (Hns : ms_new_sync m o = is_syncing (x_sys x2) && (m_nsy m <? x_nsy x2)) by apply new_sync_eq.
  assert (Hnsy2 : ms_nsy m o = x_nsy x2).
  { unfold ms_nsy. rewrite Hns. fold o. destruct (is_syncing (x_sys x1)) eqn:E1.
    - destruct Q5 as [Q5 Q5p]. assert (is_syncing (x_sys x2) = true) as E2.
      { unfold is_syncing in *. rewrite Q5p. exact E1. }
      rewrite E2. cbn [andb]. destruct (Nat.ltb_spec (m_nsy m) (x_nsy x2)); [change (sx_nth o 2) with (enc_p x2)|].
      + unfold enc_p. unfold is_syncing in E2. destruct (s_p (x_sys x2)); try discriminate.
        change (sx_nth (L [A 3; of_nat (x_nsy x2)]) 1) with (of_nat (x_nsy x2)). apply sx_nat_of_nat.
      + destruct Hnsy as [Hn|[Hn _]]; lia.
    - destruct Hnsy as [Hn|[_ [Hn _]]]; [|congruence].
      destruct (is_syncing (x_sys x2)) eqn:E2; cbn [andb].
      + assert ((m_nsy m <? x_nsy x2) = true) as -> by (apply Nat.ltb_lt; lia).
        change (sx_nth o 2) with (enc_p x2).
        unfold enc_p. unfold is_syncing in E2. destruct (s_p (x_sys x2)); try discriminate.
        change (sx_nth (L [A 3; of_nat (x_nsy x2)]) 1) with (of_nat (x_nsy x2)). apply sx_nat_of_nat.
      + lia. }
  assert (Hkeep : keepc (x_sys x2)) by (destruct G2 as [_ [_ K]]; exact K).
  (* the schedule-time part *)
  assert (Hsched : ms_v2 interval m op o = [] /\ ms_last_sched m op o = s_last (x_sys x2)
                   /\ ms_armed m op o = false).
  { unfold ms_v2, ms_last_sched, ms_armed. rewrite (r1_armed _ _ R).
    destruct Hfire as [[Hnn [Hl Hf]]|[Hn [Hl [Hle [Hre [Hca Hnx]]]]]].
    - assert (ms_unarmed m op o = false) as Hu.
      { unfold ms_unarmed, ms_started. rewrite Hns.
        destruct (is_syncing (x_sys x2)) eqn:E2; cbn [andb]; [|reflexivity].
        destruct (Nat.ltb_spec (m_nsy m) (x_nsy x2)) as [Hlt|Hge]; cbn [andb]; [|reflexivity].
        destruct (ms_retry m op o) eqn:Er; cbn [negb andb]; [reflexivity|].
        destruct (ms_cancelled m op) eqn:Ec; cbn [negb andb]; [reflexivity|]. exfalso.
        destruct Hnsy as [Hn|[_ [_ Hn]]]; [|congruence].
        destruct (is_syncing (x_sys x1)) eqn:E1; [destruct Q5; lia|].
        rewrite Hcan in Qc. unfold keepc in Hkeep. unfold is_syncing in E2, E1.
        destruct (s_p (x_sys x2)) as [| | | | |k f| | | |] eqn:Ep2; try discriminate.
        destruct k; [|congruence].
        destruct Q6 as [Q6|Q6]; [right; eauto|congruence|]. rewrite Q6 in E1. discriminate. }
      rewrite Hf, Hu. cbn. splits; congruence.
    - assert (s_p (x_sys x2) = PSyncing true false) as Ep2.
      { destruct (Q9 _ Hn) as [E|E]; [|exact E]. exfalso. eapply quiet_not_notify; eauto. }
      assert (is_syncing (x_sys x1) = false) as E1 by (unfold is_syncing; rewrite Hn; reflexivity).
      assert (is_syncing (x_sys x2) = true) as E2 by (unfold is_syncing; rewrite Ep2; reflexivity).
      rewrite E1, E2 in Q5.
      assert (ms_new_sync m o = true) as Hn1.
      { rewrite Hns, E2. cbn [andb]. apply Nat.ltb_lt. lia. }
      assert (ms_fired m op o || ms_unarmed m op o = true) as Hfu.
      { unfold ms_unarmed, ms_started. rewrite Hn1, Hre, Hca, (r1_armed _ _ R). cbn.
        destruct (ms_fired m op o); reflexivity. }
      rewrite Hfu, Hn1. cbn [andb negb].
      assert ((ms_now m op <? m_last_sched m + interval)%N = false) as -> by (apply N.ltb_ge; exact Hle).
      rewrite andb_false_r. splits; congruence. }
  destruct Hsched as [Hv2 [Hls Har]].
  assert (Hpop2 : length (ms_popped m op o) <= totalReleased (s_pbl (x_sys x2))) by lia.
  split; [|split; [exact Hv2|apply v1_silent; auto]].
  rewrite mon_step_eq. constructor; cbn [m_now m_last_sched m_armed m_cancelled m_nsy m_prev_p m_retry m_popped]; auto.
  - congruence.
  - congruence.
  - change (sx_nth o 2) with (enc_p x2). apply enc_p_timer.
  - intros Hs. apply Hr1. rewrite (Q7 Hs). exact Hs.
  - intros Hr. destruct (Hr2 Hr) as [Hs|Hs].
    + left. rewrite (Q8 Hs). exact Hs.
    + right. rewrite Hs in Q5. destruct Q5 as [_ Q5]. unfold is_syncing in *. rewrite Q5. exact Hs.
Qed.

(** what [rel1_finish] needs to know about the state after [do_op] *)
Record mid1 (m : mst) (op res : sx) (xo x1 : xst) : Prop := mkMid1 {
  md_now : s_now (x_sys x1) = ms_now m op;
  md_cancel : s_cancel (x_sys x1) = ms_cancelled m op;
  md_pop : length (ms_popped m op (enc_obs res xo)) <= totalReleased (s_pbl (x_sys x1));
  md_r1 : is_sleep (s_p (x_sys x1)) = true -> ms_retry m op (enc_obs res xo) = true;
  md_r2 : ms_retry m op (enc_obs res xo) = true -> is_sleep (s_p (x_sys x1)) = true \/ is_syncing (x_sys x1) = true;
  md_nsy : x_nsy x1 = m_nsy m \/
           (x_nsy x1 = S (m_nsy m) /\ is_syncing (x_sys x1) = true /\ ms_retry m op (enc_obs res xo) = true);
  md_fire : (s_p (x_sys x1) <> PNotify true /\ s_last (x_sys x1) = m_last_sched m /\ ms_fired m op (enc_obs res xo) = false) \/
            (s_p (x_sys x1) = PNotify true /\ s_last (x_sys x1) = ms_now m op /\
             (m_last_sched m + interval <= ms_now m op)%N /\ ms_retry m op (enc_obs res xo) = false
             /\ ms_cancelled m op = false /\ x_nsy x1 = m_nsy m)
}.

(** quiesce does nothing on a quiescent state *)
Lemma quiesce_quiet_id f rw x : quiet cfg (x_sys x) -> quiesce cfg (S f) rw x = Ok x.
Proof.
  intros [Qr Qp]. rewrite quiesce_S. unfold pick_of. rewrite Qr, Qp. reflexivity.
Qed.

Lemma quiet_timer_nocancel s dl : quiet cfg s -> s_p s = PTimer dl -> s_cancel s = false.
Proof.
  intros [_ Qp] E. unfold p_internal in Qp. rewrite E in Qp. exact Qp.
Qed.

Lemma env_tr s e s' : (forall t a, e <> EStep t a) -> step cfg s e = Some (Ok s') ->
  totalReleased (s_pbl s') = match e with EPopFront => S (totalReleased (s_pbl s)) | _ => totalReleased (s_pbl s) end.
Proof.
  intros Hne H. pose proof (step_act _ _ _ _ H) as Ha. pose proof (act_rel _ _ _ Ha) as F. revert F.
  destruct e as [al| |index size|k blk seed|d| |t a]; cbn [act_of].
  - intros [_ [_ [_ F]]]. exact F.
  - intros [fb [rest [_ [_ [_ [_ F]]]]]]. exact F.
  - intros [_ [_ [_ F]]]. exact F.
  - destruct (nth_error _ _) as [[[tok sz]|]|]; intros [_ [_ [_ F]]]; exact F.
  - intros [_ [_ [_ F]]]. exact F.
  - intros [_ [_ [_ F]]]. exact F.
  - exfalso. eapply Hne. reflexivity.
Qed.

Lemma env_now_cancel s e s' : step cfg s e = Some (Ok s') ->
  match e with
  | ETick d => s_now s' = (s_now s + d)%N /\ s_cancel s' = s_cancel s
  | ECancel => s_now s' = s_now s /\ s_cancel s' = true
  | EStep _ _ => True
  | _ => s_now s' = s_now s /\ s_cancel s' = s_cancel s
  end.
Proof.
  destruct e as [al| |index size|k blk seed|d| |t a]; cbn [step]; auto.
  - intros H; inversion H; auto.
  - destruct (blocks _); [discriminate|]. destruct (pop_front _); [|discriminate]. intros H; inversion H; auto.
  - destruct (_ || _); [|discriminate]. destruct (put_start _ _); [|discriminate]. intros H; inversion H; auto.
  - destruct (nth_error _ _) as [[[tok sz]|]|]; try discriminate.
    destruct (put_finalize _ _ _ _ _) as [[p' fr]|]; [|discriminate]. intros H; inversion H; auto.
  - intros H; inversion H; auto.
  - intros H; inversion H; auto.
Qed.

(** ---- one operation ---- *)
Lemma rel1_mid m x op x1 res xo :
  rel1 m x -> tri cfg op x x1 res -> good (x_sys x1) /\ mid1 m op res xo x1.
Proof.
  intros R T. pose proof (r1_good _ _ R) as G. pose proof (tri_good _ _ _ _ _ _ _ _ _ G T) as G1.
  split; [exact G1|].
  pose proof (good_inv1 _ _ _ _ _ _ G) as II.
  pose proof (bp_len m op (enc_obs res xo)) as Hbl. unfold ms_hit in Hbl. rewrite obs_nth0 in Hbl.
  pose proof (r1_pop _ _ R) as Hp0.
  assert (Hnn : forall k, s_p (x_sys x) <> PNotify k) by (intros k; apply quiet_not_notify; apply (r1_quiet _ _ R)).
  destruct T as [[-> Hn]|[[e [He [Hs [En1 En2]]]]|[t [a [[Hres [Hat Hth]] Ht]]]]].
  - (* nothing happened *)
    destruct Hn as [Hn1 [Hn4 [Hn2 [Hn7 Hn9]]]].
    assert (Hhit : (tag op = 1 \/ tag op = 3 \/ tag op = 5 \/ tag op = 6 \/ tag op = 8)%Z -> Z.eqb (tag res) 1 = false).
    { intros Hc. rewrite (Hn1 Hc). reflexivity. }
    constructor; auto.
    + unfold ms_now. destruct (Z.eqb_spec (tag op) 7); [congruence|]. symmetry. apply (r1_now _ _ R).
    + unfold ms_cancelled. destruct (Z.eqb_spec (tag op) 9); [congruence|]. rewrite orb_false_r. symmetry. apply (r1_cancel _ _ R).
    + destruct (Z.eqb_spec (tag op) 3) as [E3|E3]; [rewrite Hhit in Hbl by auto|]; cbn [andb] in Hbl; lia.
    + unfold ms_retry, ms_sync_done, ms_hit. rewrite obs_nth0.
      destruct (Z.eqb_spec (tag op) 5) as [E5|E5]; [rewrite Hhit by auto|]; cbn [andb]; apply (r1_retry1 _ _ R).
    + unfold ms_retry, ms_sync_done, ms_hit. rewrite obs_nth0.
      destruct (Z.eqb_spec (tag op) 5) as [E5|E5]; [rewrite Hhit by auto|]; cbn [andb]; apply (r1_retry2 _ _ R).
    + left. symmetry. apply (r1_nsy _ _ R).
    + left. split; [apply Hnn|]. split; [symmetry; apply (r1_last _ _ R)|].
      unfold ms_fired, ms_hit. rewrite obs_nth0.
      destruct (Z.eqb_spec (tag op) 8) as [E8|E8]; [rewrite Hhit by auto|]; reflexivity.
  - (* one environment event *)
    assert (Hne : forall t a, e <> EStep t a).
    { intros t a E. subst e. exact He. }
    destruct (env_frame cfg _ _ _ Hne Hs) as [Er Ep].
    destruct (env_frame_t cfg _ _ _ Hne Hs) as [El _].
    pose proof (env_tr _ _ _ Hne Hs) as Etr. pose proof (env_now_cancel _ _ _ Hs) as Enc.
    destruct (env_ok_code _ _ _ _ He) as [C7 [C9 [C3 [Hc5 [Hc8 Cd]]]]].
    assert (Hret : ms_retry m op (enc_obs res xo) = m_retry m).
    { unfold ms_retry, ms_sync_done. destruct (Z.eqb_spec (tag op) 5); [congruence|reflexivity]. }
    constructor; auto.
    + unfold ms_now. rewrite C7. clear He Hne Etr.
      destruct e; try (destruct Enc as [Enc _]; rewrite Enc; symmetry; apply (r1_now _ _ R)); [|destruct Cd].
      destruct Enc as [Enc _]. rewrite Enc, (r1_now _ _ R), Cd. reflexivity.
    + unfold ms_cancelled. rewrite C9. clear He Hne Etr.
      destruct e; try (destruct Enc as [_ Enc]; rewrite Enc, orb_false_r; symmetry; apply (r1_cancel _ _ R)); [|destruct Cd].
      destruct Enc as [_ Enc]. rewrite Enc, orb_true_r. reflexivity.
    + rewrite Etr. rewrite C3 in Hbl. clear He Hne Etr Enc.
      destruct e; cbn [andb] in Hbl; try lia. destruct (Z.eqb (tag res) 1); lia.
    + rewrite Hret, Ep. apply (r1_retry1 _ _ R).
    + rewrite Hret. unfold is_syncing. rewrite Ep. apply (r1_retry2 _ _ R).
    + left. rewrite En1. symmetry. apply (r1_nsy _ _ R).
    + left. rewrite Ep, El. split; [apply Hnn|]. split; [symmetry; apply (r1_last _ _ R)|].
      unfold ms_fired. destruct (Z.eqb_spec (tag op) 8); [congruence|reflexivity].
  - (* one thread step with an external answer *)
    destruct (tstep_ok _ _ _ _ _ Ht) as [Hs [_ [_ Hsy]]].
    pose proof (internal_act_tr _ _ _ _ _ Hs) as Etr.
    assert (Hhit : Z.eqb (tag res) 1 = true) by (rewrite Hres; reflexivity).
    assert (Hc379 : tag op <> 3%Z /\ tag op <> 7%Z /\ tag op <> 9%Z).
    { destruct Hth as [[E _]|[[E _]|[E _]]]; rewrite E; splits; discriminate. }
    destruct Hc379 as [Hc3 [Hc7 Hc9]].
    assert (Hpop1 : length (ms_popped m op (enc_obs res xo)) <= totalReleased (s_pbl (x_sys x1))).
    { rewrite Etr. destruct (Z.eqb_spec (tag op) 3); [congruence|]. cbn [andb] in Hbl. lia. }
    assert (Hnow : forall s', s_now s' = s_now (x_sys x) -> s_now s' = ms_now m op).
    { intros s' E. unfold ms_now. destruct (Z.eqb_spec (tag op) 7); [congruence|]. rewrite E. symmetry. apply (r1_now _ _ R). }
    assert (Hcan : forall s', s_cancel s' = s_cancel (x_sys x) -> s_cancel s' = ms_cancelled m op).
    { intros s' E. unfold ms_cancelled. destruct (Z.eqb_spec (tag op) 9); [congruence|].
      rewrite orb_false_r, E. symmetry. apply (r1_cancel _ _ R). }
    destruct t; cbn [step] in Hs.
    + (* the release loop: the put loop is untouched *)
      pose proof (rstep_frame _ _ _ _ II Hs) as Ep. pose proof (rstep_cancel _ _ _ _ II Hs) as Ec.
      destruct (rstep_frame_t _ _ _ _ II Hs) as [El [_ En]].
      assert (Hc5 : tag op <> 5%Z).
      { destruct Hth as [[E [Et _]]|[[E _]|[E _]]]; [discriminate Et|rewrite E; discriminate|rewrite E; discriminate]. }
      assert (Hret : ms_retry m op (enc_obs res xo) = m_retry m).
      { unfold ms_retry, ms_sync_done. destruct (Z.eqb_spec (tag op) 5); [congruence|reflexivity]. }
      constructor; auto.
      * rewrite Hret, Ep. apply (r1_retry1 _ _ R).
      * rewrite Hret. unfold is_syncing. rewrite Ep. apply (r1_retry2 _ _ R).
      * left. rewrite Hsy. symmetry. apply (r1_nsy _ _ R).
      * left. rewrite Ep, El. split; [apply Hnn|]. split; [symmetry; apply (r1_last _ _ R)|].
        unfold ms_fired. destruct Hth as [[E [Et _]]|[[E _]|[E [_ [[Ew _]|[_ [Et _]]]]]]]; try discriminate Et.
        -- rewrite E. reflexivity.
        -- rewrite E, Ew. cbn. rewrite andb_false_r. reflexivity.
    + (* the put loop *)
      destruct (pstep_shape _ _ _ _ II Hs) as [Ec [En [Sh Hl]]].
      destruct Hth as [[E5 [_ [Hsyn Hok]]]|[[E6 [Hwr Hok]]|[E8 [Hok [[_ [Et _]]|[Hw [_ [dl [Hat' Hdue]]]]]]]]];
        [| | discriminate Et|].
      * (* DataSyncer returns *)
        unfold is_syncing in Hsyn. revert Sh Hl. destruct (s_p (x_sys x)) as [| | | | |k f| | | |] eqn:Ep; try discriminate.
        intros Sh Hl.
        assert (Hret : ms_retry m op (enc_obs res xo) = negb (sx_bool (sx_nth op 1))).
        { unfold ms_retry, ms_sync_done, ms_hit. rewrite obs_nth0, E5, Hhit. reflexivity. }
        assert (Hnf : ms_fired m op (enc_obs res xo) = false) by (unfold ms_fired; rewrite E5; reflexivity).
        assert (Hsy' : x_nsy x1 = x_nsy x \/ (x_nsy x1 = S (x_nsy x) /\ s_p (x_sys x1) = PSyncing false true)).
        { rewrite Hsy. unfold is_syncing. destruct Sh as [[_ Sh]|[_ Sh]]; rewrite Sh; auto. }
        destruct Sh as [[Ha Sh]|[Ha Sh]]; rewrite Ha in Hok.
        -- constructor; auto.
           ++ rewrite Sh. discriminate.
           ++ rewrite Hret, <- Hok. discriminate.
           ++ left. rewrite Hsy. unfold is_syncing. rewrite Sh. symmetry. apply (r1_nsy _ _ R).
           ++ left. rewrite Sh, Hl. split; [discriminate|]. split; [symmetry; apply (r1_last _ _ R)|exact Hnf].
        -- constructor; auto.
           ++ intros _. rewrite Hret, <- Hok. reflexivity.
           ++ intros _. left. rewrite Sh. reflexivity.
           ++ left. rewrite Hsy. unfold is_syncing. rewrite Sh. symmetry. apply (r1_nsy _ _ R).
           ++ left. rewrite Sh, Hl. split; [discriminate|]. split; [symmetry; apply (r1_last _ _ R)|exact Hnf].
      * (* the put loop's WritePersistentState returns *)
        assert (exists k st, s_p (x_sys x) = PW k (WWriting st)) as [k [st Ep]].
        { unfold writer in Hwr. destruct (s_r (x_sys x)) as [| |[]]; try discriminate;
            destruct (s_p (x_sys x)) as [| | | | | | | |k []|]; try discriminate; eauto. }
        rewrite Ep in Sh, Hl.
        assert (Hret : ms_retry m op (enc_obs res xo) = m_retry m).
        { unfold ms_retry, ms_sync_done. rewrite E6. reflexivity. }
        assert (Hmr : m_retry m = false).
        { destruct (m_retry m) eqn:Emr; [|reflexivity]. destruct (r1_retry2 _ _ R Emr) as [Hx|Hx];
            unfold is_syncing in Hx; rewrite Ep in Hx; discriminate. }
        assert (Hp1 : (exists w', s_p (x_sys x1) = PW k w') \/ s_p (x_sys x1) = PStart \/ s_p (x_sys x1) = PExit).
        { destruct Sh as [[w' [Sh _]]|[_ Sh]]; [eauto|]. destruct k; auto. }
        constructor; auto.
        -- intros Hsl. exfalso. destruct Hp1 as [[w' Hp1]|[Hp1|Hp1]]; rewrite Hp1 in Hsl; discriminate.
        -- rewrite Hret, Hmr. discriminate.
        -- left. rewrite Hsy. unfold is_syncing.
           destruct Hp1 as [[w' Hp1]|[Hp1|Hp1]]; rewrite Hp1; symmetry; apply (r1_nsy _ _ R).
        -- left. rewrite Hl. split; [|split; [symmetry; apply (r1_last _ _ R)|unfold ms_fired; rewrite E6; reflexivity]].
           destruct Hp1 as [[w' Hp1]|[Hp1|Hp1]]; rewrite Hp1; discriminate.
      * (* a timer of the put loop expires *)
        assert (Hret : ms_retry m op (enc_obs res xo) = m_retry m).
        { unfold ms_retry, ms_sync_done. rewrite E8. reflexivity. }
        destruct Hat' as [Ep|[[k [f Ep]]|[k Ep]]]; rewrite Ep in Sh, Hl.
        -- (* the interval timer: the schedule time *)
           pose proof (quiet_timer_nocancel _ _ (r1_quiet _ _ R) Ep) as Hnc.
           destruct Sh as [[Hc _]|[Sh [Sl [Hd1 [Hd2 _]]]]]; [congruence|].
           assert (Hmr : m_retry m = false).
           { destruct (m_retry m) eqn:Emr; [|reflexivity]. destruct (r1_retry2 _ _ R Emr) as [Hx|Hx];
               unfold is_syncing in Hx; rewrite Ep in Hx; discriminate. }
           destruct (reachable_inv_all _ _ _ _ _ _ (proj1 G)) as [_ [_ [_ [_ [_ [_ I4]]]]]].
           specialize (I4 dl Ep).
           constructor; auto.
           ++ rewrite Sh. discriminate.
           ++ rewrite Hret, Hmr. discriminate.
           ++ left. rewrite Hsy. unfold is_syncing. rewrite Sh. symmetry. apply (r1_nsy _ _ R).
           ++ right. split; [exact Sh|]. rewrite Sl, Hat.
              assert (ms_now m op = s_now (x_sys x)) as Hn0.
              { unfold ms_now. destruct (Z.eqb_spec (tag op) 7); [congruence|]. apply (r1_now _ _ R). }
              rewrite Hn0. split; [reflexivity|]. split; [rewrite (r1_last _ _ R); lia|].
              split; [rewrite Hret; exact Hmr|]. split.
              ** unfold ms_cancelled. destruct (Z.eqb_spec (tag op) 9); [congruence|].
                 rewrite orb_false_r, (r1_cancel _ _ R). exact Hnc.
              ** rewrite Hsy. unfold is_syncing. rewrite Sh. symmetry. apply (r1_nsy _ _ R).
        -- (* the retry sleep after a failed DataSyncer call *)
           assert (Hmr : m_retry m = true) by (apply (r1_retry1 _ _ R); rewrite Ep; reflexivity).
           constructor; auto.
           ++ intros _. rewrite Hret. exact Hmr.
           ++ intros _. right. unfold is_syncing. rewrite Sh. reflexivity.
           ++ right. rewrite Hsy. unfold is_syncing. rewrite Sh. rewrite (r1_nsy _ _ R), Hret. auto.
           ++ left. rewrite Sh, Hl. split; [discriminate|]. split; [symmetry; apply (r1_last _ _ R)|].
              unfold ms_fired. pose proof (r1_prev _ _ R) as Hpv. rewrite Ep in Hpv. unfold prev_timer in Hpv.
              cbn [is_ptimer] in Hpv. rewrite <- !andb_assoc. rewrite Hpv. rewrite !andb_false_r. reflexivity.
        -- (* the retry sleep after a failed state write *)
           assert (Hmr : m_retry m = false).
           { destruct (m_retry m) eqn:Emr; [|reflexivity]. destruct (r1_retry2 _ _ R Emr) as [Hx|Hx];
               unfold is_syncing in Hx; rewrite Ep in Hx; discriminate. }
           assert (Hp1 : s_p (x_sys x1) = PW k WAcquire).
           { destruct Sh as [[w' [Sh Sw]]|[Sw _]]; [subst w'; exact Sh|discriminate Sw]. }
           constructor; auto.
           ++ rewrite Hp1. discriminate.
           ++ rewrite Hret, Hmr. discriminate.
           ++ left. rewrite Hsy. unfold is_syncing. rewrite Hp1. symmetry. apply (r1_nsy _ _ R).
           ++ left. rewrite Hp1, Hl. split; [discriminate|]. split; [symmetry; apply (r1_last _ _ R)|].
              unfold ms_fired. pose proof (r1_prev _ _ R) as Hpv. rewrite Ep in Hpv. unfold prev_timer in Hpv.
              cbn [is_ptimer] in Hpv. rewrite <- !andb_assoc. rewrite Hpv. rewrite !andb_false_r. reflexivity.
Qed.


Lemma rel1_step m x op rw x1 res x2 :
  rel1 m x -> tri cfg op x x1 res -> quiesce cfg 64 rw x1 = Ok x2 ->
  rel1 (mon_step interval m op (enc_obs res x2)) x2
  /\ ms_v2 interval m op (enc_obs res x2) = [] /\ ms_v1 (enc_obs res x2) (ms_popped m op (enc_obs res x2)) = [].
Proof.
  intros R T Hq. destruct (rel1_mid m x op x1 res x2 R T) as [G1 [M1 M2 M3 M4 M5 M6 M7]].
  pose proof (quiesce_traj _ _ _ _ _ _ _ _ _ G1 Hq) as Q.
  destruct (quiesce_ind cfg alloc oldest init t0 (fun _ => True) (fun _ _ _ _ _ _ _ => I) 64 rw x1 x2 G1 I Hq) as [_ G2].
  assert (Q2 : quiet cfg (x_sys x2)).
  { eapply quiesce_quiet; [exact G1| |exact Hq]. pose proof (rk_le (x_sys x1)). lia. }
  apply (rel1_finish m x op res x1 x2); auto.
Qed.

End C123.
