(** C07, "the monitor is silent on the model" — part 9: clause 5 (the put
    loop waits while an acknowledged upload is not covered by the last state
    write that completed).

    Model side: [pX] — once the final sync has been started the list is closed
    for writing and every epoch is being synchronized, and once it has
    completed every epoch is synchronized (so ProcessBlockPut returns false
    only when nothing is left); the put loop's program counters fall into three
    classes ([nf]: between a sync completion and the completion of the loop's
    own state write, [pwr]: its state write is in flight, fresh: the rest) and
    the only way from [nf] to fresh leads through a successful state write of
    the put loop itself. *)
From Coq Require Import List NArith ZArith Bool Arith Lia.
From BBS Require Import Common.Sx Persist.PBL Persist.PBLProofs Persist.Syncer Persist.SyncerProofs
  Persist.LiveActs Persist.LiveCover Persist.LiveRelease Run.R07 Run.R07MonBase Run.R07MonOps Run.R07MonC123
  Run.R07MonCov1 Run.R07MonCov2 Run.R07MonOps2 Run.R07MonCov3.
Import ListNotations.
Local Open Scope nat_scope.

(** ---- closed for writing ---- *)
Definition pXc (p : pbl) : Prop := closedForWriting p = true /\ synchronizingEpochs p = length (epochSeeds p).
Definition pXd (p : pbl) : Prop := closedForWriting p = true /\ synchronizedEpochs p = length (epochSeeds p).

Definition pX (s : sys) : Prop :=
  match s_p s with
  | PSyncing false true | PSyncSleep false true _ | PSyncRet false true => pXc (s_pbl s)
  | PW false _ | PExit => pXd (s_pbl s)
  | _ => True
  end.

Lemma fin_closed tok blk size seed p : closedForWriting p = true ->
  put_finalize tok blk size seed p = Ok (p, match tok with PutClosed => FinClosed | PutAt _ => match blk with None => FinBlockError | Some _ => FinClosed end end).
Proof.
  intros Hc. unfold put_finalize. destruct tok; [reflexivity|]. destruct blk; [|reflexivity]. rewrite Hc. reflexivity.
Qed.

(** calls other than the sync notifications keep both facts *)
Lemma pX_act a p p' : pbl_inv p -> apply_act a p = Ok p' ->
  match a with ASyncStart | ASyncDone _ => True | _ => (pXc p -> pXc p') /\ (pXd p -> pXd p') end.
Proof.
  intros I Ha. destruct a as [|al| |tok blk size seed| |b|t|t]; cbn [apply_act] in Ha; auto.
  - inversion Ha; subst. auto.
  - inversion Ha; subst. unfold push_back. split; intros [Hc H]; rewrite Hc; cbn; split; auto.
  - destruct (blocks p) as [|fb rest] eqn:Eb; [unfold pop_front in Ha; rewrite Eb in Ha; discriminate|].
    destruct (pop_fields _ _ _ _ Eb Ha) as [_ [Fs [_ [_ [Fsy [Fsd [_ [_ [_ [Fc _]]]]]]]]]].
    unfold pXc, pXd. rewrite Fs, Fsy, Fsd, Fc, skipn_length. split; intros [Hc H]; split; auto; lia.
  - split; intros [Hc H]; rewrite (fin_closed tok blk size seed p Hc) in Ha; cbn in Ha; inversion Ha; subst; split; auto.
  - destruct (get_persistent_state p) as [[p1 st]|] eqn:Eg; [|discriminate]. cbn in Ha. inversion Ha; subst.
    destruct (gps_fields _ _ _ Eg) as [Hc [_ [_ [_ [Fc _]]]]]. unfold core in Hc. injection Hc as H1 H2 H3 H4 H5 H6.
    unfold pXc, pXd. rewrite Fc, H2, H5, H6. auto.
  - destruct (nsw_fields _ _ Ha) as [Hc [_ [_ [_ [Fc _]]]]]. unfold core in Hc. injection Hc as H1 H2 H3 H4 H5 H6.
    unfold pXc, pXd. rewrite Fc, H2, H5, H6. auto.
Qed.

Lemma step_pX cfg s e s' : inv1 s -> pX s -> step cfg s e = Some (Ok s') -> pX s'.
Proof.
  intros II X Hs. pose proof (step_act _ _ _ _ Hs) as Ha. pose proof (proj1 II) as Ip.
  destruct e as [al| |index size|k blk seed|d| |t a].
  1-6: (match type of Hs with step _ _ ?e = _ =>
          assert (forall t a, e <> EStep t a) as Hne by (intros t1 a0 H0; discriminate H0) end;
        destruct (env_frame cfg s _ s' Hne Hs) as [_ Ep];
        pose proof (pX_act _ _ _ Ip Ha) as F; revert F X; unfold pX; rewrite Ep; cbn [act_of];
        try (destruct (nth_error (s_uploads s) k) as [[[tok sz]|]|]);
        intros [F1 F2]; destruct (s_p s) as [| | | | |[] []|[] []|[] [] ?|[] ?|]; auto).
  destruct t; cbn [step] in Hs.
  - (* the release loop *)
    pose proof (rstep_frame _ _ _ _ II Hs) as Ep. pose proof (pX_act _ _ _ Ip Ha) as F. revert F X. unfold pX. rewrite Ep.
    cbn [act_of]. destruct (s_r s) as [| |[]]; cbn [wact]; intros [F1 F2];
      destruct (s_p s) as [| | | | |[] []|[] []|[] [] ?|[] ?|]; auto.
  - (* the put loop *)
    destruct (pstep_shape _ _ _ _ II Hs) as [_ [_ [Sh _]]]. pose proof (pX_act _ _ _ Ip Ha) as F.
    revert Sh F X Ha. unfold pX. cbn [act_of].
    destruct (s_p s) as [|ch|ch|dl|keep|keep final|keep final|keep final dl|keep w|]; intros Sh F X Ha.
    + destruct Sh as [c ->]. exact I.
    + destruct Sh as [->| ->]; exact I.
    + destruct Sh as [[_ ->]| ->]; exact I.
    + destruct Sh as [[_ [-> _]]|[-> _]]; exact I.
    + rewrite Sh. destruct keep; exact I.
    + destruct F as [F1 F2]. destruct Sh as [[_ ->]|[_ ->]]; destruct keep, final; auto.
    + cbn [apply_act] in Ha. inversion Ha as [Hp]. clear Ha.
      destruct (nsc_fields (s_pbl s)) as [_ [Fs [_ [_ [Fsy [Fsd [_ [_ [_ [Fc _]]]]]]]]]].
      destruct Sh as [[-> [-> ->]]|[Hkf ->]].
      * cbn [negb andb]. unfold pXc. cbn. auto.
      * destruct keep; [exact I|]. destruct final; [|destruct Hkf; discriminate].
        cbn [negb andb]. destruct X as [Xc Xs]. unfold pXd. rewrite Fc, Fsd, Fs. auto.
    + destruct F as [F1 F2]. rewrite Sh. destruct keep, final; auto.
    + destruct Sh as [[w' [-> _]]|[-> ->]]; destruct keep; try exact I.
      * destruct w; cbn [wact] in F; destruct F as [_ F2]; auto.
      * cbn [wact] in F. destruct F as [_ F2]. auto.
    + destruct Sh.
Qed.

(** ---- classes of the put loop's program counter ---- *)
Definition nf (p : ppc) : bool :=
  match p with
  | PSyncRet _ _ | PW _ WAcquire | PW _ WGetState | PW _ (WSleep _) | PSyncing _ true | PSyncSleep _ true _ => true
  | _ => false
  end.
Definition pwr (p : ppc) : bool := match p with PW _ (WWriting _) => true | _ => false end.
Definition fresh (p : ppc) : bool := negb (nf p) && negb (pwr p).

Lemma int_class cfg s s' : inv1 s -> p_internal cfg s = true -> pstep cfg internal_ans s = Some (Ok s') ->
  (fresh (s_p s') = true -> fresh (s_p s) = true) /\ (pwr (s_p s') = true -> at_getstate TP s = true)
  /\ pwr (s_p s) = false.
Proof.
  intros II Hi Hs. destruct (pstep_shape _ _ _ _ II Hs) as [_ [_ [Sh _]]]. revert Sh Hi.
  unfold p_internal, p_in_io, p_in_timer, at_getstate.
  destruct (s_p s) as [|ch|ch|dl|keep|keep final|keep final|keep final dl|keep w|]; intros Sh Hi; cbn in Hi; try discriminate Hi.
  - destruct Sh as [c ->]. cbn. auto.
  - destruct Sh as [->| ->]; cbn; auto.
  - destruct Sh as [[_ ->]| ->]; cbn; auto.
  - destruct Sh as [[_ [-> _]]|[-> _]]; cbn; auto.
  - rewrite Sh. cbn. auto.
  - destruct Sh as [[_ [_ ->]]|[_ ->]]; cbn; splits; auto; discriminate.
  - destruct Sh as [[w' [-> Sw]]|[-> ->]].
    + destruct w; try discriminate Hi.
      * subst w'. cbn. splits; auto; discriminate.
      * destruct Sw as [st ->]. cbn. splits; auto; discriminate.
      * destruct Sw.
    + destruct keep; cbn; splits; auto; discriminate.
  - destruct Sh.
Qed.

Section Class.
Variable cfg : config.
Variable alloc : loc -> Z -> bool.
Variable oldest : N.
Variable init : list bstate.
Variable t0 : N.
Notation good := (good cfg alloc oldest init t0).
Notation rel1 := (rel1 cfg alloc oldest init t0).

Lemma quiesce_pX f rw x1 x2 : good (x_sys x1) -> pX (x_sys x1) -> quiesce cfg f rw x1 = Ok x2 -> pX (x_sys x2).
Proof.
  intros G X H.
  destruct (quiesce_ind cfg alloc oldest init t0 (fun xc => pX (x_sys xc))) with (f := f) (rw := rw) (x := x1) (x2 := x2)
    as [Q _]; auto.
  intros x t x' P Gx Hi Ht. destruct (tstep_ok _ _ _ _ _ Ht) as [Hs _].
  eapply step_pX; [exact (good_inv1 _ _ _ _ _ _ Gx)|exact P|exact Hs].
Qed.

Lemma tri_pX op x x1 res : good (x_sys x) -> pX (x_sys x) -> tri cfg op x x1 res -> pX (x_sys x1).
Proof.
  intros G X [[-> _]|[[e [_ [Hs _]]]|[t [a [_ Ht]]]]]; auto.
  - eapply step_pX; [exact (good_inv1 _ _ _ _ _ _ G)|exact X|exact Hs].
  - destruct (tstep_ok _ _ _ _ _ Ht) as [Hs _]. eapply step_pX; [exact (good_inv1 _ _ _ _ _ _ G)|exact X|exact Hs].
Qed.

Record ctj (x1 xc : xst) : Prop := mkCtj {
  cj_fresh : fresh (s_p (x_sys xc)) = true -> fresh (s_p (x_sys x1)) = true;
  cj_pwr : pwr (s_p (x_sys xc)) = true -> s_p (x_sys xc) = s_p (x_sys x1) \/ x_nwr x1 < x_nwr xc;
  cj_nwr : x_nwr x1 <= x_nwr xc
}.

Lemma class_traj f rw x1 x2 : good (x_sys x1) -> quiesce cfg f rw x1 = Ok x2 -> ctj x1 x2.
Proof.
  intros G H.
  destruct (quiesce_ind cfg alloc oldest init t0 (ctj x1)) with (f := f) (rw := rw) (x := x1) (x2 := x2) as [Q _]; auto.
  2:{ constructor; auto. }
  intros x t x' [P1 P2 P3] Gx Hi Ht. destruct (tstep_ok _ _ _ _ _ Ht) as [Hs [_ [Hwr _]]].
  pose proof (good_inv1 _ _ _ _ _ _ Gx) as II.
  assert (Hmono : x_nwr x <= x_nwr x') by (rewrite Hwr; destruct (at_getstate t (x_sys x)); lia).
  destruct t; cbn [step t_internal] in *.
  - pose proof (rstep_frame _ _ _ _ II Hs) as Ep. constructor; rewrite ?Ep; auto; [|lia].
    intros Hp. destruct (P2 Hp) as [E|E]; [left; exact E|right; lia].
  - destruct (int_class _ _ _ II Hi Hs) as [C1 [C2 C3]]. constructor; auto; [|lia].
    intros Hp. right. rewrite Hwr, (C2 Hp). lia.
Qed.

(** what the operation itself does to the class *)
Lemma op_class m x op x1 res xo : rel1 m x -> tri cfg op x x1 res ->
  x_nwr x1 = x_nwr x /\
  (fresh (s_p (x_sys x1)) = true ->
     (fresh (s_p (x_sys x)) = true /\ ms_sync_ok op (enc_obs res xo) = false
      /\ (ms_write_done op (enc_obs res xo) = true -> writer (x_sys x) = Some TR)) \/
     (pwr (s_p (x_sys x)) = true /\ ms_write_ok op (enc_obs res xo) = true)) /\
  (pwr (s_p (x_sys x1)) = true ->
     s_p (x_sys x1) = s_p (x_sys x) /\ ms_sync_ok op (enc_obs res xo) = false
     /\ ms_write_done op (enc_obs res xo) = false).
Proof.
  intros R T. pose proof (r1_good _ _ _ _ _ _ _ R) as G. pose proof (good_inv1 _ _ _ _ _ _ G) as II.
  destruct (reachable_inv_all _ _ _ _ _ _ (proj1 G)) as [_ [_ [I3 _]]].
  unfold ms_sync_ok, ms_sync_done, ms_write_ok, ms_write_done, ms_hit. rewrite obs_nth0.
  destruct T as [[-> Hn]|[[e [He [Hs [En1 En2]]]]|[t [a [[Hres [Hat Hth]] Ht]]]]].
  - destruct Hn as [Hn1 _].
    assert (H5 : Z.eqb (tag op) 5 && Z.eqb (tag res) 1 = false).
    { destruct (Z.eqb_spec (tag op) 5) as [E|E]; [rewrite Hn1 by auto|]; reflexivity. }
    assert (H6 : Z.eqb (tag op) 6 && Z.eqb (tag res) 1 = false).
    { destruct (Z.eqb_spec (tag op) 6) as [E|E]; [rewrite Hn1 by auto|]; reflexivity. }
    rewrite H5, H6. cbn [andb]. splits; auto. intros Hf. left. splits; auto. discriminate.
  - assert (Hne : forall t a, e <> EStep t a) by (intros t a E; subst e; exact He).
    destruct (env_frame cfg _ _ _ Hne Hs) as [_ Ep].
    assert (Hc : tag op <> 5%Z /\ tag op <> 6%Z).
    { destruct e as [al| |i0 sz|k0 b0 sd|d| |t a]; cbn [env_ok] in He;
        [destruct He as [Hc _]|destruct He as [Hc _]|destruct He as [Hc _]| |destruct He as [Hc _]|destruct He as [Hc _]|destruct He];
        lia. }
    destruct Hc as [Hc5 Hc6].
    destruct (Z.eqb_spec (tag op) 5); [contradiction|]. destruct (Z.eqb_spec (tag op) 6); [contradiction|].
    cbn [andb]. rewrite Ep. splits; auto. intros Hf. left. splits; auto. discriminate.
  - destruct (tstep_ok _ _ _ _ _ Ht) as [Hs [_ [Hwr _]]].
    destruct (thr_act_none _ _ _ _ _ (conj Hres (conj Hat Hth))) as [_ Hng]. rewrite Hng in Hwr.
    split; [exact Hwr|].
    assert (Hhit : Z.eqb (tag res) 1 = true) by (rewrite Hres; reflexivity). rewrite Hhit, !andb_true_r.
    destruct t; cbn [step] in Hs.
    + pose proof (rstep_frame _ _ _ _ II Hs) as Ep. rewrite Ep.
      assert (Hc5 : Z.eqb (tag op) 5 = false).
      { destruct Hth as [[E [Et _]]|[[E _]|[E _]]]; [discriminate Et|rewrite E; reflexivity|rewrite E; reflexivity]. }
      rewrite Hc5. cbn [andb].
      assert (Hw6 : Z.eqb (tag op) 6 = true -> writer (x_sys x) = Some TR).
      { intros E6. destruct Hth as [[E _]|[[_ [Hw _]]|[E _]]]; [rewrite E in E6; discriminate|exact Hw|rewrite E in E6; discriminate]. }
      split.
      * intros Hf. left. splits; auto.
      * intros Hp. splits; auto. destruct (Z.eqb (tag op) 6) eqn:E6; [exfalso|reflexivity].
        destruct (writer_cases _ _ (Hw6 eq_refl)) as [[_ [st Er]]|[Et _]]; [|discriminate Et].
        unfold pwr in Hp. destruct (s_p (x_sys x)) as [| | | | | | | |k []|] eqn:Epp; try discriminate.
        destruct I3 as [_ I3]. unfold r_holds, p_holds in I3. rewrite Er, Epp in I3. discriminate.
    + destruct (pstep_shape _ _ _ _ II Hs) as [_ [_ [Sh _]]].
      destruct Hth as [[E5 [_ [Hsyn Hok]]]|[[E6 [Hwr6 Hok]]|[E8 [Hok [[_ [Et _]]|[_ [_ [dl [Hat' _]]]]]]]]].
      * rewrite E5. cbn. unfold is_syncing in Hsyn. revert Sh.
        destruct (s_p (x_sys x)) as [| | | | |k f| | | |]; try discriminate. intros Sh. rewrite <- Hok.
        destruct Sh as [[Ha ->]|[Ha ->]]; rewrite Ha; cbn.
        -- split; intros H; discriminate.
        -- split; [|intros H; discriminate]. intros Hf. left. splits; auto; try discriminate; try (intros; discriminate).
           all: unfold fresh in *; cbn in *; destruct f; auto.
      * rewrite E6. cbn.
        destruct (writer_cases _ _ Hwr6) as [[Et _]|[_ [k [st Ep]]]]; [discriminate Et|]. rewrite Ep in Sh. rewrite Ep.
        rewrite <- Hok.
        destruct Sh as [[w' [-> Sw]]|[Sw _]]; [|discriminate Sw].
        destruct Sw as [[Ha ->]|[Ha ->]]; rewrite Ha; cbn.
        -- split; [|intros H; discriminate]. intros _. right. auto.
        -- split; intros H; discriminate.
      * discriminate Et.
      * rewrite E8. cbn.
        destruct Hat' as [Ep|[[k [f Ep]]|[k Ep]]]; rewrite Ep in Sh; rewrite Ep.
        -- destruct Sh as [[_ [-> _]]|[-> _]]; cbn; (split; [|intros H; discriminate]);
             intros _; left; splits; auto; try discriminate; try (intros; discriminate).
        -- rewrite Sh. cbn. split; [|intros H; discriminate]. intros Hf. left. splits; auto; try discriminate; try (intros; discriminate).
           all: unfold fresh in *; cbn in *; destruct f; auto.
        -- destruct Sh as [[w' [-> Sw]]|[Sw _]]; [|discriminate Sw]. subst w'. cbn. split; intros H; discriminate.
Qed.

End Class.

(** ---- the monitor's [written] against the sync bookkeeping ---- *)
Definition ole (a b : option nat) : Prop :=
  match a with
  | None => True
  | Some j => match b with Some j' => j <= j' | None => False end
  end.

Lemma ole_refl a : ole a a.
Proof. destruct a; cbn; auto. Qed.

Lemma should_ole a b k : ole a b -> should a k = true -> should b k = true.
Proof.
  unfold ole, should. destruct a as [j|]; [|discriminate]. destruct b as [j'|]; [|intros []].
  intros Hle H. apply Nat.ltb_lt in H. apply Nat.ltb_lt. lia.
Qed.

(** the monitor's record of the write in flight is the new one or the old one *)
Lemma cur_cases m op o po :
  (exists c, snd (ms_nc m op o po) = Some (mkPendw c (ms_last_ok m op o) po) /\ m_nwr m < fst (ms_nc m op o po)) \/
  (snd (ms_nc m op o po) = ms_cur0 m op o /\ fst (ms_nc m op o po) = m_nwr m).
Proof.
  unfold ms_nc. destruct (ms_wobs o) as [w|]; [|right; auto].
  destruct (Nat.ltb_spec (m_nwr m) (sx_nat (sx_nth w 1))); [left; eexists; split; [reflexivity|exact H]|right; auto].
Qed.

(** when every epoch is synchronized every acknowledged upload still in the list is at level 2 *)
Lemma all_lv2 p k g : ack_ok p k g -> totalReleased p <= o_block (g_o g) ->
  synchronizedEpochs p = length (epochSeeds p) -> g_lv g = 2.
Proof.
  intros [_ [_ [A3 [T N]]]] Hge Hs. destruct (N Hge) as [[_ N2] _].
  destruct T as [T|[_ [_ [bb [la [_ [_ [_ [TD _]]]]]]]]]; [lia|].
  assert (o_epoch (g_o g) - g_d g < length (epochSeeds p)) by (apply nth_error_Some; congruence).
  destruct (Nat.eq_dec (g_lv g) 2); [assumption|]. specialize (N2 ltac:(lia)). lia.
Qed.

Section C5.
Variable cfg : config.
Variable alloc : loc -> Z -> bool.
Variable oldest : N.
Variable init : list bstate.
Variable t0 : N.
Notation good := (good cfg alloc oldest init t0).
Notation rel1 := (rel1 cfg alloc oldest init t0).
Notation rel2 := (rel2 cfg alloc oldest init t0).

Record rel5 (m : mst) (x : xst) : Prop := mkRel5 {
  r5_X : pX (x_sys x);
  r5_w : exists jw,
     (forall k, In k (m_acks m) -> zmem (k_loc k) (m_popped m) = false -> should jw k = true ->
                exists c, m_written m = Some c /\ covers c k = true)
     /\ (forall j, jw = Some j -> j <= m_step m)
     /\ (fresh (s_p (x_sys x)) = true -> ole (m_last_ok_start m) jw)
     /\ (forall w, m_cur m = Some w ->
           incl (pw_popped w) (m_popped m) /\
           (nf (s_p (x_sys x)) = false -> ole (m_last_ok_start m) (pw_cover_before w)))
}.

(** at a quiescent state the put loop is never blocked behind a release loop that is not writing *)
Lemma p_acquire_blocked x : good (x_sys x) -> quiet cfg (x_sys x) ->
  Z.eqb (tag (enc_p x)) 5 && negb (is_write (enc_r x)) = false.
Proof.
  intros G [Qr Qp]. destruct (Z.eqb_spec (tag (enc_p x)) 5) as [E5|N5]; [|reflexivity]. cbn [andb].
  pose proof (good_inv1 _ _ _ _ _ _ G) as II.
  destruct (reachable_inv_all _ _ _ _ _ _ (proj1 G)) as [_ [_ [[I3a I3b] _]]].
  unfold enc_p in E5. destruct (s_p (x_sys x)) as [| | | | | | | |k w|] eqn:Ep; try discriminate E5.
  destruct w; try discriminate E5.
  (* PW k WAcquire, not enabled: the lock is held by the release loop *)
  unfold p_internal, p_in_io, p_in_timer, enabled in Qp. cbn [step] in Qp. unfold pstep in Qp. rewrite Ep in Qp.
  cbn in Qp. destruct (s_store (x_sys x)) as [t|] eqn:Est; [|discriminate Qp].
  unfold r_holds, p_holds in I3a. rewrite Ep in I3a. cbn in I3a.
  assert (Hrh : r_holds (x_sys x) = true).
  { revert I3a. unfold r_holds. try rewrite Est. destruct (s_r (x_sys x)) as [| |w]; cbn; try (intros H; discriminate H).
    destruct (holds w); [reflexivity|intros H; discriminate H]. }
  destruct (holder_enabled_r cfg (x_sys x) II Hrh) as [H|H]; [|congruence].
  unfold r_in_io in H. unfold enc_r. destruct (s_r (x_sys x)) as [| |[]]; try discriminate. reflexivity.
Qed.

Lemma quiet_idle_synced x c : good (x_sys x) -> quiet cfg (x_sys x) -> s_p (x_sys x) = PIdle c ->
  synchronizedEpochs (s_pbl (x_sys x)) = length (epochSeeds (s_pbl (x_sys x))).
Proof.
  intros G [_ Qp] Ep. pose proof (good_inv1 _ _ _ _ _ _ G) as II.
  destruct (reachable_inv_all _ _ _ _ _ _ (proj1 G)) as [_ [[_ I2] _]].
  unfold p_internal, p_in_io, p_in_timer, enabled in Qp. cbn [step] in Qp. unfold pstep in Qp. rewrite Ep in Qp. cbn in Qp.
  destruct (Nat.eq_dec (synchronizedEpochs (s_pbl (x_sys x))) (length (epochSeeds (s_pbl (x_sys x))))) as [E|E]; [exact E|exfalso].
  pose proof (i_sync1 _ (proj1 II)). pose proof (i_sync2 _ (proj1 II)).
  assert (Hcl : put_chan_closed (s_pbl (x_sys x)) = true) by (apply inv_wakeup_put; [exact (proj1 II)|lia]).
  assert (is_closed (heap (s_pbl (x_sys x))) c = true) as Hc.
  { destruct (I2 c (or_intror Ep)) as [->|H']; [exact Hcl|exact H']. }
  rewrite Hc in Qp. destruct (s_cancel (x_sys x) && _); discriminate.
Qed.

Lemma rel5_step rem m x op rw x1 res x2 :
  rel2 (S rem) m x -> rel5 m x -> tri cfg op x x1 res -> quiesce cfg 64 rw x1 = Ok x2 ->
  rel2 rem (mon_step (c_interval cfg) m op (enc_obs res x2)) x2 ->
  rel5 (mon_step (c_interval cfg) m op (enc_obs res x2)) x2
  /\ ms_v5 m op (enc_obs res x2) (ms_popped m op (enc_obs res x2)) = [].
Proof.
  intros R2 [X [jw [A5 [E5 [B5 C5]]]]] T Hq R2'.
  pose proof R2 as [R [gs0 C0] [S1 S2] Hnwr0 [Etot0 [_ W0]]].
  set (o := enc_obs res x2) in *. set (m' := mon_step (c_interval cfg) m op o) in *.
  pose proof (r1_good _ _ _ _ _ _ _ R) as G. pose proof (tri_good _ _ _ _ _ _ _ _ _ G T) as G1.
  pose proof R2' as [R' [gs2 C2] [S1' S2'] Hnwr2 _].
  pose proof (r1_good _ _ _ _ _ _ _ R') as G2. pose proof (r1_quiet _ _ _ _ _ _ _ R') as Q2.
  pose proof (tri_pX _ _ _ _ _ _ _ _ _ G X T) as X1. pose proof (quiesce_pX _ _ _ _ _ _ _ _ _ G1 X1 Hq) as X2.
  destruct (op_class _ _ _ _ _ m x op x1 res x2 R T) as [Hnw1 [K1 K2]]. fold o in K1, K2.
  destruct (class_traj _ _ _ _ _ _ _ _ _ G1 Hq) as [J1 J2 J3].
  (* the monitor after the operation *)
  assert (Em : m_step m' = S (m_step m) /\ m_acks m' = ms_acks m op o /\ m_popped m' = ms_popped m op o
               /\ m_written m' = ms_written m op o /\ m_last_ok_start m' = ms_last_ok m op o
               /\ m_cur m' = snd (ms_nc m op o (ms_popped m op o)) /\ m_nwr m' = fst (ms_nc m op o (ms_popped m op o))).
  { unfold m'. rewrite mon_step_eq. cbn [m_step m_acks m_popped m_written m_last_ok_start m_cur m_nwr]. splits; reflexivity. }
  destruct Em as [Em1 [Em2 [Em3 [Em4 [Em5 [Em6 Em7]]]]]].
  assert (Hacks_sub : forall k, In k (ms_acks m op o) -> In k (m_acks m) \/ k_step k = m_step m).
  { intros k. unfold ms_acks. destruct (_ && _)%bool; [|auto]. destruct (nth_error (m_upl m) _) as [[lo en]|]; [|auto].
    intros Hi. apply in_app_or in Hi. destruct Hi as [Hi|[<-|[]]]; auto. }
  assert (Hpop_sub : forall z, zmem z (ms_popped m op o) = false -> zmem z (m_popped m) = false).
  { intros z Hz. destruct (zmem z (m_popped m)) eqn:E; [|reflexivity]. apply zmem_in in E.
    assert (In z (ms_popped m op o)) as Hi; [|apply zmem_in in Hi; congruence].
    unfold ms_popped, ms_bp. destruct (_ && _)%bool.
    - destruct (m_blocks m); cbn [snd]; [exact E|apply in_or_app; left; exact E].
    - destruct (_ && _)%bool; exact E. }
  assert (Hwok : ms_write_ok op o = true ->
            exists w, m_cur m = Some w /\ Forall (okw w) (m_acks m) /\ ms_acks m op o = m_acks m
                      /\ ms_popped m op o = m_popped m /\ ms_last_ok m op o = m_last_ok_start m
                      /\ (forall j, pw_cover_before w = Some j -> j <= m_step m)).
  { intros Hw. unfold ms_write_ok, ms_write_done, ms_hit in Hw. subst o. rewrite obs_nth0 in Hw.
    apply andb_true_iff in Hw. destruct Hw as [Hw _]. apply andb_true_iff in Hw. destruct Hw as [Hc6 Hhit].
    apply Z.eqb_eq in Hc6.
    destruct T as [[-> Hn]|[[e [He _]]|[t [a [[Hres [Hat Hth]] Ht]]]]].
    - destruct Hn as [Hn1 _]. rewrite Hn1 in Hhit by auto. discriminate.
    - exfalso. destruct e as [al| |i0 sz|k0 b0 sd|d| |t a]; cbn [env_ok] in He;
        [destruct He as [Hc _]|destruct He as [Hc _]|destruct He as [Hc _]| |destruct He as [Hc _]|destruct He as [Hc _]|destruct He]; lia.
    - destruct Hth as [[E _]|[[_ [Hwr _]]|[E _]]]; try lia.
      assert (exists st, written_state (x_sys x) t = Some st) as [st Hws].
      { destruct (writer_cases _ _ Hwr) as [[-> [st Er]]|[-> [k [st Ep]]]]; cbn [written_state]; rewrite ?Er, ?Ep; eauto. }
      destruct (W0 t st Hws) as [j [po [E0 [H1 [H2 [_ [_ H5]]]]]]].
      exists (mkPendw (enc_st st) j po). splits; auto.
      + apply acks_same. left. lia.
      + unfold ms_popped. rewrite bp_same; [reflexivity|left; lia|left; lia].
      + unfold ms_last_ok, ms_sync_ok, ms_sync_done. rewrite Hc6. reflexivity. }
  assert (Hnwok : ms_write_ok op o = false -> ms_written m op o = m_written m).
  { intros Hw. unfold ms_written. rewrite Hw. reflexivity. }
  (* the new ghost: the cover-before of the last completed write *)
  set (jw' := if ms_write_ok op o then match m_cur m with Some w => pw_cover_before w | None => jw end else jw).
  assert (A5' : forall k, In k (m_acks m') -> zmem (k_loc k) (m_popped m') = false -> should jw' k = true ->
                          exists c, m_written m' = Some c /\ covers c k = true).
  { rewrite Em2, Em3, Em4. intros k Hk Hz Hs. unfold jw' in Hs.
    destruct (ms_write_ok op o) eqn:Ewok.
    - destruct (Hwok eq_refl) as [w [Hcur [Hokw [Ea [Epo [_ _]]]]]]. rewrite Hcur in Hs. rewrite Ea in Hk. rewrite Epo in Hz.
      unfold ms_written. rewrite Ewok, Hcur. eexists. split; [reflexivity|].
      rewrite Forall_forall in Hokw. destruct (Hokw k Hk) as [Hp|[Hc _]].
      + exfalso. destruct (C5 w Hcur) as [Hincl _]. apply zmem_in in Hp. apply Hincl in Hp. apply zmem_in in Hp. congruence.
      + apply Hc. exact Hs.
    - rewrite (Hnwok eq_refl). destruct (Hacks_sub k Hk) as [Hold|Hnew].
      + apply A5; auto.
      + exfalso. unfold should in Hs. destruct jw as [j|]; [|discriminate]. specialize (E5 j eq_refl).
        apply Nat.ltb_lt in Hs. lia. }
  assert (E5' : forall j, jw' = Some j -> j <= m_step m').
  { rewrite Em1. unfold jw'. intros j Hj. destruct (ms_write_ok op o) eqn:Ewok.
    - destruct (Hwok eq_refl) as [w [Hcur [_ [_ [_ [_ Hb]]]]]]. rewrite Hcur in Hj. specialize (Hb j Hj). lia.
    - specialize (E5 j Hj). lia. }
  assert (Hlo : ms_sync_ok op o = false -> ms_last_ok m op o = m_last_ok_start m).
  { intros H. unfold ms_last_ok. rewrite H. reflexivity. }
  assert (B5' : fresh (s_p (x_sys x2)) = true -> ole (m_last_ok_start m') jw').
  { rewrite Em5. intros Hf. specialize (J1 Hf). unfold jw'. destruct (K1 J1) as [[Hf0 [Hso Hwd]]|[Hp0 Hwo]].
    - rewrite (Hlo Hso). destruct (ms_write_ok op o) eqn:Ewok; [|apply B5; exact Hf0].
      destruct (Hwok eq_refl) as [w [Hcur _]]. rewrite Hcur. destruct (C5 w Hcur) as [_ Hc]. apply Hc.
      unfold fresh in Hf0. apply andb_true_iff in Hf0. destruct Hf0 as [Hf0 _]. destruct (nf (s_p (x_sys x))); [discriminate|reflexivity].
    - rewrite Hwo. destruct (Hwok Hwo) as [w [Hcur [_ [_ [_ [Hl _]]]]]]. rewrite Hcur, Hl. destruct (C5 w Hcur) as [_ Hc]. apply Hc.
      unfold pwr in Hp0. destruct (s_p (x_sys x)) as [| | | | | | | |k []|]; try discriminate. reflexivity. }
  assert (C5' : forall w, m_cur m' = Some w ->
            incl (pw_popped w) (m_popped m') /\ (nf (s_p (x_sys x2)) = false -> ole (m_last_ok_start m') (pw_cover_before w))).
  { rewrite Em6, Em3, Em5. intros w Hw.
    destruct (cur_cases m op o (ms_popped m op o)) as [[c [Hc Hlt]]|[Hc Heq]].
    - rewrite Hc in Hw. inversion Hw; subst w. cbn [pw_popped pw_cover_before]. split; [apply incl_refl|intros _; apply ole_refl].
    - rewrite Hc in Hw. unfold ms_cur0 in Hw. destruct (ms_write_done op o) eqn:Ewd; [discriminate|].
      destruct (C5 w Hw) as [Hincl Hc5]. split.
      + intros z Hz. apply Hincl in Hz. destruct (zmem z (ms_popped m op o)) eqn:E; [apply zmem_in; exact E|].
        apply Hpop_sub in E. apply zmem_in in Hz. congruence.
      + intros Hnf.
        assert (Hnw2 : x_nwr x2 = x_nwr x) by (rewrite <- Hnwr2, Em7, Heq; exact Hnwr0).
        assert (Hnf0 : nf (s_p (x_sys x)) = false /\ ms_sync_ok op o = false).
        { destruct (pwr (s_p (x_sys x2))) eqn:Ep2.
          - destruct (J2 eq_refl) as [E|E]; [|lia]. rewrite E in Ep2. destruct (K2 Ep2) as [E0 [Hso _]].
            split; [|exact Hso]. rewrite <- E0. unfold pwr in Ep2. destruct (s_p (x_sys x1)) as [| | | | | | | |k []|]; try discriminate. reflexivity.
          - assert (fresh (s_p (x_sys x2)) = true) as Hf by (unfold fresh; rewrite Hnf, Ep2; reflexivity).
            destruct (K1 (J1 Hf)) as [[Hf0 [Hso _]]|[_ Hwo]].
            + split; [|exact Hso]. unfold fresh in Hf0. destruct (nf (s_p (x_sys x))); [discriminate|reflexivity].
            + exfalso. unfold ms_write_ok in Hwo. rewrite Ewd in Hwo. discriminate. }
        destruct Hnf0 as [Hnf0 Hso]. rewrite (Hlo Hso). apply Hc5. exact Hnf0. }
  split; [constructor; [exact X2|exists jw'; auto]|].
  (* clause 5 itself *)
  unfold ms_v5. destruct (ms_p_waits o) eqn:Epw; [|rewrite andb_false_r; reflexivity]. rewrite andb_true_r.
  assert (ms_uncovered m op o (ms_popped m op o) = false) as ->; [|reflexivity].
  unfold ms_p_waits in Epw. subst o. rewrite obs_nth1, obs_nth2 in Epw.
  rewrite (p_acquire_blocked x2 G2 Q2), orb_false_r in Epw.
  assert (Hsyn : synchronizedEpochs (s_pbl (x_sys x2)) = length (epochSeeds (s_pbl (x_sys x2))) /\ fresh (s_p (x_sys x2)) = true).
  { unfold enc_p in Epw. destruct (s_p (x_sys x2)) as [| |c| | | | | |k w|] eqn:Ep2; try discriminate Epw.
    - split; [eapply quiet_idle_synced; eauto|reflexivity].
    - destruct w; discriminate Epw.
    - split; [|reflexivity]. unfold pX in X2. rewrite Ep2 in X2. exact (proj2 X2). }
  destruct Hsyn as [Hsyn Hfr].
  unfold ms_uncovered. apply not_true_is_false. intros Hex. apply existsb_exists in Hex. destruct Hex as [k [Hk Hun]].
  apply andb_true_iff in Hun. destruct Hun as [Hz Hnc]. apply negb_true_iff in Hz.
  fold (enc_obs res x2) in *. set (o := enc_obs res x2) in *.
  unfold covx in C2. rewrite Em2, Em3, Em5 in C2. destruct C2 as [_ C22 _ _ _ _ C27 C28].
  destruct (F2_in_l _ _ _ _ (F2_conj _ _ _ _ C27 C28) Hk) as [g [Hok [Hh [_ Hlv]]]].
  destruct (Nat.lt_ge_cases (o_block (g_o g)) (totalReleased (s_pbl (x_sys x2)))) as [Hrel|Hge].
  - rewrite <- C22 in Hrel. rewrite nth_error_app1 in Hh by exact Hrel. apply nth_error_In in Hh. apply zmem_in in Hh. congruence.
  - pose proof (all_lv2 _ _ _ Hok Hge Hsyn) as H2. rewrite Hlv in H2. apply lvl2_iff in H2.
    pose proof (should_ole _ _ _ (B5' Hfr) ltac:(rewrite Em5; exact H2)) as Hs.
    destruct (A5' k ltac:(rewrite Em2; exact Hk) ltac:(rewrite Em3; exact Hz) Hs) as [c [Hc Hcov]].
    rewrite Em4 in Hc. rewrite Hc, Hcov in Hnc. discriminate.
Qed.

End C5.
