(** C07, "the monitor is silent on the model" — part 9: clause 5 (the put
    loop waits while an acknowledged upload is not covered by the last state
    write that completed).

    Model side: [pX] — once the final sync has been started the list is closed
    for writing and every epoch is being synchronized, and once it has
    completed every epoch is synchronized (so ProcessBlockPut returns false
    only when nothing is left); the put loop's program counters fall into three
    classes ([nf]: between a sync completion and the completion of the loop's
    own state write, [pwr]: its state write is in flight, fresh: the rest) and
    the only way from [nf] to fresh leads through a successful state write of
    the put loop itself. *)
From Coq Require Import List NArith ZArith Bool Arith Lia.
From BBS Require Import Common.Sx Persist.PBL Persist.PBLProofs Persist.Syncer Persist.SyncerProofs
  Persist.LiveActs Persist.LiveCover Persist.LiveRelease Run.R07 Run.R07MonBase Run.R07MonOps Run.R07MonC123
  Run.R07MonCov1 Run.R07MonCov2 Run.R07MonOps2 Run.R07MonCov3.
Import ListNotations.
Local Open Scope nat_scope.

(** ---- closed for writing ---- *)
Definition pXc (p : pbl) : Prop := closedForWriting p = true /\ synchronizingEpochs p = length (epochSeeds p).
Definition pXd (p : pbl) : Prop := closedForWriting p = true /\ synchronizedEpochs p = length (epochSeeds p).

Definition pX (s : sys) : Prop :=
  match s_p s with
  | PSyncing false true | PSyncSleep false true _ | PSyncRet false true => pXc (s_pbl s)
  | PW false _ | PExit => pXd (s_pbl s)
  | _ => True
  end.

Lemma fin_closed tok blk size seed p : closedForWriting p = true ->
  put_finalize tok blk size seed p = Ok (p, match tok with PutClosed => FinClosed | PutAt _ => match blk with None => FinBlockError | Some _ => FinClosed end end).
Proof.
  intros Hc. unfold put_finalize. destruct tok; [reflexivity|]. destruct blk; [|reflexivity]. rewrite Hc. reflexivity.
Qed.

(** calls other than the sync notifications keep both facts *)
Lemma pX_act a p p' : pbl_inv p -> apply_act a p = Ok p' ->
  match a with ASyncStart | ASyncDone _ => True | _ => (pXc p -> pXc p') /\ (pXd p -> pXd p') end.
Proof.
  intros I Ha. destruct a as [|al| |tok blk size seed| |b|t|t]; cbn [apply_act] in Ha; auto.
  - inversion Ha; subst. auto.
  - inversion Ha; subst. unfold push_back. split; intros [Hc H]; rewrite Hc; cbn; split; auto.
  - destruct (blocks p) as [|fb rest] eqn:Eb; [unfold pop_front in Ha; rewrite Eb in Ha; discriminate|].
    destruct (pop_fields _ _ _ _ Eb Ha) as [_ [Fs [_ [_ [Fsy [Fsd [_ [_ [_ [Fc _]]]]]]]]]].
    unfold pXc, pXd. rewrite Fs, Fsy, Fsd, Fc, skipn_length. split; intros [Hc H]; split; auto; lia.
  - split; intros [Hc H]; rewrite (fin_closed tok blk size seed p Hc) in Ha; cbn in Ha; inversion Ha; subst; split; auto.
  - destruct (get_persistent_state p) as [[p1 st]|] eqn:Eg; [|discriminate]. cbn in Ha. inversion Ha; subst.
    destruct (gps_fields _ _ _ Eg) as [Hc [_ [_ [_ [Fc _]]]]]. unfold core in Hc. injection Hc as H1 H2 H3 H4 H5 H6.
    unfold pXc, pXd. rewrite Fc, H2, H5, H6. auto.
  - destruct (nsw_fields _ _ Ha) as [Hc [_ [_ [_ [Fc _]]]]]. unfold core in Hc. injection Hc as H1 H2 H3 H4 H5 H6.
    unfold pXc, pXd. rewrite Fc, H2, H5, H6. auto.
Qed.

Lemma step_pX cfg s e s' : inv1 s -> pX s -> step cfg s e = Some (Ok s') -> pX s'.
Proof.
  intros II X Hs. pose proof (step_act _ _ _ _ Hs) as Ha. pose proof (proj1 II) as Ip.
  destruct e as [al| |index size|k blk seed|d| |t a].
  1-6: (match type of Hs with step _ _ ?e = _ =>
          assert (forall t a, e <> EStep t a) as Hne by (intros t1 a0 H0; discriminate H0) end;
        destruct (env_frame cfg s _ s' Hne Hs) as [_ Ep];
        pose proof (pX_act _ _ _ Ip Ha) as F; revert F X; unfold pX; rewrite Ep; cbn [act_of];
        try (destruct (nth_error (s_uploads s) k) as [[[tok sz]|]|]);
        intros [F1 F2]; destruct (s_p s) as [| | | | |[] []|[] []|[] [] ?|[] ?|]; auto).
  destruct t; cbn [step] in Hs.
  - (* the release loop *)
    pose proof (rstep_frame _ _ _ _ II Hs) as Ep. pose proof (pX_act _ _ _ Ip Ha) as F. revert F X. unfold pX. rewrite Ep.
    cbn [act_of]. destruct (s_r s) as [| |[]]; cbn [wact]; intros [F1 F2];
      destruct (s_p s) as [| | | | |[] []|[] []|[] [] ?|[] ?|]; auto.
  - (* the put loop *)
    destruct (pstep_shape _ _ _ _ II Hs) as [_ [_ [Sh _]]]. pose proof (pX_act _ _ _ Ip Ha) as F.
    revert Sh F X Ha. unfold pX. cbn [act_of].
    destruct (s_p s) as [|ch|ch|dl|keep|keep final|keep final|keep final dl|keep w|]; intros Sh F X Ha.
    + destruct Sh as [c ->]. exact I.
    + destruct Sh as [->| ->]; exact I.
    + destruct Sh as [[_ ->]| ->]; exact I.
    + destruct Sh as [[_ [-> _]]|[-> _]]; exact I.
    + rewrite Sh. destruct keep; exact I.
    + destruct F as [F1 F2]. destruct Sh as [[_ ->]|[_ ->]]; destruct keep, final; auto.
    + cbn [apply_act] in Ha. inversion Ha as [Hp]. clear Ha.
      destruct (nsc_fields (s_pbl s)) as [_ [Fs [_ [_ [Fsy [Fsd [_ [_ [_ [Fc _]]]]]]]]]].
      destruct Sh as [[-> [-> ->]]|[Hkf ->]].
      * cbn [negb andb]. unfold pXc. cbn. auto.
      * destruct keep; [exact I|]. destruct final; [|destruct Hkf; discriminate].
        cbn [negb andb]. destruct X as [Xc Xs]. unfold pXd. rewrite Fc, Fsd, Fs. auto.
    + destruct F as [F1 F2]. rewrite Sh. destruct keep, final; auto.
    + destruct Sh as [[w' [-> _]]|[-> ->]]; destruct keep; try exact I.
      * destruct w; cbn [wact] in F; destruct F as [_ F2]; auto.
      * cbn [wact] in F. destruct F as [_ F2]. auto.
    + destruct Sh.
Qed.

(** ---- classes of the put loop's program counter ---- *)
Definition nf (p : ppc) : bool :=
  match p with
  | PSyncRet _ _ | PW _ WAcquire | PW _ WGetState | PW _ (WSleep _) | PSyncing _ true | PSyncSleep _ true _ => true
  | _ => false
  end.
Definition pwr (p : ppc) : bool := match p with PW _ (WWriting _) => true | _ => false end.
Definition fresh (p : ppc) : bool := negb (nf p) && negb (pwr p).

Lemma int_class cfg s s' : inv1 s -> p_internal cfg s = true -> pstep cfg internal_ans s = Some (Ok s') ->
  (fresh (s_p s') = true -> fresh (s_p s) = true) /\ (pwr (s_p s') = true -> at_getstate TP s = true)
  /\ pwr (s_p s) = false.
Proof.
  intros II Hi Hs. destruct (pstep_shape _ _ _ _ II Hs) as [_ [_ [Sh _]]]. revert Sh Hi.
  unfold p_internal, p_in_io, p_in_timer, at_getstate.
  destruct (s_p s) as [|ch|ch|dl|keep|keep final|keep final|keep final dl|keep w|]; intros Sh Hi; cbn in Hi; try discriminate Hi.
  - destruct Sh as [c ->]. cbn. auto.
  - destruct Sh as [->| ->]; cbn; auto.
  - destruct Sh as [[_ ->]| ->]; cbn; auto.
  - destruct Sh as [[_ [-> _]]|[-> _]]; cbn; auto.
  - rewrite Sh. cbn. auto.
  - destruct Sh as [[_ [_ ->]]|[_ ->]]; cbn; splits; auto; discriminate.
  - destruct Sh as [[w' [-> Sw]]|[-> ->]].
    + destruct w; try discriminate Hi.
      * subst w'. cbn. splits; auto; discriminate.
      * destruct Sw as [st ->]. cbn. splits; auto; discriminate.
      * destruct Sw.
    + destruct keep; cbn; splits; auto; discriminate.
  - destruct Sh.
Qed.

Section Class.
Variable cfg : config.
Variable alloc : loc -> Z -> bool.
Variable oldest : N.
Variable init : list bstate.
Variable t0 : N.
Notation good := (good cfg alloc oldest init t0).
Notation rel1 := (rel1 cfg alloc oldest init t0).

Lemma quiesce_pX f rw x1 x2 : good (x_sys x1) -> pX (x_sys x1) -> quiesce cfg f rw x1 = Ok x2 -> pX (x_sys x2).
Proof.
  intros G X H.
  destruct (quiesce_ind cfg alloc oldest init t0 (fun xc => pX (x_sys xc))) with (f := f) (rw := rw) (x := x1) (x2 := x2)
    as [Q _]; auto.
  intros x t x' P Gx Hi Ht. destruct (tstep_ok _ _ _ _ _ Ht) as [Hs _].
  eapply step_pX; [exact (good_inv1 _ _ _ _ _ _ Gx)|exact P|exact Hs].
Qed.

Lemma tri_pX op x x1 res : good (x_sys x) -> pX (x_sys x) -> tri cfg op x x1 res -> pX (x_sys x1).
Proof.
  intros G X [[-> _]|[[e [_ [Hs _]]]|[t [a [_ Ht]]]]]; auto.
  - eapply step_pX; [exact (good_inv1 _ _ _ _ _ _ G)|exact X|exact Hs].
  - destruct (tstep_ok _ _ _ _ _ Ht) as [Hs _]. eapply step_pX; [exact (good_inv1 _ _ _ _ _ _ G)|exact X|exact Hs].
Qed.

Record ctj (x1 xc : xst) : Prop := mkCtj {
  cj_fresh : fresh (s_p (x_sys xc)) = true -> fresh (s_p (x_sys x1)) = true;
  cj_pwr : pwr (s_p (x_sys xc)) = true -> s_p (x_sys xc) = s_p (x_sys x1) \/ x_nwr x1 < x_nwr xc;
  cj_nwr : x_nwr x1 <= x_nwr xc
}.

Lemma class_traj f rw x1 x2 : good (x_sys x1) -> quiesce cfg f rw x1 = Ok x2 -> ctj x1 x2.
Proof.
  intros G H.
  destruct (quiesce_ind cfg alloc oldest init t0 (ctj x1)) with (f := f) (rw := rw) (x := x1) (x2 := x2) as [Q _]; auto.
  2:{ constructor; auto. }
  intros x t x' [P1 P2 P3] Gx Hi Ht. destruct (tstep_ok _ _ _ _ _ Ht) as [Hs [_ [Hwr _]]].
  pose proof (good_inv1 _ _ _ _ _ _ Gx) as II.
  assert (Hmono : x_nwr x <= x_nwr x') by (rewrite Hwr; destruct (at_getstate t (x_sys x)); lia).
  destruct t; cbn [step t_internal] in *.
  - pose proof (rstep_frame _ _ _ _ II Hs) as Ep. constructor; rewrite ?Ep; auto; [|lia].
    intros Hp. destruct (P2 Hp) as [E|E]; [left; exact E|right; lia].
  - destruct (int_class _ _ _ II Hi Hs) as [C1 [C2 C3]]. constructor; auto; [|lia].
    intros Hp. right. rewrite Hwr, (C2 Hp). lia.
Qed.

(** what the operation itself does to the class *)
Lemma op_class m x op x1 res xo : rel1 m x -> tri cfg op x x1 res ->
  x_nwr x1 = x_nwr x /\
  (fresh (s_p (x_sys x1)) = true ->
     (fresh (s_p (x_sys x)) = true /\ ms_sync_ok op (enc_obs res xo) = false
      /\ (ms_write_done op (enc_obs res xo) = true -> writer (x_sys x) = Some TR)) \/
     (pwr (s_p (x_sys x)) = true /\ ms_write_ok op (enc_obs res xo) = true)) /\
  (pwr (s_p (x_sys x1)) = true ->
     s_p (x_sys x1) = s_p (x_sys x) /\ ms_sync_ok op (enc_obs res xo) = false
     /\ ms_write_done op (enc_obs res xo) = false).
Proof.
  intros R T. pose proof (r1_good _ _ _ _ _ _ _ R) as G. pose proof (good_inv1 _ _ _ _ _ _ G) as II.
  destruct (reachable_inv_all _ _ _ _ _ _ (proj1 G)) as [_ [_ [I3 _]]].
  unfold ms_sync_ok, ms_sync_done, ms_write_ok, ms_write_done, ms_hit. rewrite obs_nth0.
  destruct T as [[-> Hn]|[[e [He [Hs [En1 En2]]]]|[t [a [[Hres [Hat Hth]] Ht]]]]].
  - destruct Hn as [Hn1 _].
    assert (H5 : Z.eqb (tag op) 5 && Z.eqb (tag res) 1 = false).
    { destruct (Z.eqb_spec (tag op) 5) as [E|E]; [rewrite Hn1 by auto|]; reflexivity. }
    assert (H6 : Z.eqb (tag op) 6 && Z.eqb (tag res) 1 = false).
    { destruct (Z.eqb_spec (tag op) 6) as [E|E]; [rewrite Hn1 by auto|]; reflexivity. }
    rewrite H5, H6. cbn [andb]. splits; auto. intros Hf. left. splits; auto. discriminate.
  - assert (Hne : forall t a, e <> EStep t a) by (intros t a E; subst e; exact He).
    destruct (env_frame cfg _ _ _ Hne Hs) as [_ Ep].
    assert (Hc : tag op <> 5%Z /\ tag op <> 6%Z).
    { destruct e as [al| |i0 sz|k0 b0 sd|d| |t a]; cbn [env_ok] in He;
        [destruct He as [Hc _]|destruct He as [Hc _]|destruct He as [Hc _]| |destruct He as [Hc _]|destruct He as [Hc _]|destruct He];
        lia. }
    destruct Hc as [Hc5 Hc6].
    destruct (Z.eqb_spec (tag op) 5); [contradiction|]. destruct (Z.eqb_spec (tag op) 6); [contradiction|].
    cbn [andb]. rewrite Ep. splits; auto. intros Hf. left. splits; auto. discriminate.
  - destruct (tstep_ok _ _ _ _ _ Ht) as [Hs [_ [Hwr _]]].
    destruct (thr_act_none _ _ _ _ _ (conj Hres (conj Hat Hth))) as [_ Hng]. rewrite Hng in Hwr.
    split; [exact Hwr|].
    assert (Hhit : Z.eqb (tag res) 1 = true) by (rewrite Hres; reflexivity). rewrite Hhit, !andb_true_r.
    destruct t; cbn [step] in Hs.
    + pose proof (rstep_frame _ _ _ _ II Hs) as Ep. rewrite Ep.
      assert (Hc5 : Z.eqb (tag op) 5 = false).
      { destruct Hth as [[E [Et _]]|[[E _]|[E _]]]; [discriminate Et|rewrite E; reflexivity|rewrite E; reflexivity]. }
      rewrite Hc5. cbn [andb].
      assert (Hw6 : Z.eqb (tag op) 6 = true -> writer (x_sys x) = Some TR).
      { intros E6. destruct Hth as [[E _]|[[_ [Hw _]]|[E _]]]; [rewrite E in E6; discriminate|exact Hw|rewrite E in E6; discriminate]. }
      split.
      * intros Hf. left. splits; auto.
      * intros Hp. splits; auto. destruct (Z.eqb (tag op) 6) eqn:E6; [exfalso|reflexivity].
        destruct (writer_cases _ _ (Hw6 eq_refl)) as [[_ [st Er]]|[Et _]]; [|discriminate Et].
        unfold pwr in Hp. destruct (s_p (x_sys x)) as [| | | | | | | |k []|] eqn:Epp; try discriminate.
        destruct I3 as [_ I3]. unfold r_holds, p_holds in I3. rewrite Er, Epp in I3. discriminate.
    + destruct (pstep_shape _ _ _ _ II Hs) as [_ [_ [Sh _]]].
      destruct Hth as [[E5 [_ [Hsyn Hok]]]|[[E6 [Hwr6 Hok]]|[E8 [Hok [[_ [Et _]]|[_ [_ [dl [Hat' _]]]]]]]]].
      * rewrite E5. cbn. unfold is_syncing in Hsyn. revert Sh.
        destruct (s_p (x_sys x)) as [| | | | |k f| | | |]; try discriminate. intros Sh. rewrite <- Hok.
        destruct Sh as [[Ha ->]|[Ha ->]]; rewrite Ha; cbn.
        -- split; intros H; discriminate.
        -- split; [|intros H; discriminate]. intros Hf. left. splits; auto; try discriminate; try (intros; discriminate).
           all: unfold fresh in *; cbn in *; destruct f; auto.
      * rewrite E6. cbn.
        destruct (writer_cases _ _ Hwr6) as [[Et _]|[_ [k [st Ep]]]]; [discriminate Et|]. rewrite Ep in Sh. rewrite Ep.
        rewrite <- Hok.
        destruct Sh as [[w' [-> Sw]]|[Sw _]]; [|discriminate Sw].
        destruct Sw as [[Ha ->]|[Ha ->]]; rewrite Ha; cbn.
        -- split; [|intros H; discriminate]. intros _. right. auto.
        -- split; intros H; discriminate.
      * discriminate Et.
      * rewrite E8. cbn.
        destruct Hat' as [Ep|[[k [f Ep]]|[k Ep]]]; rewrite Ep in Sh; rewrite Ep.
        -- destruct Sh as [[_ [-> _]]|[-> _]]; cbn; (split; [|intros H; discriminate]);
             intros _; left; splits; auto; try discriminate; try (intros; discriminate).
        -- rewrite Sh. cbn. split; [|intros H; discriminate]. intros Hf. left. splits; auto; try discriminate; try (intros; discriminate).
           all: unfold fresh in *; cbn in *; destruct f; auto.
        -- destruct Sh as [[w' [-> Sw]]|[Sw _]]; [|discriminate Sw]. subst w'. cbn. split; intros H; discriminate.
Qed.

End Class.
