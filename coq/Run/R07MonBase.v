(** C07, "the monitor is silent on the model" — part 1: infrastructure.

    - [mon_step] written field by field ([mon_step_eq]);
    - the model side of the simulation: every state the coarse executor
      ([do_op] followed by [quiesce]) visits is [reachable] in the fine-grained
      LTS, the executor never panics, [quiesce] with fuel 64 always ends in a
      QUIESCENT state (neither loop has an internal step left; rank <= 12), and
      what one [quiesce] can do to the put loop's program counter and to the
      call counters. *)
From Coq Require Import List NArith ZArith Bool Arith Lia.
From BBS Require Import Common.Sx Persist.PBL Persist.PBLProofs Persist.Syncer Persist.SyncerProofs
  Persist.LiveActs Persist.LiveCover Persist.LiveRelease Run.R07.
Import ListNotations.
Local Open Scope nat_scope.

(** ---- mon_step, field by field ---- *)
Definition ms_hit (o : sx) : bool := Z.eqb (tag (sx_nth o 0)) 1.
Definition ms_now (m : mst) (op : sx) : N :=
  if Z.eqb (tag op) 7 then (m_now m + sx_N (sx_nth op 1))%N else m_now m.
Definition ms_upl (m : mst) (op o : sx) : list (Z * Z) :=
  if Z.eqb (tag op) 1 && ms_hit o
  then m_upl m ++ [(sx_Z (sx_nth (sx_nth o 0) 1), (sx_Z (sx_nth op 3) + sx_Z (sx_nth op 2))%Z)]
  else m_upl m.
Definition ms_acks (m : mst) (op o : sx) : list ack :=
  if Z.eqb (tag op) 2 && Z.eqb (tag (sx_nth o 0)) 0 && (1 <? length (sx_list (sx_nth o 0)))%nat then
    match nth_error (m_upl m) (sx_nat (sx_nth op 1)) with
    | Some (lo, en) => m_acks m ++ [mkAck (m_step m) lo en (sx_N (sx_nth (sx_nth o 0) 2))]
    | None => m_acks m
    end
  else m_acks m.
Definition ms_bp (m : mst) (op o : sx) : list Z * list Z :=
  if Z.eqb (tag op) 3 && ms_hit o then
    match m_blocks m with
    | b :: rest => (rest, m_popped m ++ [b])
    | [] => (m_blocks m, m_popped m)
    end
  else if Z.eqb (tag op) 4 && Z.eqb (tag (sx_nth o 0)) 0 && (1 <? length (sx_list (sx_nth o 0)))%nat
  then (m_blocks m ++ [sx_Z (sx_nth (sx_nth o 0) 1)], m_popped m)
  else (m_blocks m, m_popped m).
Definition ms_sync_done (op o : sx) : bool := Z.eqb (tag op) 5 && ms_hit o.
Definition ms_sync_ok (op o : sx) : bool := ms_sync_done op o && sx_bool (sx_nth op 1).
Definition ms_last_ok (m : mst) (op o : sx) : option nat :=
  if ms_sync_ok op o then Some (m_series_start m) else m_last_ok_start m.
Definition ms_retry (m : mst) (op o : sx) : bool :=
  if ms_sync_done op o then negb (sx_bool (sx_nth op 1)) else m_retry m.
Definition ms_write_done (op o : sx) : bool := Z.eqb (tag op) 6 && ms_hit o.
Definition ms_write_ok (op o : sx) : bool := ms_write_done op o && sx_bool (sx_nth op 1).
Definition ms_v46 (m : mst) (op o : sx) : list Z :=
  if ms_write_ok op o then match m_cur m with Some w => check_write w (ms_acks m op o) | None => [] end else [].
Definition ms_written (m : mst) (op o : sx) : option sx :=
  if ms_write_ok op o then match m_cur m with Some w => Some (pw_content w) | None => m_written m end
  else m_written m.
Definition ms_cur0 (m : mst) (op o : sx) : option pendw := if ms_write_done op o then None else m_cur m.
Definition ms_new_sync (m : mst) (o : sx) : bool :=
  Z.eqb (tag (sx_nth o 2)) 3 && (m_nsy m <? sx_nat (sx_nth (sx_nth o 2) 1))%nat.
Definition ms_series (m : mst) (op o : sx) : nat :=
  if ms_new_sync m o && negb (ms_retry m op o) then m_step m else m_series_start m.
Definition ms_nsy (m : mst) (o : sx) : nat :=
  if ms_new_sync m o then sx_nat (sx_nth (sx_nth o 2) 1) else m_nsy m.
Definition ms_wobs (o : sx) : option sx :=
  if is_write (sx_nth o 1) then Some (sx_nth o 1) else if is_write (sx_nth o 2) then Some (sx_nth o 2) else None.
Definition ms_nc (m : mst) (op o : sx) (popped : list Z) : nat * option pendw :=
  match ms_wobs o with
  | Some w => if (m_nwr m <? sx_nat (sx_nth w 1))%nat
              then (sx_nat (sx_nth w 1), Some (mkPendw (L [sx_nth w 2; sx_nth w 3]) (ms_last_ok m op o) popped))
              else (m_nwr m, ms_cur0 m op o)
  | None => (m_nwr m, ms_cur0 m op o)
  end.
Definition ms_fired (m : mst) (op o : sx) : bool :=
  Z.eqb (tag op) 8 && ms_hit o && Z.eqb (sx_Z (sx_nth op 1)) 1
  && Z.eqb (tag (m_prev_p m)) 2 && Z.eqb (sx_Z (sx_nth (m_prev_p m) 2)) 0.
Definition ms_cancelled (m : mst) (op : sx) : bool := m_cancelled m || Z.eqb (tag op) 9.
Definition ms_started (m : mst) (op o : sx) : bool :=
  ms_new_sync m o && negb (ms_retry m op o) && negb (ms_cancelled m op).
Definition ms_unarmed (m : mst) (op o : sx) : bool := ms_started m op o && negb (ms_fired m op o || m_armed m).
Definition ms_v2 (interval : N) (m : mst) (op o : sx) : list Z :=
  if (ms_fired m op o || ms_unarmed m op o) && (ms_now m op <? m_last_sched m + interval)%N then [2%Z] else [].
Definition ms_last_sched (m : mst) (op o : sx) : N :=
  if ms_fired m op o || ms_unarmed m op o then ms_now m op else m_last_sched m.
Definition ms_armed (m : mst) (op o : sx) : bool := (ms_fired m op o || m_armed m) && negb (ms_new_sync m o).
Definition ms_r_waits (o : sx) : bool :=
  Z.eqb (tag (sx_nth o 1)) 0 || (Z.eqb (tag (sx_nth o 1)) 5 && negb (is_write (sx_nth o 2))).
Definition ms_v1 (o : sx) (popped : list Z) : list Z :=
  if (length (sx_list (sx_nth o 5)) <? length popped)%nat && ms_r_waits o then [1%Z] else [].
Definition ms_uncovered (m : mst) (op o : sx) (popped : list Z) : bool :=
  existsb (fun k => negb (zmem (k_loc k) popped) &&
                    negb (match ms_written m op o with Some c => covers c k | None => false end)) (ms_acks m op o).
Definition ms_p_waits (o : sx) : bool :=
  Z.eqb (tag (sx_nth o 2)) 0 || Z.eqb (tag (sx_nth o 2)) 4
  || (Z.eqb (tag (sx_nth o 2)) 5 && negb (is_write (sx_nth o 1))).
Definition ms_v5 (m : mst) (op o : sx) (popped : list Z) : list Z :=
  if ms_uncovered m op o popped && ms_p_waits o then [5%Z] else [].

Definition ms_popped (m : mst) (op o : sx) : list Z := snd (ms_bp m op o).
Definition ms_viol (interval : N) (m : mst) (op o : sx) : list Z :=
  ms_v46 m op o ++ ms_v2 interval m op o ++ ms_v1 o (ms_popped m op o) ++ ms_v5 m op o (ms_popped m op o).

Lemma mon_step_eq interval m op o :
  mon_step interval m op o =
  mkM (S (m_step m)) (ms_now m op) (fst (ms_bp m op o)) (ms_popped m op o) (ms_upl m op o) (ms_acks m op o)
      (ms_nsy m o) (ms_series m op o) (ms_retry m op o) (ms_last_ok m op o)
      (fst (ms_nc m op o (ms_popped m op o))) (snd (ms_nc m op o (ms_popped m op o)))
      (ms_written m op o) (sx_nth o 2) (ms_last_sched m op o) (ms_armed m op o) (ms_cancelled m op)
      (m_viol m ++ ms_viol interval m op o).
Proof.
  unfold mon_step, ms_viol, ms_popped. cbv zeta.
  match goal with |- match ?E with pair _ _ => _ end = _ => change E with (ms_bp m op o) end.
  destruct (ms_bp m op o) as [bl po]. cbn [fst snd].
  match goal with |- match ?E with pair _ _ => _ end = _ => change E with (ms_nc m op o po) end.
  destruct (ms_nc m op o po) as [nw cu]. cbn [fst snd].
  reflexivity.
Qed.

(** ---- the encoded observation ---- *)
Lemma obs_nth0 res x : sx_nth (enc_obs res x) 0 = res. Proof. reflexivity. Qed.
Lemma obs_nth1 res x : sx_nth (enc_obs res x) 1 = enc_r x. Proof. reflexivity. Qed.
Lemma obs_nth2 res x : sx_nth (enc_obs res x) 2 = enc_p x. Proof. reflexivity. Qed.
Lemma obs_nth5 res x :
  sx_list (sx_nth (enc_obs res x) 5) = map (fun l : loc => A (fst l)) (releasedLog (s_pbl (x_sys x))).
Proof. reflexivity. Qed.

Lemma sx_nat_of_nat n : sx_nat (of_nat n) = n.
Proof. unfold sx_nat, of_nat. cbn. apply Nat2Z.id. Qed.
Lemma sx_N_of_N n : sx_N (of_N n) = n.
Proof. unfold sx_N, of_N. cbn. apply N2Z.id. Qed.

(** ---- the model side ---- *)
Section Model.
Variable cfg : config.
Variable alloc : loc -> Z -> bool.
Variable oldest : N.
Variable init : list bstate.
Variable t0 : N.

Definition sreach (s : sys) : Prop := reachable cfg alloc oldest init t0 s.

(** released + awaiting release = popped *)
Definition relc (p : pbl) : Prop := totalReleased p = length (releasedLog p) + length (toRelease p).

Lemma act_relc a p p' : pbl_inv p -> relc p -> apply_act a p = Ok p' -> relc p'.
Proof.
  intros I R H. pose proof (act_rel _ _ _ H) as F. unfold relc in *.
  destruct a; try (destruct F as [F1 [F2 [F3 F4]]]; rewrite F1, F3, F4; exact R).
  - destruct F as [fb [rest [_ [F1 [_ [F3 F4]]]]]]. rewrite F1, F3, F4, app_length. cbn. lia.
  - destruct F as [F1 [_ [F3 F4]]]. rewrite F1, F3, F4, app_length, firstn_length, skipn_length.
    pose proof (i_rel _ I). lia.
Qed.

(** a loop that will return false from ProcessBlockPut only exists after cancellation *)
Definition keepc (s : sys) : Prop :=
  match s_p s with
  | PNotify false | PSyncing false _ | PSyncRet false _ | PSyncSleep false _ _ | PW false _ | PExit =>
      s_cancel s = true
  | _ => True
  end.

Lemma env_cancel_mono s e s' : (forall t a, e <> EStep t a) -> step cfg s e = Some (Ok s') ->
  s_cancel s = true -> s_cancel s' = true.
Proof.
  intros Hne. destruct e as [al| |index size|k blk seed|d| |t a]; cbn [step].
  - intros H; inversion H; auto.
  - destruct (blocks _); [discriminate|]. destruct (pop_front _); [|discriminate]. intros H; inversion H; auto.
  - destruct (_ || _); [|discriminate]. destruct (put_start _ _); [|discriminate]. intros H; inversion H; auto.
  - destruct (nth_error _ _) as [[[tok sz]|]|]; try discriminate.
    destruct (put_finalize _ _ _ _ _) as [[p' fr]|]; [|discriminate]. intros H; inversion H; auto.
  - intros H; inversion H; auto.
  - intros H; inversion H; auto.
  - exfalso. eapply Hne. reflexivity.
Qed.

Lemma rstep_cancel a s s' : inv1 s -> rstep cfg a s = Some (Ok s') -> s_cancel s' = s_cancel s.
Proof.
  intros II. unfold rstep. destruct (s_r s) as [|ch|w].
  - intros H; inversion H; auto.
  - destruct (is_closed _ _); [|discriminate]. intros H; inversion H; auto.
  - destruct (wstep cfg TR w a s) as [o|] eqn:Ew; [|discriminate].
    destruct (wstep_inv1 _ _ _ _ _ _ II Ew) as [s1 [w' [-> [_ [_ [_ [_ [_ [_ [_ Hc]]]]]]]]]].
    destruct w'; intros H; inversion H; subst; cbn; auto.
Qed.

Ltac four := split; [|split; [|split]].

(** what one step of the put loop does to its program counter and to the
    clock-related fields *)
Lemma pstep_shape a s s' : inv1 s -> pstep cfg a s = Some (Ok s') ->
  s_cancel s' = s_cancel s /\ s_now s' = s_now s /\
  match s_p s with
  | PStart => exists c, s_p s' = PSelect c
  | PSelect c => s_p s' = PTimer (s_last s + c_interval cfg)%N \/ s_p s' = PIdle c
  | PIdle c => (s_cancel s = true /\ s_p s' = PNotify false) \/ s_p s' = PTimer (s_now s + c_interval cfg)%N
  | PTimer dl => (s_cancel s = true /\ s_p s' = PNotify false /\ s_last s' = s_last s
                                     /\ (a_ok a = true \/ (dl <=? s_now s)%N = false
                                                                    \/ (s_now s <? a_time a)%N = true
                                                                    \/ (a_time a <? dl)%N = true))
                 \/ (s_p s' = PNotify true /\ s_last s' = a_time a /\ (dl <= a_time a)%N /\ (a_time a <= s_now s)%N
                     /\ (s_cancel s = false \/ a_ok a = false))
  | PNotify k => s_p s' = PSyncing k false
  | PSyncing k f => (a_ok a = true /\ s_p s' = PSyncRet k f) \/
                    (a_ok a = false /\ s_p s' = PSyncSleep k f (s_now s + c_retry cfg)%N)
  | PSyncRet k f => (k = false /\ f = false /\ s_p s' = PSyncing false true) \/
                    ((k = true \/ f = true) /\ s_p s' = PW k WAcquire)
  | PSyncSleep k f dl => s_p s' = PSyncing k f
  | PW k w => (exists w', s_p s' = PW k w' /\
                 match w with
                 | WAcquire => w' = WGetState
                 | WGetState => exists st, w' = WWriting st
                 | WWriting _ => (a_ok a = true /\ w' = WWritten) \/
                                 (a_ok a = false /\ w' = WSleep (s_now s + c_retry cfg)%N)
                 | WWritten => False
                 | WSleep _ => w' = WAcquire
                 end)
              \/ (w = WWritten /\ s_p s' = (if k then PStart else PExit))
  | PExit => False
  end
  /\ (match s_p s with PTimer _ => True | _ => s_last s' = s_last s end).
Proof.
  intros II. unfold pstep.
  destruct (s_p s) as [|ch|ch|dl|keep|keep final|keep final|keep final dl|keep w|] eqn:Ep.
  - intros H; inversion H; subst; cbn. four; eauto.
  - destruct (is_closed _ _); intros H; inversion H; subst; cbn; four; auto.
  - destruct (s_cancel s) eqn:Ec; cbn [andb].
    + destruct (a_ok a || negb _); [|destruct (is_closed _ _); [|discriminate]];
        intros H; inversion H; subst; cbn; four; auto.
    + destruct (is_closed _ _); [|discriminate]. intros H; inversion H; subst; cbn; four; auto.
  - destruct (s_cancel s) eqn:Ec; cbn [andb].
    + destruct (a_ok a) eqn:Ea; cbn [orb].
      * intros H; inversion H; subst; cbn. four; auto. left. splits; auto.
      * destruct ((dl <=? a_time a)%N && (a_time a <=? s_now s)%N) eqn:Et; cbn [negb].
        -- apply andb_true_iff in Et. destruct Et as [E1 E2]. apply N.leb_le in E1. apply N.leb_le in E2.
           intros H; inversion H; subst; cbn. four; auto. right. splits; auto.
        -- intros H; inversion H; subst; cbn. four; auto. left. splits; auto.
           apply andb_false_iff in Et. destruct Et as [Et|Et].
           ++ apply N.leb_gt in Et. destruct (N.leb_spec dl (s_now s)) as [Hd|Hd]; [|auto].
              right. right. right. apply N.ltb_lt. exact Et.
           ++ apply N.leb_gt in Et. right. right. left. apply N.ltb_lt. exact Et.
    + destruct ((dl <=? a_time a)%N && (a_time a <=? s_now s)%N) eqn:Et; [|discriminate].
      apply andb_true_iff in Et. destruct Et as [E1 E2]. apply N.leb_le in E1. apply N.leb_le in E2.
      intros H; inversion H; subst; cbn. four; auto. right. splits; auto.
  - intros H; inversion H; subst; cbn. four; auto.
  - destruct (a_ok a) eqn:Ea; intros H; inversion H; subst; cbn; four; auto.
  - destruct keep, final; cbn [negb andb]; intros H; inversion H; subst; cbn; four; auto.
  - destruct (_ <=? _)%N; [|discriminate]. intros H; inversion H; subst; cbn. four; auto.
  - destruct (wstep cfg TP w a s) as [[[s1 w']|]|] eqn:Ew; try discriminate.
    destruct (wstep_inv1 _ _ _ _ _ _ II Ew) as [s2 [w2 [E2 [_ [_ [_ [_ [Hn [Hl [_ Hc]]]]]]]]]].
    inversion E2; subst s2 w2; clear E2.
    assert (Hw : match w with
                 | WAcquire => w' = Some WGetState
                 | WGetState => exists st, w' = Some (WWriting st)
                 | WWriting _ => (a_ok a = true /\ w' = Some WWritten) \/
                                 (a_ok a = false /\ w' = Some (WSleep (s_now s + c_retry cfg)%N))
                 | WWritten => w' = None
                 | WSleep _ => w' = Some WAcquire
                 end).
    { unfold wstep in Ew. destruct w.
      - destruct (s_store s); [discriminate|]. inversion Ew; auto.
      - destruct (get_persistent_state _) as [[p' st]|]; [|discriminate]. inversion Ew; eauto.
      - destruct (a_ok a); inversion Ew; auto.
      - destruct (notify_state_written _); [|discriminate]. inversion Ew; auto.
      - destruct (_ <=? _)%N; [|discriminate]. inversion Ew; auto. }
    destruct w' as [w'|]; intros H; inversion H; subst s'; cbn; (four; [exact Hc|exact Hn| |exact Hl]).
    + left. exists w'. split; [reflexivity|]. destruct w.
      * inversion Hw; auto.
      * destruct Hw as [st Hw]; inversion Hw; eauto.
      * destruct Hw as [[? Hw]|[? Hw]]; inversion Hw; auto.
      * discriminate.
      * inversion Hw; auto.
    + right. destruct w; try discriminate; try (destruct Hw as [? Hw]; discriminate); auto.
      destruct Hw as [[? Hw]|[? Hw]]; discriminate.
  - discriminate.
Qed.

Lemma step_keepc s e s' : inv1 s -> keepc s -> step cfg s e = Some (Ok s') -> keepc s'.
Proof.
  intros II K Hs.
  destruct e as [al| |index size|k blk seed|d| |t a].
  1-6: (match type of Hs with step _ _ ?e = _ =>
          assert (forall t a, e <> EStep t a) as Hne by (intros t1 a0 H0; discriminate H0) end;
        destruct (env_frame cfg s _ s' Hne Hs) as [Er Ep];
        pose proof (env_cancel_mono s _ s' Hne Hs) as Hc;
        revert K; unfold keepc; rewrite Ep;
        destruct (s_p s) as [| | | |[]|[]|[]|[]|[]|]; auto).
  destruct t; cbn [step] in Hs.
  - pose proof (rstep_frame _ _ _ _ II Hs) as Ep. pose proof (rstep_cancel _ _ _ II Hs) as Ec.
    unfold keepc in *. rewrite Ep, Ec. exact K.
  - destruct (pstep_shape _ _ _ II Hs) as [Ec [_ [Hsh _]]]. revert K Hsh. unfold keepc. rewrite Ec.
    destruct (s_p s) as [|ch|ch|dl|keep|keep final|keep final|keep final dl|keep w|]; intros K Hsh.
    + destruct Hsh as [c ->]. exact I.
    + destruct Hsh as [->| ->]; exact I.
    + destruct Hsh as [[Hc ->]| ->]; auto.
    + destruct Hsh as [[Hc [-> _]]|[-> _]]; auto.
    + rewrite Hsh. destruct keep; auto.
    + destruct Hsh as [[_ ->]|[_ ->]]; destruct keep; auto.
    + destruct Hsh as [[-> [-> ->]]|[_ ->]]; auto; destruct keep; auto.
    + rewrite Hsh. destruct keep; auto.
    + destruct Hsh as [[w' [-> _]]|[_ ->]]; destruct keep; auto.
    + destruct Hsh.
Qed.

(** the model-side invariant of the coarse executor *)
Definition good (s : sys) : Prop := sreach s /\ relc (s_pbl s) /\ keepc s.

Lemma good_inv1 s : good s -> inv1 s.
Proof. intros [R _]. eapply reachable_inv1; eauto. Qed.

Lemma step_good s e s' : good s -> step cfg s e = Some (Ok s') -> good s'.
Proof.
  intros G H. pose proof (good_inv1 _ G) as II. destruct G as [R [C K]]. split; [|split].
  - eapply reachable_step; eauto.
  - eapply act_relc; [exact (proj1 II)|exact C|]. eapply step_act; eauto.
  - eapply step_keepc; eauto.
Qed.

Lemma step_nopanic s e : good s -> step cfg s e <> Some Panic.
Proof.
  intros G H. destruct (step_inv1 _ _ _ _ (good_inv1 _ G) H) as [s' [E _]]. discriminate.
Qed.

(** ---- tstep / env_step ---- *)
Definition same_counters (x x' : xst) : Prop :=
  x_nalloc x' = x_nalloc x /\ x_nseed x' = x_nseed x /\ x_blk x' = x_blk x.

Lemma tstep_ok t a x x' : tstep cfg t a x = Some (Ok x') ->
  step cfg (x_sys x) (EStep t a) = Some (Ok (x_sys x')) /\ same_counters x x'
  /\ x_nwr x' = (if at_getstate t (x_sys x) then S (x_nwr x) else x_nwr x)
  /\ x_nsy x' = (match t with TP => if is_syncing (x_sys x') then S (x_nsy x) else x_nsy x | TR => x_nsy x end).
Proof.
  unfold tstep. destruct (step cfg (x_sys x) (EStep t a)) as [[s'|]|]; try discriminate.
  intros H; inversion H; subst; cbn. unfold same_counters. cbn. splits; auto.
Qed.

Lemma tstep_nopanic t a x : good (x_sys x) -> tstep cfg t a x <> Some Panic.
Proof.
  intros G. unfold tstep. pose proof (step_nopanic _ (EStep t a) G) as Hn.
  destruct (step cfg (x_sys x) (EStep t a)) as [[s'|]|]; try discriminate. congruence.
Qed.

Lemma env_step_ok x e x' : env_step cfg x e = Some (Ok x') ->
  step cfg (x_sys x) e = Some (Ok (x_sys x')) /\ same_counters x x' /\ x_nwr x' = x_nwr x /\ x_nsy x' = x_nsy x.
Proof.
  unfold env_step. destruct (step cfg (x_sys x) e) as [[s'|]|]; try discriminate.
  intros H; inversion H; subst; cbn. unfold same_counters. cbn. splits; auto.
Qed.

Lemma env_step_nopanic x e : good (x_sys x) -> env_step cfg x e <> Some Panic.
Proof.
  intros G. unfold env_step. pose proof (step_nopanic _ e G) as Hn.
  destruct (step cfg (x_sys x) e) as [[s'|]|]; try discriminate. congruence.
Qed.

(** ---- quiesce ---- *)
Definition pick_of (rwins : bool) (s : sys) : option tid :=
  if r_internal cfg s && (negb (store_tie s) || rwins) then Some TR
  else if p_internal cfg s then Some TP
  else if r_internal cfg s then Some TR else None.

Lemma quiesce_S f rw x : quiesce cfg (S f) rw x =
  match pick_of rw (x_sys x) with
  | None => Ok x
  | Some t => match tstep cfg t internal_ans x with
              | None => Ok x
              | Some Panic => Panic
              | Some (Ok x') => quiesce cfg f rw x'
              end
  end.
Proof. reflexivity. Qed.

Definition t_internal (s : sys) (t : tid) : bool :=
  match t with TR => r_internal cfg s | TP => p_internal cfg s end.

Lemma pick_internal rw s t : pick_of rw s = Some t -> t_internal s t = true.
Proof.
  unfold pick_of, t_internal. destruct (r_internal cfg s) eqn:Er; cbn [andb].
  - destruct (negb (store_tie s) || rw).
    + intros H; inversion H; subst. reflexivity.
    + destruct (p_internal cfg s) eqn:Ep; intros H; inversion H; subst; reflexivity.
  - destruct (p_internal cfg s) eqn:Ep; intros H; inversion H; subst; reflexivity.
Qed.

Definition quiet (s : sys) : Prop := r_internal cfg s = false /\ p_internal cfg s = false.

Lemma pick_none rw s : pick_of rw s = None -> quiet s.
Proof.
  unfold pick_of, quiet. destruct (r_internal cfg s); cbn [andb].
  - destruct (negb (store_tie s) || rw); [discriminate|]. destruct (p_internal cfg s); discriminate.
  - destruct (p_internal cfg s); [discriminate|]. auto.
Qed.

Lemma internal_enabled s t : t_internal s t = true -> step cfg s (EStep t internal_ans) <> None.
Proof.
  destruct t; cbn [t_internal].
  - unfold r_internal, enabled. intros H. apply andb_true_iff in H. destruct H as [_ H].
    unfold internal_ans. destruct (step cfg s (EStep TR (mkAns true 0))); [discriminate|discriminate].
  - unfold p_internal. destruct (s_p s) as [|ch|ch|dl|keep|keep final|keep final|keep final dl|keep w|] eqn:Ep.
    4: { intros Hc. cbn [step]. unfold pstep. rewrite Ep, Hc. cbn. discriminate. }
    all: unfold enabled, internal_ans; intros H; apply andb_true_iff in H; destruct H as [_ H];
      destruct (step cfg s (EStep TP (mkAns true 0))); discriminate.
Qed.

(** generic invariance *)
Lemma quiesce_ind (P : xst -> Prop) :
  (forall x t x', P x -> good (x_sys x) -> t_internal (x_sys x) t = true ->
                  tstep cfg t internal_ans x = Some (Ok x') -> P x') ->
  forall f rw x x2, good (x_sys x) -> P x -> quiesce cfg f rw x = Ok x2 -> P x2 /\ good (x_sys x2).
Proof.
  intros Hstep. induction f as [|f IH]; intros rw x x2 G Px H.
  - cbn in H. inversion H; subst. auto.
  - rewrite quiesce_S in H. destruct (pick_of rw (x_sys x)) as [t|] eqn:Epick; [|inversion H; subst; auto].
    destruct (tstep cfg t internal_ans x) as [[x'|]|] eqn:Et; [| discriminate |inversion H; subst; auto].
    destruct (tstep_ok _ _ _ _ Et) as [Hs _].
    eapply IH; [| |exact H].
    + eapply step_good; eauto.
    + eapply Hstep; eauto. eapply pick_internal; eauto.
Qed.

Lemma quiesce_nopanic : forall f rw x, good (x_sys x) -> quiesce cfg f rw x <> Panic.
Proof.
  induction f as [|f IH]; intros rw x G; [discriminate|].
  rewrite quiesce_S. destruct (pick_of rw (x_sys x)) as [t|]; [|discriminate].
  destruct (tstep cfg t internal_ans x) as [[x'|]|] eqn:Et; [| |discriminate].
  - destruct (tstep_ok _ _ _ _ Et) as [Hs _]. apply IH. eapply step_good; eauto.
  - exfalso. eapply tstep_nopanic; eauto.
Qed.

(** ---- rank: quiesce terminates in a quiescent state ---- *)
Definition rk_r (r : rpc) : nat :=
  match r with
  | RStart => 4 | RWait _ => 3
  | RW WAcquire => 2 | RW WGetState => 1 | RW (WWriting _) => 0 | RW WWritten => 5 | RW (WSleep _) => 0
  end.
Definition rk_p (p : ppc) : nat :=
  match p with
  | PStart => 6 | PSelect _ => 5 | PIdle _ => 4 | PTimer _ => 3 | PNotify _ => 2
  | PSyncing _ _ => 0 | PSyncRet _ _ => 3 | PSyncSleep _ _ _ => 0
  | PW _ WAcquire => 2 | PW _ WGetState => 1 | PW _ (WWriting _) => 0 | PW _ WWritten => 7 | PW _ (WSleep _) => 0
  | PExit => 0
  end.
Definition rk (s : sys) : nat := rk_r (s_r s) + rk_p (s_p s).

Lemma rk_le s : rk s <= 12.
Proof.
  unfold rk. destruct (s_r s) as [| |[]]; destruct (s_p s) as [| | | | | | | |? []|]; cbn; lia.
Qed.

Lemma rstep_shape a s s' : rstep cfg a s = Some (Ok s') ->
  match s_r s with
  | RStart => exists c, s_r s' = RWait c
  | RWait _ => s_r s' = RW WAcquire
  | RW w => (exists w', s_r s' = RW w' /\
               match w with
               | WAcquire => w' = WGetState
               | WGetState => exists st, w' = WWriting st
               | WWriting _ => (a_ok a = true /\ w' = WWritten) \/
                               (a_ok a = false /\ w' = WSleep (s_now s + c_retry cfg)%N)
               | WWritten => False
               | WSleep _ => w' = WAcquire
               end)
            \/ (w = WWritten /\ s_r s' = RStart)
  end.
Proof.
  unfold rstep. destruct (s_r s) as [|ch|w].
  - intros H; inversion H; subst; cbn. eauto.
  - destruct (is_closed _ _); [|discriminate]. intros H; inversion H; subst; cbn. auto.
  - destruct (wstep cfg TR w a s) as [[[s1 w']|]|] eqn:Ew; try discriminate.
    assert (Hw : match w with
                 | WAcquire => w' = Some WGetState
                 | WGetState => exists st, w' = Some (WWriting st)
                 | WWriting _ => (a_ok a = true /\ w' = Some WWritten) \/
                                 (a_ok a = false /\ w' = Some (WSleep (s_now s + c_retry cfg)%N))
                 | WWritten => w' = None
                 | WSleep _ => w' = Some WAcquire
                 end).
    { unfold wstep in Ew. destruct w.
      - destruct (s_store s); [discriminate|]. inversion Ew; auto.
      - destruct (get_persistent_state _) as [[p' st]|]; [|discriminate]. inversion Ew; eauto.
      - destruct (a_ok a); inversion Ew; auto.
      - destruct (notify_state_written _); [|discriminate]. inversion Ew; auto.
      - destruct (_ <=? _)%N; [|discriminate]. inversion Ew; auto. }
    destruct w'; intros H; inversion H; subst; cbn.
    + left. eexists. split; [reflexivity|]. destruct w; auto.
      * inversion Hw; auto.
      * destruct Hw as [st Hw]; inversion Hw; eauto.
      * destruct Hw as [[? Hw]|[? Hw]]; inversion Hw; auto.
      * discriminate.
      * inversion Hw; auto.
    + right. destruct w; try discriminate; try (destruct Hw as [? Hw]; discriminate); auto.
      destruct Hw as [[? Hw]|[? Hw]]; discriminate.
Qed.

Lemma rk_step s t s' : inv1 s -> t_internal s t = true -> step cfg s (EStep t internal_ans) = Some (Ok s') ->
  rk s' < rk s.
Proof.
  intros II Hi Hs. destruct t; cbn [step t_internal] in *.
  - pose proof (rstep_frame _ _ _ _ II Hs) as Ep. pose proof (rstep_shape _ _ _ Hs) as Sh.
    unfold rk. rewrite Ep. unfold r_internal, r_in_io, r_in_timer in Hi.
    revert Hi Sh. destruct (s_r s) as [|c|w]; intros Hi Sh.
    + destruct Sh as [c ->]. cbn. lia.
    + rewrite Sh. cbn. lia.
    + destruct Sh as [[w' [-> Sh]]|[-> ->]]; [|cbn; lia].
      destruct w; cbn in Hi; try discriminate.
      * subst w'. cbn. lia.
      * destruct Sh as [st ->]. cbn. lia.
      * destruct Sh.
  - pose proof (pstep_frame _ _ _ _ II Hs) as Er. destruct (pstep_shape _ _ _ II Hs) as [_ [_ [Sh _]]].
    unfold rk. rewrite Er. unfold p_internal, p_in_io, p_in_timer in Hi.
    revert Hi Sh.
    destruct (s_p s) as [|ch|ch|dl|keep|keep final|keep final|keep final dl|keep w|]; intros Hi Sh;
      cbn in Hi; try discriminate.
    + destruct Sh as [c ->]. cbn. lia.
    + destruct Sh as [->| ->]; cbn; lia.
    + destruct Sh as [[_ ->]| ->]; cbn; lia.
    + destruct Sh as [[_ [-> _]]|[-> _]]; cbn; lia.
    + rewrite Sh. cbn. lia.
    + destruct Sh as [[_ [_ ->]]|[_ ->]]; cbn; lia.
    + destruct Sh as [[w' [-> Sh]]|[-> ->]]; [|destruct keep; cbn; lia].
      destruct w; cbn in Hi; try discriminate.
      * subst w'. cbn. lia.
      * destruct Sh as [st ->]. cbn. lia.
      * destruct Sh.
    + destruct Sh.
Qed.

Lemma rk0_quiet s : rk s = 0 -> quiet s.
Proof.
  unfold rk, quiet. intros Hz. assert (rk_r (s_r s) = 0 /\ rk_p (s_p s) = 0) as [Hr Hp] by lia. split.
  - unfold r_internal, r_in_io, r_in_timer. revert Hr.
    destruct (s_r s) as [| |[]]; cbn [rk_r]; intros Hr; try lia; reflexivity.
  - unfold p_internal, p_in_io, p_in_timer, enabled. cbn [step]. unfold pstep. revert Hp.
    destruct (s_p s) as [| | | | | | | |? []|]; cbn [rk_p]; intros Hp; try lia; reflexivity.
Qed.

Lemma quiesce_quiet : forall f rw x x2, good (x_sys x) -> rk (x_sys x) <= f ->
  quiesce cfg f rw x = Ok x2 -> quiet (x_sys x2).
Proof.
  induction f as [|f IH]; intros rw x x2 G Hr H.
  - cbn in H. inversion H; subst. apply rk0_quiet. lia.
  - rewrite quiesce_S in H. destruct (pick_of rw (x_sys x)) as [t|] eqn:Epick.
    + pose proof (pick_internal _ _ _ Epick) as Hi.
      destruct (tstep cfg t internal_ans x) as [[x'|]|] eqn:Et; [|discriminate|].
      * destruct (tstep_ok _ _ _ _ Et) as [Hs _].
        eapply IH; [| |exact H].
        -- eapply step_good; eauto.
        -- pose proof (rk_step _ _ _ (good_inv1 _ G) Hi Hs). lia.
      * exfalso. unfold tstep in Et. pose proof (internal_enabled _ _ Hi) as Hn.
        destruct (step cfg (x_sys x) (EStep t internal_ans)) as [[s'|]|]; try discriminate. congruence.
    + inversion H; subst. eapply pick_none; eauto.
Qed.

Lemma quiesce_total rw x : good (x_sys x) ->
  exists x2, quiesce cfg 64 rw x = Ok x2 /\ good (x_sys x2) /\ quiet (x_sys x2).
Proof.
  intros G. destruct (quiesce cfg 64 rw x) as [x2|] eqn:E.
  - exists x2. split; [reflexivity|]. split.
    + destruct (quiesce_ind (fun _ => True) (fun _ _ _ _ _ _ _ => I) 64 rw x x2 G I E) as [_ G2]. exact G2.
    + eapply quiesce_quiet; [exact G| |exact E]. pose proof (rk_le (x_sys x)). lia.
  - exfalso. eapply quiesce_nopanic; eauto.
Qed.

End Model.
