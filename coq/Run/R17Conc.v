(** C17, kind 2: judging a gated run of concurrent callers of a replicator
    decorator.  The schedule lists the external events (start a caller, let the
    backend call a caller is parked in return with a given fault, cancel a
    caller's context, advance the clock); after each one the harness waits for
    quiescence and reports every caller's status.  Several callers may run
    between two quiescent points and the order of their lock-protected
    sections is not determined, so the judge follows the SET of model states
    reachable by running internal steps to quiescence in every order, and
    keeps those that show the observed statuses. *)
From BBS Require Import Common.Sx Common.ListX Compose.ExistenceCache Compose.Replicators.
Import ListNotations.
Open Scope Z_scope.

Definition dec_mode (s : sx) : mode :=
  match sx_Z (sx_nth s 0) with
  | 1 => MLimit (sx_nat (sx_nth s 1))
  | 2 => MQueued (sx_nat (sx_nth s 1)) (sx_N (sx_nth s 2))
  | _ => MDedup
  end.

Definition dec_ev (s : sx) : ev :=
  match sx_Z (sx_nth s 0) with
  | 0 => EStart (sx_nat (sx_nth s 1))
  | 1 => ERel (sx_nat (sx_nth s 1)) (sx_Z (sx_nth s 2))
  | 2 => ECancel (sx_nat (sx_nth s 1))
  | _ => EAdv (sx_N (sx_nth s 1))
  end.

Definition enc_pc (p : pc) : sx :=
  match p with
  | NotStarted => L [A 0]
  | Idle => L [A 1]
  | Wait k e => L [A 2; of_nat k; of_nat e]
  | Fm k e => L [A 3; of_nat k; of_nat e]
  | Get d r e => L [A 4; of_nat d; of_nats r; of_nat e]
  | Put d b r e => L [A 5; of_nat d; A b; of_nats r; of_nat e]
  | Unreg k e c => L [A 6; of_nat k; of_nat e; A c]
  | Close k e c => L [A 7; of_nat k; of_nat e; A c]
  | WaitSem => L [A 8]
  | Granted => L [A 9]
  | WaitTok => L [A 10]
  | Done c => L [A 11; A c]
  end.
Definition enc_thread (t : thread) : sx :=
  L [enc_pc (tpc t); of_nats (todo t); of_bool (cancelled t); of_option of_nats (bset t)].
Definition enc_state (s : cstate) : sx :=
  L [L (map enc_thread (thr s));
     L (map (fun p => L [of_nat (fst p); of_nat (snd p)]) (inflight s));
     L (map (fun p => L [of_bool (fst p); of_bool (snd p)]) (ents s));
     of_nats (src s); of_nats (snk s); of_nat (cur s); of_nats (semq s); of_bool (tok s);
     L (map (fun p => L [of_nat (fst p); of_N (snd p)]) (times (qcache s)));
     of_nats (lq (elru (qcache s))); of_bool (lpanic (elru (qcache s)));
     of_N (clk s); of_nat (maxkey s); of_nat (maxall s)].

(** What the harness can see of a caller. *)
Definition status_of (t : thread) : sx :=
  match tpc t with
  | NotStarted => L [A 0]
  | Fm k _ => L [A 1; A 0; A 2; of_nats [k]]
  | Get d _ _ => L [A 1; A 1; A 0; of_nats [d]]
  | Put d _ _ _ => L [A 1; A 0; A 1; of_nats [d]]
  | Wait _ _ | WaitSem | WaitTok => L [A 2]
  | Done c => L [A 3; A c]
  | _ => L [A 9]
  end.
Definition statuses (s : cstate) : sx := L (map status_of (thr s)).

Definition tau_succ (m : mode) (s : cstate) : list cstate :=
  flat_map (fun i =>
    (match step m s (ETau i false) with Some s' => [s'] | None => [] end) ++
    (match step m s (ETau i true) with Some s' => [s'] | None => [] end)) (seq 0 (length (thr s))).

Definition add_new (x : cstate * sx) (l : list (cstate * sx)) : list (cstate * sx) :=
  if existsb (fun y => sx_eqb (snd x) (snd y)) l then l else x :: l.
Definition tag (s : cstate) : cstate * sx := (s, enc_state s).

(** Breadth-first closure under internal steps; states without an enabled
    internal step are quiescent. *)
Fixpoint quiesce (fuel : nat) (m : mode) (frontier finals : list (cstate * sx)) : list (cstate * sx) :=
  match fuel with
  | O => finals
  | S fuel' =>
      match frontier with
      | [] => finals
      | _ =>
          let '(next, finals') :=
            fold_left (fun (acc : list (cstate * sx) * list (cstate * sx)) (x : cstate * sx) =>
                         match tau_succ m (fst x) with
                         | [] => (fst acc, add_new x (snd acc))
                         | succ => (fold_left (fun a s' => add_new (tag s') a) succ (fst acc), snd acc)
                         end) frontier ([], finals) in
          quiesce fuel' m next finals'
      end
  end.

Definition apply_ev (m : mode) (e : ev) (s : cstate) : cstate :=
  match step m s e with Some s' => s' | None => s end.

Definition round (m : mode) (e : ev) (obs_status : sx) (states : list (cstate * sx)) : list (cstate * sx) :=
  let after := fold_left (fun a x => add_new (tag (apply_ev m e (fst x))) a) states [] in
  filter (fun x => sx_eqb (statuses (fst x)) obs_status) (quiesce 200 m after []).

(** Returns the surviving states and the number of rounds survived. *)
Fixpoint rounds (m : mode) (evs : list ev) (obs : list sx) (states : list (cstate * sx)) (n : nat)
  : list (cstate * sx) * nat :=
  match evs, obs with
  | e :: evs', o :: obs' =>
      match round m e o states with
      | [] => ([], n)
      | st' => rounds m evs' obs' st' (S n)
      end
  | [], [] => (states, n)
  | _, _ => ([], n)
  end.

Definition conc_cfg (inp : sx) :=
  (dec_mode (sx_nth inp 1), map (fun s => dedup_sort (sx_nats s)) (sx_list (sx_nth inp 2)),
   dedup_sort (sx_nats (sx_nth inp 3)), dedup_sort (sx_nats (sx_nth inp 4)),
   map dec_ev (sx_list (sx_nth inp 5))).

Definition run_conc (inp obs : sx) : bool * sx :=
  let '(m, sets, source, sink, evs) := conc_cfg inp in
  let '(fin, n) := rounds m evs (sx_list (sx_nth obs 0)) [tag (init_state sets source sink)] 0 in
  let ok := filter (fun x => Nat.eqb (maxkey (fst x)) (sx_nat (sx_nth obs 1))
                             && Nat.eqb (maxall (fst x)) (sx_nat (sx_nth obs 2))
                             && sx_eqb (of_nats (snk (fst x))) (sx_nth obs 3)) fin in
  match ok with
  | x :: _ => (true, L [of_nat n; statuses (fst x); of_nat (maxkey (fst x)); of_nat (maxall (fst x)); of_nats (snk (fst x))])
  | [] => (false, L [of_nat n; L (map (fun x => L [statuses (fst x); of_nat (maxkey (fst x)); of_nat (maxall (fst x)); of_nats (snk (fst x))]) fin)])
  end.

(** * Monitor on the harness's event log
    [(0 i clk)] caller i starts; [(1 i bk op ids clk)] backend call arrives;
    [(2 i bk op ids code ans clk)] it returns; [(3 i code clk)] caller i returns. *)
Definition lg_kind (e : sx) := sx_Z (sx_nth e 0).
Definition lg_caller (e : sx) := sx_nat (sx_nth e 1).

Fixpoint index_where (p : sx -> bool) (l : list sx) (n : nat) : option nat :=
  match l with [] => None | e :: r => if p e then Some n else index_where p r (S n) end.

(** Is the return event [e] a "present in the sink" observation or a completed
    copy into the sink for [d]? *)
Definition justifies (d : nat) (e : sx) : bool :=
  Z.eqb (lg_kind e) 2 && Z.eqb (sx_Z (sx_nth e 2)) 0 && sx_eqb (sx_nth e 4) (of_nats [d]) && Z.eqb (sx_Z (sx_nth e 5)) 0 &&
  ((Z.eqb (sx_Z (sx_nth e 3)) 2 && sx_eqb (sx_nth e 6) (L [])) || Z.eqb (sx_Z (sx_nth e 3)) 1).

(** Some justifying event by caller j at position r whose caller acts again
    only after position [start] (so that its in-flight entry can still have
    been registered when the asking caller looked it up). *)
Fixpoint justified_after (d start : nat) (lg : list sx) (pos : nat) : bool :=
  match lg with
  | [] => false
  | e :: r =>
      (justifies d e &&
       match index_where (fun e' => Nat.eqb (lg_caller e') (lg_caller e)) r (S pos) with
       | Some nx => Nat.ltb start nx
       | None => true
       end) || justified_after d start r (S pos)
  end.

(** Queued replicator: some caller j copied [d] into the sink and returned
    success - which is when the copy is recorded in the existence cache - at a
    clock reading no more than [dur] before [tstart]. *)
Definition copied_within (d : nat) (dur tstart : N) (lg : list sx) : bool :=
  existsb (fun e => Z.eqb (lg_kind e) 2 && Z.eqb (sx_Z (sx_nth e 2)) 0 && Z.eqb (sx_Z (sx_nth e 3)) 1
                    && sx_eqb (sx_nth e 4) (of_nats [d]) && Z.eqb (sx_Z (sx_nth e 5)) 0
                    && existsb (fun f => Z.eqb (lg_kind f) 3 && Nat.eqb (lg_caller f) (lg_caller e)
                                         && Z.eqb (sx_Z (sx_nth f 2)) 0 && (tstart <=? sx_N (sx_nth f 3) + dur)%N) lg) lg.

Definition mon_conc (inp obs : sx) : list Z :=
  if sx_eqb obs (L [A (-1)]) then [] else
  let '(m, sets, source, sink, evs) := conc_cfg inp in
  let mk := sx_nat (sx_nth obs 1) in
  let ma := sx_nat (sx_nth obs 2) in
  let lg := sx_list (sx_nth obs 4) in
  (* 21 / 22 / 23: more concurrent copies than allowed *)
  (match m with
   | MDedup => if Nat.ltb 1 mk then [21] else []
   | MLimit k => if Nat.ltb k ma then [22] else []
   | MQueued _ _ => if Nat.ltb 1 ma then [23] else []
   end) ++
  (* 24 / 25: success reported to a caller without justification *)
  flat_map (fun i =>
    let ds := nth i sets [] in
    match index_where (fun e => Z.eqb (lg_kind e) 3 && Nat.eqb (lg_caller e) i && Z.eqb (sx_Z (sx_nth e 2)) 0) lg 0,
          index_where (fun e => Z.eqb (lg_kind e) 0 && Nat.eqb (lg_caller e) i) lg 0 with
    | Some _, Some st =>
        match m with
        | MQueued _ dur =>
            let tstart := sx_N (sx_nth (nth st lg (L [])) 2) in
            if forallb (fun d => copied_within d dur tstart lg) ds then [] else [25]
        | _ => if forallb (fun d => justified_after d st lg 0) ds then [] else [24]
        end
    | _, _ => []
    end) (seq 0 (length sets)).

Definition judge_conc (inp obs : sx) : sx :=
  let (agree, model) := run_conc inp obs in
  let v := mon_conc inp obs in
  verdict agree (negb (match v with [] => true | _ => false end)) model (of_Zs v).
