From BBS Require Import Common.Sx.
Definition judge_conc (inp obs : sx) : sx := verdict false false (L []) (L []).
