(** C01S (sub-check of C01): sx interface of the sector writer model
    (Store/SectorWriter.v): decoders, run, monitor, judge.

    input  (sector spb restored fill (ev...))
             the device has 3 blocks of spb sectors filled with [fill]; the block under
             test is the second one (deviceOffsetSectors = spb);
             restored = -1: NewBlock | r >= 0: NewBlockAtLocation(location, r)
             ev = (0 size)       HasSpace(size); if true Put(size): the next writer id
                | (1 k (bytes))  the upload source of writer k delivers a chunk
                | (2 k)          the source of writer k delivers io.EOF
                | (3 k)          the source of writer k fails
                | (4 size)       HasSpace(size) only
    obs    ( (step...) (final device bytes) (start offset of every writer) )
             step = (res (write...)) ; write = (offset (bytes)) in order of the WriteAt calls
             res  = (hs) for ev 0/4 | (0) writer still running | (1 off) finalizer returned
                    (off, nil) | (2 off) finalizer returned (off, err) | (9) no such live writer

    Between the source and [Write] sits the real CAS validating chunk reader
    (buffer.NewCASBufferFromChunkReader): it withholds the chunk that completes the
    declared size until the source reports EOF, rejects surplus data and a
    premature EOF.  [feed] below models that hand-over (the validator itself is C09's
    subject), so that the events given to the sector writer model are
    Write/flush/abandon. *)
From BBS Require Import Common.Sx Store.SectorWriter.
(* -- (keeps lib/checklib.py's dependency scan from reading past the sentence) *)
Open Scope nat_scope.

Definition dec_bytes (s : sx) : list byte := sx_Zs s.
Definition enc_bytes (b : list byte) : sx := of_Zs b.
Definition enc_write (w : dwrite) : sx := L [of_nat (fst w); enc_bytes (snd w)].
Definition enc_log (l : list dwrite) : sx := L (map enc_write l).
Definition dec_write (s : sx) : dwrite := (sx_nat (sx_nth s 0), dec_bytes (sx_nth s 1)).
Definition dec_log (s : sx) : list dwrite := map dec_write (sx_list s).

Record cfg01s := { k_cfg : cfg; k_restored : option nat; k_fill : byte; k_events : list sx }.
Definition dec_cfg (inp : sx) : cfg01s :=
  let spb := sx_nat (sx_nth inp 1) in
  {| k_cfg := {| c_sector := sx_nat (sx_nth inp 0); c_spb := spb; c_base := spb |};
     k_restored := (if Z.ltb (sx_Z (sx_nth inp 2)) 0 then None else Some (sx_nat (sx_nth inp 2)));
     k_fill := sx_Z (sx_nth inp 3);
     k_events := sx_list (sx_nth inp 4) |}.

Definition init_dev (k : cfg01s) : list byte :=
  repeat (k_fill k) (3 * c_spb (k_cfg k) * c_sector (k_cfg k)).
Definition init_cursor (k : cfg01s) : cursor :=
  match k_restored k with None => new_block | Some r => new_block_at (k_cfg k) r end.

(** ---- model run ---- *)

(** the validating chunk reader in front of writer k *)
Record vst := { v_size : nat; v_fed : nat; v_pending : option (list byte); v_live : bool }.

Record rstate := { r_st : state; r_v : list vst }.

Definition step_skip (c : cfg) (s : state) (e : event) : state * list dwrite :=
  match step c s e with Some r => r | None => (s, []) end.

Definition steps_skip (c : cfg) (s : state) (es : list event) : state * list dwrite :=
  fold_left (fun acc e => let '(s', l) := step_skip c (fst acc) e in (s', snd acc ++ l)) es (s, []).

Definition start_of (s : state) (k : nat) : nat :=
  match nth_error (st_threads s) k with Some t => t_start t | None => 0 end.

Definition finish (r : rstate) (k : nat) (v : vst) : list vst :=
  upd (r_v r) k {| v_size := v_size v; v_fed := v_fed v; v_pending := None; v_live := false |}.

(** one harness event: new state, result, device writes *)
Definition exec (c : cfg) (r : rstate) (ev : sx) : rstate * sx * list dwrite :=
  let kind := sx_nat (sx_nth ev 0) in
  let arg := sx_nat (sx_nth ev 1) in
  let live k := match nth_error (r_v r) k with
                | Some v => if v_live v then Some v else None
                | None => None end in
  match kind with
  | 0 =>
      let hs := has_space c (st_cur (r_st r)) arg in
      if hs then
        let '(s', l) := step_skip c (r_st r) (EAlloc arg) in
        ({| r_st := s'; r_v := r_v r ++ [{| v_size := arg; v_fed := 0; v_pending := None; v_live := true |}] |},
         L [of_bool true], l)
      else (r, L [of_bool false], [])
  | 4 => (r, L [of_bool (has_space c (st_cur (r_st r)) arg)], [])
  | 1 =>
      let chunk := dec_bytes (sx_nth ev 2) in
      match live arg with
      | None => (r, L [A 9], [])
      | Some v =>
          if v_fed v =? v_size v then
            (* no more data expected: an empty chunk is skipped, anything else is "too big" *)
            match chunk with
            | [] => (r, L [A 0], [])
            | _ => let '(s', l) := step_skip c (r_st r) (EAbandon arg) in
                   ({| r_st := s'; r_v := finish r arg v |}, L [A 2; of_nat (start_of s' arg)], l)
            end
          else if v_size v - v_fed v <? length chunk then
            let '(s', l) := step_skip c (r_st r) (EAbandon arg) in
            ({| r_st := s'; r_v := finish r arg v |}, L [A 2; of_nat (start_of s' arg)], l)
          else if v_fed v + length chunk =? v_size v then
            (* last chunk: withheld until the source reports EOF *)
            ({| r_st := r_st r;
                r_v := upd (r_v r) arg {| v_size := v_size v; v_fed := v_size v;
                                          v_pending := Some chunk; v_live := true |} |}, L [A 0], [])
          else
            let '(s', l) := step_skip c (r_st r) (EWrite arg chunk) in
            ({| r_st := s';
                r_v := upd (r_v r) arg {| v_size := v_size v; v_fed := v_fed v + length chunk;
                                          v_pending := None; v_live := true |} |}, L [A 0], l)
      end
  | 2 =>
      match live arg with
      | None => (r, L [A 9], [])
      | Some v =>
          if v_fed v =? v_size v then
            let es := match v_pending v with Some ch => [EWrite arg ch] | None => [] end in
            let '(s', l) := steps_skip c (r_st r) (es ++ [EFlush arg]) in
            ({| r_st := s'; r_v := finish r arg v |}, L [A 1; of_nat (start_of s' arg)], l)
          else
            let '(s', l) := step_skip c (r_st r) (EAbandon arg) in
            ({| r_st := s'; r_v := finish r arg v |}, L [A 2; of_nat (start_of s' arg)], l)
      end
  | 3 =>
      match live arg with
      | None => (r, L [A 9], [])
      | Some v =>
          let '(s', l) := step_skip c (r_st r) (EAbandon arg) in
          ({| r_st := s'; r_v := finish r arg v |}, L [A 2; of_nat (start_of s' arg)], l)
      end
  | _ => (r, L [A 9], [])
  end.

Fixpoint exec_all (c : cfg) (r : rstate) (evs : list sx) : rstate * list sx :=
  match evs with
  | [] => (r, [])
  | ev :: evs' =>
      let '(r1, res, l) := exec c r ev in
      let '(r2, out) := exec_all c r1 evs' in
      (r2, L [res; enc_log l] :: out)
  end.

Definition run01S (inp : sx) : sx :=
  let k := dec_cfg inp in
  let r0 := {| r_st := init_state (init_dev k) (init_cursor k); r_v := [] |} in
  let '(r, out) := exec_all (k_cfg k) r0 (k_events k) in
  L [L out; enc_bytes (st_dev (r_st r)); of_nats (map t_start (st_threads (r_st r)))].

(** ---- monitor (on the implementation's observation) ----
    clause 1: the byte range of a writer whose finalizer reported success does not hold
              the uploaded data after some later step, or in the final device contents
    clause 2: a device write outside the block's region
    clause 3: a device write of writer k outside the sectors overlapping its range
              (an empty range inside a sector counts as touching that sector)
    clause 4: allocations not in order / overlapping / beyond the end of the block
    clause 5: after NewBlockAtLocation(_, r): an allocation or a device write below r *)

Fixpoint bytes_eqb (a b : list byte) : bool :=
  match a, b with
  | [], [] => true
  | x :: a', y :: b' => Z.eqb x y && bytes_eqb a' b'
  | _, _ => false
  end.

Definition slice (l : list byte) (off len : nat) : list byte := firstn len (skipn off l).

(** what the monitor knows of a writer: declared size, data delivered so far,
    whether its finalizer has reported success *)
Record minfo := { m_size : nat; m_data : list byte; m_ok : bool; m_fin : bool }.

Definition holds (c : cfg) (starts : list nat) (dev : list byte) (ws : list minfo) : bool :=
  let fix go (k : nat) (ws : list minfo) : bool :=
    match ws with
    | [] => true
    | m :: ws' =>
        (if m_ok m then
           bytes_eqb (slice dev (c_base c * c_sector c + nth k starts 0) (m_size m)) (m_data m)
         else true) && go (S k) ws'
    end in
  go 0 ws.

Definition in_range (lo hi : nat) (w : dwrite) : bool :=
  (lo <=? fst w) && (fst w + length (snd w) <=? hi).

Definition mon_step (k : cfg01s) (starts : list nat) (ev ob : sx)
    (acc : list byte * list minfo * list Z) : list byte * list minfo * list Z :=
  let c := k_cfg k in
  let S := c_sector c in
  let '(dev, ws, bad) := acc in
  let kind := sx_nat (sx_nth ev 0) in
  let arg := sx_nat (sx_nth ev 1) in
  let res := sx_nth ob 0 in
  let log := dec_log (sx_nth ob 1) in
  let dev' := apply_writes dev log in
  let blo := c_base c * S in
  let bhi := (c_base c + c_spb c) * S in
  let bad2 := if forallb (in_range blo bhi) log then [] else [2%Z] in
  let bad5 := match k_restored k with
              | Some r => if forallb (fun w => blo + r <=? fst w) log then [] else [5%Z]
              | None => [] end in
  let bad3 :=
    match kind with
    | 1 | 2 | 3 =>
        match nth_error ws arg with
        | Some m =>
            let s := nth arg starts 0 in
            let lo := blo + s / S * S in
            let hi := blo + (s + m_size m + S - 1) / S * S in
            if forallb (in_range lo hi) log then [] else [3%Z]
        | None => match log with [] => [] | _ => [3%Z] end
        end
    | _ => []
    end in
  let ws' :=
    match kind with
    | 0 => if sx_bool (sx_nth res 0)
           then ws ++ [{| m_size := arg; m_data := []; m_ok := false; m_fin := false |}] else ws
    | 1 => match nth_error ws arg with
           | Some m => if m_fin m then ws else
                         upd ws arg {| m_size := m_size m; m_data := m_data m ++ dec_bytes (sx_nth ev 2);
                                       m_ok := false; m_fin := negb (Z.eqb (sx_Z (sx_nth res 0)) 0) |}
           | None => ws end
    | 2 | 3 => match nth_error ws arg with
               | Some m => if m_fin m then ws else
                             upd ws arg {| m_size := m_size m; m_data := m_data m;
                                           m_ok := Z.eqb (sx_Z (sx_nth res 0)) 1;
                                           m_fin := negb (Z.eqb (sx_Z (sx_nth res 0)) 0) |}
               | None => ws end
    | _ => ws
    end in
  let bad1 := if holds c starts dev' ws' then [] else [1%Z] in
  (dev', ws', bad ++ bad1 ++ bad2 ++ bad3 ++ bad5).

Fixpoint mon_steps (k : cfg01s) (starts : list nat) (evs obs : list sx)
    (acc : list byte * list minfo * list Z) : list byte * list minfo * list Z :=
  match evs, obs with
  | ev :: evs', ob :: obs' => mon_steps k starts evs' obs' (mon_step k starts ev ob acc)
  | _, _ => acc
  end.

(** allocations in order, pairwise disjoint, inside the block, at or above [lo] *)
Fixpoint allocs_ok (lo hi : nat) (starts : list nat) (ws : list minfo) : bool :=
  match starts, ws with
  | s :: starts', m :: ws' => (lo <=? s) && (s + m_size m <=? hi) && allocs_ok (s + m_size m) hi starts' ws'
  | _, _ => true
  end.

Fixpoint dedup (l : list Z) : list Z :=
  match l with
  | [] => []
  | x :: l' => if existsb (Z.eqb x) l' then dedup l' else x :: dedup l'
  end.

Definition mon01S (inp obs : sx) : list Z :=
  match obs with
  | L [A _] => []          (* panic marker: reported as disagreement *)
  | _ =>
  let k := dec_cfg inp in
  let c := k_cfg k in
  let starts := sx_nats (sx_nth obs 2) in
  let '(_, ws, bad) := mon_steps k starts (k_events k) (sx_list (sx_nth obs 0)) (init_dev k, [], []) in
  let final := dec_bytes (sx_nth obs 1) in
  let bad1 := if holds c starts final ws then [] else [1%Z] in
  let lo := match k_restored k with Some r => r | None => 0 end in
  let bad4 := if allocs_ok 0 (c_spb c * c_sector c) starts ws then [] else [4%Z] in
  let bad5 := if allocs_ok lo (c_spb c * c_sector c) starts ws then [] else
                match bad4 with [] => [5%Z] | _ => [] end in
  dedup (bad ++ bad1 ++ bad4 ++ bad5)
  end.

Definition judge01S : sx -> sx -> sx := judge_det run01S mon01S.
