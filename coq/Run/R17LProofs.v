(** C17L: the monitor of Run/R17L.v is silent on every observation the judge
    accepts (clauses 21/22/23: calls of the base replicator in flight; clause
    26: a caller is blocked only while all permits are in use), for every mix
    of entry points and every schedule.  Clause 27 reads the harness's event
    log, which the agreement test does not constrain (as clauses 24/25 of
    C17); it is tied to the model by [read_back_step] / [read_code_ok]. *)
From Coq Require Import List ZArith NArith Bool Arith Lia.
From BBS Require Import Common.Sx Common.SxFactsMA Common.ListX Compose.ExistenceCache
  Compose.Replicators Compose.ReplicatorsProofs Compose.MonSilentRepl
  Compose.ReplEntry Compose.ReplEntryProofs Run.R17Conc Run.R17L.
Import ListNotations.
Local Open Scope nat_scope.

Lemma fold_left_inv' {S T} (f : S -> T -> S) (I : S -> Prop) l : forall a, I a ->
  (forall a x, I a -> In x l -> I (f a x)) -> I (fold_left f l a).
Proof.
  induction l as [|x l IH]; intros a Ha H; cbn [fold_left]; [exact Ha|].
  apply IH; [apply H; [exact Ha|left; reflexivity]|]. intros a' y Ha' Hy. apply H; [exact Ha'|right; exact Hy].
Qed.

(** * Every state the judge keeps is reachable; every state it keeps at the
    end of a round is quiescent and shows the observed statuses. *)
Section XReach.
  Variable kinds : list ekind.
  Variable m : mode.
  Variable P : xstate -> Prop.
  Hypothesis Pstep : forall x e x', P x -> xstep kinds m x e = Some x' -> P x'.

  Definition quiet (x : xstate) : Prop := tau_succ m (xb x) = [].
  Definition allP (l : list (xstate * sx)) : Prop := Forall (fun y => P (fst y)) l.
  Definition allQ (l : list (xstate * sx)) : Prop := Forall (fun y => P (fst y) /\ quiet (fst y)) l.

  Lemma allQ_allP l : allQ l -> allP l.
  Proof. unfold allQ, allP. rewrite !Forall_forall. intros H y Hy. apply (H y Hy). Qed.

  Lemma allP_add_new y l : P (fst y) -> allP l -> allP (xadd_new y l).
  Proof. intros Hy Hl. unfold xadd_new. destruct (existsb _ l); [exact Hl|constructor; assumption]. Qed.

  Lemma allQ_add_new y l : P (fst y) -> quiet (fst y) -> allQ l -> allQ (xadd_new y l).
  Proof. intros Hy Hq Hl. unfold xadd_new. destruct (existsb _ l); [exact Hl|constructor; [split|]; assumption]. Qed.

  Lemma xtau_succ_P x : P x -> Forall P (xtau_succ m x).
  Proof.
    intros Hx. unfold xtau_succ. apply Forall_forall. intros x' Hin. apply in_map_iff in Hin.
    destruct Hin as (b & <- & Hin). unfold tau_succ in Hin. apply in_flat_map in Hin.
    destruct Hin as (i & _ & Hin). apply in_app_or in Hin. destruct Hin as [Hin|Hin].
    - destruct (step m (xb x) (ETau i false)) eqn:E; [|destruct Hin]. destruct Hin as [<-|[]].
      apply (Pstep x (ETau i false)); [exact Hx|]. unfold xstep, lift. rewrite E. reflexivity.
    - destruct (step m (xb x) (ETau i true)) eqn:E; [|destruct Hin]. destruct Hin as [<-|[]].
      apply (Pstep x (ETau i true)); [exact Hx|]. unfold xstep, lift. rewrite E. reflexivity.
  Qed.

  Lemma xquiesce_Q fuel : forall frontier finals, allP frontier -> allQ finals -> allQ (xquiesce fuel m frontier finals).
  Proof.
    induction fuel as [|f IH]; intros frontier finals Hf Hn; cbn [xquiesce]; [exact Hn|].
    destruct frontier as [|y0 fr]; [exact Hn|].
    match goal with |- context [fold_left ?F ?l ?a] =>
      assert (FI : allP (fst (fold_left F l a)) /\ allQ (snd (fold_left F l a))) end.
    { apply (fold_left_inv' _ (fun acc => allP (fst acc) /\ allQ (snd acc))); [split; [constructor|exact Hn]|].
      intros acc y [A1 A2] Hy.
      assert (Py : P (fst y)) by (unfold allP in Hf; rewrite Forall_forall in Hf; apply Hf, Hy).
      pose proof (xtau_succ_P (fst y) Py) as T.
      destruct (xtau_succ m (fst y)) as [|x1 succ] eqn:E; cbn [fst snd].
      - split; [exact A1|]. apply allQ_add_new; [exact Py| |exact A2].
        unfold quiet. unfold xtau_succ in E. apply map_eq_nil in E. exact E.
      - split; [|exact A2]. apply (fold_left_inv' _ allP); [exact A1|].
        intros a x' Ha Hx'. apply allP_add_new; [|exact Ha]. cbn [xtag fst]. rewrite Forall_forall in T. apply T, Hx'. }
    destruct (fold_left _ (y0 :: fr) ([], finals)) as [next finals']. cbn [fst snd] in FI.
    apply IH; apply FI.
  Qed.

  Lemma xround_Q e o states : allP states ->
    Forall (fun y => P (fst y) /\ quiet (fst y) /\ xstatuses kinds (fst y) = o) (xround kinds m e o states).
  Proof.
    intros H. unfold xround. apply Forall_forall. intros y Hy. apply filter_In in Hy. destruct Hy as [Hy Hs].
    apply sx_eqb_eq in Hs.
    assert (Q : allQ (xquiesce 200 m (fold_left (fun a y0 => xadd_new (xtag (xapply_ev kinds m e (fst y0))) a) states []) [])).
    { apply xquiesce_Q; [|constructor].
      apply (fold_left_inv' _ allP); [constructor|]. intros a y1 Ha Hy1. apply allP_add_new; [|exact Ha]. cbn [xtag fst].
      assert (Py1 : P (fst y1)) by (unfold allP in H; rewrite Forall_forall in H; apply H, Hy1).
      unfold xapply_ev. destruct (xstep kinds m (fst y1) e) eqn:E; [eapply Pstep; eassumption|exact Py1]. }
    unfold allQ in Q. rewrite Forall_forall in Q. destruct (Q y Hy) as [A B]. repeat split; assumption.
  Qed.

  Lemma xround_P e o states : allP states -> allP (xround kinds m e o states).
  Proof.
    intros H. pose proof (xround_Q e o states H) as Q. unfold allP. rewrite Forall_forall in *.
    intros y Hy. apply (Q y Hy).
  Qed.

  Lemma xrounds_P evs : forall obs states n, allP states -> allP (fst (xrounds kinds m evs obs states n)).
  Proof.
    induction evs as [|e evs IH]; intros [|o obs] states n H; cbn [xrounds fst]; try constructor; [exact H|].
    pose proof (xround_P e o states H) as R. destruct (xround kinds m e o states) as [|y l]; [constructor|].
    apply IH, R.
  Qed.

  Lemma xrounds_obs evs : forall obs states n, allP states -> fst (xrounds kinds m evs obs states n) <> [] ->
    Forall (fun o => exists x, P x /\ quiet x /\ xstatuses kinds x = o) obs.
  Proof.
    induction evs as [|e evs IH]; intros [|o obs] states n H Hne; cbn [xrounds fst] in Hne; try (constructor; fail);
      try (exfalso; apply Hne; reflexivity).
    pose proof (xround_Q e o states H) as Q. pose proof (xround_P e o states H) as R.
    destruct (xround kinds m e o states) as [|y l]; [exfalso; apply Hne; reflexivity|].
    constructor.
    - inversion Q; subst. exists (fst y). assumption.
    - eapply IH; [exact R|exact Hne].
  Qed.
End XReach.

Lemma xrun_snoc kinds m tr : forall x0 e,
  xrun kinds m x0 (tr ++ [e]) = match xrun kinds m x0 tr with Some x => xstep kinds m x e | None => None end.
Proof.
  induction tr as [|a tr IH]; intros x0 e; cbn [app xrun].
  - destruct (xstep kinds m x0 e); reflexivity.
  - destruct (xstep kinds m x0 a); [apply IH|reflexivity].
Qed.

Definition reachable (kinds : list ekind) (m : mode) (sets : list (list nat)) (source sink : list nat) (x : xstate) : Prop :=
  exists tr, xrun kinds m (xinit kinds sets source sink) tr = Some x.

Lemma reachable_step kinds m sets source sink x e x' :
  reachable kinds m sets source sink x -> xstep kinds m x e = Some x' -> reachable kinds m sets source sink x'.
Proof. intros [tr Htr] St. exists (tr ++ [e]). rewrite xrun_snoc, Htr. exact St. Qed.

Lemma reachable_init kinds m sets source sink : allP (reachable kinds m sets source sink) [xtag (xinit kinds sets source sink)].
Proof. constructor; [|constructor]. exists []. reflexivity. Qed.

Lemma reachable_bound kinds m sets source sink x : reachable kinds m sets source sink x -> bound_ok m (xb x).
Proof.
  intros [tr H]. destruct (xrun_base _ _ _ _ _ H) as [tr' Htr']. unfold xinit in Htr'. cbn [xb] in Htr'.
  exact (maxima_bounded m _ _ _ _ _ Htr').
Qed.

(** * Clauses 21/22/23 *)
Definition monL_counts (inp obs : sx) : list Z :=
  let '(m, kinds, sets, source, sink, evs) := cfgL inp in
  mon_counts m (sx_nat (sx_nth obs 1)) (sx_nat (sx_nth obs 2)).

Definition monL_release (inp obs : sx) : list Z :=
  let '(m, kinds, sets, source, sink, evs) := cfgL inp in
  mon_release m (sx_list (sx_nth obs 0)).

Definition monL_results (inp obs : sx) : list Z :=
  let '(m, kinds, sets, source, sink, evs) := cfgL inp in
  mon_results kinds (sx_list (sx_nth obs 4)).

Lemma mon17L_split inp obs :
  mon17L inp obs = if sx_eqb obs (L [A (-1)]) then [] else monL_counts inp obs ++ monL_release inp obs ++ monL_results inp obs.
Proof.
  unfold mon17L, monL_counts, monL_release, monL_results.
  destruct (cfgL inp) as [[[[[m kinds] sets] source] sink] evs]. reflexivity.
Qed.

Theorem counts_silent_on_accepted inp obs : fst (run_L inp obs) = true -> monL_counts inp obs = [].
Proof.
  unfold run_L, monL_counts. destruct (cfgL inp) as [[[[[m kinds] sets] source] sink] evs].
  pose proof (xrounds_P kinds m (reachable kinds m sets source sink) (reachable_step kinds m sets source sink)
                evs (sx_list (sx_nth obs 0)) _ 0 (reachable_init kinds m sets source sink)) as R.
  destruct (xrounds kinds m evs (sx_list (sx_nth obs 0)) [xtag (xinit kinds sets source sink)] 0) as [fin n]. cbn [fst] in R.
  cbv zeta.
  destruct (filter _ fin) as [|y l] eqn:F; cbn [fst]; [discriminate|]. intros _.
  assert (Hy : In y (y :: l)) by (left; reflexivity). rewrite <- F in Hy. apply filter_In in Hy. destruct Hy as [Hin Hc].
  apply andb_prop in Hc. destruct Hc as [Hc _]. apply andb_prop in Hc. destruct Hc as [Hk Ha].
  apply Nat.eqb_eq in Hk, Ha. rewrite <- Hk, <- Ha.
  unfold allP in R. rewrite Forall_forall in R. pose proof (reachable_bound _ _ _ _ _ _ (R y Hin)) as B.
  unfold mon_counts. destruct m as [|lim|size dur]; cbn [bound_ok] in B;
    match goal with |- (if ?c then _ else _) = _ => assert (E : c = false) by (apply Nat.ltb_ge; exact B); rewrite E end; reflexivity.
Qed.

(** * Clause 26 *)
Lemma flat_map_nil_inv {T U} (f : T -> list U) l : flat_map f l = [] -> forall x, In x l -> f x = [].
Proof.
  induction l as [|h t IH]; intros H x Hx; [destruct Hx|]. cbn [flat_map] in H. apply app_eq_nil in H. destruct H as [H1 H2].
  destruct Hx as [<-|Hx]; [exact H1|apply IH; assumption].
Qed.

Lemma quiet_no_granted lim s i t : tau_succ (MLimit lim) s = [] -> nth_error (thr s) i = Some t -> tpc t <> Granted.
Proof.
  intros Q Hi Hp. unfold tau_succ in Q.
  assert (Hin : In i (seq 0 (length (thr s)))).
  { apply in_seq. split; [lia|]. cbn. apply nth_error_Some. rewrite Hi. discriminate. }
  pose proof (flat_map_nil_inv _ _ Q i Hin) as E. apply app_eq_nil in E. destruct E as [E _].
  cbn [step] in E. rewrite Hi, Hp in E. destruct (cancelled t); discriminate.
Qed.

Lemma blocked_exists kinds posts : forall ts i0, 0 < countb st_blocked (xstat_from kinds posts i0 ts) ->
  exists t, In t ts /\ (tpc t = WaitSem \/ (exists k e, tpc t = Wait k e) \/ tpc t = WaitTok).
Proof.
  induction ts as [|t r IH]; intros i0 H; cbn [xstat_from] in H; [unfold countb in H; cbn in H; lia|].
  unfold countb in H. cbn [filter] in H.
  destruct (st_blocked (xstatus kinds posts i0 t)) eqn:B.
  - exists t. split; [left; reflexivity|]. unfold xstatus, status_of in B.
    destruct (tpc t) eqn:Hp; try (cbn in B; discriminate B).
    + right. left. eexists; eexists; reflexivity.
    + left. reflexivity.
    + right. right. reflexivity.
    + exfalso. destruct c; try (cbn in B; discriminate B).
      destruct (nth i0 kinds KMulti); [cbn in B; discriminate B| |]; destruct (nth i0 posts PNone); cbn in B; discriminate B.
  - destruct (IH (S i0) H) as (t' & Hin & Ht'). exists t'. split; [right; exact Hin|exact Ht'].
Qed.

Lemma copy_count kinds posts : forall ts i0, count in_copy ts <= countb st_copying (xstat_from kinds posts i0 ts).
Proof.
  induction ts as [|t r IH]; intros i0; cbn [xstat_from]; [unfold count, countb; cbn; lia|].
  specialize (IH (S i0)). unfold count, countb in *. cbn [filter].
  destruct (in_copy t) eqn:C.
  - assert (S : st_copying (xstatus kinds posts i0 t) = true).
    { unfold in_copy in C. unfold xstatus, status_of. destruct (tpc t); try discriminate C; reflexivity. }
    rewrite S. cbn [length]. lia.
  - destruct (st_copying (xstatus kinds posts i0 t)); cbn [length]; lia.
Qed.

Lemma not_starved lim kinds posts s :
  rinv lim s -> linv_pc s -> tau_succ (MLimit lim) s = [] ->
  starved lim (L (xstat_from kinds posts 0 (thr s))) = false.
Proof.
  intros [P R] Lp Q. unfold starved. cbn [sx_list].
  destruct (Nat.ltb 0 (countb st_blocked (xstat_from kinds posts 0 (thr s)))) eqn:B; [|reflexivity]. cbn [andb].
  apply Nat.ltb_lt in B. apply Nat.ltb_ge.
  destruct (blocked_exists _ _ _ _ B) as (t & Hin & Ht).
  apply In_nth_error in Hin. destruct Hin as [i Hi].
  pose proof (lpc_at s i t Lp Hi) as L. unfold lpc in L.
  assert (Hw : tpc t = WaitSem).
  { destruct Ht as [E|[(k & e & E)|E]]; [exact E|rewrite E in L; contradiction|rewrite E in L; contradiction]. }
  assert (Hq : semq s <> []).
  { assert (In i (semq s)) as X by (apply (p_q _ _ P); exists t; split; assumption).
    intros E. rewrite E in X. destruct X. }
  pose proof (R Hq) as K. pose proof (p_cnt _ _ P) as C.
  assert (count holder (thr s) <= count in_copy (thr s)).
  { apply count_le_in. intros y Hy Hh. apply In_nth_error in Hy. destruct Hy as [j Hj].
    pose proof (quiet_no_granted lim s j y Q Hj) as G. unfold holder in Hh. unfold in_copy.
    destruct (tpc y); try discriminate Hh; try reflexivity. contradiction. }
  pose proof (copy_count kinds posts (thr s) 0). lia.
Qed.

Theorem release_silent_on_accepted inp obs : fst (run_L inp obs) = true -> monL_release inp obs = [].
Proof.
  unfold run_L, monL_release. destruct (cfgL inp) as [[[[[m kinds] sets] source] sink] evs].
  pose proof (xrounds_obs kinds m (reachable kinds m sets source sink) (reachable_step kinds m sets source sink)
                evs (sx_list (sx_nth obs 0)) _ 0 (reachable_init kinds m sets source sink)) as R.
  destruct (xrounds kinds m evs (sx_list (sx_nth obs 0)) [xtag (xinit kinds sets source sink)] 0) as [fin n]. cbn [fst] in R.
  cbv zeta.
  destruct (filter _ fin) as [|y l] eqn:F; cbn [fst]; [discriminate|]. intros _.
  assert (Hne : fin <> []).
  { intros E. rewrite E in F. discriminate F. }
  specialize (R Hne). unfold mon_release. destruct m as [|lim|size dur]; try reflexivity.
  match goal with |- (if ?c then _ else _) = _ => assert (E : c = false); [|rewrite E; reflexivity] end.
  apply not_true_iff_false. intros Hex. apply existsb_exists in Hex. destruct Hex as (o & Ho & Hs).
  rewrite Forall_forall in R. destruct (R o Ho) as (x & [tr Hx] & Qx & <-).
  destruct (xrun_base _ _ _ _ _ Hx) as [tr' Htr']. unfold xinit in Htr'. cbn [xb] in Htr'.
  pose proof (limit_accounting _ _ _ _ _ _ Htr') as I.
  assert (Lp : linv_pc (xb x)).
  { eapply (run_inv (MLimit lim) linv_pc); [|apply lpc_init|exact Htr']. intros; eapply limit_step_lpc; eassumption. }
  unfold xstatuses in Hs. rewrite (not_starved lim kinds (xpost x) (xb x) I Lp Qx) in Hs. discriminate Hs.
Qed.

Definition agreeL (inp obs : sx) : bool := sx_bool (sx_nth (judge17L inp obs) 0).

Lemma agreeL_run inp obs : agreeL inp obs = fst (run_L inp obs).
Proof.
  unfold agreeL, judge17L. destruct (run_L inp obs) as [a mo]. cbn [fst].
  unfold verdict. cbn. destruct a; reflexivity.
Qed.

(** On every observation the judge accepts, the concurrency bound (any mix of
    entry points) and the release clause are silent. *)
Theorem bound_and_release_silent_on_accepted inp obs :
  agreeL inp obs = true -> monL_counts inp obs = [] /\ monL_release inp obs = [].
Proof.
  rewrite agreeL_run. intros H. split; [apply counts_silent_on_accepted|apply release_silent_on_accepted]; exact H.
Qed.
