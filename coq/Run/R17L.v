(** C17L (sub-check of C17): gated concurrent callers of a replicator decorator
    using a MIX of ReplicateMultiple, ReplicateSingle and ReplicateComposite.

    Input  [L [A 2; mode; sets; source; sink; events; kinds]] - the shape of
    C17's kind 2 plus [kinds]: per caller 0 = ReplicateMultiple(set),
    1 = ReplicateSingle(first object of the set), 2 = ReplicateComposite(first
    object of the set as parent).
    Observation [L [rounds; maxkey; maxall; sink; log]] as for C17 kind 2;
    [maxall] counts the calls in flight of EVERY entry point of the base
    replicator (ReplicateMultiple, ReplicateSingle, ReplicateComposite).

    The judge follows the set of model states reachable between two quiescent
    points (as Run/R17Conc.v) of the extended system Compose/ReplEntry.v. *)
From Coq Require Import List ZArith NArith Bool Arith.
From BBS Require Import Common.Sx Common.ListX Compose.ExistenceCache Compose.Replicators
  Compose.ReplEntry Run.R17Conc.
Import ListNotations.
Open Scope Z_scope.

Definition dec_kind (code : Z) (ds : list nat) : ekind :=
  match code, ds with
  | 1, d :: _ => KSingle d
  | 2, d :: _ => KComposite d
  | _, _ => KMulti
  end.

Definition cfgL (inp : sx) :=
  let '(m, sets, source, sink, evs) := conc_cfg inp in
  let codes := sx_list (sx_nth inp 6) in
  (m, map (fun p => dec_kind (sx_Z (nth (fst p) codes (A 0))) (snd p)) (combine (seq 0 (length sets)) sets),
   sets, source, sink, evs).

Definition enc_post (p : post) : sx := match p with PNone => L [] | PRead c => L [A c] end.
Definition enc_xstate (x : xstate) : sx := L [enc_state (xb x); L (map enc_post (xpost x))].

(** What the harness can see of caller i: a caller of a single-object entry
    point whose ReplicateMultiple part returned OK is parked in the read from
    the sink (op 0 Get / op 3 GetFromComposite on backend 0) until that read
    returned. *)
Definition xstatus (kinds : list ekind) (posts : list post) (i : nat) (t : thread) : sx :=
  match tpc t with
  | Done 0 =>
      match nth i kinds KMulti with
      | KMulti => L [A 3; A 0]
      | KSingle d =>
          match nth i posts PNone with PRead c => L [A 3; A c] | PNone => L [A 1; A 0; A 0; of_nats [d]] end
      | KComposite d =>
          match nth i posts PNone with PRead c => L [A 3; A c] | PNone => L [A 1; A 0; A 3; of_nats [d]] end
      end
  | _ => status_of t
  end.
Fixpoint xstat_from (kinds : list ekind) (posts : list post) (i : nat) (ts : list thread) : list sx :=
  match ts with
  | [] => []
  | t :: r => xstatus kinds posts i t :: xstat_from kinds posts (S i) r
  end.
Definition xstatuses (kinds : list ekind) (x : xstate) : sx := L (xstat_from kinds (xpost x) 0 (thr (xb x))).

(** Internal steps are those of the ReplicateMultiple part. *)
Definition xtau_succ (m : mode) (x : xstate) : list xstate :=
  map (fun b => mkxs b (xpost x)) (tau_succ m (xb x)).

Definition xadd_new (y : xstate * sx) (l : list (xstate * sx)) : list (xstate * sx) :=
  if existsb (fun z => sx_eqb (snd y) (snd z)) l then l else y :: l.
Definition xtag (x : xstate) : xstate * sx := (x, enc_xstate x).

Fixpoint xquiesce (fuel : nat) (m : mode) (frontier finals : list (xstate * sx)) : list (xstate * sx) :=
  match fuel with
  | O => finals
  | S fuel' =>
      match frontier with
      | [] => finals
      | _ =>
          let '(next, finals') :=
            fold_left (fun (acc : list (xstate * sx) * list (xstate * sx)) (y : xstate * sx) =>
                         match xtau_succ m (fst y) with
                         | [] => (fst acc, xadd_new y (snd acc))
                         | succ => (fold_left (fun a x' => xadd_new (xtag x') a) succ (fst acc), snd acc)
                         end) frontier ([], finals) in
          xquiesce fuel' m next finals'
      end
  end.

Definition xapply_ev (kinds : list ekind) (m : mode) (e : ev) (x : xstate) : xstate :=
  match xstep kinds m x e with Some x' => x' | None => x end.

Definition xround (kinds : list ekind) (m : mode) (e : ev) (obs_status : sx) (states : list (xstate * sx))
  : list (xstate * sx) :=
  let after := fold_left (fun a y => xadd_new (xtag (xapply_ev kinds m e (fst y))) a) states [] in
  filter (fun y => sx_eqb (xstatuses kinds (fst y)) obs_status) (xquiesce 200 m after []).

Fixpoint xrounds (kinds : list ekind) (m : mode) (evs : list ev) (obs : list sx) (states : list (xstate * sx)) (n : nat)
  : list (xstate * sx) * nat :=
  match evs, obs with
  | e :: evs', o :: obs' =>
      match xround kinds m e o states with
      | [] => ([], n)
      | st' => xrounds kinds m evs' obs' st' (S n)
      end
  | [], [] => (states, n)
  | _, _ => ([], n)
  end.

Definition run_L (inp obs : sx) : bool * sx :=
  let '(m, kinds, sets, source, sink, evs) := cfgL inp in
  let '(fin, n) := xrounds kinds m evs (sx_list (sx_nth obs 0)) [xtag (xinit kinds sets source sink)] 0 in
  let ok := filter (fun y => Nat.eqb (maxkey (xb (fst y))) (sx_nat (sx_nth obs 1))
                             && Nat.eqb (maxall (xb (fst y))) (sx_nat (sx_nth obs 2))
                             && sx_eqb (of_nats (snk (xb (fst y)))) (sx_nth obs 3)) fin in
  let show := fun y : xstate * sx =>
    L [xstatuses kinds (fst y); of_nat (maxkey (xb (fst y))); of_nat (maxall (xb (fst y))); of_nats (snk (xb (fst y)))] in
  match ok with
  | y :: _ => (true, L [of_nat n; show y])
  | [] => (false, L [of_nat n; L (map show fin)])
  end.

(** * Monitor (on the harness's observation only)

    21 / 22: more calls of the base replicator in flight (any entry point)
             than one per key (deduplicating) / than the limit.
    26     : (concurrency-limiting) at a quiescent point a caller is blocked
             inside the decorator although fewer than [limit] copies are in
             flight - a permit was not released on some path.
    27     : a ReplicateSingle / ReplicateComposite caller reported success
             although it neither read its object from the sink nor put it
             there ("never report success unless the object was found in, or
             copied to, the sink after that caller asked"). *)
Definition st_blocked (st : sx) : bool := Z.eqb (sx_Z (sx_nth st 0)) 2.
Definition st_copying (st : sx) : bool :=
  Z.eqb (sx_Z (sx_nth st 0)) 1 &&
  ((Z.eqb (sx_Z (sx_nth st 1)) 1 && Z.eqb (sx_Z (sx_nth st 2)) 0) ||
   (Z.eqb (sx_Z (sx_nth st 1)) 0 && Z.eqb (sx_Z (sx_nth st 2)) 1)).
Definition countb {T} (p : T -> bool) (l : list T) : nat := length (filter p l).

Definition starved (k : nat) (rd : sx) : bool :=
  Nat.ltb 0 (countb st_blocked (sx_list rd)) && Nat.ltb (countb st_copying (sx_list rd)) k.

(** Caller i read object d from the sink, or put it there, successfully (log
    entry kind 2: return of a backend call; backend 0 is the sink; op 0 Get,
    1 Put, 3 GetFromComposite). *)
Definition sink_ok (i d : nat) (e : sx) : bool :=
  Z.eqb (lg_kind e) 2 && Nat.eqb (lg_caller e) i && Z.eqb (sx_Z (sx_nth e 2)) 0 &&
  (Z.eqb (sx_Z (sx_nth e 3)) 0 || Z.eqb (sx_Z (sx_nth e 3)) 1 || Z.eqb (sx_Z (sx_nth e 3)) 3) &&
  sx_eqb (sx_nth e 4) (of_nats [d]) && Z.eqb (sx_Z (sx_nth e 5)) 0.

Definition mon_counts (m : mode) (mk ma : nat) : list Z :=
  match m with
  | MDedup => if Nat.ltb 1 mk then [21] else []
  | MLimit k => if Nat.ltb k ma then [22] else []
  | MQueued _ _ => if Nat.ltb 1 ma then [23] else []
  end.

Definition mon_release (m : mode) (rounds : list sx) : list Z :=
  match m with
  | MLimit k => if existsb (starved k) rounds then [26] else []
  | _ => []
  end.

Definition mon_results (kinds : list ekind) (lg : list sx) : list Z :=
  flat_map (fun p =>
    match read_obj (snd p) with
    | Some d =>
        if existsb (fun e => Z.eqb (lg_kind e) 3 && Nat.eqb (lg_caller e) (fst p) && Z.eqb (sx_Z (sx_nth e 2)) 0) lg
           && negb (existsb (sink_ok (fst p) d) lg)
        then [27] else []
    | None => []
    end) (combine (seq 0 (length kinds)) kinds).

Definition mon17L (inp obs : sx) : list Z :=
  if sx_eqb obs (L [A (-1)]) then [] else
  let '(m, kinds, sets, source, sink, evs) := cfgL inp in
  mon_counts m (sx_nat (sx_nth obs 1)) (sx_nat (sx_nth obs 2)) ++
  mon_release m (sx_list (sx_nth obs 0)) ++
  mon_results kinds (sx_list (sx_nth obs 4)).

Definition judge17L (inp obs : sx) : sx :=
  let (agree, model) := run_L inp obs in
  let v := mon17L inp obs in
  verdict agree (negb (match v with [] => true | _ => false end)) model (of_Zs v).
