(** C06 — the run-time monitor [mon06] never fires on what the model itself
    predicts ([run06]), for every well-formed input:

    history cases (kind 0): the operations respect the block window (a Put
    names a block in [lo, hi), a PopFront finds a block, kinds are 0..3) --
    exactly what the harness validates before running anything;
    codec cases: when the monitor compares at all (same seed, no damage), the
    key has 32 bytes and attempt/offset/size fit their fields.

    Each hypothesis is necessary ([mon06_needs_*]). *)
From Coq Require Import List Arith NArith ZArith Bool Lia.
From BBS Require Import Common.Sx Common.SxFactsMA Generated.Consts
     Index.Klm Index.KlmProofs Index.KlmFrame Index.KlmFnv Index.KlmFnvProofs Index.MonSilentKlm
     Index.RecordCodec Index.MonSilentCodec Run.R06.
(* -- (keeps lib/checklib.py's dependency scan from reading past the sentence) *)
Import ListNotations.
Open Scope Z_scope.

(** ---- small facts ---- *)
Lemma loc_eqb_spec a b : loc_eqb a b = true <-> a = b.
Proof.
  unfold loc_eqb. rewrite !andb_true_iff, !N.eqb_eq. destruct a, b; cbn. split.
  - intros [[-> ->] ->]. reflexivity.
  - intros H. inversion H. auto.
Qed.
Lemma oloc_eqb_spec a b : oloc_eqb a b = true <-> a = b.
Proof.
  destruct a as [x|], b as [y|]; cbn; try (split; [discriminate|intros H; discriminate]); [|split; reflexivity].
  rewrite loc_eqb_spec. split; [intros ->; reflexivity|intros H; inversion H; reflexivity].
Qed.
Lemma oloc_eqb_refl a : oloc_eqb a a = true.
Proof. apply oloc_eqb_spec. reflexivity. Qed.

Lemma nth_map_seq {T} (f : nat -> T) n i d : (i < n)%nat -> nth i (map f (seq 0 n)) d = f i.
Proof.
  intros H. rewrite (nth_indep _ d (f 0%nat)) by (rewrite map_length, seq_length; exact H).
  rewrite map_nth, seq_nth by exact H. reflexivity.
Qed.

Lemma in_seq0 i n : In i (seq 0 n) <-> (i < n)%nat.
Proof. rewrite in_seq. lia. Qed.

Lemma filter_nil_all {T} (f : T -> bool) l : (forall x, In x l -> f x = false) -> filter f l = [].
Proof.
  induction l as [|a l IH]; intros H; [reflexivity|]. cbn [filter].
  rewrite (H a (or_introl eq_refl)). apply IH. intros x Hx. apply H. right; exact Hx.
Qed.

Lemma NoDup_filter {T} (f : T -> bool) l : NoDup l -> NoDup (filter f l).
Proof.
  induction 1 as [|a l Hni Hnd IH]; cbn [filter]; [constructor|].
  destruct (f a); [constructor; [|exact IH]|exact IH]. intros Hin. apply filter_In in Hin. apply Hni, Hin.
Qed.

Lemma NoDup_all_equal_short {T} (l : list T) : NoDup l -> (forall x y, In x l -> In y l -> x = y) -> (length l <= 1)%nat.
Proof.
  intros Hnd Heq. destruct l as [|a [|b t]]; cbn; try lia.
  exfalso. inversion Hnd as [|? ? Hni _]; subst. apply Hni.
  rewrite (Heq a b); [left; reflexivity|left; reflexivity|right; left; reflexivity].
Qed.

(** ---- the clauses of [mon_step], named ---- *)
Section Clauses.
  Variable c : cfg06.
  Variables (lo' hi' : N) (hist' : list (nat * loc)) (res prev : list (option loc)).
  Variables (isput : bool) (kind : Z) (ki : nat) (l : loc) (ndisc : nat) (am' : amap nat) (disc' : nat).

  Definition cl1 : bool :=
    let idx := seq 0 (length (c_keys c)) in
    let get_now i := nth i res None in
    negb (forallb (fun i => match get_now i with
                            | Some x => stored hist' i x && valid lo' hi' x
                            | None => true end) idx).
  Definition changed_ : list nat :=
    let idx := seq 0 (length (c_keys c)) in
    let get_now i := nth i res None in
    let get_prev i := nth i prev None in
    let others := filter (fun i => negb (isput && same_key c ki i)) idx in
    filter (fun i => negb (oloc_eqb (get_now i) (get_prev i))) others.
  Definition cl2 : bool :=
    let changed := changed_ in
    let changed_distinct :=
      filter (fun i => negb (existsb (fun j => Nat.ltb j i && same_key c i j) changed)) changed in
    if isput then Nat.ltb ndisc (length changed_distinct)
    else if Z.eqb kind 2 then false else negb (is_nil changed).
  Definition cl3 : bool :=
    let get_now i := nth i res None in
    let get_prev i := nth i prev None in
    isput && negb (forallb (fun i => match get_prev i, get_now i with
                                     | Some p, Some x => older x p
                                     | None, Some _ => false
                                     | _, None => true end) changed_).
  Definition cl4 : bool :=
    let get_prev i := nth i prev None in
    isput && negb (forallb (fun i => match get_prev i with
                                     | Some p => negb (older l p)
                                     | None => true end) changed_).
  Definition cl5 : bool :=
    let idx := seq 0 (length (c_keys c)) in
    let get_now i := nth i res None in
    let get_prev i := nth i prev None in
    isput && negb (forallb (fun i =>
                 if same_key c ki i then
                   oloc_eqb (get_now i) (Some (newest_of (get_prev i) l))
                   || (Nat.ltb 0 ndisc && oloc_eqb (get_now i) (get_prev i))
                 else true) idx).
  Definition cl6 : bool :=
    let idx := seq 0 (length (c_keys c)) in
    let get_now i := nth i res None in
    let get_prev i := nth i prev None in
    Z.eqb kind 2 && negb (forallb (fun i =>
                 oloc_eqb (get_now i)
                          (match get_prev i with
                           | Some p => if valid lo' hi' p then Some p else None
                           | None => None end)) idx).
  Definition cl7 : bool :=
    let idx := seq 0 (length (c_keys c)) in
    let get_now i := nth i res None in
    Nat.eqb disc' 0 && negb (forallb (fun i => oloc_eqb (get_now i) (amap_get nat lo' hi' am' i)) idx).
End Clauses.

Definition flz (b : bool) (z : Z) : list Z := if b then [z] else [].

Lemma mon_step_eq c st o ob :
  mon_step c st o ob =
  let m := sx_nth ob 0 in
  let res := map dec_res (sx_list (sx_nth ob 1)) in
  let kind := sx_Z (sx_nth o 0) in
  let ki := sx_nat (sx_nth o 1) in
  let l := dec_loc o in
  let isput := Z.eqb kind 0 in
  let lo' := if Z.eqb kind 2 then N.succ (m_lo st) else m_lo st in
  let hi' := if Z.eqb kind 3 then N.succ (m_hi st) else m_hi st in
  let hist' := if isput then map (fun j => (j, l)) (filter (same_key c ki) (seq 0 (length (c_keys c)))) ++ m_hist st
               else m_hist st in
  let ndisc := if isput then Z.to_nat (sx_Z (sx_nth m 6) + sx_Z (sx_nth m 8)) else O in
  let am' := if isput then amap_put nat (same_key c) (m_amap st) ki l else m_amap st in
  let disc' := (m_disc st + ndisc)%nat in
  ({| m_lo := lo'; m_hi := hi'; m_hist := hist'; m_prev := res; m_disc := disc'; m_amap := am' |},
   flz (cl1 c lo' hi' hist' res) 1 ++ flz (cl2 c res (m_prev st) isput kind ki ndisc) 2
   ++ flz (cl3 c res (m_prev st) isput ki) 3 ++ flz (cl4 c res (m_prev st) isput ki l) 4
   ++ flz (cl5 c res (m_prev st) isput ki l ndisc) 5 ++ flz (cl6 c lo' hi' res (m_prev st) kind) 6
   ++ flz (cl7 c lo' hi' res am' disc') 7).
Proof. reflexivity. Qed.

(** ---- each clause is false under a plain-language condition ---- *)
Section ClauseLemmas.
  Variable c : cfg06.
  Let nk := length (c_keys c).
  Variables (res prev : list (option loc)).
  Let now_ i := nth i res None.
  Let prev_ i := nth i prev None.

  Lemma cl1_false lo' hi' hist' :
    (forall i x, (i < nk)%nat -> now_ i = Some x -> stored hist' i x = true /\ valid lo' hi' x = true) ->
    cl1 c lo' hi' hist' res = false.
  Proof.
    intros H. unfold cl1. cbv zeta. apply negb_false_iff. apply forallb_forall. intros i Hi.
    apply in_seq0 in Hi. fold (now_ i). destruct (now_ i) as [x|] eqn:E; [|reflexivity].
    destruct (H i x Hi E) as [-> ->]. reflexivity.
  Qed.

  Lemma changed_in isput ki i :
    In i (changed_ c res prev isput ki) <->
    (i < nk)%nat /\ (isput && same_key c ki i = false) /\ now_ i <> prev_ i.
  Proof.
    unfold changed_. cbv zeta. rewrite !filter_In, in_seq0, !negb_true_iff. fold (now_ i) (prev_ i). fold nk.
    split.
    - intros [[H1 H2] H3]. split; [exact H1|]. split; [exact H2|].
      intros E. rewrite E, oloc_eqb_refl in H3. discriminate.
    - intros [H1 [H2 H3]]. split; [split; assumption|].
      destruct (oloc_eqb (now_ i) (prev_ i)) eqn:E; [|reflexivity]. apply oloc_eqb_spec in E. contradiction.
  Qed.

  Lemma changed_nodup isput ki : NoDup (changed_ c res prev isput ki).
  Proof. unfold changed_. cbv zeta. apply NoDup_filter, NoDup_filter, seq_NoDup. Qed.

  Lemma cl2_put_false kind ki ndisc :
    (ndisc = 0%nat -> forall i, (i < nk)%nat -> same_key c ki i = false -> now_ i = prev_ i) ->
    (forall i j, (i < nk)%nat -> (j < nk)%nat -> same_key c ki i = false -> same_key c ki j = false ->
                 now_ i <> prev_ i -> now_ j <> prev_ j -> same_key c i j = true) ->
    cl2 c res prev true kind ki ndisc = false.
  Proof.
    intros HA HB. unfold cl2. cbv zeta. apply Nat.ltb_ge.
    destruct (Nat.eq_dec ndisc 0) as [E|E].
    - rewrite (filter_nil_all _ (changed_ c res prev true ki)); [cbn; lia|].
      intros i Hi. exfalso. apply changed_in in Hi. destruct Hi as [Hi [Hs Hn]]. cbn [andb] in Hs.
      apply Hn. apply HA; assumption.
    - etransitivity; [|instantiate (1 := 1%nat); lia].
      apply NoDup_all_equal_short; [apply NoDup_filter, changed_nodup|].
      intros x y Hx Hy. apply filter_In in Hx. apply filter_In in Hy.
      destruct Hx as [Hx Hx']. destruct Hy as [Hy Hy'].
      pose proof Hx as Hx0. pose proof Hy as Hy0.
      apply changed_in in Hx0. apply changed_in in Hy0.
      destruct Hx0 as [Hxi [Hxs Hxn]]. destruct Hy0 as [Hyi [Hys Hyn]]. cbn [andb] in Hxs, Hys.
      apply negb_true_iff in Hx'. apply negb_true_iff in Hy'.
      destruct (Nat.lt_trichotomy x y) as [Hlt|[Heq|Hlt]]; [|exact Heq|].
      + exfalso. assert (Hex : existsb (fun j => Nat.ltb j y && same_key c y j) (changed_ c res prev true ki) = true).
        { apply existsb_exists. exists x. split; [exact Hx|]. apply andb_true_iff. split; [apply Nat.ltb_lt; exact Hlt|].
          apply HB; assumption. }
        congruence.
      + exfalso. assert (Hex : existsb (fun j => Nat.ltb j x && same_key c x j) (changed_ c res prev true ki) = true).
        { apply existsb_exists. exists y. split; [exact Hy|]. apply andb_true_iff. split; [apply Nat.ltb_lt; exact Hlt|].
          apply HB; assumption. }
        congruence.
  Qed.

  Lemma changed_none ki : (forall i, (i < nk)%nat -> now_ i = prev_ i) -> changed_ c res prev false ki = [].
  Proof.
    intros H. unfold changed_. cbv zeta. apply filter_nil_all. intros i Hi. apply filter_In in Hi.
    destruct Hi as [Hi _]. apply in_seq0 in Hi. fold (now_ i) (prev_ i). rewrite (H i Hi), oloc_eqb_refl. reflexivity.
  Qed.

  Lemma cl2_other_false kind ki ndisc :
    (forall i, (i < nk)%nat -> now_ i = prev_ i) -> cl2 c res prev false kind ki ndisc = false.
  Proof. intros H. unfold cl2. cbv zeta. rewrite (changed_none ki H). destruct (Z.eqb kind 2); reflexivity. Qed.

  Lemma cl2_release_false ki ndisc : cl2 c res prev false 2 ki ndisc = false.
  Proof. reflexivity. Qed.

  Lemma cl3_false ki :
    (forall i, (i < nk)%nat -> same_key c ki i = false -> now_ i <> prev_ i ->
               match prev_ i, now_ i with
               | Some p, Some x => older x p
               | None, Some _ => false
               | _, None => true end = true) ->
    cl3 c res prev true ki = false.
  Proof.
    intros H. unfold cl3. cbv zeta. cbn [andb]. apply negb_false_iff. apply forallb_forall. intros i Hi.
    apply changed_in in Hi. destruct Hi as [Hi [Hs Hn]]. cbn [andb] in Hs. apply (H i Hi Hs Hn).
  Qed.

  Lemma cl4_false ki l :
    (forall i p, (i < nk)%nat -> same_key c ki i = false -> now_ i <> prev_ i -> prev_ i = Some p -> older l p = false) ->
    cl4 c res prev true ki l = false.
  Proof.
    intros H. unfold cl4. cbv zeta. cbn [andb]. apply negb_false_iff. apply forallb_forall. intros i Hi.
    apply changed_in in Hi. destruct Hi as [Hi [Hs Hn]]. cbn [andb] in Hs.
    fold (prev_ i). destruct (prev_ i) as [p|] eqn:E; [|reflexivity]. rewrite <- E in Hn. rewrite (H i p Hi Hs Hn E). reflexivity.
  Qed.

  Lemma cl5_false ki l ndisc :
    (forall i, (i < nk)%nat -> same_key c ki i = true ->
               now_ i = Some (newest_of (prev_ i) l) \/ ((0 < ndisc)%nat /\ now_ i = prev_ i)) ->
    cl5 c res prev true ki l ndisc = false.
  Proof.
    intros H. unfold cl5. cbv zeta. cbn [andb]. apply negb_false_iff. apply forallb_forall. intros i Hi.
    apply in_seq0 in Hi. destruct (same_key c ki i) eqn:Es; [|reflexivity].
    fold (now_ i) (prev_ i). destruct (H i Hi Es) as [E|[Hd E]].
    - rewrite E, oloc_eqb_refl. reflexivity.
    - rewrite E, oloc_eqb_refl. apply Nat.ltb_lt in Hd. rewrite Hd. apply orb_true_r.
  Qed.

  Lemma cl6_false lo' hi' :
    (forall i, (i < nk)%nat -> now_ i = match prev_ i with
                                        | Some p => if valid lo' hi' p then Some p else None
                                        | None => None end) ->
    cl6 c lo' hi' res prev 2 = false.
  Proof.
    intros H. unfold cl6. cbv zeta. cbn [Z.eqb Pos.eqb andb]. apply negb_false_iff. apply forallb_forall. intros i Hi.
    apply in_seq0 in Hi. fold (now_ i) (prev_ i). rewrite (H i Hi). apply oloc_eqb_refl.
  Qed.

  Lemma cl6_other_false lo' hi' kind : kind <> 2 -> cl6 c lo' hi' res prev kind = false.
  Proof. intros H. unfold cl6. cbv zeta. apply Z.eqb_neq in H. rewrite H. reflexivity. Qed.

  Lemma cl7_false lo' hi' am' disc' :
    (disc' = 0%nat -> forall i, (i < nk)%nat -> now_ i = amap_get nat lo' hi' am' i) ->
    cl7 c lo' hi' res am' disc' = false.
  Proof.
    intros H. unfold cl7. cbv zeta. destruct (Nat.eqb disc' 0) eqn:E; [|reflexivity]. apply Nat.eqb_eq in E.
    cbn [andb]. apply negb_false_iff. apply forallb_forall. intros i Hi. apply in_seq0 in Hi.
    fold (now_ i). rewrite (H E i Hi). apply oloc_eqb_refl.
  Qed.

  Lemma cl345_nonput_false ki l ndisc :
    cl3 c res prev false ki = false /\ cl4 c res prev false ki l = false /\ cl5 c res prev false ki l ndisc = false.
  Proof. repeat split; reflexivity. Qed.
End ClauseLemmas.

(** ---- keys: canonical index versus [same_key] ---- *)
Lemma first_index_bound keys k : forall i, (i <= first_index keys k i <= i + length keys)%nat.
Proof.
  induction keys as [|k' t IH]; intros i; cbn [first_index length]; [lia|].
  destruct (bkey_eqb k' k); [lia|]. specialize (IH (S i)). lia.
Qed.
Lemma first_index_hit keys k : forall i,
  (first_index keys k i < i + length keys)%nat -> nth (first_index keys k i - i) keys [] = k.
Proof.
  induction keys as [|k' t IH]; intros i H; cbn [first_index length] in *; [lia|].
  destruct (bkey_eqb k' k) eqn:E.
  - rewrite Nat.sub_diag. cbn. apply bkey_eqb_spec. exact E.
  - pose proof (first_index_bound t k (S i)) as Hb.
    replace (first_index t k (S i) - i)%nat with (S (first_index t k (S i) - S i)) by lia.
    cbn [nth]. apply IH. lia.
Qed.
Lemma first_index_in keys k : forall i, In k keys -> (first_index keys k i < i + length keys)%nat.
Proof.
  induction keys as [|k' t IH]; intros i H; [destruct H|]. cbn [first_index length].
  destruct (bkey_eqb k' k) eqn:E; [lia|].
  destruct H as [H|H]; [subst k'; rewrite (proj2 (bkey_eqb_spec k k) eq_refl) in E; discriminate|].
  specialize (IH (S i) H). lia.
Qed.

Lemma same_key_sym c i j : same_key c i j = same_key c j i.
Proof.
  unfold same_key. destruct (bkey_eqb (key_at c i) (key_at c j)) eqn:E.
  - apply bkey_eqb_spec in E. rewrite E. symmetry. apply bkey_eqb_spec. reflexivity.
  - destruct (bkey_eqb (key_at c j) (key_at c i)) eqn:E'; [|reflexivity].
    apply bkey_eqb_spec in E'. rewrite E' in E. rewrite (proj2 (bkey_eqb_spec _ _) eq_refl) in E. discriminate.
Qed.

Lemma canon_same c i j :
  (i < length (c_keys c))%nat -> Nat.eqb (i_key c j) (i_key c i) = same_key c j i.
Proof.
  intros Hi. unfold i_key, canon, same_key, key_at.
  set (keys := c_keys c) in *. set (kj := nth j keys []). set (ki := nth i keys []).
  assert (Hin : In ki keys) by (apply nth_In; exact Hi).
  destruct (bkey_eqb kj ki) eqn:E.
  - apply bkey_eqb_spec in E. rewrite E. apply Nat.eqb_refl.
  - apply Nat.eqb_neq. intros Heq.
    pose proof (first_index_in keys ki 0 Hin) as Hlt.
    pose proof (first_index_hit keys ki 0 Hlt) as H1.
    rewrite <- Heq in Hlt. pose proof (first_index_hit keys kj 0 Hlt) as H2.
    rewrite Heq in H2. rewrite H1 in H2. subst kj.
    rewrite H2 in E. rewrite (proj2 (bkey_eqb_spec _ _) eq_refl) in E. discriminate.
Qed.

(** ---- encodings ---- *)
Lemma dec_res_enc_get g : dec_res (enc_get g) = lookup_of g.
Proof.
  destruct g as [[b o z] a|a|]; unfold dec_res, enc_get, sx_nth; cbn [sx_list nth sx_Z blk off size lookup_of].
  - change (1 =? 1) with true. cbv iota. rewrite !sx_N_of_N. reflexivity.
  - reflexivity.
  - reflexivity.
Qed.

Lemma ndisc_enc_put (r : pres nat) :
  Z.to_nat (sx_Z (sx_nth (enc_put r) 6) + sx_Z (sx_nth (enc_put r) 8))
  = match discarded r with Some _ => 1%nat | None => 0%nat end.
Proof. destruct r; reflexivity. Qed.

Lemma newest_of_eq p l : newest_of p l = newest p l.
Proof. reflexivity. Qed.

Lemma stored_app h1 h2 i x : stored (h1 ++ h2) i x = stored h1 i x || stored h2 i x.
Proof. unfold stored. apply existsb_app. Qed.

Lemma stored_in h i x : In (i, x) h -> stored h i x = true.
Proof.
  intros H. unfold stored. apply existsb_exists. exists (i, x). split; [exact H|].
  rewrite Nat.eqb_refl. cbn. apply loc_eqb_spec. reflexivity.
Qed.

Lemma map_const_seq {T U} (l : list T) (b : U) : map (fun _ => b) l = map (fun _ => b) (seq 0 (length l)).
Proof.
  generalize 0%nat. induction l as [|a l IH]; intros k; [reflexivity|]. cbn [length seq map]. f_equal. apply IH.
Qed.

Lemma length_zero_nil {T} (l : list T) : length l = 0%nat -> l = [].
Proof. destruct l; [reflexivity|discriminate]. Qed.

(** ---- the model instance ---- *)
Section Hist.
  Variable c : cfg06.
  Hypothesis n_pos : (0 < c_n c)%nat.
  Let nk := length (c_keys c).
  Let tb := i_tab c.
  Let slotf : nat -> nat -> nat := i_slot tb.
  Let K := i_key c.
  Let mg := c_maxget c.
  Let mp := c_maxput c.
  Notation lookupM := (lookup nat Nat.eqb slotf mg).
  Notation runM := (run nat Nat.eqb slotf mg mp).
  Notation stepM := (step nat Nat.eqb slotf mg mp).
  Notation putM := (klm_put nat Nat.eqb slotf mg mp).
  Notation discardsM := (discards nat Nat.eqb slotf mg mp).
  Notation amrun := (amap_run nat Nat.eqb (amap_empty nat)).

  Lemma slotf_lt k a : (slotf k a < c_n c)%nat.
  Proof.
    unfold slotf, i_slot, tab_slot, tb, i_tab, slot_table.
    destruct (nth_in_or_default k (map (fun k0 => map (fnv_slot (c_init c) (c_n c) k0) (seq 0 (S (c_maxget c)))) (c_keys c)) [])
      as [Hin | ->].
    - apply in_map_iff in Hin. destruct Hin as (key & <- & _).
      destruct (nth_in_or_default a (map (fnv_slot (c_init c) (c_n c) key) (seq 0 (S (c_maxget c)))) 0%nat) as [Hin | ->].
      + apply in_map_iff in Hin. destruct Hin as (x & <- & _). apply fnv_slot_lt. exact n_pos.
      + exact n_pos.
    - destruct a; exact n_pos.
  Qed.

  Definition hop (o : sx) : op nat :=
    match sx_Z (sx_nth o 0) with
    | 0 => OPut (K (sx_nat (sx_nth o 1))) (dec_loc o)
    | 1 => OGet (K (sx_nat (sx_nth o 1)))
    | 2 => ORelease
    | _ => OGrow
    end.

  Definition view (s : klm nat) : list (option loc) := map (fun i => lookupM s (K i)) (seq 0 nk).

  Lemma view_nth s i : (i < nk)%nat -> nth i (view s) None = lookupM s (K i).
  Proof. intros H. unfold view. apply (nth_map_seq (fun i => lookupM s (K i))). exact H. Qed.

  Lemma res_of_sweep m s : map dec_res (sx_list (sx_nth (L [m; sweep c tb s]) 1)) = view s.
  Proof.
    unfold sx_nth. cbn [sx_list nth]. unfold sweep. cbn [sx_list]. rewrite map_map. unfold view. fold nk.
    apply map_ext. intros i. rewrite dec_res_enc_get. reflexivity.
  Qed.

  Record MInv (h0 : N) (st : mst) (s : klm nat) (h : list (op nat)) : Prop := {
    mi_run : runM (klm_empty nat (c_n c) h0) h = Some s;
    mi_lo : m_lo st = lo s;
    mi_hi : m_hi st = hi s;
    mi_prev : m_prev st = view s;
    mi_hist : forall i x, (i < nk)%nat -> In (OPut (K i) x) h -> stored (m_hist st) i x = true;
    mi_disc : m_disc st = length (discardsM (klm_empty nat (c_n c) h0) h);
    mi_amap : forall i, (i < nk)%nat -> m_amap st i = amrun h (K i) }.

  Lemma reach h0 h s : runM (klm_empty nat (c_n c) h0) h = Some s -> Reachable nat Nat.eqb (c_n c) slotf mg mp s.
  Proof. intros H. exists h0, h. exact H. Qed.

  Lemma invs2 h0 h s : runM (klm_empty nat (c_n c) h0) h = Some s -> InvS2 nat (c_n c) slotf mg s.
  Proof. intros H. eapply (reachable_inv2 nat Nat.eqb Nat.eqb_eq (c_n c) slotf slotf_lt mg mp). eapply reach; exact H. Qed.

  (** clause 1, for any operation *)
  Lemma c1_model h0 h' s' lo' hi' hist' :
    runM (klm_empty nat (c_n c) h0) h' = Some s' -> lo' = lo s' -> hi' = hi s' ->
    (forall i x, (i < nk)%nat -> In (OPut (K i) x) h' -> stored hist' i x = true) ->
    cl1 c lo' hi' hist' (view s') = false.
  Proof.
    intros Hr -> -> Hh. apply cl1_false. intros i x Hi Hn. fold nk in Hi. rewrite (view_nth s' i Hi) in Hn.
    destruct (get_sound_thm nat Nat.eqb Nat.eqb_eq (c_n c) slotf mg mp h0 h' s' (K i) x Hr Hn) as [Hin Hv].
    split; [apply Hh; assumption|exact Hv].
  Qed.

  (** clause 7, for any operation *)
  Lemma c7_model h0 h' s' lo' hi' am' disc' :
    runM (klm_empty nat (c_n c) h0) h' = Some s' -> lo' = lo s' -> hi' = hi s' ->
    (disc' = 0%nat -> discardsM (klm_empty nat (c_n c) h0) h' = []) ->
    (forall i, (i < nk)%nat -> am' i = amrun h' (K i)) ->
    cl7 c lo' hi' (view s') am' disc' = false.
  Proof.
    intros Hr -> -> Hd Ha. apply cl7_false. intros Hz i Hi. fold nk in Hi. rewrite (view_nth s' i Hi).
    rewrite (no_discard_newest_thm nat Nat.eqb Nat.eqb_eq (c_n c) slotf slotf_lt mg mp h0 h' s' Hr (Hd Hz) (K i)).
    unfold amap_get. rewrite (Ha i Hi). reflexivity.
  Qed.

  Lemma in_app_last (h : list (op nat)) a x : In x (h ++ [a]) -> In x h \/ x = a.
  Proof. intros H. apply in_app_or in H. destruct H as [H|[H|[]]]; [left; exact H|right; symmetry; exact H]. Qed.

  (** ---- non-Put operations ---- *)
  Lemma step_nonput h0 st s h o a s' :
    MInv h0 st s h ->
    sx_Z (sx_nth o 0) <> 0 -> (forall k l, a <> OPut k l) ->
    stepM s a = Some s' ->
    lo s' = (if sx_Z (sx_nth o 0) =? 2 then N.succ (lo s) else lo s) ->
    hi s' = (if sx_Z (sx_nth o 0) =? 3 then N.succ (hi s) else hi s) ->
    (sx_Z (sx_nth o 0) <> 2 -> forall k, lookupM s' k = lookupM s k) ->
    (sx_Z (sx_nth o 0) = 2 -> forall k, lookupM s' k = keep_valid (lo s') (hi s') (lookupM s k)) ->
    forall m, snd (mon_step c st o (L [m; sweep c tb s'])) = []
              /\ MInv h0 (fst (mon_step c st o (L [m; sweep c tb s']))) s' (h ++ [a]).
  Proof.
    intros MI Hk Ha Hs Hlo Hhi Hsame Hrel m. destruct MI as [Hr Hl Hh Hp Hhist Hdisc Ham].
    assert (Hr' : runM (klm_empty nat (c_n c) h0) (h ++ [a]) = Some s').
    { rewrite (run_app nat Nat.eqb slotf mg mp), Hr. exact Hs. }
    assert (Hd' : discardsM (klm_empty nat (c_n c) h0) (h ++ [a]) = discardsM (klm_empty nat (c_n c) h0) h).
    { rewrite (discards_app nat Nat.eqb slotf mg mp h _ s a Hr). unfold step_discards. rewrite Hs.
      destruct a as [k l| | |]; [exfalso; apply (Ha k l); reflexivity| | |]; apply app_nil_r. }
    assert (Ham' : amrun (h ++ [a]) = amrun h).
    { rewrite (amap_run_app nat Nat.eqb). destruct a as [k l| | |]; [exfalso; apply (Ha k l); reflexivity| | |]; reflexivity. }
    assert (Hin' : forall i x, In (OPut (K i) x) (h ++ [a]) -> In (OPut (K i) x) h).
    { intros i x Hin. apply in_app_last in Hin. destruct Hin as [Hin|Hin]; [exact Hin|]. exfalso. apply (Ha _ _ (eq_sym Hin)). }
    rewrite mon_step_eq. cbv zeta. rewrite res_of_sweep.
    apply Z.eqb_neq in Hk. rewrite Hk. cbn [fst snd].
    rewrite Nat.add_0_r.
    destruct (cl345_nonput_false c (view s') (m_prev st) (sx_nat (sx_nth o 1)) (dec_loc o) 0) as (-> & -> & ->).
    assert (Hlo' : (if sx_Z (sx_nth o 0) =? 2 then N.succ (m_lo st) else m_lo st) = lo s') by (rewrite Hlo, Hl; reflexivity).
    assert (Hhi' : (if sx_Z (sx_nth o 0) =? 3 then N.succ (m_hi st) else m_hi st) = hi s') by (rewrite Hhi, Hh; reflexivity).
    rewrite Hlo', Hhi'.
    rewrite (c1_model h0 (h ++ [a]) s' (lo s') (hi s') (m_hist st) Hr' eq_refl eq_refl)
      by (intros i x Hi Hin; apply Hhist; [exact Hi|apply Hin'; exact Hin]).
    rewrite (c7_model h0 (h ++ [a]) s' (lo s') (hi s') (m_amap st) (m_disc st) Hr' eq_refl eq_refl)
      by (first [ intros Hz; rewrite Hd'; apply length_zero_nil; rewrite <- Hdisc; exact Hz
                | intros i Hi; rewrite Ham'; apply Ham; exact Hi ]).
    rewrite Hp.
    assert (Hc26 : cl2 c (view s') (view s) false (sx_Z (sx_nth o 0)) (sx_nat (sx_nth o 1)) 0 = false
                   /\ cl6 c (lo s') (hi s') (view s') (view s) (sx_Z (sx_nth o 0)) = false).
    { destruct (Z.eq_dec (sx_Z (sx_nth o 0)) 2) as [E|E].
      - rewrite E. split; [reflexivity|]. apply cl6_false. intros i Hi. fold nk in Hi.
        rewrite (view_nth s' i Hi), (view_nth s i Hi). apply (Hrel E).
      - split; [|apply cl6_other_false; exact E]. apply cl2_other_false. intros i Hi. fold nk in Hi.
        rewrite (view_nth s' i Hi), (view_nth s i Hi). apply (Hsame E). }
    destruct Hc26 as [-> ->]. split; [reflexivity|].
    constructor; cbn [m_lo m_hi m_hist m_prev m_disc m_amap].
    - exact Hr'.
    - reflexivity.
    - reflexivity.
    - reflexivity.
    - intros i x Hi Hin. apply Hhist; [exact Hi|apply Hin'; exact Hin].
    - rewrite Hd'. exact Hdisc.
    - intros i Hi. rewrite Ham'. apply Ham. exact Hi.
  Qed.

  (** ---- Put ---- *)
  Lemma step_put h0 st s h o s' r :
    MInv h0 st s h ->
    sx_Z (sx_nth o 0) = 0 -> valid (lo s) (hi s) (dec_loc o) = true ->
    putM s (K (sx_nat (sx_nth o 1))) (dec_loc o) = (s', r) ->
    snd (mon_step c st o (L [enc_put r; sweep c tb s'])) = []
    /\ MInv h0 (fst (mon_step c st o (L [enc_put r; sweep c tb s']))) s' (h ++ [hop o]).
  Proof.
    intros MI Hk V P. destruct MI as [Hr Hl Hh Hp Hhist Hdisc Ham].
    set (ki := sx_nat (sx_nth o 1)) in *. set (k := K ki) in *. set (l := dec_loc o) in *.
    assert (Ehop : hop o = OPut k l) by (unfold hop; rewrite Hk; reflexivity).
    rewrite Ehop.
    pose proof (invs2 h0 h s Hr) as HI2. pose proof (reach h0 h s Hr) as HR.
    destruct (klm_put_window nat Nat.eqb slotf mg mp s k l s' r P) as [Elo Ehi].
    assert (Hs : stepM s (OPut k l) = Some s') by (cbn [step]; rewrite V, P; reflexivity).
    assert (Hr' : runM (klm_empty nat (c_n c) h0) (h ++ [OPut k l]) = Some s').
    { rewrite (run_app nat Nat.eqb slotf mg mp), Hr. exact Hs. }
    set (nd := match discarded r with Some _ => 1%nat | None => 0%nat end).
    assert (Hd' : discardsM (klm_empty nat (c_n c) h0) (h ++ [OPut k l])
                  = discardsM (klm_empty nat (c_n c) h0) h ++ match discarded r with Some d => [d] | None => [] end).
    { rewrite (discards_app nat Nat.eqb slotf mg mp h _ s _ Hr). unfold step_discards. rewrite Hs, P. reflexivity. }
    assert (Ham' : forall i, (i < nk)%nat ->
              amap_put nat (same_key c) (m_amap st) ki l i = amrun (h ++ [OPut k l]) (K i)).
    { intros i Hi. rewrite (amap_run_app nat Nat.eqb). unfold amap_put.
      rewrite (same_key_sym c i ki), <- (canon_same c i ki Hi). fold K. fold k.
      rewrite (Nat.eqb_sym k (K i)). rewrite (Ham i Hi). reflexivity. }
    set (hist' := map (fun j => (j, l)) (filter (same_key c ki) (seq 0 (length (c_keys c)))) ++ m_hist st).
    assert (Hhist' : forall i x, (i < nk)%nat -> In (OPut (K i) x) (h ++ [OPut k l]) -> stored hist' i x = true).
    { intros i x Hi Hin. unfold hist'. rewrite stored_app. apply in_app_last in Hin. destruct Hin as [Hin|Hin].
      - rewrite (Hhist i x Hi Hin). apply orb_true_r.
      - inversion Hin as [[Ek El]]. rewrite stored_in; [reflexivity|].
        apply in_map_iff. exists i. split; [reflexivity|]. apply filter_In. split; [apply in_seq0; exact Hi|].
        rewrite <- (canon_same c i ki Hi). fold K. fold k. rewrite Ek. apply Nat.eqb_refl. }
    (* what the model guarantees about the lookups *)
    assert (Kne : forall i, (i < nk)%nat -> same_key c ki i = false -> K i <> k).
    { intros i Hi Hsk E. rewrite <- (canon_same c i ki Hi) in Hsk. fold K in Hsk. fold k in Hsk.
      rewrite E, Nat.eqb_refl in Hsk. discriminate. }
    assert (Keq : forall i, (i < nk)%nat -> same_key c ki i = true -> K i = k).
    { intros i Hi Hsk. rewrite <- (canon_same c i ki Hi) in Hsk. fold K in Hsk. fold k in Hsk.
      apply Nat.eqb_eq in Hsk. symmetry. exact Hsk. }
    assert (Frame : forall i, (i < nk)%nat -> same_key c ki i = false ->
              (forall d, discarded r = Some d -> rkey d <> K i) -> lookupM s' (K i) = lookupM s (K i)).
    { intros i Hi Hsk Hd.
      apply (put_frame_tbl_state nat Nat.eqb Nat.eqb_eq (c_n c) slotf slotf_lt mg mp s k l s' r (K i) HI2 V P
               (Kne i Hi Hsk) Hd). }
    rewrite mon_step_eq. cbv zeta. rewrite res_of_sweep. rewrite Hk.
    change (0 =? 0) with true. change (0 =? 2) with false. change (0 =? 3) with false. cbv iota.
    change (sx_nth (L [enc_put r; sweep c tb s']) 0) with (enc_put r). fold ki. fold l.
    rewrite ndisc_enc_put. fold nd. fold hist'. cbn [fst snd]. rewrite Hp.
    rewrite (c1_model h0 (h ++ [OPut k l]) s' (m_lo st) (m_hi st) hist' Hr')
      by (first [ rewrite Hl; symmetry; exact Elo | rewrite Hh; symmetry; exact Ehi | exact Hhist' ]).
    rewrite (c7_model h0 (h ++ [OPut k l]) s' (m_lo st) (m_hi st)
               (amap_put nat (same_key c) (m_amap st) ki l) (m_disc st + nd) Hr')
      by (first [ rewrite Hl; symmetry; exact Elo | rewrite Hh; symmetry; exact Ehi | exact Ham'
                | intros Hz; rewrite Hd';
                  assert (Hz1 : m_disc st = 0%nat) by lia; assert (Hz2 : nd = 0%nat) by lia;
                  rewrite (length_zero_nil _ (eq_trans (eq_sym Hdisc) Hz1));
                  unfold nd in Hz2; destruct (discarded r); [discriminate|reflexivity] ]).
    rewrite (cl6_other_false c (view s') (view s) (m_lo st) (m_hi st) 0) by discriminate.
    rewrite (cl2_put_false c (view s') (view s) 0 ki nd).
    2:{ intros Hz i Hi Hsk. fold nk in Hi. rewrite (view_nth s' i Hi), (view_nth s i Hi). apply (Frame i Hi Hsk).
        intros d Hd. unfold nd in Hz. rewrite Hd in Hz. discriminate. }
    2:{ intros i j Hi Hj Hsi Hsj Hni Hnj. fold nk in Hi, Hj. rewrite (view_nth s' i Hi), (view_nth s i Hi) in Hni. rewrite (view_nth s' j Hj), (view_nth s j Hj) in Hnj.
        rewrite <- (canon_same c j i Hj). fold K. apply Nat.eqb_eq.
        destruct (discarded r) as [d|] eqn:D.
        - destruct (Nat.eq_dec (rkey d) (K i)) as [Ei|Ei].
          + destruct (Nat.eq_dec (rkey d) (K j)) as [Ej|Ej]; [congruence|].
            exfalso. apply Hnj. apply (Frame j Hj Hsj). intros d' Hq. inversion Hq; subst d'. exact Ej.
          + exfalso. apply Hni. apply (Frame i Hi Hsi). intros d' Hq. inversion Hq; subst d'. exact Ei.
        - exfalso. apply Hni. apply (Frame i Hi Hsi). intros d' Hq. discriminate. }
    rewrite (cl3_false c (view s') (view s) ki).
    2:{ intros i Hi Hsk Hn. fold nk in Hi. rewrite (view_nth s' i Hi), (view_nth s i Hi) in Hn. rewrite (view_nth s' i Hi), (view_nth s i Hi).
        destruct (lookupM s' (K i)) as [x|] eqn:Now; [|destruct (lookupM s (K i)); reflexivity].
        destruct (put_falls_back_thm nat Nat.eqb Nat.eqb_eq (c_n c) slotf slotf_lt mg mp s k l s' r (K i) x HR V P Now)
          as [[Ek _]|(pv & Hpv & Hx)]; [exfalso; apply (Kne i Hi Hsk Ek)|].
        rewrite Hpv in Hn |- *. destruct Hx as [->|Hx]; [exfalso; apply Hn; reflexivity|exact Hx]. }
    rewrite (cl4_false c (view s') (view s) ki l).
    2:{ intros i p Hi Hsk Hn Hpv. fold nk in Hi. rewrite (view_nth s' i Hi), (view_nth s i Hi) in Hn. rewrite (view_nth s i Hi) in Hpv.
        destruct (older l p) eqn:O; [|reflexivity]. exfalso. apply Hn. rewrite Hpv.
        apply (put_newer_kept nat Nat.eqb Nat.eqb_eq (c_n c) slotf slotf_lt mg mp s k l s' r (K i) p HI2 V P Hpv O). }
    rewrite (cl5_false c (view s') (view s) ki l nd).
    2:{ intros i Hi Hsk. fold nk in Hi. rewrite (view_nth s' i Hi), (view_nth s i Hi). rewrite (Keq i Hi Hsk). rewrite newest_of_eq.
        destruct (discarded r) as [d|] eqn:D.
        - destruct (put_self_or nat Nat.eqb Nat.eqb_eq (c_n c) slotf slotf_lt mg mp s k l s' r HI2 V P) as [H1|H1].
          + left. exact H1.
          + right. split; [unfold nd; lia|exact H1].
        - left. apply (put_self_tbl_state nat Nat.eqb Nat.eqb_eq (c_n c) slotf slotf_lt mg mp s k l s' r HI2 V P).
          intros d Hd. congruence. }
    split; [reflexivity|].
    constructor; cbn [m_lo m_hi m_hist m_prev m_disc m_amap].
    - exact Hr'.
    - rewrite Hl. symmetry. exact Elo.
    - rewrite Hh. symmetry. exact Ehi.
    - reflexivity.
    - exact Hhist'.
    - rewrite Hd', app_length, <- Hdisc. unfold nd. destruct (discarded r); reflexivity.
    - exact Ham'.
  Qed.
End Hist.

(** ---- histories ---- *)
(** the operations respect the block window: what the harness validates *)
Fixpoint wf_ops (lo hi : N) (ops : list sx) : bool :=
  match ops with
  | [] => true
  | o :: t =>
      let z := sx_Z (sx_nth o 0) in
      if z =? 0 then valid lo hi (dec_loc o) && wf_ops lo hi t
      else if z =? 1 then wf_ops lo hi t
      else if z =? 2 then (lo <? hi)%N && wf_ops (N.succ lo) hi t
      else if z =? 3 then wf_ops lo (N.succ hi) t
      else false
  end.

Section DoOp.
  Variable c : cfg06.
  Let tb := i_tab c.

  Lemma do_op_put s o :
    sx_Z (sx_nth o 0) = 0 -> valid (lo s) (hi s) (dec_loc o) = true ->
    do_op c tb s o =
    (let '(s', r) := klm_put nat Nat.eqb (i_slot tb) (c_maxget c) (c_maxput c) s
                             (i_key c (sx_nat (sx_nth o 1))) (dec_loc o) in (s', enc_put r)).
  Proof. intros E V. unfold do_op. rewrite E. cbv beta iota zeta. rewrite V. reflexivity. Qed.

  Lemma do_op_get s o :
    sx_Z (sx_nth o 0) = 1 -> exists m, do_op c tb s o = (s, m).
  Proof. intros E. unfold do_op. rewrite E. cbv beta iota zeta. eexists. reflexivity. Qed.

  Lemma do_op_release s o :
    sx_Z (sx_nth o 0) = 2 -> (lo s <? hi s)%N = true -> do_op c tb s o = (klm_release nat s, no_metrics false).
  Proof. intros E V. unfold do_op. rewrite E. cbv beta iota zeta. rewrite V. reflexivity. Qed.

  Lemma do_op_grow s o :
    sx_Z (sx_nth o 0) = 3 -> do_op c tb s o = (klm_grow nat s, no_metrics false).
  Proof. intros E. unfold do_op. rewrite E. reflexivity. Qed.
End DoOp.

Section HistRun.
  Variable c : cfg06.
  Hypothesis n_pos : (0 < c_n c)%nat.
  Let slotf : nat -> nat -> nat := i_slot (i_tab c).
  Let mg := c_maxget c.
  Let mp := c_maxput c.

  Lemma run_ops_silent : forall ops h0 st s h,
    MInv c h0 st s h -> wf_ops (lo s) (hi s) ops = true ->
    mon_ops c st ops (run_ops c (i_tab c) s ops) = [].
  Proof.
    induction ops as [|o ops IH]; intros h0 st s h MI Hwf; [reflexivity|].
    cbn [wf_ops] in Hwf. cbv zeta in Hwf. cbn [run_ops].
    pose proof (reach c h0 h s (mi_run c h0 st s h MI)) as HR.
    destruct (sx_Z (sx_nth o 0) =? 0) eqn:E0.
    { apply Z.eqb_eq in E0. apply andb_true_iff in Hwf. destruct Hwf as [V Hwf].
      rewrite (do_op_put c s o E0 V).
      destruct (klm_put nat Nat.eqb (i_slot (i_tab c)) (c_maxget c) (c_maxput c) s
                        (i_key c (sx_nat (sx_nth o 1))) (dec_loc o)) as [s' r] eqn:P.
      cbn [mon_ops].
      destruct (step_put c n_pos h0 st s h o s' r MI E0 V P) as [Hv HM].
      destruct (mon_step c st o (L [enc_put r; sweep c (i_tab c) s'])) as [st' v]. cbn [fst snd] in Hv, HM. subst v.
      cbn [app]. destruct (klm_put_window nat Nat.eqb _ _ _ s _ _ s' r P) as [Elo Ehi].
      apply (IH h0 st' s' _ HM). rewrite Elo, Ehi. exact Hwf. }
    destruct (sx_Z (sx_nth o 0) =? 1) eqn:E1.
    { apply Z.eqb_eq in E1. destruct (do_op_get c s o E1) as [m ->]. cbn [mon_ops].
      destruct (step_nonput c n_pos h0 st s h o (OGet (i_key c (sx_nat (sx_nth o 1)))) s MI) with (m := m) as [Hv HM].
      - rewrite E1. discriminate.
      - intros k l. discriminate.
      - reflexivity.
      - rewrite E1. reflexivity.
      - rewrite E1. reflexivity.
      - intros _ k. reflexivity.
      - intros E. rewrite E1 in E. discriminate.
      - destruct (mon_step c st o (L [m; sweep c (i_tab c) s])) as [st' v]. cbn [fst snd] in Hv, HM. subst v.
        cbn [app]. apply (IH h0 st' s _ HM). exact Hwf. }
    destruct (sx_Z (sx_nth o 0) =? 2) eqn:E2.
    { apply Z.eqb_eq in E2. apply andb_true_iff in Hwf. destruct Hwf as [V Hwf].
      rewrite (do_op_release c s o E2 V). cbn [mon_ops].
      destruct (step_nonput c n_pos h0 st s h o ORelease (klm_release nat s) MI) with (m := no_metrics false) as [Hv HM].
      - rewrite E2. discriminate.
      - intros k l. discriminate.
      - cbn [step]. rewrite V. reflexivity.
      - rewrite E2. reflexivity.
      - rewrite E2. reflexivity.
      - intros E. contradiction.
      - intros _ k. apply (release_exact_thm nat Nat.eqb Nat.eqb_eq (c_n c) slotf (slotf_lt c n_pos) mg mp s k HR).
      - destruct (mon_step c st o (L [no_metrics false; sweep c (i_tab c) (klm_release nat s)])) as [st' v].
        cbn [fst snd] in Hv, HM. subst v. cbn [app]. apply (IH h0 st' (klm_release nat s) _ HM). exact Hwf. }
    destruct (sx_Z (sx_nth o 0) =? 3) eqn:E3; [|discriminate].
    apply Z.eqb_eq in E3. rewrite (do_op_grow c s o E3). cbn [mon_ops].
    destruct (step_nonput c n_pos h0 st s h o OGrow (klm_grow nat s) MI) with (m := no_metrics false) as [Hv HM].
    - rewrite E3. discriminate.
    - intros k l. discriminate.
    - reflexivity.
    - rewrite E3. reflexivity.
    - rewrite E3. reflexivity.
    - intros _ k. apply (grow_frame_thm nat Nat.eqb (c_n c) slotf (slotf_lt c n_pos) mg mp s k HR).
    - intros E. rewrite E3 in E. discriminate.
    - destruct (mon_step c st o (L [no_metrics false; sweep c (i_tab c) (klm_grow nat s)])) as [st' v].
      cbn [fst snd] in Hv, HM. subst v. cbn [app]. apply (IH h0 st' (klm_grow nat s) _ HM). exact Hwf.
  Qed.

  Lemma minv_init h0 :
    MInv c h0 {| m_lo := 0; m_hi := h0; m_hist := []; m_prev := map (fun _ => None) (c_keys c); m_disc := O;
                 m_amap := amap_empty nat |} (klm_empty nat (c_n c) h0) [].
  Proof.
    constructor; cbn [m_lo m_hi m_hist m_prev m_disc m_amap]; try reflexivity.
    - rewrite map_const_seq. unfold view. apply map_ext. intros i.
      symmetry. apply (lookup_empty nat Nat.eqb Nat.eqb_eq (c_n c) slotf mg).
    - intros i x _ [].
  Qed.
End HistRun.

(** without keys every clause is vacuous *)
Lemma mon_step_nokeys c st o ob : c_keys c = [] -> snd (mon_step c st o ob) = [].
Proof.
  intros Hk. rewrite mon_step_eq. cbv zeta. cbn [snd].
  unfold cl1, cl2, cl3, cl4, cl5, cl6, cl7, changed_. rewrite Hk.
  cbn [length seq filter forallb existsb negb is_nil]. rewrite !andb_false_r.
  destruct (sx_Z (sx_nth o 0) =? 0); destruct (sx_Z (sx_nth o 0) =? 2); reflexivity.
Qed.

Lemma mon_ops_nokeys c : c_keys c = [] -> forall ops obs st, mon_ops c st ops obs = [].
Proof.
  intros Hk. induction ops as [|o ops IH]; intros [|ob obs] st; try reflexivity. cbn [mon_ops].
  pose proof (mon_step_nokeys c st o ob Hk) as H. destruct (mon_step c st o ob) as [st' v]. cbn [snd] in H.
  subst v. apply IH.
Qed.

Definition wf06_hist (inp : sx) : bool :=
  let c := dec_cfg inp in wf_ops 0 (c_h0 c) (c_ops c).

Theorem mon06_hist_silent : forall inp, wf06_hist inp = true -> mon06_hist inp (run06_hist inp) = [].
Proof.
  intros inp Hwf. unfold mon06_hist. cbv zeta.
  destruct (sx_eqb (run06_hist inp) (L [A (-1)])) eqn:Ep; [reflexivity|].
  unfold run06_hist in *. cbv zeta in *. set (c := dec_cfg inp) in *.
  destruct (Nat.eqb (c_n c) 0 && negb (is_nil (c_ops c)) && negb (is_nil (c_keys c))) eqn:Ec.
  { cbn in Ep. discriminate. }
  cbn [sx_list].
  destruct (Nat.eqb (c_n c) 0) eqn:En.
  - cbn [andb] in Ec. apply andb_false_iff in Ec. destruct Ec as [Ec|Ec]; apply negb_false_iff in Ec.
    + destruct (c_ops c); [reflexivity|discriminate].
    + rewrite (mon_ops_nokeys c); [reflexivity|]. destruct (c_keys c); [reflexivity|discriminate].
  - apply Nat.eqb_neq in En. assert (Hn : (0 < c_n c)%nat) by lia.
    rewrite (run_ops_silent c Hn (c_ops c) (c_h0 c) _ _ [] (minv_init c (c_h0 c))); [reflexivity|].
    exact Hwf.
Qed.

(** ---- both kinds of cases ---- *)
Definition wf06 (inp : sx) : Prop :=
  if sx_Z (sx_nth inp 0) =? 0 then wf06_hist inp = true
  else (codec_compares inp = true -> codec_fits (dec_drec inp)).

Theorem mon06_silent : forall inp, wf06 inp -> mon06 inp (run06 inp) = [].
Proof.
  intros inp H. unfold wf06 in H. unfold mon06, run06. destruct (sx_Z (sx_nth inp 0) =? 0).
  - apply mon06_hist_silent. exact H.
  - apply codec_mon_silent. exact H.
Qed.

(** ---- every hypothesis is needed ----
    History cases (the harness refuses all three inputs: it validates the
    operations against the block window before running anything).
    One key, one record, h0 = 1 block. *)
Definition ex_hist (h0 : Z) (ops : list sx) : sx :=
  L [A 0; A 0; A 1; A 2; A 2; A 0; A h0; L [L [A 1]]; L ops].

(** a Put naming a block outside the window: the model leaves the index alone, clause 5 fires *)
Example mon06_needs_put_in_window :
  let inp := ex_hist 1 [L [A 0; A 0; A 5; A 0; A 1]] in
  ~ wf06 inp /\ mon06 inp (run06 inp) = [5].
Proof. vm_compute. split; [discriminate|reflexivity]. Qed.

(** a PopFront without blocks: the monitor's window drifts from the model's, clauses 1 and 7 fire later *)
Example mon06_needs_pop_with_block :
  let inp := ex_hist 0 [L [A 2]; L [A 3]; L [A 0; A 0; A 0; A 0; A 1]] in
  ~ wf06 inp /\ mon06 inp (run06 inp) = [1; 7].
Proof. vm_compute. split; [discriminate|reflexivity]. Qed.

(** an operation kind other than 0..3 (the model treats it as PushBack, the monitor as a no-op) *)
Example mon06_needs_known_kinds :
  let inp := ex_hist 0 [L [A 4]; L [A 0; A 0; A 0; A 0; A 1]] in
  ~ wf06 inp /\ mon06 inp (run06 inp) = [1; 7].
Proof. vm_compute. split; [discriminate|reflexivity]. Qed.

(** non-vacuity: a well-formed history with a collision, a discard, a release *)
Example wf06_hist_example :
  wf06 (L [A 0; A 0; A 2; A 2; A 3; A 7; A 1; L [L [A 1]; L [A 2]; L [A 3]; L [A 1]];
           L [L [A 0; A 0; A 0; A 0; A 1]; L [A 0; A 1; A 0; A 1; A 1]; L [A 3]; L [A 0; A 2; A 1; A 0; A 1];
              L [A 1; A 3]; L [A 0; A 3; A 1; A 5; A 2]; L [A 2]; L [A 1; A 0]]]).
Proof. vm_compute. reflexivity. Qed.

(** Codec cases (the harness refuses all four inputs: keys must have 32
    bytes, attempt < 2^32, offset and size < 2^63).  Same seed, no damage. *)
Definition ex_codec (key : list sx) (att off size : Z) : sx :=
  L [A 1; A 0; A 0; L key; A att; A off; A size; A 7; A 7; A 66].

Example mon06_needs_key_32_bytes :
  let inp := ex_codec (List.repeat (A 7) 31) 0 0 0 in ~ wf06 inp /\ mon06 inp (run06 inp) = [8].
Proof. vm_compute. split; [intros H; destruct (H eq_refl) as [H1 _]; discriminate|reflexivity]. Qed.
Example mon06_needs_attempt_32_bits :
  let inp := ex_codec (List.repeat (A 7) 32) (2 ^ 32) 0 0 in ~ wf06 inp /\ mon06 inp (run06 inp) = [8].
Proof. vm_compute. split; [intros H; destruct (H eq_refl) as (_ & H1 & _); discriminate|reflexivity]. Qed.
Example mon06_needs_offset_64_bits :
  let inp := ex_codec (List.repeat (A 7) 32) 0 (2 ^ 64) 0 in ~ wf06 inp /\ mon06 inp (run06 inp) = [8].
Proof. vm_compute. split; [intros H; destruct (H eq_refl) as (_ & _ & H1 & _); discriminate|reflexivity]. Qed.
Example mon06_needs_size_64_bits :
  let inp := ex_codec (List.repeat (A 7) 32) 0 0 (2 ^ 64) in ~ wf06 inp /\ mon06 inp (run06 inp) = [8].
Proof. vm_compute. split; [intros H; destruct (H eq_refl) as (_ & _ & _ & H1); discriminate|reflexivity]. Qed.

(** non-vacuity: epoch id and blocks-from-last beyond their fields and a key
    "byte" of 300 are harmless *)
Example wf06_codec_example :
  wf06 (L [A 1; A (2 ^ 40); A (2 ^ 20); L (A 300 :: List.repeat (A 7) 31); A 1; A 2; A 3; A 7; A 7; A 66]).
Proof. vm_compute. intros _. repeat split. Qed.

(** ---- the judge: "agree" implies "no violation" ---- *)
Theorem judge06_agree_not_violates : forall inp obs,
  wf06 inp -> judged_agree (judge06 inp obs) = true -> judged_violates (judge06 inp obs) = false.
Proof.
  intros inp obs H. unfold judge06. apply judge_det_agree_not_violates. apply mon06_silent. exact H.
Qed.
