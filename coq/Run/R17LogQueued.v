(** C17, clause 25 for the queued replicator: on the event log of every trace
    of the model, a caller that returned success has, for every object of its
    set, a successful sink.Put by some caller that returned success at a clock
    reading no more than [dur] before the asking caller's start.

    Invariant: (clock) a caller's start time is at most the clock; (cache)
    every insertion time in the existence cache is the clock reading of a
    success event of a caller that put the object into the sink; (per caller)
    inside the base replicator every object of the set is the current one,
    still to come, already put by this caller, or already known as copied;
    [bset] - what will be recorded in the cache - holds only objects current,
    to come or put by this caller. *)
From Coq Require Import List ZArith NArith Bool Arith Lia.
From BBS Require Import Common.Sx Common.ListX Run.MonSilentSx Compose.ExistenceCache Compose.ExistenceCacheProofs
  Compose.Replicators Compose.ReplicatorsProofs Compose.EventLog Run.R17Conc Run.R17LogBase.
Import ListNotations.
Local Open Scope nat_scope.

Definition qpc (t : thread) : Prop :=
  match tpc t with Wait _ _ | Fm _ _ | Unreg _ _ _ | Close _ _ _ | WaitSem | Granted => False | _ => True end.

Definition PutOk (j d : nat) (lg : list sx) : Prop := exists e, In e lg /\ put_ok d e = true /\ lg_caller e = j.

(** Object k was put into the sink by a caller whose success event carries clock reading t0. *)
Definition CWT (k : nat) (t0 : N) (lg : list sx) : Prop :=
  exists e f, In e lg /\ In f lg /\ put_ok k e = true /\ is_succ (lg_caller e) f = true /\ sx_N (sx_nth f 3) = t0.

Lemma PutOk_app j d lg new : PutOk j d lg -> PutOk j d (lg ++ new).
Proof. intros (e & He & P & C). exists e. split; [apply in_or_app; left; exact He|auto]. Qed.

Lemma CWT_app k t0 lg new : CWT k t0 lg -> CWT k t0 (lg ++ new).
Proof.
  intros (e & f & He & Hf & P & S & T). exists e, f.
  split; [apply in_or_app; left; exact He|]. split; [apply in_or_app; left; exact Hf|auto].
Qed.

Section Queued.
  Variable size : nat.
  Variable dur : N.
  Variable sets : list (list nat).

  Definition CW (d st : nat) (lg : list sx) : Prop := copied_within d dur (tstart_of lg st) lg = true.

  Lemma CW_app d st lg new : CW d st lg -> st < length lg -> CW d st (lg ++ new).
  Proof. unfold CW. intros H Hl. rewrite tstart_app by exact Hl. apply copied_within_app. exact H. Qed.

  Lemma CWT_CW k t0 lg st : CWT k t0 lg -> (tstart_of lg st <= t0 + dur)%N -> CW k st lg.
  Proof.
    intros (e & f & He & Hf & P & S & T) Hle. unfold CW. apply (copied_within_intro k dur _ lg e f He Hf P S). rewrite T. exact Hle.
  Qed.

  Definition TQ (j : nat) (tj : thread) (lg : list sx) : Prop :=
    qpc tj /\ todo tj = nth j sets [] /\
    (forall x, In x lg -> is_succ j x = true -> tpc tj = Done 0) /\
    (forall st, started_at j lg st ->
       match tpc tj with
       | Get d rest _ | Put d _ rest _ =>
           forall d', In d' (todo tj) -> d' = d \/ In d' rest \/ PutOk j d' lg \/ CW d' st lg
       | Done c => c = 0%Z -> forall d', In d' (todo tj) -> CW d' st lg
       | _ => True
       end) /\
    (match tpc tj with
     | Get d rest _ | Put d _ rest _ => forall ds, bset tj = Some ds -> forall d', In d' ds -> d' = d \/ In d' rest \/ PutOk j d' lg
     | _ => True
     end).

  Definition allQ (s : cstate) (lg : list sx) : Prop := forall j tj, nth_error (thr s) j = Some tj -> TQ j tj lg.
  Definition clockQ (s : cstate) (lg : list sx) : Prop := forall j st, started_at j lg st -> (tstart_of lg st <= clk s)%N.
  Definition cacheQ (s : cstate) (lg : list sx) : Prop :=
    exists recs, times_in recs (qcache s) /\ forall k t0, In (k, t0) recs -> CWT k t0 lg.
  Definition QI (s : cstate) (lg : list sx) : Prop := allQ s lg /\ clockQ s lg /\ cacheQ s lg.

  Lemma TQ_other j tj lg new : (forall x, In x new -> lg_caller x <> j) -> TQ j tj lg -> TQ j tj (lg ++ new).
  Proof.
    intros Hn (A & B & C & D & E). split; [exact A|]. split; [exact B|]. split; [|split].
    - intros x Hx Sx. apply in_app_or in Hx. destruct Hx as [Hx|Hx]; [exact (C x Hx Sx)|].
      apply is_succ_caller in Sx. exfalso. exact (Hn x Hx Sx).
    - intros st Hst. apply started_app_inv in Hst; [|intros x Hx; apply not_caller_not_start, Hn, Hx].
      pose proof (started_lt _ _ _ Hst) as Hl. specialize (D st Hst).
      destruct (tpc tj); try exact D.
      + intros d' Hd. destruct (D d' Hd) as [F|[F|[F|F]]]; auto using PutOk_app, CW_app.
      + intros d' Hd. destruct (D d' Hd) as [F|[F|[F|F]]]; auto using PutOk_app, CW_app.
      + intros Hc d' Hd. apply CW_app; [apply D; assumption|exact Hl].
    - destruct (tpc tj); try exact E.
      + intros ds Hb d' Hd. destruct (E ds Hb d' Hd) as [F|[F|F]]; auto using PutOk_app.
      + intros ds Hb d' Hd. destruct (E ds Hb d' Hd) as [F|[F|F]]; auto using PutOk_app.
  Qed.

  (** The acting caller i moves from t to t' (not a start). *)
  Lemma TQ_act i t t' lg new :
    TQ i t lg -> (forall x, In x new -> is_start i x = false) ->
    qpc t' -> todo t' = todo t -> tpc t <> Done 0 ->
    (forall x, In x new -> is_succ i x = true -> tpc t' = Done 0) ->
    (forall st, started_at i lg st -> st < length lg ->
       match tpc t' with
       | Get d rest _ | Put d _ rest _ =>
           forall d', In d' (todo t) -> d' = d \/ In d' rest \/ PutOk i d' (lg ++ new) \/ CW d' st (lg ++ new)
       | Done c => c = 0%Z -> forall d', In d' (todo t) -> CW d' st (lg ++ new)
       | _ => True
       end) ->
    (match tpc t' with
     | Get d rest _ | Put d _ rest _ => forall ds, bset t' = Some ds -> forall d', In d' ds -> d' = d \/ In d' rest \/ PutOk i d' (lg ++ new)
     | _ => True
     end) ->
    TQ i t' (lg ++ new).
  Proof.
    intros (A & B & C & D & E) Hns Hl Htd Hnd Hs Hb He. split; [exact Hl|]. split; [rewrite Htd; exact B|]. split; [|split; [|exact He]].
    - intros x Hx Sx. apply in_app_or in Hx. destruct Hx as [Hx|Hx]; [|exact (Hs x Hx Sx)].
      exfalso. apply Hnd. exact (C x Hx Sx).
    - intros st Hst. apply started_app_inv in Hst; [|exact Hns]. rewrite Htd.
      apply Hb; [exact Hst|eapply started_lt; exact Hst].
  Qed.

  Lemma allQ_upd s lg' i t' thr' :
    thr' = upd i t' (thr s) -> TQ i t' lg' ->
    (forall j tj, j <> i -> nth_error (thr s) j = Some tj -> TQ j tj lg') ->
    forall j tj, nth_error thr' j = Some tj -> TQ j tj lg'.
  Proof.
    intros -> Hi Ho j tj Hj. apply nth_error_upd_inv in Hj. destruct Hj as [[-> ->]|[Hne Hj]]; [exact Hi|exact (Ho j tj Hne Hj)].
  Qed.

  Lemma clockQ_app s s' lg new : clockQ s lg -> (clk s <= clk s')%N -> (forall j x, In x new -> is_start j x = false) ->
    clockQ s' (lg ++ new).
  Proof.
    intros Hc Hle Hn j st Hst. apply started_app_inv in Hst; [|intros x Hx; apply Hn, Hx].
    rewrite tstart_app by (eapply started_lt; exact Hst). specialize (Hc j st Hst). lia.
  Qed.

  Lemma cacheQ_app s s' lg new : cacheQ s lg -> times (qcache s') = times (qcache s) -> cacheQ s' (lg ++ new).
  Proof.
    intros (recs & Ti & Hr) E. exists recs. split; [unfold times_in; rewrite E; exact Ti|].
    intros k t0 Hk. apply CWT_app. exact (Hr k t0 Hk).
  Qed.

  (** A digest answered from the cache is known as copied. *)
  Lemma cached_CW s lg st d t0 : cacheQ s lg -> lookup d (times (qcache s)) = Some t0 -> fresh dur (clk s) t0 = true ->
    (tstart_of lg st <= clk s)%N -> CW d st lg.
  Proof.
    intros (recs & Ti & Hr) L F Hle. apply (CWT_CW d t0); [apply Hr, Ti, L|].
    unfold fresh in F. apply N.leb_le in F. lia.
  Qed.

  Lemma queued_log_step s lg e s' : QI s lg -> step (MQueued size dur) s e = Some s' -> QI s' (lg ++ emit (MQueued size dur) s e).
  Proof.
    intros (T & K & Ca) H.
    assert (Oth : forall i new, (forall x, In x new -> lg_caller x = i) -> forall j tj, j <> i -> nth_error (thr s) j = Some tj ->
                  TQ j tj (lg ++ new)).
    { intros i new Hc j tj Hne Hj. apply TQ_other; [|exact (T j tj Hj)]. intros x Hx E. apply Hne. rewrite <- E. apply Hc, Hx. }
    unfold QI, allQ. unfold emit. rewrite H.
    destruct e as [i|i f|i|dt|i alt]; cbn [step] in H; cbn [emit_with].
    - (* EStart *)
      destruct (nth_error (thr s) i) as [t|] eqn:Ht; [|discriminate].
      destruct (tpc t) eqn:Hp; try discriminate. injection H as <-.
      unfold set_pc. rewrite (pc_of_set_thr s i t _ Ht). cbn [tpc arrive].
      split; [|split].
      + eapply allQ_upd; [reflexivity| |apply Oth; callers].
        destruct (T i t Ht) as (A & B & C & D & E). split; [exact Logic.I|]. split; [exact B|]. split; [|split; [|exact Logic.I]].
        * intros x Hx Sx. apply in_app_or in Hx. destruct Hx as [Hx|[<-|[]]]; [|discriminate Sx].
          specialize (C x Hx Sx). rewrite Hp in C. discriminate.
        * intros st Hst. exact Logic.I.
      + intros j st Hst. apply started_new in Hst; [|intros x []]. cbn [clk set_thr].
        destruct Hst as [Hst|(-> & -> & _)]; [rewrite tstart_app by (eapply started_lt; exact Hst); exact (K j st Hst)|].
        rewrite tstart_new. lia.
      + eapply cacheQ_app; [exact Ca|reflexivity].
    - (* ERel *)
      destruct (nth_error (thr s) i) as [t|] eqn:Ht; [|discriminate].
      rewrite (pc_of_at s i t Ht).
      destruct (tpc t) eqn:Hp; try discriminate.
      + (* Get *)
        injection H as <-. unfold set_pc. rewrite (pc_of_set_thr s i t _ Ht). cbn [tpc arrive returned].
        split; [|split; [eapply clockQ_app; [exact K|cbn [clk set_thr]; lia|intros j x [<-|[<-|[]]]; reflexivity]
                        |eapply cacheQ_app; [exact Ca|reflexivity]]].
        eapply allQ_upd; [reflexivity| |apply Oth; callers].
        destruct (T i t Ht) as (_ & _ & _ & D & E). rewrite Hp in D, E.
        apply (TQ_act i t); [exact (T i t Ht)|intros x [<-|[<-|[]]]; reflexivity|exact Logic.I|reflexivity|rewrite Hp; discriminate
                            |intros x [<-|[<-|[]]] Sx; discriminate Sx| |].
        * cbn [tpc]. intros st Hst Hl d' Hd. specialize (D st Hst).
          destruct (D d' Hd) as [F|[F|[F|F]]]; auto using PutOk_app, CW_app.
        * cbn [tpc bset]. intros ds Hb d' Hd. destruct (E ds Hb d' Hd) as [F|[F|F]]; auto using PutOk_app.
      + (* Put *)
        cbn [returned].
        destruct (T i t Ht) as (_ & Td & _ & D & E). rewrite Hp in D, E.
        destruct ((if negb (f =? 0)%Z then f else b) =? 0)%Z eqn:Ec.
        * apply Z.eqb_eq in Ec. rewrite Ec.
          assert (Pd : forall tl, PutOk i d (lg ++ ev_ret i 0 1 d 0 [] (clk s) :: tl)).
          { intros tl. exists (ev_ret i 0 1 d 0 [] (clk s)). split; [apply in_or_app; right; left; reflexivity|].
            split; [apply put_ok_ret|apply caller_ret]. }
          destruct rest as [|d' rest']; injection H as <-.
          -- (* last object copied: record in the cache, return the token, return OK *)
             cbn [finish_base]. set (t' := mkthr (Done 0) (todo t) (cancelled t) None).
             match goal with |- context [pc_of ?sx i] => set (s1 := sx) end.
             assert (P1 : pc_of s1 i = tpc t') by (apply pc_of_at; cbn [s1 thr set_thr]; eapply nth_error_upd_eq; exact Ht).
             rewrite P1. cbn [t' tpc arrive app].
             set (lg' := lg ++ [ev_ret i 0 1 d 0 [] (clk s); ev_done i 0 (clk s)]).
             assert (Mine : forall k, PutOk i k lg' -> CWT k (clk s) lg').
             { intros k (e0 & He0 & Pe & Ce). exists e0, (ev_done i 0 (clk s)). split; [exact He0|].
               split; [apply in_or_app; right; right; left; reflexivity|]. split; [exact Pe|].
               split; [rewrite Ce; apply is_succ_done_true|apply sx_N_of_N]. }
             split; [|split].
             ++ eapply allQ_upd; [reflexivity| |apply Oth; callers].
                apply (TQ_act i t); [exact (T i t Ht)|intros x [<-|[<-|[]]]; reflexivity|exact Logic.I|reflexivity|rewrite Hp; discriminate
                                    |intros x [<-|[<-|[]]] Sx; [discriminate Sx|reflexivity]| |exact Logic.I].
                cbn [t' tpc]. fold lg'. intros st Hst Hl _ x Hx. specialize (D st Hst).
                assert (Hts : (tstart_of lg' st <= clk s + dur)%N).
                { unfold lg'. rewrite tstart_app by exact Hl. specialize (K i st Hst). lia. }
                destruct (D x Hx) as [->|[[]|[F|F]]].
                ** apply (CWT_CW d (clk s)); [apply Mine, Pd|exact Hts].
                ** apply (CWT_CW x (clk s)); [apply Mine, PutOk_app, F|exact Hts].
                ** apply CW_app; assumption.
             ++ eapply clockQ_app; [exact K|cbn; lia|intros j x [<-|[<-|[]]]; reflexivity].
             ++ destruct Ca as (recs & Ti & Hr). unfold cacheQ, s1. cbn [qcache set_thr].
                exists (map (fun d0 => (d0, clk s)) (match bset t with Some ds => ds | None => [] end) ++ recs).
                split; [apply ec_add_times_in; exact Ti|]. fold lg'.
                intros k t0 Hk. apply in_app_or in Hk. destruct Hk as [Hk|Hk]; [|apply CWT_app, Hr, Hk].
                apply in_map_iff in Hk. destruct Hk as (k0 & Ek & Hk0). inversion Ek; subst. apply Mine.
                destruct (bset t) as [ds|] eqn:Eb; [|destruct Hk0].
                destruct (E ds eq_refl k Hk0) as [->|[[]|F]]; [apply Pd|apply PutOk_app, F].
          -- unfold set_pc. erewrite pc_of_set_thr; [|cbn [thr]; exact Ht]. cbn [tpc arrive app].
             split; [|split; [eapply clockQ_app; [exact K|cbn; lia|intros j x [<-|[<-|[]]]; reflexivity]
                             |eapply cacheQ_app; [exact Ca|reflexivity]]].
             eapply allQ_upd; [reflexivity| |apply Oth; callers].
             apply (TQ_act i t); [exact (T i t Ht)|intros x [<-|[<-|[]]]; reflexivity|exact Logic.I|reflexivity|rewrite Hp; discriminate
                                 |intros x [<-|[<-|[]]] Sx; discriminate Sx| |].
             ++ cbn [tpc]. intros st Hst Hl x Hx. specialize (D st Hst).
                destruct (D x Hx) as [->|[[->|F]|[F|F]]]; auto using PutOk_app, CW_app.
             ++ cbn [tpc bset]. intros ds Hb x Hx. destruct (E ds Hb x Hx) as [->|[[->|F]|F]]; auto using PutOk_app.
        * injection H as <-. cbn [finish_base]. rewrite Ec.
          set (c := if negb (f =? 0)%Z then f else b) in *.
          set (t' := mkthr (Done c) (todo t) (cancelled t) None).
          match goal with |- context [pc_of ?sx i] => set (s1 := sx) end.
          assert (P1 : pc_of s1 i = tpc t') by (apply pc_of_at; cbn [s1 thr set_thr]; eapply nth_error_upd_eq; exact Ht).
          rewrite P1. cbn [t' tpc arrive app].
          split; [|split; [eapply clockQ_app; [exact K|cbn; lia|intros j x [<-|[<-|[]]]; reflexivity]
                          |eapply cacheQ_app; [exact Ca|reflexivity]]].
          eapply allQ_upd; [reflexivity| |apply Oth; callers].
          apply (TQ_act i t); [exact (T i t Ht)|intros x [<-|[<-|[]]]; reflexivity|exact Logic.I|reflexivity|rewrite Hp; discriminate| | |exact Logic.I].
          -- intros x [<-|[<-|[]]] Sx; [discriminate Sx|]. apply is_succ_done in Sx. destruct Sx as [_ Sx].
             rewrite Sx in Ec. discriminate.
          -- cbn [t' tpc]. intros st Hst Hl Hc. rewrite Hc in Ec. discriminate.
    - (* ECancel *)
      destruct (nth_error (thr s) i) as [t|] eqn:Ht; [|discriminate].
      destruct (cancelled t); [discriminate|]. injection H as <-. rewrite app_nil_r.
      split; [|split; [exact K|exact Ca]].
      eapply allQ_upd; [reflexivity|exact (T i t Ht)|]. intros j tj _ Hj. exact (T j tj Hj).
    - (* EAdv *)
      injection H as <-. rewrite app_nil_r. split; [exact T|]. split; [|exact Ca].
      intros j st Hst. specialize (K j st Hst). cbn [clk]. lia.
    - (* ETau *)
      destruct (nth_error (thr s) i) as [t|] eqn:Ht; [|discriminate].
      pose proof (T i t Ht) as Ti. destruct Ti as (Lt & Td & _ & _ & _). unfold qpc in Lt.
      destruct (tpc t) eqn:Hp; try contradiction; destruct alt; try discriminate.
      + (* Idle: consult the existence cache *)
        destruct (ec_remove_existing dur (clk s) (todo t) (qcache s)) as [mm c1] eqn:Er.
        destruct (ec_remove_existing_spec _ _ _ _ _ _ Er) as (Et & Sub & Hit).
        injection H as <-. cbn [thr].
        set (t' := mkthr (match mm with [] => Done 0 | _ :: _ => WaitTok end) (todo t) (cancelled t) (bset t)).
        rewrite (pc_of_at _ i t'); [|cbn [thr set_pc set_thr]; eapply nth_error_upd_eq; exact Ht].
        split; [|split; [eapply clockQ_app; [exact K|cbn; lia|intros j x Hx; eapply arrive_not_start; exact Hx]
                        |eapply cacheQ_app; [exact Ca|exact Et]]].
        eapply allQ_upd; [reflexivity| |apply Oth; intros x Hx; eapply arrive_caller; exact Hx].
        apply (TQ_act i t); [exact (T i t Ht)|intros x Hx; eapply arrive_not_start; exact Hx|cbn [t']; unfold qpc; cbn [tpc]; destruct mm; exact Logic.I
                            |reflexivity|rewrite Hp; discriminate|intros x Hx Sx; eapply arrive_succ in Sx; [apply Sx|exact Hx]| |].
        * cbn [t' tpc]. destruct mm as [|d0 mm']; [|exact (fun _ _ _ => Logic.I)].
          intros st Hst Hl _ d' Hd. apply CW_app; [|exact Hl].
          destruct (Hit d' Hd (fun X => X)) as (t0 & L0 & F0).
          eapply cached_CW; [exact Ca|exact L0|exact F0|exact (K i st Hst)].
        * cbn [t' tpc]. destruct mm; exact Logic.I.
      + (* WaitTok, cancelled *)
        destruct (cancelled t); [|discriminate]. injection H as <-.
        unfold set_pc. rewrite (pc_of_set_thr s i t _ Ht). cbn [tpc arrive].
        split; [|split; [eapply clockQ_app; [exact K|cbn; lia|intros j x [<-|[]]; reflexivity]
                        |eapply cacheQ_app; [exact Ca|reflexivity]]].
        eapply allQ_upd; [reflexivity| |apply Oth; callers].
        apply (TQ_act i t); [exact (T i t Ht)|intros x [<-|[]]; reflexivity|exact Logic.I|reflexivity|rewrite Hp; discriminate
                            |intros x [<-|[]] Sx; nosucc Sx| |exact Logic.I].
        cbn [tpc]. intros st _ _ X1. discriminate X1.
      + (* WaitTok takes the token *)
        destruct (tok s); [|discriminate].
        destruct (ec_remove_existing dur (clk s) (todo t) (qcache s)) as [mm c1] eqn:Er.
        destruct (ec_remove_existing_spec _ _ _ _ _ _ Er) as (Et & Sub & Hit).
        injection H as <-. unfold begin_base.
        assert (Cached : forall st d', started_at i lg st -> In d' (todo t) -> ~ In d' mm -> CW d' st lg).
        { intros st d' Hst Hd Hn. destruct (Hit d' Hd Hn) as (t0 & L0 & F0).
          eapply cached_CW; [exact Ca|exact L0|exact F0|exact (K i st Hst)]. }
        destruct mm as [|d rest].
        * cbn [finish_base]. rewrite ?Z.eqb_refl.
          set (t' := mkthr (Done 0) (todo t) (cancelled t) None).
          match goal with |- context [pc_of ?sx i] => set (s1 := sx) end.
          assert (E1 : thr s1 = upd i t' (thr s)) by (cbn [s1 thr set_thr note_max]; apply upd_upd).
          assert (P1 : pc_of s1 i = tpc t') by (apply pc_of_at; rewrite E1; eapply nth_error_upd_eq; exact Ht).
          rewrite P1. cbn [t' tpc arrive].
          split; [|split; [eapply clockQ_app; [exact K|cbn; lia|intros j x [<-|[]]; reflexivity]
                          |eapply cacheQ_app; [exact Ca|cbn [s1 qcache set_thr note_max bset ec_add]; exact Et]]].
          eapply allQ_upd; [exact E1| |apply Oth; callers].
          apply (TQ_act i t); [exact (T i t Ht)|intros x [<-|[]]; reflexivity|exact Logic.I|reflexivity|rewrite Hp; discriminate
                              |intros x [<-|[]] Sx; reflexivity| |exact Logic.I].
          cbn [t' tpc]. intros st Hst Hl _ d' Hd. apply CW_app; [|exact Hl]. apply Cached; [exact Hst|exact Hd|intros []].
        * set (t' := mkthr (Get d rest 0) (todo t) (cancelled t) (Some (d :: rest))).
          match goal with |- context [pc_of ?sx i] => set (s1 := sx) end.
          assert (E1 : thr s1 = upd i t' (thr s)) by (cbn [s1 thr set_thr note_max]; rewrite upd_upd; reflexivity).
          assert (P1 : pc_of s1 i = tpc t') by (apply pc_of_at; rewrite E1; eapply nth_error_upd_eq; exact Ht).
          rewrite P1. cbn [t' tpc arrive].
          split; [|split; [eapply clockQ_app; [exact K|cbn; lia|intros j x [<-|[]]; reflexivity]
                          |eapply cacheQ_app; [exact Ca|cbn [s1 qcache set_thr note_max]; exact Et]]].
          eapply allQ_upd; [exact E1| |apply Oth; callers].
          apply (TQ_act i t); [exact (T i t Ht)|intros x [<-|[]]; reflexivity|exact Logic.I|reflexivity|rewrite Hp; discriminate
                              |intros x [<-|[]] Sx; discriminate Sx| |].
          -- cbn [t' tpc]. intros st Hst Hl d' Hd.
             destruct (in_dec Nat.eq_dec d' (d :: rest)) as [[<-|Hin]|Hn]; [left; reflexivity|right; left; exact Hin|].
             right. right. right. apply CW_app; [|exact Hl]. apply Cached; assumption.
          -- cbn [t' tpc bset]. intros ds Hb d' Hd. injection Hb as <-. destruct Hd as [<-|Hd]; auto.
  Qed.

  Lemma QI_init source sink : QI (init_state sets source sink) [].
  Proof.
    split; [|split].
    - intros j tj Hj. apply init_thread_at in Hj. subst tj.
      split; [exact Logic.I|]. split; [reflexivity|]. split; [intros x []|]. split; [intros st Hst; exact Logic.I|exact Logic.I].
    - intros j st Hst. discriminate Hst.
    - exists []. split; [intros k t0 L; discriminate L|intros k t0 []].
  Qed.

  (** Clause 25 on the log of every trace of the queued replicator. *)
  Theorem queued_clause25 source sink tr s : run (MQueued size dur) (init_state sets source sink) tr = Some s ->
    clause25_ok dur sets (tlog (MQueued size dur) (init_state sets source sink) tr).
  Proof.
    intros H. pose proof (tlog_inv (MQueued size dur) QI _ (QI_init source sink) queued_log_step tr s H) as (T & _ & _).
    intros i p st Hi Hs Hst.
    destruct (nth_error (thr s) i) as [t|] eqn:Ht.
    2: { apply nth_error_None in Ht. rewrite (run_length _ _ _ _ H), init_length in Ht. lia. }
    destruct (T i t Ht) as (_ & Td & C & D & _).
    apply iw_some_in in Hs. destruct Hs as (x & Hx & Sx). specialize (C x Hx Sx). specialize (D st Hst). rewrite C in D.
    apply forallb_forall. intros d Hd. apply D; [reflexivity|rewrite Td; exact Hd].
  Qed.
End Queued.
