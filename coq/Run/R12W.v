(** C12W: sub-check of C12 — the WIRING of the sharding backend in
    pkg/blobstore/configuration/new_blob_access.go.  The sharding composite is built
    from a configuration message (a map from shard key to backend and weight) by
    the real NewBlobAccessFromConfiguration; every shard's backend is an error
    backend whose message carries that shard's key, so one Get per digest shows
    both the shard the selector chose (the "Shard <key>:" annotation) and the
    backend that was actually reached.

    Input: (2 cfg digests), cfg and digests as in C12's blob-access cases.
    Observation: ((selected reached1 reached2 reached3) per digest) - three constructions from
    the same message -, indices into cfg; (-3) when the
    constructor rejects the configuration. *)
From Coq Require Import List ZArith NArith Bool.
From BBS Require Import Common.Sx Sharding.Rendezvous Run.R12.
Import ListNotations.

Definition run12W (inp : sx) : sx :=
  match new_selector (cfg_of (sx_nth inp 1)) with
  | None => L [A (-3)]
  | Some sel =>
      L (map (fun d => let i := get_shard sel (sx_N (sx_nth d 0)) in L [of_nat i; of_nat i; of_nat i; of_nat i])
             (sx_list (sx_nth inp 2)))
  end.

(** the monitor: the backend reached is the backend of the shard the error names,
    and it is one of the configured shards *)
Definition mon12W (inp obs : sx) : list Z :=
  if is_reject obs then [] else
  let n := length (sx_list (sx_nth inp 1)) in
  let same (a b : sx) := Nat.eqb (sx_nat a) (sx_nat b) && Z.eqb (sx_Z a) (sx_Z b) in
  (* 6: the backend reached is the backend of the shard the error names, one of the configured ones *)
  (if forallb (fun o => same (sx_nth o 0) (sx_nth o 1)
                        && Nat.ltb (sx_nat (sx_nth o 0)) n && Z.leb 0 (sx_Z (sx_nth o 0))) (sx_list obs)
   then [] else [6]) ++
  (* 7: three constructions from the same configuration message route a digest to the same backend
        (the iteration order of the shards map is a listing order) *)
  (if forallb (fun o => same (sx_nth o 1) (sx_nth o 2) && same (sx_nth o 1) (sx_nth o 3)) (sx_list obs)
   then [] else [7]).

Definition judge12W : sx -> sx -> sx := judge_det run12W mon12W.
