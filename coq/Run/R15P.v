(** C15P: sub-check of C15 — many stream clones of one chunk-reader buffer
    consumed in parallel by real goroutines (harness/c15p.go).  What each
    consumer must observe does not depend on the interleaving:

    Input: (n chunk (method ...)); method = (0) ToByteSlice | (1) IntoWriter |
      (2) ToChunkReader to the end | (3 k) ToChunkReader, k Reads, Close | (4) Discard.
    Observation: (((code len mismatch) per consumer) closed panics); code -1 = io.EOF;
      mismatch = index of the first byte differing from the content, -1 if none.

    Every consumer that reads to the end gets the whole content; one that
    closes after k reads gets the first min(n, k*chunk) bytes (every clone
    negotiates the chunk size [chunk]; the source hands out chunks of that
    size); the source is closed exactly once; nobody panics or hangs. *)
From Coq Require Import List ZArith Bool.
From BBS Require Import Common.Sx.
Import ListNotations.
Open Scope Z_scope.

Definition nchunks (n chunk : Z) : Z := (n + chunk - 1) / chunk.

Definition expect (n chunk : Z) (m : sx) : sx :=
  let z := sx_Z (sx_nth m 0) in
  if (z =? 0) || (z =? 1) then L [A 0; A n; A (-1)]
  else if z =? 2 then L [A (-1); A n; A (-1)]
  else if z =? 3 then
    let k := sx_Z (sx_nth m 1) in
    if nchunks n chunk <? k then L [A (-1); A n; A (-1)]
    else L [A 0; A (Z.min n (k * chunk)); A (-1)]
  else L [A 0; A 0; A (-1)].

Definition run15P (inp : sx) : sx :=
  let n := sx_Z (sx_nth inp 0) in
  let chunk := sx_Z (sx_nth inp 1) in
  L [L (map (expect n chunk) (sx_list (sx_nth inp 2))); A 1; A 0].

(** the monitor: the property, on the observation alone *)
Definition reads_all (m : sx) : bool :=
  let z := sx_Z (sx_nth m 0) in (z =? 0) || (z =? 1) || (z =? 2).
Definition ok_code (m : sx) (code : Z) : bool :=
  let z := sx_Z (sx_nth m 0) in
  if z =? 2 then code =? -1
  else if z =? 3 then (code =? 0) || (code =? -1)
  else code =? 0.

Fixpoint mon_consumers (n : Z) (ms os : list sx) : list Z :=
  match ms, os with
  | m :: ms', o :: os' =>
      let code := sx_Z (sx_nth o 0) in
      let len := sx_Z (sx_nth o 1) in
      let mism := sx_Z (sx_nth o 2) in
      (* 2: a consumer that reads to the end gets the whole content and no error *)
      (if reads_all m && negb ((len =? n) && (mism =? -1) && ok_code m code) then [2] else []) ++
      (* 3: any consumer: what it received is a prefix of the content; a failure code only with a reason *)
      (if negb ((mism =? -1) && (len <=? n) && ok_code m code) then [3] else []) ++
      mon_consumers n ms' os'
  | [], [] => []
  | _, _ => [5]
  end.

Definition is_marker (obs : sx) : bool := match obs with L [A z] => z <? 0 | _ => false end.

Definition mon15P (inp obs : sx) : list Z :=
  (* 1: a consumer never returned (deadlock) *)
  if is_marker obs then [1] else
  let n := sx_Z (sx_nth inp 0) in
  mon_consumers n (sx_list (sx_nth inp 2)) (sx_list (sx_nth obs 0)) ++
  (* 4: the source is closed exactly once *)
  (if sx_Z (sx_nth obs 1) =? 1 then [] else [4]) ++
  (* 6: no panic *)
  (if sx_Z (sx_nth obs 2) =? 0 then [] else [6]).

Definition judge15P : sx -> sx -> sx := judge_det run15P mon15P.
