(** C07, "the monitor is silent on the model" — part 7: the details of Put,
    finalizer and PushBack operations that the coverage clauses need (which
    upload slot, which token, which result), and that no other operation
    touches the executor's counters. *)
From Coq Require Import List NArith ZArith Bool Arith Lia.
From BBS Require Import Common.Sx Persist.PBL Persist.PBLProofs Persist.Syncer Persist.SyncerProofs
  Persist.LiveActs Persist.LiveCover Persist.LiveRelease Run.R07 Run.R07MonBase Run.R07MonOps.
Import ListNotations.
Local Open Scope nat_scope.

Definition cnt_same (x x1 : xst) : Prop := x_blk x1 = x_blk x /\ x_nalloc x1 = x_nalloc x.

Definition det1 (cfg : config) (op : sx) (x x1 : xst) (res : sx) : Prop :=
  (x1 = x /\ tag res = 0%Z) \/
  exists idx,
    let p := s_pbl (x_sys x) in
    idx < length (blocks p) /\
    step cfg (x_sys x) (EPutStart idx (sx_Z (sx_nth op 2))) = Some (Ok (x_sys x1)) /\
    x_blk x1 = x_blk x ++ [if sx_bool (sx_nth op 4) then None else Some (sx_Z (sx_nth op 3))] /\
    x_nalloc x1 = x_nalloc x /\
    res = L [A 1; A (if closedForWriting p then (-1)%Z else
                     match nth_error (blocks p) idx with Some b => fst (b_loc b) | None => (-1)%Z end)].

Definition det2 (cfg : config) (op : sx) (x x1 : xst) (res : sx) : Prop :=
  (x1 = x /\ tag res <> 0%Z) \/
  exists tok size blk seed p' fr,
    let k := sx_nat (sx_nth op 1) in
    let p := s_pbl (x_sys x) in
    nth_error (s_uploads (x_sys x)) k = Some (Some (tok, size)) /\ nth_error (x_blk x) k = Some blk /\
    put_finalize tok blk size seed p = Ok (p', fr) /\
    step cfg (x_sys x) (EFinalize k blk seed) = Some (Ok (x_sys x1)) /\ cnt_same x x1 /\
    match fr with
    | FinOk off => exists e bfl sd,
        index_to_ref (match tok with PutAt abs => abs - totalReleased p' | PutClosed => 0 end) p' = Ok ((e, bfl), sd)
        /\ res = L [A 0; A off; of_N e; of_N bfl; of_N sd]
    | _ => tag res <> 0%Z
    end.

Definition det4 (cfg : config) (op : sx) (x x1 : xst) (res : sx) : Prop :=
  (x1 = x /\ tag res <> 0%Z) \/
  (let l : loc := ((10000 + 100 * Z.of_nat (x_nalloc x))%Z, 100%Z) in
   closedForWriting (s_pbl (x_sys x)) = false /\
   step cfg (x_sys x) (EPushBack (Some l)) = Some (Ok (x_sys x1)) /\
   x_blk x1 = x_blk x /\ x_nalloc x1 = S (x_nalloc x) /\ res = L [A 0; A (fst l)]).

Lemma d_lift_env_cnt cfg x e r no x1 res : d_lift x (env_step cfg x e) r no = Ok (x1, res) -> cnt_same x x1.
Proof.
  unfold d_lift. destruct (env_step cfg x e) as [[x'|]|] eqn:E; intros H; inversion H; subst.
  - destruct (env_step_ok _ _ _ _ E) as [_ [[H1 [_ H3]] _]]. split; auto.
  - split; reflexivity.
Qed.

Lemma d_lift_thr_cnt cfg x t a r no x1 res : d_lift x (tstep cfg t a x) r no = Ok (x1, res) -> cnt_same x x1.
Proof.
  unfold d_lift. destruct (tstep cfg t a x) as [[x'|]|] eqn:E; intros H; inversion H; subst.
  - destruct (tstep_ok _ _ _ _ _ E) as [_ [[H1 [_ H3]] _]]. split; auto.
  - split; reflexivity.
Qed.

Lemma do_op_detail cfg op x x1 res : do_op cfg op x = Ok (x1, res) ->
  (tag op = 1%Z -> det1 cfg op x x1 res) /\
  (tag op = 2%Z -> det2 cfg op x x1 res) /\
  (tag op = 4%Z -> det4 cfg op x x1 res) /\
  (tag op <> 1%Z -> tag op <> 2%Z -> tag op <> 4%Z -> cnt_same x x1).
Proof.
  intros H.
  destruct (do_op_cases cfg op x) as [[Hc E]|[[Hc E]|[[Hc E]|[[Hc E]|[[Hc E]|[[Hc E]|[[Hc E]|[[Hc E]|
    [[Hc E]|[[Hc E]|[[Hc E]|[Hc E]]]]]]]]]]]]; rewrite E in H; clear E;
    (split; [intros Hc'|split; [intros Hc'|split; [intros Hc'|intros N1 N2 N4]]]); try lia; try congruence.
  - (* Put *)
    unfold op1 in H. cbv zeta in H.
    destruct (Nat.ltb_spec (sx_nat (sx_nth op 1)) (length (blocks (s_pbl (x_sys x))))) as [Hlt|Hge].
    + destruct (env_step cfg x _) as [[x'|]|] eqn:Ee; [|discriminate|].
      * destruct (env_step_ok _ _ _ _ Ee) as [Hs [[H1 [_ H3]] _]].
        inversion H; subst. right. eexists. cbn. splits; [|exact Hs|rewrite H3; reflexivity|exact H1|reflexivity]. lia.
      * inversion H; subst. left. auto.
    + inversion H; subst. left. auto.
  - (* finalizer *)
    unfold op2 in H. cbv zeta in H.
    destruct (nth_error (s_uploads (x_sys x)) _) as [[[tok size]|]|] eqn:Eu;
      try (inversion H; subst; left; split; [reflexivity|discriminate]).
    destruct (nth_error (x_blk x) _) as [blk|] eqn:Eb;
      try (inversion H; subst; left; split; [reflexivity|discriminate]).
    destruct (put_finalize _ _ _ _ _) as [[p' fr]|] eqn:Ef; [|discriminate].
    destruct (env_step cfg x _) as [[x'|]|] eqn:Ee; [|discriminate|inversion H; subst; left; split; [reflexivity|discriminate]].
    destruct (env_step_ok _ _ _ _ Ee) as [Hs [[H1 [_ H3]] _]].
    right. exists tok, size, blk, (1000 + x_nseed x)%N, p', fr. cbv zeta.
    destruct fr as [off| | |].
    + destruct (index_to_ref _ p') as [[[e bfl] sd]|] eqn:Er; [|discriminate].
      inversion H; subst. cbn. splits; auto; try (split; auto). eexists _, _, _. split; reflexivity.
    + inversion H; subst. cbn. splits; auto; try (split; auto). discriminate.
    + inversion H; subst. cbn. splits; auto; try (split; auto). discriminate.
    + inversion H; subst. cbn. splits; auto; try (split; auto). discriminate.
  - unfold op3 in H. eapply d_lift_env_cnt; eauto.
  - (* PushBack *)
    unfold op4 in H. cbv zeta in H.
    destruct (closedForWriting (s_pbl (x_sys x))) eqn:Ec.
    + unfold push_back in H. rewrite Ec in H. cbn in H. inversion H; subst. left. split; [reflexivity|discriminate].
    + destruct (sx_bool (sx_nth op 1)).
      * unfold push_back in H at 1. rewrite Ec in H. cbn [snd] in H.
        unfold env_step in H. cbn [step] in H. inversion H; subst. right. cbn. splits; auto.
      * unfold push_back in H. rewrite Ec in H. cbn in H. inversion H; subst. left. split; [reflexivity|discriminate].
  - unfold op5 in H. cbv zeta in H. destruct (is_syncing (x_sys x)).
    + eapply d_lift_thr_cnt; eauto.
    + inversion H; subst. split; reflexivity.
  - unfold op6 in H. cbv zeta in H. destruct (writer (x_sys x)).
    + eapply d_lift_thr_cnt; eauto.
    + inversion H; subst. split; reflexivity.
  - unfold op7 in H. eapply d_lift_env_cnt; eauto.
  - unfold op8 in H. cbv zeta in H. destruct (Z.eqb _ 0).
    + destruct (s_r (x_sys x)) as [| |[| | | |dl]]; try (inversion H; subst; split; reflexivity).
      destruct (due dl (x_sys x)); [eapply d_lift_thr_cnt; eauto|inversion H; subst; split; reflexivity].
    + destruct (s_p (x_sys x)) as [| | |dl| | | |? ? dl|? [| | | |dl]|]; try (inversion H; subst; split; reflexivity);
        (destruct (due dl (x_sys x)); [eapply d_lift_thr_cnt; eauto|inversion H; subst; split; reflexivity]).
  - unfold op9 in H. eapply d_lift_env_cnt; eauto.
  - unfold op10 in H. destruct (ref_to_index _ _ _) as [[[i sd]|]|]; inversion H; subst; split; reflexivity.
  - unfold op11 in H. destruct (index_to_ref _ _) as [[[e bfl] sd]|]; inversion H; subst; split; reflexivity.
  - inversion H; subst. split; reflexivity.
Qed.
