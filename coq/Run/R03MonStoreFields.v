(** C03, monitor versus model — the monitor's record of the block list, of the current op, of the
    uploads' Puts and of the acknowledged copies, as equations by entry tag (companion of
    Run/R03MonFields.v). *)
From BBS Require Import Common.Sx Persist.PBL Persist.Syncer Persist.Shutdown Run.R03 Run.R03MonFields.
Open Scope Z_scope.

Definition res_code (x : sx) : Z := sx_Z (sx_nth (sx_nth x 2) 1).
Definition op_slot (m : mst) : nat := sx_nat (sx_nth (m_op m) 1).
Definition is_upres (m : mst) (x : sx) : bool :=
  (tag x =? 30) && (tag (sx_nth x 2) =? 0) && is_upload_op (m_op m).

Lemma mon_entry_store_fields cfg objs ops m x :
  m_live (mon_entry cfg objs ops m x) =
    (if tag x =? 0 then firstn (sx_nat (sx_nth x 1)) (state_locs (sx_nth x 2))
     else if tag x =? 1 then (if sx_Z (sx_nth x 1) =? 0 then m_live m ++ [sx_Z (sx_nth x 2)] else m_live m)
     else if tag x =? 2 then tl (m_live m) else m_live m) /\
  m_op (mon_entry cfg objs ops m x) =
    (if tag x =? 19 then (if sx_Z (sx_nth x 1) <? 0 then L [] else nth (sx_nat (sx_nth x 1)) ops (L []))
     else m_op m) /\
  m_upl (mon_entry cfg objs ops m x) =
    (if tag x =? 3
     then (if tag (m_op m) =? 1
           then (op_slot m, (sx_nat (sx_nth (m_op m) 2), nth_error (m_live m) (sx_nat (sx_nth x 1))))
                :: remove_nat (op_slot m) (m_upl m)
           else m_upl m)
     else if is_upres m x then remove_nat (op_slot m) (m_upl m) else m_upl m) /\
  m_copies (mon_entry cfg objs ops m x) =
    (if tag x =? 2
     then match m_live m with
          | l :: _ => if Nat.eqb (length (m_live m)) (full_count cfg)
                      then filter (fun c => negb (Z.eqb (c_loc c) l)) (m_copies m) else m_copies m
          | [] => m_copies m
          end
     else if is_upres m x
     then (if (res_code x =? 0) && negb (m_final m)
           then match assoc_nat (op_slot m) (m_upl m) with
                | Some (k, Some loc) => mkCopy k loc false :: m_copies m
                | _ => m_copies m
                end
           else m_copies m)
     else m_copies m).
Proof.
  unfold mon_entry, is_upres, res_code, op_slot. generalize (tag x) as z. intro z.
  ztag z.
  all: cbv beta iota zeta.
  all: try (brk; prj; repeat split; reflexivity).
  all: generalize (tag (sx_nth x 2)) as z2; intro z2; destruct z2 as [|[q|[q|q|]|]|];
    brk; prj; repeat split; reflexivity.
Qed.
