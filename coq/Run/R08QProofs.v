(** The C08Q monitor never fires on the model: for every configuration with
    0 <= old, 0 <= current, 1 <= new and EVERY schedule,
    [mon08Q inp (run08Q inp) = []]. *)
From Coq Require Import List ZArith Bool Lia.
From BBS Require Import Common.Sx Store.Quarantine Store.QuarantineProofs Run.R08Q.
Import ListNotations.
Open Scope Z_scope.

Ltac rsplit := repeat match goal with |- _ /\ _ => split end.

(** ** Snapshots *)
Lemma vvec_length st n i : length (vvec st n i) = n.
Proof. revert i. induction n as [|n IH]; intro i; cbn [vvec length]; auto. Qed.

Lemma snap_length st : Z.of_nat (length (snap st)) = live st.
Proof. unfold snap, live. rewrite vvec_length. reflexivity. Qed.

Lemma scan_vvec st : Inv st -> is_raise (pcs st) = false ->
  forall n i, 0 <= i -> scan (rel st + i) (maxdet st) (vvec st n i) = [].
Proof.
  intros HI Hr. pose proof (i_lo _ HI) as Hlo. rewrite Hr in Hlo.
  pose proof (i_hi _ HI) as Hhi. pose proof (i_det _ HI) as Hd.
  induction n as [|n IH]; intros i Hi; cbn [vvec scan]; [reflexivity|].
  replace (rel st + i + 1) with (rel st + (i + 1)) by lia. rewrite IH by lia. rewrite app_nil_r.
  unfold hidden. destruct (tbr st <? rel st) eqn:E; [apply Z.ltb_lt in E; lia|].
  destruct (i <? tbr st - rel st) eqn:E2; cbn [negb].
  - apply Z.ltb_lt in E2. destruct (maxdet st <=? rel st + i) eqn:E3; [apply Z.leb_le in E3; lia|reflexivity].
  - apply Z.ltb_ge in E2. destruct (rel st + i <? maxdet st) eqn:E3; [apply Z.ltb_lt in E3; lia|reflexivity].
Qed.

Lemma scan_snap st : Inv st -> is_raise (pcs st) = false -> scan (rel st) (maxdet st) (snap st) = [].
Proof.
  intros HI Hr. unfold snap. replace (rel st) with (rel st + 0) at 1 by lia. apply scan_vvec; auto. lia.
Qed.

(** ** The monitor's reader table against the model's *)
Definition simr (st : qst) (tg : list (option Z)) : Prop :=
  length tg = length (rdrs st)
  /\ forall r rd, nth_error (rdrs st) r = Some rd -> r_open rd = true ->
       nth_error tg r = Some (Some (r_tgt rd)).

Lemma nth_upd_rdr l : forall n m rd, nth_error (upd_rdr l n) m = Some rd -> r_open rd = true ->
  nth_error l m = Some rd.
Proof.
  induction l as [|x t IH]; intros [|n] [|m] rd H Ho; cbn [upd_rdr nth_error] in *; auto.
  - injection H as <-. discriminate.
  - eapply IH; eauto.
Qed.

Lemma upd_rdr_length l : forall n, length (upd_rdr l n) = length l.
Proof. induction l as [|x t IH]; intros [|n]; cbn [upd_rdr length]; auto. Qed.

Lemma simr_detect st tg r : simr st tg -> simr (detect st r) tg.
Proof.
  intros [Hl Hn]. unfold detect.
  destruct (nth_error (rdrs st) r) as [rd|]; [|split; auto].
  destruct (r_open rd); [|split; auto].
  destruct (r_bad rd); split; flds; rewrite ?upd_rdr_length; auto;
    intros r0 rd0 H Ho; apply Hn; auto; eapply nth_upd_rdr; eauto.
Qed.

Lemma raise_D_detect st tg r : simr st tg ->
  raise_D (maxdet st) tg r (fst (detect_obs st r)) = maxdet (detect st r).
Proof.
  intros [Hl Hn]. unfold raise_D, detect_obs, detect.
  destruct (nth_error (rdrs st) r) as [rd|] eqn:En; [|reflexivity].
  destruct (r_open rd) eqn:Eo; [|reflexivity].
  destruct (r_bad rd); cbn [fst]; flds; [|reflexivity].
  rewrite (Hn _ _ En Eo). reflexivity.
Qed.

Lemma detect_frame st r :
  pcs (detect st r) = pcs st /\ rel (detect st r) = rel st /\ blocks (detect st r) = blocks st
  /\ puts (detect st r) = puts st /\ pstart (detect st r) = pstart st
  /\ cur (detect st r) = cur st /\ new (detect st r) = new st.
Proof.
  unfold detect. destruct (nth_error (rdrs st) r) as [rd|]; [|rsplit; reflexivity].
  destruct (r_open rd); [|rsplit; reflexivity]. destruct (r_bad rd); flds; rsplit; reflexivity.
Qed.

(** [pend]: the writer list against the list when the Put() was entered. *)
Definition pend (st : qst) (base : list Z) : Prop :=
  match pcs st with
  | Idle => True
  | PDone code idx => puts st = if code =? 0 then base ++ [rel st + idx] else base
  | _ => puts st = base
  end.

Lemma fire_spec c tg base : forall rs st st' ds,
  Inv st -> Cap c st -> simr st tg -> pend st base -> fire st rs = (st', ds) ->
  Inv st' /\ Cap c st' /\ simr st' tg /\ pend st' base
  /\ pcs st' = pcs st /\ rel st' = rel st /\ blocks st' = blocks st /\ pstart st' = pstart st
  /\ upd_D (maxdet st) tg rs ds = maxdet st' /\ cur st' = cur st /\ new st' = new st.
Proof.
  induction rs as [|r t IH]; intros st st' ds HI HC Hs Hp H; cbn [fire] in H.
  - injection H as <- <-. rsplit; auto; apply Hs.
  - destruct (fire (detect st r) t) as [st1 os] eqn:Ef. injection H as <- <-.
    destruct (detect_frame st r) as (F1 & F2 & F3 & F4 & F5 & F6 & F7).
    assert (HC' : Cap c (detect st r)) by (apply cap_detect, HC).
    assert (Hp' : pend (detect st r) base).
    { unfold pend in *. rewrite F1, F2, F4. exact Hp. }
    specialize (IH _ _ _ (inv_detect st r HI) HC' (simr_detect st tg r Hs) Hp' Ef).
    destruct IH as (A1 & A2 & A3 & A4 & A5 & A6 & A7 & A8 & A9 & A10 & A11).
    rsplit; auto; try congruence; try apply A3.
    cbn [upd_D fst]. rewrite raise_D_detect by exact Hs. exact A9.
Qed.

(** ** One Put-thread step, seen from the monitor *)
Lemma put_step_frame c st : rdrs (put_step c st) = rdrs st /\ maxdet (put_step c st) = maxdet st
  /\ pstart (put_step c st) = pstart st.
Proof.
  unfold put_step. destruct (pcs st); flds; auto.
  - destruct (q_bs c <? sz); flds; auto.
  - destruct (rel st <? snap); flds; auto. destruct (blocks st); flds; auto.
    destruct (0 <? old st); [|destruct (0 <? cur st)]; flds; auto.
  - destruct (grow_new c (cur st) (new st)); flds; auto.
  - destruct (has_space c st (old st + cur st) sz) as [[|]|]; flds; auto.
    destruct (q_new c <? new st); flds; auto.
  - destruct (grow_cur c (cur st)); [|destruct (q_old c <? old st + 1)]; flds; auto.
  - destruct (blocks st); flds; auto.
  - destruct (alloc_loop (alloc_fuel st) c st sz) as [st1 i] eqn:Eal.
    apply alloc_loop_frame in Eal. destruct Eal as (a & j & ->).
    destruct (i <? 0); flds; auto.
Qed.

Lemma simr_put_step c st tg : simr st tg -> simr (put_step c st) tg.
Proof. unfold simr. destruct (put_step_frame c st) as (-> & _). auto. Qed.

Lemma pend_put_step c st base : pcs st <> Idle -> pend st base -> pend (put_step c st) base.
Proof.
  unfold pend, put_step. intros Hni. destruct (pcs st) eqn:Epc; flds; auto; try congruence.
  - destruct (q_bs c <? sz); flds; auto.
  - destruct (rel st <? snap); flds; auto. destruct (blocks st); flds; auto.
    destruct (0 <? old st); [|destruct (0 <? cur st)]; flds; rewrite ?Epc; auto.
  - destruct (grow_new c (cur st) (new st)); flds; rewrite ?Epc; auto.
  - destruct (has_space c st (old st + cur st) sz) as [[|]|]; flds; auto.
    destruct (q_new c <? new st); flds; rewrite ?Epc; auto.
  - destruct (grow_cur c (cur st)); [|destruct (q_old c <? old st + 1)]; flds; auto.
  - destruct (blocks st); flds; auto.
  - destruct (alloc_loop (alloc_fuel st) c st sz) as [st1 i] eqn:Eal.
    apply alloc_loop_frame in Eal. destruct Eal as (a & j & ->).
    destruct (i <? 0) eqn:Ei; flds.
    + intros ->. apply Z.ltb_lt in Ei. destruct (i =? 0) eqn:E0; [apply Z.eqb_eq in E0; lia|reflexivity].
    + intros ->. reflexivity.
  - rewrite Epc. auto.
Qed.

(** What a step at a block-list call does to the release counter. *)
Lemma call_step c st kind : wfq c -> Inv st -> Cap c st -> next_call c st = Some kind ->
  rel (put_step c st) = (if kind =? 0 then rel st + 1 else rel st)
  /\ is_raise (pcs st) = false
  /\ (kind = 0 -> maxdet st <= rel st -> cap c + 1 <= live st).
Proof.
  intros Hw HI HC. unfold next_call, put_step.
  destruct (pcs st) eqn:Epc; try discriminate; flds.
  - (* PCatch *)
    destruct (rel st <? snap) eqn:Elt; [|discriminate]. intros H. injection H as <-.
    apply Z.ltb_lt in Elt.
    pose proof (i_pc _ HI) as Hp. rewrite Epc in Hp. destruct Hp as [Hsn _].
    pose proof (i_hi _ HI). pose proof (i_detlive _ HI) as Hdl. pose proof (i_lo _ HI) as Hlo.
    rewrite Epc in Hlo. flds. unfold tot, live in *.
    destruct (blocks st) as [|x bl] eqn:Ebl; [cbn [length] in *; lia|].
    split; [|split; [reflexivity|intros _ Hm; lia]].
    destruct (0 <? old st); [|destruct (0 <? cur st)]; flds; reflexivity.
  - (* PGrow *)
    destruct (grow_new c (cur st) (new st)); [|discriminate]. intros H. injection H as <-.
    flds. split; [reflexivity|split; [reflexivity|intros; discriminate]].
  - (* PPush *)
    intros H. injection H as <-.
    split; [|split; [reflexivity|intros; discriminate]].
    destruct (grow_cur c (cur st)); [|destruct (q_old c <? old st + 1)]; flds; reflexivity.
  - (* PPop *)
    intros H. injection H as <-.
    pose proof (rotation_pop_over_capacity c st sz HI HC Epc) as Hcap.
    unfold live in Hcap. destruct (blocks st) as [|x bl] eqn:Ebl.
    + exfalso. destruct Hw as (Hq0 & Hq1 & Hq2). unfold capq in Hcap. cbn [length] in Hcap.
      destruct (q_mut c); lia.
    + flds. split; [reflexivity|split; [reflexivity|]]. intros _ _. unfold live, cap. rewrite Ebl.
      unfold capq in Hcap. exact Hcap.
Qed.

Lemma nocall_step c st : next_call c st = None -> rel (put_step c st) = rel st.
Proof.
  unfold next_call, put_step. destruct (pcs st); try discriminate; flds; auto.
  - destruct (q_bs c <? sz); flds; auto.
  - destruct (rel st <? snap); [discriminate|]. reflexivity.
  - destruct (grow_new c (cur st) (new st)); [discriminate|]. reflexivity.
  - destruct (has_space c st (old st + cur st) sz) as [[|]|]; flds; auto.
    destruct (q_new c <? new st); flds; auto.
  - intros _. destruct (alloc_loop (alloc_fuel st) c st sz) as [st1 i] eqn:Eal.
    apply alloc_loop_frame in Eal. destruct Eal as (a & j & ->).
    destruct (i <? 0); flds; auto.
Qed.

Lemma put_step_not_idle c st : pcs st <> Idle -> pcs (put_step c st) <> Idle.
Proof.
  unfold put_step. intros H. destruct (pcs st) eqn:Epc; flds; try congruence.
  - destruct (q_bs c <? sz); flds; discriminate.
  - destruct (rel st <? snap); flds; try discriminate. destruct (blocks st); flds; try discriminate.
    destruct (0 <? old st); [|destruct (0 <? cur st)]; flds; rewrite Epc; discriminate.
  - destruct (grow_new c (cur st) (new st)); flds; rewrite ?Epc; discriminate.
  - destruct (has_space c st (old st + cur st) sz) as [[|]|]; flds; try discriminate.
    destruct (q_new c <? new st); flds; rewrite ?Epc; discriminate.
  - destruct (grow_cur c (cur st)); [|destruct (q_old c <? old st + 1)]; flds; discriminate.
  - destruct (blocks st); flds; discriminate.
  - destruct (alloc_loop (alloc_fuel st) c st sz) as [st1 i] eqn:Eal.
    apply alloc_loop_frame in Eal. destruct Eal as (a & j & ->).
    destruct (i <? 0); flds; discriminate.
Qed.

(** ** A whole Put() *)
Lemma put_loop_spec c tg base : wfq c -> forall fuel st hooks st' hs,
  Inv st -> Cap c st -> simr st tg -> pend st base -> pcs st <> Idle ->
  put_loop fuel c st hooks = (st', hs) ->
  mon_hooks c (rel st) (maxdet st) tg hooks hs = (rel st', maxdet st', [])
  /\ Inv st' /\ Cap c st' /\ simr st' tg /\ pend st' base /\ pcs st' <> Idle
  /\ pstart st' = pstart st.
Proof.
  intros Hw. induction fuel as [|f IH]; intros st hooks st' hs HI HC Hs Hp Hni H.
  - cbn [put_loop] in H.
    assert (H' : (st, @nil hobs) = (st', hs)) by (destruct (pcs st); exact H).
    injection H' as <- <-. cbn [mon_hooks]. rsplit; auto; apply Hs.
  - cbn [put_loop] in H.
    assert (Hdone : (exists a b, pcs st = PDone a b) \/ (forall a b, pcs st <> PDone a b)).
    { destruct (pcs st); eauto; right; intros; discriminate. }
    destruct Hdone as [(a & b & Ed)|Hnd].
    { rewrite Ed in H. injection H as <- <-. cbn [mon_hooks]. rsplit; auto; apply Hs. }
    assert (H' : match next_call c st with
                 | Some kind =>
                     let '(st1, ds) := fire st (hd [] hooks) in
                     let '(st2, hs) := put_loop f c (put_step c st1) (tl hooks) in
                     (st2, mk_hobs kind ds (snap st1) :: hs)
                 | None => put_loop f c (put_step c st) hooks
                 end = (st', hs)).
    { destruct (pcs st) eqn:Epc; try exact H; [congruence|exfalso; eapply Hnd; eauto]. }
    clear H. destruct (next_call c st) as [kind|] eqn:Enc.
    + destruct (fire st (hd [] hooks)) as [st1 ds] eqn:Ef.
      destruct (put_loop f c (put_step c st1) (tl hooks)) as [st2 hs2] eqn:El.
      injection H' as <- <-.
      destruct (fire_spec c tg base _ _ _ _ HI HC Hs Hp Ef) as (A1 & A2 & A3 & A4 & A5 & A6 & A7 & A8 & A9 & A10 & A11).
      assert (Enc1 : next_call c st1 = Some kind).
      { unfold next_call in *. rewrite A5, A6, A10, A11. exact Enc. }
      destruct (call_step c st1 kind Hw A1 A2 Enc1) as (B1 & B2 & B3).
      assert (Hni1 : pcs st1 <> Idle) by congruence.
      specialize (IH _ _ _ _ (inv_put_step c st1 A1) (cap_put_step c st1 Hw A1 A2)
                    (simr_put_step c st1 tg A3) (pend_put_step c st1 base Hni1 A4)
                    (put_step_not_idle c st1 Hni1) El).
      destruct IH as (C1 & C2 & C3 & C4 & C5 & C6 & C7).
      destruct (put_step_frame c st1) as (F1 & F2 & F3).
      cbn [mon_hooks mk_hobs h_kind h_dets h_snap]. rewrite A9.
      rewrite <- A6. rewrite (scan_snap st1 A1 B2).
      replace (if kind =? 0 then rel st1 + 1 else rel st1) with (rel (put_step c st1)) by exact B1.
      rewrite <- F2. rewrite C1. rewrite F2.
      assert (E3 : (if (kind =? 0) && (maxdet st1 <=? rel st1)
                       && (Z.of_nat (length (snap st1)) <=? cap c) then [3] else []) = @nil Z).
      { destruct (kind =? 0) eqn:Ek; [|reflexivity]. apply Z.eqb_eq in Ek.
        destruct (maxdet st1 <=? rel st1) eqn:Em; [|reflexivity]. apply Z.leb_le in Em.
        specialize (B3 Ek Em). rewrite snap_length.
        destruct (live st1 <=? cap c) eqn:Ec; [apply Z.leb_le in Ec; lia|reflexivity]. }
      rewrite E3. cbn [app]. rsplit; auto; try apply C4. congruence.
    + pose proof (nocall_step c st Enc) as Hrel.
      destruct (put_step_frame c st) as (F1 & F2 & F3).
      specialize (IH _ _ _ _ (inv_put_step c st HI) (cap_put_step c st Hw HI HC)
                    (simr_put_step c st tg Hs) (pend_put_step c st base Hni Hp)
                    (put_step_not_idle c st Hni) H').
      rewrite Hrel, F2, F3 in IH. exact IH.
Qed.

(** ** Whole schedules *)
Lemma simr_open st tg k bad : simr st tg ->
  simr (open st k bad) (tg ++ [if can_open st k then Some (rel st + k + 1) else None]).
Proof.
  intros [Hl Hn]. unfold open.
  destruct (can_open st k); split; flds; rewrite ?app_length, ?Hl; auto; intros r rd H Ho.
  - destruct (Nat.lt_ge_cases r (length (rdrs st))) as [Hlt|Hge].
    + rewrite nth_error_app1 in H by exact Hlt. rewrite nth_error_app1 by (rewrite Hl; exact Hlt). auto.
    + rewrite nth_error_app2 in H by exact Hge. rewrite nth_error_app2 by (rewrite Hl; exact Hge).
      rewrite Hl. destruct (r - length (rdrs st))%nat as [|m]; cbn [nth_error] in *.
      * injection H as <-. reflexivity.
      * destruct m; discriminate.
  - destruct (Nat.lt_ge_cases r (length (rdrs st))) as [Hlt|Hge].
    + rewrite nth_error_app1 in H by exact Hlt. rewrite nth_error_app1 by (rewrite Hl; exact Hlt). auto.
    + rewrite nth_error_app2 in H by exact Hge.
      destruct (r - length (rdrs st))%nat as [|m]; cbn [nth_error] in *.
      * injection H as <-. discriminate.
      * destruct m; discriminate.
Qed.

Lemma mon_ops_silent c : wfq c -> forall ops st tg,
  Inv st -> Cap c st -> simr st tg -> pcs st = Idle ->
  mon_ops c (rel st) (maxdet st) tg (puts st) ops (run_ops c st ops) = [].
Proof.
  intros Hw. induction ops as [|o ops IH]; intros st tg HI HC Hs Hidle; [reflexivity|].
  cbn [run_ops]. destruct o as [sz hooks|k bad|r|w|]; cbn [run_op].
  - (* Put *)
    destruct (put_loop (put_fuel c st) c (start st sz) hooks) as [st2 hs] eqn:El.
    assert (Est : pcs (start st sz) = PStart sz) by (unfold start; rewrite Hidle; reflexivity).
    assert (Hni : pcs (start st sz) <> Idle) by (rewrite Est; discriminate).
    assert (Hp : pend (start st sz) (puts st)).
    { unfold pend. rewrite Est. unfold start. rewrite Hidle. reflexivity. }
    assert (Hs1 : simr (start st sz) tg).
    { unfold simr, start in *. rewrite Hidle. flds. exact Hs. }
    assert (HC1 : Cap c (start st sz)) by (apply (cap_step c st (EStart sz)); assumption).
    destruct (put_loop_spec c tg (puts st) Hw _ _ _ _ _ (inv_start st sz HI) HC1 Hs1 Hp Hni El)
      as (C1 & C2 & C3 & C4 & C5 & C6 & C7).
    assert (R0 : rel (start st sz) = rel st /\ maxdet (start st sz) = maxdet st
                 /\ pstart (start st sz) = tbr st).
    { unfold start. rewrite Hidle. flds. auto. }
    destruct R0 as (R1 & R2 & R3). rewrite R1, R2 in C1.
    destruct (pcs st2) as [| | | | | | | | |code idx] eqn:Epc;
      try (cbn [mon_ops]; reflexivity).
    cbn [mon_ops]. destruct (code =? -1) eqn:Em1; [reflexivity|].
    rewrite C1. cbn [app].
    assert (E4 : (if (code =? 0) && (rel st2 <? maxdet st) then [4] else []) = @nil Z).
    { destruct (code =? 0) eqn:E0; [|reflexivity]. apply Z.eqb_eq in E0.
      pose proof (i_pc _ C2) as Hpc. rewrite Epc in Hpc. specialize (Hpc E0).
      pose proof (i_det _ HI). rewrite C7, R3 in Hpc.
      destruct (rel st2 <? maxdet st) eqn:E; [apply Z.ltb_lt in E; lia|reflexivity]. }
    rewrite E4. cbn [app].
    assert (Hfin : pcs (finish st2) = Idle /\ rel (finish st2) = rel st2
                   /\ maxdet (finish st2) = maxdet st2 /\ puts (finish st2) = puts st2).
    { unfold finish. rewrite Epc. flds. auto. }
    destruct Hfin as (G1 & G2 & G3 & G4).
    pose proof (inv_finish st2 C2) as HIf.
    rewrite <- G2, <- G3. rewrite scan_snap by (auto; rewrite G1; reflexivity). cbn [app].
    assert (Hmp : (if code =? 0 then puts st ++ [rel (finish st2) + idx] else puts st) = puts (finish st2)).
    { rewrite G4, G2. unfold pend in C5. rewrite Epc in C5. symmetry. exact C5. }
    rewrite Hmp. apply IH; auto.
    + apply (cap_step c st2 EEnd); assumption.
    + unfold simr, finish in *. rewrite Epc. flds. exact C4.
  - (* Open *)
    cbn [mon_ops].
    assert (F : rel (open st k bad) = rel st /\ maxdet (open st k bad) = maxdet st
                /\ puts (open st k bad) = puts st /\ pcs (open st k bad) = pcs st).
    { unfold open. destruct (can_open st k); flds; auto. }
    destruct F as (F1 & F2 & F3 & F4).
    pose proof (inv_open st k bad HI) as HI1.
    assert (Hg : scan (rel (open st k bad)) (maxdet (open st k bad)) (snap (open st k bad))
                 ++ mon_ops c (rel (open st k bad)) (maxdet (open st k bad))
                      (tg ++ [if can_open st k then Some (rel st + k + 1) else None])
                      (puts (open st k bad)) ops (run_ops c (open st k bad) ops) = []).
    { rewrite scan_snap by (auto; rewrite F4, Hidle; reflexivity). cbn [app].
      apply IH; auto.
      - apply (cap_step c st (EOpen k bad)); assumption.
      - apply simr_open, Hs.
      - congruence. }
    rewrite F1, F2, F3 in Hg. exact Hg.
  - (* Detect *)
    cbn [mon_ops]. rewrite raise_D_detect by exact Hs.
    destruct (detect_frame st r) as (F1 & F2 & F3 & F4 & F5 & F6 & F7).
    pose proof (inv_detect st r HI) as HI1.
    rewrite <- F2. rewrite scan_snap by (auto; rewrite F1, Hidle; reflexivity). cbn [app].
    rewrite <- F4. apply IH; auto.
    + apply (cap_step c st (EDetect r)); assumption.
    + apply simr_detect, Hs.
    + congruence.
  - (* Fin *)
    cbn [mon_ops]. rewrite scan_snap by (auto; rewrite Hidle; reflexivity). cbn [app].
    rewrite IH by auto. rewrite app_nil_r.
    unfold fin_obs. destruct (nth_error (puts st) w) as [a|]; [|reflexivity].
    pose proof (i_hi _ HI). pose proof (i_det _ HI). pose proof (i_lo _ HI) as Hlo.
    rewrite Hidle in Hlo. flds.
    destruct (a <? tbr st) eqn:Ea; cbn [fst].
    + apply Z.ltb_lt in Ea. rewrite andb_false_r. cbn [app].
      destruct (maxdet st <=? a) eqn:E1; [|reflexivity]. apply Z.leb_le in E1.
      destruct (rel st <=? a) eqn:E2; [|reflexivity]. apply Z.leb_le in E2. lia.
    + apply Z.ltb_ge in Ea. cbn [negb Z.eqb]. rewrite andb_false_r, app_nil_r.
      destruct (a <? maxdet st) eqn:E1; [apply Z.ltb_lt in E1; lia|reflexivity].
  - reflexivity.
Qed.

(** ** sx round trip *)
Lemma dec_enc_snap v : dec_snap (enc_snap v) = v.
Proof.
  unfold dec_snap, enc_snap. cbn [sx_list]. rewrite map_map.
  induction v as [|b t IH]; [reflexivity|]. cbn [map]. rewrite IH. destruct b; reflexivity.
Qed.

Lemma dec_enc_hobs h : dec_hobs (enc_hobs h) = h.
Proof.
  destruct h as [k ds sn]. unfold dec_hobs, enc_hobs. cbn [h_kind h_dets h_snap].
  change (sx_nth (L [A k; L (map enc_det ds); enc_snap sn]) 0) with (A k).
  change (sx_nth (L [A k; L (map enc_det ds); enc_snap sn]) 1) with (L (map enc_det ds)).
  change (sx_nth (L [A k; L (map enc_det ds); enc_snap sn]) 2) with (enc_snap sn).
  rewrite dec_enc_snap. cbn [sx_Z sx_list]. f_equal.
  rewrite map_map. induction ds as [|[a b] t IH]; [reflexivity|]. cbn [map]. rewrite IH. reflexivity.
Qed.

Lemma dec_enc_oobs b : dec_oobs (enc_oobs b) = b.
Proof.
  destruct b as [code idx hs sn|ok sn|code delta sn|code idx sn|]; unfold dec_oobs, enc_oobs.
  - change (sx_Z (sx_nth (L [A 0; A code; A idx; L (map enc_hobs hs); enc_snap sn]) 0)) with 0.
    cbv iota.
    change (sx_nth (L [A 0; A code; A idx; L (map enc_hobs hs); enc_snap sn]) 1) with (A code).
    change (sx_nth (L [A 0; A code; A idx; L (map enc_hobs hs); enc_snap sn]) 2) with (A idx).
    change (sx_nth (L [A 0; A code; A idx; L (map enc_hobs hs); enc_snap sn]) 3) with (L (map enc_hobs hs)).
    change (sx_nth (L [A 0; A code; A idx; L (map enc_hobs hs); enc_snap sn]) 4) with (enc_snap sn).
    rewrite dec_enc_snap. cbn [sx_Z sx_list]. f_equal. rewrite map_map.
    induction hs as [|h t IH]; [reflexivity|]. cbn [map]. rewrite IH, dec_enc_hobs. reflexivity.
  - change (sx_Z (sx_nth (L [A 1; of_bool ok; enc_snap sn]) 0)) with 1. cbv iota.
    change (sx_nth (L [A 1; of_bool ok; enc_snap sn]) 1) with (of_bool ok).
    change (sx_nth (L [A 1; of_bool ok; enc_snap sn]) 2) with (enc_snap sn).
    rewrite dec_enc_snap. destruct ok; reflexivity.
  - change (sx_Z (sx_nth (L [A 2; A code; A delta; enc_snap sn]) 0)) with 2. cbv iota.
    change (sx_nth (L [A 2; A code; A delta; enc_snap sn]) 1) with (A code).
    change (sx_nth (L [A 2; A code; A delta; enc_snap sn]) 2) with (A delta).
    change (sx_nth (L [A 2; A code; A delta; enc_snap sn]) 3) with (enc_snap sn).
    rewrite dec_enc_snap. reflexivity.
  - change (sx_Z (sx_nth (L [A 3; A code; A idx; enc_snap sn]) 0)) with 3. cbv iota.
    change (sx_nth (L [A 3; A code; A idx; enc_snap sn]) 1) with (A code).
    change (sx_nth (L [A 3; A code; A idx; enc_snap sn]) 2) with (A idx).
    change (sx_nth (L [A 3; A code; A idx; enc_snap sn]) 3) with (enc_snap sn).
    rewrite dec_enc_snap. reflexivity.
  - reflexivity.
Qed.

Lemma simr_init : simr init [].
Proof. split; [reflexivity|]. intros [|r] rd H; discriminate. Qed.

(** ** The constructor's state, in closed form *)
Lemma promote_ltb K : forall n x,
  promote n (fun y => y <? K) x =
  (Z.to_nat (Z.of_nat n - Z.min (Z.of_nat n) (Z.max 0 (K - x))), x + Z.min (Z.of_nat n) (Z.max 0 (K - x))).
Proof.
  induction n as [|n IH]; intros x.
  - cbn [promote]. f_equal; lia.
  - cbn [promote]. destruct (x <? K) eqn:E.
    + apply Z.ltb_lt in E. rewrite IH. f_equal; lia.
    + apply Z.ltb_ge in E. f_equal; lia.
Qed.

Lemma promote_false : forall n x, promote n (fun _ => false) x = (n, x).
Proof. intros [|n] x; reflexivity. Qed.

(** With the blocks beyond the configured capacity old+current+new quarantined
    by the constructor, the monitor's initial boundary is the model's. *)
Lemma init_of_facts c : wfq c ->
  maxdet (init_of c) = mon_D0 c /\ rel (init_of c) = 0 /\ puts (init_of c) = [] /\ pcs (init_of c) = Idle
  /\ rdrs (init_of c) = [].
Proof.
  intros (Hq0 & Hq1 & Hq2). unfold init_of, mon_D0, cap.
  destruct (q_mut c) eqn:Em.
  - rewrite (promote_ext (fun x => grow_new c 0 x) (fun y => y <? 1))
      by (intros x; unfold grow_new; rewrite Em; reflexivity).
    rewrite promote_ltb.
    rewrite (promote_ext (grow_cur c) (fun y => y <? q_cur c))
      by (intros x; unfold grow_cur; rewrite Em; reflexivity).
    rewrite promote_ltb. flds. split; [|auto].
    match goal with |- (if ?b then _ else _) = _ => destruct b eqn:E end;
      [apply Z.ltb_lt in E|apply Z.ltb_ge in E]; lia.
  - rewrite (promote_ext (fun x => grow_new c 0 x) (fun y => y <? q_cur c + q_new c))
      by (intros x; unfold grow_new; rewrite Em; reflexivity).
    rewrite promote_ltb.
    rewrite (promote_ext (grow_cur c) (fun _ => false))
      by (intros x; unfold grow_cur; rewrite Em; reflexivity).
    rewrite promote_false. flds. split; [|auto].
    match goal with |- (if ?b then _ else _) = _ => destruct b eqn:E end;
      [apply Z.ltb_lt in E|apply Z.ltb_ge in E]; lia.
Qed.

Theorem mon08Q_silent_on_model_all inp :
  wfq (inp_cfg inp) -> mon08Q inp (run08Q inp) = [].
Proof.
  intros Hw. unfold mon08Q, run08Q. cbn [sx_list]. rewrite map_map.
  rewrite (map_ext _ (fun x => x) dec_enc_oobs), map_id.
  destruct (init_of_facts (inp_cfg inp) Hw) as (E1 & E2 & E3 & E4 & E5).
  pose proof (mon_ops_silent (inp_cfg inp) Hw (inp_ops inp) (init_of (inp_cfg inp)) []
                (inv_init_of _ (proj1 Hw)) (cap_init_of _)) as H.
  rewrite E1, E2, E3 in H. apply H; [|exact E4].
  split; [rewrite E5; reflexivity|]. rewrite E5. intros [|r] rd Hn; discriminate.
Qed.
