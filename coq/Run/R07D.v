(** C07D — sub-check of C07 (and of the state-directory clauses of C02/C04):
    the real directory-backed persistent state store
    (pkg/blobstore/local/directory_backed_persistent_state_store.go) over a
    simulated directory with a volatile and a durable name space, judged by
    Persist/DirStore.v.

    Input: ((1 d f) | (2 d k) | (3) | (4)) ...
      (1 d f) WritePersistentState of state d with an injected failure at directory operation f (0 = none)
      (2 d k) the same call, the process being killed at operation k; a new process takes over
      (3)     power cut and restart      (4) ReadPersistentState
    Observation: (1 ok (ops...)) | (2 (ops...)) | (3) | (4 r)   r = -1: a fresh state
      ops: 1 Remove 2 OpenAppend 3 Write 4 file Sync 5 Close 6 Rename 7 directory Sync, as attempted. *)
From BBS Require Import Common.Sx Persist.DirStore.
Open Scope Z_scope.

Definition dec_event (s : sx) : event :=
  match sx_Z (sx_nth s 0) with
  | 1 => EWrite (Z.of_nat (sx_nat (sx_nth s 1))) (sx_nat (sx_nth s 2))
  | 2 => EKill (Z.of_nat (sx_nat (sx_nth s 1))) (sx_nat (sx_nth s 2))
  | 3 => EPower
  | _ => ERead
  end.
Definition dec_events (inp : sx) : list event := map dec_event (sx_list inp).

Definition enc_eobs (o : eobs) : sx :=
  match o with
  | OWrite ok log => L [A 1; of_bool ok; of_Zs log]
  | OKill log => L [A 2; of_Zs log]
  | OPower => L [A 3]
  | ORead r => L [A 4; A (match r with Some d => d | None => -1 end)]
  end.
Definition dec_eobs (s : sx) : eobs :=
  match sx_Z (sx_nth s 0) with
  | 1 => OWrite (sx_bool (sx_nth s 1)) (sx_Zs (sx_nth s 2))
  | 2 => OKill (sx_Zs (sx_nth s 1))
  | 3 => OPower
  | _ => ORead (let r := sx_Z (sx_nth s 1) in if r <? 0 then None else Some r)
  end.

Definition run07D (inp : sx) : sx := L (map enc_eobs (drun dir_empty (dec_events inp))).

Definition mon07D (inp obs : sx) : list Z :=
  nodup Z.eq_dec (m_viol (mrun m_init (dec_events inp) (map dec_eobs (sx_list obs)))).

Definition judge07D (inp obs : sx) : sx := judge_det run07D mon07D inp obs.
