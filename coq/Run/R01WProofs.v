(** The C01 and C05 monitors of the wiring sub-checks are silent on the model
    of every accepted, sane configuration (Store/Wiring.v), for all
    well-formed schedules: the store theorems instantiated at the wired world. *)
From Coq Require Import List NArith ZArith Bool Arith Lia.
From BBS Require Import Common.Sx Store.Model Store.Wf Store.WfTids Store.Wiring Store.WiringProofs.
From BBS Require Import Run.RStore Run.R01 Run.R05 Run.R01W.
From BBS Require Import Store.P01Defs Store.P01Final Store.P05Mon Store.P05Main Store.P05Touch Store.P08Monitor.
Import ListNotations.

Lemma mon01_world_on_model w es : mon01_world w es (run_world w es) = dedupZ (mon01_model w es).
Proof. reflexivity. Qed.

Lemma mon05_world_on_model w es : mon05_world w es (run_world w es) = mon05_model w es.
Proof.
  unfold mon05_world, run_world, mon05_model, run_x. cbn [sx_list]. f_equal. f_equal.
  rewrite fold_left_combine_map. apply fold_left_ext.
  intros a [e [[s0 s1] mo]]. reflexivity.
Qed.

Lemma wired_world_cfg inp w : wired_world inp = Some w -> wire (dec_wiring (sx_nth inp 0)) = Some (w_cfg w).
Proof.
  unfold wired_world. destruct (wire (dec_wiring (sx_nth inp 0))) as [c|]; [|discriminate].
  intros H. injection H as <-. reflexivity.
Qed.

Lemma wired_world_wf inp w :
  wired_world inp = Some w -> wiring_sane (dec_wiring (sx_nth inp 0)) = true -> wf_anc w = true ->
  wf_world w = true.
Proof.
  intros W S A. unfold wf_world. rewrite A, andb_true_r.
  exact (wire_wf _ _ (wired_world_cfg inp w W) S).
Qed.

Lemma run01W_accepted_raw inp w : wired_world inp = Some w ->
  run01W inp = L (sx_list (run_world w (dec_ops inp)) ++ [key_format_obs w]).
Proof. intros W. unfold run01W. rewrite W. reflexivity. Qed.

(** the monitors read one observation per event: the trailing key-format
    element is not looked at *)
Lemma length_run_states w : forall es s, length (run_states w s es) = length es.
Proof. induction es as [|e t IH]; intros s; cbn [run_states]; [reflexivity|]. destruct (step w s e) as [s1 o]. cbn. rewrite IH. reflexivity. Qed.

Lemma length_run_world w es : length (sx_list (run_world w es)) = length es.
Proof.
  unfold run_world. cbn [sx_list]. rewrite map_length, combine_length, length_run_states. apply Nat.min_id.
Qed.

Lemma mon01_run_extra w : forall es m os x, length os = length es ->
  mon01_run w m es (os ++ x) = mon01_run w m es os.
Proof.
  induction es as [|e t IH]; intros m os x L; destruct os as [|o os']; cbn in L; try discriminate.
  - destruct x; reflexivity.
  - cbn [app mon01_run]. apply IH. lia.
Qed.

Lemma combine_extra {A B} : forall (l : list A) (os x : list B), length os = length l -> combine l (os ++ x) = combine l os.
Proof.
  induction l as [|a t IH]; intros os x L; destruct os as [|o os']; cbn in L; try discriminate; [reflexivity|].
  cbn [app combine]. f_equal. apply IH. lia.
Qed.

Lemma mon01W_extra w es x : mon01W w es (L (sx_list (run_world w es) ++ x)) = mon01W w es (run_world w es).
Proof.
  unfold mon01W, mon01_world. cbn [sx_list]. rewrite mon01_run_extra; [reflexivity|apply length_run_world].
Qed.

Lemma mon05W_extra w es x : mon05W w es (L (sx_list (run_world w es) ++ x)) = mon05W w es (run_world w es).
Proof.
  unfold mon05W, mon05_world. cbn [sx_list]. rewrite combine_extra; [reflexivity|].
  rewrite combine_length, length_run_states, Nat.min_id. apply length_run_world.
Qed.

Lemma mon08W_extra w es x : mon08W w es (L (sx_list (run_world w es) ++ x)) = mon08W w es (run_world w es).
Proof.
  unfold mon08W. cbn [sx_list]. rewrite combine_extra; [reflexivity|].
  rewrite combine_length, length_run_states, Nat.min_id. apply length_run_world.
Qed.

Lemma run01W_refused inp : wired_world inp = None -> run01W inp = rejected.
Proof. intros W. unfold run01W. rewrite W. reflexivity. Qed.

Theorem mon01W_silent inp w :
  wired_world inp = Some w -> wiring_sane (dec_wiring (sx_nth inp 0)) = true -> wf_anc w = true ->
  wf_ops w [] (dec_ops inp) = true -> wf_tids (dec_ops inp) = true ->
  mon01W w (dec_ops inp) (run01W inp) = [].
Proof.
  intros W S A WO WT. rewrite (run01W_accepted_raw inp w W), mon01W_extra. unfold mon01W.
  rewrite mon01_world_on_model.
  rewrite (P01_final w (dec_ops inp) (wired_world_wf inp w W S A) WO WT). reflexivity.
Qed.

Lemma filter_enforced_nil l : (forall z, In z l -> z = 5%Z \/ z = 6%Z) -> filter enforced05 l = [].
Proof.
  induction l as [|x t IH]; intros H; cbn [filter]; [reflexivity|].
  destruct (H x (or_introl eq_refl)) as [-> | ->]; cbn; apply IH; intros z Hz; apply H; right; exact Hz.
Qed.

Theorem mon05W_silent inp w :
  wired_world inp = Some w -> wiring_sane (dec_wiring (sx_nth inp 0)) = true -> wf_anc w = true ->
  wf_ops w [] (dec_ops inp) = true -> wf_tids (dec_ops inp) = true ->
  mon05W w (dec_ops inp) (run01W inp) = [].
Proof.
  intros W S A WO WT. rewrite (run01W_accepted_raw inp w W), mon05W_extra. unfold mon05W.
  rewrite mon05_world_on_model. apply filter_enforced_nil.
  pose proof (wired_world_wf inp w W S A) as Hw.
  apply model_satisfies_C05; [exact WT|].
  apply integ_of_model_integrity. apply model_integrity_from_C01; [|exact WO|exact WT].
  intros es' Ho' Ht' Hc. exact (proj2 (P01_no_negs w es' Hw Ho' Ht' Hc)).
Qed.

(** the judges report no violation on the model's own run *)
Theorem judge01W_no_violation_on_model inp :
  (forall w, wired_world inp = Some w ->
     wiring_sane (dec_wiring (sx_nth inp 0)) = true /\ wf_anc w = true /\
     wf_ops w [] (dec_ops inp) = true /\ wf_tids (dec_ops inp) = true) ->
  sx_nth (judge01W inp (run01W inp)) 1 = of_bool false /\
  sx_nth (judge05W inp (run01W inp)) 1 = of_bool false.
Proof.
  intros H. unfold judge01W, judge05W, judgeW.
  destruct (wired_world inp) as [w|] eqn:W; [|split; reflexivity].
  destruct (H w eq_refl) as (S & A & WO & WT).
  destruct (sx_eqb (run01W inp) rejected); [split; reflexivity|].
  rewrite (mon01W_silent inp w W S A WO WT), (mon05W_silent inp w W S A WO WT). split; reflexivity.
Qed.

(** C08's monitor on the wired store: silent on the model for EVERY accepted
    configuration, all contents and ALL schedules, corruption events included
    (C08's theorem needs no well-formedness hypothesis) *)
Theorem mon08W_silent inp w : wired_world inp = Some w -> mon08W w (dec_ops inp) (run01W inp) = [].
Proof.
  intros W. rewrite (run01W_accepted_raw inp w W), mon08W_extra.
  change (mon08W w (dec_ops inp) (run_world w (dec_ops inp))) with (mon08_model w (dec_ops inp)).
  apply store_model_satisfies_C08.
Qed.
