(** C17: sx interface (decoders, model runs, monitors, judge).

    An input is [L (A kind :: ...)]:
      kind 0  history of operations (Get 0, Put 1, FindMissing 2, GetFromComposite 3)
              on a read-caching / read-fallback composite
      kind 1  history of an existence cache (decorator + direct calls) on a virtual clock
      kind 2  schedule of gated concurrent callers of a replicator decorator
      kind 3  history of operations on the LRU set                                   *)
From BBS Require Import Common.Sx Common.ListX Compose.Caching Compose.ExistenceCache
  Compose.Replicators Run.R17Conc.
Import ListNotations.
Open Scope Z_scope.

(** * kind 0: sequential composites *)
Fixpoint dec_repl (fuel : nat) (s : sx) : repl :=
  match fuel with
  | O => RLocal
  | S f =>
      match s with
      | A 1 => RNoop
      | L [A 2; r] => RDedup (dec_repl f r)
      | L [A 3; r] => RLimit (dec_repl f r)
      | _ => RLocal
      end
  end.

Definition dec_comp (s : sx) : comp := if Z.eqb (sx_Z s) 1 then ReadFallback else ReadCaching.
Definition dec_op (s : sx) : op * list Z :=
  (match sx_Z (sx_nth s 0) with
   | 1 => OPut (sx_nat (sx_nth s 1))
   | 2 => OFm (sx_nats (sx_nth s 1))
   | 3 => OGfc (sx_nat (sx_nth s 1))
   | _ => OGet (sx_nat (sx_nth s 1))
   end, sx_Zs (sx_nth s 2)).

Definition enc_bk (b : bk) : sx := A (match b with BA => 0 | BB => 1 end).
Definition enc_cop (o : cop) : sx := A (match o with CGet => 0 | CPut => 1 | CFm => 2 | CGfc => 3 end).
Definition enc_call (c : call) : sx := L [enc_bk (c_bk c); enc_cop (c_op c); of_nats (c_args c); A (c_fault c)].
Definition enc_obs (o : step_obs) : sx :=
  L [A (fst (o_res o)); of_nats (snd (o_res o)); L (map enc_call (o_calls o)); of_nats (o_a o); of_nats (o_b o); A (o_pfx o)].

Definition seq_cfg (inp : sx) :=
  (dec_comp (sx_nth inp 1), dec_repl 8 (sx_nth inp 2),
   dedup_sort (sx_nats (sx_nth inp 3)), dedup_sort (sx_nats (sx_nth inp 4)),
   map dec_op (sx_list (sx_nth inp 5))).

Definition run_seq (inp : sx) : sx :=
  let '(k, r, a, b, h) := seq_cfg inp in
  L (map enc_obs (run_hist k r h (a, b))).

Definition list_eqb (x y : list nat) : bool := sx_eqb (of_nats x) (of_nats y).

(** Monitor: the property's clauses evaluated on what the implementation was
    observed to do (results, calls received by the recording backends,
    contents afterwards); the model is not consulted. *)
Definition obs_faulted (o : sx) : bool :=
  existsb (fun c => negb (Z.eqb (sx_Z (sx_nth c 3)) 0)) (sx_list (sx_nth o 2)).

(** Some backend call of the step failed with a code other than NOT_FOUND. *)
Definition obs_hard (o : sx) : bool :=
  existsb (fun c => let f := sx_Z (sx_nth c 3) in negb (Z.eqb f 0) && negb (Z.eqb f 5)) (sx_list (sx_nth o 2)).

(** Clause 2 is about replicators that either copy or merely forward to the
    source; a decorator that re-reads the sink stacked on a replicator that
    never copies (dedup over noop) is a misconfiguration, not a violation. *)
Definition sensible (r : repl) : bool := copying r || match r with RNoop => true | _ => false end.

Definition mon_seq_step (k : comp) (r : repl) (o : op) (a b : list nat) (ob : sx) : list Z :=
  let code := sx_Z (sx_nth ob 0) in
  let ans := sx_nats (sx_nth ob 1) in
  let calls := sx_list (sx_nth ob 2) in
  let a' := sx_nats (sx_nth ob 3) in
  let b' := sx_nats (sx_nth ob 4) in
  let faulted := obs_faulted ob in
  match o with
  | OGet d =>
      let held := memb d a || memb d b in
      (* 1: an object is returned that neither backend held *)
      (if Z.eqb code 0 && negb held then [1] else []) ++
      (* 2: no backend failure, yet a held object is not returned / an absent one is not NOT_FOUND *)
      (if sensible r && negb faulted && (if held then negb (Z.eqb code 0) else negb (Z.eqb code 5)) then [2] else []) ++
      (* 5: successful read with a copying replicator, object not in the fast/primary backend afterwards *)
      (if Z.eqb code 0 && copying r && negb (memb d a') then [5] else []) ++
      (* 15: a backend call failed with a code other than NOT_FOUND, yet the read succeeded *)
      (if Z.eqb code 0 && obs_hard ob then [15] else [])
  | OGfc p =>
      (* composite read of the child of parent p (GetFromComposite) *)
      let held := memb p a || memb p b in
      (* 8: the child is returned although neither backend held the parent *)
      (if Z.eqb code 0 && negb held then [8] else []) ++
      (* 9: no backend failure, yet the child of a held parent is not returned / an absent parent is not NOT_FOUND *)
      (if sensible r && negb faulted && (if held then negb (Z.eqb code 0) else negb (Z.eqb code 5)) then [9] else []) ++
      (* 10: successful composite read with a copying replicator, parent not in the fast/primary backend afterwards *)
      (if Z.eqb code 0 && copying r && negb (memb p a') then [10] else []) ++
      (* 15: as for Get *)
      (if Z.eqb code 0 && obs_hard ob then [15] else [])
  | OPut d =>
      let tgt := match put_target k with BA => 0 | BB => 1 end in
      (* 3: an upload caused a call other than Put on the slow/primary backend, or changed the other backend *)
      (if negb (forallb (fun c => Z.eqb (sx_Z (sx_nth c 0)) tgt && Z.eqb (sx_Z (sx_nth c 1)) 1) calls)
          || negb (match put_target k with BA => list_eqb b b' | BB => list_eqb a a' end) then [3] else []) ++
      (* 4: acknowledged upload not in the slow/primary backend *)
      (if Z.eqb code 0 && negb (memb d (match put_target k with BA => a' | BB => b' end)) then [4] else [])
  | OFm ds =>
      match k with
      | ReadCaching => []
      | ReadFallback =>
          let ds := dedup_sort ds in
          let expect := filter (fun d => negb (memb d a) && negb (memb d b)) ds in
          (* 6: answer differs from "missing from both" *)
          (if Z.eqb code 0 && negb (list_eqb ans expect) then [6] else []) ++
          (* 7: fails although no backend failed *)
          (if negb faulted && negb (Z.eqb code 0) then [7] else [])
      end
  end.

Fixpoint mon_seq_go (k : comp) (r : repl) (h : list (op * list Z)) (a b : list nat) (obs : list sx) : list Z :=
  match h, obs with
  | of :: h', ob :: obs' =>
      mon_seq_step k r (fst of) a b ob ++
      mon_seq_go k r h' (sx_nats (sx_nth ob 3)) (sx_nats (sx_nth ob 4)) obs'
  | _, _ => []
  end.

Definition is_panic (obs : sx) : bool := sx_eqb obs (L [A (-1)]).

Definition mon_seq (inp obs : sx) : list Z :=
  if is_panic obs then [] else
  let '(k, r, a, b, h) := seq_cfg inp in
  mon_seq_go k r h a b (sx_list obs).

(** * kind 1: existence cache *)
Definition dec_eop (s : sx) : eop :=
  match sx_Z (sx_nth s 0) with
  | 0 => EFm (sx_nats (sx_nth s 1)) (sx_N (sx_nth s 2)) (sx_N (sx_nth s 3)) (sx_Z (sx_nth s 4))
  | 1 => ERemoveExisting (sx_nats (sx_nth s 1)) (sx_N (sx_nth s 2))
  | 2 => EAdd (sx_nats (sx_nth s 1)) (sx_N (sx_nth s 2))
  | 3 => EBackendPut (sx_nat (sx_nth s 1))
  | 5 => EGfc (sx_nat (sx_nth s 1)) (sx_Z (sx_nth s 2))
  | _ => EBackendDel (sx_nat (sx_nth s 1))
  end.

Definition enc_eobs (o : eobs) : sx :=
  L [A (e_code o); of_nats (e_ans o); of_option of_nats (e_call o); of_Ns (e_clock o)].

Definition ec_cfg (inp : sx) := (sx_nat (sx_nth inp 1), sx_N (sx_nth inp 2), map dec_eop (sx_list (sx_nth inp 3))).

Definition run_ec (inp : sx) : sx :=
  let '(size, dur, ops) := ec_cfg inp in
  let (obs, s) := erun size dur ops (mkest ec_empty 0%N []) in
  if lpanic (elru (cache s)) then L [A (-1)] else L (map enc_eobs obs).

(** Monitor: [recs] = every recording of "present" (digest, clock reading of
    the recording) made so far, taken from the observed backend answers. *)
Definition justified (dur : N) (recs : list (nat * N)) (t : N) (d : nat) : bool :=
  existsb (fun r => Nat.eqb (fst r) d && (snd r <=? t)%N && (t <=? snd r + dur)%N) recs.

Definition mon_ec_step (size : nat) (dur : N) (o : eop) (recs : list (nat * N)) (bk : list nat) (ob : sx)
  : list Z * list (nat * N) :=
  let code := sx_Z (sx_nth ob 0) in
  let ans := sx_nats (sx_nth ob 1) in
  let clock := sx_Ns (sx_nth ob 3) in
  let t1 := nth 0 clock 0%N in
  let t2 := nth 1 clock 0%N in
  match o with
  | EFm ds _ _ _ =>
      let ds := dedup_sort ds in
      let asked := sx_nats (sx_nth (sx_nth ob 2) 0) in
      let cached := filter (fun d => negb (memn d asked)) ds in
      ((* 11: hidden as present without a "present" recorded within the duration *)
       (if forallb (justified dur recs t1) cached then [] else [11]) ++
       (* 12: the answer is not the backend's answer for what was asked *)
       (if Z.eqb code 0 && negb (list_eqb ans (filter (fun d => negb (memn d bk)) asked)) then [12] else []) ++
       (* 13: more entries answered from the cache than its size *)
       (if Nat.ltb size (length cached) then [13] else []),
       if Z.eqb code 0 then map (fun d => (d, t2)) (filter (fun d => negb (memn d ans)) asked) ++ recs else recs)
  | ERemoveExisting ds _ =>
      let ds := dedup_sort ds in
      let cached := filter (fun d => negb (memn d ans)) ds in
      ((if forallb (justified dur recs t1) cached then [] else [11]) ++
       (if Nat.ltb size (length cached) then [13] else []), recs)
  | EAdd ds _ => ([], map (fun d => (d, t1)) (dedup_sort ds) ++ recs)
  | EGfc p fault =>
      let asked := sx_nats (sx_nth (sx_nth ob 2) 0) in
      (* 16: a composite read through the decorator is not the backend's answer for that parent
             (no backend failure: the child iff the backend holds the parent, else NOT_FOUND;
              a backend failure: an error) *)
      ((if list_eqb asked [p] &&
           (if Z.eqb fault 0 then Z.eqb code (if memn p bk then 0 else 5) else negb (Z.eqb code 0))
        then [] else [16]), recs)
  | _ => ([], recs)
  end.

Fixpoint mon_ec_go (size : nat) (dur : N) (ops : list eop) (recs : list (nat * N)) (bk : list nat) (obs : list sx) : list Z :=
  match ops, obs with
  | o :: ops', ob :: obs' =>
      let (v, recs') := mon_ec_step size dur o recs bk ob in
      let bk' := match o with
                 | EBackendPut d => insert_sorted d bk
                 | EBackendDel d => remove_nat d bk
                 | _ => bk
                 end in
      v ++ mon_ec_go size dur ops' recs' bk' obs'
  | _, _ => []
  end.

Definition mon_ec (inp obs : sx) : list Z :=
  if is_panic obs then [] else
  let '(size, dur, ops) := ec_cfg inp in
  mon_ec_go size dur ops [] [] (sx_list obs).

(** * kind 3: LRU set *)
Definition dec_lop (s : sx) : lop :=
  match sx_Z (sx_nth s 0) with
  | 0 => LInsert (sx_nat (sx_nth s 1))
  | 1 => LTouch (sx_nat (sx_nth s 1))
  | 2 => LPeek
  | _ => LRemove
  end.
Definition enc_peek (o : option nat) : sx := match o with None => A (-1) | Some v => of_nat v end.
Definition run_lru (inp : sx) : sx :=
  let (a, s) := lru_run (map dec_lop (sx_list (sx_nth inp 1))) lru_empty in
  if lpanic s then L [A (-1)] else L [L (map enc_peek a)].

(** Specification-style monitor: every element carries the index of its last
    Insert/Touch; Peek must answer an element with the least index, and Remove
    removes such an element. *)
Fixpoint argmin (m : list (nat * nat)) : option (nat * nat) :=
  match m with
  | [] => None
  | (v, i) :: r => match argmin r with
                   | Some (v', i') => if Nat.ltb i' i then Some (v', i') else Some (v, i)
                   | None => Some (v, i)
                   end
  end.
Definition drop_key (v : nat) (m : list (nat * nat)) := filter (fun p => negb (Nat.eqb (fst p) v)) m.

Fixpoint mon_lru_go (ops : list lop) (i : nat) (m : list (nat * nat)) (peeks : list sx) : list Z :=
  match ops with
  | [] => []
  | LInsert v :: r => mon_lru_go r (S i) ((v, i) :: drop_key v m) peeks
  | LTouch v :: r => mon_lru_go r (S i) ((v, i) :: drop_key v m) peeks
  | LRemove :: r => mon_lru_go r (S i) (match argmin m with Some (v, _) => drop_key v m | None => m end) peeks
  | LPeek :: r =>
      match peeks with
      | p :: peeks' =>
          (match argmin m with
           | Some (v, _) => if Z.eqb (sx_Z p) (Z.of_nat v) then [] else [14]
           | None => []
           end) ++ mon_lru_go r (S i) m peeks'
      | [] => []
      end
  end.

Definition mon_lru (inp obs : sx) : list Z :=
  if is_panic obs then [] else
  mon_lru_go (map dec_lop (sx_list (sx_nth inp 1))) 0 [] (sx_list (sx_nth obs 0)).

(** * The judge *)
Definition judge17 (inp obs : sx) : sx :=
  match sx_Z (sx_nth inp 0) with
  | 0 => judge_det run_seq mon_seq inp obs
  | 1 => judge_det run_ec mon_ec inp obs
  | 2 => judge_conc inp obs
  | 3 => judge_det run_lru mon_lru inp obs
  | _ => verdict false false (L []) (L [])
  end.
