(** C03, monitor versus model — part 3: every history entry that the judge's replay
    ([R03.replay_entry]) accepts is a (possibly empty) sequence of steps of the transition system
    of Persist/Syncer.v; the ghost history of Persist/Shutdown.v is carried along, and for the
    entries the monitor's bookkeeping reacts to, what those steps did to the ghost is recorded
    ([post]).  Only a finalizer entry (tag 4) performs an [EFinalize] step. *)
From Coq Require Import List NArith ZArith Bool Arith Lia.
From BBS Require Import Common.Sx Persist.PBL Persist.PBLProofs Persist.Syncer Persist.SyncerProofs
  Persist.Shutdown Persist.ShutdownProofs Persist.ShutdownOrder Run.R03 Run.R03MonGhost Run.R03MonFields.
Import ListNotations.
Local Open Scope nat_scope.

Definition isstep (e : event) : Prop := exists t a, e = EStep t a.

Lemma isstep_notfin e : isstep e -> notfin e.
Proof. intros [t [a ->]] k blk seed H. discriminate. Qed.

Definition qstep (s : sys) (e : event) : Prop := isstep e /\ nowr s e.

Lemma nowr_fail s t a : a_ok a = false -> nowr s (EStep t a).
Proof. intros H t' a' st E _. inversion E; subst. exact H. Qed.
Lemma nowr_env s e : (forall t a, e <> EStep t a) -> nowr s e.
Proof. intros H t a st E. exfalso. eapply H; eauto. Qed.
Lemma nowr_pc s t a : (forall st, wpc_of t s <> Some (WWriting st)) -> nowr s (EStep t a).
Proof. intros H t' a' st E Hw. inversion E; subst. exfalso. eapply H; eauto. Qed.

Lemma tstep_step cfg t a x x' : tstep cfg t a x = Some x' ->
  step cfg (x_sys x) (EStep t a) = Some (Ok (x_sys x')) /\ x_state x' = x_state x.
Proof.
  unfold tstep. destruct (step cfg (x_sys x) (EStep t a)) as [[s'|]|]; try discriminate.
  intros H; inversion H; subst. cbn. auto.
Qed.

Lemma env_step cfg x e x' : env cfg x e = Some x' ->
  step cfg (x_sys x) e = Some (Ok (x_sys x')) /\ x_state x' = x_state x.
Proof.
  unfold env. destruct (step cfg (x_sys x) e) as [[s'|]|]; try discriminate.
  intros H; inversion H; subst. cbn. auto.
Qed.

Lemma advance_path cfg t a want fuel : a_ok a = false -> forall x x' gx, advance cfg fuel t a want x = Some x' ->
  exists gx', gpath cfg qstep (x_sys x) gx (x_sys x') gx' /\ want (x_sys x') = true /\ x_state x' = x_state x.
Proof.
  intros Ha. induction fuel as [|f IH]; intros x x' gx H; cbn in H.
  - destruct (want (x_sys x)) eqn:W; [|discriminate]. inversion H; subst. eexists. split; [constructor|auto].
  - destruct (want (x_sys x)) eqn:W.
    + inversion H; subst. eexists. split; [constructor|auto].
    + destruct (tstep cfg t a x) as [x1|] eqn:T; [|discriminate].
      destruct (tstep_step _ _ _ _ _ T) as [Hs E1].
      destruct (IH _ _ (gstep (x_sys x) (EStep t a) (x_sys x1) gx) H) as [gx' [Hp [Hw E2]]].
      exists gx'. split; [|split; [exact Hw|congruence]].
      econstructor; [split; [exists t, a; reflexivity|apply nowr_fail; exact Ha]|exact Hs|exact Hp].
Qed.

(** the put loop on its way to NotifySyncStarting after a cancellation (answers "ctx.Done() is
    ready"): an accepted advance never completes a state write on the way *)
Definition is_notify (pc : ppc) : bool := match pc with PNotify _ => true | _ => false end.

Lemma wpc_tp_writing s st : wpc_of TP s = Some (WWriting st) -> exists k, s_p s = PW k (WWriting st).
Proof. unfold wpc_of. destruct (s_p s) as [| | | | | | | |k w|]; try discriminate. intros H; inversion H. eauto. Qed.

Lemma pw_writing_ok_step cfg a x x' k st : s_p (x_sys x) = PW k (WWriting st) -> a_ok a = true ->
  tstep cfg TP a x = Some x' -> s_p (x_sys x') = PW k WWritten.
Proof.
  intros Hp Ha T. destruct (tstep_step _ _ _ _ _ T) as [Hs _]. cbn [step] in Hs. unfold pstep in Hs.
  rewrite Hp in Hs. cbn [wstep] in Hs. rewrite Ha in Hs. inversion Hs. reflexivity.
Qed.

Lemma pw_written_step cfg a x x' k : s_p (x_sys x) = PW k WWritten ->
  tstep cfg TP a x = Some x' -> is_notify (s_p (x_sys x')) = false.
Proof.
  intros Hp T. destruct (tstep_step _ _ _ _ _ T) as [Hs _]. cbn [step] in Hs. unfold pstep in Hs.
  rewrite Hp in Hs. cbn [wstep] in Hs. destruct (notify_state_written _); [|discriminate].
  inversion Hs. cbn. destruct k; reflexivity.
Qed.

Lemma advance_cancel_path cfg x x' gx : advance cfg 2 TP cancel_ans (p_at is_notify) x = Some x' ->
  exists gx', gpath cfg qstep (x_sys x) gx (x_sys x') gx' /\ is_notify (s_p (x_sys x')) = true /\ x_state x' = x_state x.
Proof.
  cbn [advance]. unfold p_at.
  destruct (is_notify (s_p (x_sys x))) eqn:W0.
  { intros H; inversion H; subst. eexists. split; [constructor|auto]. }
  destruct (tstep cfg TP cancel_ans x) as [xa|] eqn:Ta; [|discriminate].
  destruct (tstep_step _ _ _ _ _ Ta) as [Hsa Ea].
  destruct (is_notify (s_p (x_sys xa))) eqn:Wa.
  { intros H; inversion H; subst. eexists. split; [|auto].
    apply gpath_one; [|exact Hsa]. split; [eexists _, _; reflexivity|].
    intros t a st E Hw. inversion E; subst. exfalso. destruct (wpc_tp_writing _ _ Hw) as [k Hk].
    rewrite (pw_writing_ok_step cfg cancel_ans _ _ _ _ Hk eq_refl Ta) in Wa. discriminate. }
  destruct (tstep cfg TP cancel_ans xa) as [xb|] eqn:Tb; [|discriminate].
  destruct (tstep_step _ _ _ _ _ Tb) as [Hsb Eb].
  destruct (is_notify (s_p (x_sys xb))) eqn:Wb; [|discriminate].
  intros H; inversion H; subst. eexists. split; [|split; [exact Wb|congruence]].
  econstructor; [|exact Hsa|apply gpath_one; [|exact Hsb]].
  - split; [eexists _, _; reflexivity|].
    intros t a st E Hw. inversion E; subst. exfalso. destruct (wpc_tp_writing _ _ Hw) as [k Hk].
    pose proof (pw_writing_ok_step cfg cancel_ans _ _ _ _ Hk eq_refl Ta) as Hka.
    rewrite (pw_written_step _ _ _ _ _ Hka Tb) in Wb. discriminate.
  - split; [eexists _, _; reflexivity|].
    intros t a st E Hw. inversion E; subst. exfalso. destruct (wpc_tp_writing _ _ Hw) as [k Hk].
    rewrite (pw_writing_ok_step cfg cancel_ans _ _ _ _ Hk eq_refl Tb) in Wb. discriminate.
Qed.

(** ---- what the entries the monitor reacts to did to the ghost ---- *)
(** entries 1..4 are ONE environment event each: PushBack / PopFront / Put / finalizer *)
Definition ev_of (bs : Z) (e : sx) : event :=
  if (tag e =? 1)%Z then EPushBack (if Z.eqb (sx_Z (sx_nth e 1)) 0 then Some (sx_Z (sx_nth e 2), bs) else None)
  else if (tag e =? 2)%Z then EPopFront
  else if (tag e =? 3)%Z then EPutStart (sx_nat (sx_nth e 1)) (sx_Z (sx_nth e 2))
  else EFinalize (sx_nat (sx_nth e 1))
                 (if Z.eqb (sx_Z (sx_nth e 2)) 3 then None
                  else Some (if Z.eqb (sx_Z (sx_nth e 2)) 0 then sx_Z (sx_nth e 3) else 0%Z))
                 (if Z.eqb (sx_Z (sx_nth e 2)) 0 then sx_N (sx_nth e 6) else 0%N).

Definition is14 (e : sx) : Prop := tag e = 1%Z \/ tag e = 2%Z \/ tag e = 3%Z \/ tag e = 4%Z.

(** thread steps, clock, cancellation: events that touch neither the list's blocks nor the uploads *)
Definition quiet (ev : event) : Prop :=
  match ev with EStep _ _ | ETick _ | ECancel => True | _ => False end.

Definition post (cfg : config) (bs : Z) (e : sx) (x : xst) (gx : gsys) (x' : xst) (gx' : gsys) : Prop :=
  (tag e = 8%Z -> sx_bool (sx_nth e 1) = false -> g_syncing (gs_g gx') = g_acks (gs_g gx')) /\
  (tag e = 8%Z -> sx_bool (sx_nth e 1) = true -> closedForWriting (s_pbl (x_sys x')) = true) /\
  (tag e = 9%Z -> g_synced (gs_g gx') = g_syncing (gs_g gx)) /\
  (tag e = 6%Z -> exists w, get_pend gx' (tid_of (sx_Z (sx_nth e 1))) = Some w /\ gw_cohort w = g_synced (gs_g gx')) /\
  (tag e = 13%Z -> sx_bool (sx_nth e 2) = true ->
     exists w, get_pend gx (tid_of (sx_Z (sx_nth e 1))) = Some w /\ gs_writes gx' = w :: gs_writes gx /\
               x_state x' = gw_state w) /\
  (tag e = 13%Z -> sx_bool (sx_nth e 2) = false -> x_state x' = x_state x /\ gs_writes gx' = gs_writes gx) /\
  (tag e = 18%Z -> s_p (x_sys x') = PExit) /\
  (tag e <> 13%Z -> x_state x' = x_state x) /\
  (is14 e -> step cfg (x_sys x) (ev_of bs e) = Some (Ok (x_sys x')) /\
             gx' = gstep (x_sys x) (ev_of bs e) (x_sys x') gx).

Definition allowed (e : sx) (s : sys) (ev : event) : Prop :=
  (tag e = 4%Z \/ notfin ev) /\ (tag e = 13%Z \/ nowr s ev) /\ (is14 e \/ quiet ev).

Definition sound (cfg : config) (bs : Z) (e : sx) (x : xst) (gx : gsys) (x' : xst) : Prop :=
  exists gx', gpath cfg (allowed e) (x_sys x) gx (x_sys x') gx' /\ post cfg bs e x gx x' gx'.

Ltac fin_post :=
  unfold post, is14; repeat split; intros; try congruence;
  try (match goal with H : _ \/ _ |- _ => destruct H as [H|[H|[H|H]]]; congruence end).

Lemma post_other cfg bs e x gx x' gx' :
  tag e <> 8%Z -> tag e <> 9%Z -> tag e <> 6%Z -> tag e <> 13%Z -> tag e <> 18%Z ->
  tag e <> 1%Z -> tag e <> 2%Z -> tag e <> 3%Z -> tag e <> 4%Z ->
  x_state x' = x_state x -> post cfg bs e x gx x' gx'.
Proof. intros. fin_post. Qed.

Lemma post_single cfg bs e x gx x' : is14 e -> x_state x' = x_state x ->
  step cfg (x_sys x) (ev_of bs e) = Some (Ok (x_sys x')) ->
  post cfg bs e x gx x' (gstep (x_sys x) (ev_of bs e) (x_sys x') gx).
Proof.
  intros E S H. unfold post. repeat split; intros; try congruence;
  try (destruct E as [E|[E|[E|E]]]; congruence).
Qed.

Lemma post6 cfg bs e x gx x' gx' : tag e = 6%Z -> x_state x' = x_state x ->
  (exists w, get_pend gx' (tid_of (sx_Z (sx_nth e 1))) = Some w /\ gw_cohort w = g_synced (gs_g gx')) ->
  post cfg bs e x gx x' gx'.
Proof. intros E S H. fin_post; try exact H. Qed.

Lemma post8 cfg bs e x gx x' gx' : tag e = 8%Z -> x_state x' = x_state x ->
  (sx_bool (sx_nth e 1) = false -> g_syncing (gs_g gx') = g_acks (gs_g gx')) ->
  (sx_bool (sx_nth e 1) = true -> closedForWriting (s_pbl (x_sys x')) = true) ->
  post cfg bs e x gx x' gx'.
Proof. intros E S H1 H2. fin_post; auto. Qed.

Lemma post9 cfg bs e x gx x' gx' : tag e = 9%Z -> x_state x' = x_state x ->
  g_synced (gs_g gx') = g_syncing (gs_g gx) -> post cfg bs e x gx x' gx'.
Proof. intros E S H. fin_post. Qed.

Lemma post13 cfg bs e x gx x' gx' : tag e = 13%Z ->
  (sx_bool (sx_nth e 2) = true ->
     exists w, get_pend gx (tid_of (sx_Z (sx_nth e 1))) = Some w /\ gs_writes gx' = w :: gs_writes gx /\
               x_state x' = gw_state w) ->
  (sx_bool (sx_nth e 2) = false -> x_state x' = x_state x /\ gs_writes gx' = gs_writes gx) ->
  post cfg bs e x gx x' gx'.
Proof.
  intros E H1 H2. fin_post; auto;
  match goal with B : sx_bool _ = false |- _ => destruct (H2 B); assumption end.
Qed.

Lemma post18 cfg bs e x gx x' gx' : tag e = 18%Z -> x_state x' = x_state x -> s_p (x_sys x') = PExit ->
  post cfg bs e x gx x' gx'.
Proof. intros E S H. fin_post. Qed.

Lemma path_steps_allowed cfg e s gx s' gx' : gpath cfg qstep s gx s' gx' -> gpath cfg (allowed e) s gx s' gx'.
Proof.
  apply gpath_weaken. intros s0 ev [H1 H2]. split; [right; apply isstep_notfin; exact H1|].
  split; [right; exact H2|right]. destruct H1 as [t [a ->]]. exact I.
Qed.

Lemma allowed_step e s t a : nowr s (EStep t a) -> allowed e s (EStep t a).
Proof. intros H. split; [right; intros k b sd Hc; discriminate|]. split; [right; exact H|right; exact I]. Qed.

Lemma allowed_fail e s t a : a_ok a = false -> allowed e s (EStep t a).
Proof. intros H. apply allowed_step, nowr_fail, H. Qed.

(** unfold the replay of an entry whose tag is known; the equation goes back into the goal *)
Ltac open_tag H E := unfold replay_entry in H; rewrite E in H; cbv beta iota zeta in H; revert H.
Ltac ifg := match goal with |- (if ?c then _ else _) = _ -> _ => destruct c eqn:?; [|discriminate] end.
Ltac ifg' := match goal with |- (if ?c then _ else _) = _ -> _ => destruct c eqn:?; [discriminate|] end.

(** an accepted entry without post-obligation that is a clock tick or the cancellation *)
Lemma sound_env cfg bs e x gx x' ev :
  tag e <> 8%Z -> tag e <> 9%Z -> tag e <> 6%Z -> tag e <> 13%Z -> tag e <> 18%Z ->
  tag e <> 1%Z -> tag e <> 2%Z -> tag e <> 3%Z -> tag e <> 4%Z ->
  notfin ev -> (forall t a, ev <> EStep t a) -> quiet ev -> env cfg x ev = Some x' -> sound cfg bs e x gx x'.
Proof.
  intros N8 N9 N6 N13 N18 N1 N2 N3 N4 Ha Hne Hq H. destruct (env_step _ _ _ _ H) as [Hs E].
  eexists. split; [apply gpath_one; [split; [right; exact Ha|split; [right; apply nowr_env; exact Hne|right; exact Hq]]|exact Hs]|].
  apply post_other; auto.
Qed.

(** entries 1..4: exactly the event [ev_of] *)
Lemma sound_single cfg bs e x gx x' : is14 e -> env cfg x (ev_of bs e) = Some x' -> sound cfg bs e x gx x'.
Proof.
  intros E H. destruct (env_step _ _ _ _ H) as [Hs S].
  exists (gstep (x_sys x) (ev_of bs e) (x_sys x') gx). split; [|apply post_single; assumption].
  apply gpath_one; [|exact Hs]. split; [|split; [right|left; exact E]].
  - destruct E as [E|[E|[E|E]]]; [right|right|right|left; exact E]; unfold ev_of; rewrite E; cbn [Z.eqb Pos.eqb];
      intros k b sd Hc; discriminate.
  - apply nowr_env. intros t a Hc. destruct E as [E|[E|[E|E]]]; unfold ev_of in Hc; rewrite E in Hc; cbn [Z.eqb Pos.eqb] in Hc;
      discriminate.
Qed.

Lemma sound_tstep cfg bs e x gx x' t a :
  tag e <> 8%Z -> tag e <> 9%Z -> tag e <> 6%Z -> tag e <> 13%Z -> tag e <> 18%Z ->
  tag e <> 1%Z -> tag e <> 2%Z -> tag e <> 3%Z -> tag e <> 4%Z ->
  tstep cfg t a x = Some x' -> nowr (x_sys x) (EStep t a) -> sound cfg bs e x gx x'.
Proof.
  intros N8 N9 N6 N13 N18 N1 N2 N3 N4 H Hn. destruct (tstep_step _ _ _ _ _ H) as [Hs E].
  eexists. split; [apply gpath_one; [apply allowed_step; exact Hn|exact Hs]|].
  apply post_other; auto.
Qed.

Lemma sound_nil cfg bs e x gx x' :
  tag e <> 8%Z -> tag e <> 9%Z -> tag e <> 6%Z -> tag e <> 13%Z -> tag e <> 18%Z ->
  tag e <> 1%Z -> tag e <> 2%Z -> tag e <> 3%Z -> tag e <> 4%Z ->
  x_sys x' = x_sys x -> x_state x' = x_state x -> sound cfg bs e x gx x'.
Proof.
  intros N8 N9 N6 N13 N18 N1 N2 N3 N4 E1 E2. exists gx. split; [rewrite E1; constructor|]. apply post_other; auto.
Qed.

Ltac tagne E := let H := fresh in intro H; rewrite E in H; discriminate H.

Section Tags.
Variables (cfg : config) (bs : Z).

Lemma replay_tag1 x e x' gx : tag e = 1%Z -> replay_entry cfg bs x e = Some x' -> sound cfg bs e x gx x'.
Proof.
  intros E H. open_tag H E. ifg. intros H.
  apply sound_single; [left; exact E|]. unfold ev_of. rewrite E. exact H.
Qed.

Lemma replay_tag2 x e x' gx : tag e = 2%Z -> replay_entry cfg bs x e = Some x' -> sound cfg bs e x gx x'.
Proof.
  intros E H. open_tag H E. intros H.
  apply sound_single; [right; left; exact E|]. unfold ev_of. rewrite E. exact H.
Qed.

Lemma replay_tag3 x e x' gx : tag e = 3%Z -> replay_entry cfg bs x e = Some x' -> sound cfg bs e x gx x'.
Proof.
  intros E H. open_tag H E. intros H.
  apply sound_single; [right; right; left; exact E|]. unfold ev_of. rewrite E. exact H.
Qed.

Lemma replay_tag4 x e x' gx : tag e = 4%Z -> replay_entry cfg bs x e = Some x' -> sound cfg bs e x gx x'.
Proof.
  intros E H. open_tag H E.
  destruct (nth_error _ _) as [[[tok size]|]|]; try discriminate.
  destruct (put_finalize _ _ _ _ _) as [[p' fr]|]; [|discriminate].
  ifg. ifg. intros H.
  apply sound_single; [right; right; right; exact E|]. unfold ev_of. rewrite E. exact H.
Qed.

Lemma replay_tag5 x e x' gx : tag e = 5%Z -> replay_entry cfg bs x e = Some x' -> sound cfg bs e x gx x'.
Proof.
  intros E H. open_tag H E. destruct (tid_of _).
  - destruct (s_r (x_sys x)); try discriminate. ifg. intros H.
    eapply (sound_tstep cfg bs e x gx x'); [tagne E|tagne E|tagne E|tagne E|tagne E|tagne E|tagne E|tagne E|tagne E|exact H|apply nowr_fail; reflexivity].
  - destruct (s_p (x_sys x)); try discriminate. ifg. intros H.
    eapply (sound_tstep cfg bs e x gx x'); [tagne E|tagne E|tagne E|tagne E|tagne E|tagne E|tagne E|tagne E|tagne E|exact H|apply nowr_fail; reflexivity].
Qed.

(** the step that calls GetPersistentState records the snapshot with the cohort of the latest
    completed sync *)
Lemma getstate_step t a s1 s2 gx1 : at_w t is_getstate s1 = true ->
  gs_g (gstep s1 (EStep t a) s2 gx1) = gs_g gx1 /\
  exists w, get_pend (gstep s1 (EStep t a) s2 gx1) t = Some w /\ gw_cohort w = g_synced (gs_g gx1).
Proof.
  unfold at_w, thread_w. intros H. destruct t; cbn [gstep].
  - destruct (s_r s1) as [| |w]; cbn in H; try discriminate. destruct w; cbn in H; try discriminate.
    cbn. split; [reflexivity|]. eexists. split; reflexivity.
  - destruct (s_p s1) as [| | | | | | | |k w|]; cbn in H; try discriminate. destruct w; cbn in H; try discriminate.
    cbn. split; [reflexivity|]. eexists. split; reflexivity.
Qed.

Lemma replay_tag6 x e x' gx : tag e = 6%Z -> replay_entry cfg bs x e = Some x' -> sound cfg bs e x gx x'.
Proof.
  intros E H. open_tag H E.
  destruct (advance _ _ _ _ _ _) as [x1|] eqn:A; [|discriminate].
  destruct (tstep _ _ _ x1) as [x2|] eqn:T; [|discriminate].
  destruct (thread_w _ _) as [[| |st| |]|]; try discriminate.
  ifg. intros H. inversion H; subst x'; clear H.
  destruct (advance_path cfg _ no_ans _ _ eq_refl _ _ gx A) as [gx1 [P1 [W1 E1]]].
  destruct (tstep_step _ _ _ _ _ T) as [Hs E2].
  destruct (getstate_step _ no_ans _ (x_sys x2) gx1 W1) as [Hg [w [Hp Hc]]].
  exists (gstep (x_sys x1) (EStep (tid_of (sx_Z (sx_nth e 1))) no_ans) (x_sys x2) gx1). split.
  - eapply gpath_trans; [apply path_steps_allowed; exact P1|].
    apply gpath_one; [apply allowed_fail; reflexivity|exact Hs].
  - apply post6; [exact E|congruence|]. exists w. split; [exact Hp|]. rewrite Hg. exact Hc.
Qed.

Lemma replay_tag7 x e x' gx : tag e = 7%Z -> replay_entry cfg bs x e = Some x' -> sound cfg bs e x gx x'.
Proof.
  intros E H. open_tag H E. ifg. intros H.
  eapply (sound_tstep cfg bs e x gx x'); [tagne E|tagne E|tagne E|tagne E|tagne E|tagne E|tagne E|tagne E|tagne E|exact H|apply nowr_fail; reflexivity].
Qed.

Lemma replay_tag8 x e x' gx : tag e = 8%Z -> replay_entry cfg bs x e = Some x' -> sound cfg bs e x gx x'.
Proof.
  intros E H. open_tag H E. destruct (sx_bool (sx_nth e 1)) eqn:B.
  - destruct (x_final_due x && closedForWriting (s_pbl (x_sys x)))%bool eqn:C; [|discriminate].
    intros H. inversion H; subst x'; clear H. apply andb_prop in C. destruct C as [_ C].
    exists gx. cbn [x_sys]. split; [constructor|].
    apply post8; [exact E|reflexivity|rewrite B; discriminate|intros _; exact C].
  - destruct (advance _ _ _ _ _ _) as [x1|] eqn:A; [|discriminate]. intros H.
    destruct (advance_cancel_path _ _ _ gx A) as [gx1 [P1 [W1 E1]]].
    destruct (tstep_step _ _ _ _ _ H) as [Hs E2].
    exists (gstep (x_sys x1) (EStep TP no_ans) (x_sys x') gx1). split.
    + eapply gpath_trans; [apply path_steps_allowed; exact P1|].
      apply gpath_one; [apply allowed_fail; reflexivity|exact Hs].
    + apply post8; [exact E|congruence| |rewrite B; discriminate].
      intros _. cbn [gstep]. destruct (s_p (x_sys x1)); try discriminate. reflexivity.
Qed.

Lemma replay_tag9 x e x' gx : tag e = 9%Z -> replay_entry cfg bs x e = Some x' -> sound cfg bs e x gx x'.
Proof.
  intros E H. open_tag H E. destruct (s_p (x_sys x)) as [| | | | | |keep final| | |] eqn:Ep; try discriminate.
  destruct (tstep _ _ _ x) as [x1|] eqn:T; [|discriminate]. intros H. inversion H; subst x'; clear H.
  destruct (tstep_step _ _ _ _ _ T) as [Hs E2]. cbn [x_sys x_state].
  exists (gstep (x_sys x) (EStep TP no_ans) (x_sys x1) gx). split.
  - apply gpath_one; [apply allowed_fail; reflexivity|exact Hs].
  - apply post9; [exact E|exact E2|].
    cbn [gstep]. rewrite Ep. destruct (negb keep && negb final); reflexivity.
Qed.

Lemma replay_tag10 x e x' gx : tag e = 10%Z -> replay_entry cfg bs x e = Some x' -> sound cfg bs e x gx x'.
Proof.
  intros E H. open_tag H E. destruct (s_p (x_sys x)); try discriminate. ifg. intros H.
  inversion H; subst. apply sound_nil; try tagne E; reflexivity.
Qed.

Lemma replay_tag11 x e x' gx : tag e = 11%Z -> replay_entry cfg bs x e = Some x' -> sound cfg bs e x gx x'.
Proof.
  intros E H. open_tag H E. destruct (s_p (x_sys x)) eqn:Ep; try discriminate. intros H.
  eapply (sound_tstep cfg bs e x gx x'); [tagne E|tagne E|tagne E|tagne E|tagne E|tagne E|tagne E|tagne E|tagne E|exact H|].
  apply nowr_pc. intros st. unfold wpc_of. rewrite Ep. discriminate.
Qed.

Lemma replay_tag12 x e x' gx : tag e = 12%Z -> replay_entry cfg bs x e = Some x' -> sound cfg bs e x gx x'.
Proof.
  intros E H. open_tag H E. destruct (thread_w _ _) as [[| |st| |]|]; try discriminate. ifg. intros H.
  inversion H; subst. apply sound_nil; try tagne E; reflexivity.
Qed.

Lemma thread_w_wpc t s : thread_w t s = wpc_of t s.
Proof. destruct t; reflexivity. Qed.

(** a successful WritePersistentState moves the loop's pending snapshot to the completed writes *)
Lemma write_ok_step t st s s1 gx w : wpc_of t s = Some (WWriting st) -> get_pend gx t = Some w ->
  gs_writes (gstep s (EStep t (mkAns true 0)) s1 gx) = w :: gs_writes gx.
Proof.
  unfold wpc_of. intros Ew Hp. destruct t; cbn [gstep].
  - destruct (s_r s) as [| |w0]; try discriminate. inversion Ew; subst w0.
    cbn [gw_step a_ok]. rewrite Hp. reflexivity.
  - destruct (s_p s) as [| | | | | | | |k w0|]; try discriminate. inversion Ew; subst w0.
    cbn [gw_step a_ok]. rewrite Hp. reflexivity.
Qed.

Lemma replay_tag13 x e x' gx : psome (x_sys x) gx ->
  tag e = 13%Z -> replay_entry cfg bs x e = Some x' -> sound cfg bs e x gx x'.
Proof.
  intros PS E H. open_tag H E.
  destruct (thread_w _ _) as [[| |st| |]|] eqn:Ew; try discriminate.
  destruct (tstep _ _ _ x) as [x1|] eqn:T; [|discriminate]. intros H. inversion H; subst x'; clear H.
  destruct (tstep_step _ _ _ _ _ T) as [Hs E2]. cbn [x_sys x_state].
  rewrite thread_w_wpc in Ew. destruct (PS _ _ Ew) as [w [Hp Hst]].
  exists (gstep (x_sys x) (EStep (tid_of (sx_Z (sx_nth e 1))) (mkAns (sx_bool (sx_nth e 2)) 0)) (x_sys x1) gx).
  split; [apply gpath_one; [split; [right; intros k b sd Hc; discriminate|split; [left; exact E|right; exact I]]|exact Hs]|].
  apply post13; [exact E| |].
  - intros B. rewrite B. exists w. split; [exact Hp|]. split; [|symmetry; exact Hst].
    eapply write_ok_step; eauto.
  - intros B. rewrite B. split; [exact E2|]. apply gstep_writes_same. apply nowr_fail. reflexivity.
Qed.

Lemma replay_tag14 x e x' gx : tag e = 14%Z -> replay_entry cfg bs x e = Some x' -> sound cfg bs e x gx x'.
Proof.
  intros E H. open_tag H E. destruct (tid_of _).
  - destruct (s_r (x_sys x)) as [| |[| | | |d]]; try discriminate. ifg. intros H.
    inversion H; subst. apply sound_nil; try tagne E; reflexivity.
  - destruct (advance _ _ _ _ _ _) as [x1|] eqn:A; [|discriminate]. intros H.
    destruct (advance_path cfg _ no_ans _ _ eq_refl _ _ gx A) as [gx1 [P1 [W1 E1]]].
    assert (x' = x1).
    { revert H. destruct (s_p (x_sys x1)) as [| | |d| | | |k f d|k [| | | |d]|]; try discriminate;
        ifg; intros H; inversion H; reflexivity. }
    subst x'. exists gx1. split; [apply path_steps_allowed; exact P1|].
    apply post_other; try tagne E. exact E1.
Qed.

Lemma replay_tag15 x e x' gx : tag e = 15%Z -> replay_entry cfg bs x e = Some x' -> sound cfg bs e x gx x'.
Proof.
  intros E H. open_tag H E. destruct (tid_of _).
  - destruct (s_r (x_sys x)) as [| |[| | | |d]]; try discriminate. intros H.
    eapply (sound_tstep cfg bs e x gx x'); [tagne E|tagne E|tagne E|tagne E|tagne E|tagne E|tagne E|tagne E|tagne E|exact H|apply nowr_fail; reflexivity].
  - destruct (s_p (x_sys x)) as [| | |d| | | |k f d|k [| | | |d]|]; try discriminate;
      ifg'; intros H;
      (eapply (sound_tstep cfg bs e x gx x'); [tagne E|tagne E|tagne E|tagne E|tagne E|tagne E|tagne E|tagne E|tagne E|exact H|apply nowr_fail; reflexivity]).
Qed.

Lemma replay_tag16 x e x' gx : tag e = 16%Z -> replay_entry cfg bs x e = Some x' -> sound cfg bs e x gx x'.
Proof.
  intros E H. open_tag H E. intros H.
  eapply (sound_env cfg bs e x gx x'); [tagne E|tagne E|tagne E|tagne E|tagne E|tagne E|tagne E|tagne E|tagne E| | | |exact H].
  - intros k b sd Hc. discriminate.
  - intros t a Hc. discriminate.
  - exact I.
Qed.

Lemma replay_tag17 x e x' gx : tag e = 17%Z -> replay_entry cfg bs x e = Some x' -> sound cfg bs e x gx x'.
Proof.
  intros E H. open_tag H E. intros H.
  eapply (sound_env cfg bs e x gx x'); [tagne E|tagne E|tagne E|tagne E|tagne E|tagne E|tagne E|tagne E|tagne E| | | |exact H].
  - intros k b sd Hc. discriminate.
  - intros t a Hc. discriminate.
  - exact I.
Qed.

Lemma replay_tag18 x e x' gx : tag e = 18%Z -> replay_entry cfg bs x e = Some x' -> sound cfg bs e x gx x'.
Proof.
  intros E H. open_tag H E. destruct (s_p (x_sys x)) eqn:Ep; try discriminate. intros H. inversion H; subst x'.
  exists gx. split; [constructor|]. apply post18; [exact E|reflexivity|exact Ep].
Qed.

Lemma opt_tstep_path t a x gx : a_ok a = false ->
  exists gx1, gpath cfg qstep (x_sys x) gx (x_sys (match tstep cfg t a x with Some x' => x' | None => x end)) gx1 /\
              x_state (match tstep cfg t a x with Some x' => x' | None => x end) = x_state x.
Proof.
  intros Ha. destruct (tstep cfg t a x) as [x'|] eqn:T.
  - destruct (tstep_step _ _ _ _ _ T) as [Hs E]. eexists. split; [|exact E].
    apply gpath_one; [split; [exists t, a; reflexivity|apply nowr_fail; exact Ha]|exact Hs].
  - exists gx. split; [constructor|reflexivity].
Qed.

Lemma replay_tag20 x e x' gx : tag e = 20%Z -> replay_entry cfg bs x e = Some x' -> sound cfg bs e x gx x'.
Proof.
  intros E H. open_tag H E.
  set (x1 := match s_p (x_sys x) with
             | PSelect _ => match tstep cfg TP no_ans x with Some x' => x' | None => x end
             | _ => x end).
  assert (H1 : exists gx1, gpath cfg qstep (x_sys x) gx (x_sys x1) gx1 /\ x_state x1 = x_state x).
  { subst x1. destruct (s_p (x_sys x)); try (exists gx; split; [constructor|reflexivity]).
    apply opt_tstep_path. reflexivity. }
  destruct H1 as [gx1 [P1 E1]].
  set (x2 := match s_r (x_sys x1) with
             | RWait ch => if is_closed (heap (s_pbl (x_sys x1))) ch
                           then match tstep cfg TR no_ans x1 with Some x' => x' | None => x1 end else x1
             | _ => x1 end).
  assert (H2 : exists gx2, gpath cfg qstep (x_sys x1) gx1 (x_sys x2) gx2 /\ x_state x2 = x_state x1).
  { subst x2. destruct (s_r (x_sys x1)); try (exists gx1; split; [constructor|reflexivity]).
    destruct (is_closed _ _); [apply opt_tstep_path; reflexivity|exists gx1; split; [constructor|reflexivity]]. }
  destruct H2 as [gx2 [P2 E2]].
  ifg. intros H. inversion H; subst x'. exists gx2. split.
  - apply path_steps_allowed. eapply gpath_trans; eauto.
  - apply post_other; try tagne E. congruence.
Qed.

Lemma replay_default x e :
  tag e <> 1%Z -> tag e <> 2%Z -> tag e <> 3%Z -> tag e <> 4%Z -> tag e <> 5%Z -> tag e <> 6%Z -> tag e <> 7%Z ->
  tag e <> 8%Z -> tag e <> 9%Z -> tag e <> 10%Z -> tag e <> 11%Z -> tag e <> 12%Z -> tag e <> 13%Z ->
  tag e <> 14%Z -> tag e <> 15%Z -> tag e <> 16%Z -> tag e <> 17%Z -> tag e <> 18%Z -> tag e <> 20%Z ->
  replay_entry cfg bs x e = Some x.
Proof.
  unfold replay_entry. generalize (tag e) as z. intro z. ztag z; intros; try reflexivity; exfalso; congruence.
Qed.

(** every accepted entry *)
Lemma replay_entry_sound x e x' gx : psome (x_sys x) gx ->
  replay_entry cfg bs x e = Some x' -> sound cfg bs e x gx x'.
Proof.
  intros PS H.
  destruct (Z.eq_dec (tag e) 1); [eapply replay_tag1; eauto|].
  destruct (Z.eq_dec (tag e) 2); [eapply replay_tag2; eauto|].
  destruct (Z.eq_dec (tag e) 3); [eapply replay_tag3; eauto|].
  destruct (Z.eq_dec (tag e) 4); [eapply replay_tag4; eauto|].
  destruct (Z.eq_dec (tag e) 5); [eapply replay_tag5; eauto|].
  destruct (Z.eq_dec (tag e) 6); [eapply replay_tag6; eauto|].
  destruct (Z.eq_dec (tag e) 7); [eapply replay_tag7; eauto|].
  destruct (Z.eq_dec (tag e) 8); [eapply replay_tag8; eauto|].
  destruct (Z.eq_dec (tag e) 9); [eapply replay_tag9; eauto|].
  destruct (Z.eq_dec (tag e) 10); [eapply replay_tag10; eauto|].
  destruct (Z.eq_dec (tag e) 11); [eapply replay_tag11; eauto|].
  destruct (Z.eq_dec (tag e) 12); [eapply replay_tag12; eauto|].
  destruct (Z.eq_dec (tag e) 13); [eapply replay_tag13; eauto|].
  destruct (Z.eq_dec (tag e) 14); [eapply replay_tag14; eauto|].
  destruct (Z.eq_dec (tag e) 15); [eapply replay_tag15; eauto|].
  destruct (Z.eq_dec (tag e) 16); [eapply replay_tag16; eauto|].
  destruct (Z.eq_dec (tag e) 17); [eapply replay_tag17; eauto|].
  destruct (Z.eq_dec (tag e) 18); [eapply replay_tag18; eauto|].
  destruct (Z.eq_dec (tag e) 20); [eapply replay_tag20; eauto|].
  rewrite replay_default in H by assumption. inversion H; subst x'.
  apply sound_nil; auto.
Qed.

(** a finalizer entry accepted while the list is closed for writing is a refusal (class 1:
    errClosedForWriting) or the block's own error (class 3) — never an acknowledgement *)
Lemma replay_tag4_closed x e x' : tag e = 4%Z -> replay_entry cfg bs x e = Some x' ->
  closedForWriting (s_pbl (x_sys x)) = true ->
  sx_Z (sx_nth e 2) = 1%Z \/ sx_Z (sx_nth e 2) = 3%Z.
Proof.
  intros E H C. open_tag H E.
  destruct (nth_error _ _) as [[[tok size]|]|]; try discriminate.
  destruct (put_finalize _ _ _ _ _) as [[p' fr]|] eqn:Ef; [|discriminate].
  match goal with |- (if ?c then _ else _) = _ -> _ => destruct c eqn:Er; [|discriminate] end. intros _. apply Z.eqb_eq in Er.
  destruct (refused_not_lost_pbl _ _ _ _ _ _ _ C Ef) as [_ [->|[-> _]]]; cbn in Er; auto.
Qed.

End Tags.
