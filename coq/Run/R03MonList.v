(** C03, monitor versus model — the block list seen through the steps of Persist/Syncer.v: which
    events change the locations of the listed blocks, the number of released blocks and the table of
    pending Puts (only PushBack / PopFront / Put / finalizer do), and that the snapshots of
    GetPersistentState are taken at a release count that only grows. *)
From Coq Require Import List NArith ZArith Bool Arith Lia.
From BBS Require Import Common.Sx Persist.PBL Persist.PBLProofs Persist.Syncer Persist.SyncerProofs
  Persist.Shutdown Persist.ShutdownProofs Persist.ShutdownOrder Run.R03 Run.R03MonGhost Run.R03MonFields
  Run.R03MonReplay.
Import ListNotations.
Local Open Scope nat_scope.

Definition locs (p : pbl) : list loc := map b_loc (blocks p).
Definition tr (s : sys) : nat := totalReleased (s_pbl s).

Lemma set_written_locs bs : forall i w, map b_loc (set_written bs i w) = map b_loc bs.
Proof.
  induction bs as [|b bs IH]; intros [|i] w; cbn; try reflexivity.
  - destruct (b_written b <? w)%Z; reflexivity.
  - rewrite IH. reflexivity.
Qed.

Lemma bump_locs bs : map b_loc (bump_last_epoch_count bs) = map b_loc bs.
Proof.
  induction bs as [|b bs IH]; [reflexivity|]. destruct bs as [|b' bs]; [reflexivity|].
  change (bump_last_epoch_count (b :: b' :: bs)) with (b :: bump_last_epoch_count (b' :: bs)).
  cbn [map]. rewrite IH. reflexivity.
Qed.

Lemma nss_frame f p : totalReleased (notify_sync_starting f p) = totalReleased p /\
                      locs (notify_sync_starting f p) = locs p.
Proof. unfold notify_sync_starting, locs. cbn. rewrite map_map. split; reflexivity. Qed.

Lemma nsc_frame p : totalReleased (notify_sync_completed p) = totalReleased p /\
                    locs (notify_sync_completed p) = locs p.
Proof.
  destruct (nsc_shape p) as [Hb [_ [_ [Ht _]]]]. unfold locs. rewrite Hb, map_map. split; [exact Ht|reflexivity].
Qed.

Lemma gps_frame p p' st : get_persistent_state p = Ok (p', st) -> totalReleased p' = totalReleased p /\ locs p' = locs p.
Proof.
  unfold get_persistent_state. destruct (gps_loop _ _ _ _); [|discriminate]. cbn. intros H; inversion H. split; reflexivity.
Qed.

Lemma nsw_frame p p' : notify_state_written p = Ok p' -> totalReleased p' = totalReleased p /\ locs p' = locs p.
Proof.
  unfold notify_state_written. destruct (_ <? _); [discriminate|].
  destruct (skipn _ _); [destruct (nc_block _ _)|]; intros H; inversion H; split; reflexivity.
Qed.

Lemma put_finalize_frame tok blk size seed p p' fr : put_finalize tok blk size seed p = Ok (p', fr) ->
  totalReleased p' = totalReleased p /\ locs p' = locs p.
Proof.
  intros H. destruct fr as [off| | |].
  - destruct (put_finalize_ok_shape _ _ _ _ _ _ _ H) as [abs [_ [_ [_ [_ [_ [Ht [_ [_ [_ [_ Hsh]]]]]]]]]]].
    split; [exact Ht|]. unfold locs. cbv zeta in Hsh.
    destruct Hsh as [[Hb _]|[Hb _]]; rewrite Hb, ?bump_locs, set_written_locs; reflexivity.
  - rewrite (put_finalize_not_ok _ _ _ _ _ _ _ H) by discriminate. auto.
  - rewrite (put_finalize_not_ok _ _ _ _ _ _ _ H) by discriminate. auto.
  - rewrite (put_finalize_not_ok _ _ _ _ _ _ _ H) by discriminate. auto.
Qed.

Lemma wstep_frame cfg me w a s s1 w' : wstep cfg me w a s = Some (Ok (s1, w')) ->
  tr s1 = tr s /\ locs (s_pbl s1) = locs (s_pbl s) /\ s_uploads s1 = s_uploads s.
Proof.
  unfold wstep, tr. destruct w.
  - destruct (s_store s); [discriminate|]. intros H; inversion H; auto.
  - destruct (get_persistent_state (s_pbl s)) as [[p' st]|] eqn:E; [|discriminate].
    intros H; inversion H; subst. cbn. destruct (gps_frame _ _ _ E). auto.
  - destruct (a_ok a); intros H; inversion H; auto.
  - destruct (notify_state_written (s_pbl s)) as [p'|] eqn:E; [|discriminate].
    intros H; inversion H; subst. cbn. destruct (nsw_frame _ _ E). auto.
  - destruct (_ <=? _)%N; [|discriminate]. intros H; inversion H; auto.
Qed.

(** quiet events leave the list's locations, the release count and the pending Puts alone *)
Lemma quiet_frame cfg s ev s' : quiet ev -> step cfg s ev = Some (Ok s') ->
  tr s' = tr s /\ locs (s_pbl s') = locs (s_pbl s) /\ s_uploads s' = s_uploads s.
Proof.
  destruct ev as [alloc| |index size|k blk seed|d| |t a]; cbn [quiet]; try contradiction; intros _; cbn [step].
  - intros H; inversion H; auto.
  - intros H; inversion H; auto.
  - destruct t.
    + unfold rstep. destruct (s_r s) as [|ch|w].
      * intros H; inversion H; auto.
      * destruct (is_closed _ _); [|discriminate]. intros H; inversion H; auto.
      * destruct (wstep cfg TR w a s) as [[[s1 w']|]|] eqn:Ew; try discriminate.
        pose proof (wstep_frame _ _ _ _ _ _ _ Ew) as Hf. destruct w'; intros H; inversion H; subst; exact Hf.
    + unfold pstep. destruct (s_p s) as [|ch|ch|dl|keep|keep final|keep final|keep final dl|keep w|].
      * intros H; inversion H; auto.
      * destruct (is_closed _ _); intros H; inversion H; auto.
      * destruct (s_cancel s && _); [|destruct (is_closed _ _); [|discriminate]]; intros H; inversion H; auto.
      * destruct (s_cancel s && _); [|destruct (_ && _)%bool; [|discriminate]]; intros H; inversion H; auto.
      * intros H; inversion H; subst. unfold tr. cbn. destruct (nss_frame false (s_pbl s)). auto.
      * destruct (a_ok a); intros H; inversion H; auto.
      * destruct (nsc_frame (s_pbl s)) as [C1 C2].
        destruct (negb keep && negb final); intros H; inversion H; subst; unfold tr;
          cbn [s_pbl with_p with_pbl s_uploads].
        -- destruct (nss_frame true (notify_sync_completed (s_pbl s))) as [D1 D2]. rewrite D1, D2, C1, C2. auto.
        -- rewrite C1, C2. auto.
      * destruct (_ <=? _)%N; [|discriminate]. intros H; inversion H; auto.
      * destruct (wstep cfg TP w a s) as [[[s1 w']|]|] eqn:Ew; try discriminate.
        pose proof (wstep_frame _ _ _ _ _ _ _ Ew) as Hf. destruct w'; intros H; inversion H; subst; exact Hf.
      * discriminate.
Qed.

(** the release count never decreases *)
Lemma step_tr_mono cfg s e s' : step cfg s e = Some (Ok s') -> tr s <= tr s'.
Proof.
  destruct e as [alloc| |index size|k blk seed|d| |t a]; unfold tr.
  - cbn [step]. intros H; inversion H; subst. cbn. unfold push_back. destruct (closedForWriting _); [cbn; lia|].
    destruct alloc; cbn; lia.
  - cbn [step]. destruct (blocks (s_pbl s)) as [|b rest] eqn:Eb; [discriminate|].
    destruct (pop_front (s_pbl s)) as [p'|] eqn:Ep; [|discriminate]. intros H; inversion H; subst. cbn.
    destruct (pop_front_shape _ _ _ _ Eb Ep) as [_ [_ [_ [Ht _]]]]. lia.
  - cbn [step]. destruct (_ || _); [|discriminate]. destruct (put_start _ _); [|discriminate]. intros H; inversion H; subst. cbn. lia.
  - cbn [step]. destruct (nth_error (s_uploads s) k) as [[[tok sz]|]|]; try discriminate.
    destruct (put_finalize tok blk sz seed (s_pbl s)) as [[p' fr]|] eqn:Ef; [|discriminate].
    intros H; inversion H; subst. cbn. destruct (put_finalize_frame _ _ _ _ _ _ _ Ef). lia.
  - intros H. destruct (quiet_frame cfg s (ETick d) s' I H) as [E _]. unfold tr in E. lia.
  - intros H. destruct (quiet_frame cfg s ECancel s' I H) as [E _]. unfold tr in E. lia.
  - intros H. destruct (quiet_frame cfg s (EStep t a) s' I H) as [E _]. unfold tr in E. lia.
Qed.

(** ---- snapshots are taken at the release count of their moment ---- *)
Definition Bw (s : sys) (gx : gsys) : Prop :=
  (forall w, In w (gs_writes gx) -> gw_base_abs w <= tr s) /\
  (forall t w, get_pend gx t = Some w -> gw_base_abs w <= tr s).

Lemma gw_step_base t w a s s' x w' :
  (In w' (gs_writes (gw_step t w a s s' x)) \/ exists t', get_pend (gw_step t w a s s' x) t' = Some w') ->
  (In w' (gs_writes x) \/ exists t', get_pend x t' = Some w') \/ gw_base_abs w' = tr s.
Proof.
  unfold gw_step. destruct w; try (intros H; left; exact H).
  - (* WGetState *)
    intros [H|[t' H]].
    + left. left. destruct t; exact H.
    + destruct t, t'; cbn in H.
      * inversion H; subst; right; reflexivity.
      * left; right; exists TP; exact H.
      * left; right; exists TR; exact H.
      * inversion H; subst; right; reflexivity.
  - (* WWriting *)
    destruct (a_ok a).
    + destruct (get_pend x t) as [w0|] eqn:Ep; [|intros H; left; exact H].
      intros [H|[t' H]].
      * destruct t; cbn in H; (destruct H as [<-|H]; [left; right; eexists; exact Ep|left; left; exact H]).
      * left. right. exists t'. destruct t, t'; cbn in H; try discriminate; exact H.
    + intros [H|[t' H]].
      * left. left. destruct t; exact H.
      * left. right. exists t'. destruct t, t'; cbn in H; try discriminate; exact H.
Qed.

Lemma gstep_base s e s' x w' :
  (In w' (gs_writes (gstep s e s' x)) \/ exists t', get_pend (gstep s e s' x) t' = Some w') ->
  (In w' (gs_writes x) \/ exists t', get_pend x t' = Some w') \/ gw_base_abs w' = tr s.
Proof.
  assert (Hg : forall g, (In w' (gs_writes (gs_with_g x g)) \/ exists t', get_pend (gs_with_g x g) t' = Some w') ->
                        (In w' (gs_writes x) \/ exists t', get_pend x t' = Some w') \/ gw_base_abs w' = tr s).
  { intros g [H|[t' H]]; [left; left; exact H|]. rewrite get_pend_with_g in H. left. right. eauto. }
  destruct e as [alloc| |index size|k blk seed|d| |t a]; cbn [gstep]; try (intros H; left; exact H).
  - destruct (blocks _); [intros H; left; exact H|apply Hg].
  - destruct (nth_error _ _) as [[[[|abs] sz]|]|]; try (intros H; left; exact H).
    destruct (put_finalize _ _ _ _ _) as [[p' [off| | |]]|]; try (intros H; left; exact H).
    destruct (mk_ack _ _ _ _); [apply Hg|intros H; left; exact H].
  - destruct t.
    + destruct (s_r s); try (intros H; left; exact H). apply gw_step_base.
    + destruct (s_p s) as [| | | |keep|keep final|keep final|keep final dl|keep w|]; try (intros H; left; exact H).
      all: try (destruct (negb keep && negb final); intros H; left; exact H).
      apply gw_step_base.
Qed.

Lemma Bw_step cfg s e s' gx : Bw s gx -> step cfg s e = Some (Ok s') -> Bw s' (gstep s e s' gx).
Proof.
  intros [B1 B2] Hs. pose proof (step_tr_mono _ _ _ _ Hs) as Hm. split.
  - intros w Hin. destruct (gstep_base s e s' gx w (or_introl Hin)) as [[H|[t' H]]|H].
    + specialize (B1 _ H). lia.
    + specialize (B2 _ _ H). lia.
    + lia.
  - intros t w Hp. destruct (gstep_base s e s' gx w (or_intror (ex_intro _ t Hp))) as [[H|[t' H]]|H].
    + specialize (B1 _ H). lia.
    + specialize (B2 _ _ H). lia.
    + lia.
Qed.

Lemma Bw_gpath cfg P s gx s' gx' : gpath cfg P s gx s' gx' -> Bw s gx -> Bw s' gx'.
Proof. induction 1 as [|s x e s1 s' x' _ Hs _ IH]; [auto|]. intros B. apply IH. eapply Bw_step; eauto. Qed.

Lemma Bw_nowrites s gx : gs_writes gx = [] -> gs_pend_r gx = None -> gs_pend_p gx = None -> Bw s gx.
Proof.
  intros H1 H2 H3. split.
  - intros w Hin. rewrite H1 in Hin. destruct Hin.
  - intros [|] w Hp; cbn in Hp; congruence.
Qed.
