(** C17 / C17L: the monitor clauses that read the event log (24, 25; 27) are
    silent on the event log of EVERY trace of the model's transition system
    (Compose/EventLog.v: [tlog], [xlog]); together with the clauses already
    proved silent on every accepted observation (21/22/23; 26) the whole
    monitor is silent on an accepted observation whose log is the log of a
    model trace. *)
From Coq Require Import List ZArith NArith Bool Arith Lia.
From BBS Require Import Common.Sx Common.ListX Run.MonSilentSx Compose.ExistenceCache Compose.ExistenceCacheProofs
  Compose.Replicators Compose.ReplicatorsProofs Compose.MonSilentRepl Compose.ReplEntry Compose.ReplEntryProofs
  Compose.EventLog Run.R17Conc Run.R17 Run.R17L Run.R17Proofs Run.R17LProofs
  Run.R17LogBase Run.R17LogLimit Run.R17LogQueued Run.R17LogDedup Run.R17LogEntry Run.R17LogOrder.
Import ListNotations.
Local Open Scope nat_scope.

(** * C17, kind 2 *)

(** What the success clauses demand of a log, per decorator. *)
Definition clauses_ok (m : mode) (sets : list (list nat)) (lg : list sx) : Prop :=
  match m with MQueued _ dur => clause25_ok dur sets lg | _ => clause24_ok sets lg end.

Lemma success_of_clauses inp m sets source sink evs o0 o1 o2 o3 lg :
  conc_cfg inp = (m, sets, source, sink, evs) -> clauses_ok m sets lg ->
  mon_conc_success inp (L [o0; o1; o2; o3; L lg]) = [].
Proof.
  intros Hc H. unfold mon_conc_success. rewrite Hc.
  change (sx_list (sx_nth (L [o0; o1; o2; o3; L lg]) 4)) with lg.
  apply flat_map_nil_in. intros i Hi. apply in_seq in Hi. destruct Hi as [_ Hi]. cbn [Nat.add] in Hi. cbv zeta.
  destruct (index_where _ lg 0) as [p|] eqn:E1; [|reflexivity].
  destruct (index_where _ lg 0) as [st|] eqn:E2 in |- *; [|reflexivity].
  destruct m as [|lim|size dur]; cbn [clauses_ok] in H.
  - rewrite (H i p st Hi E1 E2). reflexivity.
  - rewrite (H i p st Hi E1 E2). reflexivity.
  - pose proof (H i p st Hi E1 E2) as X. unfold tstart_of in X. rewrite X. reflexivity.
Qed.

Lemma trace_clauses_ok m sets source sink tr s :
  run m (init_state sets source sink) tr = Some s -> clauses_ok m sets (tlog m (init_state sets source sink) tr).
Proof.
  intros H. destruct m as [|lim|size dur]; cbn [clauses_ok].
  - eapply dedup_clause24; exact H.
  - eapply limit_clause24; exact H.
  - eapply queued_clause25; exact H.
Qed.

Lemma clauses_ok_same_run m sets lg lg' : same_run lg lg' -> clauses_ok m sets lg -> clauses_ok m sets lg'.
Proof.
  intros S. destruct m as [|lim|size dur]; cbn [clauses_ok];
    [apply clause24_same_run|apply clause24_same_run|apply clause25_same_run]; exact S.
Qed.

(** Clauses 24 / 25 on the log of any trace ... *)
Theorem conc_success_silent_on_trace inp m sets source sink evs o0 o1 o2 o3 tr s :
  conc_cfg inp = (m, sets, source, sink, evs) ->
  run m (init_state sets source sink) tr = Some s ->
  mon_conc_success inp (L [o0; o1; o2; o3; L (tlog m (init_state sets source sink) tr)]) = [].
Proof. intros Hc H. eapply success_of_clauses; [exact Hc|eapply trace_clauses_ok; exact H]. Qed.

(** ... and on every rewrite of it that keeps each caller's lines in order and
    moves no line across a start event (Run/R17LogOrder.v). *)
Theorem conc_success_silent_any_write_order inp m sets source sink evs o0 o1 o2 o3 tr s lg' :
  conc_cfg inp = (m, sets, source, sink, evs) ->
  run m (init_state sets source sink) tr = Some s ->
  same_run (tlog m (init_state sets source sink) tr) lg' ->
  mon_conc_success inp (L [o0; o1; o2; o3; L lg']) = [].
Proof.
  intros Hc H S. eapply success_of_clauses; [exact Hc|]. eapply clauses_ok_same_run; [exact S|]. eapply trace_clauses_ok; exact H.
Qed.

(** The whole monitor on what the model itself shows along a trace: the
    maxima and sink of the state reached, the log of the trace. *)
Theorem mon_conc_silent_on_trace inp m sets source sink evs rounds tr s :
  conc_cfg inp = (m, sets, source, sink, evs) ->
  run m (init_state sets source sink) tr = Some s ->
  mon_conc inp (L [rounds; of_nat (maxkey s); of_nat (maxall s); of_nats (snk s);
                   L (tlog m (init_state sets source sink) tr)]) = [].
Proof.
  intros Hc H. rewrite mon_conc_split.
  replace (sx_eqb _ (L [A (-1)%Z])) with false by (cbn [sx_eqb]; rewrite andb_false_r; reflexivity).
  rewrite (conc_success_silent_on_trace inp m sets source sink evs _ _ _ _ tr s Hc H), app_nil_r.
  unfold mon_conc_counts. rewrite Hc.
  change (sx_nat (sx_nth (L [rounds; of_nat (maxkey s); of_nat (maxall s); of_nats (snk s); L (tlog m (init_state sets source sink) tr)]) 1))
    with (sx_nat (of_nat (maxkey s))).
  change (sx_nat (sx_nth (L [rounds; of_nat (maxkey s); of_nat (maxall s); of_nats (snk s); L (tlog m (init_state sets source sink) tr)]) 2))
    with (sx_nat (of_nat (maxall s))).
  rewrite !sx_nat_of_nat. pose proof (maxima_bounded m sets source sink tr s H) as B.
  unfold conc_counts. destruct m as [|lim|size dur]; cbn [bound_ok] in B;
    match goal with |- (if ?c then _ else _) = _ => assert (E : c = false) by (apply Nat.ltb_ge; exact B); rewrite E end; reflexivity.
Qed.

(** "Agree implies no violation" for all clauses: an observation the judge
    accepts, whose event log is the log of ANY trace of the model - or any
    rewrite of it in the sense of [same_run] - raises no clause.  (The judge
    does not read the log - [agreement_ignores_log] - so the accepted
    observation stays accepted.) *)
Theorem mon17_silent_on_accepted_any_write_order inp obs m sets source sink evs tr s lg' :
  sx_Z (sx_nth inp 0) = 2%Z -> agree17 inp obs = true ->
  conc_cfg inp = (m, sets, source, sink, evs) ->
  run m (init_state sets source sink) tr = Some s ->
  same_run (tlog m (init_state sets source sink) tr) lg' ->
  let obs' := L [sx_nth obs 0; sx_nth obs 1; sx_nth obs 2; sx_nth obs 3; L lg'] in
  agree17 inp obs' = true /\ mon17 inp obs' = [].
Proof.
  intros Hk Ha Hc H S obs'.
  assert (Ha' : agree17 inp obs' = true).
  { revert Ha. unfold agree17, judge17, judge_conc. rewrite Hk.
    change (run_conc inp obs') with (run_conc inp obs). destruct (run_conc inp obs) as [a mo]. rewrite !agree_verdict. auto. }
  split; [exact Ha'|].
  unfold mon17. rewrite Hk. rewrite mon_conc_split.
  replace (sx_eqb obs' (L [A (-1)%Z])) with false by (unfold obs'; cbn [sx_eqb]; rewrite andb_false_r; reflexivity).
  rewrite (conc_counts_silent_on_agreeing inp obs' Hk Ha'). cbn [app].
  exact (conc_success_silent_any_write_order inp m sets source sink evs _ _ _ _ tr s lg' Hc H S).
Qed.

Theorem mon17_silent_on_accepted_with_model_log inp obs m sets source sink evs tr s :
  sx_Z (sx_nth inp 0) = 2%Z -> agree17 inp obs = true ->
  conc_cfg inp = (m, sets, source, sink, evs) ->
  run m (init_state sets source sink) tr = Some s ->
  let obs' := L [sx_nth obs 0; sx_nth obs 1; sx_nth obs 2; sx_nth obs 3; L (tlog m (init_state sets source sink) tr)] in
  agree17 inp obs' = true /\ mon17 inp obs' = [].
Proof.
  intros Hk Ha Hc H. exact (mon17_silent_on_accepted_any_write_order inp obs m sets source sink evs tr s _ Hk Ha Hc H (same_run_refl _)).
Qed.

(** * C17L *)
Theorem results_silent_any_write_order inp m kinds sets source sink evs o0 o1 o2 o3 tr x lg' :
  cfgL inp = (m, kinds, sets, source, sink, evs) ->
  xrun kinds m (xinit kinds sets source sink) tr = Some x ->
  same_run (xlog kinds m (xinit kinds sets source sink) tr) lg' ->
  monL_results inp (L [o0; o1; o2; o3; L lg']) = [].
Proof.
  intros Hc H S. unfold monL_results. rewrite Hc.
  change (sx_list (sx_nth (L [o0; o1; o2; o3; L lg']) 4)) with lg'.
  apply mon_results_silent. eapply clause27_same_run; [exact S|]. eapply entry_clause27. exact H.
Qed.

Theorem results_silent_on_trace inp m kinds sets source sink evs o0 o1 o2 o3 tr x :
  cfgL inp = (m, kinds, sets, source, sink, evs) ->
  xrun kinds m (xinit kinds sets source sink) tr = Some x ->
  monL_results inp (L [o0; o1; o2; o3; L (xlog kinds m (xinit kinds sets source sink) tr)]) = [].
Proof. intros Hc H. eapply results_silent_any_write_order; [exact Hc|exact H|apply same_run_refl]. Qed.

Theorem mon17L_silent_on_accepted_any_write_order inp obs m kinds sets source sink evs tr x lg' :
  agreeL inp obs = true ->
  cfgL inp = (m, kinds, sets, source, sink, evs) ->
  xrun kinds m (xinit kinds sets source sink) tr = Some x ->
  same_run (xlog kinds m (xinit kinds sets source sink) tr) lg' ->
  let obs' := L [sx_nth obs 0; sx_nth obs 1; sx_nth obs 2; sx_nth obs 3; L lg'] in
  agreeL inp obs' = true /\ mon17L inp obs' = [].
Proof.
  intros Ha Hc H S obs'.
  assert (Ha' : agreeL inp obs' = true).
  { rewrite agreeL_run in *. change (run_L inp obs') with (run_L inp obs). exact Ha. }
  split; [exact Ha'|].
  rewrite mon17L_split.
  replace (sx_eqb obs' (L [A (-1)%Z])) with false by (unfold obs'; cbn [sx_eqb]; rewrite andb_false_r; reflexivity).
  destruct (bound_and_release_silent_on_accepted inp obs' Ha') as [-> ->]. cbn [app].
  exact (results_silent_any_write_order inp m kinds sets source sink evs _ _ _ _ tr x lg' Hc H S).
Qed.

Theorem mon17L_silent_on_accepted_with_model_log inp obs m kinds sets source sink evs tr x :
  agreeL inp obs = true ->
  cfgL inp = (m, kinds, sets, source, sink, evs) ->
  xrun kinds m (xinit kinds sets source sink) tr = Some x ->
  let obs' := L [sx_nth obs 0; sx_nth obs 1; sx_nth obs 2; sx_nth obs 3; L (xlog kinds m (xinit kinds sets source sink) tr)] in
  agreeL inp obs' = true /\ mon17L inp obs' = [].
Proof.
  intros Ha Hc H. exact (mon17L_silent_on_accepted_any_write_order inp obs m kinds sets source sink evs tr x _ Ha Hc H (same_run_refl _)).
Qed.
