(** C17 / C17L: the monitor clauses that read the event log (24, 25; 27) are
    silent on the event log of EVERY trace of the model's transition system
    (Compose/EventLog.v: [tlog], [xlog]); together with the clauses already
    proved silent on every accepted observation (21/22/23; 26) the whole
    monitor is silent on an accepted observation whose log is the log of a
    model trace. *)
From Coq Require Import List ZArith NArith Bool Arith Lia.
From BBS Require Import Common.Sx Common.ListX Run.MonSilentSx Compose.ExistenceCache Compose.ExistenceCacheProofs
  Compose.Replicators Compose.ReplicatorsProofs Compose.MonSilentRepl Compose.ReplEntry Compose.ReplEntryProofs
  Compose.EventLog Run.R17Conc Run.R17 Run.R17L Run.R17Proofs Run.R17LProofs
  Run.R17LogBase Run.R17LogLimit Run.R17LogQueued Run.R17LogDedup Run.R17LogEntry.
Import ListNotations.
Local Open Scope nat_scope.

(** * C17, kind 2 *)

(** Clauses 24 / 25 on the log of any trace. *)
Theorem conc_success_silent_on_trace inp m sets source sink evs o0 o1 o2 o3 tr s :
  conc_cfg inp = (m, sets, source, sink, evs) ->
  run m (init_state sets source sink) tr = Some s ->
  mon_conc_success inp (L [o0; o1; o2; o3; L (tlog m (init_state sets source sink) tr)]) = [].
Proof.
  intros Hc H. unfold mon_conc_success. rewrite Hc.
  change (sx_list (sx_nth (L [o0; o1; o2; o3; L (tlog m (init_state sets source sink) tr)]) 4))
    with (tlog m (init_state sets source sink) tr).
  apply flat_map_nil_in. intros i Hi. apply in_seq in Hi. destruct Hi as [_ Hi]. cbn [Nat.add] in Hi. cbv zeta.
  destruct (index_where _ (tlog m (init_state sets source sink) tr) 0) as [p|] eqn:E1; [|reflexivity].
  destruct (index_where _ (tlog m (init_state sets source sink) tr) 0) as [st|] eqn:E2 in |- *; [|reflexivity].
  destruct m as [|lim|size dur].
  - rewrite (dedup_clause24 sets source sink tr s H i p st Hi E1 E2). reflexivity.
  - rewrite (limit_clause24 lim sets source sink tr s H i p st Hi E1 E2). reflexivity.
  - pose proof (queued_clause25 size dur sets source sink tr s H i p st Hi E1 E2) as X.
    unfold tstart_of in X. rewrite X. reflexivity.
Qed.

(** The whole monitor on what the model itself shows along a trace: the
    maxima and sink of the state reached, the log of the trace. *)
Theorem mon_conc_silent_on_trace inp m sets source sink evs rounds tr s :
  conc_cfg inp = (m, sets, source, sink, evs) ->
  run m (init_state sets source sink) tr = Some s ->
  mon_conc inp (L [rounds; of_nat (maxkey s); of_nat (maxall s); of_nats (snk s);
                   L (tlog m (init_state sets source sink) tr)]) = [].
Proof.
  intros Hc H. rewrite mon_conc_split.
  replace (sx_eqb _ (L [A (-1)%Z])) with false by (cbn [sx_eqb]; rewrite andb_false_r; reflexivity).
  rewrite (conc_success_silent_on_trace inp m sets source sink evs _ _ _ _ tr s Hc H), app_nil_r.
  unfold mon_conc_counts. rewrite Hc.
  change (sx_nat (sx_nth (L [rounds; of_nat (maxkey s); of_nat (maxall s); of_nats (snk s); L (tlog m (init_state sets source sink) tr)]) 1))
    with (sx_nat (of_nat (maxkey s))).
  change (sx_nat (sx_nth (L [rounds; of_nat (maxkey s); of_nat (maxall s); of_nats (snk s); L (tlog m (init_state sets source sink) tr)]) 2))
    with (sx_nat (of_nat (maxall s))).
  rewrite !sx_nat_of_nat. pose proof (maxima_bounded m sets source sink tr s H) as B.
  unfold conc_counts. destruct m as [|lim|size dur]; cbn [bound_ok] in B;
    match goal with |- (if ?c then _ else _) = _ => assert (E : c = false) by (apply Nat.ltb_ge; exact B); rewrite E end; reflexivity.
Qed.

(** "Agree implies no violation" for all clauses: an observation the judge
    accepts, with the log of ANY trace of the model as its event log, raises
    no clause.  (The judge does not read the log - [agreement_ignores_log] -
    so the accepted observation stays accepted.) *)
Theorem mon17_silent_on_accepted_with_model_log inp obs m sets source sink evs tr s :
  sx_Z (sx_nth inp 0) = 2%Z -> agree17 inp obs = true ->
  conc_cfg inp = (m, sets, source, sink, evs) ->
  run m (init_state sets source sink) tr = Some s ->
  let obs' := L [sx_nth obs 0; sx_nth obs 1; sx_nth obs 2; sx_nth obs 3; L (tlog m (init_state sets source sink) tr)] in
  agree17 inp obs' = true /\ mon17 inp obs' = [].
Proof.
  intros Hk Ha Hc H obs'.
  assert (Ha' : agree17 inp obs' = true).
  { revert Ha. unfold agree17, judge17, judge_conc. rewrite Hk.
    change (run_conc inp obs') with (run_conc inp obs). destruct (run_conc inp obs) as [a mo]. rewrite !agree_verdict. auto. }
  split; [exact Ha'|].
  unfold mon17. rewrite Hk. rewrite mon_conc_split.
  replace (sx_eqb obs' (L [A (-1)%Z])) with false by (unfold obs'; cbn [sx_eqb]; rewrite andb_false_r; reflexivity).
  rewrite (conc_counts_silent_on_agreeing inp obs' Hk Ha'). cbn [app].
  exact (conc_success_silent_on_trace inp m sets source sink evs _ _ _ _ tr s Hc H).
Qed.

(** * C17L *)
Theorem results_silent_on_trace inp m kinds sets source sink evs o0 o1 o2 o3 tr x :
  cfgL inp = (m, kinds, sets, source, sink, evs) ->
  xrun kinds m (xinit kinds sets source sink) tr = Some x ->
  monL_results inp (L [o0; o1; o2; o3; L (xlog kinds m (xinit kinds sets source sink) tr)]) = [].
Proof.
  intros Hc H. unfold monL_results. rewrite Hc.
  change (sx_list (sx_nth (L [o0; o1; o2; o3; L (xlog kinds m (xinit kinds sets source sink) tr)]) 4))
    with (xlog kinds m (xinit kinds sets source sink) tr).
  apply mon_results_silent. eapply entry_clause27. exact H.
Qed.

Theorem mon17L_silent_on_accepted_with_model_log inp obs m kinds sets source sink evs tr x :
  agreeL inp obs = true ->
  cfgL inp = (m, kinds, sets, source, sink, evs) ->
  xrun kinds m (xinit kinds sets source sink) tr = Some x ->
  let obs' := L [sx_nth obs 0; sx_nth obs 1; sx_nth obs 2; sx_nth obs 3; L (xlog kinds m (xinit kinds sets source sink) tr)] in
  agreeL inp obs' = true /\ mon17L inp obs' = [].
Proof.
  intros Ha Hc H obs'.
  assert (Ha' : agreeL inp obs' = true).
  { rewrite agreeL_run in *. change (run_L inp obs') with (run_L inp obs). exact Ha. }
  split; [exact Ha'|].
  rewrite mon17L_split.
  replace (sx_eqb obs' (L [A (-1)%Z])) with false by (unfold obs'; cbn [sx_eqb]; rewrite andb_false_r; reflexivity).
  destruct (bound_and_release_silent_on_accepted inp obs' Ha') as [-> ->]. cbn [app].
  exact (results_silent_on_trace inp m kinds sets source sink evs _ _ _ _ tr x Hc H).
Qed.
