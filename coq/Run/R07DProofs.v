From Coq Require Import List ZArith Bool Arith Lia.
From BBS Require Import Common.Sx Common.SxFactsMA Persist.DirStore Persist.DirStoreProofs Run.R07D.
Import ListNotations.
Open Scope Z_scope.

(** reads of the model return a non-negative state id or nothing: every id
    in the directory was written by a decoded event *)
Definition nonneg_content (f : option file) : Prop :=
  match f with Some {| f_c := Full d |} => 0 <= d | _ => True end.
Definition nonneg_dir (s : dir) : Prop :=
  nonneg_content (v_state s) /\ nonneg_content (v_new s) /\ nonneg_content (d_state s) /\ nonneg_content (d_new s).
Definition nonneg_event (e : event) : Prop :=
  match e with EWrite d _ | EKill d _ => 0 <= d | _ => True end.

Lemma dec_event_nonneg s : nonneg_event (dec_event s).
Proof.
  unfold dec_event. destruct (sx_Z (sx_nth s 0)) as [|p|p]; try exact I.
  destruct p as [[p|p|]|[p|p|]|]; cbn [nonneg_event]; try exact I; apply Nat2Z.is_nonneg.
Qed.

Lemma settle_nonneg f : nonneg_content (Some f) -> nonneg_content (Some (settle f)).
Proof. unfold settle. destruct f as [c sy]. destruct sy; cbn; auto. Qed.

Lemma write_call_nonneg s d f killed : nonneg_dir s -> 0 <= d -> nonneg_dir (fst (fst (write_call s d f killed))).
Proof.
  intros (A & B & C & D) Hd. destruct s as [vs vn ds dn]. cbn in A, B, C, D.
  destruct f as [|[|[|[|[|[|[|[|f]]]]]]]]; cbn; repeat split; auto;
    try (destruct vn as [[c sy]|]; cbn; auto).
Qed.

Lemma dstep_nonneg s e : nonneg_dir s -> nonneg_event e -> nonneg_dir (fst (dstep s e)).
Proof.
  intros Hs He. destruct e as [d f|d k| |]; cbn [dstep].
  - pose proof (write_call_nonneg s d f false Hs He) as H. destruct (write_call s d f false) as [[s' ok] log]. exact H.
  - pose proof (write_call_nonneg s d k true Hs He) as H. destruct (write_call s d k true) as [[s' ok] log]. exact H.
  - destruct Hs as (A & B & C & D). unfold power, nonneg_dir. cbn.
    destruct (d_state s) as [f|]; destruct (d_new s) as [g|]; cbn; repeat split; auto; apply settle_nonneg; assumption.
  - exact Hs.
Qed.

Lemma dec_enc_eobs s e : nonneg_dir s -> dec_eobs (enc_eobs (snd (dstep s e))) = snd (dstep s e).
Proof.
  intros Hs. destruct e as [d f|d k| |]; cbn [dstep].
  - destruct (write_call s d f false) as [[s' ok] log]. cbn [snd enc_eobs]. unfold dec_eobs. cbn [sx_nth sx_list nth sx_Z].
    rewrite sx_bool_of_bool, sx_Zs_of_Zs. reflexivity.
  - destruct (write_call s d k true) as [[s' ok] log]. cbn [snd enc_eobs]. unfold dec_eobs. cbn [sx_nth sx_list nth sx_Z].
    rewrite sx_Zs_of_Zs. reflexivity.
  - reflexivity.
  - cbn [snd enc_eobs]. unfold dec_eobs. cbn [sx_nth sx_list nth sx_Z].
    destruct Hs as (A & _). unfold read_state. destruct (v_state s) as [[c sy]|]; cbn; [|reflexivity].
    destruct c as [|d|]; cbn; try reflexivity. cbn in A.
    destruct (d <? 0) eqn:E; [apply Z.ltb_lt in E; lia|reflexivity].
Qed.

Lemma map_dec_enc : forall es s, nonneg_dir s -> Forall nonneg_event es ->
  map dec_eobs (map enc_eobs (drun s es)) = drun s es.
Proof.
  induction es as [|e t IH]; intros s Hs He; cbn [drun map]; [reflexivity|].
  inversion He as [|? ? He1 He2]; subst.
  pose proof (dec_enc_eobs s e Hs) as R. pose proof (dstep_nonneg s e Hs He1) as N.
  destruct (dstep s e) as [s' o]. cbn [map snd fst] in *. rewrite R, (IH s' N He2). reflexivity.
Qed.

Theorem mon07D_silent inp : mon07D inp (run07D inp) = [].
Proof.
  unfold mon07D, run07D. cbn [sx_list].
  rewrite map_dec_enc.
  - rewrite monitor_silent_on_every_history. reflexivity.
  - repeat split; exact I.
  - unfold dec_events. apply Forall_forall. intros e He. apply in_map_iff in He. destruct He as (s & <- & _).
    apply dec_event_nonneg.
Qed.
