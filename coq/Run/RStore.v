(** Shared sx interface of the local-store model (C01, C04, C05, C08, C10):
    decoders, the run producing one predicted observation per event, and the
    ghost information the monitors use. *)
From BBS Require Import Common.Sx Store.Model.
Open Scope Z_scope.

Definition dec_cfg (s : sx) : config :=
  {| c_bs := sx_N (sx_nth s 0); c_old := sx_nat (sx_nth s 1); c_cur := sx_nat (sx_nth s 2);
     c_new := sx_nat (sx_nth s 3); c_mutable := sx_bool (sx_nth s 4); c_nblocks := sx_nat (sx_nth s 5);
     c_hier := sx_bool (sx_nth s 6); c_inst_keys := sx_bool (sx_nth s 7); c_validate := sx_bool (sx_nth s 8) |}.

Definition dec_world (inp : sx) : world :=
  {| w_cfg := dec_cfg (sx_nth inp 0);
     w_objs := map sx_Ns (sx_list (sx_nth inp 1));
     w_anc := map sx_nats (sx_list (sx_nth inp 2)) |}.

Definition dec_op (s : sx) : op :=
  let a i := sx_nth s i in
  match sx_Z (a 0%nat) with
  | 1 => OPutStart (sx_nat (a 1%nat)) (sx_nat (a 2%nat)) (sx_nat (a 3%nat))
  | 2 => OPutChunk (sx_nat (a 1%nat)) (sx_Ns (a 2%nat))
  | 3 => OPutEnd (sx_nat (a 1%nat)) (sx_Z (a 2%nat))
  | 4 => OGetOpen (sx_nat (a 1%nat)) (sx_nat (a 2%nat)) (sx_nat (a 3%nat))
  | 5 => OGetConsume (sx_nat (a 1%nat))
  | 6 => OFindMissing (map (fun d => (sx_nat (sx_nth d 0), sx_nat (sx_nth d 1))) (sx_list (a 1%nat)))
  | 7 => OGfcStart (sx_nat (a 1%nat)) (sx_nat (a 2%nat)) (sx_nat (a 3%nat)) (sx_nat (a 4%nat))
  | 8 => OGfcSlice (sx_nat (a 1%nat))
                   (map (fun d => (sx_nat (sx_nth d 0), (sx_N (sx_nth d 1), sx_N (sx_nth d 2)))) (sx_list (a 2%nat)))
  | _ => OCorrupt (sx_nat (a 1%nat)) (sx_N (a 2%nat)) (sx_N (a 3%nat))
  end.
Definition dec_ops (inp : sx) : list op := map dec_op (sx_list (sx_nth inp 3)).

(** states after each event, with the output of the event *)
Fixpoint run_states (w : world) (s : state) (es : list op) : list (state * state * out) :=
  match es with
  | [] => []
  | e :: t => let '(s1, o) := step w s e in (s, s1, o) :: run_states w s1 t
  end.

Definition is_reader (t : thread) : bool :=
  match t with TGet _ _ _ _ _ | TGfc _ _ _ _ _ _ => true | _ => false end.
Definition open_readers (s : state) : nat := length (filter (fun e => is_reader (snd e)) (s_threads s)).
Definition live_blocks (s : state) : nat := (length (s_blocks s) + length (s_zombies s))%nat.

Definition completes_put (e : op) (o : out) : bool :=
  match e, o with
  | OPutStart _ _ _, Done _ _ | OPutChunk _ _, Done _ _ | OPutEnd _ _, Done _ _ => true
  | _, _ => false
  end.

(** observation: (kind code payload negs live open srcclosed writes) *)
Definition enc_obs (c : config) (e : op) (s0 s1 : state) (o : out) : sx :=
  let bd := negb (in_memory c) in
  let tail := [of_nat (s_negs s1 - s_negs s0);
               if bd then of_nat (live_blocks s1) else A (-1);
               if bd then of_nat (open_readers s1) else A (-1);
               if completes_put e o then A 1 else A (-1);
               A (-1)] in
  match o with
  | Done code bytes => L ([A 0; A code; of_Ns bytes] ++ tail)
  | Parked => L ([A 1; A 0; L []] ++ tail)
  | Missing code ds => L ([A 2; A code; of_nats ds] ++ tail)
  | Bad => L [A 3]
  end.

Definition run_store (inp : sx) : sx :=
  let w := dec_world inp in
  let es := dec_ops inp in
  L (map (fun '(e, (s0, s1, o)) => enc_obs (w_cfg w) e s0 s1 o)
         (combine es (run_states w (init_state (w_cfg w)) es))).

(** agreement ignores the last field (number of device writes: observed only) *)
Definition obs_agree (m o : sx) : bool :=
  sx_eqb (L (firstn 7 (sx_list m))) (L (firstn 7 (sx_list o))).
Fixpoint all2b (f : sx -> sx -> bool) (a b : list sx) : bool :=
  match a, b with
  | [], [] => true
  | x :: a', y :: b' => f x y && all2b f a' b'
  | _, _ => false
  end.

Definition judge_store (mon : sx -> sx -> list Z) (inp obs : sx) : sx :=
  let m := run_store inp in
  let v := mon inp obs in
  verdict (all2b obs_agree (sx_list m) (sx_list obs))
          (negb (match v with [] => true | _ => false end)) m (of_Zs v).

(** accessors on observations *)
Definition ob_kind (o : sx) : Z := sx_Z (sx_nth o 0).
Definition ob_code (o : sx) : Z := sx_Z (sx_nth o 1).
Definition ob_bytes (o : sx) : list N := sx_Ns (sx_nth o 2).
Definition ob_negs (o : sx) : Z := sx_Z (sx_nth o 3).
Definition ob_live (o : sx) : Z := sx_Z (sx_nth o 4).
Definition ob_open (o : sx) : Z := sx_Z (sx_nth o 5).
Definition ob_srcclosed (o : sx) : Z := sx_Z (sx_nth o 6).
Definition ob_writes (o : sx) : Z := sx_Z (sx_nth o 7).
Definition ob_ok (o : sx) : bool := Z.eqb (ob_kind o) 0 && Z.eqb (ob_code o) 0.

(** debugging aid (not used by any check): model observations followed by a
    state summary (old cur new released tbr attempts blocks zombies free). *)
Definition enc_block (b : block) : sx := L [of_nat (b_uid b); of_nat (b_region b); of_N (b_cursor b); of_nat (b_use b)].
Definition enc_state (s : state) : sx :=
  L [of_nat (s_old s); of_nat (s_cur s); of_nat (s_new s); of_N (s_released s); of_N (s_tbr s);
     of_nat (s_attempts s); match s_aidx s with None => A (-1) | Some i => of_nat i end;
     L (map enc_block (s_blocks s)); L (map enc_block (s_zombies s)); of_nats (s_free s)].
Definition judge_store_debug (inp obs : sx) : sx :=
  let w := dec_world inp in
  let es := dec_ops inp in
  verdict false false
    (L (map (fun '(e, (s0, s1, o)) => L [enc_obs (w_cfg w) e s0 s1 o; enc_state s1])
            (combine es (run_states w (init_state (w_cfg w)) es)))) (L []).
