(** C20X (sub-check of C20): chains of digest set operations on derived sets.
    Definitions only: set programs over an environment of sets, the sx interface,
    [run20X], the monitor [mon20X], [judge20X].

    Input  (universe sets prog)
      universe entry = (inst fn hash size), set = indices into the universe (as kind 6 of C20)
      instruction    = (0 i j)       GetDifferenceAndIntersection env[i] env[j] -> onlyA both onlyB
                       (1 i1 .. ik)  GetUnion [env[i1]; ..; env[ik]]            -> one set
                       (2 i)         PartitionByInstanceName env[i]             -> its partitions
                       (3 i)         RemoveEmptyBlob env[i]                     -> one set
      The environment starts as the built sets; every instruction appends its
      outputs; an index beyond the environment denotes the empty set.
    Observation (keys built steps), step = (0 (set ..)) | (-1) for a panic. *)
From BBS Require Import Common.Sx Generated.Consts Digest.DigestModel Digest.SetModel Run.R20.
Open Scope Z_scope.

Inductive instr : Type :=
| IDiff (i j : nat)
| IUnion (ixs : list nat)
| IPart (i : nat)
| IRem (i : nat)
| INop.

Definition dec_instr (s : sx) : instr :=
  match sx_list s with
  | [] => INop
  | op :: args =>
      let arg k := sx_nat (nth k args (L [])) in
      match sx_Z op with
      | 0 => IDiff (arg 0%nat) (arg 1%nat)
      | 1 => IUnion (map sx_nat args)
      | 2 => IPart (arg 0%nat)
      | 3 => IRem (arg 0%nat)
      | _ => INop
      end
  end.

Definition env_get (env : list (list bytes)) (i : nat) : list bytes := nth i env [].

(** one instruction on the model's sets *)
Definition exec_instr (env : list (list bytes)) (ins : instr) : outcome (list (list bytes)) :=
  match ins with
  | IDiff i j => let '(oa, bo, ob) := diff_inter (env_get env i) (env_get env j) in Ok [oa; bo; ob]
  | IUnion ixs => Ok [union (map (env_get env) ixs)]
  | IPart i => partition_by_instance_name (env_get env i)
  | IRem i => s <- remove_empty_blob (env_get env i) ;; Ok [s]
  | INop => Ok []
  end.

Definition env_after (env : list (list bytes)) (o : outcome (list (list bytes))) : list (list bytes) :=
  match o with Ok outs => env ++ outs | _ => env end.

(** the outcome of every instruction, in program order *)
Fixpoint exec_prog (env : list (list bytes)) (p : list instr) : list (outcome (list (list bytes))) :=
  match p with
  | [] => []
  | ins :: r => let o := exec_instr env ins in o :: exec_prog (env_after env o) r
  end.

(** the environment after the program *)
Fixpoint final_env (env : list (list bytes)) (p : list instr) : list (list bytes) :=
  match p with
  | [] => env
  | ins :: r => final_env (env_after env (exec_instr env ins)) r
  end.

Definition built_of (us : list bytes) (sets : sx) : list (list bytes) :=
  map (fun s => build (map (fun i => nth i us []) (sx_nats s))) (sx_list sets).

Definition run20X (inp : sx) : sx :=
  match map_outcome dec_entry (sx_list (sx_nth inp 0)) with
  | Ok us =>
      let built := built_of us (sx_nth inp 1) in
      let prog := map dec_instr (sx_list (sx_nth inp 2)) in
      L [enc_list us; enc_sets built; L (map (enc_out enc_sets) (exec_prog built prog))]
  | _ => L [A (-9)]
  end.

(** ** Monitor: the property on the implementation's observation.  The environment
    is rebuilt from the OBSERVED outputs; every instruction's observed outputs are
    compared with the mathematical result computed from its observed inputs
    (specification vocabulary only: byte order, membership, filter). *)

Definition dec_sets (s : sx) : list (list bytes) := map (fun s => map sxb (sx_list s)) (sx_list s).

(** entry of a key, found through the implementation's own keys *)
Definition x_entry_of (entries : list sx) (us : list bytes) (x : bytes) : sx :=
  match find (fun i => beqb (nth i us []) x) (seq 0 (length entries)) with
  | Some i => nth i entries (L [])
  | None => L []
  end.
Definition x_inst_of entries us x := sxb (sx_nth (x_entry_of entries us x) 0).
Definition x_size_of entries us x := sx_Z (sx_nth (x_entry_of entries us x) 3).

Definition diff_ok (a b oa bo ob : list bytes) : bool :=
  strictly_sorted oa && strictly_sorted bo && strictly_sorted ob
  && same_set oa (filter (fun x => negb (memb x b)) a)
  && same_set bo (filter (fun x => memb x b) a)
  && same_set ob (filter (fun x => negb (memb x a)) b).

(** clauses (numbers as in C20): 12 GetDifferenceAndIntersection, 11 GetUnion,
    13 PartitionByInstanceName, 14 RemoveEmptyBlob, 18 an unknown instruction produced sets *)
Definition check_instr (entries : list sx) (us : list bytes) (env : list (list bytes)) (ins : instr) (st : sx) : list Z :=
  let outs := dec_sets (ok_val st) in
  match ins with
  | IDiff i j =>
      flag 12 (negb (match outs with
                     | [oa; bo; ob] => diff_ok (env_get env i) (env_get env j) oa bo ob
                     | _ => false
                     end))
  | IUnion ixs =>
      flag 11 (negb (match outs with
                     | [u] => strictly_sorted u && same_set u (concat (map (env_get env) ixs))
                     | _ => false
                     end))
  | IPart i =>
      let s := env_get env i in
      flag 13 (negb (sx_eqb st (L [A 0; enc_sets (map (fun k => filter (fun x => beqb (x_inst_of entries us x) k) s)
                                                       (first_occ [] (map (x_inst_of entries us) s)))])))
  | IRem i =>
      flag 14 (negb (sx_eqb st (L [A 0; enc_sets [filter (fun x => negb (x_size_of entries us x =? 0)) (env_get env i)]])))
  | INop => flag 18 (negb (match outs with [] => true | _ => false end))
  end.

(** 9 = panic (or any step that is not of the form (0 outputs)); 19 = the number of
    observed steps differs from the number of instructions *)
Fixpoint mon_prog (entries : list sx) (us : list bytes) (env : list (list bytes)) (p : list instr) (steps : list sx) : list Z :=
  match p, steps with
  | [], [] => []
  | ins :: p', st :: steps' =>
      if is_ok st
      then check_instr entries us env ins st ++ mon_prog entries us (env ++ dec_sets (ok_val st)) p' steps'
      else 9 :: mon_prog entries us env p' steps'
  | _, _ => [19]
  end.

(** 6 = keys of distinct entries coincide / of equal entries differ; 10 = Build *)
Definition keys_bad (entries : list sx) (us : list bytes) : bool :=
  negb (forallb (fun i => forallb (fun j =>
          Bool.eqb (beqb (nth i us []) (nth j us [])) (sx_eqb (nth i entries (L [])) (nth j entries (L []))))
        (seq 0 (length entries))) (seq 0 (length entries)))
  || negb (Nat.eqb (length us) (length entries)).

Definition built_bad (sets : list (list nat)) (us : list bytes) (built : list (list bytes)) : bool :=
  negb (Nat.eqb (length built) (length sets))
  || negb (forallb (fun p : list nat * list bytes => strictly_sorted (snd p)
                               && same_set (snd p) (map (fun i => nth i us []) (fst p)))
                   (combine sets built)).

Definition mon20X_raw (inp obs : sx) : list Z :=
  let entries := sx_list (sx_nth inp 0) in
  let sets := map sx_nats (sx_list (sx_nth inp 1)) in
  let prog := map dec_instr (sx_list (sx_nth inp 2)) in
  let us := map sxb (sx_list (sx_nth obs 0)) in
  let built := dec_sets (sx_nth obs 1) in
  match obs with
  | L [_; _; L steps] =>
      flag 6 (keys_bad entries us) ++ flag 10 (built_bad sets us built) ++
      mon_prog entries us built prog steps
  | _ => [9]
  end.

(** each violated clause is reported once *)
Definition mon20X (inp obs : sx) : list Z := nodup Z.eq_dec (mon20X_raw inp obs).

Definition judge20X (inp obs : sx) : sx := judge_det run20X mon20X inp obs.
