(** C04P, "the monitor is silent on the model" — part 4: the model's
    allocator accounting against the abstract accounting, one operation, the
    whole run, and the theorem [mon04P_silent_on_model]. *)
From Coq Require Import List NArith ZArith Bool Arith Lia Permutation.
From BBS Require Import Common.Sx Persist.PBL Persist.PBLProofs Persist.Syncer Persist.SyncerProofs
  Persist.LiveActs Persist.LiveCover Persist.LiveRelease Run.R07 Run.R04P Run.R07MonBase Run.R07MonOps
  Run.R07MonC123 Run.R07MonCov1 Run.R07MonCov2 Run.R07MonOps2 Run.R07MonCov3 Run.R07MonTop
  Run.R04PMonAcc Run.R04PMonTraj Run.R04PMonOps.
Import ListNotations.
Local Open Scope nat_scope.

Definition apbl (a : ast) : pbl := s_pbl (x_sys (a_x a)).

Record arel (a : ast) (c : acc) : Prop := mkArel {
  ar_ids : length (a_ids a) = length (blocks (apbl a));
  ar_listed : c_listed c = combine (a_ids a) (offs (apbl a));
  ar_popped : c_rel c ++ c_pend c = a_popped a;
  ar_nrel : length (c_rel c) = length (releasedLog (apbl a));
  ar_pend : map snd (c_pend c) = map fst (toRelease (apbl a));
  ar_free : c_free c = a_free a;
  ar_wr : c_wr c = match writing_state (x_sys (a_x a)) with
                   | Some st => Some (x_nwr (a_x a), releasing (apbl a), st_regs st)
                   | None => None
                   end;
  ar_next : forall id, In id (map fst (a_popped a) ++ a_ids a) -> id < a_next a
}.

(** ---- list facts ---- *)
Lemma combine_app {A B} (l1 l1' : list A) (l2 l2' : list B) : length l1 = length l2 ->
  combine (l1 ++ l1') (l2 ++ l2') = combine l1 l2 ++ combine l1' l2'.
Proof.
  revert l2. induction l1 as [|a r IH]; intros [|b r2] H; try discriminate; cbn; [reflexivity|].
  rewrite IH by (cbn in H; lia). reflexivity.
Qed.

Lemma map_fst_combine {A B} (l1 : list A) (l2 : list B) : length l1 = length l2 -> map fst (combine l1 l2) = l1.
Proof. revert l2. induction l1 as [|a r IH]; intros [|b r2] H; try discriminate; cbn; [reflexivity|]. rewrite IH by (cbn in H; lia). reflexivity. Qed.

Lemma map_snd_combine {A B} (l1 : list A) (l2 : list B) : length l1 = length l2 -> map snd (combine l1 l2) = l2.
Proof. revert l2. induction l1 as [|a r IH]; intros [|b r2] H; try discriminate; cbn; [reflexivity|]. rewrite IH by (cbn in H; lia). reflexivity. Qed.

Lemma offs_len p : length (offs p) = length (blocks p).
Proof. unfold offs. apply map_length. Qed.

Lemma skip_first {A} (l1 l2 : list A) k : skipn (length l1) (firstn (length l1 + k) (l1 ++ l2)) = firstn k l2.
Proof.
  rewrite firstn_app, firstn_all2 by lia. replace (length l1 + k - length l1) with k by lia.
  rewrite skipn_app, skipn_all, Nat.sub_diag. reflexivity.
Qed.

Lemma writer_writing s t : writer s = Some t -> exists st, writing_state s = Some st.
Proof.
  intros H. destruct (writer_cases _ _ H) as [[_ [st Er]]|[_ [k [st Ep]]]]; unfold writing_state.
  - rewrite Er. eauto.
  - rewrite Ep. destruct (s_r s) as [| |[]]; eauto.
Qed.

Lemma writing_writer s st : writing_state s = Some st -> exists t, writer s = Some t.
Proof.
  unfold writing_state, writer. destruct (s_r s) as [| |[]]; try (intros H; eauto; fail);
    destruct (s_p s) as [| | | | | | | |k []|]; intros H; try discriminate; eauto.
Qed.

Section Top4.
Variable cfg : config.
Variable alloc : loc -> Z -> bool.
Variable oldest : N.
Variable init : list bstate.
Variable t0 : N.
Notation good := (good cfg alloc oldest init t0).

(** ---- stage 1: the operation itself ---- *)
Lemma op_sim nreg m a c op : prel nreg m c -> arel a c -> good (x_sys (a_x a)) -> quiet cfg (x_sys (a_x a)) ->
  exists a1 res ev1 c1, do_op_a cfg op a = Ok (a1, res, ev1) /\ good (x_sys (a_x a1)) /\ arel a1 c1
    /\ length (releasedLog (apbl a1)) = length (releasedLog (apbl a)) /\ x_nwr (a_x a1) = x_nwr (a_x a)
    /\ ((wwritten (x_sys (a_x a1)) = false /\ prel nreg (fold_left pm_event ev1 m) c1) \/
        (wwritten (x_sys (a_x a1)) = true /\ exists w, prelD nreg (fold_left pm_event ev1 m) c1 (releasing (apbl a1)) w)).
Proof.
  intros P R G Q. pose proof (good_inv1 _ _ _ _ _ _ G) as II.
  pose proof (quiet_not_wwritten _ _ _ _ _ _ G Q) as Hnw.
  destruct R as [R1 R2 R3 R4 R5 R6 R7 R8]. unfold apbl in *.
  assert (Hsame : forall r0 : sx, exists a1 res ev1 c1, @Ok (ast * sx * list sx) (a, r0, @nil sx) = Ok (a1, res, ev1) /\ good (x_sys (a_x a1)) /\ arel a1 c1
    /\ length (releasedLog (apbl a1)) = length (releasedLog (s_pbl (x_sys (a_x a)))) /\ x_nwr (a_x a1) = x_nwr (a_x a)
    /\ ((wwritten (x_sys (a_x a1)) = false /\ prel nreg (fold_left pm_event ev1 m) c1) \/
        (wwritten (x_sys (a_x a1)) = true /\ exists w, prelD nreg (fold_left pm_event ev1 m) c1 (releasing (apbl a1)) w))).
  { intros r0. exists a, r0, [], c. split; [reflexivity|]. split; [exact G|]. split; [constructor; auto|].
    split; [reflexivity|]. split; [reflexivity|]. left. split; [exact Hnw|exact P]. }
  destruct (do_op_a_cases cfg op a) as [[Hc ->]|[[Hc ->]|[N3 [N4 ->]]]].
  - (* PopFront *)
    unfold opa3. destruct (blocks (s_pbl (x_sys (a_x a)))) as [|b rest] eqn:Eb.
    { apply Hsame. }
    destruct (a_ids a) as [|id ids'] eqn:Ei; [cbn in R1; discriminate|].
    destruct (pop_front_inv _ (proj1 II)) as [p' [Hpop _]]; [rewrite Eb; discriminate|].
    unfold env_step. cbn [step]. rewrite Eb, Hpop.
    destruct (pop_fields _ _ _ _ Eb Hpop) as [Fb [_ [_ [Ft [_ [_ [Ftr [Frg [Frl _]]]]]]]]].
    assert (Hs : step cfg (x_sys (a_x a)) EPopFront = Some (Ok (x_sys (x_with_sys (a_x a) (with_pbl (x_sys (a_x a)) p'))))).
    { cbn [step]. rewrite Eb, Hpop. reflexivity. }
    assert (El : c_listed c = (id, fst (b_loc b)) :: combine ids' (offs p')).
    { rewrite R2. unfold offs. rewrite Eb, Fb. reflexivity. }
    eexists _, _, _, (mkAcc (combine ids' (offs p')) (c_rel c) (c_pend c ++ [(id, fst (b_loc b))]) (c_free c) (c_wr c)).
    split; [reflexivity|]. cbn [a_x]. split; [eapply step_good; eauto|]. split; [|split; [|split]].
    + constructor; unfold apbl; cbn [a_x a_ids a_popped a_free a_next c_listed c_rel c_pend c_free c_wr x_with_sys x_sys s_pbl with_pbl
                                        x_nwr s_r s_p writing_state]; auto.
      * rewrite Fb. cbn in R1. lia.
      * rewrite app_assoc, R3. reflexivity.
      * rewrite Frl. exact R4.
      * rewrite Ftr, !map_app, R5. reflexivity.
      * rewrite R7, Frg. unfold writing_state. reflexivity.
      * intros id0 Hi. apply R8. rewrite map_app in Hi. cbn [map fst] in Hi.
        apply in_app_or in Hi. apply in_or_app. destruct Hi as [Hi|Hi].
        -- apply in_app_or in Hi. destruct Hi as [Hi|[<-|[]]]; [left; exact Hi|right; left; reflexivity].
        -- right. right. exact Hi.
    + unfold apbl. cbn. rewrite Frl. reflexivity.
    + reflexivity.
    + left. split.
      * unfold wwritten in *. cbn. exact Hnw.
      * cbn [fold_left]. apply (ev_pop nreg m c id (fst (b_loc b)) (combine ids' (offs p')) P El).
  - (* PushBack *)
    unfold opa4. cbv zeta.
    destruct (sx_bool (sx_nth op 1)); [|unfold push_back; destruct (closedForWriting _); cbn; apply Hsame].
    destruct (a_free a) as [|f fr] eqn:Ef; [unfold push_back; destruct (closedForWriting _); cbn; apply Hsame|].
    unfold push_back at 1. destruct (closedForWriting (s_pbl (x_sys (a_x a)))) eqn:Ec; [cbn; apply Hsame|].
    cbn [snd]. unfold env_step. cbn [step].
    set (p' := fst (push_back (Some (f, 100%Z)) (s_pbl (x_sys (a_x a))))).
    assert (Ep' : p' = set_blocks (s_pbl (x_sys (a_x a))) (blocks (s_pbl (x_sys (a_x a))) ++ [mkBinfo (f, 100%Z) 0 0 0 0])).
    { unfold p', push_back. rewrite Ec. reflexivity. }
    assert (Hs : step cfg (x_sys (a_x a)) (EPushBack (Some (f, 100%Z))) = Some (Ok (with_pbl (x_sys (a_x a)) p'))) by reflexivity.
    eexists _, _, _, (mkAcc (c_listed c ++ [(a_next a, f)]) (c_rel c) (c_pend c) fr (c_wr c)).
    split; [reflexivity|]. cbn [a_x x_set_nalloc x_sys x_with_sys]. split; [eapply step_good; eauto|]. split; [|split; [|split]].
    + constructor; unfold apbl; cbn [a_x a_ids a_popped a_free a_next c_listed c_rel c_pend c_free c_wr x_set_nalloc x_with_sys x_sys s_pbl with_pbl
                                        x_nwr s_r s_p tl]; fold p'; rewrite ?Ep'; cbn [blocks set_blocks releasedLog toRelease releasing]; auto.
      * rewrite !app_length. cbn. lia.
      * unfold offs at 1. cbn [blocks set_blocks]. rewrite map_app. cbn [map b_loc fst].
        rewrite R2. fold (offs (s_pbl (x_sys (a_x a)))). rewrite combine_app by (rewrite offs_len; exact R1). reflexivity.
      * intros id0 Hi. apply in_app_or in Hi. destruct Hi as [Hi|Hi].
        -- specialize (R8 id0 (in_or_app _ _ _ (or_introl Hi))). lia.
        -- apply in_app_or in Hi. destruct Hi as [Hi|[<-|[]]]; [|lia]. specialize (R8 id0 (in_or_app _ _ _ (or_intror Hi))). lia.
    + unfold apbl. cbn. fold p'. rewrite Ep'. reflexivity.
    + reflexivity.
    + left. split; [unfold wwritten in *; cbn; exact Hnw|]. cbn [fold_left fst].
      apply (ev_push nreg m c (a_next a) f fr P); [rewrite R6; first [exact Ef|reflexivity]|].
      intros Hi. rewrite app_assoc, map_app, R3, R2, map_fst_combine in Hi by (rewrite offs_len; exact R1).
      specialize (R8 _ Hi). lia.
  - (* the other operations *)
    unfold opaX. cbv zeta.
    destruct (Z.eq_dec (tag op) 6) as [E6|N6].
    + rewrite E6. cbn [Z.eqb Pos.eqb]. destruct (writer (x_sys (a_x a))) as [t|] eqn:Ew.
      * destruct (write_completes _ _ _ _ _ op (a_x a) t G E6 Ew) as [x1 [res [Hd [G1 [Hp [Hn [Hws Hww]]]]]]].
        rewrite Hd. destruct (writer_writing _ _ Ew) as [st Hst]. rewrite Hst in R7.
        eexists _, _, _, (mkAcc (c_listed c) (c_rel c) (c_pend c) (c_free c) None).
        split; [reflexivity|]. cbn [a_x]. split; [exact G1|]. split; [|split; [|split]].
        -- constructor; unfold apbl; cbn [a_x a_ids a_popped a_free a_next c_listed c_rel c_pend c_free c_wr]; rewrite ?Hp; auto.
           rewrite Hws. reflexivity.
        -- unfold apbl. cbn. rewrite Hp. reflexivity.
        -- exact Hn.
        -- cbn [fold_left]. rewrite Hww. destruct (sx_bool (sx_nth op 1)).
           ++ right. split; [reflexivity|]. unfold apbl. cbn [a_x]. rewrite Hp. eapply ev_done_ok; eauto.
           ++ left. split; [reflexivity|]. eapply ev_done_fail; eauto.
      * destruct (do_op_cases cfg op (a_x a)) as [[E _]|[[E _]|[[E _]|[[E _]|[[E _]|[[_ E]|[[E _]|[[E _]|[[E _]|[[E _]|[[E _]|[E _]]]]]]]]]]]];
          try lia.
        rewrite E. unfold op6. cbv zeta. rewrite Ew. unfold d_noop. cbv iota beta.
        assert (Heta : mkAst (a_x a) (a_free a) (a_ids a) (a_popped a) (a_next a) = a) by (destruct a; reflexivity).
        rewrite Heta. apply Hsame.
    + assert (Z.eqb (tag op) 6 = false) as -> by (apply Z.eqb_neq; exact N6).
      destruct (do_op_tri _ _ _ _ _ op (a_x a) G) as [x1 [res [Hd T]]]. rewrite Hd.
      destruct (other_ops _ _ _ _ _ op (a_x a) x1 res G Q N3 N4 N6 T) as [Ho [Hr [Hw [Hww Hn]]]].
      unfold rfields in Hr. injection Hr as Hr1 Hr2 Hr3.
      exists (mkAst x1 (a_free a) (a_ids a) (a_popped a) (a_next a)), res, [], c.
      split; [reflexivity|]. cbn [a_x]. split; [eapply tri_good; eauto|]. split; [|split; [|split]].
      * constructor; unfold apbl; cbn [a_x a_ids a_popped a_free a_next]; auto.
        -- rewrite <- offs_len, Ho, offs_len. exact R1.
        -- rewrite Ho. exact R2.
        -- rewrite Hr1. exact R4.
        -- rewrite Hr2. exact R5.
        -- rewrite Hw, Hn, Hr3. exact R7.
      * unfold apbl. cbn. rewrite Hr1. reflexivity.
      * exact Hn.
      * left. split; [congruence|exact P].
Qed.

(** ---- stage 2: the Release() calls of one NotifyPersistentStateWritten ---- *)
Definition rel_ev (p : nat * Z) : sx := L [A 2%Z; of_nat (fst p); A (snd p); A 0%Z].

Lemma fold_releases nreg : forall k m c w, prelD nreg m c k w ->
  prelD nreg (fold_left pm_event (map rel_ev (firstn k (c_pend c))) m)
        (mkAcc (c_listed c) (c_rel c ++ firstn k (c_pend c)) (skipn k (c_pend c))
               (c_free c ++ map snd (firstn k (c_pend c))) None) 0 w.
Proof.
  induction k as [|k IH]; intros m c w D.
  - cbn [firstn skipn map fold_left]. rewrite !app_nil_r. destruct c. cbn. pose proof (d_wr _ _ _ _ _ D) as Hw. cbn in Hw. subst. exact D.
  - pose proof (d_w _ _ _ _ _ D) as [Hk _]. destruct (c_pend c) as [|[id off] pend'] eqn:Ep; [cbn in Hk; lia|].
    pose proof (ev_release nreg m c k w id off pend' D Ep) as D'.
    specialize (IH _ _ _ D'). cbn [c_listed c_rel c_pend c_free] in IH.
    cbn [firstn skipn map fold_left rel_ev fst snd]. rewrite <- !app_assoc in IH. cbn [app] in IH. exact IH.
Qed.

Lemma step_sim nreg m a c op h :
  prel nreg m c -> arel a c -> good (x_sys (a_x a)) -> quiet cfg (x_sys (a_x a)) ->
  exists a1 res ev1 x2, do_op_a cfg op a = Ok (a1, res, ev1) /\ quiesce cfg 64 h (a_x a1) = Ok x2 /\
    let a2ev := after_quiesce (length (releasedLog (apbl a))) (x_nwr (a_x a)) a1 x2 in
    exists c2, prel nreg (pm_step nreg m (enc_step (enc_obs res x2) (fst a2ev) (ev1 ++ snd a2ev))) c2
               /\ arel (fst a2ev) c2 /\ good (x_sys (a_x (fst a2ev))) /\ quiet cfg (x_sys (a_x (fst a2ev))).
Proof.
  intros P R G Q.
  destruct (op_sim nreg m a c op P R G Q) as [a1 [res [ev1 [c1 [Hd [G1 [R1 [Hrl [Hnw Hm]]]]]]]]].
  destruct (quiesce_total _ _ _ _ _ h (a_x a1) G1) as [x2 [Hq [G2 Q2]]].
  exists a1, res, ev1, x2. split; [exact Hd|]. split; [exact Hq|].
  pose proof (quiesce_rtj _ _ _ _ _ _ _ _ _ G1 Hq) as [J1 J2].
  pose proof (quiet_not_wwritten _ _ _ _ _ _ G2 Q2) as Hnw2.
  pose proof (good_inv1 _ _ _ _ _ _ G1) as II1.
  destruct R1 as [A1 A2 A3 A4 A5 A6 A7 A8]. unfold apbl in *.
  set (k := k_of (a_x a1)).
  (* the monitor after ev1: k releases are due *)
  assert (Hk : k <= length (c_pend c1)).
  { unfold k, k_of. destruct (wwritten (x_sys (a_x a1))); [|lia].
    rewrite <- (map_length snd), A5, map_length. apply (i_rel _ (proj1 II1)). }
  assert (Hrels : exists m1' c1',
            m1' = fold_left pm_event (map rel_ev (firstn k (c_pend c1))) (fold_left pm_event ev1 m)
            /\ c1' = mkAcc (c_listed c1) (c_rel c1 ++ firstn k (c_pend c1)) (skipn k (c_pend c1))
                           (c_free c1 ++ map snd (firstn k (c_pend c1))) (if wwritten (x_sys (a_x a1)) then None else c_wr c1)
            /\ prel nreg m1' c1').
  { eexists _, _. split; [reflexivity|]. split; [reflexivity|].
    destruct Hm as [[Hw Pm]|[Hw [w Dm]]]; unfold k, k_of; rewrite Hw.
    - cbn [firstn skipn map fold_left]. rewrite !app_nil_r. destruct c1. exact Pm.
    - eapply prelD_done. apply fold_releases. exact Dm. }
  destruct Hrels as [m1' [c1' [Em1 [Ec1 P1']]]].
  (* what quiesce did *)
  assert (Hcases : exists kk, rel_upto (a_x a1) x2 kk /\ kk = k /\
            ((x_nwr x2 = x_nwr (a_x a1) /\ writing_state (x_sys x2) = writing_state (x_sys (a_x a1))
              /\ (writing_state (x_sys (a_x a1)) <> None -> releasing (s_pbl (x_sys x2)) = releasing (s_pbl (x_sys (a_x a1)))))
             \/ (x_nwr x2 = S (x_nwr (a_x a1)) /\ writing_state (x_sys (a_x a1)) = None /\
                 exists st, writing_state (x_sys x2) = Some st
                   /\ (forall r, In r (st_regs st) -> In r (offs (s_pbl (x_sys x2))))
                   /\ releasing (s_pbl (x_sys x2)) = length (toRelease (s_pbl (x_sys x2)))))).
  { destruct J2 as [[B1 _]|[[B1 [B2 [B3 [B4 B5]]]]|[C1 [C2 [C3 [C4 C5]]]]]]; [congruence| |].
    - exists k. split; [exact B2|]. split; [reflexivity|]. left. auto.
    - exists k. split; [exact C2|]. split; [reflexivity|]. right. auto. }
  destruct Hcases as [kk [[U1 U2] [-> Hcs]]].
  (* the releases reported by after_quiesce *)
  assert (Hlen2 : length (releasedLog (s_pbl (x_sys x2))) = length (c_rel c1) + k).
  { assert (Htl : length (toRelease (s_pbl (x_sys (a_x a1)))) = length (c_pend c1))
      by (rewrite <- (map_length fst (toRelease _)), <- A5, map_length; reflexivity).
    rewrite U1, app_length, firstn_length, Htl, A4. lia. }
  assert (Hnewrel : skipn (length (releasedLog (s_pbl (x_sys (a_x a))))) (firstn (length (releasedLog (s_pbl (x_sys x2)))) (a_popped a1))
                    = firstn k (c_pend c1)).
  { rewrite <- Hrl, <- A4, Hlen2, <- A3. apply skip_first. }
  unfold after_quiesce. rewrite Hnewrel. fold rel_ev.
  (* the start of a state write *)
  assert (Hww1 : wwritten (x_sys (a_x a1)) = true -> writing_state (x_sys (a_x a1)) = None).
  { intros Hw. destruct Hm as [[Hw' _]|[_ [w Dm]]]; [congruence|]. pose proof (d_wr _ _ _ _ _ Dm) as Hn. rewrite A7 in Hn.
    destruct (writing_state (x_sys (a_x a1))); [discriminate|reflexivity]. }
  assert (Hwr1' : c_wr c1' = match writing_state (x_sys (a_x a1)) with
                             | Some st => Some (x_nwr (a_x a1), releasing (s_pbl (x_sys (a_x a1))), st_regs st) | None => None end).
  { rewrite Ec1. cbn [c_wr]. destruct (wwritten (x_sys (a_x a1))) eqn:Ew; [rewrite (Hww1 eq_refl); reflexivity|exact A7]. }
  assert (Hk0 : writing_state (x_sys (a_x a1)) <> None -> k = 0).
  { intros Hn. unfold k, k_of. destruct (wwritten (x_sys (a_x a1))) eqn:Ew; [exfalso; apply Hn; apply Hww1; reflexivity|reflexivity]. }
  assert (Hlisted : map snd (c_listed c1) = offs (s_pbl (x_sys x2))).
  { rewrite A2, map_snd_combine by (rewrite offs_len; exact A1). symmetry. exact J1. }
  assert (Hpend2 : map snd (skipn k (c_pend c1)) = map fst (toRelease (s_pbl (x_sys x2)))).
  { rewrite U2, <- !skipn_map, A5. reflexivity. }
  assert (Harel_base : forall c2, c_listed c2 = c_listed c1 -> c_rel c2 = c_rel c1 ++ firstn k (c_pend c1) ->
            c_pend c2 = skipn k (c_pend c1) -> c_free c2 = c_free c1 ++ map snd (firstn k (c_pend c1)) ->
            c_wr c2 = match writing_state (x_sys x2) with
                      | Some st => Some (x_nwr x2, releasing (s_pbl (x_sys x2)), st_regs st) | None => None end ->
            arel (mkAst x2 (a_free a1 ++ map snd (firstn k (c_pend c1))) (a_ids a1) (a_popped a1) (a_next a1)) c2).
  { intros c2 E1 E2 E3 E4 E5. constructor; unfold apbl; cbn [a_x a_ids a_popped a_free a_next]; auto.
    - rewrite <- offs_len, J1, offs_len. exact A1.
    - rewrite E1, J1. exact A2.
    - rewrite E2, E3, <- app_assoc, firstn_skipn. exact A3.
    - rewrite E2, app_length, firstn_length. lia.
    - rewrite E3. exact Hpend2.
    - rewrite E4, A6. reflexivity. }
  cbn [fst snd].
  unfold pm_step, enc_step.
  match goal with |- context [sx_list (sx_nth (L [?o; ?n; L ?evs]) 2)] =>
    change (sx_list (sx_nth (L [o; n; L evs]) 2)) with evs;
    change (sx_nat (sx_nth (L [o; n; L evs]) 1)) with (sx_nat n) end.
  rewrite sx_nat_of_nat. cbn [a_free]. rewrite !fold_left_app. rewrite <- Em1.
  destruct Hcs as [[Hn2 [Hw2 Hr2]]|[Hn2 [Hw1 [st [Hw2 [Hregs Hr2]]]]]].
  - (* no new state write *)
    assert ((x_nwr (a_x a) <? x_nwr x2) = false) as -> by (apply Nat.ltb_ge; lia).
    cbn [fold_left]. exists c1'. split; [|split; [|auto]].
    + assert (length (a_free a1 ++ map snd (firstn k (c_pend c1))) = length (c_free c1')) as ->
        by (rewrite Ec1; cbn [c_free]; rewrite A6; reflexivity).
      apply q_check. exact P1'.
    + apply Harel_base; [rewrite Ec1; reflexivity|rewrite Ec1; reflexivity|rewrite Ec1; reflexivity|rewrite Ec1; reflexivity|].
      rewrite Hwr1', Hw2, Hn2. destruct (writing_state (x_sys (a_x a1))) as [st|] eqn:Ew; [|reflexivity].
      rewrite Hr2 by discriminate. reflexivity.
  - (* a state write started *)
    assert ((x_nwr (a_x a) <? x_nwr x2) = true) as -> by (apply Nat.ltb_lt; lia).
    rewrite Hw2. cbn [fold_left].
    assert (Hwn : c_wr c1' = None) by (rewrite Hwr1', Hw1; reflexivity).
    pose proof (ev_start nreg m1' c1' (x_nwr x2) (of_N (fst st)) (snd st) P1' Hwn) as P2.
    assert (Hr : forall r, In r (map (fun b => fst (bs_loc b)) (snd st)) -> In r (map snd (c_listed c1'))).
    { intros r Hi. rewrite Ec1. cbn [c_listed]. rewrite Hlisted. apply Hregs. exact Hi. }
    specialize (P2 Hr).
    eexists. split; [|split; [|auto]].
    + match goal with |- prel _ (pm_quiescent _ _ ?n) _ =>
        replace n with (length (c_free (mkAcc (c_listed c1') (c_rel c1') (c_pend c1') (c_free c1')
                          (Some (x_nwr x2, length (c_pend c1'), map (fun b => fst (bs_loc b)) (snd st)))))) end.
      * apply q_check. exact P2.
      * cbn [c_free]. rewrite Ec1. cbn [c_free]. rewrite A6. reflexivity.
    + apply Harel_base; cbn [c_listed c_rel c_pend c_free c_wr];
        [rewrite Ec1; reflexivity|rewrite Ec1; reflexivity|rewrite Ec1; reflexivity|rewrite Ec1; reflexivity|].
      rewrite Ec1. cbn [c_pend]. rewrite Hw2, Hr2. unfold st_regs. rewrite <- (map_length fst (toRelease _)), <- Hpend2, map_length. reflexivity.
Qed.

End Top4.

(** ---- the whole run ---- *)
Lemma NoDup_app_intro {A} (l1 l2 : list A) : NoDup l1 -> NoDup l2 -> (forall x, In x l1 -> ~ In x l2) -> NoDup (l1 ++ l2).
Proof.
  induction l1 as [|a r IH]; intros H1 H2 H; [exact H2|]. cbn. inversion H1; subst. constructor.
  - intros Hi. apply in_app_or in Hi. destruct Hi as [Hi|Hi]; [contradiction|]. apply (H a); [left; reflexivity|exact Hi].
  - apply IH; auto. intros x Hx. apply H. right. exact Hx.
Qed.

Lemma filter_split_length {A} (f : A -> bool) l :
  length (filter f l) + length (filter (fun x => negb (f x)) l) = length l.
Proof. induction l as [|a r IH]; [reflexivity|]. cbn. destruct (f a); cbn; lia. Qed.

Lemma region_offs_nodup n : NoDup (region_offs n) /\ length (region_offs n) = n.
Proof.
  unfold region_offs. split; [|rewrite map_length, seq_length; reflexivity].
  apply FinFun.Injective_map_NoDup; [|apply seq_NoDup]. intros x y H. lia.
Qed.

Section Final.
Variable inp : sx.
Notation cfg := (cfg_i inp).
Notation good := (good (cfg_i inp) (alloc_i inp) (oldest_i inp) (init_i inp) (t0_i inp)).

Definition nreg_i : nat := sx_nat (sx_nth (sx_nth inp 2) 0).
Definition offs0_i : list Z := offs (p0_i inp).

(** the restored blocks live at pairwise distinct regions of the device *)
Definition dom04P : bool := nodupz offs0_i && forallb (fun o => zmem o (region_offs nreg_i)) offs0_i.

Lemma run_sim_a ops : forall hints m a c, prel nreg_i m c -> arel a c -> good (x_sys (a_x a)) -> quiet cfg (x_sys (a_x a)) ->
  exists r, run_ops_a cfg ops hints a = Ok r /\ exists c', prel nreg_i (fold_left (pm_step nreg_i) r m) c'.
Proof.
  induction ops as [|op ops IH]; intros hints m a c P R G Q.
  - exists []. split; [reflexivity|]. exists c. exact P.
  - cbn [run_ops_a]. cbv zeta.
    match goal with |- context [quiesce _ 64 ?h _] =>
      destruct (step_sim _ _ _ _ _ nreg_i m a c op h P R G Q) as [a1 [res [ev1 [x2 [Hd [Hq Hrest]]]]]] end.
    rewrite Hd, Hq. unfold apbl in Hrest. cbv zeta in Hrest.
    destruct (after_quiesce (length (releasedLog (s_pbl (x_sys (a_x a))))) (x_nwr (a_x a)) a1 x2) as [a2 ev2].
    cbn [fst snd] in Hrest. destruct Hrest as [c2 [P2 [R2 [G2 Q2]]]].
    destruct (IH (tl hints) _ a2 c2 P2 R2 G2 Q2) as [r [Hr [c' Hc']]]. rewrite Hr.
    eexists. split; [reflexivity|]. exists c'. cbn [fold_left]. exact Hc'.
Qed.

(** THE MONITOR IS SILENT ON THE MODEL (C04P) *)
Theorem mon04P_silent_on_model_h hints : dom04P = true -> mon04P inp (run04Ph inp hints) = [].
Proof.
  intros Hd. unfold dom04P in Hd. apply andb_true_iff in Hd. destruct Hd as [Hd1 Hd2]. apply nodupz_spec in Hd1.
  unfold run04Ph, init_a. cbv zeta. change (cfg_of (sx_nth inp 0)) with cfg.
  assert (Ebl : s_pbl (x_sys (init_x (sx_nth inp 0))) = p0_i inp) by (rewrite init_x_eq; reflexivity).
  rewrite Ebl. fold (offs (p0_i inp)). fold offs0_i. fold nreg_i. cbn [a_x].
  destruct (init_state inp true) as [x0 [Hq [R0 P0]]]. rewrite Hq. cbn [a_x a_free a_ids a_popped a_next].
  set (ids := seq 0 (length (blocks (p0_i inp)))).
  set (free := filter (fun o => negb (zmem o offs0_i)) (region_offs nreg_i)).
  set (a1 := mkAst x0 free ids [] (length (blocks (p0_i inp)))).
  set (c0 := mkAcc (combine ids offs0_i) [] [] free None).
  assert (Hlen : length ids = length offs0_i).
  { unfold ids, offs0_i. rewrite seq_length, offs_len. reflexivity. }
  destruct (region_offs_nodup nreg_i) as [Hrn Hrl].
  assert (Hsub : forall o, In o offs0_i -> In o (region_offs nreg_i)).
  { intros o Ho. rewrite forallb_forall in Hd2. apply zmem_in. apply Hd2. exact Ho. }
  assert (Hnd : NoDup (free ++ offs0_i)).
  { apply NoDup_app_intro; [apply NoDup_filter; exact Hrn|exact Hd1|].
    intros x Hx Hi. unfold free in Hx. apply filter_In in Hx. destruct Hx as [_ Hx].
    apply zmem_in in Hi. rewrite Hi in Hx. discriminate. }
  assert (Hcount : length free + length offs0_i = nreg_i).
  { rewrite <- Hrl. rewrite <- (filter_split_length (fun o => negb (zmem o offs0_i)) (region_offs nreg_i)). fold free. f_equal.
    symmetry. apply Permutation_length. apply NoDup_Permutation; [apply NoDup_filter; exact Hrn|exact Hd1|].
    intros x. rewrite filter_In. split.
    - intros [_ Hx]. apply zmem_in. destruct (zmem x offs0_i); [reflexivity|discriminate].
    - intros Hx. split; [apply Hsub; exact Hx|]. apply zmem_in in Hx. rewrite Hx. reflexivity. }
  assert (P : prel nreg_i
                (pm_quiescent nreg_i
                   (fold_left pm_event (map (fun p => L [A 0%Z; of_nat (fst p); A (snd p)]) (combine ids offs0_i)) pm_init)
                   (length free)) c0).
  { apply (q_check nreg_i _ c0). apply init_prel.
    - rewrite map_fst_combine by exact Hlen. apply seq_NoDup.
    - rewrite map_snd_combine by exact Hlen. exact Hnd.
    - rewrite combine_length, Hlen, Nat.min_id. exact Hcount. }
  destruct P0 as [Q1 Q2 Q3 Q3' Q4 Q5 Q6 Q7 Q8 Q9].
  assert (R : arel a1 c0).
  { destruct (p0_facts (alloc_i inp) (oldest_i inp) (init_i inp)) as [F1 [_ [F3 _]]].
    constructor; unfold apbl; cbn [a1 c0 a_x a_ids a_popped a_free a_next c_listed c_rel c_pend c_free c_wr]; rewrite ?Q1; auto.
    - unfold ids. apply seq_length.
    - fold (p0_i inp) in F3. rewrite F3. reflexivity.
    - fold (p0_i inp) in F1. rewrite F1. reflexivity.
    - unfold writing_state. destruct Q7 as [E|E]; rewrite E; destruct Q6 as [E'|[E'|E']]; rewrite E'; reflexivity.
    - intros id Hi. cbn [map app] in Hi. unfold ids in Hi. apply in_seq in Hi. lia. }
  destruct (run_sim_a (sx_list (sx_nth inp 1)) hints _ a1 c0 P R (r1_good _ _ _ _ _ _ _ R0) (r1_quiet _ _ _ _ _ _ _ R0))
    as [r [Hr [c' Pc']]].
  fold ids. fold free. fold a1. rewrite Hr.
  unfold mon04P. cbn [is_marker]. cbv zeta.
  assert (N0 : forall a l, sx_nth (L (a :: l)) 0 = a) by reflexivity.
  assert (N1 : forall a b l, sx_nth (L (a :: b :: l)) 1 = b) by reflexivity.
  assert (NL : forall l, sx_list (L l) = l) by reflexivity.
  rewrite !N0, !N1, !NL, sx_nat_of_nat. fold nreg_i.
  rewrite (p_viol _ _ _ Pc'). reflexivity.
Qed.

Theorem mon04P_silent_on_model_ : dom04P = true -> mon04P inp (run04P inp) = [].
Proof. apply mon04P_silent_on_model_h. Qed.

End Final.
