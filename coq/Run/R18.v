(** C18: sx interface of the model (decoders, judge, monitor).

    Input: [(get put fm op names)].  A tree is [(0 id (verdict ...))] (scripted
    leaf, one verdict per name index), [(1 (member ...))] ('any') or
    [(2 (prefix ...))] (static instance_name_prefix authorizer; every allowed
    prefix is the instance name string as a byte list).  [names] is the name
    alphabet of the case: name index i stands for the instance name string
    [nth i names], split into components like the code does. *)
From BBS Require Import Common.Sx Common.ListX Routing.Names Routing.Trie Auth.Auth.

Definition dec_iname (s : sx) : list comp := Names.split (sx_Ns s).

Fixpoint dec_tree (s : sx) : atree :=
  match s with
  | L [A 0; A id; L vs] => Leaf (Z.to_nat id) (map sx_Z vs)
  | L [A 1; L ch] => Any (map dec_tree ch)
  | L [A 2; L ps] => Prefix (map dec_iname ps)
  | _ => Leaf 0 []
  end.

Definition dec_nm (s : sx) : nat -> list comp :=
  fun i => dec_iname (nth i (sx_list s) (L [])).

Definition dec_op (s : sx) : aop :=
  match s with
  | L [A 0; A n] => OGet (Z.to_nat n)
  | L [A 1; A p; A c] => OGetFromComposite (Z.to_nat p) (Z.to_nat c)
  | L [A 2; A n] => OPut (Z.to_nat n)
  | L [A 3; ns] => OFindMissing (sx_nats ns)
  | _ => OGet 0
  end.

Definition enc_buf (b : bufev) : sx :=
  A (match b with BufNone => 0 | BufPassedOn => 1 | BufDiscarded => 2 | BufLeaked => 3 end).
Definition enc_call (c : call) : sx := L [of_nat (fst c); of_nats (snd c)].
Definition enc_res (r : aresult) : sx :=
  L [of_bool (forwarded r); A (if forwarded r then 0 else code r); enc_buf (buf r);
     L (map enc_call (calls r))].

Definition run18 (inp : sx) : sx :=
  enc_res (authorizing (dec_nm (sx_nth inp 4)) (dec_tree (sx_nth inp 0)) (dec_tree (sx_nth inp 1))
                       (dec_tree (sx_nth inp 2)) (dec_op (sx_nth inp 3))).

(** Monitor on implementation observations; uses only the specification
    [sem] (for a prefix leaf: [covered], component-wise prefix on lists), not
    the operational [authorize] nor the trie. *)
Definition mon18 (inp obs : sx) : list Z :=
  let nm := dec_nm (sx_nth inp 4) in
  let sem := sem nm in
  let g := dec_tree (sx_nth inp 0) in
  let p := dec_tree (sx_nth inp 1) in
  let f := dec_tree (sx_nth inp 2) in
  let o := dec_op (sx_nth inp 3) in
  let t := tree_of g p f o in
  let ns := names_of o in
  let fw := sx_bool (sx_nth obs 0) in
  let c := sx_Z (sx_nth obs 1) in
  let b := sx_Z (sx_nth obs 2) in
  let all_ok := forallb (fun n => allowed (sem t n)) ns in
  (* 1: backend contacted although some involved name is not allowed *)
  (if fw && negb all_ok then [1] else []) ++
  (* 2: rejected, but the code is not a non-grant verdict of an involved name *)
  (if negb fw && negb (existsb (fun n => negb (allowed (sem t n)) && Z.eqb (sem t n) c) ns)
   then [2] else []) ++
  (* 3: upload buffer neither passed on (when forwarded) nor released (when rejected) *)
  (match o with
   | OPut _ => if fw then (if Z.eqb b 1 then [] else [3]) else (if Z.eqb b 2 then [] else [3])
   | _ => []
   end) ++
  (* Authorizers made of instance_name_prefix leaves only, judged on the allowed
     prefixes stated in the input (their union over the tree), without [sem]:
     4: the backend was contacted although some involved instance name is not
        covered by any allowed prefix;
     5: rejected although every involved name is covered, or rejected with a
        code other than PERMISSION_DENIED. *)
  (let cov := fun n => covered (all_prefixes t) (nm n) in
   if static_only t then
     (if fw && negb (forallb cov ns) then [4] else []) ++
     (if negb fw && (forallb cov ns || negb (Z.eqb c 7)) then [5] else [])
   else []).

(** FindMissing iterates a Go map: which failing name's error is returned is
    unspecified, so agreement on [code] is membership. *)
Definition judge18 (inp obs : sx) : sx :=
  let sem := sem (dec_nm (sx_nth inp 4)) in
  let m := run18 inp in
  let v := mon18 inp obs in
  let viol := negb (match v with [] => true | _ => false end) in
  match dec_op (sx_nth inp 3) with
  | OFindMissing ns =>
      let t := dec_tree (sx_nth inp 2) in
      let fw := sx_bool (sx_nth obs 0) in
      let c := sx_Z (sx_nth obs 1) in
      let same := sx_eqb (sx_nth m 0) (sx_nth obs 0) && sx_eqb (sx_nth m 2) (sx_nth obs 2)
                  && sx_eqb (sx_nth m 3) (sx_nth obs 3)
                  && (if fw then Z.eqb c 0
                      else existsb (fun n => negb (allowed (sem t n)) && Z.eqb (sem t n) c) ns) in
      verdict same viol m (of_Zs v)
  | _ => verdict (sx_eqb m obs) viol m (of_Zs v)
  end.
