(** C14F: the monitor [mon14F] is silent on every observation the judge
    accepts as agreeing with the model, hence on the model's own output —
    for all histories of Put / Get / FindMissing over any instance names and
    digest functions, all backend answers and all failing partitions. *)
From Coq Require Import List ZArith Bool Lia.
From BBS Require Import Common.Sx Rpc.ByteStream Rpc.Batch Rpc.ClientServer Rpc.ByteStreamProofs
  Rpc.ClientServerProofs Rpc.FindMissingMulti Rpc.FindMissingMultiProofs Run.MonSilentSx Run.R14 Run.R14Proofs Run.R14F.
Import ListNotations.
Open Scope Z_scope.

Lemma q_ident_eqb_enc q : q_ident_eqb (enc_q q) q = true.
Proof.
  unfold q_ident_eqb, enc_q, enc_ident, sx_nth. cbn [sx_list nth sx_Z].
  rewrite !Z.eqb_refl. reflexivity.
Qed.

(** What the monitor demands of a FindMissing answer [msl], given that the
    model's answer [ms] is exact. *)
Lemma qfm_generic (qs : list qdig) (miss : qdig -> bool) (msl : list sx) (ms : list qdig) :
  (forall q, In q ms <-> In q qs /\ miss q = true) ->
  sx_seteq msl (map enc_q ms) = true ->
  forallb (fun m => existsb (fun q => q_ident_eqb m q && miss q) qs) msl = true
  /\ forallb (fun q => negb (miss q) || existsb (fun m => q_ident_eqb m q) msl) qs = true.
Proof.
  intros Hex H. unfold sx_seteq in H. apply andb_prop in H. destruct H as [H1 H2]. split.
  - apply forallb_forall. intros m Hm. apply (sx_subset_in _ _ _ H1) in Hm.
    apply in_map_iff in Hm. destruct Hm as (q & <- & Hq). apply Hex in Hq. destruct Hq as [Hq Hmiss].
    apply existsb_exists. exists q. split; [exact Hq|]. rewrite q_ident_eqb_enc, Hmiss. reflexivity.
  - apply forallb_forall. intros q Hq. destruct (miss q) eqn:Hmiss; [|reflexivity]. cbn [negb orb].
    apply existsb_exists. exists (enc_q q). split; [|apply q_ident_eqb_enc].
    apply (sx_subset_in _ _ _ H2). apply in_map. apply Hex. auto.
Qed.

(** ** The backend's contents *)
Definition qst_valid (blobs : list bytes) (st : qstore) : Prop :=
  forall q y, In (q, y) st -> valid (hash_of blobs) (q_dig q) y = true.

Lemma qst_get_some st q y : qst_get st q = Some y -> In (q, y) st.
Proof.
  unfold qst_get. destruct (find (fun e => qdig_eqb (fst e) q) st) as [[q' y']|] eqn:E; [|discriminate].
  intro H. inversion H. subst. apply find_some in E. destruct E as [Hin Hq]. cbn in Hq.
  apply qdig_eqb_eq in Hq. subst. exact Hin.
Qed.

Lemma qst_put_valid blobs st q y :
  qst_valid blobs st -> valid (hash_of blobs) (q_dig q) y = true -> qst_valid blobs (qst_put st q y).
Proof.
  intros Hst Hv q' y' [E|Hin].
  - inversion E. subst. exact Hv.
  - apply filter_In in Hin. destruct Hin as [Hin _]. eapply Hst; eauto.
Qed.

Lemma client_get_model_q blobs chunk st q :
  (0 < chunk)%nat -> d_size (q_dig q) <= backend_max -> qst_valid blobs st ->
  client_get (hash_of blobs) fdecompress fcompress false chunk [] []
             (fun d' => backend_get (hash_of blobs) (qst_get st (requalify (qkey q) d')) d') (q_dig q)
  = match qst_get st q with Some y => inl y | None => inr cNotFound end.
Proof.
  intros Hc Hm Hst.
  set (get := fun d' => backend_get (hash_of blobs) (qst_get st (requalify (qkey q) d')) d').
  destruct (qst_get st q) as [y|] eqn:Eg.
  - assert (Hv : valid (hash_of blobs) (q_dig q) y = true) by (eapply Hst, qst_get_some; eauto).
    assert (Hg : get (q_dig q) = inl y).
    { unfold get. rewrite requalify_eta, Eg. unfold backend_get. rewrite Hv. reflexivity. }
    exact (client_get_identity_returns _ fdecompress fcompress _ _ _ _ _ _ Hg Hv Hc Hm).
  - apply client_get_error; [unfold get; rewrite requalify_eta, Eg; reflexivity|discriminate|exact Hm].
Qed.

(** ** Which partitions fail *)
Definition nz (c : Z) : bool := negb (c =? 0).

Lemma failing_codes_wf miss err qs :
  (forall q, In q qs -> 0 <= d_size (q_dig q)) ->
  failing_codes miss err (keys qs) qs = filter nz (map err (keys qs)).
Proof.
  intro Hsz. unfold failing_codes. fold nz. f_equal. apply map_ext_in. intros k Hk.
  rewrite part_result_code. apply keys_only_requested in Hk. destruct Hk as (q & Hq & Hk).
  assert (Hp : In q (partition_of k qs)) by (apply partition_of_in; auto).
  destruct (partition_of k qs) as [|q0 p] eqn:Ep; [contradiction|].
  destruct (existsb _ (q0 :: p)) eqn:Ex; [|reflexivity].
  apply existsb_exists in Ex. destruct Ex as (q' & Hq' & Hlt). rewrite <- Ep in Hq'.
  apply partition_of_in in Hq'. destruct Hq' as [Hq' _]. specialize (Hsz q' Hq').
  apply Z.ltb_lt in Hlt. lia.
Qed.

Lemma failing_exists err qs :
  existsb (fun q => nz (err (qkey q))) qs = negb (nil_b (filter nz (map err (keys qs)))).
Proof.
  destruct (existsb (fun q => nz (err (qkey q))) qs) eqn:E.
  - apply existsb_exists in E. destruct E as (q & Hq & Hnz).
    assert (Hin : In (err (qkey q)) (filter nz (map err (keys qs)))).
    { apply filter_In. split; [|exact Hnz]. apply in_map. apply keys_cover. exact Hq. }
    destruct (filter nz (map err (keys qs))); [contradiction|reflexivity].
  - destruct (filter nz (map err (keys qs))) as [|c l] eqn:Ef; [reflexivity|]. exfalso.
    assert (Hin : In c (filter nz (map err (keys qs)))) by (rewrite Ef; left; reflexivity).
    apply filter_In in Hin. destruct Hin as [Hin Hnz]. apply in_map_iff in Hin.
    destruct Hin as (k & <- & Hk). apply keys_only_requested in Hk. destruct Hk as (q & Hq & <-).
    assert (Ht : existsb (fun q => nz (err (qkey q))) qs = true) by (apply existsb_exists; eauto).
    rewrite Ht in E. discriminate.
Qed.

(** ** Histories *)
Definition qop_wf (blobs : list bytes) (op : sx) : Prop :=
  let k := sx_Z (sx_nth op 0) in
  if k =? 0 then blen (blob blobs (sx_Z (sx_nth op 3))) <= backend_max
  else if k =? 1 then sx_Z (sx_nth op 4) <= backend_max
  else Forall (fun e => 0 <= sx_Z (sx_nth e 3)) (sx_list (sx_nth op 1)).

Lemma silent_qs_ops blobs chunk : (0 < chunk)%nat ->
  forall ops st rs stf ms,
    qst_valid blobs st -> Forall (qop_wf blobs) ops ->
    qs_ops blobs chunk st ops = (stf, ms) ->
    qs_res_all ops rs ms = true ->
    mon_qs_ops blobs st ops rs = ([], stf).
Proof.
  intros Hc. induction ops as [|op ops IH]; intros st rs stf ms Hst Hwf Hrun Hag.
  - cbn in Hrun. inversion Hrun. subst. destruct rs; [reflexivity|discriminate].
  - cbn [qs_ops] in Hrun.
    destruct (qs_op blobs chunk st op) as [st1 m] eqn:Eop.
    destruct (qs_ops blobs chunk st1 ops) as [st2 ms'] eqn:Eops.
    inversion Hrun. subst stf ms. clear Hrun.
    destruct rs as [|r rs]; [discriminate|]. cbn [qs_res_all] in Hag.
    apply andb_prop in Hag. destruct Hag as [Hr Hag].
    inversion Hwf as [|? ? Hop Hwf']. subst.
    cbn [mon_qs_ops]. unfold qs_op in Eop. unfold qs_res_eqb in Hr. unfold qop_wf in Hop. cbv zeta in Hop.
    destruct (sx_Z (sx_nth op 0) =? 0) eqn:E0.
    + (* Put *)
      apply sx_eqb_eq in Hr. subst r.
      pose proof (client_put_model blobs false chunk (sx_Z (sx_nth op 3)) (sx_Z (sx_nth op 4)) Hc Hop) as Hput.
      cbv zeta in Hput. cbv zeta. unfold dec_q, dec_dig in *. cbn [q_dig] in *.
      destruct (valid (hash_of blobs) _ (blob blobs (sx_Z (sx_nth op 3)))) eqn:Hv.
      * destruct Hput as [Hcode Hstored]. rewrite Hstored in Eop. inversion Eop. subst st1 m.
        rewrite sx_nth_L. cbn [nth sx_Z]. rewrite Hcode. cbn [Z.eqb].
        eapply IH; eauto. apply qst_put_valid; assumption.
      * destruct Hput as [Hcode Hstored]. rewrite Hstored in Eop. inversion Eop. subst st1 m.
        rewrite sx_nth_L. cbn [nth sx_Z]. apply Z.eqb_neq in Hcode. rewrite Hcode.
        eapply IH; eauto.
    + destruct (sx_Z (sx_nth op 0) =? 1) eqn:E1.
      * (* Get *)
        apply sx_eqb_eq in Hr. subst r. cbv zeta in Eop. cbv zeta.
        rewrite (client_get_model_q blobs chunk st (dec_q blobs op 1) Hc Hop Hst) in Eop.
        destruct (qst_get st (dec_q blobs op 1)) as [y|] eqn:Eg;
          inversion Eop; subst st1 m; rewrite !sx_nth_L; cbn [nth sx_Z].
        -- rewrite sx_Zs_of_Zs, bytes_eqb_refl. cbn [Z.eqb andb]. eapply IH; eauto.
        -- cbn. eapply IH; eauto.
      * (* FindMissing *)
        cbv zeta in Eop. cbv zeta.
        set (es := map (dec_fme blobs) (sx_list (sx_nth op 1))) in *.
        set (errs := map dec_err (sx_list (sx_nth op 2))) in *.
        set (qs := map fst es) in *.
        set (miss := fm_missing_q st es) in *.
        assert (Hsz : forall q, In q qs -> 0 <= d_size (q_dig q)).
        { intros q Hq. unfold qs, es in Hq. rewrite map_map in Hq. apply in_map_iff in Hq.
          destruct Hq as (e & <- & He). rewrite Forall_forall in Hop. exact (Hop e He). }
        destruct (client_find_missing miss (err_of errs) (keys qs) qs) as [c msq] eqn:Ecf.
        inversion Eop. subst st1 m. clear Eop.
        rewrite !sx_nth_L in Hr. cbn [nth sx_list] in Hr. rewrite sx_Zs_of_Zs in Hr.
        pose proof (client_find_missing_code miss (err_of errs) (keys qs) qs) as Hcode.
        rewrite Ecf in Hcode. cbn [fst] in Hcode.
        rewrite (failing_codes_wf miss (err_of errs) qs Hsz) in Hr, Hcode.
        pose proof (failing_exists (err_of errs) qs) as Hfe. unfold nz at 1 in Hfe. rewrite Hfe.
        rewrite (IH st rs st2 ms' Hst Hwf' Eops Hag).
        destruct (filter nz (map (err_of errs) (keys qs))) as [|c0 alts] eqn:Ealts; cbn [nil_b negb] in *.
        -- (* every partition answers *)
           cbn [hd] in Hcode. subst c.
           apply andb_prop in Hr. destruct Hr as [Hr _]. apply andb_prop in Hr. destruct Hr as [Hr _].
           apply andb_prop in Hr. destruct Hr as [Hr _]. apply andb_prop in Hr. destruct Hr as [Hr0 Hr1].
           rewrite Hr0. cbn [andb].
           assert (Hex : forall q, In q msq <-> In q qs /\ miss q = true).
           { apply (client_find_missing_exact miss (err_of errs) (keys qs) qs msq); [apply keys_cover|exact Ecf]. }
           destruct (qfm_generic qs miss _ msq Hex Hr1) as [G1 G2]. rewrite G1, G2. reflexivity.
        -- (* some partition fails *)
           apply andb_prop in Hr. destruct Hr as [Hr _]. apply andb_prop in Hr. destruct Hr as [Hr0 Hr1].
           assert (Hnz : (sx_Z (sx_nth r 0) =? 0) = false).
           { apply existsb_exists in Hr0. destruct Hr0 as (c' & Hin & E). apply Z.eqb_eq in E. subst c'.
             assert (Hin' : In (sx_Z (sx_nth r 0)) (filter nz (map (err_of errs) (keys qs)))) by (rewrite Ealts; exact Hin).
             apply filter_In in Hin'. destruct Hin' as [_ Hn]. unfold nz in Hn. apply negb_true_iff in Hn. exact Hn. }
           rewrite Hnz, Hr1. reflexivity.
Qed.

Definition inp_wf14F (inp : sx) : Prop :=
  (0 < sx_nat (sx_nth inp 1))%nat
  /\ Forall (qop_wf (dec_blobs (sx_nth inp 0))) (sx_list (sx_nth inp 2)).

Theorem mon14F_silent_on_agreeing : forall inp obs,
  inp_wf14F inp -> agree14F inp (run14F inp) obs = true -> mon14F inp obs = [].
Proof.
  intros inp obs [Hc Hops]. unfold agree14F, run14F, mon14F.
  destruct (qs_ops (dec_blobs (sx_nth inp 0)) (sx_nat (sx_nth inp 1)) [] (sx_list (sx_nth inp 2))) as [stf ms] eqn:Erun.
  rewrite !sx_nth_L. cbn [nth sx_list].
  intro H. apply andb_prop in H. destruct H as [H Hset]. apply andb_prop in H. destruct H as [Hall _].
  rewrite (silent_qs_ops _ _ Hc _ _ _ _ _ (fun q y (F : In (q, y) []) => match F with end) Hops Erun Hall).
  cbn [existsb app]. rewrite Hset. reflexivity.
Qed.

(** ** The model's own output is an observation the judge accepts *)
Lemma call_eqb_refl x : call_eqb x x = true.
Proof. apply sx_seteq_refl. Qed.

Lemma calls_sub_refl l : calls_sub l l = true.
Proof.
  unfold calls_sub. apply forallb_forall. intros x Hx. apply existsb_exists. exists x.
  split; [exact Hx|apply call_eqb_refl].
Qed.

Lemma qs_ops_res_refl blobs chunk : forall ops st stf ms,
  qs_ops blobs chunk st ops = (stf, ms) -> qs_res_all ops ms ms = true.
Proof.
  induction ops as [|op ops IH]; intros st stf ms H; cbn [qs_ops] in H.
  - inversion H. reflexivity.
  - destruct (qs_op blobs chunk st op) as [st1 m] eqn:Eop.
    destruct (qs_ops blobs chunk st1 ops) as [st2 ms'] eqn:E.
    inversion H. subst. cbn [qs_res_all]. rewrite (IH _ _ _ E), andb_true_r.
    unfold qs_res_eqb. destruct (sx_Z (sx_nth op 0) =? 0) eqn:E0; [apply sx_eqb_refl|].
    destruct (sx_Z (sx_nth op 0) =? 1) eqn:E1; [apply sx_eqb_refl|].
    unfold qs_op in Eop. rewrite E0, E1 in Eop. cbv zeta in Eop.
    set (es := map (dec_fme blobs) (sx_list (sx_nth op 1))) in *.
    set (errs := map dec_err (sx_list (sx_nth op 2))) in *.
    set (qs := map fst es) in *.
    set (miss := fm_missing_q st es) in *.
    destruct (client_find_missing miss (err_of errs) (keys qs) qs) as [c msq] eqn:Ecf.
    inversion Eop. subst st1 m. clear Eop.
    rewrite !sx_nth_L. cbn [nth sx_list sx_Z]. rewrite sx_Zs_of_Zs.
    pose proof (client_find_missing_code miss (err_of errs) (keys qs) qs) as Hcode.
    rewrite Ecf in Hcode. cbn [fst] in Hcode.
    destruct (failing_codes miss (err_of errs) (keys qs) qs) as [|c0 alts] eqn:Ealts; cbn [nil_b hd] in *.
    + subst c. rewrite sx_seteq_refl, Nat.eqb_refl, calls_sub_refl. reflexivity.
    + subst c0. cbn [existsb]. rewrite Z.eqb_refl. cbn [orb andb].
      assert (Hc : c <> 0).
      { assert (Hin : In c (failing_codes miss (err_of errs) (keys qs) qs)) by (rewrite Ealts; left; reflexivity).
        unfold failing_codes in Hin. apply filter_In in Hin. destruct Hin as [_ Hn].
        apply negb_true_iff in Hn. apply Z.eqb_neq in Hn. exact Hn. }
      destruct (client_find_missing_failure _ _ _ _ _ _ Ecf Hc) as [-> _].
      cbn [map nil_b andb]. apply calls_sub_refl.
Qed.

Theorem agree14F_model : forall inp, agree14F inp (run14F inp) (run14F inp) = true.
Proof.
  intro inp. unfold agree14F, run14F.
  destruct (qs_ops (dec_blobs (sx_nth inp 0)) (sx_nat (sx_nth inp 1)) [] (sx_list (sx_nth inp 2))) as [stf ms] eqn:E.
  rewrite !sx_nth_L. cbn [nth sx_list].
  rewrite (qs_ops_res_refl _ _ _ _ _ _ E), Nat.eqb_refl, sx_seteq_refl. reflexivity.
Qed.

Theorem mon14F_silent_on_model : forall inp, inp_wf14F inp -> mon14F inp (run14F inp) = [].
Proof. intros inp Hwf. apply mon14F_silent_on_agreeing; [exact Hwf|apply agree14F_model]. Qed.
