(** C14F (sub-check of C14): sx interface for client <-> server histories
    whose digests carry an instance name and a digest function.

    Input (harness/c14f.go): (blobs chunk ops)
      op (0 inst fn bi size)  Put      (1 inst fn bi size)  Get
         (2 ((inst fn bi size absent) ...) ((inst fn code) ...))  FindMissing
    Observation: (results final); FindMissing result (code missing calls).
    The backend is instance name aware: its state is a map from qualified
    digests to bytes. *)
From BBS Require Import Common.Sx Rpc.ByteStream Rpc.Batch Rpc.ClientServer Rpc.FindMissingMulti Run.R14.

Definition dec_q (blobs : list bytes) (s : sx) (off : nat) : qdig :=
  mkQ (sx_Z (sx_nth s off)) (sx_Z (sx_nth s (S off)))
      (dec_dig blobs (sx_nth s (S (S off))) (sx_nth s (S (S (S off))))).
Definition enc_q (q : qdig) : sx := L (A (q_inst q) :: A (q_fn q) :: enc_ident (q_dig q)).
Definition q_ident_eqb (s : sx) (q : qdig) : bool :=
  (sx_Z (sx_nth s 0) =? q_inst q) && (sx_Z (sx_nth s 1) =? q_fn q)
  && (sx_Z (sx_nth s 2) =? d_hash (q_dig q) - 1) && (sx_Z (sx_nth s 3) =? d_size (q_dig q)).

Definition qstore := list (qdig * bytes).
Definition qst_get (s : qstore) (q : qdig) : option bytes :=
  match find (fun e => qdig_eqb (fst e) q) s with Some e => Some (snd e) | None => None end.
Definition qst_put (s : qstore) (q : qdig) (x : bytes) : qstore :=
  (q, x) :: filter (fun e => negb (qdig_eqb (fst e) q)) s.
Definition enc_qstore (s : qstore) : list sx :=
  map (fun e => L (A (q_inst (fst e)) :: A (q_fn (fst e)) :: enc_ident (q_dig (fst e)) ++ [of_Zs (snd e)])) s.

Definition dec_fme (blobs : list bytes) (s : sx) : qdig * bool := (dec_q blobs s 0, sx_bool (sx_nth s 4)).
Definition dec_err (s : sx) : pkey * Z := ((sx_Z (sx_nth s 0), sx_Z (sx_nth s 1)), sx_Z (sx_nth s 2)).
(** the first directive naming a partition decides the backend's status for it *)
Definition err_of (errs : list (pkey * Z)) (k : pkey) : Z :=
  match find (fun e => key_eqb (fst e) k) errs with Some e => snd e | None => 0 end.
(** what the backend reports for one qualified digest during a FindMissing
    operation: missing if it does not hold it UNDER THAT INSTANCE NAME AND
    DIGEST FUNCTION, or if an entry of the operation flags it absent *)
Definition fm_missing_q (st : qstore) (es : list (qdig * bool)) (q : qdig) : bool :=
  (match qst_get st q with None => true | Some _ => false end)
  || existsb (fun e => qdig_eqb (fst e) q && snd e) es.

(** ** run *)
Definition qs_op (blobs : list bytes) (chunk : nat) (st : qstore) (op : sx) : qstore * sx :=
  let k := sx_Z (sx_nth op 0) in
  if k =? 0 then
    let q := dec_q blobs op 1 in
    let r := client_put (hash_of blobs) fdecompress fcompress false chunk [] (q_dig q) (blob blobs (sx_Z (sx_nth op 3))) in
    (match wr_stored r with Some x => qst_put st q x | None => st end, L [A (wr_code r)])
  else if k =? 1 then
    let q := dec_q blobs op 1 in
    match client_get (hash_of blobs) fdecompress fcompress false chunk [] []
                     (fun d' => backend_get (hash_of blobs) (qst_get st (requalify (qkey q) d')) d') (q_dig q) with
    | inl x => (st, L [A 0; of_Zs x])
    | inr c => (st, L [A c; L []])
    end
  else
    let es := map (dec_fme blobs) (sx_list (sx_nth op 1)) in
    let errs := map dec_err (sx_list (sx_nth op 2)) in
    let qs := map fst es in
    let ks := keys qs in
    let '(c, ms) := client_find_missing (fm_missing_q st es) (err_of errs) ks qs in
    (st, L [A c; L (map enc_q ms);
            L (map (fun k => L (map enc_q (partition_of k qs))) ks);
            of_Zs (failing_codes (fm_missing_q st es) (err_of errs) ks qs)]).

Fixpoint qs_ops (blobs : list bytes) (chunk : nat) (st : qstore) (ops : list sx) : qstore * list sx :=
  match ops with
  | [] => (st, [])
  | op :: ops' => let '(st', r) := qs_op blobs chunk st op in
                  let '(st'', rs) := qs_ops blobs chunk st' ops' in (st'', r :: rs)
  end.

Definition run14F (inp : sx) : sx :=
  let blobs := dec_blobs (sx_nth inp 0) in
  let '(st, rs) := qs_ops blobs (sx_nat (sx_nth inp 1)) [] (sx_list (sx_nth inp 2)) in
  L [L rs; L (enc_qstore st)].

(** ** agreement *)
Definition call_eqb (a b : sx) : bool := sx_seteq (sx_list a) (sx_list b).
Definition calls_sub (a b : list sx) : bool := forallb (fun x => existsb (call_eqb x) b) a.
Definition nil_b {T} (l : list T) : bool := match l with [] => true | _ => false end.

(** FindMissing: answers are sets; the backend calls are a set of sets (one
    per partition, Go map order); when partitions fail, the status is that of
    any failing partition and the RPCs issued are some of the partitions. *)
Definition qs_res_eqb (op r m : sx) : bool :=
  if sx_Z (sx_nth op 0) =? 0 then sx_eqb r m
  else if sx_Z (sx_nth op 0) =? 1 then sx_eqb r m
  else
    let alts := sx_Zs (sx_nth m 3) in
    if nil_b alts then
      (sx_Z (sx_nth r 0) =? 0)
      && sx_seteq (sx_list (sx_nth r 1)) (sx_list (sx_nth m 1))
      && (length (sx_list (sx_nth r 2)) =? length (sx_list (sx_nth m 2)))%nat
      && calls_sub (sx_list (sx_nth r 2)) (sx_list (sx_nth m 2))
      && calls_sub (sx_list (sx_nth m 2)) (sx_list (sx_nth r 2))
    else
      existsb (Z.eqb (sx_Z (sx_nth r 0))) alts
      && nil_b (sx_list (sx_nth r 1))
      && calls_sub (sx_list (sx_nth r 2)) (sx_list (sx_nth m 2)).

Fixpoint qs_res_all (ops rs ms : list sx) : bool :=
  match ops, rs, ms with
  | [], [], [] => true
  | op :: ops', r :: rs', m :: ms' => qs_res_eqb op r m && qs_res_all ops' rs' ms'
  | _, _, _ => false
  end.

Definition agree14F (inp m res : sx) : bool :=
  qs_res_all (sx_list (sx_nth inp 2)) (sx_list (sx_nth res 0)) (sx_list (sx_nth m 0))
  && (length (sx_list (sx_nth res 1)) =? length (sx_list (sx_nth m 1)))%nat
  && sx_seteq (sx_list (sx_nth res 1)) (sx_list (sx_nth m 1)).

(** ** The monitor: client and server back to back behave like the instance
    name aware backend.  It keeps its own account of the backend's contents
    (from the Puts the implementation acknowledged) and uses [partition_of] /
    [client_find_missing] nowhere.
    1: a FindMissing call whose backend answers did not return exactly the set
       of requested (instance name, digest function, blob) triples that the
       backend reports missing
    2: a FindMissing call for which the backend fails (for the instance name /
       digest function of a requested digest) succeeded
    3: Put / Get / final contents differ from the backend's *)
Fixpoint mon_qs_ops (blobs : list bytes) (st : qstore) (ops rs : list sx) : list Z * qstore :=
  match ops, rs with
  | [], [] => ([], st)
  | op :: ops', r :: rs' =>
      let k := sx_Z (sx_nth op 0) in
      let code := sx_Z (sx_nth r 0) in
      if k =? 0 then
        let q := dec_q blobs op 1 in
        let x := blob blobs (sx_Z (sx_nth op 3)) in
        if valid (hash_of blobs) (q_dig q) x
        then if code =? 0 then mon_qs_ops blobs (qst_put st q x) ops' rs' else ([3], st)
        else if code =? 0 then ([3], st) else mon_qs_ops blobs st ops' rs'
      else if k =? 1 then
        let q := dec_q blobs op 1 in
        let good := match qst_get st q with
                    | Some x => (code =? 0) && bytes_eqb (sx_Zs (sx_nth r 1)) x
                    | None => (code =? cNotFound) && bytes_eqb (sx_Zs (sx_nth r 1)) []
                    end in
        if good then mon_qs_ops blobs st ops' rs' else ([3], st)
      else
        let es := map (dec_fme blobs) (sx_list (sx_nth op 1)) in
        let errs := map dec_err (sx_list (sx_nth op 2)) in
        let qs := map fst es in
        let miss := fm_missing_q st es in
        let ms := sx_list (sx_nth r 1) in
        let failing := existsb (fun q => negb (err_of errs (qkey q) =? 0)) qs in
        let v := if failing then cl ((code =? 0) || negb (nil_b ms)) 2
                 else cl (negb ((code =? 0)
                     (* every reported digest was asked for, under that instance name, and is missing there *)
                     && forallb (fun m => existsb (fun q => q_ident_eqb m q && miss q) qs) ms
                     (* every requested digest that the backend misses under its instance name is reported *)
                     && forallb (fun q => negb (miss q) || existsb (fun m => q_ident_eqb m q) ms) qs)) 1 in
        let '(vs, st') := mon_qs_ops blobs st ops' rs' in (v ++ vs, st')
  | _, _ => ([3], st)
  end.

Definition mon14F (inp res : sx) : list Z :=
  let blobs := dec_blobs (sx_nth inp 0) in
  let '(vs, st) := mon_qs_ops blobs [] (sx_list (sx_nth inp 2)) (sx_list (sx_nth res 0)) in
  if existsb (Z.eqb 3) vs then vs
  else vs ++ cl (negb (sx_seteq (sx_list (sx_nth res 1)) (enc_qstore st))) 3.

Definition judge14F (inp obs : sx) : sx :=
  let m := run14F inp in
  let v := mon14F inp obs in
  verdict (agree14F inp m obs) (negb (nil_b v)) m (of_Zs v).
