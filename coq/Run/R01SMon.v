(** Run/R01SMon.v — the C01S monitor [mon01S] is silent on the model's own run [run01S],
    for every input with sector size >= 1 ([dom01S]): induction over the event list with the
    joint invariant of Run/R01SMonInv.v.  One lemma per monitor clause, then the theorem.
    [dom01S] is necessary: with sector size 0 (where the Go code divides by zero) clause 5
    fires on the model ([dom01S_needed]). *)
From Coq Require Import List Arith ZArith Bool Lia.
From BBS Require Import Common.Sx Store.SectorWriter Store.SectorWriterProofs Store.SectorWriterSpec
  Store.SectorWriterCommute Store.SectorWriterInv Store.SectorWriterAccum
  Store.SectorWriterDevice Run.R01S Run.R01SMonBase Run.R01SMonInv.
Import ListNotations.
Open Scope nat_scope.

Section Mon.
Variable k : cfg01s.
Let c := k_cfg k.
Let SS := c_sector c.
Hypothesis HS : 1 <= c_sector c.
Hypothesis Hbase : c_base c = c_spb c.

(** * one harness event: the invariant is kept; clauses 2, 3, 5 do not fire on its device writes *)

Ltac noop HI :=
  let H := fresh "H" in
  intros H; injection H as <- <- <-;
  split; [exact HI|intros _; split; [apply b2_nil|split; [reflexivity|apply b5_nil]]].

Lemma exec_mon r ev r' res l dev ws starts :
  Inv k r dev ws -> exec c r ev = (r', res, l) ->
  Inv k r' (apply_writes dev l) (ws_next ev res ws) /\
  (compat starts (r_st r') -> b2 k l = [] /\ b3 k starts ev ws l = [] /\ b5 k l = []).
Proof.
  intros HI. pose proof HI as (HR & Hdev & H3). unfold c in *.
  unfold exec, ws_next, b3. cbv beta zeta.
  set (arg := sx_nat (sx_nth ev 1)).
  destruct (sx_nat (sx_nth ev 0)) as [|[|[|[|[|n]]]]]; cbv beta iota.
  - (* 0: HasSpace, Put *)
    destruct (has_space (k_cfg k) (st_cur (r_st r)) arg) eqn:Hhs.
    + destruct (step_alloc_ok (k_cfg k) _ _ Hhs) as (s' & t & Hs & E1 & E2 & E3 & E4 & E5).
      rewrite (step_skip_some _ _ _ _ _ Hs). intros H; injection H as <- <- <-.
      change (sx_bool (sx_nth (L [of_bool true]) 0)) with true. cbv beta iota.
      split; [|intros _; split; [apply b2_nil|split; [reflexivity|apply b5_nil]]].
      unfold Inv. cbn [r_st r_v apply_writes fold_left].
      split; [eapply reach_step; eauto|]. split; [congruence|].
      rewrite E1. apply R3_app; [exact H3|].
      apply rel_live; cbn [m_size v_size v_live m_fin m_ok m_data v_fed v_pending pend length]; auto.
      * unfold pend. cbn [v_pending]. rewrite E3. reflexivity.
      * lia.
      * intros Hn; exfalso; apply Hn; reflexivity.
    + noop HI.
  - (* 1: a chunk *)
    destruct (nth_error (r_v r) arg) as [v|] eqn:Hv; cbv beta iota.
    2:{ rewrite (R3_none _ _ _ _ H3 Hv). noop HI. }
    destruct (R3_get _ _ _ _ _ H3 Hv) as (t & m & Ht & Hm & Hrel). rewrite Hm.
    destruct Hrel as (Hsz & Hvs & Hlf & HL & HO).
    destruct (v_live v) eqn:Hlive; cbv beta iota.
    2:{ assert (Hfin : m_fin m = true) by (destruct (m_fin m); [reflexivity|discriminate]).
        rewrite Hfin. noop HI. }
    assert (Hfin : m_fin m = false) by (destruct (m_fin m); [discriminate|reflexivity]).
    rewrite Hfin. destruct (HL eq_refl) as (Hact & Hok & Hdata & Hfed & Hle & Hpend).
    destruct (v_fed v =? v_size v) eqn:Hfs.
    + destruct (dec_bytes (sx_nth ev 2)) as [|b ch] eqn:Hch.
      * (* nothing more expected, empty chunk *)
        intros H; injection H as <- <- <-.
        split; [|intros _; split; [apply b2_nil|split; [reflexivity|apply b5_nil]]].
        unfold Inv. split; [exact HR|]. split; [exact Hdev|].
        rewrite <- (upd_same (r_v r) arg v Hv). apply (R3_upd2 _ _ _ _ t); [exact H3|exact Ht|].
        apply rel_live; cbn [m_size v_size v_live m_fin m_ok m_data]; rewrite ?app_nil_r; auto.
      * (* surplus data *)
        destruct (tact_abandon k _ _ _ Ht Hact) as (s' & t' & Hs & HT & Ed & Est).
        pose proof HT as (_ & _ & T3 & T4 & _).
        rewrite Hs. unfold finish. intros H; injection H as <- <- <-.
        refine (leaf k r dev ws arg t m s' [] t' _ _ starts HI Ht Hsz HT _).
        apply rel_dead; cbn [m_size v_size v_live m_fin m_ok]; try reflexivity; congruence.
    + destruct (v_size v - v_fed v <? length (dec_bytes (sx_nth ev 2))) eqn:Hbig.
      * (* more than the declared size *)
        destruct (tact_abandon k _ _ _ Ht Hact) as (s' & t' & Hs & HT & Ed & Est).
        pose proof HT as (_ & _ & T3 & T4 & _).
        rewrite Hs. unfold finish. intros H; injection H as <- <- <-.
        refine (leaf k r dev ws arg t m s' [] t' _ _ starts HI Ht Hsz HT _).
        apply rel_dead; cbn [m_size v_size v_live m_fin m_ok]; try reflexivity; congruence.
      * apply Nat.eqb_neq in Hfs. apply Nat.ltb_ge in Hbig.
        assert (Hp0 : v_pending v = None).
        { destruct (v_pending v) eqn:Hp; [|reflexivity]. exfalso. apply Hfs. apply Hpend. discriminate. }
        assert (Hd0 : m_data m = t_data t) by (rewrite Hdata; unfold pend; rewrite Hp0; apply app_nil_r).
        destruct (v_fed v + length (dec_bytes (sx_nth ev 2)) =? v_size v) eqn:Hlast.
        -- (* the chunk completing the declared size: withheld *)
           apply Nat.eqb_eq in Hlast.
           intros H; injection H as <- <- <-.
           split; [|intros _; split; [apply b2_nil|split; [reflexivity|apply b5_nil]]].
           unfold Inv. cbn [r_st r_v]. split; [exact HR|]. split; [exact Hdev|].
           apply (R3_upd2 _ _ _ _ t); [exact H3|exact Ht|].
           apply rel_live; cbn [m_size v_size v_live m_fin m_ok m_data v_fed v_pending]; auto.
           ++ unfold pend. cbn [v_pending]. rewrite Hd0. reflexivity.
           ++ rewrite app_length. lia.
        -- (* an ordinary chunk: Write *)
           apply Nat.eqb_neq in Hlast.
           destruct (tact_write k HS Hbase (r_st r) arg t (dec_bytes (sx_nth ev 2)) Ht Hact)
             as (s' & l1 & t' & Hs & HT & Ed & Est).
           { rewrite <- Hd0, <- Hvs. lia. }
           pose proof HT as (_ & _ & T3 & T4 & _).
           rewrite Hs. intros H; injection H as <- <- <-.
           refine (leaf k r dev ws arg t m s' l1 t' _ _ starts HI Ht Hsz HT _).
           apply rel_live; cbn [m_size v_size v_live m_fin m_ok m_data v_fed v_pending]; try reflexivity; try congruence.
           ++ unfold pend. cbn [v_pending]. rewrite app_nil_r, Ed, Hd0. reflexivity.
           ++ rewrite app_length. lia.
           ++ lia.
  - (* 2: EOF *)
    destruct (nth_error (r_v r) arg) as [v|] eqn:Hv; cbv beta iota.
    2:{ rewrite (R3_none _ _ _ _ H3 Hv). noop HI. }
    destruct (R3_get _ _ _ _ _ H3 Hv) as (t & m & Ht & Hm & Hrel). rewrite Hm.
    destruct Hrel as (Hsz & Hvs & Hlf & HL & HO).
    destruct (v_live v) eqn:Hlive; cbv beta iota.
    2:{ assert (Hfin : m_fin m = true) by (destruct (m_fin m); [reflexivity|discriminate]).
        rewrite Hfin. noop HI. }
    assert (Hfin : m_fin m = false) by (destruct (m_fin m); [discriminate|reflexivity]).
    rewrite Hfin. destruct (HL eq_refl) as (Hact & Hok & Hdata & Hfed & Hle & Hpend).
    destruct (v_fed v =? v_size v) eqn:Hfs.
    + apply Nat.eqb_eq in Hfs. destruct (v_pending v) as [ch|] eqn:Hp.
      * (* the withheld chunk, then flush *)
        unfold pend in Hdata. rewrite Hp in Hdata.
        destruct (tact_write k HS Hbase (r_st r) arg t ch Ht Hact) as (s1 & l1 & t1 & Hs1 & HT1 & Ed1 & Est1).
        { rewrite <- app_length, <- Hdata, <- Hfed, Hfs, Hvs. lia. }
        pose proof HT1 as (_ & T12 & T13 & T14 & _).
        assert (Ht1 : nth_error (st_threads s1) arg = Some t1).
        { rewrite T12. apply nth_error_upd_eq. eapply nth_error_lt; eauto. }
        destruct (tact_flush k HS Hbase s1 arg t1 Ht1 Est1) as (s2 & l2 & t2 & Hs2 & HT2 & Ed2 & Est2).
        { rewrite Ed1, T14, <- Hdata, <- Hfed. congruence. }
        pose proof (tact_trans k _ _ _ _ _ _ _ _ _ HT1 HT2) as HT.
        pose proof HT as (_ & _ & T3 & T4 & _).
        cbn [app]. rewrite (steps_skip_2 (k_cfg k) _ _ _ _ _ _ _ Hs1 Hs2). unfold finish.
        intros H; injection H as <- <- <-.
        refine (leaf k r dev ws arg t m s2 (l1 ++ l2) t2 _ _ starts HI Ht Hsz HT _).
        apply rel_flushed; cbn [m_size v_size v_live m_fin m_ok m_data]; try reflexivity; try congruence.
      * unfold pend in Hdata. rewrite Hp, app_nil_r in Hdata.
        destruct (tact_flush k HS Hbase (r_st r) arg t Ht Hact) as (s2 & l2 & t2 & Hs2 & HT & Ed2 & Est2).
        { rewrite <- Hdata, <- Hfed. congruence. }
        pose proof HT as (_ & _ & T3 & T4 & _).
        cbn [app]. rewrite (steps_skip_1 (k_cfg k) _ _ _ _ Hs2). unfold finish.
        intros H; injection H as <- <- <-.
        refine (leaf k r dev ws arg t m s2 l2 t2 _ _ starts HI Ht Hsz HT _).
        apply rel_flushed; cbn [m_size v_size v_live m_fin m_ok m_data]; try reflexivity; try congruence.
    + (* premature EOF *)
      destruct (tact_abandon k _ _ _ Ht Hact) as (s' & t' & Hs & HT & Ed & Est).
      pose proof HT as (_ & _ & T3 & T4 & _).
      rewrite Hs. unfold finish. intros H; injection H as <- <- <-.
      refine (leaf k r dev ws arg t m s' [] t' _ _ starts HI Ht Hsz HT _).
      apply rel_dead; cbn [m_size v_size v_live m_fin m_ok]; try reflexivity; congruence.
  - (* 3: the source fails *)
    destruct (nth_error (r_v r) arg) as [v|] eqn:Hv; cbv beta iota.
    2:{ rewrite (R3_none _ _ _ _ H3 Hv). noop HI. }
    destruct (R3_get _ _ _ _ _ H3 Hv) as (t & m & Ht & Hm & Hrel). rewrite Hm.
    destruct Hrel as (Hsz & Hvs & Hlf & HL & HO).
    destruct (v_live v) eqn:Hlive; cbv beta iota.
    2:{ assert (Hfin : m_fin m = true) by (destruct (m_fin m); [reflexivity|discriminate]).
        rewrite Hfin. noop HI. }
    assert (Hfin : m_fin m = false) by (destruct (m_fin m); [discriminate|reflexivity]).
    rewrite Hfin. destruct (HL eq_refl) as (Hact & Hok & Hdata & Hfed & Hle & Hpend).
    destruct (tact_abandon k _ _ _ Ht Hact) as (s' & t' & Hs & HT & Ed & Est).
    pose proof HT as (_ & _ & T3 & T4 & _).
    rewrite Hs. unfold finish. intros H; injection H as <- <- <-.
    refine (leaf k r dev ws arg t m s' [] t' _ _ starts HI Ht Hsz HT _).
    apply rel_dead; cbn [m_size v_size v_live m_fin m_ok]; try reflexivity; congruence.
  - (* 4: HasSpace only *) noop HI.
  - (* other kinds *) noop HI.
Qed.

(** * the event loop: clauses 1 (after every step), 2, 3, 5 (device writes) never fire *)
Lemma mon_steps_model evs : forall r r2 out dev ws starts,
  Inv k r dev ws -> exec_all c r evs = (r2, out) -> compat starts (r_st r2) ->
  exists ws2, mon_steps k starts evs out (dev, ws, []) = (st_dev (r_st r2), ws2, []) /\
              Inv k r2 (st_dev (r_st r2)) ws2.
Proof.
  induction evs as [|ev evs IH]; intros r r2 out dev ws starts HI He Hc; cbn [exec_all] in He.
  - injection He as <- <-. exists ws. destruct HI as (HR & -> & H3).
    split; [reflexivity|]. unfold Inv. auto.
  - destruct (exec c r ev) as [[r1 res] l] eqn:H1. destruct (exec_all c r1 evs) as [r2' out'] eqn:H2.
    injection He as <- <-. cbn [mon_steps]. rewrite mon_step_eq.
    destruct (exec_mon _ _ _ _ _ _ _ starts HI H1) as [HI1 Hcl].
    assert (Hc1 : compat starts (r_st r1)) by (eapply compat_ext; [eapply exec_all_ext; eauto|exact Hc]).
    destruct (Hcl Hc1) as (C2 & C3 & C5). rewrite C2, C3, C5.
    rewrite (holds_ok k HS Hbase _ _ _ _ HI1 Hc1). cbn [app]. eapply IH; eauto.
Qed.

(** * clauses 4 and 5 (allocations), on the final state *)
Lemma chain_end_ge ts : forall a, a <= chain_end a ts.
Proof. induction ts as [|t ts IH]; intros a; cbn [chain_end]; [lia|]. specialize (IH (a + t_size t)). lia. Qed.

Lemma allocs_ok_chained ts : forall ws lo lo' hi,
  lo' <= lo -> chained lo ts -> (ts <> [] -> chain_end lo ts <= hi) ->
  (forall j t m, nth_error ts j = Some t -> nth_error ws j = Some m -> m_size m = t_size t) ->
  allocs_ok lo' hi (map t_start ts) ws = true.
Proof.
  induction ts as [|t ts IH]; intros ws lo lo' hi Hlo Hch Hend Hsz; cbn [map allocs_ok]; [reflexivity|].
  destruct ws as [|m ws]; [reflexivity|]. cbn [chained] in Hch. destruct Hch as [E Hch].
  pose proof (Hsz 0 t m eq_refl eq_refl) as Em.
  assert (Hend' : chain_end (lo + t_size t) ts <= hi) by (apply Hend; discriminate).
  pose proof (chain_end_ge ts (lo + t_size t)) as Hge.
  rewrite Em, E. apply andb_true_intro; split; [apply andb_true_intro; split; apply Nat.leb_le; lia|].
  apply (IH ws (lo + t_size t)); [lia|exact Hch|intros _; exact Hend'|].
  intros j t1 m1 H1 H2. apply (Hsz (S j)); assumption.
Qed.

Lemma allocs_model r dev ws lo' :
  Inv k r dev ws -> lo' <= cpos c (init_cursor k) ->
  allocs_ok lo' (c_spb c * c_sector c) (map t_start (st_threads (r_st r))) ws = true.
Proof.
  intros ([tr Hrun] & _ & (L1 & L2 & H3)) Hlo.
  pose proof (ainv_run c _ tr _ _ HS (ainv_init c (init_dev k) _ (init_cursor_wf k)) Hrun)
    as (_ & Hch & Hend & Hin).
  apply (allocs_ok_chained _ _ (cpos c (init_cursor k))); [exact Hlo|exact Hch| |].
  - intros Hne. rewrite Hend. auto.
  - intros j t m Ht Hm. pose proof (nth_error_lt _ _ _ Ht) as Hl.
    destruct (nth_error_ex (r_v r) j ltac:(lia)) as [v Hv].
    destruct (H3 _ _ _ _ Ht Hv Hm) as (E & _). exact E.
Qed.
End Mon.

(** * the theorem *)

(** the harness accepts sector sizes 1..64 only (c01s.Exec); nothing else is needed *)
Definition dom01S (inp : sx) : bool := 1 <=? sx_nat (sx_nth inp 0).

Section Final.
Variable inp : sx.
Hypothesis Hdom : dom01S inp = true.
Let k := dec_cfg inp.
Let r0 := {| r_st := init_state (init_dev k) (init_cursor k); r_v := [] |}.

Lemma dom_sector : 1 <= c_sector (k_cfg k).
Proof. apply Nat.leb_le. exact Hdom. Qed.

Lemma dom_base : c_base (k_cfg k) = c_spb (k_cfg k).
Proof. reflexivity. Qed.

Lemma inv_init : Inv k r0 (init_dev k) [].
Proof.
  unfold Inv. split; [apply reach_init|]. split; [reflexivity|].
  unfold R3. cbn. split; [reflexivity|]. split; [reflexivity|].
  intros j t v m H. destruct j; discriminate.
Qed.

(** the monitor's walk over the model's run: final device, the monitor's writer table, no clause hit *)
Lemma model_walk r out : exec_all (k_cfg k) r0 (k_events k) = (r, out) ->
  exists ws, mon_steps k (map t_start (st_threads (r_st r))) (k_events k) out (init_dev k, [], []) =
             (st_dev (r_st r), ws, []) /\ Inv k r (st_dev (r_st r)) ws /\
             compat (map t_start (st_threads (r_st r))) (r_st r).
Proof.
  intros He.
  assert (Hc : compat (map t_start (st_threads (r_st r))) (r_st r)).
  { intros j t Hj. apply nth_map_nth_error. exact Hj. }
  destruct (mon_steps_model k dom_sector dom_base _ _ _ _ _ _ _ inv_init He Hc) as (ws & E & HI).
  exists ws. auto.
Qed.

(** clause 1..5, each on the whole run *)
Definition fires (z : Z) : Prop := In z (mon01S inp (run01S inp)).

Lemma mon01S_model_eq r out : exec_all (k_cfg k) r0 (k_events k) = (r, out) ->
  exists ws, Inv k r (st_dev (r_st r)) ws /\
    compat (map t_start (st_threads (r_st r))) (r_st r) /\
    mon01S inp (run01S inp) =
    (let c := k_cfg k in
     let starts := map t_start (st_threads (r_st r)) in
     let bad1 := if holds c starts (st_dev (r_st r)) ws then [] else [1%Z] in
     let lo := match k_restored k with Some r => r | None => 0 end in
     let bad4 := if allocs_ok 0 (c_spb c * c_sector c) starts ws then [] else [4%Z] in
     let bad5 := if allocs_ok lo (c_spb c * c_sector c) starts ws then [] else
                   match bad4 with [] => [5%Z] | _ => [] end in
     dedup ([] ++ bad1 ++ bad4 ++ bad5)).
Proof.
  intros He. destruct (model_walk _ _ He) as (ws & E & HI & Hc). exists ws.
  split; [exact HI|]. split; [exact Hc|].
  unfold run01S. fold k. fold r0. rewrite He.
  unfold mon01S. fold k.
  change (sx_nth (L [L out; enc_bytes (st_dev (r_st r)); of_nats (map t_start (st_threads (r_st r)))]) 2)
    with (of_nats (map t_start (st_threads (r_st r)))).
  change (sx_nth (L [L out; enc_bytes (st_dev (r_st r)); of_nats (map t_start (st_threads (r_st r)))]) 1)
    with (enc_bytes (st_dev (r_st r))).
  change (sx_list (sx_nth (L [L out; enc_bytes (st_dev (r_st r)); of_nats (map t_start (st_threads (r_st r)))]) 0))
    with out.
  rewrite sx_nats_of_nats, dec_enc_bytes. cbv beta iota zeta. rewrite E. reflexivity.
Qed.
End Final.

Theorem mon01S_silent_on_model_proof : forall inp, dom01S inp = true -> mon01S inp (run01S inp) = [].
Proof.
  intros inp Hdom. set (k := dec_cfg inp).
  destruct (exec_all (k_cfg k) {| r_st := init_state (init_dev k) (init_cursor k); r_v := [] |} (k_events k))
    as [r out] eqn:He.
  destruct (mon01S_model_eq inp Hdom r out He) as (ws & HI & Hc & ->).
  pose proof (dom_sector inp Hdom) as HS. pose proof (dom_base inp) as Hbase. fold k in HS, Hbase, HI, Hc |- *.
  cbv zeta.
  rewrite (holds_ok k HS Hbase _ _ _ _ HI Hc).
  rewrite (allocs_model k HS Hbase r _ ws 0 HI (Nat.le_0_l _)).
  rewrite (allocs_model k HS Hbase r _ ws _ HI).
  - reflexivity.
  - destruct (k_restored k) as [r1|] eqn:Hr; [|lia]. apply (init_cursor_restored k HS Hbase). exact Hr.
Qed.

(** clause by clause.  Where the content is: clause 1 — [holds_ok] (after every step, from
    [completed_writer_data_on_device] and [flushed_writer_has_all_bytes] via
    [reach_flushed_slice]) ; clauses 2, 3 and the device-write half of 5 — [leaf] / [exec_mon]
    (from [writer_writes_only_own_sectors], [allocations_disjoint], [new_block_at_pos] via
    [reach_step_span]); clause 4 and the allocation half of 5 — [allocs_model] (from the
    allocator invariant [ainv]). *)
Corollary clause_silent_on_model : forall inp z, dom01S inp = true -> ~ In z (mon01S inp (run01S inp)).
Proof. intros inp z Hd. rewrite (mon01S_silent_on_model_proof inp Hd). intros []. Qed.

Corollary clause1_silent_on_model : forall inp, dom01S inp = true -> ~ In 1%Z (mon01S inp (run01S inp)).
Proof. intros inp. apply clause_silent_on_model. Qed.
Corollary clause2_silent_on_model : forall inp, dom01S inp = true -> ~ In 2%Z (mon01S inp (run01S inp)).
Proof. intros inp. apply clause_silent_on_model. Qed.
Corollary clause3_silent_on_model : forall inp, dom01S inp = true -> ~ In 3%Z (mon01S inp (run01S inp)).
Proof. intros inp. apply clause_silent_on_model. Qed.
Corollary clause4_silent_on_model : forall inp, dom01S inp = true -> ~ In 4%Z (mon01S inp (run01S inp)).
Proof. intros inp. apply clause_silent_on_model. Qed.
Corollary clause5_silent_on_model : forall inp, dom01S inp = true -> ~ In 5%Z (mon01S inp (run01S inp)).
Proof. intros inp. apply clause_silent_on_model. Qed.

Lemma mon01S_clauses_silent_on_model_proof : forall inp, dom01S inp = true ->
  ~ In 1%Z (mon01S inp (run01S inp)) /\ ~ In 2%Z (mon01S inp (run01S inp)) /\
  ~ In 3%Z (mon01S inp (run01S inp)) /\ ~ In 4%Z (mon01S inp (run01S inp)) /\
  ~ In 5%Z (mon01S inp (run01S inp)).
Proof.
  intros inp H. split; [|split; [|split; [|split]]]; apply clause_silent_on_model; exact H.
Qed.

Lemma dom01S_spec_proof : forall inp, dom01S inp = true <-> 1 <= sx_nat (sx_nth inp 0).
Proof. intros inp. apply Nat.leb_le. Qed.

(** * non-vacuity and necessity of the domain *)
Module Ex.
Open Scope Z_scope.
Definition al n := L [A 0; A n].
Definition qy n := L [A 4; A n].
Definition chk j b := L [A 1; A j; of_Zs b].
Definition eof j := L [A 2; A j].
Definition fail j := L [A 3; A j].
Definition inp s spb r f evs := L [A s; A spb; A r; A f; L evs].

(** sector 4, block of 3 sectors restored at offset 1 (rounds up to 4): three writers in flight
    at the same time; writers 0 and 1 share a sector and both complete (out of allocation
    order, writer 1's last chunk is withheld until EOF), writer 2 gets surplus data and is
    abandoned; then events on dead and unknown writers, an empty chunk, a size-0 writer,
    a too large allocation, an unknown event kind *)
Definition good : sx :=
  inp 4 3 1 9 [al 3; al 3; al 2; chk 1 [4;5]; chk 0 [1;2;3]; chk 1 []; chk 1 [6]; chk 2 [7;8]; chk 2 [9];
               eof 1; eof 0; eof 0; fail 2; chk 7 [1]; al 0; eof 3; qy 1; al 9; L [A 7; A 0]].
End Ex.

Example dom01S_example :
  dom01S Ex.good = true /\ mon01S Ex.good (run01S Ex.good) = [] /\
  sx_nth (run01S Ex.good) 1 = of_Zs ([9;9;9;9;9;9;9;9;9;9;9;9] ++ [9;9;9;9;1;2;3;4;5;6;0;0] ++ [9;9;9;9;9;9;9;9;9;9;9;9])%Z.
Proof. vm_compute. repeat split. Qed.

(** sector size 0 is outside the domain (the harness rejects it; the Go code would divide by
    zero): there clause 5 does fire on the model's run, so the hypothesis cannot be dropped *)
Example dom01S_needed :
  let bad := Ex.inp 0 2 3 7 [Ex.al 0] in
  dom01S bad = false /\ mon01S bad (run01S bad) = [5%Z].
Proof. vm_compute. split; reflexivity. Qed.
