(** C09S: sub-check of C09 — consumption through stream clones.

    Input: (order inner); inner is a C09 input whose method is ToByteSlice,
    IntoWriter, ToChunkReader or ToReader.  The real buffer is CloneStream()ed,
    one clone is consumed by that method, its sibling is discarded before
    (order 0) or after (order 1) the consuming clone registered with the
    multiplexer.  The specification of a clone is the specification of the
    buffer itself: the model and the monitor are C09's, applied to [inner] —
    clones may not weaken validation, change the bytes, the error or the
    verdict passed to the integrity callback.  (The multiplexer's own protocol
    — several concurrent consumers, background tasks — is C15's model.) *)
From Coq Require Import List ZArith NArith Bool.
From BBS Require Import Common.Sx Run.R09.
Import ListNotations.

Definition inner09S (inp : sx) : sx := sx_nth inp 1.
Definition run09S (inp : sx) : sx := run09 (inner09S inp).
Definition mon09S (inp obs : sx) : list Z := mon09 (inner09S inp) obs.
(** Agreement.  A consumption that completes must be observed exactly as the
    model says (bytes, code, further reads, callback verdicts, close count).  A
    consumption that fails must fail with the model's code, the same callback
    verdicts and close count; the bytes handed out BEFORE the failure need only
    be comparable with the model's (one a prefix of the other): a clone's data
    passes through the multiplexer and C09's validating chunk reader, which may
    hand out less before an I/O error than a direct reader does. *)
Fixpoint prefixN (a b : list N) : bool :=
  match a, b with
  | [], _ => true
  | x :: a', y :: b' => N.eqb x y && prefixN a' b'
  | _ :: _, [] => false
  end.

Definition agree09S (inp m o : sx) : bool :=
  let meth := k_meth (dec_case (inner09S inp)) in
  let code := sx_Z (sx_nth o 1) in
  if completes meth code then sx_eqb m o
  else Z.eqb (sx_Z (sx_nth m 1)) code
       && sx_eqb (sx_nth m 3) (sx_nth o 3) && sx_eqb (sx_nth m 4) (sx_nth o 4)
       && (prefixN (dec_bytes (sx_nth o 0)) (dec_bytes (sx_nth m 0))
           || prefixN (dec_bytes (sx_nth m 0)) (dec_bytes (sx_nth o 0))).

Definition judge09S (inp obs : sx) : sx :=
  let m := run09S inp in
  let v := mon09S inp obs in
  verdict (agree09S inp m obs) (negb (match v with [] => true | _ => false end)) m (of_Zs v).
