(** C01W / C05W — sub-checks of C01 and C05: the [local] backend as built by the
    real configuration constructor (pkg/blobstore/configuration/new_blob_access.go,
    cas_blob_access_creator.go, ac_blob_access_creator.go,
    proto_blob_access_creator.go), judged by the store model of Store/Model.v
    on the configuration that Store/Wiring.v says the message denotes.

    Input: (wcfg objs anc ops)
      wcfg = (ac hier old cur new device spare block_size sector_size sector_count ...)
             (further fields - key-location map backend and sizes - are the harness's business)
      objs, anc, ops as in Run/RStore.v
    Observation: one (kind code payload negs live open srcclosed writes) per
      event as in Run/RStore.v, or (-3) when the constructor refused the
      configuration.  Agreement is on kind, code, payload, negs and srcclosed
      (the allocator's counters are C04's subject and are not exposed by a
      store built from a configuration message). *)
From Coq Require Import List NArith ZArith Bool Arith.
From BBS Require Import Common.Sx Store.Model Store.Wiring Run.RStore Run.R01 Run.R05 Run.R08.
Import ListNotations.
Open Scope Z_scope.

Definition dec_wiring (s : sx) : wiring :=
  {| wi_ac := sx_bool (sx_nth s 0); wi_hier := sx_bool (sx_nth s 1);
     wi_old := sx_nat (sx_nth s 2); wi_cur := sx_nat (sx_nth s 3); wi_new := sx_nat (sx_nth s 4);
     wi_device := sx_bool (sx_nth s 5); wi_spare := sx_nat (sx_nth s 6);
     wi_block_size := sx_N (sx_nth s 7); wi_sector_size := sx_N (sx_nth s 8);
     wi_sector_count := sx_N (sx_nth s 9) |}.

Definition wired_world (inp : sx) : option world :=
  match wire (dec_wiring (sx_nth inp 0)) with
  | None => None
  | Some c => Some {| w_cfg := c;
                      w_objs := map sx_Ns (sx_list (sx_nth inp 1));
                      w_anc := map sx_nats (sx_list (sx_nth inp 2)) |}
  end.

Definition run_world (w : world) (es : list op) : sx :=
  L (map (fun '(e, (s0, s1, o)) => enc_obs (w_cfg w) e s0 s1 o)
         (combine es (run_states w (init_state (w_cfg w)) es))).

Definition rejected : sx := L [A (-3)].

(** the last element of an observation: the DigestKeyFormat the constructor
    reports for the backend (BlobAccessInfo.DigestKeyFormat, which outer
    decorators - existence caches, replicators - key their own state by):
    1 = keys carry the instance name *)
Definition key_format_obs (w : world) : sx := L [A 9; of_bool (c_inst_keys (w_cfg w))].

Definition run01W (inp : sx) : sx :=
  match wired_world inp with
  | None => rejected
  | Some w => L (sx_list (run_world w (dec_ops inp)) ++ [key_format_obs w])
  end.

(** the C01 and C05 monitors, on a world rather than on an encoded input *)
Definition mon01_world (w : world) (es : list op) (obs : sx) : list Z :=
  dedupZ (R01.m_viol (mon01_run w {| m_puts := []; m_gets := []; m_gfcs := []; m_uploaded := [];
                                     m_corrupted := false; R01.m_viol := [] |} es (sx_list obs))).

Definition mon05_world (w : world) (es : list op) (obs : sx) : list Z :=
  let sts := run_states w (init_state (w_cfg w)) es in
  dedupZ (t_viol (fold_left (m05_step w) (combine (combine es sts) (sx_list obs)) m05_init)).

(** of C05's clauses only those that are proved never to fire on the model
    are enforced here (5, 6: findings F10, F11; 4, 7 need the device write
    count, which a store built from a configuration message does not expose) *)
Definition enforced05 (z : Z) : bool := Z.eqb z 1 || Z.eqb z 2 || Z.eqb z 3.

Definition obs_agreeW (m o : sx) : bool :=
  sx_eqb (L (firstn 4 (sx_list m) ++ [sx_nth m 6])) (L (firstn 4 (sx_list o) ++ [sx_nth o 6])).

Definition judgeW (mon : world -> list op -> sx -> list Z) (inp obs : sx) : sx :=
  match wired_world inp with
  | None => verdict (sx_eqb obs rejected) false rejected (L [])
  | Some w =>
      let es := dec_ops inp in
      let m := L (sx_list (run_world w es) ++ [key_format_obs w]) in
      let v := if sx_eqb obs rejected then [] else mon w es obs in
      verdict (all2b obs_agreeW (sx_list m) (sx_list obs))
              (negb (match v with [] => true | _ => false end)) m (of_Zs v)
  end.

Definition mon01W (w : world) (es : list op) (obs : sx) : list Z := mon01_world w es obs.
Definition mon05W (w : world) (es : list op) (obs : sx) : list Z := filter enforced05 (mon05_world w es obs).

Definition judge01W (inp obs : sx) : sx := judgeW mon01W inp obs.
Definition judge05W (inp obs : sx) : sx := judgeW mon05W inp obs.

(** C08W: the quarantine monitor of C08 on the wired store *)
Definition mon08W (w : world) (es : list op) (obs : sx) : list Z :=
  let sts := run_states w (init_state (w_cfg w)) es in
  dedupZ (snd (fold_left (m08_step w) (combine (combine es sts) (sx_list obs)) ([], []))).
Definition judge08W (inp obs : sx) : sx := judgeW mon08W inp obs.
