(** C12: sx interface. *)
From BBS Require Import Common.Sx Common.ListX Generated.Consts Sharding.Rendezvous.
Open Scope Z_scope.

(** pool entry: (keynum keyhash weight) ; variant: list of pool indices *)
Definition pool_cfg (pool : sx) (v : list nat) : list (N * N) :=
  map (fun i => let e := sx_nth pool i in (sx_N (sx_nth e 1), sx_N (sx_nth e 2))) v.

(** chosen pool index per hash, or -3 when the constructor rejects *)
Definition variant_choices (pool : sx) (v : list nat) (hashes : list N) : sx :=
  match new_selector (pool_cfg pool v) with
  | None => L [A (-3)]
  | Some sel => L (map (fun h => of_nat (nth (get_shard sel h) v 0%nat)) hashes)
  end.

Definition run12_sel (inp : sx) : sx :=
  let pool := sx_nth inp 1 in
  let variants := map sx_nats (sx_list (sx_nth inp 2)) in
  let hashes := sx_Ns (sx_nth inp 3) in
  L (map (fun v => variant_choices pool v hashes) variants).

(** monitor 1 (IIA): for variants j,k and hash i, if c_j in v_k and c_k in v_j then c_j = c_k *)
Definition memb (x : nat) (l : list nat) : bool := existsb (Nat.eqb x) l.
Fixpoint zip_ok (vj vk : list nat) (cj ck : list nat) : bool :=
  match cj, ck with
  | a :: cj', b :: ck' =>
      (if memb a vk && memb b vj then Nat.eqb a b else true) && zip_ok vj vk cj' ck'
  | _, _ => true
  end.
Definition is_reject (s : sx) : bool := match s with L [A z] => Z.eqb z (-3) | _ => false end.

Definition mon12_sel (inp obs : sx) : list Z :=
  let variants := map sx_nats (sx_list (sx_nth inp 2)) in
  let obsl := sx_list obs in
  let pairs := combine variants obsl in
  let bad_iia :=
    existsb (fun '(vj, oj) =>
      existsb (fun '(vk, ok) =>
        if is_reject oj || is_reject ok then false
        else negb (zip_ok vj vk (sx_nats oj) (sx_nats ok))) pairs) pairs in
  (* 2: a chosen shard must be one of the configured shards *)
  let bad_member :=
    existsb (fun '(vj, oj) => if is_reject oj then false
                              else negb (forallb (fun c => memb c vj) (sx_nats oj))) pairs in
  (if bad_iia then [1] else []) ++ (if bad_member then [2] else []).

(** ---- blob access cases ----
    input: (1 cfg digests ops) ; cfg entry (keynum keyhash weight) ;
    digest (hash8 inst) ; op: (0 d fault) Get | (1 d fault) Put | (2 d c fault) composite
    | (3 (d...) (fault per backend)) FindMissing.
    Backends answer FindMissing with the requested ids whose (id mod 3) = 0. *)
Definition cfg_of (c : sx) : list (N * N) :=
  map (fun e => (sx_N (sx_nth e 1), sx_N (sx_nth e 2))) (sx_list c).

Definition fm_oracle (faults : list bool) (i : nat) (p : list nat) : fm_answer :=
  if nth i faults false then None else Some (filter (fun x => Nat.eqb (Nat.modulo x 3) 0) p).

Definition run12_op (sel : list shard) (nb : nat) (digests : sx) (op : sx) : sx :=
  let dg_of (i : nat) : dg := (sx_N (sx_nth (sx_nth digests i) 0), i) in
  match sx_Z (sx_nth op 0) with
  | 3 =>
      let ds := map dg_of (sx_nats (sx_nth op 1)) in
      let faults := map sx_bool (sx_list (sx_nth op 2)) in
      let '(asked, res) := find_missing sel nb (fm_oracle faults) ds in
      L [L (map (fun '(i, p) => L [of_nat i; of_nats p]) asked);
         match res with
         | Some r => L [A 0; of_nats r]
         | None => L [A 14; of_nats (map fst (filter (fun '(i, _) => nth i faults false) asked))]
         end]
  | k =>
      let d := sx_nat (sx_nth op 1) in
      let fault := sx_bool (sx_nth op (if Z.eqb k 2 then 3 else 2)) in
      let i := route sel (dg_of d) in
      (* backend index contacted, digest id seen, code, shard named in the error *)
      L [of_nat i; of_nat d; A (if fault then 14 else 0); if fault then L [of_nat i] else L []]
  end.

Definition run12_ba (inp : sx) : sx :=
  let cfg := cfg_of (sx_nth inp 1) in
  match new_selector cfg with
  | None => L [A (-3)]
  | Some sel => L (map (run12_op sel (length cfg) (sx_nth inp 2)) (sx_list (sx_nth inp 3)))
  end.

(** monitor on blob-access observations: the same digest hash is always sent
    to the same backend, whatever the instance name or operation (3); a
    FindMissing result is the union of what the contacted backends answer (4);
    errors carry the shard key (5). *)
Fixpoint assoc_conflict (seen : list (N * nat)) (k : N) (v : nat) : bool :=
  match seen with
  | [] => false
  | (k', v') :: t => (N.eqb k k' && negb (Nat.eqb v v')) || assoc_conflict t k v
  end.

Definition op_routes (digests : sx) (op obs : sx) : list (N * nat) :=
  let h (i : nat) := sx_N (sx_nth (sx_nth digests i) 0) in
  match sx_Z (sx_nth op 0) with
  | 3 => concat (map (fun a => map (fun d => (h d, sx_nat (sx_nth a 0))) (sx_nats (sx_nth a 1)))
                     (sx_list (sx_nth obs 0)))
  | _ => [(h (sx_nat (sx_nth op 1)), sx_nat (sx_nth obs 0))]
  end.

Fixpoint routes_conflict (l : list (N * nat)) : bool :=
  match l with
  | [] => false
  | (k, v) :: t => assoc_conflict t k v || routes_conflict t
  end.

Definition fm_union_ok (op obs : sx) : bool :=
  match sx_Z (sx_nth op 0) with
  | 3 =>
      let res := sx_nth obs 1 in
      if Z.eqb (sx_Z (sx_nth res 0)) 0 then
        let expected := dedup_sort (concat (map (fun a =>
              filter (fun x => Nat.eqb (Nat.modulo x 3) 0) (sx_nats (sx_nth a 1))) (sx_list (sx_nth obs 0)))) in
        sx_eqb (of_nats expected) (sx_nth res 1)
        && sx_eqb (of_nats (dedup_sort (concat (map (fun a => sx_nats (sx_nth a 1)) (sx_list (sx_nth obs 0))))))
                  (of_nats (dedup_sort (sx_nats (sx_nth op 1))))
      else true
  | _ => true
  end.

(** 5: errors carry the shard key.  A failing Get/Put/composite names exactly the
    backend that was contacted; a failing FindMissing names at least one shard,
    and every shard it names is one whose backend failed. *)
Definition err_named_ok (op obs : sx) : bool :=
  if Z.eqb (sx_Z (sx_nth op 0)) 3 then
    let res := sx_nth obs 1 in
    if Z.eqb (sx_Z (sx_nth res 0)) 0 then true
    else
      let faults := map sx_bool (sx_list (sx_nth op 2)) in
      let names := sx_list (sx_nth res 1) in
      negb (match names with [] => true | _ => false end)
      && forallb (fun n => nth (sx_nat n) faults false) names
  else if Z.eqb (sx_Z (sx_nth obs 2)) 0 then true
       else sx_eqb (sx_nth obs 3) (L [sx_nth obs 0]).

Definition mon12_ba (inp obs : sx) : list Z :=
  if is_reject obs then [] else
  let digests := sx_nth inp 2 in
  let ops := sx_list (sx_nth inp 3) in
  let pairs := combine ops (sx_list obs) in
  (if routes_conflict (concat (map (fun '(op, o) => op_routes digests op o) pairs)) then [3] else []) ++
  (if forallb (fun '(op, o) => fm_union_ok op o) pairs then [] else [4]) ++
  (if forallb (fun '(op, o) => err_named_ok op o) pairs then [] else [5]).

(** agreement: FindMissing failures name *one* of the failing shards *)
Definition agree12_op (m o : sx) : bool :=
  match sx_nth m 1, sx_nth o 1 with
  | L [A 14; L failing], L [A 14; L [named]] =>
      sx_eqb (sx_nth m 0) (sx_nth o 0) && existsb (sx_eqb named) failing
  | _, _ => sx_eqb m o
  end.

Fixpoint all2 (f : sx -> sx -> bool) (a b : list sx) : bool :=
  match a, b with
  | [], [] => true
  | x :: a', y :: b' => f x y && all2 f a' b'
  | _, _ => false
  end.

Definition judge12 (inp obs : sx) : sx :=
  match sx_Z (sx_nth inp 0) with
  | 0 => judge_det run12_sel mon12_sel inp obs
  | _ =>
      let m := run12_ba inp in
      let v := mon12_ba inp obs in
      let ag := if is_reject m then sx_eqb m obs
                else all2 agree12_op (sx_list m) (sx_list obs) in
      verdict ag (negb (match v with [] => true | _ => false end)) m (of_Zs v)
  end.
