(** C08Q: sub-check of C08 — the quarantine arithmetic of
    OldCurrentNewLocationBlobMap with detections landing INSIDE Put().

    Input  ((bs old cur new mut pb [init]) ops), init = initialBlocksCount (absent: 0), ops:
      (0 sz hooks)  Put(sz); hooks = for the i-th PopFront/PushBack the real
                    findBlockWithSpace makes on the block list, the reader ids
                    whose integrity callback fires just before that call
      (1 k bad)     a reader is obtained on the probe of live block k (bad: the
                    probe whose bytes were damaged on the medium)
      (2 r)         reader r is read to the end outside any Put()
      (3 w)         the finalizer of the w-th accepted Put() is called
    Observation: one entry per op
      (0 code idx hookobs snap)   hookobs = (kind dets snap) per block-list call,
                                  kind 0 PopFront / 1 PushBack, dets = (code delta)
      (1 ok snap) (2 code delta snap) (3 code idx snap)
    snap = visibility (1/0) of the probe of every live block, oldest first,
    through the real location-record array + BlockReferenceToBlockIndex;
    delta = number of blocks the error logger reported. *)
From Coq Require Import List ZArith Bool Lia.
From BBS Require Import Common.Sx Store.Quarantine.
Import ListNotations.
Open Scope Z_scope.

Inductive op :=
| OPut (sz : Z) (hooks : list (list nat))
| OOpen (k : Z) (bad : bool)
| ODetect (r : nat)
| OFin (w : nat)
| OBad.

Record hobs := { h_kind : Z; h_dets : list (Z * Z); h_snap : list bool }.

Inductive oobs :=
| BPut (code idx : Z) (hs : list hobs) (snap : list bool)
| BOpen (ok : bool) (snap : list bool)
| BDetect (code delta : Z) (snap : list bool)
| BFin (code idx : Z) (snap : list bool)
| BBad.

(** ** The model's run *)

Fixpoint vvec (st : qst) (n : nat) (i : Z) : list bool :=
  match n with
  | O => []
  | S m => negb (hidden st i) :: vvec st m (i + 1)
  end.
Definition snap (st : qst) : list bool := vvec st (length (blocks st)) 0.

Fixpoint fire (st : qst) (rs : list nat) : qst * list (Z * Z) :=
  match rs with
  | [] => (st, [])
  | r :: t =>
      let o := detect_obs st r in
      let '(st', os) := fire (detect st r) t in
      (st', o :: os)
  end.

Definition mk_hobs (kind : Z) (ds : list (Z * Z)) (sn : list bool) : hobs :=
  {| h_kind := kind; h_dets := ds; h_snap := sn |}.

(** Run the Put thread to the end of Put(); at every block-list call the next
    scheduled list of callbacks fires first.  Out of fuel: the thread is left
    where it is (reported as code -1). *)
Fixpoint put_loop (fuel : nat) (c : qcfg) (st : qst) (hooks : list (list nat)) : qst * list hobs :=
  match pcs st with
  | Idle | PDone _ _ => (st, [])
  | _ =>
      match fuel with
      | O => (st, [])
      | S f =>
          match next_call c st with
          | Some kind =>
              let '(st1, ds) := fire st (hd [] hooks) in
              let '(st2, hs) := put_loop f c (put_step c st1) (tl hooks) in
              (st2, mk_hobs kind ds (snap st1) :: hs)
          | None => put_loop f c (put_step c st) hooks
          end
      end
  end.

Definition put_fuel (c : qcfg) (st : qst) : nat :=
  (8 * (length (blocks st) + Z.to_nat (q_old c) + Z.to_nat (q_cur c) + Z.to_nat (q_new c) + 4))%nat.

Definition run_op (c : qcfg) (st : qst) (o : op) : qst * oobs :=
  match o with
  | OPut sz hooks =>
      let '(st2, hs) := put_loop (put_fuel c st) c (start st sz) hooks in
      let '(code, idx) := match pcs st2 with PDone a b => (a, b) | _ => (-1, 0) end in
      let st3 := finish st2 in
      (st3, BPut code idx hs (snap st3))
  | OOpen k bad =>
      let st1 := open st k bad in (st1, BOpen (can_open st k) (snap st1))
  | ODetect r =>
      let st1 := detect st r in
      (st1, BDetect (fst (detect_obs st r)) (snd (detect_obs st r)) (snap st1))
  | OFin w => (st, BFin (fst (fin_obs st w)) (snd (fin_obs st w)) (snap st))
  | OBad => (st, BBad)
  end.

Fixpoint run_ops (c : qcfg) (st : qst) (ops : list op) : list oobs :=
  match ops with
  | [] => []
  | o :: t => let '(st', b) := run_op c st o in b :: run_ops c st' t
  end.

(** ** The monitor (on observations; knows only the schedule and the
    configured capacity, no model state)

    R = number of PopFront calls seen, D = highest boundary a detection that
    was SEEN to fail INTERNAL asked for (reader obtained on live block k when R
    blocks had been released: R + k + 1).
    1  a live block newer than every detected block is invisible
    2  a detected block or an older one is visible
    3  a block newer than every detected block is released (PopFront) while the
       list is not above its configured capacity old+current+new
    4  an accepted Put() left a block listed that was quarantined when it began
    5  the finalizer acknowledged an upload into a quarantined block
    6  the finalizer refused an upload into a live block newer than every
       detected block *)
Fixpoint scan (a D : Z) (v : list bool) : list Z :=
  match v with
  | [] => []
  | b :: t =>
      (if b then (if a <? D then [2] else []) else (if D <=? a then [1] else []))
      ++ scan (a + 1) D t
  end.

Definition cap (c : qcfg) : Z := q_old c + q_cur c + (if q_mut c then 1 else q_new c).

Definition raise_D (D : Z) (tg : list (option Z)) (r : nat) (code : Z) : Z :=
  if code =? 13 then
    match nth_error tg r with Some (Some t) => Z.max D t | _ => D end
  else D.

Fixpoint upd_D (D : Z) (tg : list (option Z)) (rs : list nat) (ds : list (Z * Z)) : Z :=
  match rs, ds with
  | r :: rs', d :: ds' => upd_D (raise_D D tg r (fst d)) tg rs' ds'
  | _, _ => D
  end.

Fixpoint mon_hooks (c : qcfg) (R D : Z) (tg : list (option Z)) (hooks : list (list nat))
  (hs : list hobs) : Z * Z * list Z :=
  match hs with
  | [] => (R, D, [])
  | h :: hs' =>
      let D1 := upd_D D tg (hd [] hooks) (h_dets h) in
      let e1 := scan R D1 (h_snap h) in
      let pop := h_kind h =? 0 in
      let e3 := if pop && (D1 <=? R) && (Z.of_nat (length (h_snap h)) <=? cap c) then [3] else [] in
      let R1 := if pop then R + 1 else R in
      let '(R2, D2, e) := mon_hooks c R1 D1 tg (tl hooks) hs' in
      (R2, D2, e1 ++ e3 ++ e)
  end.

Fixpoint mon_ops (c : qcfg) (R D : Z) (tg : list (option Z)) (mp : list Z)
  (ops : list op) (obs : list oobs) : list Z :=
  match ops, obs with
  | o :: ops', b :: obs' =>
      match o, b with
      | OPut sz hooks, BPut code idx hs sn =>
          if code =? -1 then [] (* the model ran out of fuel: no statement *) else
          let '(R1, D1, e) := mon_hooks c R D tg hooks hs in
          let e4 := if (code =? 0) && (R1 <? D) then [4] else [] in
          let mp' := if code =? 0 then mp ++ [R1 + idx] else mp in
          e ++ e4 ++ scan R1 D1 sn ++ mon_ops c R1 D1 tg mp' ops' obs'
      | OOpen k bad, BOpen ok sn =>
          scan R D sn ++ mon_ops c R D (tg ++ [if ok then Some (R + k + 1) else None]) mp ops' obs'
      | ODetect r, BDetect code delta sn =>
          let D1 := raise_D D tg r code in
          scan R D1 sn ++ mon_ops c R D1 tg mp ops' obs'
      | OFin w, BFin code idx sn =>
          match nth_error mp w with
          | Some a =>
              (if (a <? D) && (code =? 0) then [5] else [])
              ++ (if (D <=? a) && (R <=? a) && negb (code =? 0) then [6] else [])
          | None => []
          end ++ scan R D sn ++ mon_ops c R D tg mp ops' obs'
      | _, _ => []
      end
  | _, _ => []
  end.

(** ** sx encoding *)

Definition dec_cfg (s : sx) : qcfg :=
  {| q_bs := sx_Z (sx_nth s 0); q_old := sx_Z (sx_nth s 1); q_cur := sx_Z (sx_nth s 2);
     q_new := sx_Z (sx_nth s 3); q_mut := sx_bool (sx_nth s 4); q_pb := sx_Z (sx_nth s 5);
     q_init := sx_Z (sx_nth s 6) |}.

Definition dec_op (s : sx) : op :=
  match sx_Z (sx_nth s 0) with
  | 0 => OPut (sx_Z (sx_nth s 1)) (map sx_nats (sx_list (sx_nth s 2)))
  | 1 => OOpen (sx_Z (sx_nth s 1)) (sx_bool (sx_nth s 2))
  | 2 => ODetect (sx_nat (sx_nth s 1))
  | 3 => OFin (sx_nat (sx_nth s 1))
  | _ => OBad
  end.

Definition enc_snap (v : list bool) : sx := L (map of_bool v).
Definition dec_snap (s : sx) : list bool := map sx_bool (sx_list s).
Definition enc_det (d : Z * Z) : sx := L [A (fst d); A (snd d)].
Definition dec_det (s : sx) : Z * Z := (sx_Z (sx_nth s 0), sx_Z (sx_nth s 1)).
Definition enc_hobs (h : hobs) : sx :=
  L [A (h_kind h); L (map enc_det (h_dets h)); enc_snap (h_snap h)].
Definition dec_hobs (s : sx) : hobs :=
  {| h_kind := sx_Z (sx_nth s 0); h_dets := map dec_det (sx_list (sx_nth s 1));
     h_snap := dec_snap (sx_nth s 2) |}.

Definition enc_oobs (b : oobs) : sx :=
  match b with
  | BPut code idx hs sn => L [A 0; A code; A idx; L (map enc_hobs hs); enc_snap sn]
  | BOpen ok sn => L [A 1; of_bool ok; enc_snap sn]
  | BDetect code delta sn => L [A 2; A code; A delta; enc_snap sn]
  | BFin code idx sn => L [A 3; A code; A idx; enc_snap sn]
  | BBad => L [A (-1)]
  end.

Definition dec_oobs (s : sx) : oobs :=
  match sx_Z (sx_nth s 0) with
  | 0 => BPut (sx_Z (sx_nth s 1)) (sx_Z (sx_nth s 2)) (map dec_hobs (sx_list (sx_nth s 3)))
           (dec_snap (sx_nth s 4))
  | 1 => BOpen (sx_bool (sx_nth s 1)) (dec_snap (sx_nth s 2))
  | 2 => BDetect (sx_Z (sx_nth s 1)) (sx_Z (sx_nth s 2)) (dec_snap (sx_nth s 3))
  | 3 => BFin (sx_Z (sx_nth s 1)) (sx_Z (sx_nth s 2)) (dec_snap (sx_nth s 3))
  | _ => BBad
  end.

Definition inp_cfg (inp : sx) : qcfg := dec_cfg (sx_nth inp 0).
Definition inp_ops (inp : sx) : list op := map dec_op (sx_list (sx_nth inp 1)).

(** The blocks the map is constructed over (initialBlocksCount; absent = 0)
    beyond the configured capacity are quarantined by the constructor: the
    monitor starts with that boundary instead of 0. *)
Definition mon_D0 (c : qcfg) : Z := Z.max 0 (q_init c - cap c).

Definition run08Q (inp : sx) : sx :=
  L (map enc_oobs (run_ops (inp_cfg inp) (init_of (inp_cfg inp)) (inp_ops inp))).
Definition mon08Q (inp obs : sx) : list Z :=
  mon_ops (inp_cfg inp) 0 (mon_D0 (inp_cfg inp)) [] [] (inp_ops inp) (map dec_oobs (sx_list obs)).

Definition judge08Q (inp obs : sx) : sx := judge_det run08Q mon08Q inp obs.
