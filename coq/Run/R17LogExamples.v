(** C17 / C17L: the event log of a model trace (Compose/EventLog.v) against the
    log the harness recorded from the REAL decorators.  Each example replays a
    schedule on the unchanged code (`bin/check C17 --replay`, `bin/check C17L
    --replay`; inputs in the comments), takes the trace of the model that
    follows the same schedule (internal steps in the order in which the
    goroutines reach them) and checks by computation that [tlog] / [xlog] is,
    event for event, the recorded log - and that the monitor is silent on it.
    These are the non-vacuity instances of the theorems of Run/R17LogMon.v:
    the logs contain success events of leaders, waiters, queued and cached
    callers, and of both single-object entry points. *)
From Coq Require Import List ZArith NArith Bool Arith.
From BBS Require Import Common.Sx Common.ListX Compose.ExistenceCache Compose.Replicators Compose.ReplEntry
  Compose.EventLog Run.R17Conc Run.R17 Run.R17L Run.R17Proofs Run.R17LogBase Run.R17LogOrder.
Import ListNotations.
Open Scope Z_scope.

(** (2 (0) ((0) (0)) (0) () ((0 0) (0 1) (1 0 0) (1 0 0) (1 0 0))):
    deduplicating replicator, two callers for object 0; caller 1 waits for
    caller 0's copy and is told OK on the strength of caller 0's Put. *)
Example dedup_log_is_the_recorded_log :
  let tr := [EStart 0; ETau 0 false; EStart 1; ETau 1 false; ERel 0 0; ERel 0 0; ERel 0 0;
             ETau 0 false; ETau 0 false; ETau 1 false] in
  let lg := tlog MDedup (init_state [[0%nat]; [0%nat]] [0%nat] []) tr in
  lg = [L [A 0; A 0; A 0];
        L [A 1; A 0; A 0; A 2; L [A 0]; A 0];
        L [A 0; A 1; A 0];
        L [A 2; A 0; A 0; A 2; L [A 0]; A 0; L [A 0]; A 0];
        L [A 1; A 0; A 1; A 0; L [A 0]; A 0];
        L [A 2; A 0; A 1; A 0; L [A 0]; A 0; L []; A 0];
        L [A 1; A 0; A 0; A 1; L [A 0]; A 0];
        L [A 2; A 0; A 0; A 1; L [A 0]; A 0; L []; A 0];
        L [A 3; A 0; A 0; A 0];
        L [A 3; A 1; A 0; A 0]]
  /\ mon17 (L [A 2; L [A 0]; L [L [A 0]; L [A 0]]; L [A 0]; L []; L []]) (L [L []; A 1; A 1; L [A 0]; L lg]) = [].
Proof. vm_compute. split; reflexivity. Qed.

(** The case the "acts again only after the start" condition of clause 24 is
    about, which the harness (callers start at quiescent points only) cannot
    schedule but the model can: caller 0 sees the sink report object 0 present
    (position 2); caller 1 starts AFTER that (position 3), still finds caller
    0's in-flight entry, waits, and is told OK.  Caller 0's next event
    (position 4) comes after caller 1's start: the monitor is silent. *)
Example dedup_justified_before_the_waiter_started :
  let tr := [EStart 0; ETau 0 false; ERel 0 0; EStart 1; ETau 1 false; ETau 0 false; ETau 0 false; ETau 1 false] in
  let lg := tlog MDedup (init_state [[0%nat]; [0%nat]] [] [0%nat]) tr in
  map lg_kind lg = [0; 1; 2; 0; 3; 3]
  /\ map lg_caller lg = [0; 0; 0; 1; 0; 1]%nat
  /\ mon17 (L [A 2; L [A 0]; L [L [A 0]; L [A 0]]; L []; L [A 0]; L []]) (L [L []; A 0; A 0; L [A 0]; L lg]) = [].
Proof. vm_compute. repeat split; reflexivity. Qed.

(** (2 (0) ((0 1) (1)) (0 1) (0) ((0 0) (1 0 0) (0 1) (1 0 0) (1 0 14) ...)):
    two keys, FindMissing answers "present" and "missing", a failing Get. *)
Example dedup_two_keys_log_is_the_recorded_log :
  let tr := [EStart 0; ETau 0 false; ERel 0 0; ETau 0 false; ETau 0 false; ETau 0 false; EStart 1; ETau 1 false;
             ERel 0 0; ERel 0 14] in
  tlog MDedup (init_state [[0%nat; 1%nat]; [1%nat]] [0%nat; 1%nat] [0%nat]) tr =
       [L [A 0; A 0; A 0];
        L [A 1; A 0; A 0; A 2; L [A 0]; A 0];
        L [A 2; A 0; A 0; A 2; L [A 0]; A 0; L []; A 0];
        L [A 1; A 0; A 0; A 2; L [A 1]; A 0];
        L [A 0; A 1; A 0];
        L [A 2; A 0; A 0; A 2; L [A 1]; A 0; L [A 1]; A 0];
        L [A 1; A 0; A 1; A 0; L [A 1]; A 0];
        L [A 2; A 0; A 1; A 0; L [A 1]; A 14; L []; A 0];
        L [A 1; A 0; A 0; A 1; L [A 1]; A 0]].
Proof. vm_compute. reflexivity. Qed.

(** (2 (1 1) ((0 1) (1)) (0 1) () ((0 0) (0 1) (1 0 0) (1 0 0) (1 0 0) (1 0 0) (1 1 0) (1 1 0))):
    limit 1; caller 1 queues on the semaphore until caller 0 has copied both objects. *)
Example limit_log_is_the_recorded_log :
  let tr := [EStart 0; ETau 0 false; EStart 1; ETau 1 false; ERel 0 0; ERel 0 0; ERel 0 0; ERel 0 0;
             ETau 1 false; ERel 1 0; ERel 1 0] in
  let lg := tlog (MLimit 1) (init_state [[0%nat; 1%nat]; [1%nat]] [0%nat; 1%nat] []) tr in
  lg = [L [A 0; A 0; A 0];
        L [A 1; A 0; A 1; A 0; L [A 0]; A 0];
        L [A 0; A 1; A 0];
        L [A 2; A 0; A 1; A 0; L [A 0]; A 0; L []; A 0];
        L [A 1; A 0; A 0; A 1; L [A 0]; A 0];
        L [A 2; A 0; A 0; A 1; L [A 0]; A 0; L []; A 0];
        L [A 1; A 0; A 1; A 0; L [A 1]; A 0];
        L [A 2; A 0; A 1; A 0; L [A 1]; A 0; L []; A 0];
        L [A 1; A 0; A 0; A 1; L [A 1]; A 0];
        L [A 2; A 0; A 0; A 1; L [A 1]; A 0; L []; A 0];
        L [A 3; A 0; A 0; A 0];
        L [A 1; A 1; A 1; A 0; L [A 1]; A 0];
        L [A 2; A 1; A 1; A 0; L [A 1]; A 0; L []; A 0];
        L [A 1; A 1; A 0; A 1; L [A 1]; A 0];
        L [A 2; A 1; A 0; A 1; L [A 1]; A 0; L []; A 0];
        L [A 3; A 1; A 0; A 0]]
  /\ mon17 (L [A 2; L [A 1; A 1]; L [L [A 0; A 1]; L [A 1]]; L [A 0; A 1]; L []; L []]) (L [L []; A 1; A 1; L [A 0; A 1]; L lg]) = [].
Proof. vm_compute. split; reflexivity. Qed.

(** (2 (2 4 5) ((0) (0)) (0) () ((0 0) (1 0 0) (1 0 0) (3 3) (0 1))): queued,
    duration 5; caller 1 starts at clock 3 and is answered from the existence cache. *)
Example queued_log_is_the_recorded_log :
  let tr := [EStart 0; ETau 0 false; ETau 0 false; ERel 0 0; ERel 0 0; EAdv 3; EStart 1; ETau 1 false] in
  let lg := tlog (MQueued 4 5) (init_state [[0%nat]; [0%nat]] [0%nat] []) tr in
  lg = [L [A 0; A 0; A 0];
        L [A 1; A 0; A 1; A 0; L [A 0]; A 0];
        L [A 2; A 0; A 1; A 0; L [A 0]; A 0; L []; A 0];
        L [A 1; A 0; A 0; A 1; L [A 0]; A 0];
        L [A 2; A 0; A 0; A 1; L [A 0]; A 0; L []; A 0];
        L [A 3; A 0; A 0; A 0];
        L [A 0; A 1; A 3];
        L [A 3; A 1; A 0; A 3]]
  /\ mon17 (L [A 2; L [A 2; A 4; A 5]; L [L [A 0]; L [A 0]]; L [A 0]; L []; L []]) (L [L []; A 1; A 1; L [A 0]; L lg]) = [].
Proof. vm_compute. split; reflexivity. Qed.

(** C17L: (2 (1 1) ((0) (0)) (0) () (... ) (1 2)): limit 1, caller 0 uses
    ReplicateSingle, caller 1 ReplicateComposite; caller 1's read-back fails
    with NOT_FOUND (5), reported as INTERNAL (13). *)
Example entry_log_is_the_recorded_log :
  let kinds := [KSingle 0; KComposite 0] in
  let tr := [EStart 0; ETau 0 false; EStart 1; ETau 1 false; ERel 0 0; ERel 0 0; ETau 1 false; ERel 0 0;
             ERel 1 0; ERel 1 0; ERel 1 5] in
  let lg := xlog kinds (MLimit 1) (xinit kinds [[0%nat]; [0%nat]] [0%nat] []) tr in
  lg = [L [A 0; A 0; A 0];
        L [A 1; A 0; A 1; A 0; L [A 0]; A 0];
        L [A 0; A 1; A 0];
        L [A 2; A 0; A 1; A 0; L [A 0]; A 0; L []; A 0];
        L [A 1; A 0; A 0; A 1; L [A 0]; A 0];
        L [A 2; A 0; A 0; A 1; L [A 0]; A 0; L []; A 0];
        L [A 1; A 0; A 0; A 0; L [A 0]; A 0];
        L [A 1; A 1; A 1; A 0; L [A 0]; A 0];
        L [A 2; A 0; A 0; A 0; L [A 0]; A 0; L []; A 0];
        L [A 3; A 0; A 0; A 0];
        L [A 2; A 1; A 1; A 0; L [A 0]; A 0; L []; A 0];
        L [A 1; A 1; A 0; A 1; L [A 0]; A 0];
        L [A 2; A 1; A 0; A 1; L [A 0]; A 0; L []; A 0];
        L [A 1; A 1; A 0; A 3; L [A 0]; A 0];
        L [A 2; A 1; A 0; A 3; L [A 0]; A 5; L []; A 0];
        L [A 3; A 1; A 13; A 0]]
  /\ mon_results kinds lg = [].
Proof. vm_compute. split; reflexivity. Qed.

(** The order in which two callers write their lines: in the dedup schedule
    above the leader's lock-protected section wakes the waiter, and the two
    goroutines then write "caller 0 returns" / "caller 1 returns" in either
    order.  The model's log has the leader first; the log with the two lines
    swapped is a [same_run] rewrite of it, and the monitor is silent on it too
    (an instance of [mon17_silent_on_accepted_any_write_order]). *)
Example dedup_waiter_writes_its_return_first :
  let tr := [EStart 0; ETau 0 false; EStart 1; ETau 1 false; ERel 0 0; ERel 0 0; ERel 0 0;
             ETau 0 false; ETau 0 false; ETau 1 false] in
  let lg := tlog MDedup (init_state [[0%nat]; [0%nat]] [0%nat] []) tr in
  let l1 := firstn 8 lg in
  let a := L [A 3; A 0; A 0; A 0] in
  let b := L [A 3; A 1; A 0; A 0] in
  lg = l1 ++ [a; b] /\ same_run lg (l1 ++ [b; a])
  /\ mon17 (L [A 2; L [A 0]; L [L [A 0]; L [A 0]]; L [A 0]; L []; L []]) (L [L []; A 1; A 1; L [A 0]; L (l1 ++ [b; a])]) = [].
Proof.
  cbv zeta.
  assert (E : tlog MDedup (init_state [[0%nat]; [0%nat]] [0%nat] [])
                [EStart 0; ETau 0 false; EStart 1; ETau 1 false; ERel 0 0; ERel 0 0; ERel 0 0; ETau 0 false; ETau 0 false; ETau 1 false]
              = firstn 8 (tlog MDedup (init_state [[0%nat]; [0%nat]] [0%nat] [])
                [EStart 0; ETau 0 false; EStart 1; ETau 1 false; ERel 0 0; ERel 0 0; ERel 0 0; ETau 0 false; ETau 0 false; ETau 1 false])
                ++ [L [A 3; A 0; A 0; A 0]; L [A 3; A 1; A 0; A 0]]) by (vm_compute; reflexivity).
  split; [exact E|]. split.
  - rewrite E at 1. apply same_run_swap; vm_compute; [discriminate|reflexivity|reflexivity].
  - vm_compute. reflexivity.
Qed.
