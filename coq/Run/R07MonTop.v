(** C07, "the monitor is silent on the model" — part 4: the state after
    construction, the induction over the operation list, and the theorems
    about [mon07 inp (run07h inp hints)] for every input and every hint
    list. *)
From Coq Require Import List NArith ZArith Bool Arith Lia.
From BBS Require Import Common.Sx Persist.PBL Persist.PBLProofs Persist.Syncer Persist.SyncerProofs
  Persist.LiveActs Persist.LiveCover Persist.LiveRelease Run.R07 Run.R07MonBase Run.R07MonOps Run.R07MonC123
  Run.R07MonCov1 Run.R07MonCov2 Run.R07MonOps2 Run.R07MonCov3 Run.R07MonC5.
Import ListNotations.
Local Open Scope nat_scope.

Definition cfg_i (inp : sx) : config := cfg_of (sx_nth inp 0).
Definition inits_i (inp : sx) : list (bstate * bool) := map dec_init (sx_list (sx_nth (sx_nth inp 0) 4)).
Definition alloc_i (inp : sx) : loc -> Z -> bool := alloc_at_of (inits_i inp).
Definition oldest_i (inp : sx) : N := sx_N (sx_nth (sx_nth inp 0) 3).
Definition init_i (inp : sx) : list bstate := map fst (inits_i inp).
Definition t0_i (inp : sx) : N := sx_N (sx_nth (sx_nth inp 0) 2).
Definition p0_i (inp : sx) : pbl := fst (pbl_new (alloc_i inp) (oldest_i inp) (init_i inp)).

Lemma init_x_eq inp : init_x (sx_nth inp 0) = mkX (init_sys (p0_i inp) (t0_i inp)) 0 0 [] 0 0.
Proof.
  unfold init_x, p0_i, alloc_i, oldest_i, init_i, inits_i, t0_i.
  destruct (pbl_new _ _ _) as [p n]. reflexivity.
Qed.

Lemma p0_facts alloc o init :
  let p := fst (pbl_new alloc o init) in
  toRelease p = [] /\ synchronizedEpochs p = length (epochSeeds p) /\ releasedLog p = [] /\ totalReleased p = 0.
Proof.
  unfold pbl_new. destruct (restore_blocks alloc init 0) as [[bl seeds] lasts]. cbn. auto.
Qed.

Definition viol_ok (l : list Z) : Prop := forall k, In k l -> k = 4%Z \/ k = 5%Z \/ k = 6%Z.

Lemma run_ops_marker cfg ops hints x r : run_ops cfg ops hints x = Ok r -> is_marker (L r) = false.
Proof.
  destruct ops as [|op ops]; cbn [run_ops].
  - intros H; inversion H; reflexivity.
  - destruct (do_op cfg op x) as [[x1 res]|]; [|discriminate].
    destruct (quiesce cfg 64 _ x1) as [x2|]; [|discriminate].
    destruct (run_ops cfg ops (tl hints) x2) as [r'|]; [|discriminate].
    intros H; inversion H; subst. destruct r'; reflexivity.
Qed.

Section Top.
Variable inp : sx.
Notation cfg := (cfg_i inp).
Notation good := (good (cfg_i inp) (alloc_i inp) (oldest_i inp) (init_i inp) (t0_i inp)).
Notation rel1 := (rel1 (cfg_i inp) (alloc_i inp) (oldest_i inp) (init_i inp) (t0_i inp)).

(** ---- the state after construction ---- *)
Record initp (x : xst) : Prop := mkInitp {
  ip_pbl : s_pbl (x_sys x) = p0_i inp;
  ip_cancel : s_cancel (x_sys x) = false;
  ip_nsy : x_nsy x = 0;
  ip_nwr : x_nwr x = 0;
  ip_last : s_last (x_sys x) = t0_i inp;
  ip_now : s_now (x_sys x) = t0_i inp;
  ip_p : s_p (x_sys x) = PStart \/ s_p (x_sys x) = PSelect (get_put_wakeup (p0_i inp))
         \/ s_p (x_sys x) = PIdle (get_put_wakeup (p0_i inp));
  ip_r : s_r (x_sys x) = RStart \/ s_r (x_sys x) = RWait (get_release_wakeup (p0_i inp));
  ip_upl : s_uploads (x_sys x) = [];
  ip_blk : x_blk x = [] /\ x_nalloc x = 0
}.

Lemma p0_open : put_chan_closed (p0_i inp) = false /\ release_chan_closed (p0_i inp) = false.
Proof.
  destruct (p0_facts (alloc_i inp) (oldest_i inp) (init_i inp)) as [F1 [F2 _]].
  pose proof (pbl_new_inv (alloc_i inp) (oldest_i inp) (init_i inp)) as I.
  split; [apply inv_put_open|apply inv_release_open]; auto.
Qed.

Lemma initp_step x t x' : initp x -> tstep cfg t internal_ans x = Some (Ok x') -> initp x'.
Proof.
  intros [P1 P2 P3 P3' P4 P5 P6 P7 P8 [P9 P10]] Ht. destruct (tstep_ok _ _ _ _ _ Ht) as [Hs [[Hc1 [_ Hc3]] [Hwr Hsy]]].
  assert (P9' : x_blk x' = [] /\ x_nalloc x' = 0) by (split; congruence).
  destruct p0_open as [Op Or]. unfold put_chan_closed in Op. unfold release_chan_closed in Or.
  destruct t; cbn [step] in Hs.
  - unfold rstep in Hs. unfold at_getstate in Hwr. destruct P7 as [Er|Er]; rewrite Er in Hs, Hwr.
    + injection Hs as Hs. constructor; try rewrite <- Hs; cbn; auto; try congruence.
      right. rewrite P1. reflexivity.
    + rewrite P1, Or in Hs. discriminate.
  - unfold pstep in Hs. unfold at_getstate in Hwr. destruct P6 as [Ep|[Ep|Ep]]; rewrite Ep in Hs, Hwr.
    + injection Hs as Hs. constructor; try rewrite <- Hs; cbn; auto; try congruence.
      * rewrite Hsy, <- Hs. cbn. exact P3.
      * right. left. rewrite P1. reflexivity.
    + rewrite P1, Op in Hs. injection Hs as Hs. constructor; try rewrite <- Hs; cbn; auto; try congruence.
      rewrite Hsy, <- Hs. cbn. exact P3.
    + rewrite P2, P1, Op in Hs. cbn in Hs. discriminate.
Qed.

Definition m0_i : mst :=
  mkM 0 (t0_i inp) (restored_locs (inits_i inp)) [] [] [] 0 0 false None 0 None None (L []) (t0_i inp)
      false false [].

Lemma init_good : good (init_sys (p0_i inp) (t0_i inp)).
Proof.
  split; [apply reachable_init|]. split; [|exact I].
  destruct (p0_facts (alloc_i inp) (oldest_i inp) (init_i inp)) as [F1 [_ [F3 F4]]].
  unfold relc. cbn. fold (p0_i inp). unfold p0_i. rewrite F1, F3, F4. reflexivity.
Qed.

Lemma init_state rw : exists x0, quiesce cfg 64 rw (init_x (sx_nth inp 0)) = Ok x0 /\ rel1 m0_i x0 /\ initp x0.
Proof.
  rewrite init_x_eq. set (xi := mkX (init_sys (p0_i inp) (t0_i inp)) 0 0 [] 0 0).
  assert (G : good (x_sys xi)) by apply init_good.
  destruct (quiesce_total _ _ _ _ _ rw xi G) as [x0 [Hq [G0 Q0]]].
  exists x0. split; [exact Hq|].
  assert (Pi : initp xi) by (constructor; cbn; auto).
  destruct (quiesce_ind _ _ _ _ _ initp (fun x t x' P _ _ Ht => initp_step x t x' P Ht) 64 rw xi x0 G Pi Hq) as [P0 _].
  split; [|exact P0].
  destruct P0 as [P1 P2 P3 P3' P4 P5 P6 P7 P8 P9].
  constructor; cbn; auto; try congruence.
  - destruct P6 as [E|[E|E]]; rewrite E; reflexivity.
  - destruct P6 as [E|[E|E]]; rewrite E; discriminate.
  - lia.
Qed.

(** ---- induction over the operations ---- *)
Lemma v5_only m op o po k : In k (ms_v5 m op o po) -> k = 5%Z.
Proof. unfold ms_v5. destruct (_ && _)%bool; [intros [H|[]]; auto|intros []]. Qed.

Lemma v46_only m op o k : In k (ms_v46 m op o) -> k = 4%Z \/ k = 6%Z.
Proof.
  unfold ms_v46. destruct (ms_write_ok op o); [|intros []]. destruct (m_cur m); [|intros []].
  apply check_write_46.
Qed.

Lemma run_sim_123 ops : forall hints x m, rel1 m x -> viol_ok (m_viol m) ->
  exists r, run_ops cfg ops hints x = Ok r /\ viol_ok (m_viol (mon_run (c_interval cfg) m ops r)).
Proof.
  induction ops as [|op ops IH]; intros hints x m R V.
  - exists []. split; [reflexivity|exact V].
  - cbn [run_ops]. cbv zeta.
    destruct (do_op_tri _ _ _ _ _ op x (r1_good _ _ _ _ _ _ _ R)) as [x1 [res [Hd T]]]. rewrite Hd.
    pose proof (tri_good _ _ _ _ _ _ _ _ _ (r1_good _ _ _ _ _ _ _ R) T) as G1.
    match goal with |- context [quiesce ?c 64 ?h x1] =>
      destruct (quiesce_total _ _ _ _ _ h x1 G1) as [x2 [Hq _]]; rewrite Hq;
      destruct (rel1_step _ _ _ _ _ m x op h x1 res x2 R T Hq) as [R2 [V2 V1]] end.
    assert (V' : viol_ok (m_viol (mon_step (c_interval cfg) m op (enc_obs res x2)))).
    { rewrite mon_step_eq. cbn [m_viol]. unfold ms_viol. rewrite V2, V1. cbn [app].
      intros k Hk. apply in_app_or in Hk. destruct Hk as [Hk|Hk]; [auto|].
      apply in_app_or in Hk. destruct Hk as [Hk|Hk].
      - destruct (v46_only _ _ _ _ Hk); auto.
      - right. left. eapply v5_only; eauto. }
    destruct (IH (tl hints) x2 _ R2 V') as [r [Hr Hv]]. rewrite Hr.
    eexists. split; [reflexivity|]. cbn [mon_run]. exact Hv.
Qed.

(** Clauses 1, 2 and 3 never fire on the model, whatever the input and the
    hints: the only clause numbers the monitor can report on the model's own
    observation are 4, 5 and 6. *)
Theorem mon07_clauses_123_silent hints k :
  In k (mon07 inp (run07h inp hints)) -> k = 4%Z \/ k = 5%Z \/ k = 6%Z.
Proof.
  unfold run07h. change (cfg_of (sx_nth inp 0)) with cfg.
  destruct (init_state true) as [x0 [Hq [R0 _]]]. rewrite Hq.
  destruct (run_sim_123 (sx_list (sx_nth inp 1)) hints x0 m0_i R0) as [r [Hr Hv]].
  { intros k' []. }
  rewrite Hr. unfold mon07. rewrite (run_ops_marker _ _ _ _ _ Hr).
  intros Hk. apply dedupz_in in Hk. apply Hv. exact Hk.
Qed.


(** ---- clauses 4 and 6: the domain ---- *)
Fixpoint nodupz (l : list Z) : bool :=
  match l with
  | [] => true
  | x :: r => negb (zmem x r) && nodupz r
  end.

Lemma nodupz_spec l : nodupz l = true -> NoDup l.
Proof.
  induction l as [|x r IH]; cbn; [constructor|]. intros H. apply andb_true_iff in H. destruct H as [H1 H2].
  constructor; [|auto]. intros Hi. apply zmem_in in Hi. rewrite Hi in H1. discriminate.
Qed.

Definition init_offs : list Z := map (fun e : bstate * bool => fst (bs_loc (fst e))) (inits_i inp).
Definition init_nseeds : nat := fold_right (fun e a => length (bs_seeds (fst e)) + a) 0 (inits_i inp).

(** The initial blocks have pairwise distinct offsets below 10000 (the fake
    allocator hands out 10000 + 100 n), and the number of epochs that can ever
    exist (restored ones + one per operation) stays below 2^32 (epoch IDs are
    uint32: with 2^32 live epochs the IDs wrap and the monitor's epoch distance
    is ambiguous). *)
Definition dom07 : bool :=
  nodupz init_offs && forallb (fun z => (z <? 10000)%Z) init_offs
  && (N.of_nat (init_nseeds + length (sx_list (sx_nth inp 1))) <? 2 ^ 32)%N.

Lemma find_unique {A} (g : A -> Z) (p : A -> bool) l a : NoDup (map g l) -> In a l ->
  (forall e, p e = true -> g e = g a) -> p a = true -> find p l = Some a.
Proof.
  induction l as [|x r IH]; intros Hn Hi Hp Ha; [destruct Hi|]. cbn [find]. cbn [map] in Hn. inversion Hn; subst.
  destruct (p x) eqn:Ex.
  - destruct Hi as [->|Hi]; [reflexivity|]. exfalso. apply H1. rewrite (Hp _ Ex). apply in_map. exact Hi.
  - destruct Hi as [->|Hi]; [congruence|]. apply IH; auto.
Qed.

Lemma restore_offs pre suf n : NoDup (map (fun e : bstate * bool => fst (bs_loc (fst e))) (pre ++ suf)) ->
  map (fun b => fst (b_loc b)) (fst (fst (restore_blocks (alloc_at_of (pre ++ suf)) (map fst suf) n))) = restored_locs suf
  /\ length (snd (fst (restore_blocks (alloc_at_of (pre ++ suf)) (map fst suf) n)))
     <= fold_right (fun e a => length (bs_seeds (fst e)) + a) 0 suf.
Proof.
  revert pre n. induction suf as [|[b f] suf IH]; intros pre n Hn; [cbn; auto|].
  cbn [map fst restore_blocks restored_locs fold_right].
  assert (alloc_at_of (pre ++ (b, f) :: suf) (bs_loc b) (bs_off b) = f) as ->.
  { unfold alloc_at_of. erewrite (find_unique (fun e : bstate * bool => fst (bs_loc (fst e))) _ _ (b, f) Hn); [reflexivity| | |].
    - apply in_or_app. right. left. reflexivity.
    - intros e He. unfold loc_eqb in He. apply andb_true_iff in He. destruct He as [He _]. apply Z.eqb_eq in He. exact He.
    - unfold loc_eqb. cbn. rewrite !Z.eqb_refl. reflexivity. }
  destruct f; [|cbn; split; [reflexivity|lia]].
  specialize (IH (pre ++ [(b, true)]) (S n)). rewrite <- app_assoc in IH. cbn [app] in IH. specialize (IH Hn).
  destruct (restore_blocks _ (map fst suf) (S n)) as [[bl seeds] lasts]. cbn [fst snd] in *.
  destruct IH as [IH1 IH2]. cbn [map b_loc]. rewrite IH1. split; [reflexivity|]. rewrite app_length. lia.
Qed.

Lemma restored_sub l : incl (restored_locs l) (map (fun e : bstate * bool => fst (bs_loc (fst e))) l)
  /\ (NoDup (map (fun e : bstate * bool => fst (bs_loc (fst e))) l) -> NoDup (restored_locs l)).
Proof.
  induction l as [|[b f] r [IH1 IH2]]; cbn [restored_locs map]; [split; [intros x []|constructor]|].
  destruct f.
  - split.
    + intros x [Hx|Hx]; [left; exact Hx|right; apply IH1; exact Hx].
    + intros Hn. inversion Hn; subst. constructor; [|auto]. intros Hi. apply H1. apply IH1. exact Hi.
  - split; [intros x []|constructor].
Qed.

Notation rel2 := (rel2 (cfg_i inp) (alloc_i inp) (oldest_i inp) (init_i inp) (t0_i inp)).

Lemma init_rel2 rw x0 : dom07 = true -> quiesce cfg 64 rw (init_x (sx_nth inp 0)) = Ok x0 -> rel1 m0_i x0 -> initp x0 ->
  rel2 (length (sx_list (sx_nth inp 1))) m0_i x0.
Proof.
  intros Hd Hq R1 [P1 P2 P3 P3' P4 P5 P6 P7 P8 [P9 P10]].
  unfold dom07 in Hd. apply andb_true_iff in Hd. destruct Hd as [Hd Hd3]. apply andb_true_iff in Hd. destruct Hd as [Hd1 Hd2].
  apply nodupz_spec in Hd1. apply N.ltb_lt in Hd3.
  pose proof (restore_offs [] (inits_i inp) 0 Hd1) as [Ho Hs]. cbn [app] in Ho, Hs.
  destruct (p0_facts (alloc_i inp) (oldest_i inp) (init_i inp)) as [F1 [F2 [F3 F4]]].
  assert (Eoffs : offs (p0_i inp) = restored_locs (inits_i inp) /\ length (epochSeeds (p0_i inp)) <= init_nseeds).
  { unfold p0_i, pbl_new, alloc_i, init_i in *. unfold offs.
    destruct (restore_blocks (alloc_at_of (inits_i inp)) (map fst (inits_i inp)) 0) as [[bl seeds] lasts]. cbn in *. auto. }
  destruct Eoffs as [Eoffs Eseeds].
  destruct (restored_sub (inits_i inp)) as [Hsub Hnd].
  constructor.
  - exact R1.
  - exists []. unfold covx. rewrite P1, P8, P9, P10. cbn [m0_i m_step m_last_ok_start m_series_start m_blocks m_popped m_upl m_acks].
    constructor; cbn [app].
    + symmetry. exact Eoffs.
    + symmetry. exact F4.
    + apply Hnd. exact Hd1.
    + rewrite Forall_forall. intros z Hz. left. apply Hsub in Hz. rewrite forallb_forall in Hd2.
      apply Z.ltb_lt. apply Hd2. exact Hz.
    + auto.
    + intros k abs size Hk. destruct k; discriminate.
    + constructor.
    + constructor.
  - cbn. split; [lia|intros j Hj; discriminate].
  - cbn. congruence.
  - exists 0. split.
    + rewrite P1. unfold M32. change (2 ^ 32)%N with 4294967296%N in *. lia.
    + intros t st Hw. exfalso. destruct t; cbn [written_state] in Hw.
      * destruct P7 as [E|E]; rewrite E in Hw; discriminate.
      * destruct P6 as [E|[E|E]]; rewrite E in Hw; discriminate.
Qed.

Definition viol5 (l : list Z) : Prop := forall k, In k l -> k = 5%Z.

Lemma run_sim_46 ops : forall hints x m, rel2 (length ops) m x -> viol5 (m_viol m) ->
  exists r, run_ops cfg ops hints x = Ok r /\ viol5 (m_viol (mon_run (c_interval cfg) m ops r)).
Proof.
  induction ops as [|op ops IH]; intros hints x m R V.
  - exists []. split; [reflexivity|exact V].
  - cbn [run_ops]. cbv zeta. cbn [length] in R.
    pose proof (r1_good _ _ _ _ _ _ _ (r2_1 _ _ _ _ _ _ _ _ R)) as G.
    destruct (do_op_tri _ _ _ _ _ op x G) as [x1 [res [Hd T]]]. rewrite Hd.
    pose proof (tri_good _ _ _ _ _ _ _ _ _ G T) as G1.
    match goal with |- context [quiesce ?c 64 ?h x1] =>
      destruct (quiesce_total _ _ _ _ _ h x1 G1) as [x2 [Hq _]]; rewrite Hq;
      destruct (rel1_step _ _ _ _ _ m x op h x1 res x2 (r2_1 _ _ _ _ _ _ _ _ R) T Hq) as [_ [V2 V1]];
      destruct (rel2_step _ _ _ _ _ (length ops) m x op h x1 res x2 R T Hd Hq) as [R2 V46] end.
    assert (V' : viol5 (m_viol (mon_step (c_interval cfg) m op (enc_obs res x2)))).
    { rewrite mon_step_eq. cbn [m_viol]. unfold ms_viol. rewrite V2, V1, V46. cbn [app].
      intros k Hk. apply in_app_or in Hk. destruct Hk as [Hk|Hk]; [auto|]. eapply v5_only; eauto. }
    destruct (IH (tl hints) x2 _ R2 V') as [r [Hr Hv]]. rewrite Hr.
    eexists. split; [reflexivity|]. cbn [mon_run]. exact Hv.
Qed.

(** Clauses 1, 2, 3, 4 and 6 never fire on the model. *)
Theorem mon07_clauses_12346_silent hints k : dom07 = true ->
  In k (mon07 inp (run07h inp hints)) -> k = 5%Z.
Proof.
  intros Hd. unfold run07h. change (cfg_of (sx_nth inp 0)) with cfg.
  destruct (init_state true) as [x0 [Hq [R0 P0]]]. rewrite Hq.
  destruct (run_sim_46 (sx_list (sx_nth inp 1)) hints x0 m0_i (init_rel2 true x0 Hd Hq R0 P0)) as [r [Hr Hv]].
  { intros k' []. }
  rewrite Hr. unfold mon07. rewrite (run_ops_marker _ _ _ _ _ Hr).
  intros Hk. apply dedupz_in in Hk. apply Hv. exact Hk.
Qed.


(** ---- all clauses ---- *)

Lemma init_rel5 x0 : initp x0 -> rel5 m0_i x0.
Proof.
  intros [P1 P2 P3 P3' P4 P5 P6 P7 P8 P9]. constructor.
  - unfold pX. destruct P6 as [E|[E|E]]; rewrite E; exact I.
  - exists None. cbn. splits; auto.
    + intros k [].
    + intros j Hj. discriminate.
    + intros w Hw. discriminate.
Qed.

Lemma run_sim_all ops : forall hints x m, rel2 (length ops) m x -> rel5 m x -> m_viol m = [] ->
  exists r, run_ops cfg ops hints x = Ok r /\ m_viol (mon_run (c_interval cfg) m ops r) = [].
Proof.
  induction ops as [|op ops IH]; intros hints x m R R5 V.
  - exists []. split; [reflexivity|exact V].
  - cbn [run_ops]. cbv zeta. cbn [length] in R.
    pose proof (r1_good _ _ _ _ _ _ _ (r2_1 _ _ _ _ _ _ _ _ R)) as G.
    destruct (do_op_tri _ _ _ _ _ op x G) as [x1 [res [Hd T]]]. rewrite Hd.
    pose proof (tri_good _ _ _ _ _ _ _ _ _ G T) as G1.
    match goal with |- context [quiesce ?c 64 ?h x1] =>
      destruct (quiesce_total _ _ _ _ _ h x1 G1) as [x2 [Hq _]]; rewrite Hq;
      destruct (rel1_step _ _ _ _ _ m x op h x1 res x2 (r2_1 _ _ _ _ _ _ _ _ R) T Hq) as [_ [V2 V1]];
      destruct (rel2_step _ _ _ _ _ (length ops) m x op h x1 res x2 R T Hd Hq) as [R2 V46];
      destruct (rel5_step _ _ _ _ _ (length ops) m x op h x1 res x2 R R5 T Hq R2) as [R5' V5] end.
    assert (V' : m_viol (mon_step (c_interval cfg) m op (enc_obs res x2)) = []).
    { rewrite mon_step_eq. cbn [m_viol]. unfold ms_viol. rewrite V, V2, V1, V46, V5. reflexivity. }
    destruct (IH (tl hints) x2 _ R2 R5' V') as [r [Hr Hv]]. rewrite Hr.
    eexists. split; [reflexivity|]. cbn [mon_run]. exact Hv.
Qed.

(** THE MONITOR IS SILENT ON THE MODEL: no clause of [mon07] fires on the
    model's own observation, for every input of the domain and every hint
    list (the hints only pick the winner of a storeLock tie). *)
Theorem mon07_silent_on_model_h hints : dom07 = true -> mon07 inp (run07h inp hints) = [].
Proof.
  intros Hd. unfold run07h. change (cfg_of (sx_nth inp 0)) with cfg.
  destruct (init_state true) as [x0 [Hq [R0 P0]]]. rewrite Hq.
  destruct (run_sim_all (sx_list (sx_nth inp 1)) hints x0 m0_i (init_rel2 true x0 Hd Hq R0 P0) (init_rel5 x0 P0) eq_refl)
    as [r [Hr Hv]].
  rewrite Hr. unfold mon07. rewrite (run_ops_marker _ _ _ _ _ Hr).
  change (sx_list (L r)) with r. fold (inits_i inp). fold (t0_i inp). fold m0_i.
  change (sx_N (sx_nth (sx_nth inp 0) 0)) with (c_interval cfg). rewrite Hv. reflexivity.
Qed.

Theorem mon07_silent_on_model_ : dom07 = true -> mon07 inp (run07 inp) = [].
Proof. apply mon07_silent_on_model_h. Qed.

End Top.
