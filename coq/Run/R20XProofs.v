(** C20X — proofs about set programs (Run/R20X.v). *)
From Coq Require Import List ZArith NArith Bool Lia.
From BBS Require Import Common.Sx Digest.DigestModel Digest.SetModel Digest.SetProofs Run.R20 Run.R20X.
Import ListNotations.
