(** C20X — proofs about set programs (Run/R20X.v): every instruction of every
    program over sets drawn from a universe of valid digests yields exactly the
    mathematical result, sorted and duplicate-free; the monitor is silent on the model. *)
From Coq Require Import List NArith ZArith Bool Lia.
Import ListNotations.
From BBS Require Import Common.Sx Generated.Consts Digest.DigestModel Digest.SetModel
  Digest.DigestProofs Digest.SetProofs Digest.MonSilentDigest Run.MonSilentSx Run.R20 Run.R20Proofs Run.R20X.
Open Scope Z_scope.

(** a set of the environment: strictly increasing (hence duplicate-free) and drawn
    from the universe *)
Definition in_univ (ds : list digest) (s : list bytes) : Prop :=
  sorted s /\ forall x, In x s -> In x (map pack ds).

(** the mathematical meaning of one instruction's outputs *)
Definition instr_spec (env : list (list bytes)) (ins : instr) (outs : list (list bytes)) : Prop :=
  match ins with
  | IDiff i j => exists oa bo ob, outs = [oa; bo; ob] /\
      (forall x, In x oa <-> In x (env_get env i) /\ ~ In x (env_get env j)) /\
      (forall x, In x bo <-> In x (env_get env i) /\ In x (env_get env j)) /\
      (forall x, In x ob <-> In x (env_get env j) /\ ~ In x (env_get env i))
  | IUnion ixs => exists u, outs = [u] /\ forall x, In x u <-> exists i, In i ixs /\ In x (env_get env i)
  | IPart i => exists dl, env_get env i = map pack dl /\
      outs = map (fun k => map pack (filter (fun d => beqb (d_inst d) k) dl)) (firsts beqb (map d_inst dl))
  | IRem i => exists dl, env_get env i = map pack dl /\
      outs = [map pack (filter (fun d => negb (Z.eqb (d_size d) 0)) dl)]
  | INop => outs = []
  end.

(** every instruction of the trace succeeded with the specified outputs, which are
    again sets of the universe *)
Fixpoint trace_spec (ds : list digest) (env : list (list bytes)) (p : list instr)
         (tr : list (outcome (list (list bytes)))) : Prop :=
  match p, tr with
  | [], [] => True
  | ins :: p', o :: tr' =>
      exists outs, o = Ok outs /\ instr_spec env ins outs /\ Forall (in_univ ds) outs /\
                   trace_spec ds (env ++ outs) p' tr'
  | _, _ => False
  end.

Lemma in_univ_nil ds : in_univ ds [].
Proof. split; [constructor|intros x []]. Qed.

Lemma in_univ_get ds env i : Forall (in_univ ds) env -> in_univ ds (env_get env i).
Proof.
  intro H. unfold env_get. destruct (Nat.lt_ge_cases i (length env)) as [Hl|Hl].
  - rewrite Forall_forall in H. apply H, nth_In, Hl.
  - rewrite nth_overflow by exact Hl. apply in_univ_nil.
Qed.

Lemma in_univ_digests ds s : in_univ ds s ->
  exists dl, s = map pack dl /\ Forall (fun d => In d ds) dl.
Proof. intros [_ H]. apply members. exact H. Qed.

Lemma Forall_valid ds dl : Forall valid_digest ds -> Forall (fun d => In d ds) dl -> Forall valid_digest dl.
Proof.
  intros V H. apply Forall_forall. intros d Hd. rewrite Forall_forall in V, H. apply V, H, Hd.
Qed.

Lemma exec_instr_spec ds env ins :
  Forall valid_digest ds -> Forall (in_univ ds) env ->
  exists outs, exec_instr env ins = Ok outs /\ instr_spec env ins outs /\ Forall (in_univ ds) outs.
Proof.
  intros V He. destruct ins as [i j|ixs|i|i|]; cbn [exec_instr instr_spec].
  - destruct (in_univ_get ds env i He) as [Sa Ma]. destruct (in_univ_get ds env j He) as [Sb Mb].
    pose proof (diff_inter_spec_proof _ _ Sa Sb) as D.
    destruct (diff_inter (env_get env i) (env_get env j)) as [[oa bo] ob].
    destruct D as ((S1 & S2 & S3) & M1 & M2 & M3).
    exists [oa; bo; ob]. split; [reflexivity|]. split.
    + exists oa, bo, ob. split; [reflexivity|]. split; [exact M1|]. split; [exact M2|exact M3].
    + repeat constructor; try assumption; intros x Hx.
      * apply M1 in Hx. apply Ma, Hx.
      * apply M2 in Hx. apply Ma, Hx.
      * apply M3 in Hx. apply Mb, Hx.
  - assert (Hs : Forall sorted (map (env_get env) ixs)).
    { apply Forall_forall. intros s Hs. apply in_map_iff in Hs. destruct Hs as (i & <- & _).
      apply (in_univ_get ds env i He). }
    destruct (union_spec_proof _ Hs) as (Su & _ & Mu).
    exists [union (map (env_get env) ixs)]. split; [reflexivity|]. split.
    + eexists. split; [reflexivity|]. intro x. rewrite Mu. split.
      * intros (s & Hin & Hx). apply in_map_iff in Hin. destruct Hin as (i & <- & Hi). exists i. tauto.
      * intros (i & Hi & Hx). exists (env_get env i). split; [apply in_map, Hi|exact Hx].
    + constructor; [|constructor]. split; [exact Su|]. intros x Hx. apply Mu in Hx.
      destruct Hx as (s & Hin & Hx). apply in_map_iff in Hin. destruct Hin as (i & <- & _).
      apply (in_univ_get ds env i He), Hx.
  - destruct (in_univ_get ds env i He) as [Sa Ma].
    destruct (in_univ_digests ds _ (conj Sa Ma)) as (dl & Edl & Hdl).
    pose proof (Forall_valid ds dl V Hdl) as Vdl.
    rewrite Edl, (partition_spec_proof dl Vdl). eexists. split; [reflexivity|]. split.
    + exists dl. split; reflexivity.
    + apply Forall_forall. intros p Hp. apply in_map_iff in Hp. destruct Hp as (k & <- & _). split.
      * apply sorted_map_filter. rewrite <- Edl. exact Sa.
      * intros x Hx. apply in_map_iff in Hx. destruct Hx as (d & <- & Hd). apply filter_In in Hd.
        apply in_map. rewrite Forall_forall in Hdl. apply Hdl, Hd.
  - destruct (in_univ_get ds env i He) as [Sa Ma].
    destruct (in_univ_digests ds _ (conj Sa Ma)) as (dl & Edl & Hdl).
    pose proof (Forall_valid ds dl V Hdl) as Vdl.
    rewrite Edl in Sa |- *. destruct (remove_empty_spec_proof dl Vdl Sa) as (r & -> & Sr & ->).
    cbn [bind]. eexists. split; [reflexivity|]. split.
    + exists dl. split; reflexivity.
    + constructor; [|constructor]. split; [exact Sr|].
      intros x Hx. apply in_map_iff in Hx. destruct Hx as (d & <- & Hd). apply filter_In in Hd.
      apply in_map. rewrite Forall_forall in Hdl. apply Hdl, Hd.
  - exists []. split; [reflexivity|]. split; [reflexivity|constructor].
Qed.

Lemma in_univ_app ds env outs : Forall (in_univ ds) env -> Forall (in_univ ds) outs -> Forall (in_univ ds) (env ++ outs).
Proof. intros. apply Forall_app. split; assumption. Qed.

Theorem exec_prog_spec ds : Forall valid_digest ds ->
  forall p env, Forall (in_univ ds) env -> trace_spec ds env p (exec_prog env p).
Proof.
  intro V. induction p as [|ins p IH]; intros env He; cbn [exec_prog trace_spec]; [exact I|].
  destruct (exec_instr_spec ds env ins V He) as (outs & -> & Hs & Ho).
  exists outs. repeat split; try assumption. cbn [env_after]. apply IH, in_univ_app; assumption.
Qed.

Theorem final_env_in_univ ds : Forall valid_digest ds ->
  forall p env, Forall (in_univ ds) env -> Forall (in_univ ds) (final_env env p).
Proof.
  intro V. induction p as [|ins p IH]; intros env He; cbn [final_env]; [exact He|].
  destruct (exec_instr_spec ds env ins V He) as (outs & -> & _ & Ho).
  cbn [env_after]. apply IH, in_univ_app; assumption.
Qed.

Lemma built_in_univ ds sets :
  Forall (fun s => Forall (fun i => (i < length ds)%nat) (sx_nats s)) (sx_list sets) ->
  Forall (in_univ ds) (built_of (map pack ds) sets).
Proof.
  intro H. unfold built_of. apply Forall_forall. intros s Hs. apply in_map_iff in Hs.
  destruct Hs as (s0 & <- & Hs0).
  destruct (build_spec_proof (map (fun i : nat => nth i (map pack ds) []) (sx_nats s0))) as (B1 & _ & B3).
  split; [exact B1|]. intros x Hx. apply B3 in Hx. apply in_map_iff in Hx. destruct Hx as (i & <- & Hi).
  rewrite Forall_forall in H. specialize (H s0 Hs0). rewrite Forall_forall in H.
  apply nth_In. rewrite map_length. apply H, Hi.
Qed.

(** * The monitor is silent on the model *)

Lemma dec_sets_enc l : dec_sets (enc_sets l) = l.
Proof. exact (dec_enc_sets l). Qed.

Lemma not_memb_iff x l : negb (memb x l) = true <-> ~ In x l.
Proof.
  rewrite negb_true_iff. split.
  - intros E Hin. apply memb_In in Hin. congruence.
  - intro H. destruct (memb x l) eqn:E; [|reflexivity]. apply memb_In in E. contradiction.
Qed.

Section Silent.
  Variable ds : list digest.
  Hypothesis V : Forall valid_digest ds.
  Local Notation entries := (map enc_entry ds).
  Local Notation us := (map pack ds).

  Lemma check_instr_silent env ins :
    Forall (in_univ ds) env ->
    check_instr entries us env ins (enc_out enc_sets (exec_instr env ins)) = [].
  Proof.
    intro He. destruct (exec_instr_spec ds env ins V He) as (outs & Ex & Hs & Ho).
    destruct ins as [i j|ixs|i|i|]; cbn [instr_spec] in Hs; unfold check_instr.
    - rewrite Ex. cbn [enc_out ok_val]. rewrite dec_sets_enc.
      destruct Hs as (oa & bo & ob & -> & M1 & M2 & M3).
      inversion Ho as [|? ? [S1 _] Ho1]; subst. inversion Ho1 as [|? ? [S2 _] Ho2]; subst.
      inversion Ho2 as [|? ? [S3 _] _]; subst.
      apply flag_false, negb_false_iff. unfold diff_ok.
      rewrite (strictly_sorted_of _ S1), (strictly_sorted_of _ S2), (strictly_sorted_of _ S3). cbn [andb].
      rewrite !same_set_intro; [reflexivity| | |].
      + intro x. rewrite M3, filter_In, not_memb_iff. tauto.
      + intro x. rewrite M2, filter_In, memb_In. tauto.
      + intro x. rewrite M1, filter_In, not_memb_iff. tauto.
    - rewrite Ex. cbn [enc_out ok_val]. rewrite dec_sets_enc.
      destruct Hs as (u & -> & Mu). inversion Ho as [|? ? [Su _] _]; subst.
      apply flag_false, negb_false_iff. rewrite (strictly_sorted_of _ Su). cbn [andb].
      apply same_set_intro. intro x. rewrite Mu, in_concat. split.
      + intros (k & Hk & Hx). exists (env_get env k). split; [apply in_map, Hk|exact Hx].
      + intros (s & Hin & Hx). apply in_map_iff in Hin. destruct Hin as (k & <- & Hk). exists k. tauto.
    - destruct (in_univ_digests ds _ (in_univ_get ds env i He)) as (dl & Edl & Hdl).
      cbn [exec_instr]. rewrite Edl.
      pose proof (c13_false ds V dl Hdl) as H13. unfold c13 in H13.
      apply flag_false. exact H13.
    - destruct (in_univ_get ds env i He) as [Sa Ma].
      destruct (in_univ_digests ds _ (conj Sa Ma)) as (dl & Edl & Hdl').
      pose proof (Forall_valid ds dl V Hdl') as Vdl.
      cbn [exec_instr]. rewrite Edl in Sa |- *.
      destruct (remove_empty_spec_proof dl Vdl Sa) as (r & -> & _ & ->). cbn [bind enc_out].
      apply flag_false, negb_false_iff.
      assert (E : filter (fun x => negb (x_size_of entries us x =? 0)) (map pack dl)
                  = map pack (filter (fun d => negb (d_size d =? 0)) dl)).
      { rewrite filter_map_comm. f_equal. apply filter_ext_in'. intros d Hd.
        change (x_size_of entries us (pack d)) with (m_size_of entries us (pack d)).
        rewrite (size_of_pack ds V); [reflexivity|]. rewrite Forall_forall in Hdl'. apply Hdl', Hd. }
      rewrite E. apply sx_eqb_refl.
    - rewrite Ex. cbn [enc_out ok_val]. rewrite dec_sets_enc. subst outs. reflexivity.
  Qed.
End Silent.

Section Silent2.
  Variable ds : list digest.
  Hypothesis V : Forall valid_digest ds.
  Local Notation entries := (map enc_entry ds).
  Local Notation us := (map pack ds).

  Lemma mon_prog_silent : forall p env,
    Forall (in_univ ds) env ->
    mon_prog entries us env p (map (enc_out enc_sets) (exec_prog env p)) = [].
  Proof.
    induction p as [|ins p IH]; intros env He; cbn [exec_prog map mon_prog]; [reflexivity|].
    rewrite (check_instr_silent ds V env ins He).
    destruct (exec_instr_spec ds env ins V He) as (outs & Ex & _ & Ho). rewrite Ex.
    cbn [enc_out is_ok ok_val env_after app]. rewrite dec_sets_enc.
    apply IH, in_univ_app; assumption.
  Qed.

  Lemma keys_bad_false : keys_bad entries us = false.
  Proof.
    unfold keys_bad. rewrite !map_length, Nat.eqb_refl. cbn [negb]. rewrite orb_false_r.
    apply negb_false_iff, forallb_forall. intros i Hi. apply forallb_forall. intros j Hj.
    apply in_seq in Hi. apply in_seq in Hj.
    set (d0 := {| d_fn := 0%N; d_hash := []; d_size := 0; d_inst := [] |}).
    rewrite (nth_map_lt pack ds i d0 []), (nth_map_lt pack ds j d0 []) by lia.
    rewrite (nth_map_lt enc_entry ds i d0 (L [])), (nth_map_lt enc_entry ds j d0 (L [])) by lia.
    assert (Vi : valid_digest (nth i ds d0)) by (rewrite Forall_forall in V; apply V, nth_In; lia).
    assert (Vj : valid_digest (nth j ds d0)) by (rewrite Forall_forall in V; apply V, nth_In; lia).
    apply eqb_iff. split; intro H.
    - apply beqb_eq in H. apply pack_inj in H; [|assumption|assumption]. rewrite H. apply sx_eqb_refl.
    - apply sx_eqb_eq, enc_entry_inj in H. rewrite H. apply beqb_refl.
  Qed.

  Lemma built_bad_false sets :
    built_bad (map sx_nats (sx_list sets)) us (built_of us sets) = false.
  Proof.
    unfold built_bad, built_of. rewrite !map_length, Nat.eqb_refl. cbn [negb orb]. apply negb_false_iff.
    rewrite combine_map_map. apply forallb_forall. intros p Hp. apply in_map_iff in Hp.
    destruct Hp as (s0 & <- & _). cbn [fst snd].
    destruct (build_spec_proof (map (fun i : nat => nth i us []) (sx_nats s0))) as (B1 & _ & B3).
    rewrite (strictly_sorted_of _ B1). cbn [andb]. apply same_set_intro. exact B3.
  Qed.
End Silent2.

(** The universe is a list of canonically written valid digests, the initial sets
    are lists of indices into it (as for kind 6 of C20); no condition on the program. *)
Definition inp_wf20X (inp : sx) : Prop :=
  exists ds, Forall valid_digest ds /\ sx_list (sx_nth inp 0) = map enc_entry ds
    /\ Forall (fun s => Forall (fun i => (i < length ds)%nat) (sx_nats s)) (sx_list (sx_nth inp 1)).

Theorem mon20X_silent_on_model_proof inp : inp_wf20X inp -> mon20X inp (run20X inp) = [].
Proof.
  intros (ds & V & Hent & Hsets). unfold run20X. rewrite Hent, (map_outcome_entries ds V).
  cbv zeta. unfold mon20X. match goal with |- nodup _ ?m = [] => assert (E : m = []); [|rewrite E; reflexivity] end.
  unfold mon20X_raw. rewrite !sx_nth_L. cbn [nth]. rewrite Hent, dec_enc_list, dec_sets_enc.
  rewrite (keys_bad_false ds V), (built_bad_false ds). cbn [flag app].
  apply mon_prog_silent; [exact V|]. apply built_in_univ. exact Hsets.
Qed.

(** run20X in terms of the program semantics *)
Lemma run20X_eq inp ds :
  Forall valid_digest ds -> sx_list (sx_nth inp 0) = map enc_entry ds ->
  run20X inp = L [enc_list (map pack ds); enc_sets (built_of (map pack ds) (sx_nth inp 1));
                  L (map (enc_out enc_sets)
                         (exec_prog (built_of (map pack ds) (sx_nth inp 1)) (map dec_instr (sx_list (sx_nth inp 2)))))].
Proof. intros V Hent. unfold run20X. rewrite Hent, (map_outcome_entries ds V). reflexivity. Qed.
