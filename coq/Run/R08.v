(** C08 monitor: detected corruption is quarantined. *)
From BBS Require Import Common.Sx Store.Model Run.RStore Run.R01.
Open Scope Z_scope.

(** newest stored location of a key among blocks still in the list,
    ignoring the quarantine boundary *)
Definition stale_newest (s : state) (k : key) : option loc :=
  newest (map snd (filter (fun e => key_eqb (fst e) k
                                    && (l_abs (snd e) <? s_released s + N.of_nat (length (s_blocks s)))%N)
                          (s_index s))) None.

(** according to the model's bookkeeping, does every copy of (o, i) that a
    lookup could find lie in a quarantined (or released) block? *)
Definition only_in_quarantine (w : world) (s : state) (o i : nat) : bool :=
  let ls := map (stale_newest s) (lookup_keys w o i) in
  existsb (fun l => match l with Some _ => true | None => false end) ls &&
  forallb (fun l => match l with Some l' => (l_abs l' <? s_tbr s)%N | None => true end) ls.

Definition m08_step (w : world) (acc : list (nat * (nat * nat)) * list Z) (x : op * (state * state * out) * sx)
  : list (nat * (nat * nat)) * list Z :=
  let '(e, (s0, s1, mo), o) := x in
  let '(gets, viol) := acc in
  (* 2: a negative integrity verdict must fail the operation with INTERNAL *)
  let v2 := if (0 <? ob_negs o) && negb (Z.eqb (ob_code o) cInternal) then [2] else [] in
  match e with
  | OGetOpen tid ob i =>
      (* 1: a reader is handed out although (by the model's bookkeeping) every copy a
         lookup could find lies in a quarantined block.  A reader obtained BEFORE the
         detection may still complete: its bytes were validated. *)
      let v1 := if Z.eqb (ob_kind o) 1 && only_in_quarantine w s0 ob i then [1] else [] in
      (* 4: "objects in newer blocks are unaffected": after a detection, NOT_FOUND is
         answered for an object that (by the model's bookkeeping) still has a location
         in a listed block at or above the quarantine boundary *)
      let v4 := if Z.eqb (ob_kind o) 0 && Z.eqb (ob_code o) cNotFound && Nat.ltb 0 (s_negs s0)
                   && match least_specific s0 (lookup_keys w ob i) with Some _ => true | None => false end
                then [4] else [] in
      if Z.eqb (ob_kind o) 1 then ((tid, (ob, i)) :: gets, viol ++ v1 ++ v2) else (gets, viol ++ v4 ++ v2)
  | OGetConsume tid => (unassoc gets tid, viol ++ v2)
  | OFindMissing ds =>
      if Z.eqb (ob_kind o) 2 && Z.eqb (ob_code o) 0 then
        let missing := sx_nats (sx_nth o 2) in
        let bad := existsb (fun '(pos, (ob, i)) => negb (existsb (Nat.eqb pos) missing)
                                                  && only_in_quarantine w s0 ob i) (enumerate 0 ds) in
        (gets, viol ++ (if bad then [1] else []) ++ v2)
      else (gets, viol ++ v2)
  | OPutEnd tid _ | OPutChunk tid _ =>
      (* 3: an upload in flight into a quarantined block must not be acknowledged *)
      let v3 := match thr_get (s_threads s0) tid with
                | Some (TPut _ _ wr _) => if ob_ok o && (wr_abs wr <? s_tbr s0)%N then [3] else []
                | _ => []
                end in
      (gets, viol ++ v3 ++ v2)
  | _ => (gets, viol ++ v2)
  end.

Definition mon08 (inp obs : sx) : list Z :=
  let w := dec_world inp in
  let es := dec_ops inp in
  let sts := run_states w (init_state (w_cfg w)) es in
  dedupZ (snd (fold_left (m08_step w) (combine (combine es sts) (sx_list obs)) ([], []))).

Definition judge08 (inp obs : sx) : sx := judge_store mon08 inp obs.
