(** C17, clause 24 for the deduplicating replicator: on the event log of every
    trace of the model, a caller that returned success has, for every object
    of its set, a justifying event (sink.FindMissing reporting it present, or
    a successful sink.Put) by a caller that acted again only after the asking
    caller's start.

    A justifying event emitted after the asking caller's start justifies it
    outright.  The other case: the owner j of in-flight entry e saw its
    justifying event BEFORE caller i started, and i still found e registered.
    Then j has not yet run its unregistration section, so the justifying
    event is j's last event in the log ([LastJ]) - and whatever j logs next
    comes after i's start.

    Ghost state: [ek], the key of every in-flight entry ever created (the
    entry table of the model does not record it). *)
From Coq Require Import List ZArith NArith Bool Arith Lia.
From BBS Require Import Common.Sx Common.ListX Run.MonSilentSx Compose.ExistenceCache Compose.ExistenceCacheProofs
  Compose.Replicators Compose.ReplicatorsProofs Compose.EventLog Run.R17Conc Run.R17LogBase.
Import ListNotations.
Local Open Scope nat_scope.

(** Entry e has been justified: published as success, or its owner is past its justifying event. *)
Definition dn (s : cstate) (e : nat) : Prop :=
  nth_error (ents s) e = Some (true, true) \/ exists j tj, nth_error (thr s) j = Some tj /\ done_ok tj = Some e.

Section Dedup.
  Variable sets : list (list nat).

  Record TD (infl : list (nat * nat)) (dnp : nat -> Prop) (ek : list nat) (lg : list sx) (j : nat) (tj : thread) : Prop := mkTD {
    t_ask : forall k e, asked tj = Some (k, e) -> nth_error ek e = Some k /\ exists rest, todo tj = k :: rest;
    t_cl : forall k e c, tpc tj = Close k e c -> lookup_key k infl <> Some e;
    t_rest : single_rest tj;
    t_succ : forall x, In x lg -> is_succ j x = true -> tpc tj = Done 0;
    t_done : tpc tj = Done 0 -> todo tj = [];
    t_init : tpc tj = NotStarted -> todo tj = nth j sets [];
    t_prog : forall st, started_at j lg st -> forall d, In d (nth j sets []) -> In d (todo tj) \/ J d st lg;
    t_just : forall st, started_at j lg st ->
               match tpc tj with
               | Wait k e => dnp e -> J k st lg
               | Unreg k e c | Close k e c => c = 0%Z -> J k st lg
               | _ => True
               end;
    t_last : forall k e, tpc tj = Unreg k e 0 -> LastJ j k lg }.

  Definition DI (s : cstate) (lg : list sx) : Prop :=
    exists ek, length ek = length (ents s) /\
      (forall k e, lookup_key k (inflight s) = Some e -> nth_error ek e = Some k) /\
      (forall k e, lookup_key k (inflight s) = Some e -> nth_error (ents s) e <> Some (true, true)) /\
      forall j tj, nth_error (thr s) j = Some tj -> TD (inflight s) (dn s) ek lg j tj.

  Lemma nth_error_some_lt {T} (l : list T) e x : nth_error l e = Some x -> e < length l.
  Proof. intros H. apply nth_error_Some. rewrite H. discriminate. Qed.

  Lemma TD_other infl infl' (dnp dnp' : nat -> Prop) ek ek' lg new i j tj :
    j <> i -> (forall x, In x new -> lg_caller x = i) ->
    (exists suf, ek' = ek ++ suf) ->
    (forall k e, e < length ek -> lookup_key k infl <> Some e -> lookup_key k infl' <> Some e) ->
    (forall e, dnp' e -> dnp e \/ exists k x, nth_error ek e = Some k /\ In x new /\ justifies k x = true) ->
    TD infl dnp ek lg j tj -> TD infl' dnp' ek' (lg ++ new) j tj.
  Proof.
    intros Hne Hc (suf & ->) Hinf Hdn [A B C D E F G Hj L].
    assert (Hn : forall x, In x new -> lg_caller x <> j) by (intros x Hx; rewrite (Hc x Hx); auto).
    assert (Hst : forall st, started_at j (lg ++ new) st -> started_at j lg st /\ st < length lg).
    { intros st Hs. apply started_app_inv in Hs; [|intros x Hx; apply not_caller_not_start, Hn, Hx].
      split; [exact Hs|eapply started_lt; exact Hs]. }
    constructor.
    - intros k e Ha. destruct (A k e Ha) as [A1 A2]. split; [|exact A2]. rewrite nth_error_app1; [exact A1|eapply nth_error_some_lt; exact A1].
    - intros k e c Hp. destruct (A k e) as [A1 _]; [unfold asked; rewrite Hp; reflexivity|].
      apply Hinf; [eapply nth_error_some_lt; exact A1|exact (B k e c Hp)].
    - exact C.
    - intros x Hx Sx. apply in_app_or in Hx. destruct Hx as [Hx|Hx]; [exact (D x Hx Sx)|].
      apply is_succ_caller in Sx. exfalso. exact (Hn x Hx Sx).
    - exact E.
    - exact F.
    - intros st Hs d Hd. destruct (Hst st Hs) as [Hs0 Hl]. destruct (G st Hs0 d Hd) as [X|X]; [left; exact X|right; apply J_app; assumption].
    - intros st Hs. destruct (Hst st Hs) as [Hs0 Hl]. specialize (Hj st Hs0).
      destruct (tpc tj) eqn:Hp; try exact Logic.I.
      + intros Hd. destruct (Hdn e Hd) as [X|(k0 & x & Hk & Hx & Jx)]; [apply J_app; [exact (Hj X)|exact Hl]|].
        destruct (A k e) as [A1 _]; [unfold asked; rewrite Hp; reflexivity|]. rewrite A1 in Hk. injection Hk as <-.
        eapply J_new; eassumption.
      + intros Hc0. apply J_app; [exact (Hj Hc0)|exact Hl].
      + intros Hc0. apply J_app; [exact (Hj Hc0)|exact Hl].
    - intros k e Hp. apply LastJ_app; [exact (L k e Hp)|exact Hn].
  Qed.

  (** The acting caller i (already started) moves from t to t'. *)
  Lemma TD_act infl infl' (dnp dnp' : nat -> Prop) ek ek' lg new i t t' :
    TD infl dnp ek lg i t ->
    (forall x, In x new -> is_start i x = false) -> tpc t <> Done 0 -> tpc t' <> NotStarted ->
    (forall k e, asked t' = Some (k, e) -> nth_error ek' e = Some k /\ exists rest, todo t' = k :: rest) ->
    (forall k e c, tpc t' = Close k e c -> lookup_key k infl' <> Some e) ->
    single_rest t' ->
    (forall x, In x new -> is_succ i x = true -> tpc t' = Done 0) ->
    (tpc t' = Done 0 -> todo t' = []) ->
    (forall st, started_at i lg st -> st < length lg -> forall d, In d (todo t) \/ J d st lg -> In d (todo t') \/ J d st (lg ++ new)) ->
    (forall st, started_at i lg st -> st < length lg ->
       match tpc t' with
       | Wait k e => dnp' e -> J k st (lg ++ new)
       | Unreg k e c | Close k e c => c = 0%Z -> J k st (lg ++ new)
       | _ => True
       end) ->
    (forall k e, tpc t' = Unreg k e 0 -> LastJ i k (lg ++ new)) ->
    TD infl' dnp' ek' (lg ++ new) i t'.
  Proof.
    intros [A B C D E F G Hj L] Hns Hnd Hnn Ha Hb Hc Hs He Hg Hjj Hl.
    assert (Hst : forall st, started_at i (lg ++ new) st -> started_at i lg st /\ st < length lg).
    { intros st H. apply started_app_inv in H; [|exact Hns]. split; [exact H|eapply started_lt; exact H]. }
    constructor; try assumption.
    - intros x Hx Sx. apply in_app_or in Hx. destruct Hx as [Hx|Hx]; [|exact (Hs x Hx Sx)]. exfalso. apply Hnd. exact (D x Hx Sx).
    - intros X. contradiction.
    - intros st H d Hd. destruct (Hst st H) as [H0 Hlt]. apply (Hg st H0 Hlt d). exact (G st H0 d Hd).
    - intros st H. destruct (Hst st H) as [H0 Hlt]. exact (Hjj st H0 Hlt).
  Qed.

  Lemma all_upd_D (P : nat -> thread -> Prop) thr0 i t' thr' :
    thr' = upd i t' thr0 -> P i t' -> (forall j tj, j <> i -> nth_error thr0 j = Some tj -> P j tj) ->
    forall j tj, nth_error thr' j = Some tj -> P j tj.
  Proof.
    intros -> Hi Ho j tj Hj. apply nth_error_upd_inv in Hj. destruct Hj as [[-> ->]|[Hne Hj]]; [exact Hi|exact (Ho j tj Hne Hj)].
  Qed.

  (** Owners that are past their justifying event, after thread i changed. *)
  Lemma dn_thr s thr' i t t' e0 : nth_error (thr s) i = Some t -> thr' = upd i t' (thr s) ->
    (exists j tj, nth_error thr' j = Some tj /\ done_ok tj = Some e0) ->
    done_ok t' = Some e0 \/ exists j tj, nth_error (thr s) j = Some tj /\ done_ok tj = Some e0.
  Proof.
    intros Ht -> (j & tj & Hj & Hd). apply nth_error_upd_inv in Hj. destruct Hj as [[-> ->]|[_ Hj]]; [left; exact Hd|].
    right. exists j, tj. auto.
  Qed.

  Lemma next_after_key_cases t : (exists k a r, todo t = k :: a :: r /\ next_after_key t = mkthr Idle (a :: r) (cancelled t) None)
    \/ ((forall k a r, todo t <> k :: a :: r) /\ next_after_key t = mkthr (Done 0) [] (cancelled t) None).
  Proof.
    unfold next_after_key. destruct (todo t) as [|k [|a r]].
    - right. split; [intros; discriminate|reflexivity].
    - right. split; [intros; discriminate|reflexivity].
    - left. exists k, a, r. auto.
  Qed.


  Lemma dn_upd s s' i t t' e0 : nth_error (thr s) i = Some t -> thr s' = upd i t' (thr s) ->
    (forall e1, nth_error (ents s') e1 = Some (true, true) -> nth_error (ents s) e1 = Some (true, true) \/ done_ok t = Some e1) ->
    dn s' e0 -> dn s e0 \/ done_ok t' = Some e0.
  Proof.
    intros Ht Hthr He [X|X].
    - left. destruct (He e0 X) as [Y|Y]; [left; exact Y|right; exists i, t; auto].
    - destruct (dn_thr s (thr s') i t t' e0 Ht Hthr X) as [Y|Y]; [right; exact Y|left; right; exact Y].
  Qed.

  Lemma prog_keep lg new (td td' : list nat) st d : td' = td -> st < length lg ->
    In d td \/ J d st lg -> In d td' \/ J d st (lg ++ new).
  Proof. intros -> Hl [X|X]; [left; exact X|right; apply J_app; assumption]. Qed.

  Lemma LastJ_new1 j d lg e : justifies d e = true -> lg_caller e = j -> LastJ j d (lg ++ [e]).
  Proof. intros Hj Hc. exists lg, e, []. repeat split; try assumption. intros x []. Qed.

  Ltac dnc De Ht X := match type of De with dn ?sx ?e0 =>
    destruct (dn_upd _ sx _ _ _ e0 Ht eq_refl (fun e1 X => or_introl X) De) as [X|X] end.
  Ltac keep_ek := exists []; symmetry; apply app_nil_r.

  Local Opaque begin_base.

  Lemma dedup_log_step s lg e s' : DI s lg -> step MDedup s e = Some s' -> DI s' (lg ++ emit MDedup s e).
  Proof.
    intros (ek & G1 & G2 & G3 & T) H.
    assert (Oth : forall i new infl' (dnp' : nat -> Prop) ek', (forall x, In x new -> lg_caller x = i) ->
              (exists suf, ek' = ek ++ suf) ->
              (forall k e, e < length ek -> lookup_key k (inflight s) <> Some e -> lookup_key k infl' <> Some e) ->
              (forall e, dnp' e -> dn s e \/ exists k x, nth_error ek e = Some k /\ In x new /\ justifies k x = true) ->
              forall j tj, j <> i -> nth_error (thr s) j = Some tj -> TD infl' dnp' ek' (lg ++ new) j tj).
    { intros i new infl' dnp' ek' Hc Hs Hi Hd j tj Hne Hj. eapply TD_other; try eassumption. exact (T j tj Hj). }
    unfold emit. rewrite H.
    destruct e as [i|i f|i|dt|i alt]; cbn [step] in H; cbn [emit_with].
    - (* EStart *)
      destruct (nth_error (thr s) i) as [t|] eqn:Ht; [|discriminate].
      destruct (tpc t) eqn:Hp; try discriminate. injection H as <-.
      unfold set_pc. rewrite (pc_of_set_thr s i t _ Ht). cbn [tpc].
      match goal with |- context [arrive i (clk s) ?p] => set (p' := p) end.
      assert (Pc : p' = Idle \/ (p' = Done 0 /\ todo t = [])) by (unfold p'; destruct (todo t); auto).
      exists ek. split; [exact G1|]. split; [exact G2|]. split; [exact G3|]. cbn [thr set_thr inflight].
      apply (all_upd_D _ (thr s) i (mkthr p' (todo t) (cancelled t) (bset t))); [reflexivity| |].
      + destruct (T i t Ht) as [A B C D E F G Hj L]. constructor; cbn [tpc todo].
        * intros k e Ha. unfold asked in Ha. cbn [tpc] in Ha. destruct Pc as [->|[-> _]]; discriminate.
        * intros k e c Hc. destruct Pc as [Pc|[Pc _]]; rewrite Pc in Hc; discriminate.
        * unfold single_rest. cbn [tpc]. destruct Pc as [->|[-> _]]; exact Logic.I.
        * intros x Hx Sx. apply in_app_or in Hx. destruct Hx as [Hx|[<-|Hx]];
            [specialize (D x Hx Sx); rewrite Hp in D; discriminate|discriminate Sx|].
          apply (arrive_succ _ _ _ _ _ Hx Sx).
        * intros Hd. destruct Pc as [Pc|[_ Pc]]; [rewrite Pc in Hd; discriminate|exact Pc].
        * intros Hd. destruct Pc as [Pc|[Pc _]]; rewrite Pc in Hd; discriminate.
        * intros st Hs d Hd. left. rewrite (F Hp). exact Hd.
        * intros st Hs. destruct Pc as [->|[-> _]]; exact Logic.I.
        * intros k e Hc. destruct Pc as [Pc|[Pc _]]; rewrite Pc in Hc; discriminate.
      + apply Oth; [intros x [<-|Hx]; [apply caller_start|eapply arrive_caller; exact Hx]|keep_ek|auto|].
        intros e0 De. left. dnc De Ht X; [exact X|].
        unfold done_ok in X. cbn [tpc] in X. destruct Pc as [Pc|[Pc _]]; rewrite Pc in X; discriminate.
    - (* ERel *)
      destruct (nth_error (thr s) i) as [t|] eqn:Ht; [|discriminate].
      rewrite (pc_of_at s i t Ht).
      pose proof (T i t Ht) as Ti. destruct Ti as [A B C D E F G Hj L].
      destruct (tpc t) eqn:Hp; try discriminate.
      + (* Fm k e *)
        destruct (A k e) as [Ak [rest0 Atd]]; [unfold asked; rewrite Hp; reflexivity|].
        cbn [returned].
        destruct (f =? 0)%Z eqn:Ef; cbn [negb] in H |- *.
        * apply Z.eqb_eq in Ef. subst f. destruct (memn k (snk s)) eqn:Ms; injection H as <-.
          -- (* the sink holds k: justified *)
             unfold set_pc. rewrite (pc_of_set_thr s i t _ Ht). cbn [tpc arrive app].
             set (t' := mkthr (Unreg k e 0) (todo t) (cancelled t) (bset t)).
             exists ek. split; [exact G1|]. split; [exact G2|]. split; [exact G3|]. cbn [thr set_thr inflight].
             apply (all_upd_D _ (thr s) i t'); [reflexivity| |].
             ++ apply (TD_act (inflight s) (inflight s) (dn s) _ ek ek lg _ i t); [exact (T i t Ht)|intros x [<-|[]]; reflexivity
                  |rewrite Hp; discriminate|discriminate| | |exact Logic.I|intros x [<-|[]] Sx; discriminate Sx|discriminate| | |].
                ** intros k0 e0 Ha. injection Ha as <- <-. split; [exact Ak|exists rest0; exact Atd].
                ** intros k0 e0 c0 Hc. discriminate Hc.
                ** intros st Hs Hl d. apply prog_keep; [reflexivity|exact Hl].
                ** cbn [t' tpc]. intros st Hs Hl _. eapply J_new; [exact Hl|left; reflexivity|apply justifies_fm_present].
                ** intros k0 e0 Hc. injection Hc as <- <-. apply LastJ_new1; [apply justifies_fm_present|apply caller_ret].
             ++ apply Oth; [callers|keep_ek|auto|].
                intros e0 De. dnc De Ht X; [left; exact X|].
                right. injection X as <-. exists k, (ev_ret i 0 2 k 0 [] (clk s)). split; [exact Ak|]. split; [left; reflexivity|apply justifies_fm_present].
          -- (* not there: enter the base replicator *)
             destruct (thr_begin_base_dedup i t k e s) as [TB IB].
             set (t' := mkthr (Get k [] e) (todo t) (cancelled t) (Some [k])) in *.
             rewrite (pc_of_at _ i t'); [|rewrite TB; eapply nth_error_upd_eq; exact Ht]. cbn [t' tpc arrive app].
             exists ek. split; [exact G1|]. rewrite IB. split; [exact G2|]. split; [exact G3|].
             apply (all_upd_D _ (thr s) i t'); [exact TB| |].
             ++ apply (TD_act (inflight s) (inflight s) (dn s) _ ek ek lg _ i t); [exact (T i t Ht)|intros x [<-|[<-|[]]]; reflexivity
                  |rewrite Hp; discriminate|discriminate| | |reflexivity|intros x [<-|[<-|[]]] Sx; discriminate Sx|discriminate| | |].
                ** intros k0 e0 Ha. injection Ha as <- <-. split; [exact Ak|exists rest0; exact Atd].
                ** intros k0 e0 c0 Hc. discriminate Hc.
                ** intros st Hs Hl d. apply prog_keep; [reflexivity|exact Hl].
                ** cbn [t' tpc]. intros; exact Logic.I.
                ** intros k0 e0 Hc. discriminate Hc.
             ++ apply Oth; [callers|keep_ek|auto|].
                intros e0 De. left. destruct (dn_upd s _ i t t' e0 Ht TB (fun e1 X => or_introl X) De) as [X|X]; [exact X|discriminate X].
        * (* FindMissing failed *)
          injection H as <-. unfold set_pc. rewrite (pc_of_set_thr s i t _ Ht). cbn [tpc arrive app].
          set (t' := mkthr (Unreg k e f) (todo t) (cancelled t) (bset t)).
          assert (Nd : done_ok t' = None) by (unfold done_ok; cbn [t' tpc]; rewrite Ef; reflexivity).
          exists ek. split; [exact G1|]. split; [exact G2|]. split; [exact G3|]. cbn [thr set_thr inflight].
          apply (all_upd_D _ (thr s) i t'); [reflexivity| |].
          -- apply (TD_act (inflight s) (inflight s) (dn s) _ ek ek lg _ i t); [exact (T i t Ht)|intros x [<-|[]]; reflexivity
               |rewrite Hp; discriminate|discriminate| | |exact Logic.I|intros x [<-|[]] Sx; discriminate Sx|discriminate| | |].
             ++ intros k0 e0 Ha. injection Ha as <- <-. split; [exact Ak|exists rest0; exact Atd].
             ++ intros k0 e0 c0 Hc. discriminate Hc.
             ++ intros st Hs Hl d. apply prog_keep; [reflexivity|exact Hl].
             ++ cbn [t' tpc]. intros st Hs Hl Hc. rewrite Hc in Ef. discriminate.
             ++ intros k0 e0 Hc. injection Hc as _ _ Hc. rewrite Hc in Ef. discriminate.
          -- apply Oth; [callers|keep_ek|auto|].
             intros e0 De. left. dnc De Ht X; [exact X|congruence].
      + (* Get *)
        destruct (A d e) as [Ak [rest0 Atd]]; [unfold asked; rewrite Hp; reflexivity|].
        injection H as <-. unfold set_pc. rewrite (pc_of_set_thr s i t _ Ht). cbn [tpc arrive returned app].
        match goal with |- context [set_thr i ?x s] => set (t' := x) end.
        exists ek. split; [exact G1|]. split; [exact G2|]. split; [exact G3|]. cbn [thr set_thr inflight].
        apply (all_upd_D _ (thr s) i t'); [reflexivity| |].
        * apply (TD_act (inflight s) (inflight s) (dn s) _ ek ek lg _ i t); [exact (T i t Ht)|intros x [<-|[<-|[]]]; reflexivity
             |rewrite Hp; discriminate|discriminate| | | |intros x [<-|[<-|[]]] Sx; discriminate Sx|discriminate| | |].
          -- intros k0 e0 Ha. injection Ha as <- <-. split; [exact Ak|exists rest0; exact Atd].
          -- intros k0 e0 c0 Hc. discriminate Hc.
          -- unfold single_rest in *. rewrite Hp in C. exact C.
          -- intros st Hs Hl d0. apply prog_keep; [reflexivity|exact Hl].
          -- cbn [t' tpc]. intros; exact Logic.I.
          -- intros k0 e0 Hc. discriminate Hc.
        * apply Oth; [callers|keep_ek|auto|].
          intros e0 De. left. dnc De Ht X; [exact X|discriminate X].
      + (* Put *)
        destruct (A d e) as [Ak [rest0 Atd]]; [unfold asked; rewrite Hp; reflexivity|].
        unfold single_rest in C. rewrite Hp in C. subst rest. cbn [returned].
        destruct ((if negb (f =? 0)%Z then f else b) =? 0)%Z eqn:Ec.
        * (* copied: justified *)
          apply Z.eqb_eq in Ec. rewrite Ec. injection H as <-. cbn [finish_base].
          set (t' := mkthr (Unreg d e 0) (todo t) (cancelled t) None).
          match goal with |- context [pc_of ?sx i] => set (s1 := sx) end.
          assert (P1 : pc_of s1 i = tpc t') by (apply pc_of_at; cbn [s1 thr set_thr]; eapply nth_error_upd_eq; exact Ht).
          rewrite P1. cbn [t' tpc arrive app].
          exists ek. split; [exact G1|]. split; [exact G2|]. split; [exact G3|]. cbn [s1 thr set_thr inflight].
          apply (all_upd_D _ (thr s) i t'); [reflexivity| |].
          -- apply (TD_act (inflight s) (inflight s) (dn s) _ ek ek lg _ i t); [exact (T i t Ht)|intros x [<-|[]]; reflexivity
               |rewrite Hp; discriminate|discriminate| | |exact Logic.I|intros x [<-|[]] Sx; discriminate Sx|discriminate| | |].
             ++ intros k0 e0 Ha. injection Ha as <- <-. split; [exact Ak|exists rest0; exact Atd].
             ++ intros k0 e0 c0 Hc. discriminate Hc.
             ++ intros st Hs Hl d0. apply prog_keep; [reflexivity|exact Hl].
             ++ cbn [t' tpc]. intros st Hs Hl _. eapply J_new; [exact Hl|left; reflexivity|apply justifies_put_ok].
             ++ intros k0 e0 Hc. injection Hc as <- <-. apply LastJ_new1; [apply justifies_put_ok|apply caller_ret].
          -- apply Oth; [callers|keep_ek|auto|].
             intros e0 De. destruct (dn_upd s s1 i t t' e0 Ht eq_refl (fun e1 X => or_introl X) De) as [X|X]; [left; exact X|].
             right. injection X as <-. exists d, (ev_ret i 0 1 d 0 [] (clk s)). split; [exact Ak|]. split; [left; reflexivity|apply justifies_put_ok].
        * injection H as <-. cbn [finish_base].
          set (c := if negb (f =? 0)%Z then f else b) in *.
          set (t' := mkthr (Unreg d e c) (todo t) (cancelled t) None).
          assert (Nd : done_ok t' = None) by (unfold done_ok; cbn [t' tpc]; rewrite Ec; reflexivity).
          rewrite (pc_of_set_thr s i t _ Ht). cbn [tpc arrive app].
          exists ek. split; [exact G1|]. split; [exact G2|]. split; [exact G3|]. cbn [thr set_thr inflight].
          apply (all_upd_D _ (thr s) i t'); [reflexivity| |].
          -- apply (TD_act (inflight s) (inflight s) (dn s) _ ek ek lg _ i t); [exact (T i t Ht)|intros x [<-|[]]; reflexivity
               |rewrite Hp; discriminate|discriminate| | |exact Logic.I|intros x [<-|[]] Sx; discriminate Sx|discriminate| | |].
             ++ intros k0 e0 Ha. injection Ha as <- <-. split; [exact Ak|exists rest0; exact Atd].
             ++ intros k0 e0 c0 Hc. discriminate Hc.
             ++ intros st Hs Hl d0. apply prog_keep; [reflexivity|exact Hl].
             ++ cbn [t' tpc]. intros st Hs Hl Hc. rewrite Hc in Ec. discriminate.
             ++ intros k0 e0 Hc. injection Hc as _ _ Hc. rewrite Hc in Ec. discriminate.
          -- apply Oth; [callers|keep_ek|auto|].
             intros e0 De. left. dnc De Ht X; [exact X|congruence].
    - (* ECancel *)
      destruct (nth_error (thr s) i) as [t|] eqn:Ht; [|discriminate].
      destruct (cancelled t); [discriminate|]. injection H as <-. rewrite app_nil_r.
      set (t' := mkthr (tpc t) (todo t) true (bset t)).
      exists ek. split; [exact G1|]. split; [exact G2|]. split; [exact G3|]. cbn [thr set_thr inflight].
      assert (Dn : forall e0, dn (set_thr i t' s) e0 -> dn s e0).
      { intros e0 De. dnc De Ht X; [exact X|].
        right. exists i, t. split; [exact Ht|exact X]. }
      apply (all_upd_D _ (thr s) i t'); [reflexivity| |].
      + destruct (T i t Ht) as [A B C D E F G Hj L]. constructor; try assumption.
        intros st Hs. specialize (Hj st Hs). cbn [t' tpc]. destruct (tpc t); try exact Hj. intros X. apply Hj, Dn, X.
      + intros j tj Hne Hjj. specialize (Oth i [] (inflight s) (dn (set_thr i t' s)) ek). rewrite app_nil_r in Oth.
        apply Oth; [intros x []|keep_ek|auto| |exact Hne|exact Hjj]. intros e0 De. left. apply Dn, De.
    - (* EAdv *)
      injection H as <-. rewrite app_nil_r. exists ek. cbn [ents inflight thr]. split; [exact G1|]. split; [exact G2|]. split; [exact G3|].
      intros j tj Hjj. destruct (T j tj Hjj) as [A B C D E F G Hj L]. constructor; try assumption.
    - (* ETau *)
      destruct (nth_error (thr s) i) as [t|] eqn:Ht; [|discriminate].
      pose proof (T i t Ht) as Ti. destruct Ti as [A B C D E F G Hj L].
      destruct (tpc t) eqn:Hp; destruct alt; try discriminate.
      + (* Idle: look the key up / register *)
        destruct (todo t) as [|k rest0] eqn:Atd; [discriminate|].
        destruct (lookup_key k (inflight s)) as [e|] eqn:Lk; injection H as <-.
        * (* found an in-flight entry: wait for it *)
          unfold set_pc. rewrite (pc_of_set_thr s i t _ Ht). cbn [tpc arrive]. rewrite app_nil_r.
          set (t' := mkthr (Wait k e) (todo t) (cancelled t) (bset t)).
          pose proof (G2 k e Lk) as Ak.
          assert (Dn : forall e0, dn (set_thr i t' s) e0 -> dn s e0).
          { intros e0 De. dnc De Ht X; [exact X|discriminate X]. }
          exists ek. split; [exact G1|]. split; [exact G2|]. split; [exact G3|]. cbn [thr set_thr inflight].
          apply (all_upd_D _ (thr s) i t'); [reflexivity| |].
          -- rewrite <- (app_nil_r lg).
             apply (TD_act (inflight s) (inflight s) (dn s) _ ek ek lg [] i t); [exact (T i t Ht)|intros x []
               |rewrite Hp; discriminate|discriminate| | |exact Logic.I|intros x []|discriminate| | |].
             ++ intros k0 e0 Ha. injection Ha as <- <-. split; [exact Ak|exists rest0; exact Atd].
             ++ intros k0 e0 c0 Hc. discriminate Hc.
             ++ intros st Hs Hl d0. apply prog_keep; [reflexivity|exact Hl].
             ++ cbn [t' tpc]. intros st Hs Hl De. rewrite app_nil_r. apply Dn in De. destruct De as [De|(j & tj & Hjj & Dj)].
                ** exfalso. exact (G3 k e Lk De).
                ** destruct (T j tj Hjj) as [A' B' _ _ _ _ _ _ L']. unfold done_ok in Dj.
                   destruct (tpc tj) eqn:Hpj; try discriminate; destruct (c =? 0)%Z eqn:Ec; try discriminate; injection Dj as ->;
                     apply Z.eqb_eq in Ec; subst c.
                   --- destruct (A' k0 e) as [Ak' _]; [unfold asked; rewrite Hpj; reflexivity|].
                       rewrite Ak in Ak'. injection Ak' as <-. apply (LastJ_J j). exact (L' k e eq_refl).
                   --- destruct (A' k0 e) as [Ak' _]; [unfold asked; rewrite Hpj; reflexivity|].
                       rewrite Ak in Ak'. injection Ak' as <-. exfalso. exact (B' k e 0%Z eq_refl Lk).
             ++ intros k0 e0 Hc. discriminate Hc.
          -- intros j tj Hne Hjj. specialize (Oth i [] (inflight s) (dn (set_thr i t' s)) ek). rewrite app_nil_r in Oth.
             apply Oth; [intros x []|keep_ek|auto| |exact Hne|exact Hjj]. intros e0 De. left. apply Dn, De.
        * (* nobody is copying k: register a new entry, become its leader *)
          set (en := length (ents s)).
          set (t' := mkthr (Fm k en) (todo t) (cancelled t) (bset t)).
          cbn [thr]. rewrite (pc_of_at _ i t'); [|cbn [thr set_pc set_thr]; eapply nth_error_upd_eq; exact Ht].
          cbn [t' tpc arrive].
          assert (Een : en = length ek) by (unfold en; symmetry; exact G1).
          exists (ek ++ [k]). cbn [ents inflight thr set_pc set_thr].
          split; [rewrite !app_length, G1; reflexivity|]. split; [|split].
          -- intros k2 e2 L2. cbn [lookup_key] in L2. destruct (Nat.eqb k2 k) eqn:E2.
             ++ apply Nat.eqb_eq in E2. subst k2. injection L2 as <-. rewrite Een, nth_error_app2, Nat.sub_diag by lia. reflexivity.
             ++ pose proof (G2 k2 e2 L2) as X. rewrite nth_error_app1; [exact X|eapply nth_error_some_lt; exact X].
          -- intros k2 e2 L2. cbn [lookup_key] in L2. destruct (Nat.eqb k2 k) eqn:E2.
             ++ injection L2 as <-. unfold en. rewrite nth_error_app2, Nat.sub_diag by lia. cbn. discriminate.
             ++ pose proof (G2 k2 e2 L2) as X. apply nth_error_some_lt in X. rewrite nth_error_app1 by lia. exact (G3 k2 e2 L2).
          -- match goal with |- forall j tj, _ -> TD _ (dn ?sx) _ _ _ _ => set (s1 := sx) end.
             assert (Dn : forall e0, dn s1 e0 -> dn s e0).
             { intros e0 De. refine (match dn_upd s s1 i t t' e0 Ht eq_refl _ De with or_introl X => X | or_intror X => _ end); [|discriminate X].
               cbn [s1 ents]. intros e1 X. left. destruct (Nat.lt_ge_cases e1 (length (ents s))) as [Hl|Hl].
               - rewrite nth_error_app1 in X by exact Hl. exact X.
               - rewrite nth_error_app2 in X by exact Hl. destruct (e1 - length (ents s)) as [|[|?]]; cbn in X; discriminate. }
             apply (all_upd_D _ (thr s) i t'); [reflexivity| |].
             ++ apply (TD_act (inflight s) _ (dn s) _ ek _ lg _ i t); [exact (T i t Ht)|intros x [<-|[]]; reflexivity
                  |rewrite Hp; discriminate|discriminate| | |exact Logic.I|intros x [<-|[]] Sx; discriminate Sx|discriminate| | |].
                ** intros k0 e0 Ha. injection Ha as <- <-. split; [|exists rest0; exact Atd].
                   rewrite Een, nth_error_app2, Nat.sub_diag by lia. reflexivity.
                ** intros k0 e0 c0 Hc. discriminate Hc.
                ** intros st Hs Hl d0. apply prog_keep; [reflexivity|exact Hl].
                ** cbn [t' tpc]. intros; exact Logic.I.
                ** intros k0 e0 Hc. discriminate Hc.
             ++ apply Oth; [callers|exists [k]; reflexivity| |intros e0 De; left; apply Dn, De].
                intros k2 e2 Hl Hn. cbn [lookup_key]. destruct (Nat.eqb k2 k); [|exact Hn]. intros X. injection X as <-. lia.
      + (* Wait, cancelled *)
        destruct (cancelled t); [|discriminate]. injection H as <-.
        unfold set_pc. rewrite (pc_of_set_thr s i t _ Ht). cbn [tpc arrive].
        set (t' := mkthr (Done 1) (todo t) (cancelled t) (bset t)).
        exists ek. split; [exact G1|]. split; [exact G2|]. split; [exact G3|]. cbn [thr set_thr inflight].
        apply (all_upd_D _ (thr s) i t'); [reflexivity| |].
        * apply (TD_act (inflight s) (inflight s) (dn s) _ ek ek lg _ i t); [exact (T i t Ht)|intros x [<-|[]]; reflexivity
             |rewrite Hp; discriminate|discriminate| | |exact Logic.I|intros x [<-|[]] Sx; nosucc Sx|discriminate| | |].
          -- intros k0 e0 Ha. discriminate Ha.
          -- intros k0 e0 c0 Hc. discriminate Hc.
          -- intros st Hs Hl d0. apply prog_keep; [reflexivity|exact Hl].
          -- cbn [t' tpc]. intros; exact Logic.I.
          -- intros k0 e0 Hc. discriminate Hc.
        * apply Oth; [callers|keep_ek|auto|].
          intros e0 De. left. dnc De Ht X; [exact X|discriminate X].
      + (* Wait, woken *)
        destruct (A k e) as [Ak [rest0 Atd]]; [unfold asked; rewrite Hp; reflexivity|].
        destruct (nth_error (ents s) e) as [[[] []]|] eqn:Ee; try discriminate; injection H as <-.
        * (* the leader succeeded: next key, or return OK *)
          assert (Jk : forall st, started_at i lg st -> J k st lg).
          { intros st Hs. specialize (Hj st Hs). apply Hj. left. exact Ee. }
          set (t' := next_after_key t).
          assert (Et' : (t' = mkthr (Done 0) [] (cancelled t) None /\ rest0 = []) \/
                        (t' = mkthr Idle rest0 (cancelled t) None /\ rest0 <> [])).
          { unfold t', next_after_key. rewrite Atd. destruct rest0; [left|right]; split; try reflexivity. discriminate. }
          rewrite (pc_of_set_thr s i t _ Ht).
          exists ek. split; [exact G1|]. split; [exact G2|]. split; [exact G3|]. cbn [thr set_thr inflight].
          apply (all_upd_D _ (thr s) i t'); [reflexivity| |].
          -- apply (TD_act (inflight s) (inflight s) (dn s) _ ek ek lg _ i t); [exact (T i t Ht)|intros x Hx; eapply arrive_not_start; exact Hx
               |rewrite Hp; discriminate|destruct Et' as [[-> _]|[-> _]]; discriminate| | | | | | | |].
             ++ intros k0 e0 Ha. destruct Et' as [[Et' _]|[Et' _]]; rewrite Et' in Ha; discriminate Ha.
             ++ intros k0 e0 c0 Hc. destruct Et' as [[Et' _]|[Et' _]]; rewrite Et' in Hc; discriminate Hc.
             ++ destruct Et' as [[-> _]|[-> _]]; exact Logic.I.
             ++ intros x Hx Sx. apply (arrive_succ _ _ _ _ _ Hx Sx).
             ++ intros Hd. destruct Et' as [[-> _]|[Et' _]]; [reflexivity|rewrite Et' in Hd; discriminate].
             ++ intros st Hs Hl d0 [X|X]; [|right; apply J_app; assumption]. rewrite Atd in X. destruct X as [<-|X].
                ** right. apply J_app; [apply Jk; exact Hs|exact Hl].
                ** left. destruct Et' as [[_ ->]|[-> _]]; [destruct X|exact X].
             ++ intros st Hs Hl. destruct Et' as [[-> _]|[-> _]]; exact Logic.I.
             ++ intros k0 e0 Hc. destruct Et' as [[Et' _]|[Et' _]]; rewrite Et' in Hc; discriminate Hc.
          -- apply Oth; [intros x Hx; eapply arrive_caller; exact Hx|keep_ek|auto|].
             intros e0 De. left. dnc De Ht X; [exact X|].
             destruct Et' as [[Et' _]|[Et' _]]; rewrite Et' in X; discriminate X.
        * (* the leader failed: try again *)
          unfold set_pc. rewrite (pc_of_set_thr s i t _ Ht). cbn [tpc arrive]. rewrite app_nil_r.
          set (t' := mkthr Idle (todo t) (cancelled t) (bset t)).
          exists ek. split; [exact G1|]. split; [exact G2|]. split; [exact G3|]. cbn [thr set_thr inflight].
          apply (all_upd_D _ (thr s) i t'); [reflexivity| |].
          -- rewrite <- (app_nil_r lg).
             apply (TD_act (inflight s) (inflight s) (dn s) _ ek ek lg [] i t); [exact (T i t Ht)|intros x []
               |rewrite Hp; discriminate|discriminate| | |exact Logic.I|intros x []|discriminate| | |].
             ++ intros k0 e0 Ha. discriminate Ha.
             ++ intros k0 e0 c0 Hc. discriminate Hc.
             ++ intros st Hs Hl d0. apply prog_keep; [reflexivity|exact Hl].
             ++ cbn [t' tpc]. intros; exact Logic.I.
             ++ intros k0 e0 Hc. discriminate Hc.
          -- intros j tj Hne Hjj. specialize (Oth i [] (inflight s) (dn (set_thr i t' s)) ek). rewrite app_nil_r in Oth.
             apply Oth; [intros x []|keep_ek|auto| |exact Hne|exact Hjj].
             intros e0 De. left. dnc De Ht X; [exact X|discriminate X].
      + (* Unreg: delete the in-flight entry *)
        destruct (A k e) as [Ak [rest0 Atd]]; [unfold asked; rewrite Hp; reflexivity|].
        injection H as <-. cbn [thr].
        set (t' := mkthr (Close k e c) (todo t) (cancelled t) (bset t)).
        rewrite (pc_of_at _ i t'); [|cbn [thr set_pc set_thr]; eapply nth_error_upd_eq; exact Ht].
        cbn [t' tpc arrive]. rewrite app_nil_r.
        assert (Lr : forall k2 e2, lookup_key k2 (remove_inflight k (inflight s)) = Some e2 -> lookup_key k2 (inflight s) = Some e2).
        { intros k2 e2 X. rewrite lookup_key_remove in X. destruct (Nat.eqb k2 k); [discriminate|exact X]. }
        exists ek. cbn [ents inflight thr set_pc set_thr]. split; [exact G1|].
        split; [intros k2 e2 X; apply G2, Lr, X|]. split; [intros k2 e2 X; apply (G3 k2 e2), Lr, X|].
        set (s1 := mkcs (upd i t' (thr s)) (remove_inflight k (inflight s)) (ents s) (src s) (snk s) (cur s) (semq s) (tok s) (qcache s) (clk s) (maxkey s) (maxall s)).
        assert (Dn : forall e0, dn s1 e0 -> dn s e0).
        { intros e0 De. destruct (dn_upd s s1 i t t' e0 Ht eq_refl (fun e1 X => or_introl X) De) as [X|X]; [exact X|].
          right. exists i, t. split; [exact Ht|]. unfold done_ok in *. rewrite Hp. exact X. }
        apply (all_upd_D _ (thr s) i t'); [reflexivity| |].
        * rewrite <- (app_nil_r lg).
          apply (TD_act (inflight s) _ (dn s) (dn s1) ek ek lg [] i t); [exact (T i t Ht)|intros x []
            |rewrite Hp; discriminate|discriminate| | |exact Logic.I|intros x []|discriminate| | |].
          -- intros k0 e0 Ha. injection Ha as <- <-. split; [exact Ak|exists rest0; exact Atd].
          -- intros k0 e0 c0 Hc. injection Hc as <- <- <-. rewrite lookup_key_remove, Nat.eqb_refl. discriminate.
          -- intros st Hs Hl d0. apply prog_keep; [reflexivity|exact Hl].
          -- cbn [t' tpc]. intros st Hs Hl Hc. rewrite app_nil_r. specialize (Hj st Hs). exact (Hj Hc).
          -- intros k0 e0 Hc. discriminate Hc.
        * intros j tj Hne Hjj. specialize (Oth i [] (remove_inflight k (inflight s)) (dn s1) ek). rewrite app_nil_r in Oth.
          apply Oth; [intros x []|keep_ek| | |exact Hne|exact Hjj].
          -- intros k2 e2 _ Hn X. apply Hn, Lr, X.
          -- intros e0 De. left. apply Dn, De.
      + (* Close: publish the outcome *)
        destruct (A k e) as [Ak [rest0 Atd]]; [unfold asked; rewrite Hp; reflexivity|].
        pose proof (B k e c eq_refl) as Bk.
        assert (G3' : forall v k2 e2, lookup_key k2 (inflight s) = Some e2 -> nth_error (upd e (true, v) (ents s)) e2 <> Some (true, true)).
        { intros v k2 e2 L2 X. apply nth_error_upd_inv in X. destruct X as [[-> _]|[_ X]]; [|exact (G3 k2 e2 L2 X)].
          pose proof (G2 k2 e L2) as Y. rewrite Ak in Y. injection Y as <-. exact (Bk L2). }
        destruct (c =? 0)%Z eqn:Ec; injection H as <-.
        * apply Z.eqb_eq in Ec. subst c.
          assert (Jk : forall st, started_at i lg st -> J k st lg).
          { intros st Hs. specialize (Hj st Hs). apply Hj. reflexivity. }
          set (t' := next_after_key t).
          assert (Et' : (t' = mkthr (Done 0) [] (cancelled t) None /\ rest0 = []) \/
                        (t' = mkthr Idle rest0 (cancelled t) None /\ rest0 <> [])).
          { unfold t', next_after_key. rewrite Atd. destruct rest0; [left|right]; split; try reflexivity. discriminate. }
          erewrite pc_of_set_thr; [|cbn [thr set_ent]; exact Ht].
          exists ek. cbn [ents inflight thr set_thr set_ent]. split; [rewrite upd_length; exact G1|]. split; [exact G2|]. split; [apply G3'|].
          match goal with |- forall j tj, _ -> TD _ (dn ?sx) _ _ _ _ => set (s1 := sx) end.
          assert (Dn : forall e0, dn s1 e0 -> dn s e0).
          { intros e0 De. refine (match dn_upd s s1 i t t' e0 Ht eq_refl _ De with or_introl X => X | or_intror X => _ end).
            - cbn [s1 ents set_thr set_ent]. intros e1 X. apply nth_error_upd_inv in X. destruct X as [[-> _]|[_ X]]; [right|left; exact X].
              unfold done_ok. rewrite Hp. reflexivity.
            - destruct Et' as [[Et' _]|[Et' _]]; rewrite Et' in X; discriminate X. }
          apply (all_upd_D _ (thr s) i t'); [reflexivity| |].
          -- apply (TD_act (inflight s) (inflight s) (dn s) (dn s1) ek ek lg _ i t); [exact (T i t Ht)|intros x Hx; eapply arrive_not_start; exact Hx
               |rewrite Hp; discriminate|destruct Et' as [[-> _]|[-> _]]; discriminate| | | | | | | |].
             ++ intros k0 e0 Ha. destruct Et' as [[Et' _]|[Et' _]]; rewrite Et' in Ha; discriminate Ha.
             ++ intros k0 e0 c0 Hc. destruct Et' as [[Et' _]|[Et' _]]; rewrite Et' in Hc; discriminate Hc.
             ++ destruct Et' as [[-> _]|[-> _]]; exact Logic.I.
             ++ intros x Hx Sx. apply (arrive_succ _ _ _ _ _ Hx Sx).
             ++ intros Hd. destruct Et' as [[-> _]|[Et' _]]; [reflexivity|rewrite Et' in Hd; discriminate].
             ++ intros st Hs Hl d0 [X|X]; [|right; apply J_app; assumption]. rewrite Atd in X. destruct X as [<-|X].
                ** right. apply J_app; [apply Jk; exact Hs|exact Hl].
                ** left. destruct Et' as [[_ ->]|[-> _]]; [destruct X|exact X].
             ++ intros st Hs Hl. destruct Et' as [[-> _]|[-> _]]; exact Logic.I.
             ++ intros k0 e0 Hc. destruct Et' as [[Et' _]|[Et' _]]; rewrite Et' in Hc; discriminate Hc.
          -- apply Oth; [intros x Hx; eapply arrive_caller; exact Hx|keep_ek|auto|intros e0 De; left; apply Dn, De].
        * set (t' := mkthr (Done c) (todo t) (cancelled t) (bset t)).
          unfold set_pc. erewrite pc_of_set_thr; [|cbn [thr set_ent]; exact Ht]. cbn [tpc arrive].
          exists ek. cbn [ents inflight thr set_thr set_ent]. split; [rewrite upd_length; exact G1|]. split; [exact G2|]. split; [apply G3'|].
          match goal with |- forall j tj, _ -> TD _ (dn ?sx) _ _ _ _ => set (s1 := sx) end.
          assert (Dn : forall e0, dn s1 e0 -> dn s e0).
          { intros e0 De. refine (match dn_upd s s1 i t t' e0 Ht eq_refl _ De with or_introl X => X | or_intror X => _ end); [|discriminate X].
            cbn [s1 ents set_thr set_ent]. intros e1 X. apply nth_error_upd_inv in X. destruct X as [[_ X]|[_ X]]; [discriminate X|left; exact X]. }
          apply (all_upd_D _ (thr s) i t'); [reflexivity| |].
          -- apply (TD_act (inflight s) (inflight s) (dn s) (dn s1) ek ek lg _ i t); [exact (T i t Ht)|intros x [<-|[]]; reflexivity
               |rewrite Hp; discriminate|discriminate| | |exact Logic.I| | | | |].
             ++ intros k0 e0 Ha. discriminate Ha.
             ++ intros k0 e0 c0 Hc. discriminate Hc.
             ++ intros x [<-|[]] Sx. apply is_succ_done in Sx. destruct Sx as [_ Sx]. rewrite Sx in Ec. discriminate.
             ++ cbn [t' tpc]. intros X. injection X as X. rewrite X in Ec. discriminate.
             ++ intros st Hs Hl d0. apply prog_keep; [reflexivity|exact Hl].
             ++ cbn [t' tpc]. intros; exact Logic.I.
             ++ intros k0 e0 Hc. discriminate Hc.
          -- apply Oth; [callers|keep_ek|auto|intros e0 De; left; apply Dn, De].
      + (* WaitSem, cancelled: not a step of this decorator *)
        destruct (cancelled t); discriminate.
      + (* WaitTok, cancelled (a defined step, not reachable here) *)
        destruct (cancelled t); [|discriminate]. injection H as <-.
        unfold set_pc. rewrite (pc_of_set_thr s i t _ Ht). cbn [tpc arrive].
        set (t' := mkthr (Done 1) (todo t) (cancelled t) (bset t)).
        exists ek. split; [exact G1|]. split; [exact G2|]. split; [exact G3|]. cbn [thr set_thr inflight].
        apply (all_upd_D _ (thr s) i t'); [reflexivity| |].
        * apply (TD_act (inflight s) (inflight s) (dn s) _ ek ek lg _ i t); [exact (T i t Ht)|intros x [<-|[]]; reflexivity
             |rewrite Hp; discriminate|discriminate| | |exact Logic.I|intros x [<-|[]] Sx; nosucc Sx|discriminate| | |].
          -- intros k0 e0 Ha. discriminate Ha.
          -- intros k0 e0 c0 Hc. discriminate Hc.
          -- intros st Hs Hl d0. apply prog_keep; [reflexivity|exact Hl].
          -- cbn [t' tpc]. intros; exact Logic.I.
          -- intros k0 e0 Hc. discriminate Hc.
        * apply Oth; [callers|keep_ek|auto|].
          intros e0 De. left. dnc De Ht X; [exact X|discriminate X].
  Qed.

  Local Transparent begin_base.

  Lemma DI_init source sink : DI (init_state sets source sink) [].
  Proof.
    exists []. split; [reflexivity|]. split; [intros k e X; discriminate X|]. split; [intros k e X; discriminate X|].
    intros j tj Hj. apply init_thread_at in Hj. subst tj.
    constructor; unfold asked, single_rest; cbn [init_thread tpc todo];
      first [ exact Logic.I | reflexivity | intros st Hs; discriminate Hs
            | intros k e X; discriminate X | intros k e c X; discriminate X | intros X; discriminate X | intros x [] ].
  Qed.

  (** Clause 24 on the log of every trace of the deduplicating replicator. *)
  Theorem dedup_clause24 source sink tr s : run MDedup (init_state sets source sink) tr = Some s ->
    clause24_ok sets (tlog MDedup (init_state sets source sink) tr).
  Proof.
    intros H. pose proof (tlog_inv MDedup DI _ (DI_init source sink) dedup_log_step tr s H) as (ek & _ & _ & _ & T).
    intros i p st Hi Hs Hst.
    destruct (nth_error (thr s) i) as [t|] eqn:Ht.
    2: { apply nth_error_None in Ht. rewrite (run_length _ _ _ _ H), init_length in Ht. lia. }
    destruct (T i t Ht) as [_ _ _ D E _ G _ _].
    apply iw_some_in in Hs. destruct Hs as (x & Hx & Sx). specialize (D x Hx Sx). specialize (E D).
    apply forallb_forall. intros d Hd. destruct (G st Hst d Hd) as [X|X]; [rewrite E in X; destruct X|exact X].
  Qed.
End Dedup.
