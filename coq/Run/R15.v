(** C15: sx interface (decoders, run, monitor, judge). *)
From BBS Require Import Common.Sx Buffer.Algebra Buffer.Mux.

(** ---- M2: decorator programs ---- *)

Definition dec_meth (s : sx) : meth :=
  match s with
  | L [A 0] => MSize
  | L [A 1] => MWriter
  | L [A 2; A len; A off] => MReadAt (Z.to_nat len) (Z.to_nat off)
  | L [A 3; A max] => MProto (Z.to_nat max)
  | L [A 4; A max] => MSlice (Z.to_nat max)
  | L [A 5; A off; A _] => MChunks (Z.to_nat off)
  | L [A 6] => MReader
  | _ => MDiscard
  end.

Definition dec_kind (tag code : Z) : kind :=
  match tag with
  | 0 => KBytes | 1 => KProto | 2 => KErr code | 3 => KReaderAt | 4 => KReader | _ => KChunk
  end.

Definition dec_fault (f : Z) : fault :=
  match f with 0 => FNone | 1 => FCorrupt | c => FIo c end.

(** ops are applied innermost first; task ids are op positions. *)
Fixpoint dec_ops (p : prog) (i : nat) (ops : list sx) : prog :=
  match ops with
  | [] => p
  | op :: rest =>
      let p' :=
        match op with
        | L [A 0; A side; sm] =>
            if Z.eqb side 0 then CloneStreamL p (dec_meth sm) else CloneStreamR p (dec_meth sm)
        | L [A 1; A side; A max; sm] =>
            if Z.eqb side 0 then CloneCopyL p (Z.to_nat max) (dec_meth sm)
            else CloneCopyR p (Z.to_nat max) (dec_meth sm)
        | L [A 2; A terr] => WithTask p i terr
        | L [A 3; A h] => WithEH p h
        | _ => p
        end in
      dec_ops p' (S i) rest
  end.

(** The object content for a payload: wire form of a BytesValue message. *)
Definition data_of (payload : list Z) : list Z :=
  match payload with [] => [] | _ => 10 :: Z.of_nat (length payload) :: payload end.

Definition enc_res (r : res) : sx :=
  match r with
  | Panic => L [A (-1)]
  | Ok b => L [A 0; of_Zs b]
  | Eof b => L [A 1; of_Zs b]
  | Err c => L [A 2; A c]
  end.

Definition run_handle (D : list Z) (f : fault) (h : bres * meth) : res :=
  match fst h with BPanic => Panic | BNode n => eval D f n (snd h) end.

Definition run15_prog (inp : sx) : sx :=
  let D := data_of (sx_Zs (sx_nth inp 4)) in
  let f := dec_fault (sx_Z (sx_nth inp 3)) in
  let p := dec_ops (Base (dec_kind (sx_Z (sx_nth inp 1)) (sx_Z (sx_nth inp 2)))) 0 (sx_list (sx_nth inp 5)) in
  let m := dec_meth (sx_nth inp 6) in
  let hs := siblings D f true p ++ [(build D f true p, m)] in
  L [of_nat (closes D f true p); A 0;
     L (map (fun h => L [enc_res (run_handle D f h); A 1]) hs)].

(** Monitor, on the implementation's observation; uses the specification
    (the expected bytes are a slice of the object) and not [eval]. *)
Definition is_stream_clone (ktag : Z) (ops : list sx) : bool :=
  (Z.eqb ktag 4 || Z.eqb ktag 5) &&
  existsb (fun op => match op with L (A 0 :: _) => true | _ => false end) ops.

(** Bytes a successful method may return, by the interface contract. *)
Definition spec_bytes (D : list Z) (m : meth) (r : sx) : bool :=
  match r with
  | L [A 0; b] =>
      match m with
      | MSize => sx_eqb b (L [of_nat (length D)])
      | MWriter | MReader | MProto _ | MSlice _ => sx_eqb b (of_Zs D)
      | MChunks off => sx_eqb b (of_Zs (skipn off D))
      | MReadAt len off => sx_eqb b (of_Zs (firstn len (skipn off D)))
      | MDiscard => sx_eqb b (L [])
      end
  | L [A 1; b] =>
      match m with
      | MReadAt len off => sx_eqb b (of_Zs (firstn len (skipn off D))) && Nat.ltb (length (skipn off D)) len
      | _ => false
      end
  | _ => true
  end.

Definition completing (m : meth) : bool :=
  match m with MSize | MDiscard => false | _ => true end.
Definition is_success (r : sx) : bool :=
  match r with L (A 0 :: _) | L (A 1 :: _) => true | _ => false end.
Definition is_ok (r : sx) : bool :=
  match r with L (A 0 :: _) => true | _ => false end.
Definition is_panic (r : sx) : bool :=
  match r with L [A (-1)] => true | _ => false end.

(** methods of the handles in observation order: siblings by op position, then main *)
Fixpoint handle_meths (ops : list sx) (i : nat) : list (nat * meth) :=
  match ops with
  | [] => []
  | op :: rest =>
      match op with
      | L [A 0; A _; sm] => (i, dec_meth sm) :: handle_meths rest (S i)
      | L [A 1; A _; A _; sm] => (i, dec_meth sm) :: handle_meths rest (S i)
      | _ => handle_meths rest (S i)
      end
  end.

(** a task with a non-nil error attached before position [upto], with no
    error handler and no CloneCopy after it (those may legitimately transform
    or consume the error) *)
Fixpoint failing_task_before (ops : list sx) (upto : nat) : bool :=
  match upto, ops with
  | O, _ | _, [] => false
  | S k, op :: rest =>
      match op with
      | L [A 2; A terr] =>
          (negb (Z.eqb terr 0) &&
           forallb (fun o => match o with L (A 3 :: _) | L (A 1 :: _) => false | _ => true end) (firstn k rest))
          || failing_task_before rest k
      | _ => failing_task_before rest k
      end
  end.

Definition mon15_prog (inp obs : sx) : list Z :=
  let D := data_of (sx_Zs (sx_nth inp 4)) in
  let ktag := sx_Z (sx_nth inp 1) in
  let ops := sx_list (sx_nth inp 5) in
  let hm := handle_meths ops 0 ++ [(length ops, dec_meth (sx_nth inp 6))] in
  let hs := sx_list (sx_nth obs 2) in
  let timeout := sx_bool (sx_nth obs 1) in
  let zs := combine hm hs in
  (* 1: a Buffer operation panicked *)
  (if existsb (fun h => is_panic (sx_nth h 0)) hs then [1] else []) ++
  (* 2: some consumer blocked forever *)
  (if timeout then [2] else []) ++
  (* 3: stream-cloned source not closed exactly once *)
  (if negb timeout && is_stream_clone ktag ops && negb (Z.eqb (sx_Z (sx_nth obs 0)) 1) then [3] else []) ++
  (* 4: completion reported before an attached task finished *)
  (if existsb (fun z => completing (snd (fst z)) && is_success (sx_nth (snd z) 0) && negb (sx_bool (sx_nth (snd z) 1))) zs
   then [4] else []) ++
  (* 5: a consumer that completed saw other bytes than the object's *)
  (if existsb (fun z => negb (spec_bytes D (snd (fst z)) (sx_nth (snd z) 0))) zs then [5] else []) ++
  (* 6: the task failed, the data was fine, and the handle reports success *)
  (if existsb (fun z => completing (snd (fst z)) && is_ok (sx_nth (snd z) 0)
                        && failing_task_before ops (fst (fst z))) zs
   then [6] else []).

(** ---- M1: schedules of n consumers ---- *)

Definition dec_cprog (s : sx) : nat * bool * N :=
  (sx_nat (sx_nth s 0), sx_bool (sx_nth s 1), sx_N (sx_nth s 2)).

Definition run15_mux (inp : sx) : sx :=
  let nch := sx_nat (sx_nth inp 1) in
  let term := sx_Z (sx_nth inp 2) in
  let progs := map dec_cprog (sx_list (sx_nth inp 3)) in
  let s1 := run_skip nch term (init progs) (sx_nats (sx_nth inp 4)) in
  (* drain: round robin; every round lets at least one consumer step *)
  let s2 := run_skip nch term s1 (concat (repeat (seq 0 (length progs)) (rank s1))) in
  L (of_nat (closed s2) :: of_bool (all_done s2 && negb (panicked s2)) :: map (fun c => of_Zs (got c)) (cs s2)).

(** what the interface promises consumer i: the first [reads] results of the
    underlying reader, in order *)
Definition spec_seq (nch : nat) (term : Z) (p : nat * bool * N) : list Z :=
  let '(r, d, _) := p in if d then [] else items nch term r.

Definition mon15_mux (inp obs : sx) : list Z :=
  let nch := sx_nat (sx_nth inp 1) in
  let term := sx_Z (sx_nth inp 2) in
  let progs := map dec_cprog (sx_list (sx_nth inp 3)) in
  let terminated := sx_bool (sx_nth obs 1) in
  let gots := map sx_Zs (skipn 2 (sx_list obs)) in
  (* 11: panic in a consumer *)
  (if existsb (fun g => existsb (Z.eqb (-100)) g) gots then [11] else []) ++
  (* 12: some consumer never finished *)
  (if negb terminated then [12] else []) ++
  (* 13: source not closed exactly once after everybody finished *)
  (if terminated && negb (Z.eqb (sx_Z (sx_nth obs 0)) 1) then [13] else []) ++
  (* 15: a consumer saw something else than the source produced *)
  (if terminated && negb (existsb (fun g => existsb (Z.eqb (-100)) g) gots) &&
      negb (sx_eqb (L (map of_Zs gots)) (L (map (fun p => of_Zs (spec_seq nch term p)) progs)))
   then [15] else []).

Definition run15 (inp : sx) : sx :=
  match sx_nth inp 0 with
  | A 1 => run15_prog inp
  | A 2 => run15_mux inp
  | _ => L []
  end.
Definition mon15 (inp obs : sx) : list Z :=
  match sx_nth inp 0 with
  | A 1 => mon15_prog inp obs
  | A 2 => mon15_mux inp obs
  | _ => []
  end.

(** The "waited" flag of a handle is part of the correspondence only where the
    property speaks: a completing method that reports success.  (A consumer of
    a multiplexed stream that stops early, asks for the size or discards may
    return while the task still runs.) *)
Definition norm_handle (z : (nat * meth) * sx) : sx :=
  let r := sx_nth (snd z) 0 in
  if completing (snd (fst z)) && is_success r then snd z else L [r; A 1].
Definition norm_obs_prog (inp obs : sx) : sx :=
  let ops := sx_list (sx_nth inp 5) in
  let hm := handle_meths ops 0 ++ [(length ops, dec_meth (sx_nth inp 6))] in
  let hs := sx_list (sx_nth obs 2) in
  if Nat.eqb (length hm) (length hs)
  then L [sx_nth obs 0; sx_nth obs 1; L (map norm_handle (combine hm hs))]
  else obs.
Definition norm_obs (inp obs : sx) : sx :=
  match sx_nth inp 0 with
  | A 1 => norm_obs_prog inp obs
  | _ => obs
  end.

Definition judge15 (inp obs : sx) : sx :=
  let m := run15 inp in
  let v := mon15 inp obs in
  verdict (sx_eqb m (norm_obs inp obs)) (negb (match v with [] => true | _ => false end)) m (of_Zs v).
