(** C04A (sub-check of C04): the accounting of the real
    local.NewBlockDeviceBackedBlockAllocator — "a region is not handed out
    while a block / reader / writer obtained earlier on it is still live, and
    capacity is neither lost nor invented" — decided on observations.

    Input  : ((kind sector spb n) (op ...))
      kind 0 = NewBlockDeviceBackedBlockAllocator over an in-memory block device
               of n regions of spb sectors of [sector] bytes,
      kind 1 = NewInMemoryBlockAllocator(sector*spb);
      op = (0)               NewBlock()
           (1 off size wo)   NewBlockAtLocation({OffsetBytes off, SizeBytes size}, wo)
           (2 h)             the owner calls Release() on the h-th block handed out
           (3 h)             Get() on block h; the reader is held open (pin)
           (5 h size)        HasSpace(size) and, if true, Put(size); the writer is held (pin)
           (4 p)             pin p: close the reader / run the writer and its finalizer
      Handles h and pins p count the successful hand-outs / the readers and
      writers obtained so far, from 0.  An op naming a handle or pin that does
      not exist (or a pin already finished) calls nothing: observation (9).
    Observation: ((stepobs ...) (drainobs ...) (allocations releases intact))
      stepobs, one per op until a panic:
        (1 locoff locsize probe)  a block was handed out; loc = the BlockLocation
                                  returned (NewBlock) or given (NewBlockAtLocation);
                                  probe = the device byte offset at which a read
                                  of the block's first byte arrives (-1: no device)
        (0 code)                  no block: gRPC code of NewBlock's error / 0
        (2) (3) (5 hasspace) (4 kind offset ok) (9); (-1) = the call panicked
      drainobs: at the end of a case without panic (kind 0) NewBlock() is called
        until it fails, at most n+1 times;
      allocations / releases: the allocator's Prometheus counters for the case;
      intact (kind 1): every completed Put reads back through Get at the end. *)
From Coq Require Import List ZArith Bool Lia.
From BBS Require Import Common.Sx Alloc.BDA.
Import ListNotations.
Open Scope Z_scope.

(** ---- codecs ---- *)
Definition dec_kind (inp : sx) : Z := sx_Z (sx_nth (sx_nth inp 0) 0).
Definition dec_cfg (inp : sx) : acfg :=
  let c := sx_nth inp 0 in
  mkCfg (sx_Z (sx_nth c 1)) (sx_Z (sx_nth c 2)) (sx_nat (sx_nth c 3)).

Definition dec_op (s : sx) : op :=
  match sx_Z (sx_nth s 0) with
  | 0 => ONew
  | 1 => OAt (sx_Z (sx_nth s 1)) (sx_Z (sx_nth s 2)) (sx_Z (sx_nth s 3))
  | 2 => ORel (sx_nat (sx_nth s 1))
  | 3 => OGet (sx_nat (sx_nth s 1))
  | 5 => OPut (sx_nat (sx_nth s 1)) (sx_Z (sx_nth s 2))
  | 4 => OFin (sx_nat (sx_nth s 1))
  | _ => OBad
  end.
Definition dec_ops (inp : sx) : list op := map dec_op (sx_list (sx_nth inp 1)).

(** what the harness can see of one call *)
Inductive ob :=
| BHand (loff lsize probe : Z)
| BFail (code : Z)
| BSkip | BRel | BGot
| BPut (ok : bool)
| BFin (kind off : Z) (ok : bool)
| BPanic
| BJunk.

Definition enc_ob (b : ob) : sx :=
  match b with
  | BHand lo ls pr => L [A 1; A lo; A ls; A pr]
  | BFail code => L [A 0; A code]
  | BSkip => L [A 9]
  | BRel => L [A 2]
  | BGot => L [A 3]
  | BPut ok => L [A 5; of_bool ok]
  | BFin k off ok => L [A 4; A k; A off; of_bool ok]
  | BPanic => L [A (-1)]
  | BJunk => L [A 99]
  end.

Definition dec_ob (s : sx) : ob :=
  match sx_Z (sx_nth s 0) with
  | 1 => BHand (sx_Z (sx_nth s 1)) (sx_Z (sx_nth s 2)) (sx_Z (sx_nth s 3))
  | 0 => BFail (sx_Z (sx_nth s 1))
  | 9 => BSkip
  | 2 => BRel
  | 3 => BGot
  | 5 => BPut (sx_bool (sx_nth s 1))
  | 4 => BFin (sx_Z (sx_nth s 1)) (sx_Z (sx_nth s 2)) (sx_bool (sx_nth s 3))
  | -1 => BPanic
  | _ => BJunk
  end.

(** the model's result as the harness would see it *)
Definition res_ob (c : acfg) (r : res) : ob :=
  match r with
  | RHanded o => BHand (o * c_sector c) (c_spb c * c_sector c) (o * c_sector c)
  | RMem => BHand (-1) (-1) (-1)
  | RUnavail => BFail 14
  | RAtFail => BFail 0
  | RSkip => BSkip
  | RRel => BRel
  | RGot => BGot
  | RPut ok => BPut ok
  | RFin k off => BFin k off true
  | RPanic => BPanic
  end.

(** ---- the model side ---- *)
Definition run_dev (c : acfg) (ops : list op) : list ob * list ob * (Z * Z * Z) :=
  let (a, rs) := exec c (init_a c) ops in
  if panicked rs then
    (map (res_ob c) rs, [], (Z.of_nat (length (a_blks a)), Z.of_nat (a_nfreed a), 1))
  else
    let (a', ds) := drain c (S (c_n c)) a in
    (map (res_ob c) rs, map (res_ob c) ds, (Z.of_nat (length (a_blks a')), Z.of_nat (a_nfreed a'), 1)).

Definition run_mem (c : acfg) (ops : list op) : list ob * list ob * (Z * Z * Z) :=
  let (a, rs) := exec_mem (c_spb c * c_sector c) (mkA [] [] [] 0) ops in
  (map (res_ob c) rs, [], (0, 0, 1)).

Definition enc_run (r : list ob * list ob * (Z * Z * Z)) : sx :=
  let '(os, ds, (x, y, z)) := r in
  L [L (map enc_ob os); L (map enc_ob ds); L [A x; A y; A z]].

Definition run04A (inp : sx) : sx :=
  let c := dec_cfg inp in
  if negb (wf_cfgb c) then L []
  else if dec_kind inp =? 0 then enc_run (run_dev c (dec_ops inp))
  else enc_run (run_mem c (dec_ops inp)).

(** ---- the monitor: the property as a check on the observations ----
    What it knows: the geometry (which byte ranges of the device are regions),
    the calls made, and for every call what came back.  A handle is LIVE from
    its hand-out until its owner has released it and every reader / writer
    obtained from it has been finished.  The region of a handle is where its
    bytes are actually read from (probe).
      1  a block is handed out on a region on which an earlier handle is live
      2  NewBlock fails otherwise than with UNAVAILABLE, or although some
         region of the device has no live handle
      3  at the end (drain): NewBlock fails although some region has no live
         handle (capacity lost), or still succeeds after n+1 calls (invented)
      4  NewBlockAtLocation succeeds although the location does not designate
         a region without live handle (or hands out another region), or fails
         although it does
      5  a block is handed out that is not at one of the device's regions, or
         whose reported location is not where its bytes are
      6  a call panics (use count under/overflow) although the caller kept the
         protocol
    The caller's protocol: Release() once per block by its owner; no Get/Put on
    a block its owner has released.  The monitor judges the calls before the
    first breach of this protocol (the hostile stream contains breaches; the
    model predicts the code's behaviour there, including its panics). *)
Record mh := mkMh { m_reg : Z; m_rel : bool; m_pins : nat }.
Record mst := mkM { ms_h : list mh; ms_p : list (nat * bool); ms_viol : list Z; ms_stop : bool }.

Definition zmem (x : Z) (l : list Z) : bool := existsb (Z.eqb x) l.
Definition bs_of (c : acfg) : Z := c_spb c * c_sector c.
Definition regions_b (c : acfg) : list Z :=
  map (fun i => Z.of_nat i * c_spb c * c_sector c) (seq 0 (c_n c)).

Definition mh_live (x : mh) : bool := negb (m_rel x) || (0 <? m_pins x)%nat.
Definition live_regs (m : mst) : list Z := map m_reg (filter mh_live (ms_h m)).
Definition all_live (c : acfg) (m : mst) : bool :=
  forallb (fun r => zmem r (live_regs m)) (regions_b c).

Definition add_viol (m : mst) (v : list Z) : mst := mkM (ms_h m) (ms_p m) (ms_viol m ++ v) (ms_stop m).
Definition stopped (m : mst) : mst := mkM (ms_h m) (ms_p m) (ms_viol m) true.
Definition set_hs (m : mst) (hs : list mh) : mst := mkM hs (ms_p m) (ms_viol m) (ms_stop m).
Definition set_ps (m : mst) (ps : list (nat * bool)) : mst := mkM (ms_h m) ps (ms_viol m) (ms_stop m).

Definition mon_hand (c : acfg) (m : mst) (lo ls pr : Z) : mst :=
  let v1 := if zmem pr (live_regs m) then [1] else [] in
  let v5 := if zmem pr (regions_b c) && (lo =? pr) && (ls =? bs_of c) then [] else [5] in
  mkM (ms_h m ++ [mkMh pr false 0]) (ms_p m) (ms_viol m ++ v1 ++ v5) (ms_stop m).

Definition mh_rel (x : mh) : mh := mkMh (m_reg x) true (m_pins x).
Definition mh_pin (x : mh) : mh := mkMh (m_reg x) (m_rel x) (S (m_pins x)).
Definition mh_unpin (x : mh) : mh := mkMh (m_reg x) (m_rel x) (pred (m_pins x)).

(** a call on handle [h] that needs the owner's reference *)
Definition on_owned (m : mst) (h : nat) (b : ob) (k : mst) : mst :=
  match nth_error (ms_h m) h with
  | None => m
  | Some x =>
      if m_rel x then stopped m
      else match b with
           | BPanic => stopped (add_viol m [6])
           | _ => k
           end
  end.

Definition mon_step (c : acfg) (cl2 : Z) (m : mst) (ob' : op * ob) : mst :=
  let (o, b) := ob' in
  if ms_stop m then m else
  match o with
  | ONew =>
      match b with
      | BHand lo ls pr => mon_hand c m lo ls pr
      | BFail code => add_viol m (if (code =? 14) && all_live c m then [] else [cl2])
      | BPanic => stopped (add_viol m [6])
      | _ => m
      end
  | OAt off size wo =>
      let want := zmem off (regions_b c) && (size =? bs_of c) && negb (zmem off (live_regs m)) in
      match b with
      | BHand lo ls pr => mon_hand c (add_viol m (if want && (pr =? off) then [] else [4])) lo ls pr
      | BFail _ => add_viol m (if want then [4] else [])
      | BPanic => stopped (add_viol m [6])
      | _ => m
      end
  | ORel h => on_owned m h b (set_hs m (upd h mh_rel (ms_h m)))
  | OGet h =>
      on_owned m h b (mkM (upd h mh_pin (ms_h m)) (ms_p m ++ [(h, true)]) (ms_viol m) (ms_stop m))
  | OPut h size =>
      match b with
      | BPut true | BPanic =>
          on_owned m h b (mkM (upd h mh_pin (ms_h m)) (ms_p m ++ [(h, true)]) (ms_viol m) (ms_stop m))
      | _ => m
      end
  | OFin p =>
      match nth_error (ms_p m) p with
      | Some (h, true) =>
          match b with
          | BPanic => stopped (add_viol m [6])
          | _ => mkM (upd h mh_unpin (ms_h m)) (upd p (fun q => (fst q, false)) (ms_p m))
                     (ms_viol m) (ms_stop m)
          end
      | _ => m
      end
  | OBad => m
  end.

Definition mon_init : mst := mkM [] [] [] false.

Definition is_fail (b : ob) : bool := match b with BFail _ => true | _ => false end.

Definition mon_dev (c : acfg) (ops : list op) (os ds : list ob) : list Z :=
  let m1 := fold_left (mon_step c 2) (combine ops os) mon_init in
  let m2 := fold_left (mon_step c 3) (combine (repeat ONew (length ds)) ds) m1 in
  let v := if ms_stop m2 then [] else if is_fail (last ds BJunk) then [] else [3] in
  ms_viol m2 ++ v.

Definition mon_mem_step (ob' : op * ob) : list Z :=
  let (o, b) := ob' in
  match b with
  | BPanic => [6]
  | _ => match o, b with
         | ONew, BFail _ => [2]
         | OAt _ _ _, BHand _ _ _ => [4]
         | _, _ => []
         end
  end.

Definition mon_mem (ops : list op) (os : list ob) (intact : Z) : list Z :=
  flat_map mon_mem_step (combine ops os) ++ (if intact =? 0 then [1] else []).

Definition canon (v : list Z) : list Z := filter (fun c => zmem c v) [1; 2; 3; 4; 5; 6].

Definition mon04A (inp obs : sx) : list Z :=
  let c := dec_cfg inp in
  if negb (wf_cfgb c) then []
  else
    let os := map dec_ob (sx_list (sx_nth obs 0)) in
    let ds := map dec_ob (sx_list (sx_nth obs 1)) in
    if dec_kind inp =? 0 then canon (mon_dev c (dec_ops inp) os ds)
    else canon (mon_mem (dec_ops inp) os (sx_Z (sx_nth (sx_nth obs 2) 2))).

Definition judge04A (inp obs : sx) : sx :=
  let m := run04A inp in
  let v := mon04A inp obs in
  verdict (sx_eqb m obs) (negb (match v with [] => true | _ => false end)) m (of_Zs v).
