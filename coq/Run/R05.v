(** C05 monitor: an object just read or reported present survives
    old_blocks more block allocations; an immediate repeat writes nothing.

    Retention is split by the moment at which the touch is stamped with the
    push-back count:
    - clause 1 (proved for the model, all schedules: Store/P05*.v): the
      stamp is taken when the object was actually placed - Get: when the
      reader was obtained (OGetOpen parks); single-digest FindMissing: at
      return; multi-digest FindMissing: at the START of the call (the bound
      reduced by the push-backs performed inside the call);
    - clause 5 (finding F10): a loss that violates only the LATE stamp of a
      Get (taken when the reader is consumed: a reader held open across
      rotations);
    - clause 6 (finding F11): a loss within c_old push-backs of the RETURN of
      a multi-digest FindMissing, but outside the reduced bound (refreshes
      for later digests of the call age the earlier ones).
    Clauses 2/3/4: an immediately repeated Get / single-digest FindMissing /
    multi-digest FindMissing writes data (4 = finding F8).  Clause 7 (finding
    F12): the repeated Get writes data and blocks were allocated while the
    first Get's reader was open (same mechanism as F10: the object is placed
    when the reader is obtained, and has aged again by the time the read
    completes). *)
From BBS Require Import Common.Sx Store.Model Run.RStore Run.R01.
Open Scope Z_scope.

Record m05 := {
  t_gets : list (nat * ((nat * nat) * nat));   (* tid -> (obj, inst), push-backs when the reader was obtained *)
  t_touched : list ((nat * nat) * nat);        (* (obj, inst), early stamp: clause 1 *)
  t_late_get : list ((nat * nat) * nat);       (* Get, stamp at consumption: clause 5 *)
  t_late_fm : list ((nat * nat) * nat);        (* multi-digest FindMissing, stamp at return: clause 6 *)
  t_corrupt : bool;
  t_prev : option (op * bool * Z);             (* previous complete operation: op, succeeded, writes *)
  t_viol : list Z;
}.

Definition same_key (w : world) (a b : nat * nat) : bool :=
  Nat.eqb (fst a) (fst b) &&
  (if c_hier (w_cfg w) || c_inst_keys (w_cfg w) then Nat.eqb (snd a) (snd b) else true).

(** touched (under the same key) at most c_old push-backs ago *)
Definition recent (w : world) (l : list ((nat * nat) * nat)) (oi : nat * nat) (pb : nat) : bool :=
  existsb (fun '(k, pb0) => same_key w k oi && Nat.leb (pb - pb0) (c_old (w_cfg w))) l.

(** clauses violated by the loss of [oi] observed at push-back count [pb] *)
Definition loss_clauses (w : world) (m : m05) (oi : nat * nat) (pb : nat) : list Z :=
  if t_corrupt m then []
  else if recent w (t_touched m) oi pb then [1]
  else (if recent w (t_late_get m) oi pb then [5] else []) ++
       (if recent w (t_late_fm m) oi pb then [6] else []).

Definition m_setgets (m : m05) (g : list (nat * ((nat * nat) * nat))) : m05 :=
  {| t_gets := g; t_touched := t_touched m; t_late_get := t_late_get m; t_late_fm := t_late_fm m;
     t_corrupt := t_corrupt m; t_prev := t_prev m; t_viol := t_viol m |}.
Definition m_touch (m : m05) (oi : nat * nat) (pb : nat) : m05 :=
  {| t_gets := t_gets m; t_touched := (oi, pb) :: t_touched m; t_late_get := t_late_get m;
     t_late_fm := t_late_fm m; t_corrupt := t_corrupt m; t_prev := t_prev m; t_viol := t_viol m |}.
Definition m_late_get (m : m05) (oi : nat * nat) (pb : nat) : m05 :=
  {| t_gets := t_gets m; t_touched := t_touched m; t_late_get := (oi, pb) :: t_late_get m;
     t_late_fm := t_late_fm m; t_corrupt := t_corrupt m; t_prev := t_prev m; t_viol := t_viol m |}.
Definition m_late_fm (m : m05) (oi : nat * nat) (pb : nat) : m05 :=
  {| t_gets := t_gets m; t_touched := t_touched m; t_late_get := t_late_get m;
     t_late_fm := (oi, pb) :: t_late_fm m; t_corrupt := t_corrupt m; t_prev := t_prev m; t_viol := t_viol m |}.
Definition m_viol (m : m05) (v : list Z) : m05 :=
  {| t_gets := t_gets m; t_touched := t_touched m; t_late_get := t_late_get m; t_late_fm := t_late_fm m;
     t_corrupt := t_corrupt m; t_prev := t_prev m; t_viol := t_viol m ++ v |}.
Definition m_setprev (m : m05) (p : option (op * bool * Z)) : m05 :=
  {| t_gets := t_gets m; t_touched := t_touched m; t_late_get := t_late_get m; t_late_fm := t_late_fm m;
     t_corrupt := t_corrupt m; t_prev := p; t_viol := t_viol m |}.
Definition m_setcorrupt (m : m05) : m05 :=
  {| t_gets := t_gets m; t_touched := t_touched m; t_late_get := t_late_get m; t_late_fm := t_late_fm m;
     t_corrupt := true; t_prev := None; t_viol := t_viol m |}.

(** the touches of a successful FindMissing: early stamp [pbe], return stamp [pb] *)
Definition m_touch_fm (multi : bool) (pbe pb : nat) (m : m05) (oi : nat * nat) : m05 :=
  let m1 := m_touch m oi pbe in if multi then m_late_fm m1 oi pb else m1.

Definition m05_step (w : world) (m : m05) (x : op * (state * state * out) * sx) : m05 :=
  let '(e, (s0, s1, mo), o) := x in
  let pb := s_pushbacks s1 in
  match e with
  | OGetOpen tid ob i =>
      if Z.eqb (ob_kind o) 1 then
        m_setprev (m_setgets m ((tid, ((ob, i), pb)) :: t_gets m))
                  (match t_prev m with
                   | Some (OGetOpen _ ob' i', true, pbo) =>
                       if Nat.eqb ob ob' && Nat.eqb i i' && (0 <=? ob_writes o)
                       then (* blocks allocated while the first Get's reader was open have aged
                               the object since it was placed: the repeat is judged by clause 7 *)
                            Some (OGetOpen tid ob i, false,
                                  if pbo <? Z.of_nat (s_pushbacks s0) then - (1 + ob_writes o) else ob_writes o)
                       else None
                   | _ => None
                   end)
      else
        let m1 := if Z.eqb (ob_code o) cNotFound then m_viol m (loss_clauses w m (ob, i) pb) else m in
        m_setprev m1 None
  | OGetConsume tid =>
      match assoc (t_gets m) tid with
      | Some (oi, pb_open) =>
          let m1 := m_setgets m (unassoc (t_gets m) tid) in
          (* repeat: previous op was GetOpen of the same object marked "repeat of a successful Get" *)
          let m2 := match t_prev m with
                    | Some (OGetOpen tid' _ _, false, w0) =>
                        let aged := w0 <? 0 in
                        let w0' := if aged then - (1 + w0) else w0 in
                        if Nat.eqb tid tid' && ob_ok o && (0 <=? ob_writes o) && (0 <? w0' + ob_writes o)
                        then m_viol m1 [if aged then 7 else 2] else m1
                    | _ => m1
                    end in
          if ob_ok o then m_setprev (m_late_get (m_touch m2 oi pb_open) oi pb)
                                    (Some (OGetOpen tid (fst oi) (snd oi), true, Z.of_nat pb_open))
          else m_setprev m2 None
      | None => m_setprev m None
      end
  | OFindMissing ds =>
      if Z.eqb (ob_kind o) 2 && Z.eqb (ob_code o) 0 then
        let missing := sx_nats (sx_nth o 2) in
        let numbered := enumerate 0 ds in
        let lost := flat_map (fun '(pos, oi) => if existsb (Nat.eqb pos) missing
                                                then loss_clauses w m oi pb else []) numbered in
        let m1 := m_viol m lost in
        let m2 := match t_prev m with
                  | Some (OFindMissing ds', true, _) =>
                      if sx_eqb (of_nats (map fst ds ++ map snd ds)) (of_nats (map fst ds' ++ map snd ds'))
                         && (0 <? ob_writes o)
                      then (* 3: at most one digest present; 4: several present digests (their
                              refreshes can age one another inside one call: finding F8) *)
                           m_viol m1 [if Nat.leb (length ds - length missing) 1 then 3 else 4]
                      else m1
                  | _ => m1
                  end in
        let multi := Nat.ltb 1 (length ds) in
        let pbe := if multi then s_pushbacks s0 else pb in
        let m3 := fold_left (fun acc '(pos, oi) =>
                               if existsb (Nat.eqb pos) missing then acc else m_touch_fm multi pbe pb acc oi)
                            numbered m2 in
        m_setprev m3 (Some (OFindMissing ds, true, 0))
      else m_setprev m None
  | OCorrupt _ _ _ => m_setcorrupt m
  | _ => if Z.eqb (ob_kind o) 3 then m else m_setprev m None
  end.

Definition m05_init : m05 :=
  {| t_gets := []; t_touched := []; t_late_get := []; t_late_fm := []; t_corrupt := false;
     t_prev := None; t_viol := [] |}.

Definition mon05 (inp obs : sx) : list Z :=
  let w := dec_world inp in
  let es := dec_ops inp in
  let sts := run_states w (init_state (w_cfg w)) es in
  dedupZ (t_viol (fold_left (m05_step w) (combine (combine es sts) (sx_list obs)) m05_init)).

(** ---- the second half of the property on the model: "did this step write
    object data into the store?" ----

    The store model has no write counter; what it exposes is the allocation
    cursor of every listed block (LocationBlobMap.Put advances it by the size
    of the object) and the pending refresh copy of a parked reader.  A
    refresh is the only way in which a Get or a FindMissing allocates, so
    "some listed block's cursor is not what it was before the step" is
    "space for a copy of the object was allocated in this step".

    [alloc_grew s0 s1]: some block listed in [s1] has a non-zero cursor that
    is not the cursor of the same block (same uid) in [s0]. *)
Definition blk_sig_in (l : list block) (b : block) : bool :=
  existsb (fun b0 => Nat.eqb (b_uid b0) (b_uid b) && N.eqb (b_cursor b0) (b_cursor b)) l.
Definition alloc_grew (s0 s1 : state) : bool :=
  negb (forallb (fun b => N.eqb (b_cursor b) 0%N || blk_sig_in (s_blocks s0) b) (s_blocks s1)).

(** the parked reader [tid] carries a refresh copy that is still to be made *)
Definition pending_refresh (s : state) (tid : nat) : bool :=
  match thr_get (s_threads s) tid with
  | Some (TGet _ _ _ (Some _) _) => true
  | _ => false
  end.

(** [wrote w s0 e s1]: the step [e] from [s0] to [s1] copied object data into
    the store.
    - OGetOpen: space was allocated and the copy was made at once (foreground
      copy: raw factory / in-memory blocks); with a validating factory the
      copy runs in lock step with the consumer: the allocation leaves a
      pending refresh and the bytes are written by the OGetConsume step;
    - OGetConsume: the reader carried a pending refresh and the data read was
      valid (no negative verdict in this step): the copy was written;
    - OFindMissing: space was allocated (the copies are made inside the call).
    A Get as a whole wrote iff its open or its consume step did. *)
Definition wrote (w : world) (s0 : state) (e : op) (s1 : state) : bool :=
  match e with
  | OGetOpen tid _ _ => alloc_grew s0 s1 && negb (pending_refresh s1 tid)
  | OGetConsume tid => pending_refresh s0 tid && Nat.eqb (s_negs s1) (s_negs s0)
  | OFindMissing _ => alloc_grew s0 s1
  | _ => false
  end.

(** the model's observation with the model's own write indication in the
    last field (1 = wrote, 0 = did not), for every configuration *)
Definition enc_obs05 (w : world) (e : op) (s0 s1 : state) (o : out) : sx :=
  let c := w_cfg w in
  let bd := negb (in_memory c) in
  let tail := [of_nat (s_negs s1 - s_negs s0);
               if bd then of_nat (live_blocks s1) else A (-1);
               if bd then of_nat (open_readers s1) else A (-1);
               if completes_put e o then A 1 else A (-1);
               A (if wrote w s0 e s1 then 1 else 0)] in
  match o with
  | Done code bytes => L ([A 0; A code; of_Ns bytes] ++ tail)
  | Parked => L ([A 1; A 0; L []] ++ tail)
  | Missing code ds => L ([A 2; A code; of_nats ds] ++ tail)
  | Bad => L [A 3]
  end.

Definition run05 (inp : sx) : sx :=
  let w := dec_world inp in
  let es := dec_ops inp in
  L (map (fun '(e, (s0, s1, o)) => enc_obs05 w e s0 s1 o)
         (combine es (run_states w (init_state (w_cfg w)) es))).

(** Agreement on the write count (block-device configurations; the in-memory
    allocator has no device): on every Get-open, Get-consume and FindMissing
    step the implementation performed a device write iff the model [wrote].
    Not compared:
    - steps that touch an EMPTY object: a refresh of an empty object copies no
      data (the model's cursor does not move) but the sector-granular
      allocator of the implementation rewrites the image of the sector that
      the zero-length allocation shares with its neighbours - a device write
      without object data, for which the byte-granular model has no
      counterpart;
    - events the model answers [Bad] (not executed by the harness). *)
Definition touches_empty (w : world) (s0 : state) (e : op) : bool :=
  match e with
  | OGetOpen _ o _ => N.eqb (osize w o) 0%N
  | OGetConsume tid =>
      match thr_get (s_threads s0) tid with
      | Some (TGet o _ _ _ _) => N.eqb (osize w o) 0%N
      | _ => false
      end
  | OFindMissing ds => existsb (fun d => N.eqb (osize w (fst d)) 0%N) ds
  | _ => false
  end.

Definition writes_agree (w : world) (x : op * (state * state * out)) (o : sx) : bool :=
  let '(e, (s0, s1, mo)) := x in
  if in_memory (w_cfg w) then true else
  match mo with
  | Bad => true
  | _ =>
      match e with
      | OGetOpen _ _ _ | OGetConsume _ | OFindMissing _ =>
          touches_empty w s0 e || Bool.eqb (0 <? ob_writes o) (wrote w s0 e s1)
      | _ => true
      end
  end.

Fixpoint all2w (w : world) (xs : list (op * (state * state * out))) (os : list sx) : bool :=
  match xs, os with
  | x :: xs', o :: os' => writes_agree w x o && all2w w xs' os'
  | _, _ => true       (* a length mismatch is reported by [all2b obs_agree] *)
  end.

(** C05's judge: the shared store agreement (fields 0-6) AND agreement of the
    device write count with the model's [wrote]; the model output shown to the
    driver carries the model's write indication in the last field. *)
Definition judge05 (inp obs : sx) : sx :=
  let w := dec_world inp in
  let es := dec_ops inp in
  let m := run05 inp in
  let v := mon05 inp obs in
  verdict (all2b obs_agree (sx_list m) (sx_list obs)
           && all2w w (combine es (run_states w (init_state (w_cfg w)) es)) (sx_list obs))
          (negb (match v with [] => true | _ => false end)) m (of_Zs v).
