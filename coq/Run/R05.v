(** C05 monitor: an object just read or reported present survives
    old_blocks more block allocations; an immediate repeat writes nothing. *)
From BBS Require Import Common.Sx Store.Model Run.RStore Run.R01.
Open Scope Z_scope.

Record m05 := {
  t_gets : list (nat * (nat * nat));
  t_touched : list ((nat * nat) * nat);   (* (obj, inst) -> pushbacks at the time of the touch *)
  t_corrupt : bool;
  t_prev : option (op * bool * Z);        (* previous complete operation: op, succeeded, writes *)
  t_viol : list Z;
}.

Definition same_key (w : world) (a b : nat * nat) : bool :=
  Nat.eqb (fst a) (fst b) &&
  (if c_hier (w_cfg w) || c_inst_keys (w_cfg w) then Nat.eqb (snd a) (snd b) else true).

Definition lost_too_early (w : world) (m : m05) (oi : nat * nat) (pb : nat) : bool :=
  negb (t_corrupt m) &&
  existsb (fun '(k, pb0) => same_key w k oi && Nat.leb (pb - pb0) (c_old (w_cfg w))) (t_touched m).

Definition m05_step (w : world) (m : m05) (x : op * (state * state * out) * sx) : m05 :=
  let '(e, (s0, s1, mo), o) := x in
  let pb := s_pushbacks s1 in
  let touch (m : m05) (oi : nat * nat) : m05 :=
    {| t_gets := t_gets m; t_touched := (oi, pb) :: t_touched m; t_corrupt := t_corrupt m;
       t_prev := t_prev m; t_viol := t_viol m |} in
  let viol (m : m05) (v : list Z) : m05 :=
    {| t_gets := t_gets m; t_touched := t_touched m; t_corrupt := t_corrupt m;
       t_prev := t_prev m; t_viol := t_viol m ++ v |} in
  let setprev (m : m05) (p : option (op * bool * Z)) : m05 :=
    {| t_gets := t_gets m; t_touched := t_touched m; t_corrupt := t_corrupt m;
       t_prev := p; t_viol := t_viol m |} in
  match e with
  | OGetOpen tid ob i =>
      if Z.eqb (ob_kind o) 1 then
        setprev {| t_gets := (tid, (ob, i)) :: t_gets m; t_touched := t_touched m; t_corrupt := t_corrupt m;
                   t_prev := t_prev m; t_viol := t_viol m |}
                (match t_prev m with
                 | Some (OGetOpen _ ob' i', true, _) =>
                     if Nat.eqb ob ob' && Nat.eqb i i' then Some (OGetOpen tid ob i, false, ob_writes o) else None
                 | _ => None
                 end)
      else
        let m1 := if Z.eqb (ob_code o) cNotFound && lost_too_early w m (ob, i) pb then viol m [1] else m in
        setprev m1 None
  | OGetConsume tid =>
      match assoc (t_gets m) tid with
      | Some oi =>
          let m1 := {| t_gets := unassoc (t_gets m) tid; t_touched := t_touched m; t_corrupt := t_corrupt m;
                       t_prev := t_prev m; t_viol := t_viol m |} in
          (* repeat: previous op was GetOpen of the same object marked "repeat of a successful Get" *)
          let m2 := match t_prev m with
                    | Some (OGetOpen tid' _ _, false, w0) =>
                        if Nat.eqb tid tid' && ob_ok o && (0 <=? ob_writes o) && (0 <? w0 + ob_writes o)
                        then viol m1 [2] else m1
                    | _ => m1
                    end in
          if ob_ok o then setprev (touch m2 oi) (Some (OGetOpen tid (fst oi) (snd oi), true, 0))
          else setprev m2 None
      | None => setprev m None
      end
  | OFindMissing ds =>
      if Z.eqb (ob_kind o) 2 && Z.eqb (ob_code o) 0 then
        let missing := sx_nats (sx_nth o 2) in
        let numbered := enumerate 0 ds in
        let lost := existsb (fun '(pos, oi) => existsb (Nat.eqb pos) missing && lost_too_early w m oi pb) numbered in
        let m1 := if lost then viol m [1] else m in
        let m2 := match t_prev m with
                  | Some (OFindMissing ds', true, _) =>
                      if sx_eqb (of_nats (map fst ds ++ map snd ds)) (of_nats (map fst ds' ++ map snd ds'))
                         && (0 <? ob_writes o)
                      then (* 3: at most one digest present; 4: several present digests (their
                              refreshes can age one another inside one call: finding F8) *)
                           viol m1 [if Nat.leb (length ds - length missing) 1 then 3 else 4]
                      else m1
                  | _ => m1
                  end in
        let m3 := fold_left (fun acc '(pos, oi) =>
                               if existsb (Nat.eqb pos) missing then acc else touch acc oi) numbered m2 in
        setprev m3 (Some (OFindMissing ds, true, 0))
      else setprev m None
  | OCorrupt _ _ _ =>
      {| t_gets := t_gets m; t_touched := t_touched m; t_corrupt := true; t_prev := None; t_viol := t_viol m |}
  | _ => if Z.eqb (ob_kind o) 3 then m else setprev m None
  end.

Definition mon05 (inp obs : sx) : list Z :=
  let w := dec_world inp in
  let es := dec_ops inp in
  let sts := run_states w (init_state (w_cfg w)) es in
  dedupZ (t_viol (fold_left (m05_step w) (combine (combine es sts) (sx_list obs))
                            {| t_gets := []; t_touched := []; t_corrupt := false; t_prev := None; t_viol := [] |})).

Definition judge05 (inp obs : sx) : sx := judge_store mon05 inp obs.
