(** C16C: sub-check of C16 — STREAM CLONES of a buffer with an error handler.

    [WithErrorHandler(stream, h)] (a stack of 1-3 handlers) is CloneStream()ed,
    also repeatedly (clone of a clone: 2-4 handles); every handle is consumed by
    its own goroutine (ToByteSlice, IntoWriter, ToChunkReader, ToReader) or
    discarded.  casErrorHandlingBuffer.CloneStream stacks the multiplexer
    (casClonedBuffer) ON TOP of the one error-handling buffer, so there is ONE
    consumer of the error-handled buffer:
      - some handle consumes: [ToChunkReader(0, c)] of the error-handled buffer,
        c = the smallest maximum chunk size any handle asked for (64 KiB for
        everything but ToChunkReader; Discard registers with 64 KiB too), read
        to its end (EOF or error) and closed;
      - every handle is discarded: [toUnvalidatedChunkReader(0, 64 KiB).Close()],
        which is observed exactly like [Discard()].
    The model is therefore C16's model of that single consumer ([run16] on the
    inner case with the method replaced, [base_inp]) composed with the clone
    semantics: every consuming handle sees the SAME stream (D, E) — all of D,
    then E — through its own method.

    input  = (splits (method ...) order inner)
      splits  (i ...)      handles = [b]; for every i: (x, y) := handles[i mod n].CloneStream();
                           handles[i mod n] := x; handles := handles ++ [y]
      method  one per handle, C09's encoding: (0 max) ToByteSlice | (1) IntoWriter
              | (3 off max 0) ToChunkReader | (4 caps 0) ToReader | (6) Discard
      order   the order in which the goroutines of the handles are started
              (each one parked in the multiplexer's registration before the next
              starts); the model does not depend on it
      inner   a C16 input (Run/R16.v); its method field is not used
    obs    = (((code bytes) per handle) (callback verdicts)
              ((OnError argument codes) per level) (Done-count per level)
              (Close() count per scripted source, creation order))   |  (-2) a hang *)
From Coq Require Import List ZArith NArith Bool.
From BBS Require Import Common.Sx Buffer.Source Buffer.Validate Buffer.Convert Buffer.ErrHandler Run.R09 Run.R16.
Import ListNotations.
Open Scope Z_scope.

Definition splits16C (inp : sx) : sx := sx_nth inp 0.
Definition hmeths (inp : sx) : list meth := map dec_meth (sx_list (sx_nth inp 1)).
Definition inner16C (inp : sx) : sx := sx_nth inp 3.

(** the chunk size a handle registers with *)
Definition chunk_of (m : meth) : N := match m with MToChunkReader _ c _ => c | _ => 65536%N end.
Definition min_chunk (ms : list meth) : N := fold_right (fun m c => N.min (chunk_of m) c) 65536%N ms.

Definition set_meth (inner m : sx) : sx :=
  L [sx_nth inner 0; sx_nth inner 1; sx_nth inner 2; sx_nth inner 3; m; sx_nth inner 5].
(** the single consumer of the error-handled buffer *)
Definition base_meth (ms : list meth) : sx :=
  if forallb is_discard ms then L [A 6] else L [A 3; A 0; A (Z.of_N (min_chunk ms)); A 0].
Definition base_inp (inp : sx) : sx := set_meth (inner16C inp) (base_meth (hmeths inp)).

(** what a handle's own method makes of the shared stream: all of [D], then
    the terminator [E] (-1 = io.EOF) *)
Definition handle_res (m : meth) (D : bytes) (E : Z) : sx :=
  match m with
  | MDiscard => L [A 0; L []]
  | MToByteSlice _ => if E =? -1 then L [A 0; of_Ns D] else L [A E; L []]
  | MIntoWriter => L [A (if E =? -1 then 0 else E); of_Ns D]
  | MToChunkReader off _ _ => L [A E; of_Ns (dropN (Z.to_N off) D)]
  | _ => L [A E; of_Ns D]
  end.

Definition clone_obs (ms : list meth) (o : sx) : sx :=
  let D := dec_bytes (sx_nth o 0) in
  let E := sx_Z (sx_nth o 1) in
  L [L (map (fun m => handle_res m D E) ms); sx_nth o 3; sx_nth o 4; sx_nth o 5; sx_nth o 7].

Definition run16C (inp : sx) : sx := clone_obs (hmeths inp) (run16 (base_inp inp)).

(** * Monitor.  The property's promises are made to EVERY consumer: each
    consuming handle's view — its bytes and result, together with the
    handlers' logs and the sources' Close() counts — is judged by C16's
    monitor [mon16] as the view of a chunk-wise consumer at the handle's
    offset (the success code 0 of ToByteSlice / IntoWriter read as io.EOF).
      1, 8   Done exactly once (outermost / every level)
      9      every source closed exactly once
      10, 4  every I/O error offered once, in order, nothing invented
      2      a handler's error is what the consumer gets
      3, 7, 5  completion => exactly the expected slice of the stitched, valid
             object; whatever the outcome a prefix of it; an invalid object is
             not handed out in full
      11     all consuming handles agree: same result, same bytes
      12     malformed observation / a discarded handle that reports something *)
Definition view_meth (m : meth) : sx :=
  match m with
  | MToChunkReader off c _ => L [A 3; A off; A (Z.of_N c); A 0]
  | _ => L [A 3; A 0; A 1; A 0]
  end.
Definition view_code (m : meth) (code : Z) : Z :=
  match m with
  | MToByteSlice _ | MIntoWriter => if code =? 0 then -1 else code
  | _ => code
  end.
(** a failed ToByteSlice does not show the bytes it has received *)
Definition hidden (m : meth) (code : Z) : bool :=
  match m with MToByteSlice _ => negb (code =? 0) | _ => false end.
Definition view_obs (obs : sx) (bytes : sx) (code : Z) : sx :=
  L [bytes; A code; L []; sx_nth obs 1; sx_nth obs 2; sx_nth obs 3; L []; sx_nth obs 4].

Definition res_code (r : sx) : Z := sx_Z (sx_nth r 0).
Definition res_bytes (r : sx) : sx := sx_nth r 1.

Definition mon_handle (inner obs : sx) (m : meth) (r : sx) : list Z :=
  if is_discard m then
    (if (res_code r =? 0) && sx_eqb (res_bytes r) (L []) then [] else [12])
  else mon16 (set_meth inner (view_meth m)) (view_obs obs (res_bytes r) (view_code m (res_code r))).

Fixpoint mon_handles (inner obs : sx) (ms : list meth) (rs : list sx) : list Z :=
  match ms, rs with
  | [], [] => []
  | m :: ms', r :: rs' => mon_handle inner obs m r ++ mon_handles inner obs ms' rs'
  | _, _ => [12]
  end.

(** the reference view: the first consuming handle at offset 0 that shows its bytes *)
Definition m_off0 (m : meth) : bool := match m with MToChunkReader off _ _ => off =? 0 | _ => true end.
Fixpoint reference (ms : list meth) (rs : list sx) : option bytes :=
  match ms, rs with
  | m :: ms', r :: rs' =>
      if negb (is_discard m) && m_off0 m && negb (hidden m (res_code r)) then Some (dec_bytes (res_bytes r))
      else reference ms' rs'
  | _, _ => None
  end.
Fixpoint first_code (ms : list meth) (rs : list sx) : option Z :=
  match ms, rs with
  | m :: ms', r :: rs' => if is_discard m then first_code ms' rs' else Some (view_code m (res_code r))
  | _, _ => None
  end.
Fixpoint agree_handles (code : Z) (ref : option bytes) (ms : list meth) (rs : list sx) : bool :=
  match ms, rs with
  | m :: ms', r :: rs' =>
      (is_discard m
       || ((view_code m (res_code r) =? code)
           && match ref with
              | Some D => hidden m (res_code r)
                          || bytes_eqb (dec_bytes (res_bytes r)) (dropN (Z.to_N (m_off m)) D)
              | None => true
              end))
      && agree_handles code ref ms' rs'
  | _, _ => true
  end.
Definition clause11 (ms : list meth) (rs : list sx) : bool :=
  match first_code ms rs with
  | Some c => agree_handles c (reference ms rs) ms rs
  | None => true
  end.

Definition mon16C_raw (inp obs : sx) : list Z :=
  let ms := hmeths inp in
  let rs := sx_list (sx_nth obs 0) in
  let inner := inner16C inp in
  (if forallb is_discard ms
   then mon16 (set_meth inner (L [A 6])) (view_obs obs (L []) 0)
   else []) ++
  mon_handles inner obs ms rs ++
  (if clause11 ms rs then [] else [11]).
Definition mon16C (inp obs : sx) : list Z := nodup Z.eq_dec (mon16C_raw inp obs).

(** The pristine code is deterministic at the level of the observation (one
    reader of the error-handled buffer, the multiplexer hands every chunk and
    the terminator to every handle): the set of allowed observations is the
    singleton of the model's. *)
Definition judge16C (inp obs : sx) : sx :=
  let m := run16C inp in
  let v := mon16C inp obs in
  verdict (sx_eqb m obs) (negb (match v with [] => true | _ => false end)) m (of_Zs v).
