(** C07, "the monitor is silent on the model" — part 5: coverage bookkeeping
    on the block list (clauses 4, 5, 6).

    Every acknowledged upload [k] of the monitor is paired with a ghost record
    [gack]: the tracked object of Persist/LiveCover.v, its level (0 = written,
    1 = a started sync covers it, 2 = a completed sync covers it) and the number
    of epochs PopFront removed since.  [ack_ok] adds to [tracked] the NEGATIVE
    information clause 6 needs (below level 2 the object's epoch is not among
    the synchronized ones) and the epoch ID the monitor saw.  [ack_ok_act]:
    every block-list call preserves it.  [okw_at_issue]: the state taken by
    GetPersistentState covers exactly the level-2 objects, in the monitor's own
    terms ([covers], [covers_epoch] on the encoded content). *)
From Coq Require Import List NArith ZArith Bool Arith Lia.
From BBS Require Import Common.Sx Persist.PBL Persist.PBLProofs Persist.Syncer Persist.SyncerProofs
  Persist.LiveActs Persist.LiveCover Persist.LiveRelease Run.R07 Run.R07MonBase.
Import ListNotations.
Local Open Scope nat_scope.

(** ---- uint32 arithmetic of epoch IDs ---- *)
Definition M32 : N := (2 ^ 32)%N.
Lemma M32_nz : M32 <> 0%N. Proof. unfold M32. discriminate. Qed.

Lemma u32_idem_l a b : u32 (u32 a + b) = u32 (a + b).
Proof. unfold u32. fold M32. apply N.add_mod_idemp_l. apply M32_nz. Qed.

Lemma u32_pop o ec x : ec <= x ->
  u32 (u32 (o + N.of_nat ec) + N.of_nat (x - ec)) = u32 (o + N.of_nat x).
Proof. intros H. rewrite u32_idem_l. f_equal. lia. Qed.

(** the monitor's epoch-distance computation *)
Lemma ce_dist oc X : N.modulo (u32 (oc + X) + M32 - N.modulo oc M32) M32 = N.modulo X M32.
Proof.
  pose proof M32_nz as Hnz. unfold u32. fold M32.
  set (r := N.modulo oc M32). set (s := N.modulo (oc + X) M32).
  assert (Hr : (r < M32)%N) by (apply N.mod_lt; exact Hnz).
  assert (Hs : s = N.modulo (X + r) M32).
  { unfold s, r. rewrite N.add_mod_idemp_r by exact Hnz. f_equal. lia. }
  set (A := (s + M32 - r)%N).
  assert (HA : (A + r = s + M32)%N) by (unfold A; lia).
  assert (H1 : N.modulo (A + r + (M32 - r)) M32 = N.modulo A M32).
  { replace (A + r + (M32 - r))%N with (A + 1 * M32)%N by lia. apply N.mod_add. exact Hnz. }
  rewrite <- H1, HA.
  replace (s + M32 + (M32 - r))%N with (s + (M32 - r) + 1 * M32)%N by lia.
  rewrite N.mod_add by exact Hnz. rewrite Hs, N.add_mod_idemp_l by exact Hnz.
  replace (X + r + (M32 - r))%N with (X + 1 * M32)%N by lia. apply N.mod_add. exact Hnz.
Qed.

(** ---- the encoded state file content ---- *)
Definition enc_st (st : pstate) : sx := L [of_N (fst st); L (map enc_bstate (snd st))].
Definition st_nseeds (st : pstate) : nat := length (concat (map bs_seeds (snd st))).

Lemma content_nseeds_enc st : content_nseeds (enc_st st) = st_nseeds st.
Proof.
  unfold content_nseeds, enc_st, st_nseeds.
  change (sx_list (sx_nth (L [of_N (fst st); L (map enc_bstate (snd st))]) 1)) with (map enc_bstate (snd st)).
  induction (snd st) as [|b r IH]; [reflexivity|].
  cbn [map fold_right concat]. rewrite app_length, IH. f_equal.
  unfold enc_bstate, of_Ns. cbn. apply map_length.
Qed.

Lemma covers_epoch_enc st e :
  covers_epoch (enc_st st) e =
  (N.modulo (e + M32 - N.modulo (fst st) M32) M32 <? N.of_nat (st_nseeds st))%N.
Proof.
  unfold covers_epoch. rewrite content_nseeds_enc.
  change (sx_N (sx_nth (enc_st st) 0)) with (sx_N (of_N (fst st))). rewrite sx_N_of_N. reflexivity.
Qed.

Lemma covers_off_enc st lo en :
  covers_off (enc_st st) lo en = existsb (fun b => Z.eqb (fst (bs_loc b)) lo && (en <=? bs_off b)%Z) (snd st).
Proof.
  unfold covers_off, enc_st.
  change (sx_list (sx_nth (L [of_N (fst st); L (map enc_bstate (snd st))]) 1)) with (map enc_bstate (snd st)).
  induction (snd st) as [|b r IH]; [reflexivity|]. cbn [map existsb]. rewrite IH. reflexivity.
Qed.

(** ---- ghost record of an acknowledged upload ---- *)
Record gack := mkG { g_o : obj; g_lv : nat; g_d : nat }.

Definition ntracked (o : obj) (lv d : nat) (p : pbl) : Prop :=
  (lv < 1 -> synchronizingEpochs p <= o_epoch o - d) /\ (lv < 2 -> synchronizedEpochs p <= o_epoch o - d).

Definition ack_ok (p : pbl) (k : ack) (g : gack) : Prop :=
  o_end (g_o g) = k_end k /\ fst (o_loc (g_o g)) = k_loc k /\ g_lv g <= 2 /\
  tracked (g_o g) (g_lv g) (g_d g) p /\
  (totalReleased p <= o_block (g_o g) ->
     ntracked (g_o g) (g_lv g) (g_d g) p /\
     k_epoch k = u32 (oldestEpochID p + N.of_nat (o_epoch (g_o g) - g_d g))).

Definition g_next (a : act) (p : pbl) (g : gack) : gack :=
  mkG (g_o g) (lv_next (g_lv g) a) (g_d g + popc a p).

Lemma lv_next_le lv a : lv <= 2 -> lv_next lv a <= 2.
Proof. intros H. destruct a as [| | | | |[]| |]; unfold lv_next; try lia; destruct lv; lia. Qed.

(** what a call does to the fields the negative part mentions *)
Definition sfields (p : pbl) := (synchronizingEpochs p, synchronizedEpochs p, oldestEpochID p, totalReleased p).

Lemma push_sfields al p : sfields (fst (push_back al p)) = sfields p.
Proof. unfold push_back. destruct (closedForWriting p); [reflexivity|]. destruct al; reflexivity. Qed.

Lemma fin_sfields tok blk size seed p p' fr : put_finalize tok blk size seed p = Ok (p', fr) -> sfields p' = sfields p.
Proof.
  intros Hf. destruct (fin_cases _ _ _ _ _ _ _ Hf) as [[-> _]|
    (abs & off & bumped & _ & _ & _ & _ & _ & _ & _ & _ & _ & _ & Ft & Fsy & Fsd & _ & _ & _ & _ & Fo)]; [reflexivity|].
  unfold sfields. rewrite Ft, Fsy, Fsd, Fo. reflexivity.
Qed.

Lemma ack_ok_act a p p' k g : pbl_inv p -> inv_last p -> ack_ok p k g -> apply_act a p = Ok p' ->
  ack_ok p' k (g_next a p g).
Proof.
  intros I L [A1 [A2 [A3 [T N]]]] Ha. unfold ack_ok, g_next. cbn [g_o g_lv g_d].
  split; [exact A1|]. split; [exact A2|]. split; [apply lv_next_le; exact A3|].
  split; [eapply tracked_act; eauto|].
  intros Hge.
  assert (Hsame : sfields p' = sfields p -> lv_next (g_lv g) a = g_lv g -> popc a p = 0 ->
                  ntracked (g_o g) (lv_next (g_lv g) a) (g_d g + popc a p) p' /\
                  k_epoch k = u32 (oldestEpochID p' + N.of_nat (o_epoch (g_o g) - (g_d g + popc a p)))).
  { intros Hs Hl Hp. unfold sfields in Hs. inversion Hs as [[H1 H2 H3 H4]]. rewrite Hl, Hp, Nat.add_0_r.
    rewrite H4 in Hge. destruct (N Hge) as [[N1 N2] N3]. unfold ntracked. rewrite H1, H2, H3. auto. }
  destruct a as [|al| |tok blk size seed| |b|t|t]; cbn [apply_act] in Ha.
  - inversion Ha; subst. apply Hsame; reflexivity.
  - inversion Ha; subst. apply Hsame; [apply push_sfields|reflexivity|reflexivity].
  - (* PopFront *)
    destruct (blocks p) as [|fb rest] eqn:Eb; [unfold pop_front in Ha; rewrite Eb in Ha; discriminate|].
    destruct (pop_fields _ _ _ _ Eb Ha) as [Fb [Fs [Fl [Ft [Fsy [Fsd [_ [_ [_ [_ Fo]]]]]]]]]].
    cbn [popc lv_next]. rewrite Eb. rewrite Ft in Hge.
    destruct T as [T|[T1 [T2 [bb [la [TA [TB [TC [TD [TE [TF _]]]]]]]]]]]; [lia|].
    destruct (N T1) as [[N1 N2] N3].
    assert (b_epochs fb <= o_epoch (g_o g) - g_d g) as Hec.
    { destruct (Nat.le_gt_cases (b_epochs fb) (o_epoch (g_o g) - g_d g)) as [|Hlt]; [assumption|exfalso].
      unfold inv_last in L. rewrite L, Eb in TE. cbn [lasts_of] in TE.
      rewrite nth_error_app1 in TE by (rewrite repeat_length; exact Hlt).
      apply nth_error_repeat_eq in TE. lia. }
    unfold ntracked. rewrite Fsy, Fsd, Fo.
    replace (o_epoch (g_o g) - (g_d g + b_epochs fb)) with (o_epoch (g_o g) - g_d g - b_epochs fb) by lia.
    split; [split; intros Hl; [specialize (N1 Hl)|specialize (N2 Hl)]; lia|].
    rewrite u32_pop by exact Hec. exact N3.
  - destruct (put_finalize _ _ _ _ _) as [[p1 fr]|] eqn:Ef; [|discriminate]. cbn in Ha. inversion Ha; subst.
    apply Hsame; [eapply fin_sfields; eauto|reflexivity|reflexivity].
  - (* NotifySyncStarting(false) *)
    inversion Ha; subst. cbn [popc lv_next]. rewrite Nat.add_0_r. cbn [totalReleased notify_sync_starting] in Hge.
    destruct (N Hge) as [[N1 N2] N3]. unfold ntracked. cbn [synchronizingEpochs synchronizedEpochs oldestEpochID notify_sync_starting].
    split; [split; intros Hl; [lia|apply N2; lia]|exact N3].
  - (* NotifySyncCompleted (+ NotifySyncStarting(true)) *)
    inversion Ha; subst. cbn [popc]. rewrite Nat.add_0_r.
    destruct (nsc_fields p) as [_ [Fs [_ [Ft [Fsy [Fsd [_ [_ [_ [_ Fo]]]]]]]]]].
    assert (Hge' : totalReleased p <= o_block (g_o g)).
    { destruct b; cbn [totalReleased notify_sync_starting] in Hge; rewrite Ft in Hge; exact Hge. }
    destruct (N Hge') as [[N1 N2] N3].
    destruct b; unfold ntracked; cbn [synchronizingEpochs synchronizedEpochs oldestEpochID notify_sync_starting lv_next];
      rewrite ?Fsy, ?Fsd, ?Fo; (split; [|exact N3]); destruct (g_lv g) as [|[|lv]]; split; intros Hl; try lia;
      try (specialize (N1 ltac:(lia)); lia).
  - destruct (get_persistent_state p) as [[p1 st]|] eqn:Eg; [|discriminate]. cbn in Ha. inversion Ha; subst.
    destruct (gps_fields _ _ _ Eg) as [Hc [_ [_ [_ [_ [Ho _]]]]]]. apply Hsame; [|reflexivity|reflexivity].
    unfold core in Hc. inversion Hc. unfold sfields. congruence.
  - destruct (nsw_fields _ _ Ha) as [Hc [_ [_ [_ [_ Ho]]]]]. apply Hsame; [|reflexivity|reflexivity].
    unfold core in Hc. inversion Hc. unfold sfields. congruence.
Qed.

(** ---- establishment: the finalizer returned FinOk ---- *)
Lemma ack_ok_new abs blk size seed p p' off e bfl sd k :
  pbl_inv p -> put_finalize (PutAt abs) blk size seed p = Ok (p', FinOk off) ->
  index_to_ref (abs - totalReleased p') p' = Ok ((e, bfl), sd) ->
  k_end k = (off + size)%Z -> k_epoch k = e ->
  k_loc k = fst (nth (abs - totalReleased p) (map b_loc (blocks p)) (0, 0)%Z) ->
  ack_ok p' k (mkG (obj_of p p' abs (off + size)) 0 0) /\ totalReleased p' <= abs.
Proof.
  intros I Hf Hr Hend Hep Hloc.
  pose proof (fin_tracked _ _ _ _ _ _ _ I Hf) as T.
  destruct (put_finalize_inv (PutAt abs) blk size seed p I) as [p2 [fr2 [Hf2 [I' _]]]].
  { cbn. destruct (fin_cases _ _ _ _ _ _ _ Hf) as [[_ Hn]|(abs0 & off0 & bumped & Ht & _ & _ & _ & Hge & Hlt & _)];
      [exfalso; eapply Hn; reflexivity|]. inversion Ht; subst. lia. }
  rewrite Hf in Hf2. inversion Hf2; subst p2 fr2. clear Hf2.
  destruct (fin_cases _ _ _ _ _ _ _ Hf) as [[_ Hn]|
    (abs0 & off0 & bumped & Ht & _ & Hfr & _ & Hge & Hlt & Fb & Fs & Fl & Hnb & Ft & Fsy & Fsd & _ & _ & _ & _ & Fo)];
    [exfalso; eapply Hn; reflexivity|].
  inversion Ht; subst abs0. clear Ht.
  split; [|lia].
  unfold ack_ok. cbn [g_o g_lv g_d]. unfold obj_of at 1 2. cbn [o_end o_loc].
  split; [symmetry; exact Hend|]. split; [symmetry; exact Hloc|]. split; [lia|]. split; [exact T|].
  intros _. rewrite Nat.sub_0_r. unfold obj_of. cbn [o_epoch].
  assert (Hlen : 0 < length (epochSeeds p')).
  { unfold index_to_ref in Hr. destruct (length (epochSeeds p')); [discriminate|lia]. }
  split.
  - unfold ntracked. cbn [o_epoch]. rewrite ?Nat.sub_0_r.
    rewrite Fsy, Fsd. pose proof (i_sync1 _ I). pose proof (i_sync2 _ I). pose proof (i_len _ I).
    rewrite Fs. destruct bumped.
    + rewrite app_length. cbn. split; intros; lia.
    + destruct (Hnb eq_refl) as [Hne _]. split; intros; lia.
  - cbn [o_epoch]. rewrite ?Nat.sub_0_r.
    rewrite Hep. unfold index_to_ref in Hr. destruct (length (epochSeeds p')) as [|n] eqn:El; [discriminate|].
    destruct (nth_error (epochLast p') n); [|discriminate]. destruct (nth_error (epochSeeds p') n); [|discriminate].
    inversion Hr; subst. replace (S n - 1) with n by lia. reflexivity.
Qed.

(** ---- GetPersistentState: the state taken covers the level-2 objects and
    no epoch of an object below level 2 ---- *)
Lemma gps_nseeds p p' st : pbl_inv p -> get_persistent_state p = Ok (p', st) -> st_nseeds st = synchronizedEpochs p.
Proof.
  intros I Hg. destruct (gps_fields _ _ _ Hg) as [_ [_ [_ [_ [_ [_ [_ Hloop]]]]]]].
  unfold st_nseeds. rewrite (gps_seeds _ _ _ _ _ Hloop) by (pose proof (i_sum _ I); pose proof (i_sync1 _ I); pose proof (i_sync2 _ I); lia).
  rewrite Nat.sub_0_r. cbn [skipn]. rewrite firstn_length. pose proof (i_sync1 _ I). pose proof (i_sync2 _ I). lia.
Qed.

(** one acknowledged upload against one state write, as [check_write] sees it *)
Definition okw (w : pendw) (k : ack) : Prop :=
  zmem (k_loc k) (pw_popped w) = true \/
  let should := match pw_cover_before w with Some j => (k_step k <? j)%nat | None => false end in
  (should = true -> covers (pw_content w) k = true) /\
  (should = false -> covers_epoch (pw_content w) (k_epoch k) = false).

Lemma check_write_nil w acks : Forall (okw w) acks -> check_write w acks = [].
Proof.
  intros F. unfold check_write. induction F as [|k r Hk F IH]; [reflexivity|].
  cbn [flat_map]. rewrite IH, app_nil_r. destruct Hk as [Hk|[H1 H2]]; [rewrite Hk; reflexivity|].
  destruct (zmem _ _); [reflexivity|].
  destruct (match pw_cover_before w with Some j => (k_step k <? j)%nat | None => false end) eqn:Es.
  - rewrite (H1 eq_refl). reflexivity.
  - rewrite (H2 eq_refl). reflexivity.
Qed.

Lemma okw_at_issue p p' st k g popped j :
  pbl_inv p -> inv_last p -> get_persistent_state p = Ok (p', st) ->
  ack_ok p k g -> length (epochSeeds p) < N.to_nat M32 ->
  (o_block (g_o g) < totalReleased p -> zmem (k_loc k) popped = true) ->
  (g_lv g = 2 <-> match j with Some j0 => (k_step k <? j0)%nat | None => false end = true) ->
  okw (mkPendw (enc_st st) j popped) k.
Proof.
  intros I L Hg [A1 [A2 [A3 [T N]]]] Hb Hpop Hlv. unfold okw. cbn [pw_popped pw_cover_before pw_content].
  destruct (Nat.lt_ge_cases (o_block (g_o g)) (totalReleased p)) as [Hrel|Hge]; [left; auto|right].
  destruct (N Hge) as [[N1 N2] N3].
  destruct (gps_fields _ _ _ Hg) as [_ [_ [_ [_ [_ [_ [Hfst _]]]]]]].
  pose proof (gps_nseeds _ _ _ I Hg) as Hns.
  assert (Tidx : g_d g <= o_epoch (g_o g) /\ o_epoch (g_o g) - g_d g < length (epochSeeds p)).
  { destruct T as [T|[_ [T2 [bb [la [_ [_ [_ [TD _]]]]]]]]]; [lia|]. split; [exact T2|]. apply nth_error_Some. congruence. }
  assert (Hce : covers_epoch (enc_st st) (k_epoch k) = (o_epoch (g_o g) - g_d g <? st_nseeds st)).
  { rewrite covers_epoch_enc, N3, Hfst.
    pose proof (ce_dist (oldestEpochID p) (N.of_nat (o_epoch (g_o g) - g_d g))) as Hd. rewrite Hd.
    rewrite N.mod_small by lia.
    destruct (Nat.ltb_spec (o_epoch (g_o g) - g_d g) (st_nseeds st)); [apply N.ltb_lt|apply N.ltb_ge]; lia. }
  split; intros Hs.
  - apply Hlv in Hs. rewrite Hs in T.
    destruct (gps_covers _ _ _ _ _ I L T Hg) as [Hr|[[bs [Hn [Hl Ho]]] He]]; [lia|].
    unfold covers. rewrite Hce.
    assert (o_epoch (g_o g) - g_d g < st_nseeds st) as Hlt.
    { unfold st_nseeds. apply nth_error_Some. congruence. }
    apply Nat.ltb_lt in Hlt. rewrite Hlt. cbn [andb]. rewrite covers_off_enc.
    apply existsb_exists. exists bs. split; [eapply nth_error_In; eauto|].
    rewrite Hl, A2, Z.eqb_refl. cbn [andb]. apply Z.leb_le. rewrite <- A1. exact Ho.
  - rewrite Hce, Hns. apply Nat.ltb_ge. apply N2.
    destruct (Nat.eq_dec (g_lv g) 2) as [E|E]; [|lia]. apply Hlv in E. congruence.
Qed.

(** an upload acknowledged while a write is in flight is not covered by it:
    [E] = epochs removed by PopFront since the state was taken *)
Lemma okw_later (st : pstate) (E : nat) p k g popped j :
  ack_ok p k g -> totalReleased p <= o_block (g_o g) -> g_lv g = 0 ->
  u32 (oldestEpochID p) = u32 (fst st + N.of_nat E) ->
  st_nseeds st <= synchronizedEpochs p + E ->
  E + length (epochSeeds p) < N.to_nat M32 ->
  match j with Some j0 => (k_step k <? j0)%nat | None => false end = false ->
  okw (mkPendw (enc_st st) j popped) k.
Proof.
  intros [A1 [A2 [A3 [T N]]]] Hge Hlv Ho Hn Hb Hs. right. cbn [pw_popped pw_cover_before pw_content].
  rewrite Hs. split; [discriminate|]. intros _.
  destruct (N Hge) as [[N1 N2] N3].
  assert (Tidx : o_epoch (g_o g) - g_d g < length (epochSeeds p)).
  { destruct T as [T|[_ [T2 [bb [la [_ [_ [_ [TD _]]]]]]]]]; [lia|]. apply nth_error_Some. congruence. }
  rewrite covers_epoch_enc, N3.
  replace (u32 (oldestEpochID p + N.of_nat (o_epoch (g_o g) - g_d g)))
    with (u32 (fst st + N.of_nat (E + (o_epoch (g_o g) - g_d g)))).
  2:{ rewrite <- (u32_idem_l (oldestEpochID p)), Ho, u32_idem_l. f_equal. lia. }
  rewrite ce_dist. rewrite N.mod_small by lia. apply N.ltb_ge.
  specialize (N2 ltac:(lia)). lia.
Qed.
