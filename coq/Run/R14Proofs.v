(** C14: the monitor of Run/R14.v is silent on every observation the judge
    accepts as agreeing with the model ([agree14 inp (run14 inp orc) res]),
    for every input and every oracle.  This covers the alternatives the judge
    admits because the code is nondeterministic or library-dependent (the
    alternative failure codes of a compressed upload, the set-valued answers of
    FindMissingBlobs, the cut of a failing compressed read).

    Hypotheses ([inp_wf]), each shown necessary by a [vm_compute] witness at
    the end of this file:
      - identity ByteStream.Read: chunk size >= 1 and the injected Send
        failure carries a non-zero code;
      - client<->server cases: chunk size >= 1, Put/Get sizes at most the
        harness's ToByteSlice limit (1 MiB, [backend_max]), FindMissing sizes
        non-negative.
    harness/c14.go rejects chunk < 1, failure codes outside 1..16 and negative
    sizes; it does NOT bound Get sizes from above (see the report: a
    client<->server Get of an absent digest larger than 1 MiB is answered
    INVALID_ARGUMENT by model and ToByteSlice limit alike, while clause 11
    expects NOT_FOUND). *)
From Coq Require Import List ZArith Bool Lia.
Import ListNotations.
From BBS Require Import Common.Sx Rpc.ByteStream Rpc.Batch Rpc.ClientServer
  Rpc.ByteStreamProofs Rpc.BatchProofs Rpc.ClientServerProofs Run.MonSilentSx Run.R14.
Open Scope Z_scope.

(** * Generic facts *)
Lemma bytes_eqb_refl a : bytes_eqb a a = true.
Proof. induction a as [|x a IH]; [reflexivity|]. cbn. rewrite Z.eqb_refl, IH. reflexivity. Qed.

Lemma bytes_eqb_eq a : forall b, bytes_eqb a b = true -> a = b.
Proof.
  induction a as [|x a IH]; intros [|y b] H; try discriminate; [reflexivity|].
  cbn in H. apply andb_prop in H. destruct H as [H1 H2]. apply Z.eqb_eq in H1. subst.
  f_equal. apply IH, H2.
Qed.

Lemma cl_false b n : b = false -> cl b n = [].
Proof. intros ->. reflexivity. Qed.

Lemma ident_eqb_enc d rest : ident_eqb (L (enc_ident d ++ rest)) d = true.
Proof. unfold ident_eqb, enc_ident. cbn. rewrite !Z.eqb_refl. reflexivity. Qed.

Lemma ident_eqb_enc' d : ident_eqb (L (enc_ident d)) d = true.
Proof. unfold ident_eqb, enc_ident. cbn. rewrite !Z.eqb_refl. reflexivity. Qed.

Lemma is_prefix_refl x : is_prefix x x = true.
Proof. induction x as [|a x IH]; [reflexivity|]. cbn. rewrite Z.eqb_refl, IH. reflexivity. Qed.

Lemma is_prefix_app p rest : is_prefix p (p ++ rest) = true.
Proof. induction p as [|a p IH]; [reflexivity|]. cbn. rewrite Z.eqb_refl, IH. reflexivity. Qed.

Lemma sx_subset_nil a : sx_subset a [] = true -> a = [].
Proof. destruct a as [|x a]; [reflexivity|]. cbn. discriminate. Qed.

(** * Kind 0: ByteStream.Write *)

Lemma contiguous_b_true ms : forall woff, contiguous woff ms -> contiguous_b woff ms = true.
Proof.
  induction ms as [|m ms IH]; intros woff H; [reflexivity|].
  cbn in *. destruct H as [-> H]. rewrite Z.eqb_refl, (IH _ H). reflexivity.
Qed.

Lemma fin_last_only_true ms : finished_at_end ms -> fin_last_only ms = true.
Proof.
  intros (pre & l & -> & Hl & Hp). unfold fin_last_only. rewrite rev_app_distr. cbn.
  rewrite Hl. cbn. apply forallb_forall. intros m Hm. apply in_rev in Hm.
  rewrite Forall_forall in Hp. rewrite (Hp m Hm). reflexivity.
Qed.

Lemma upto_fin_finished pre post : finished_at_end pre -> upto_fin (pre ++ post) = pre.
Proof.
  intros (p & l & -> & Hl & Hp). induction Hp as [|m p Hm Hp IH].
  - cbn. rewrite Hl. reflexivity.
  - cbn. rewrite Hm. f_equal. exact IH.
Qed.

(** A write that answers OK has stored something (no failure carries code 0). *)
Section WriteCode.
  Variable hashf : bytes -> Z.
  Variable decompress : bytes -> dres.

  Lemma drain_some_nz src cs r c :
    src <> 0 -> (forall c', r = RErr c' -> c' <> 0) -> drain src cs r = Some c -> c <> 0.
  Proof.
    intros Hs Hr. induction cs as [|a cs IH]; cbn.
    - destruct r as [|c']; [discriminate|]. intro H. inversion H. subst. eapply Hr; reflexivity.
    - destruct (0 <? blen a); [intro H; inversion H; subst; exact Hs|exact IH].
  Qed.

  Lemma vconsume_inr_nz src d cs r : forall rem acc c,
    src <> 0 -> (forall c', r = RErr c' -> c' <> 0) ->
    vconsume hashf src d rem acc cs r = inr c -> c <> 0.
  Proof.
    induction cs as [|a cs IH]; intros rem acc c Hs Hr; cbn [vconsume].
    - destruct (rem <=? 0).
      + destruct (drain src [] r) as [c'|] eqn:Hd.
        * intro H. inversion H. subst. eapply drain_some_nz; eauto.
        * destruct (hashf acc =? d_hash d); [discriminate|]. intro H. inversion H. subst. exact Hs.
      + destruct r as [|c']; intro H; inversion H; subst; [exact Hs|eapply Hr; reflexivity].
    - destruct (rem <=? 0).
      + destruct (drain src (a :: cs) r) as [c'|] eqn:Hd.
        * intro H. inversion H. subst. eapply drain_some_nz; eauto.
        * destruct (hashf acc =? d_hash d); [discriminate|]. intro H. inversion H. subst. exact Hs.
      + destruct (rem <? blen a); [intro H; inversion H; subst; exact Hs|]. apply IH; assumption.
  Qed.

  Lemma id_recv_err_nz t : (forall c, t = TErr c -> c <> 0) ->
    forall ms woff fin cs c, id_recv woff fin ms t = (cs, RErr c) -> c <> 0.
  Proof.
    intros Ht. induction ms as [|m ms IH]; intros woff fin cs c; cbn [id_recv].
    - destruct t as [|c']; [destruct fin|]; intro H; inversion H; subst; try discriminate.
      eapply Ht; reflexivity.
    - destruct fin; [intro H; inversion H; discriminate|].
      destruct (negb (w_off m =? woff)); [intro H; inversion H; discriminate|].
      destruct (id_recv (woff + blen (w_data m)) (w_fin m) ms t) as [cs' r'] eqn:E.
      intro H. inversion H. subst. eapply IH; eauto.
  Qed.

  Lemma z_recv_err_nz t : (forall c, t = TErr c -> c <> 0) ->
    forall ms noff fin b n c, z_recv noff fin ms t = (b, RErr c, n) -> c <> 0.
  Proof.
    intros Ht. induction ms as [|m ms IH]; intros noff fin b n c; cbn [z_recv].
    - destruct fin; [discriminate|].
      destruct t as [|c']; intro H; inversion H; subst; [discriminate|eapply Ht; reflexivity].
    - destruct fin; [discriminate|].
      destruct (negb (w_off m =? noff)); [intro H; inversion H; discriminate|].
      destruct (z_recv (noff + blen (w_data m)) (w_fin m) ms t) as [[b' r'] n'] eqn:E.
      intro H. inversion H. subst. eapply IH; eauto.
  Qed.

  Lemma write_ok_stores pm rn ms t :
    (forall c, t = TErr c -> c <> 0) -> (forall c, rn = RBad c -> c <> 0) ->
    wr_code (write hashf decompress pm rn ms t) = 0 ->
    wr_stored (write hashf decompress pm rn ms t) <> None.
  Proof.
    intros Ht Hrn. unfold write. destruct ms as [|first rest].
    - destruct t as [|c]; cbn; [discriminate|]. intro H. exfalso. eapply Ht; eauto.
    - destruct rn as [d|d| |c].
      3:{ cbn. discriminate. }
      3:{ cbn. intro H. exfalso. eapply Hrn; eauto. }
      + unfold write_identity. destruct (negb (w_off first =? 0)); [cbn; discriminate|].
        destruct (pm =? 0) eqn:Ep; cbn [negb]; [|cbn; intro H; apply Z.eqb_neq in Ep; contradiction].
        destruct (id_recv (blen (w_data first)) (w_fin first) rest t) as [cs r] eqn:Er.
        destruct (to_byte_slice hashf cInvalidArgument d backend_max _) as [y|c] eqn:Hb; [cbn; discriminate|].
        cbn. intro H. subst c. exfalso. unfold to_byte_slice in Hb.
        destruct (backend_max <? d_size d); [discriminate|]. cbn [fst snd] in Hb.
        assert (Hnz : 0 <> 0); [|congruence].
        eapply vconsume_inr_nz; [| |exact Hb]; [discriminate|].
        intros c' ->. eapply id_recv_err_nz; eauto.
      + unfold write_zstd. destruct (negb (w_off first =? 0)); [cbn; discriminate|].
        destruct (pm =? 0) eqn:Ep; cbn [negb]; [|cbn; intro H; apply Z.eqb_neq in Ep; contradiction].
        destruct (backend_max <? d_size d); [cbn; discriminate|].
        destruct (z_recv (blen (w_data first)) (w_fin first) rest t) as [[b r] n] eqn:Er.
        destruct r as [|e].
        * destruct (decompress (w_data first ++ b)) as [y|y|]; [| |cbn; discriminate].
          -- destruct (valid hashf d y); cbn; discriminate.
          -- destruct (valid hashf d y); [cbn; discriminate|].
             destruct (blen y <? d_size d); cbn; discriminate.
        * cbn. intro H. subst e. exfalso. eapply (z_recv_err_nz t Ht); eauto.
  Qed.
End WriteCode.

Lemma dec_term_nz s c : dec_term s = TErr c -> c <> 0.
Proof.
  unfold dec_term. destruct (sx_Z s =? 0) eqn:E; [discriminate|].
  intro H. inversion H. subst. apply Z.eqb_neq. exact E.
Qed.

Lemma dec_rn_bad blobs s c : dec_rn blobs s = RBad c -> c <> 0.
Proof.
  unfold dec_rn. destruct (sx_Z (sx_nth s 0) =? 3); [intro H; inversion H; discriminate|].
  destruct (d_size _ <? 0); [intro H; inversion H; discriminate|].
  destruct (sx_Z (sx_nth s 0) =? 0); [discriminate|].
  destruct (sx_Z (sx_nth s 0) =? 1); discriminate.
Qed.

Lemma dec_rn_identity blobs s d :
  dec_rn blobs s = RIdentity d ->
  d = rn_dig blobs s /\ sx_Z (sx_nth s 0) = 0 /\ 0 <= d_size d.
Proof.
  unfold dec_rn, rn_dig. destruct (sx_Z (sx_nth s 0) =? 3); [discriminate|].
  destruct (d_size _ <? 0) eqn:Es; [discriminate|].
  destruct (sx_Z (sx_nth s 0) =? 0) eqn:E0.
  - intro H. inversion H. subst. apply Z.eqb_eq in E0. apply Z.ltb_ge in Es. auto.
  - destruct (sx_Z (sx_nth s 0) =? 1); discriminate.
Qed.

Lemma dec_rn_zstd blobs s d :
  dec_rn blobs s = RZstd d ->
  d = rn_dig blobs s /\ sx_Z (sx_nth s 0) = 1 /\ 0 <= d_size d.
Proof.
  unfold dec_rn, rn_dig. destruct (sx_Z (sx_nth s 0) =? 3); [discriminate|].
  destruct (d_size _ <? 0) eqn:Es; [discriminate|].
  destruct (sx_Z (sx_nth s 0) =? 0) eqn:E0; [discriminate|].
  destruct (sx_Z (sx_nth s 0) =? 1) eqn:E1; [|discriminate].
  intro H. inversion H. subst. apply Z.eqb_eq in E1. apply Z.ltb_ge in Es. auto.
Qed.

(** The write monitor, clause by clause (definitionally [mon_write]). *)
Definition w_ms (inp : sx) := map dec_msg (sx_list (sx_nth inp 3)).
Definition w_zstd (inp : sx) := sx_Z (sx_nth (sx_nth inp 2) 0) =? 1.
Definition w_used (inp : sx) := if w_zstd inp then upto_fin (w_ms inp) else w_ms inp.
Definition w_any (stored : list sx) := negb (match stored with [] => true | _ => false end).
Definition w_c1 inp stored :=
  w_any stored && match w_ms inp with m :: _ => negb (w_off m =? 0) | [] => true end.
Definition w_c2 inp stored :=
  w_any stored && negb (tail_contiguous (w_used inp) && fin_last_only (w_used inp)
                        && (w_zstd inp || match dec_term (sx_nth inp 4) with TEof => true | _ => false end)).
Definition w_good inp orc (stored : list sx) :=
  let blobs := dec_blobs (sx_nth inp 1) in
  let rk := sx_Z (sx_nth (sx_nth inp 2) 0) in
  let d := rn_dig blobs (sx_nth inp 2) in
  let payload := concat (map w_data (w_used inp)) in
  let content := if w_zstd inp then decoded (oracle_decompress (w_ms inp) orc payload) else Some payload in
  match stored, content with
  | [o], Some x => ((rk =? 0) || (rk =? 1)) && ident_eqb o d
                   && bytes_eqb (sx_Zs (sx_nth o 2)) x && valid (hash_of blobs) d x
  | _, _ => false
  end.

Lemma mon_write_eq inp orc res :
  mon_write inp orc res =
  let code := sx_Z (sx_nth res 0) in
  let stored := sx_list (sx_nth res 2) in
  cl (w_c1 inp stored) 1 ++ cl (w_c2 inp stored) 2 ++ cl (w_any stored && negb (w_good inp orc stored)) 3 ++
  cl (negb (code =? 0) && w_any stored) 4 ++ cl ((code =? 0) && negb (w_any stored)) 5.
Proof. reflexivity. Qed.

Definition model_write (inp orc : sx) : wres :=
  let blobs := dec_blobs (sx_nth inp 1) in
  write (hash_of blobs) (oracle_decompress (w_ms inp) orc) (sx_Z (sx_nth inp 5))
        (dec_rn blobs (sx_nth inp 2)) (w_ms inp) (dec_term (sx_nth inp 4)).

Lemma mon_write_nothing inp orc res :
  sx_nth res 2 = L [] -> sx_Z (sx_nth res 0) <> 0 -> mon_write inp orc res = [].
Proof.
  intros Hs Hc. rewrite mon_write_eq. cbv zeta. rewrite Hs. cbn [sx_list].
  apply Z.eqb_neq in Hc. rewrite Hc. reflexivity.
Qed.

Lemma mon_write_stored inp orc res x :
  wr_stored (model_write inp orc) = Some x ->
  sx_Z (sx_nth res 0) = wr_code (model_write inp orc) ->
  sx_nth res 2 = enc_stored (rn_dig (dec_blobs (sx_nth inp 1)) (sx_nth inp 2)) (Some x) ->
  mon_write inp orc res = [].
Proof.
  intros Hst Hcode Hres.
  assert (Hc0 : wr_code (model_write inp orc) = 0).
  { destruct (Z.eq_dec (wr_code (model_write inp orc)) 0) as [E|E]; [exact E|].
    unfold model_write in *. rewrite write_failure_stores_nothing in Hst by exact E. discriminate. }
  rewrite mon_write_eq. cbv zeta. rewrite Hres, Hcode, Hc0. cbn [enc_stored sx_list].
  set (blobs := dec_blobs (sx_nth inp 1)) in *.
  set (d := rn_dig blobs (sx_nth inp 2)) in *.
  set (o := L (enc_ident d ++ [of_Zs x])).
  assert (Hany : w_any [o] = true) by reflexivity.
  unfold model_write in Hst. fold blobs in Hst.
  destruct (dec_rn blobs (sx_nth inp 2)) as [d'|d'| |c] eqn:Ern.
  - (* identity *)
    destruct (dec_rn_identity _ _ _ Ern) as (Hd & Hrk & Hsz). fold d in Hd. subst d'.
    destruct (write_identity_stores_only_if _ _ _ _ _ _ _ Hsz Hst) as (Hcont & Hfin & Ht & Hx & Hv & _).
    assert (Hz : w_zstd inp = false) by (unfold w_zstd; rewrite Hrk; reflexivity).
    assert (Hu : w_used inp = w_ms inp) by (unfold w_used; rewrite Hz; reflexivity).
    assert (H1 : w_c1 inp [o] = false).
    { unfold w_c1. rewrite Hany. cbn [andb]. destruct (w_ms inp) as [|m ms'] eqn:Em.
      - destruct Hfin as (pre & l & E & _). destruct pre; discriminate.
      - cbn in Hcont. destruct Hcont as [E _]. rewrite E. reflexivity. }
    assert (H2 : w_c2 inp [o] = false).
    { unfold w_c2. rewrite Hany, Hu, Ht, Hz. cbn [andb orb].
      rewrite (fin_last_only_true _ Hfin). rewrite andb_true_r.
      destruct (w_ms inp) as [|m ms']; [reflexivity|]. cbn in Hcont. destruct Hcont as [_ Hcont].
      cbn [tail_contiguous]. rewrite (contiguous_b_true _ _ Hcont). reflexivity. }
    assert (H3 : w_good inp orc [o] = true).
    { unfold w_good. fold blobs. fold d. rewrite Hz, Hu, Hrk. cbn [Z.eqb orb andb].
      fold (payload (w_ms inp)). rewrite <- Hx. unfold o.
      rewrite ident_eqb_enc. cbn [andb].
      replace (sx_nth (L (enc_ident d ++ [of_Zs x])) 2) with (of_Zs x) by reflexivity.
      rewrite sx_Zs_of_Zs, bytes_eqb_refl, Hv. reflexivity. }
    rewrite H1, H2, H3, Hany. reflexivity.
  - (* zstd *)
    destruct (dec_rn_zstd _ _ _ Ern) as (Hd & Hrk & Hsz). fold d in Hd. subst d'.
    destruct (write_zstd_stores_only_if _ _ _ _ _ _ _ Hst) as (pre & post & Hms & Hcont & Hfin & Hdec & Hv).
    assert (Hz : w_zstd inp = true) by (unfold w_zstd; rewrite Hrk; reflexivity).
    assert (Hu : w_used inp = pre).
    { unfold w_used. rewrite Hz, Hms. apply upto_fin_finished, Hfin. }
    assert (H1 : w_c1 inp [o] = false).
    { unfold w_c1. rewrite Hany, Hms. cbn [andb]. destruct pre as [|m pre'].
      - destruct Hfin as (p & l & E & _). destruct p; discriminate.
      - cbn in Hcont. destruct Hcont as [E _]. cbn [app]. rewrite E. reflexivity. }
    assert (H2 : w_c2 inp [o] = false).
    { unfold w_c2. rewrite Hany, Hu, Hz. cbn [andb orb].
      rewrite (fin_last_only_true _ Hfin). rewrite !andb_true_r.
      destruct pre as [|m pre']; [reflexivity|]. cbn in Hcont. destruct Hcont as [_ Hcont].
      cbn [tail_contiguous]. rewrite (contiguous_b_true _ _ Hcont). reflexivity. }
    assert (H3 : w_good inp orc [o] = true).
    { unfold w_good. fold blobs. fold d. rewrite Hz, Hu, Hrk. cbn [Z.eqb orb andb].
      fold (payload pre). rewrite Hdec. unfold o.
      rewrite ident_eqb_enc. cbn [andb].
      replace (sx_nth (L (enc_ident d ++ [of_Zs x])) 2) with (of_Zs x) by reflexivity.
      rewrite sx_Zs_of_Zs, bytes_eqb_refl, Hv. reflexivity. }
    rewrite H1, H2, H3, Hany. reflexivity.
  - unfold write in Hst. destruct (w_ms inp); [destruct (dec_term _)|]; discriminate.
  - unfold write in Hst. destruct (w_ms inp); [destruct (dec_term _)|]; discriminate.
Qed.

Lemma silent_write inp orc res :
  sx_Z (sx_nth inp 0) = 0 ->
  agree14 inp (run14 inp orc) res = true -> mon_write inp orc res = [].
Proof.
  intros Hk. unfold agree14, run14. rewrite Hk. cbn [Z.eqb].
  unfold run_write. fold (w_ms inp).
  change (write _ _ _ _ _ _) with (model_write inp orc).
  set (r := model_write inp orc). set (d := rn_dig _ _).
  rewrite !sx_nth_L. cbn [nth sx_Z]. rewrite sx_Zs_of_Zs.
  intro H. apply orb_prop in H. destruct H as [H|H].
  - apply andb_prop in H. destruct H as [H Hs]. apply andb_prop in H. destruct H as [Hc _].
    apply Z.eqb_eq in Hc. apply sx_eqb_eq in Hs.
    destruct (wr_stored r) as [x|] eqn:Hst.
    + eapply mon_write_stored; eauto.
    + apply mon_write_nothing; [exact Hs|]. rewrite Hc. intro E.
      apply (write_ok_stores _ _ _ _ _ _ (dec_term_nz _) (dec_rn_bad _ _) E). exact Hst.
  - apply andb_prop in H. destruct H as [Hc Hs]. apply sx_eqb_eq in Hs.
    apply mon_write_nothing; [exact Hs|].
    apply existsb_exists in Hc. destruct Hc as (c & Hin & E). apply Z.eqb_eq in E. rewrite E.
    exact (write_alternatives_are_failures _ _ (fun y => y) _ _ _ _ _ Hin).
Qed.

(** * Kind 1: ByteStream.Read *)
Section ReadKind.
  Variable inp : sx.
  Local Notation blobs := (dec_blobs (sx_nth inp 1)).
  Local Notation rk := (sx_Z (sx_nth (sx_nth inp 2) 0)).
  Local Notation d := (rn_dig blobs (sx_nth inp 2)).
  Local Notation x := (blob blobs (sx_Z (sx_nth (sx_nth inp 2) 1))).
  Local Notation bm := (sx_Z (sx_nth inp 3)).
  Local Notation k := (sx_Z (sx_nth inp 4)).
  Local Notation chunk := (sx_nat (sx_nth inp 6)).
  Local Notation sf := (dec_sendfail (sx_nth inp 7)).
  Local Notation get := (get_of_mode blobs bm x).
  Local Notation rn := (dec_rn blobs (sx_nth inp 2)).
  Local Notation suffix := (skipn (Z.to_nat k) x).

  Definition r_P : bool :=
    ((rk =? 0) || (rk =? 1)) && (bm =? 0) && valid (hash_of blobs) d x && (0 <=? k) && (k <=? blen x).

  Lemma mon_read_eq res :
    mon_read inp res =
    if negb (sx_Z (sx_nth inp 5) =? 0) then []
    else if r_P then
      match sf with
      | None => cl (negb ((sx_Z (sx_nth res 0) =? 0) && bytes_eqb (sx_Zs (sx_nth res 2)) suffix
                          && sx_bool (sx_nth res 3))) 6
      | Some _ => cl (negb (is_prefix (sx_Zs (sx_nth res 2)) suffix
                            && ((negb (sx_Z (sx_nth res 0) =? 0))
                                || (bytes_eqb (sx_Zs (sx_nth res 2)) suffix && sx_bool (sx_nth res 3))))) 6
      end
    else cl (negb (match sx_Zs (sx_nth res 2) with [] => true | _ => false end)) 6.
  Proof. reflexivity. Qed.

  Lemma read_present :
    r_P = true ->
    ((rk = 0 /\ rn = RIdentity d) \/ (rk = 1 /\ rn = RZstd d))
    /\ get d = inl x /\ offset_ok x k = true.
  Proof.
    unfold r_P. intro H.
    apply andb_prop in H. destruct H as [H H5]. apply andb_prop in H. destruct H as [H H4].
    apply andb_prop in H. destruct H as [H Hv]. apply andb_prop in H. destruct H as [Hrk Hbm].
    split; [|split].
    - assert (Hsz : (d_size d <? 0) = false).
      { apply Z.ltb_ge. unfold valid in Hv. apply andb_prop in Hv. destruct Hv as [Hv _].
        apply Z.eqb_eq in Hv. rewrite <- Hv. apply blen_nonneg. }
      unfold dec_rn. fold d. rewrite Hsz.
      apply orb_prop in Hrk. destruct Hrk as [E|E]; apply Z.eqb_eq in E; rewrite E; [left|right]; auto.
    - unfold get_of_mode. rewrite Hbm. unfold backend_get. rewrite Hv. reflexivity.
    - unfold offset_ok. rewrite H4, H5. reflexivity.
  Qed.

  Lemma read_absent pieces sf' :
    r_P = false ->
    exists c, c <> 0 /\ read fcompress rn 0 get k chunk pieces sf' = (c, []).
  Proof.
    intro HP. unfold read. cbn [Z.eqb negb].
    assert (Hget : forall d', d' = d -> (rk =? 0) || (rk =? 1) = true ->
              (exists c, c <> 0 /\ get d' = inr c)
              \/ (get d' = inl x /\ offset_ok x k = false)).
    { intros d' -> Hrk. unfold get_of_mode. destruct (bm =? 0) eqn:Ebm.
      - unfold backend_get. destruct (valid (hash_of blobs) d x) eqn:Ev.
        + right. split; [reflexivity|]. unfold r_P in HP. rewrite Hrk, Ebm, Ev in HP. exact HP.
        + left. exists cInternal. split; [discriminate|reflexivity].
      - left. destruct (bm =? 1); [exists cInternal; split; [discriminate|reflexivity]|].
        exists bm. split; [apply Z.eqb_neq; exact Ebm|reflexivity]. }
    destruct rn as [d'|d'| |c] eqn:Ern.
    - destruct (dec_rn_identity _ _ _ Ern) as (Hd & Hrk & _).
      destruct (Hget d' Hd) as [(c & Hc & E)|(E & Ho)]; [rewrite Hrk; reflexivity| |].
      + exists c. unfold read_identity. rewrite E. auto.
      + exists cInvalidArgument. unfold read_identity. rewrite E, Ho. split; [discriminate|reflexivity].
    - destruct (dec_rn_zstd _ _ _ Ern) as (Hd & Hrk & _).
      destruct (Hget d' Hd) as [(c & Hc & E)|(E & Ho)]; [rewrite Hrk; reflexivity| |].
      + exists c. unfold read_zstd. rewrite E. auto.
      + exists cInvalidArgument. unfold read_zstd. rewrite E, Ho. split; [discriminate|reflexivity].
    - exists cUnimplemented. split; [discriminate|reflexivity].
    - exists c. split; [eapply dec_rn_bad; eauto|reflexivity].
  Qed.

  Lemma silent_read orc res :
    sx_Z (sx_nth inp 0) = 1 ->
    (rk = 0 -> (0 < chunk)%nat /\ forall j c, sf = Some (j, c) -> c <> 0) ->
    agree14 inp (run14 inp orc) res = true -> mon_read inp res = [].
  Proof.
    intros Hk Hwf. unfold agree14, run14. rewrite Hk.
    change (1 =? 0) with false. change (1 =? 1) with true. cbv iota.
    rewrite mon_read_eq.
    destruct (sx_Z (sx_nth inp 5) =? 0) eqn:El; cbn [negb]; [|reflexivity].
    apply Z.eqb_eq in El. unfold run_read. rewrite El.
    destruct r_P eqn:EP.
    - destruct (read_present EP) as (Hcase & Hget & Hoff).
      destruct Hcase as [[Hrk Hrn]|[Hrk Hrn]]; rewrite Hrn, Hrk.
      + (* identity *)
        change (0 =? 1) with false. cbv iota.
        destruct (Hwf Hrk) as [Hchunk Hsf].
        unfold read. cbn [Z.eqb negb]. unfold read_identity. rewrite Hget, Hoff.
        pose proof (chunks_of_concat chunk suffix Hchunk) as Hcc.
        unfold apply_sendfail. destruct sf as [[j fc]|] eqn:Esf.
        * destruct (Nat.ltb j (length (chunks_of chunk suffix))).
          -- intro H. apply sx_eqb_eq in H. subst res. rewrite !sx_nth_L. cbn [nth sx_Z].
             rewrite sx_Zs_of_Zs. apply cl_false. apply negb_false_iff.
             destruct (firstn_concat_prefix j (chunks_of chunk suffix)) as (rest & Hr).
             rewrite Hcc in Hr. set (pre := concat (firstn j (chunks_of chunk suffix))) in *.
             rewrite Hr. rewrite is_prefix_app. cbn [andb].
             assert (Hfc : (fc =? 0) = false) by (apply Z.eqb_neq; eapply Hsf; reflexivity).
             rewrite Hfc. reflexivity.
          -- intro H. apply sx_eqb_eq in H. subst res. rewrite !sx_nth_L. cbn [nth sx_Z].
             rewrite sx_Zs_of_Zs, Hcc, is_prefix_refl, bytes_eqb_refl. reflexivity.
        * intro H. apply sx_eqb_eq in H. subst res. rewrite !sx_nth_L. cbn [nth sx_Z].
          rewrite sx_Zs_of_Zs, Hcc, bytes_eqb_refl. reflexivity.
      + (* zstd *)
        change (1 =? 1) with true. cbv iota.
        unfold read. cbn [Z.eqb negb]. unfold read_zstd. rewrite Hget, Hoff.
        cbn [apply_sendfail]. rewrite cut_concat. cbn [fcompress fdecompress decoded].
        rewrite !sx_nth_L. cbn [nth sx_Z]. rewrite sx_Zs_of_Zs.
        destruct sf as [[j fc]|] eqn:Esf.
        * change (negb (0 =? 0)) with false. cbv iota.
          destruct (sx_Z (sx_nth res 0) =? 0) eqn:Ec.
          -- intro H. apply andb_prop in H. destruct H as [H2 H3].
             apply sx_eqb_eq in H2. apply sx_eqb_eq in H3. rewrite H2, H3, sx_Zs_of_Zs.
             rewrite is_prefix_refl, bytes_eqb_refl. reflexivity.
          -- intro H. apply andb_prop in H. destruct H as [_ Hp]. rewrite Hp. reflexivity.
        * intro H. apply andb_prop in H. destruct H as [H H3]. apply andb_prop in H. destruct H as [H0 H2].
          apply sx_eqb_eq in H0. apply sx_eqb_eq in H2. apply sx_eqb_eq in H3.
          rewrite H0, H2, H3, sx_Zs_of_Zs, bytes_eqb_refl. reflexivity.
    - assert (Hnil : forall s, s = of_Zs [] \/ s = L [] -> sx_Zs s = []) by (intros s [-> | ->]; reflexivity).
      destruct (rk =? 1) eqn:Ez.
      + (* compared on the decoded stream *)
        assert (Hm : exists c, c <> 0 /\
                  match rn with
                  | RZstd _ => let '(c0, msgs) := read fcompress rn 0 get k chunk [] None in
                               L [A c0; L []; of_Zs match decoded (fdecompress (concat msgs)) with Some y => y | None => [] end; A 1]
                  | _ => let '(c0, msgs) := read fcompress rn 0 get k chunk [] sf in
                         L [A c0; L (map of_Zs msgs); of_Zs (concat msgs); A 1]
                  end = L [A c; L []; of_Zs []; A 1]).
        { destruct (read_absent [] None EP) as (c1 & Hc1 & E1).
          destruct (read_absent [] sf EP) as (c2 & Hc2 & E2).
          destruct rn; [exists c2; rewrite E2|exists c1; rewrite E1|exists c2; rewrite E2|exists c2; rewrite E2];
            (split; [assumption|reflexivity]). }
        destruct Hm as (c & Hc & ->). rewrite !sx_nth_L. cbn [nth sx_Z].
        apply Z.eqb_neq in Hc. rewrite Hc. cbn [negb].
        destruct sf as [[j fc]|].
        * intro H. apply andb_prop in H. destruct H as [_ H2]. apply sx_eqb_eq in H2.
          rewrite (Hnil _ (or_intror H2)). reflexivity.
        * intro H. apply andb_prop in H. destruct H as [H _]. apply andb_prop in H. destruct H as [_ H2].
          apply sx_eqb_eq in H2. rewrite (Hnil _ (or_introl H2)). reflexivity.
      + destruct (read_absent [] sf EP) as (c2 & Hc2 & E2).
        assert (Hrn : match rn with RZstd _ => False | _ => True end).
        { destruct rn as [| d'| |] eqn:Ern; try exact I. apply dec_rn_zstd in Ern. destruct Ern as (_ & E & _).
          rewrite E in Ez. discriminate. }
        destruct rn; try contradiction; rewrite E2; intro H; apply sx_eqb_eq in H; subst res; reflexivity.
  Qed.
End ReadKind.

(** * Kind 2: BatchUpdateBlobs *)
Lemma combine_map_self {A B} (g : A -> B) l : combine l (map g l) = map (fun e => (e, g e)) l.
Proof. induction l as [|a l IH]; [reflexivity|]. cbn. rewrite IH. reflexivity. Qed.

Lemma combine_map_l {A B} (f : A -> B) l : combine (map f l) l = map (fun e => (f e, e)) l.
Proof. induction l as [|a l IH]; [reflexivity|]. cbn. rewrite IH. reflexivity. Qed.

Lemma bu_generic (hashf : bytes -> Z) (es : list (dig * bytes * Z)) (G : dig * bytes * Z -> Z * option bytes) :
  (forall e, In e es ->
     (fst (G e) = 0 <-> snd (G e) <> None)
     /\ (forall y, snd (G e) = Some y -> y = snd (fst e) /\ valid hashf (fst (fst e)) (snd (fst e)) = true)) ->
  let rs := map G es in
  let sts := map (fun p : dig * bytes * Z * (Z * option bytes) =>
                    L [L (enc_ident (fst (fst (fst p)))); A (fst (snd p))]) (combine es rs) in
  let stored := flat_map (fun p : dig * bytes * Z * (Z * option bytes) =>
                    match snd (snd p) with
                    | Some y => [L (enc_ident (fst (fst (fst p))) ++ [of_Zs y])]
                    | None => [] end) (combine es rs) in
  (length sts =? length es)%nat
  && forallb (fun p => ident_eqb (sx_nth (fst p) 0) (fst (fst (snd p)))) (combine sts es) = true
  /\ forallb (fun o =>
       existsb (fun p : sx * (dig * bytes * Z) => let d := fst (fst (snd p)) in
                  ident_eqb o d && bytes_eqb (sx_Zs (sx_nth o 2)) (snd (fst (snd p)))
                  && valid hashf d (snd (fst (snd p)))
                  && (sx_Z (sx_nth (fst p) 1) =? 0)) (combine sts es)) stored = true
  /\ forallb (fun p : sx * (dig * bytes * Z) => negb (sx_Z (sx_nth (fst p) 1) =? 0)
       || existsb (fun o => ident_eqb o (fst (fst (snd p))) && bytes_eqb (sx_Zs (sx_nth o 2)) (snd (fst (snd p)))) stored)
       (combine sts es) = true.
Proof.
  intros HG. cbv zeta. rewrite combine_map_self, map_map. cbn [fst snd].
  set (st := fun e : dig * bytes * Z => L [L (enc_ident (fst (fst e))); A (fst (G e))]).
  rewrite combine_map_l.
  set (stored := flat_map _ _).
  assert (Hst : forall o, In o stored <->
            exists e y, In e es /\ snd (G e) = Some y /\ o = L (enc_ident (fst (fst e)) ++ [of_Zs y])).
  { intro o. unfold stored. rewrite in_flat_map. split.
    - intros (p & Hp & Ho). apply in_map_iff in Hp. destruct Hp as (e & <- & He). cbn [fst snd] in Ho.
      destruct (snd (G e)) as [y|] eqn:Ey; [|destruct Ho]. destruct Ho as [<-|[]]. eauto.
    - intros (e & y & He & Ey & ->). exists (e, G e). split; [apply in_map_iff; eauto|].
      cbn [fst snd]. rewrite Ey. left. reflexivity. }
  split; [|split].
  - rewrite map_length, Nat.eqb_refl. cbn [andb]. apply forallb_forall. intros p Hp.
    apply in_map_iff in Hp. destruct Hp as (e & <- & He). cbn [fst snd]. unfold st.
    rewrite sx_nth_L. cbn [nth]. apply ident_eqb_enc'.
  - apply forallb_forall. intros o Ho. apply Hst in Ho. destruct Ho as (e & y & He & Ey & ->).
    apply existsb_exists. exists (st e, e). split; [apply in_map_iff; eauto|]. cbn [fst snd].
    destruct (HG e He) as [H1 H2]. destruct (H2 y Ey) as [-> Hv].
    rewrite ident_eqb_enc, Hv.
    replace (sx_nth (L (enc_ident (fst (fst e)) ++ [of_Zs (snd (fst e))])) 2) with (of_Zs (snd (fst e))) by reflexivity.
    rewrite sx_Zs_of_Zs, bytes_eqb_refl. unfold st. rewrite sx_nth_L. cbn [nth sx_Z andb].
    apply Z.eqb_eq, H1. rewrite Ey. discriminate.
  - apply forallb_forall. intros p Hp. apply in_map_iff in Hp. destruct Hp as (e & <- & He).
    cbn [fst snd]. unfold st at 1. rewrite sx_nth_L. cbn [nth sx_Z].
    destruct (fst (G e) =? 0) eqn:E; [|reflexivity]. cbn [negb orb].
    destruct (HG e He) as [H1 H2]. apply Z.eqb_eq in E. apply H1 in E.
    destruct (snd (G e)) as [y|] eqn:Ey; [|contradiction]. destruct (H2 y eq_refl) as [-> _].
    apply existsb_exists. exists (L (enc_ident (fst (fst e)) ++ [of_Zs (snd (fst e))])). split.
    + apply Hst. eauto.
    + rewrite ident_eqb_enc.
      replace (sx_nth (L (enc_ident (fst (fst e)) ++ [of_Zs (snd (fst e))])) 2) with (of_Zs (snd (fst e))) by reflexivity.
      rewrite sx_Zs_of_Zs, bytes_eqb_refl. reflexivity.
Qed.

Lemma silent_batch_update inp orc res :
  sx_Z (sx_nth inp 0) = 2 ->
  agree14 inp (run14 inp orc) res = true -> mon_batch_update inp res = [].
Proof.
  intros Hk. unfold agree14, run14. rewrite Hk. cbn [Z.eqb Pos.eqb].
  intro H. apply sx_eqb_eq in H. subst res.
  unfold mon_batch_update, run_batch_update. cbv zeta.
  set (blobs := dec_blobs (sx_nth inp 1)).
  set (es := map (dec_uentry blobs) (sx_list (sx_nth inp 2))).
  assert (Hrs : batch_update (hash_of blobs) (map (fun e => (fst e, upd_mode es (fst (fst e)))) es)
                = map (fun e => batch_update_entry (hash_of blobs) (fst (fst e)) (snd (fst e)) (upd_mode es (fst (fst e)))) es).
  { unfold batch_update. rewrite map_map. reflexivity. }
  rewrite Hrs. rewrite !sx_nth_L. cbn [nth sx_Z sx_list]. cbn [Z.eqb andb].
  match goal with |- context [map ?g es] => match g with context [batch_update_entry] => set (G := g) end end.
  destruct (bu_generic (hash_of blobs) es G) as (H1 & H2 & H3).
  { intros [[d data] pm] _. cbn [fst snd]. unfold G. cbn [fst snd].
    destruct (batch_update_entry (hash_of blobs) d data (upd_mode es d)) as [c o] eqn:E.
    destruct (batch_update_entry_spec _ _ _ _ _ _ E) as [Ha Hb]. cbn [fst snd]. split; [exact Ha|].
    intros y Hy. destruct (Hb y Hy) as (A1 & A2 & _). auto. }
  cbv zeta in H1, H2, H3. apply cl_false, negb_false_iff.
  apply andb_true_intro; split; [apply andb_true_intro; split|]; [exact H1|exact H2|exact H3].
Qed.

(** * Kind 3: BatchReadBlobs *)
Lemma rd_mode_inr_nz (es : list (dig * Z * bytes)) d : forall acc : bytes + Z,
  (forall c, acc = inr c -> c <> 0) ->
  forall c, fold_left (fun (acc : bytes + Z) (e : dig * Z * bytes) => if dig_eqb (fst (fst e)) d then
                          (let bm := snd (fst e) in
                           if bm =? 0 then inl (snd e) else if bm =? 1 then inr 1 else inr bm)
                        else acc) es acc = inr c -> c <> 0.
Proof.
  induction es as [|e es IH]; intros acc Hacc c; cbn [fold_left]; [apply Hacc|].
  apply IH. destruct (dig_eqb (fst (fst e)) d); [|exact Hacc]. cbv zeta.
  destruct (snd (fst e) =? 0) eqn:E0; [discriminate|].
  destruct (snd (fst e) =? 1); intros c' H; inversion H; subst; [discriminate|].
  apply Z.eqb_neq. exact E0.
Qed.

Lemma silent_batch_read inp orc res :
  sx_Z (sx_nth inp 0) = 3 ->
  agree14 inp (run14 inp orc) res = true -> mon_batch_read inp res = [].
Proof.
  intros Hk. unfold agree14, run14. rewrite Hk. cbn [Z.eqb Pos.eqb].
  intro H. apply sx_eqb_eq in H. subst res.
  unfold mon_batch_read, run_batch_read. cbv zeta.
  set (blobs := dec_blobs (sx_nth inp 1)).
  set (es := map (dec_rentry blobs) (sx_list (sx_nth inp 2))).
  set (ds := map (fun e : dig * Z * bytes => fst (fst e)) es).
  destruct (batch_read (rd_get blobs es) (sx_Z (sx_nth inp 3)) ds) as [rs|] eqn:Hb.
  2:{ reflexivity. }
  apply batch_read_some in Hb. subst rs.
  rewrite !sx_nth_L. cbn [nth sx_Z sx_list]. cbn [Z.eqb negb].
  rewrite combine_map_self. unfold ds. rewrite !map_map. cbn [fst snd].
  set (r := fun e : dig * Z * bytes => L [L (enc_ident (fst (fst e)));
                 A (fst (batch_read_entry (rd_get blobs es) (fst (fst e))));
                 of_Zs (snd (batch_read_entry (rd_get blobs es) (fst (fst e))))]).
  change (map _ es) with (map r es). rewrite combine_map_l, map_length, Nat.eqb_refl. cbn [andb].
  apply cl_false, negb_false_iff, forallb_forall. intros p Hp.
  apply in_map_iff in Hp. destruct Hp as (e & <- & He). cbn [fst snd]. unfold r.
  rewrite !sx_nth_L. cbn [nth sx_Z]. rewrite ident_eqb_enc', sx_Zs_of_Zs. cbn [andb].
  unfold batch_read_entry, rd_get.
  destruct (rd_mode es (fst (fst e))) as [y|c] eqn:Em.
  - unfold backend_get. destruct (valid (hash_of blobs) (fst (fst e)) y); cbn [fst snd].
    + rewrite bytes_eqb_refl. reflexivity.
    + reflexivity.
  - assert (Hc : c <> 0).
    { unfold rd_mode in Em. eapply rd_mode_inr_nz; [|exact Em]. intros c' H. inversion H. discriminate. }
    destruct (c =? 1); cbn [fst snd]; [reflexivity|].
    apply Z.eqb_neq in Hc. rewrite Hc. reflexivity.
Qed.

(** * Kind 4: FindMissingBlobs *)
Lemma existsb_map {A B} (f : B -> bool) (g : A -> B) l : existsb f (map g l) = existsb (fun a => f (g a)) l.
Proof. induction l as [|a l IH]; [reflexivity|]. cbn. rewrite IH. reflexivity. Qed.

Lemma sx_subset_in a b x : sx_subset a b = true -> In x a -> In x b.
Proof.
  unfold sx_subset. rewrite forallb_forall. intros H Hx. specialize (H x Hx).
  apply existsb_exists in H. destruct H as (y & Hy & E). apply sx_eqb_eq in E. subst. exact Hy.
Qed.

(** What the monitor demands of a FindMissing answer, given the digests asked
    for, the backend's missing predicate and the model's list. *)
Lemma fm_generic (ds : list dig) (miss : dig -> bool) (msl : list sx) :
  sx_seteq msl (map (fun d => L (enc_ident d)) (filter miss ds)) = true ->
  forallb (fun m => existsb (fun d => ident_eqb m d && miss d) ds) msl = true
  /\ forallb (fun d => negb (miss d) || existsb (fun m => ident_eqb m d) msl) ds = true.
Proof.
  unfold sx_seteq. intro H. apply andb_prop in H. destruct H as [H1 H2]. split.
  - apply forallb_forall. intros m Hm. apply (sx_subset_in _ _ _ H1) in Hm.
    apply in_map_iff in Hm. destruct Hm as (d & <- & Hd). apply filter_In in Hd. destruct Hd as [Hd Hmiss].
    apply existsb_exists. exists d. split; [exact Hd|]. rewrite ident_eqb_enc', Hmiss. reflexivity.
  - apply forallb_forall. intros d Hd. destruct (miss d) eqn:Hmiss; [|reflexivity]. cbn [negb orb].
    apply existsb_exists. exists (L (enc_ident d)). split; [|apply ident_eqb_enc'].
    apply (sx_subset_in _ _ _ H2). apply in_map_iff. exists d. split; [reflexivity|].
    apply filter_In. auto.
Qed.

Lemma forallb_ext' {A} (f g : A -> bool) l : (forall a, f a = g a) -> forallb f l = forallb g l.
Proof. intro H. induction l as [|a l IH]; [reflexivity|]. cbn. rewrite H, IH. reflexivity. Qed.

Lemma find_missing_ne missing fmerr ds :
  ds <> [] ->
  find_missing missing fmerr ds =
  if existsb (fun d => d_size d <? 0) ds then (cInvalidArgument, [])
  else if negb (fmerr =? 0) then (fmerr, []) else (0, filter missing ds).
Proof. destruct ds; [congruence|reflexivity]. Qed.

Lemma silent_find_missing inp orc res :
  sx_Z (sx_nth inp 0) = 4 ->
  agree14 inp (run14 inp orc) res = true -> mon_find_missing inp res = [].
Proof.
  intros Hk. unfold agree14, run14. rewrite Hk. cbn [Z.eqb Pos.eqb].
  unfold mon_find_missing, run_find_missing. cbv zeta.
  set (blobs := dec_blobs (sx_nth inp 1)).
  remember (map (dec_fentry blobs) (sx_list (sx_nth inp 2))) as es eqn:Hes. clear Hes.
  destruct es as [|e0 es'] eqn:Ees.
  - cbn [map find_missing]. rewrite !sx_nth_L. cbn [nth sx_list map]. intro H. apply andb_prop in H. destruct H as [H0 H1].
    apply sx_eqb_eq in H0. unfold sx_seteq in H1. apply andb_prop in H1. destruct H1 as [H1 _].
    apply sx_subset_nil in H1. rewrite H0, H1. cbn [existsb orb sx_Z].
    destruct (negb (sx_Z (sx_nth inp 3) =? 0)); reflexivity.
  - rewrite <- Ees. rewrite find_missing_ne by (subst es; discriminate).
    rewrite existsb_map.
    destruct (existsb (fun a => d_size (fst a) <? 0) es) eqn:Eill.
    + cbn [orb]. rewrite !sx_nth_L. cbn [nth sx_list map]. intro H. apply andb_prop in H. destruct H as [H0 H1].
      apply sx_eqb_eq in H0. unfold sx_seteq in H1. apply andb_prop in H1. destruct H1 as [H1 _].
      apply sx_subset_nil in H1. rewrite H0, H1. reflexivity.
    + cbn [orb]. destruct (sx_Z (sx_nth inp 3) =? 0) eqn:Efm; cbn [negb].
      * rewrite !sx_nth_L. cbn [nth sx_list]. intro H. apply andb_prop in H. destruct H as [H0 H1].
        apply sx_eqb_eq in H0. rewrite H0. cbn [sx_Z Z.eqb andb].
        destruct (fm_generic (map fst es) (fm_missing es) _ H1) as [G1 G2].
        apply cl_false, negb_false_iff. apply andb_true_intro. split.
        -- rewrite <- G1. apply forallb_ext'. intro m. rewrite existsb_map. reflexivity.
        -- rewrite forallb_forall in G2. apply forallb_forall. intros e He. apply G2.
           apply in_map. exact He.
      * rewrite !sx_nth_L. cbn [nth sx_list map]. intro H. apply andb_prop in H. destruct H as [H0 H1].
        apply sx_eqb_eq in H0. unfold sx_seteq in H1. apply andb_prop in H1. destruct H1 as [H1 _].
        apply sx_subset_nil in H1. rewrite H0, H1. cbn [sx_Z]. rewrite Efm.
        destruct es; reflexivity.
Qed.

(** * Kind 6: ActionCache *)
Lemma silent_ac inp orc res k :
  sx_Z (sx_nth inp 0) = k -> k <> 0 -> k <> 1 -> k <> 2 -> k <> 3 -> k <> 4 -> k <> 5 ->
  agree14 inp (run14 inp orc) res = true -> mon_ac inp res = [].
Proof.
  intros Hk H0 H1 H2 H3 H4 H5. unfold agree14, run14. rewrite Hk.
  apply Z.eqb_neq in H0, H1, H2, H3, H4, H5. rewrite H0, H1, H2, H3, H4, H5.
  intro H. unfold mon_ac. rewrite H. reflexivity.
Qed.

(** * Kind 5: client <-> server *)
Lemma fround_trip : forall y, fdecompress (fcompress y) = DOk y.
Proof. reflexivity. Qed.

Lemma dig_eqb_eq a b : dig_eqb a b = true -> a = b.
Proof.
  destruct a as [h1 s1], b as [h2 s2]. unfold dig_eqb. cbn. intro H. apply andb_prop in H.
  destruct H as [H1 H2]. apply Z.eqb_eq in H1. apply Z.eqb_eq in H2. subst. reflexivity.
Qed.

(** [hash_of]: equal non-zero indices name the same byte string. *)
Lemma index_of_spec y : forall l i j, 0 < i -> index_of y l i = j ->
  (j = 0 /\ ~ In y l) \/ (i <= j /\ nth_error l (Z.to_nat (j - i)) = Some y).
Proof.
  induction l as [|z l IH]; intros i j Hi H; cbn [index_of] in H.
  - left. split; [auto|intros []].
  - destruct (bytes_eqb y z) eqn:E.
    + apply bytes_eqb_eq in E. subst. right. split; [lia|]. rewrite Z.sub_diag. reflexivity.
    + destruct (IH (i + 1) j ltac:(lia) H) as [[Hj Hn]|[Hj Hn]].
      * left. split; [exact Hj|]. intros [->|Hin]; [rewrite bytes_eqb_refl in E; discriminate|contradiction].
      * right. split; [lia|]. replace (Z.to_nat (j - i)) with (S (Z.to_nat (j - (i + 1)))) by lia. exact Hn.
Qed.

Lemma hash_of_nil_eq blobs bi :
  hash_of blobs [] = hash_of blobs (blob blobs bi) -> blob blobs bi = [].
Proof.
  unfold blob. destruct (nth_in_or_default (Z.to_nat bi) blobs []) as [Hin|E]; [|intros _; exact E].
  set (x := nth (Z.to_nat bi) blobs []) in *. unfold hash_of. intro H.
  destruct (index_of_spec x blobs 1 _ ltac:(lia) eq_refl) as [[_ Hn]|[Hj Hx]]; [contradiction|].
  destruct (index_of_spec [] blobs 1 _ ltac:(lia) eq_refl) as [[H0 _]|[_ Hy]].
  - rewrite <- H in Hj. lia.
  - rewrite H in Hy. rewrite Hx in Hy. inversion Hy. reflexivity.
Qed.

Definition st_valid (blobs : list bytes) (st : store) : Prop :=
  forall d y, In (d, y) st -> valid (hash_of blobs) d y = true.

Lemma st_get_some st d y : st_get st d = Some y -> In (d, y) st.
Proof.
  unfold st_get. destruct (find (fun e => dig_eqb (fst e) d) st) as [[d' y']|] eqn:E; [|discriminate].
  intro H. inversion H. subst. apply find_some in E. destruct E as [Hin Hd]. cbn in Hd.
  apply dig_eqb_eq in Hd. subst. exact Hin.
Qed.

Lemma st_put_valid blobs st d y :
  st_valid blobs st -> valid (hash_of blobs) d y = true -> st_valid blobs (st_put st d y).
Proof.
  intros Hst Hv d' y' [E|Hin].
  - inversion E. subst. exact Hv.
  - apply filter_In in Hin. destruct Hin as [Hin _]. eapply Hst; eauto.
Qed.

Definition op_wf (blobs : list bytes) (op : sx) : Prop :=
  let k := sx_Z (sx_nth op 0) in
  if k =? 0 then blen (blob blobs (sx_Z (sx_nth op 1))) <= backend_max
  else if k =? 1 then sx_Z (sx_nth op 2) <= backend_max
  else Forall (fun e => 0 <= sx_Z (sx_nth e 1)) (sx_list (sx_nth op 1)).

Lemma client_put_model blobs zstd chunk bi size :
  (0 < chunk)%nat -> blen (blob blobs bi) <= backend_max ->
  let d := mkD (hash_of blobs (blob blobs bi)) size in
  let x := blob blobs bi in
  let r := client_put (hash_of blobs) fdecompress fcompress zstd chunk [] d x in
  if valid (hash_of blobs) d x
  then wr_code r = 0 /\ wr_stored r = Some x
  else wr_code r <> 0 /\ wr_stored r = None.
Proof.
  intros Hc Hm d x r. destruct (valid (hash_of blobs) d x) eqn:Hv.
  - assert (Hs : d_size d <= backend_max).
    { unfold valid in Hv. apply andb_prop in Hv. destruct Hv as [Hv _]. apply Z.eqb_eq in Hv.
      rewrite <- Hv. exact Hm. }
    unfold r. destruct zstd.
    + rewrite (client_put_zstd_stores _ _ _ fround_trip _ _ _ _ Hv Hs). split; reflexivity.
    + rewrite (client_put_identity_stores _ fdecompress fcompress _ _ _ _ Hv Hc Hs). split; reflexivity.
  - unfold r, client_put. rewrite Hv. cbn [wr_code wr_stored]. split; [discriminate|].
    destruct zstd; [|reflexivity].
    change (client_msgs []) with [mkW 0 [] true]. cbn [write]. unfold write_zstd.
    cbn [w_off w_data w_fin z_recv]. change (negb (0 =? 0)) with false. cbv iota.
    destruct (backend_max <? d_size d); [reflexivity|]. cbn [app fdecompress].
    destruct (valid (hash_of blobs) d []) eqn:Hv0; [|reflexivity]. exfalso.
    unfold valid in Hv0, Hv. cbn [d_size d_hash d] in Hv0, Hv.
    apply andb_prop in Hv0. destruct Hv0 as [H1 H2]. apply Z.eqb_eq in H2.
    apply hash_of_nil_eq in H2. unfold x in Hv. rewrite H2 in Hv. rewrite H1, Z.eqb_refl in Hv. discriminate.
Qed.

Lemma client_get_model blobs zstd chunk st d :
  (0 < chunk)%nat -> d_size d <= backend_max -> st_valid blobs st ->
  client_get (hash_of blobs) fdecompress fcompress zstd chunk [] []
             (fun d' => backend_get (hash_of blobs) (st_get st d') d') d
  = match st_get st d with Some y => inl y | None => inr cNotFound end.
Proof.
  intros Hc Hm Hst. destruct (st_get st d) as [y|] eqn:Eg.
  - assert (Hv : valid (hash_of blobs) d y = true) by (eapply Hst, st_get_some; eauto).
    assert (Hg : (fun d' => backend_get (hash_of blobs) (st_get st d') d') d = inl y).
    { cbv beta. rewrite Eg. unfold backend_get. rewrite Hv. reflexivity. }
    destruct zstd.
    + exact (client_get_zstd_returns _ _ _ fround_trip _ _ _ _ _ _ Hg Hv Hm).
    + exact (client_get_identity_returns _ fdecompress fcompress _ _ _ _ _ _ Hg Hv Hc Hm).
  - apply client_get_error; [cbv beta; rewrite Eg; reflexivity|discriminate|exact Hm].
Qed.

Lemma silent_cs_ops blobs zstd chunk : (0 < chunk)%nat ->
  forall ops st rs stf ms,
    st_valid blobs st -> Forall (op_wf blobs) ops ->
    cs_ops blobs zstd chunk st ops = (stf, ms) ->
    cs_res_all ops rs ms = true ->
    mon_cs_ops blobs st ops rs = (true, stf).
Proof.
  intros Hc. induction ops as [|op ops IH]; intros st rs stf ms Hst Hwf Hrun Hag.
  - cbn in Hrun. inversion Hrun. subst. destruct rs; [reflexivity|discriminate].
  - cbn [cs_ops] in Hrun.
    destruct (cs_op blobs zstd chunk st op) as [st1 m] eqn:Eop.
    destruct (cs_ops blobs zstd chunk st1 ops) as [st2 ms'] eqn:Eops.
    inversion Hrun. subst stf ms. clear Hrun.
    destruct rs as [|r rs]; [discriminate|]. cbn [cs_res_all] in Hag.
    apply andb_prop in Hag. destruct Hag as [Hr Hag].
    inversion Hwf as [|? ? Hop Hwf']. subst.
    cbn [mon_cs_ops]. unfold cs_op in Eop. unfold cs_res_eqb in Hr. unfold op_wf in Hop. cbv zeta in Hop.
    destruct (sx_Z (sx_nth op 0) =? 0) eqn:E0.
    + (* Put *)
      assert (E2 : (sx_Z (sx_nth op 0) =? 2) = false).
      { apply Z.eqb_eq in E0. rewrite E0. reflexivity. }
      rewrite E2 in Hr. apply sx_eqb_eq in Hr. subst r.
      pose proof (client_put_model blobs zstd chunk (sx_Z (sx_nth op 1)) (sx_Z (sx_nth op 2)) Hc Hop) as Hput.
      cbv zeta in Hput. unfold dec_dig in *.
      destruct (valid (hash_of blobs) _ (blob blobs (sx_Z (sx_nth op 1)))) eqn:Hv.
      * destruct Hput as [Hcode Hstored]. rewrite Hstored in Eop. inversion Eop. subst st1 m.
        rewrite sx_nth_L. cbn [nth sx_Z]. rewrite Hcode. cbn [Z.eqb].
        eapply IH; eauto. apply st_put_valid; assumption.
      * destruct Hput as [Hcode Hstored]. rewrite Hstored in Eop. inversion Eop. subst st1 m.
        rewrite sx_nth_L. cbn [nth sx_Z]. apply Z.eqb_neq in Hcode. rewrite Hcode.
        eapply IH; eauto.
    + destruct (sx_Z (sx_nth op 0) =? 1) eqn:E1.
      * (* Get *)
        assert (E2 : (sx_Z (sx_nth op 0) =? 2) = false).
        { apply Z.eqb_eq in E1. rewrite E1. reflexivity. }
        rewrite E2 in Hr. apply sx_eqb_eq in Hr. subst r.
        rewrite (client_get_model blobs zstd chunk st (dec_dig blobs (sx_nth op 1) (sx_nth op 2)) Hc Hop Hst) in Eop.
        destruct (st_get st (dec_dig blobs (sx_nth op 1) (sx_nth op 2))) as [y|] eqn:Eg;
          inversion Eop; subst st1 m; rewrite !sx_nth_L; cbn [nth sx_Z].
        -- rewrite sx_Zs_of_Zs, bytes_eqb_refl. cbn [Z.eqb andb]. eapply IH; eauto.
        -- cbn. eapply IH; eauto.
      * (* FindMissing *)
        set (ds := map (fun e => dec_dig blobs (sx_nth e 0) (sx_nth e 1)) (sx_list (sx_nth op 1))) in *.
        set (miss := fun d0 : dig => match st_get st d0 with Some _ => false | None => true end) in *.
        assert (Hfm : find_missing miss 0 ds = (0, filter miss ds)).
        { destruct ds as [|d0 ds'] eqn:Eds; [reflexivity|]. rewrite <- Eds.
          rewrite find_missing_ne by (rewrite Eds; discriminate).
          assert (Hn : existsb (fun d0 => d_size d0 <? 0) ds = false).
          { unfold ds. rewrite existsb_map. cbn [dec_dig d_size].
            destruct (existsb _ _) eqn:Ex; [|reflexivity]. apply existsb_exists in Ex.
            destruct Ex as (e & He & Hlt). rewrite Forall_forall in Hop. specialize (Hop e He).
            apply Z.ltb_lt in Hlt. lia. }
          rewrite Hn. reflexivity. }
        rewrite Hfm in Eop. inversion Eop. subst st1 m. clear Eop.
        assert (Hr' : sx_eqb (sx_nth r 0) (A 0) = true
                      /\ sx_seteq (sx_list (sx_nth r 1)) (map (fun d0 => L (enc_ident d0)) (filter miss ds)) = true).
        { destruct (sx_Z (sx_nth op 0) =? 2).
          - apply andb_prop in Hr. exact Hr.
          - apply sx_eqb_eq in Hr. subst r. rewrite !sx_nth_L. cbn [nth sx_list]. split; [reflexivity|].
            unfold sx_seteq. assert (Hs : forall l, sx_subset l l = true).
            { intro l. unfold sx_subset. apply forallb_forall. intros z Hz. apply existsb_exists.
              exists z. split; [exact Hz|apply sx_eqb_refl]. }
            rewrite Hs. reflexivity. }
        destruct Hr' as [Hr0 Hr1]. apply sx_eqb_eq in Hr0. rewrite Hr0. cbn [sx_Z Z.eqb andb].
        destruct (fm_generic ds miss _ Hr1) as [G1 G2]. unfold miss in G1, G2. cbv beta in G1, G2.
        rewrite G1, G2. cbn [andb].
        eapply IH; eauto.
Qed.

Definition cs_wf (inp : sx) : Prop :=
  (0 < sx_nat (sx_nth inp 3))%nat
  /\ Forall (op_wf (dec_blobs (sx_nth inp 1))) (sx_list (sx_nth inp 4)).

Lemma silent_cs inp orc res :
  sx_Z (sx_nth inp 0) = 5 -> cs_wf inp ->
  agree14 inp (run14 inp orc) res = true -> mon_cs inp res = [].
Proof.
  intros Hk [Hc Hops]. unfold agree14, run14. rewrite Hk. cbn [Z.eqb Pos.eqb].
  unfold run_cs, mon_cs.
  destruct (cs_ops (dec_blobs (sx_nth inp 1)) (negb (sx_Z (sx_nth inp 2) =? 0)) (sx_nat (sx_nth inp 3)) []
                   (sx_list (sx_nth inp 4))) as [stf ms] eqn:Erun.
  rewrite !sx_nth_L. cbn [nth sx_list].
  intro H. apply andb_prop in H. destruct H as [H Hset]. apply andb_prop in H. destruct H as [Hall _].
  rewrite (silent_cs_ops _ _ _ Hc _ _ _ _ _ (fun d y (F : In (d, y) []) => match F with end) Hops Erun Hall).
  rewrite Hset. reflexivity.
Qed.

(** * The theorem *)
Definition inp_wf (inp : sx) : Prop :=
  (sx_Z (sx_nth inp 0) = 1 -> sx_Z (sx_nth (sx_nth inp 2) 0) = 0 ->
     (0 < sx_nat (sx_nth inp 6))%nat
     /\ forall j c, dec_sendfail (sx_nth inp 7) = Some (j, c) -> c <> 0)
  /\ (sx_Z (sx_nth inp 0) = 5 -> cs_wf inp).

Theorem mon14_silent_on_agreeing : forall inp obs,
  inp_wf inp ->
  agree14 inp (run14 inp (sx_nth obs 0)) (sx_nth obs 1) = true ->
  mon14 inp obs = [].
Proof.
  intros inp obs [Hr Hcs] Hag. unfold mon14. cbv zeta.
  destruct (sx_Z (sx_nth inp 0) =? 0) eqn:E0; [apply Z.eqb_eq in E0; eapply silent_write; eauto|].
  destruct (sx_Z (sx_nth inp 0) =? 1) eqn:E1; [apply Z.eqb_eq in E1; eapply silent_read; eauto|].
  destruct (sx_Z (sx_nth inp 0) =? 2) eqn:E2; [apply Z.eqb_eq in E2; eapply silent_batch_update; eauto|].
  destruct (sx_Z (sx_nth inp 0) =? 3) eqn:E3; [apply Z.eqb_eq in E3; eapply silent_batch_read; eauto|].
  destruct (sx_Z (sx_nth inp 0) =? 4) eqn:E4; [apply Z.eqb_eq in E4; eapply silent_find_missing; eauto|].
  destruct (sx_Z (sx_nth inp 0) =? 5) eqn:E5; [apply Z.eqb_eq in E5; eapply silent_cs; eauto|].
  eapply silent_ac; [reflexivity| | | | | | |exact Hag]; apply Z.eqb_neq; assumption.
Qed.

(** The model's own (primary) outcome, in the shape of an implementation
    result, is one of the observations the judge accepts. *)
Definition model_res (inp orc : sx) : sx :=
  let m := run14 inp orc in
  if sx_Z (sx_nth inp 0) =? 0 then L [sx_nth m 0; sx_nth m 2; sx_nth m 3] else m.

Lemma sx_subset_refl l : sx_subset l l = true.
Proof.
  unfold sx_subset. apply forallb_forall. intros z Hz. apply existsb_exists.
  exists z. split; [exact Hz|apply sx_eqb_refl].
Qed.

Lemma sx_seteq_refl l : sx_seteq l l = true.
Proof. unfold sx_seteq. rewrite sx_subset_refl. reflexivity. Qed.

Lemma cs_ops_res_refl blobs zstd chunk : forall ops st stf ms,
  cs_ops blobs zstd chunk st ops = (stf, ms) -> cs_res_all ops ms ms = true.
Proof.
  induction ops as [|op ops IH]; intros st stf ms H; cbn [cs_ops] in H.
  - inversion H. reflexivity.
  - destruct (cs_op blobs zstd chunk st op) as [st1 m]. destruct (cs_ops blobs zstd chunk st1 ops) as [st2 ms'] eqn:E.
    inversion H. subst. cbn [cs_res_all]. rewrite (IH _ _ _ E), andb_true_r.
    unfold cs_res_eqb. destruct (sx_Z (sx_nth op 0) =? 2); [|apply sx_eqb_refl].
    rewrite sx_eqb_refl, sx_seteq_refl. reflexivity.
Qed.

Lemma read_err_nodata compress rn limit get k chunk pieces c msgs :
  read compress rn limit get k chunk pieces None = (c, msgs) -> c <> 0 -> msgs = [].
Proof.
  unfold read. destruct (negb (limit =? 0)); [intro H; inversion H; reflexivity|].
  destruct rn as [d|d| |c']; try (intro H; inversion H; reflexivity).
  - unfold read_identity. destruct (get d) as [content|e]; [|intro H; inversion H; reflexivity].
    destruct (offset_ok content k); intro H; inversion H; [contradiction|reflexivity].
  - unfold read_zstd. destruct (get d) as [content|e]; [|intro H; inversion H; reflexivity].
    destruct (offset_ok content k); intro H; inversion H; [contradiction|reflexivity].
Qed.

Lemma agree14_model_res inp orc : agree14 inp (run14 inp orc) (model_res inp orc) = true.
Proof.
  unfold agree14, model_res. cbv zeta.
  destruct (sx_Z (sx_nth inp 0) =? 0) eqn:E0.
  { rewrite !sx_nth_L. cbn [nth]. rewrite !Z.eqb_refl, sx_eqb_refl, orb_true_r. reflexivity. }
  destruct (sx_Z (sx_nth inp 0) =? 1) eqn:E1.
  { destruct (sx_Z (sx_nth (sx_nth inp 2) 0) =? 1) eqn:Ez; [|apply sx_eqb_refl].
    destruct (dec_sendfail (sx_nth inp 7)) as [[j fc]|]; [|rewrite !sx_eqb_refl; reflexivity].
    destruct (sx_Z (sx_nth (run14 inp orc) 0) =? 0) eqn:Ec; cbn [negb].
    - rewrite !sx_eqb_refl. reflexivity.
    - rewrite sx_eqb_refl. cbn [andb].
      unfold run14 in *. rewrite E0, E1 in *. unfold run_read in *.
      destruct (dec_rn (dec_blobs (sx_nth inp 1)) (sx_nth inp 2)) as [d0|d0| |c0] eqn:Ern.
      + apply dec_rn_identity in Ern. destruct Ern as (_ & Hrk & _). rewrite Hrk in Ez. discriminate.
      + destruct (read fcompress (RZstd d0) _ _ _ _ [] None) as [c msgs] eqn:Er.
        rewrite sx_nth_L in Ec. cbn [nth sx_Z] in Ec. apply Z.eqb_neq in Ec.
        rewrite (read_err_nodata _ _ _ _ _ _ _ _ _ Er Ec). reflexivity.
      + unfold read. destruct (negb (sx_Z (sx_nth inp 5) =? 0)); reflexivity.
      + unfold read. destruct (negb (sx_Z (sx_nth inp 5) =? 0)); reflexivity. }
  destruct (sx_Z (sx_nth inp 0) =? 5) eqn:E5.
  { unfold run14. rewrite E0, E1, E5.
    assert (E2 : (sx_Z (sx_nth inp 0) =? 2) = false) by (apply Z.eqb_eq in E5; rewrite E5; reflexivity).
    assert (E3 : (sx_Z (sx_nth inp 0) =? 3) = false) by (apply Z.eqb_eq in E5; rewrite E5; reflexivity).
    assert (E4 : (sx_Z (sx_nth inp 0) =? 4) = false) by (apply Z.eqb_eq in E5; rewrite E5; reflexivity).
    rewrite E2, E3, E4. unfold run_cs.
    destruct (cs_ops _ _ _ [] (sx_list (sx_nth inp 4))) as [stf ms] eqn:E.
    rewrite !sx_nth_L. cbn [nth sx_list]. rewrite (cs_ops_res_refl _ _ _ _ _ _ _ E), Nat.eqb_refl, sx_seteq_refl.
    reflexivity. }
  destruct (sx_Z (sx_nth inp 0) =? 4); [rewrite sx_eqb_refl, sx_seteq_refl; reflexivity|apply sx_eqb_refl].
Qed.

Theorem mon14_silent_on_model : forall inp orc,
  inp_wf inp -> mon14 inp (L [orc; model_res inp orc]) = [].
Proof.
  intros inp orc Hwf. apply mon14_silent_on_agreeing; [exact Hwf|].
  rewrite !sx_nth_L. cbn [nth]. apply agree14_model_res.
Qed.

(** * Every hypothesis is needed: the monitor fires on the model without it *)

(** identity read with chunk size 0: the model sends one empty message. *)
Example read_chunk_needed :
  let inp := L [A 1; L [L [A 7]]; L [A 0; A 0; A 1]; A 0; A 0; A 0; A 0; L []] in
  mon14 inp (L [L []; model_res inp (L [])]) = [6].
Proof. vm_compute. reflexivity. Qed.

(** identity read whose Send fails "with code 0" before the first message. *)
Example read_sendfail_code_needed :
  let inp := L [A 1; L [L [A 7]]; L [A 0; A 0; A 1]; A 0; A 0; A 0; A 1; L [A 0; A 0]] in
  mon14 inp (L [L []; model_res inp (L [])]) = [6].
Proof. vm_compute. reflexivity. Qed.

(** client <-> server with chunk size 0: the upload carries no data. *)
Example cs_chunk_needed :
  let inp := L [A 5; L [L [A 7]]; A 0; A 0; L [L [A 0; A 0; A 1]]] in
  mon14 inp (L [L []; model_res inp (L [])]) = [11].
Proof. vm_compute. reflexivity. Qed.

(** client <-> server Get of an absent digest larger than the ToByteSlice limit:
    INVALID_ARGUMENT instead of NOT_FOUND (an input harness/c14.go accepts). *)
Example cs_get_size_needed :
  let inp := L [A 5; L [L [A 7]]; A 0; A 1; L [L [A 1; A 0; A 1048577]]] in
  mon14 inp (L [L []; model_res inp (L [])]) = [11].
Proof. vm_compute. reflexivity. Qed.

(** client <-> server FindMissing with a negative size: INVALID_ARGUMENT. *)
Example cs_fm_size_needed :
  let inp := L [A 5; L [L [A 7]]; A 0; A 1; L [L [A 2; L [L [A 0; A (-1)]]]]] in
  mon14 inp (L [L []; model_res inp (L [])]) = [11].
Proof. vm_compute. reflexivity. Qed.

(** client <-> server Put of a (valid) blob of 1 MiB + 1 bytes. *)
Example cs_put_size_needed :
  let inp := L [A 5; L [L (map A (repeat 0 (Z.to_nat 1048577)))]; A 0; A 1048577; L [L [A 0; A 0; A 1048577]]] in
  mon14 inp (L [L []; model_res inp (L [])]) = [11].
Proof. vm_compute. reflexivity. Qed.

(** Non-vacuity: a three-operation client <-> server case inside the domain. *)
Example cs_ok_example :
  let inp := L [A 5; L [L [A 7; A 8; A 9]]; A 1; A 2;
                L [L [A 0; A 0; A 3]; L [A 1; A 0; A 3]; L [A 2; L [L [A 0; A 3]; L [A 0; A 4]]]]] in
  inp_wf inp
  /\ model_res inp (L []) = L [L [L [A 0; L []]; L [A 0; L [A 7; A 8; A 9]]; L [A 0; L [L [A 0; A 4]]]];
                               L [L [A 0; A 3; L [A 7; A 8; A 9]]]].
Proof.
  split; [|vm_compute; reflexivity].
  split; [intro H; vm_compute in H; discriminate|]. intros _. split; [vm_compute; lia|].
  repeat constructor; vm_compute; try discriminate.
  all: repeat constructor; vm_compute; discriminate.
Qed.
