(** C17 / C17L: facts about the event log of a model trace (Compose/EventLog.v)
    and about the monitor's log predicates (Run/R17Conc.v) that the silence
    proofs of clauses 24, 25 and 27 share. *)
From Coq Require Import List ZArith NArith Bool Arith Lia.
From BBS Require Import Common.Sx Common.ListX Run.MonSilentSx Compose.ExistenceCache Compose.ExistenceCacheProofs
  Compose.Replicators Compose.ReplicatorsProofs Compose.MonSilentRepl Compose.EventLog Run.R17Conc.
Import ListNotations.
Local Open Scope nat_scope.

Lemma sx_nat_of_nat n : sx_nat (of_nat n) = n.
Proof. unfold sx_nat, of_nat. cbn [sx_Z]. apply Nat2Z.id. Qed.
Lemma sx_N_of_N n : sx_N (of_N n) = n.
Proof. unfold sx_N, of_N. cbn [sx_Z]. apply N2Z.id. Qed.

(** * The monitor's event classes *)
Definition is_start (i : nat) (e : sx) : bool := Z.eqb (lg_kind e) 0 && Nat.eqb (lg_caller e) i.
Definition is_succ (i : nat) (e : sx) : bool :=
  Z.eqb (lg_kind e) 3 && Nat.eqb (lg_caller e) i && Z.eqb (sx_Z (sx_nth e 2)) 0.
Definition same_caller (e e' : sx) : bool := Nat.eqb (lg_caller e') (lg_caller e).

Definition started_at (i : nat) (lg : list sx) (st : nat) : Prop := index_where (is_start i) lg 0 = Some st.
Definition tstart_of (lg : list sx) (st : nat) : N := sx_N (sx_nth (nth st lg (L [])) 2).
Definition J (d st : nat) (lg : list sx) : Prop := justified_after d st lg 0 = true.

Lemma caller_start i t : lg_caller (ev_start i t) = i.  Proof. apply sx_nat_of_nat. Qed.
Lemma caller_call i bk op d t : lg_caller (ev_call i bk op d t) = i.  Proof. apply sx_nat_of_nat. Qed.
Lemma caller_ret i bk op d c a t : lg_caller (ev_ret i bk op d c a t) = i.  Proof. apply sx_nat_of_nat. Qed.
Lemma caller_done i c t : lg_caller (ev_done i c t) = i.  Proof. apply sx_nat_of_nat. Qed.

Lemma arrive_caller i t p x : In x (arrive i t p) -> lg_caller x = i.
Proof. destruct p; cbn [arrive]; intros H; try contradiction; destruct H as [<-|[]]; apply sx_nat_of_nat. Qed.
Lemma returned_caller i s f p x : In x (returned i s f p) -> lg_caller x = i.
Proof. destruct p; cbn [returned]; intros H; try contradiction; destruct H as [<-|[]]; apply sx_nat_of_nat. Qed.

Lemma arrive_not_start i t p j x : In x (arrive i t p) -> is_start j x = false.
Proof. destruct p; cbn [arrive]; intros H; try contradiction; destruct H as [<-|[]]; reflexivity. Qed.
Lemma returned_not_start i s f p j x : In x (returned i s f p) -> is_start j x = false.
Proof. destruct p; cbn [returned]; intros H; try contradiction; destruct H as [<-|[]]; reflexivity. Qed.
Lemma returned_not_succ i s f p j x : In x (returned i s f p) -> is_succ j x = false.
Proof. destruct p; cbn [returned]; intros H; try contradiction; destruct H as [<-|[]]; reflexivity. Qed.

Lemma is_succ_done j i c t : is_succ j (ev_done i c t) = true -> j = i /\ c = 0%Z.
Proof.
  unfold is_succ. rewrite caller_done. change (lg_kind (ev_done i c t)) with 3%Z.
  change (sx_Z (sx_nth (ev_done i c t) 2)) with c. cbn [Z.eqb andb]. intros H.
  apply andb_prop in H. destruct H as [H1 H2]. apply Nat.eqb_eq in H1. apply Z.eqb_eq in H2. auto.
Qed.

Lemma arrive_succ i t p j x : In x (arrive i t p) -> is_succ j x = true -> j = i /\ p = Done 0.
Proof.
  destruct p; cbn [arrive]; intros H; try contradiction; destruct H as [<-|[]]; try discriminate.
  intros H. apply is_succ_done in H. destruct H as [-> ->]. auto.
Qed.

Lemma is_start_start j i t : is_start j (ev_start i t) = Nat.eqb i j.
Proof. unfold is_start. rewrite caller_start. reflexivity. Qed.
Lemma is_succ_start j i t : is_succ j (ev_start i t) = false.
Proof. reflexivity. Qed.

(** * [index_where] *)
Lemma iw_app_some p l1 l2 : forall n st, index_where p l1 n = Some st -> index_where p (l1 ++ l2) n = Some st.
Proof.
  induction l1 as [|e r IH]; intros n st H; cbn [index_where app] in *; [discriminate|].
  destruct (p e); [exact H|apply IH; exact H].
Qed.

Lemma iw_app_none p l1 l2 : forall n, index_where p l1 n = None -> index_where p (l1 ++ l2) n = index_where p l2 (n + length l1).
Proof.
  induction l1 as [|e r IH]; intros n H; cbn [index_where app length] in *; [f_equal; lia|].
  destruct (p e); [discriminate|]. rewrite IH by exact H. f_equal. lia.
Qed.

Lemma iw_none p l : forall n, (forall x, In x l -> p x = false) -> index_where p l n = None.
Proof.
  induction l as [|e r IH]; intros n H; cbn [index_where]; [reflexivity|].
  rewrite (H e (or_introl eq_refl)). apply IH. intros x Hx. apply H. right. exact Hx.
Qed.

Lemma iw_range p l : forall n st, index_where p l n = Some st -> n <= st < n + length l.
Proof.
  induction l as [|e r IH]; intros n st H; cbn [index_where length] in *; [discriminate|].
  destruct (p e); [inversion H; lia|]. apply IH in H. lia.
Qed.

Lemma iw_app_clean p l1 l2 n : (forall x, In x l2 -> p x = false) -> index_where p (l1 ++ l2) n = index_where p l1 n.
Proof.
  intros H. destruct (index_where p l1 n) as [st|] eqn:E.
  - apply iw_app_some. exact E.
  - rewrite iw_app_none by exact E. apply iw_none. exact H.
Qed.

Lemma iw_some_in p l : forall n st, index_where p l n = Some st -> exists x, In x l /\ p x = true.
Proof.
  induction l as [|e r IH]; intros n st H; cbn [index_where] in *; [discriminate|].
  destruct (p e) eqn:E; [exists e; split; [left; reflexivity|exact E]|].
  destruct (IH _ _ H) as (x & Hx & Px). exists x. split; [right; exact Hx|exact Px].
Qed.

Lemma iw_nth p l : forall n st, index_where p l n = Some st -> p (nth (st - n) l (L [])) = true.
Proof.
  induction l as [|e r IH]; intros n st H; cbn [index_where] in *; [discriminate|].
  destruct (p e) eqn:E.
  - inversion H; subst. rewrite Nat.sub_diag. exact E.
  - pose proof (iw_range _ _ _ _ H) as R. specialize (IH _ _ H).
    replace (st - n) with (S (st - S n)) by lia. exact IH.
Qed.

Lemma started_lt i lg st : started_at i lg st -> st < length lg.
Proof. intros H. apply iw_range in H. lia. Qed.

Lemma started_app i lg new st : started_at i lg st -> started_at i (lg ++ new) st.
Proof. apply iw_app_some. Qed.

Lemma started_app_inv i lg new st : (forall x, In x new -> is_start i x = false) ->
  started_at i (lg ++ new) st -> started_at i lg st.
Proof. unfold started_at. intros H. rewrite iw_app_clean by exact H. auto. Qed.

Lemma tstart_app lg new st : st < length lg -> tstart_of (lg ++ new) st = tstart_of lg st.
Proof. intros H. unfold tstart_of. rewrite app_nth1 by exact H. reflexivity. Qed.

(** * [justified_after] *)
Lemma ja_app d st l1 l2 : forall pos, justified_after d st l1 pos = true -> st < pos + length l1 ->
  justified_after d st (l1 ++ l2) pos = true.
Proof.
  induction l1 as [|e r IH]; intros pos H Hl; cbn [justified_after app length] in *; [discriminate|].
  apply orb_true_iff in H. apply orb_true_iff. destruct H as [H|H].
  - left. apply andb_prop in H. destruct H as [Hj Hn]. rewrite Hj. cbn [andb].
    destruct (index_where (fun e' => Nat.eqb (lg_caller e') (lg_caller e)) r (S pos)) as [nx|] eqn:E.
    + rewrite (iw_app_some _ _ l2 _ _ E). exact Hn.
    + rewrite iw_app_none by exact E.
      destruct (index_where _ l2 _) as [nx|] eqn:E2; [|reflexivity].
      apply iw_range in E2. apply Nat.ltb_lt. lia.
  - right. apply IH; [exact H|lia].
Qed.

Lemma ja_late d st e l : forall pos, st < pos -> In e l -> justifies d e = true -> justified_after d st l pos = true.
Proof.
  induction l as [|x r IH]; intros pos Hp Hin Hj; [destruct Hin|]. cbn [justified_after].
  apply orb_true_iff. destruct Hin as [->|Hin].
  - left. rewrite Hj. cbn [andb].
    destruct (index_where _ r (S pos)) as [nx|] eqn:E; [|reflexivity].
    apply iw_range in E. apply Nat.ltb_lt. lia.
  - right. apply IH; [lia|exact Hin|exact Hj].
Qed.

Lemma ja_skip d st l1 l2 : forall pos, justified_after d st l2 (pos + length l1) = true ->
  justified_after d st (l1 ++ l2) pos = true.
Proof.
  induction l1 as [|e r IH]; intros pos H; cbn [app length] in *.
  - rewrite Nat.add_0_r in H. exact H.
  - cbn [justified_after]. apply orb_true_iff. right. apply IH.
    replace (S pos + length r) with (pos + S (length r)) by lia. exact H.
Qed.

Lemma J_app d st lg new : J d st lg -> st < length lg -> J d st (lg ++ new).
Proof. intros H Hl. apply ja_app; [exact H|exact Hl]. Qed.

(** A justifying event emitted now justifies every caller that has started. *)
Lemma J_new d st lg new e : st < length lg -> In e new -> justifies d e = true -> J d st (lg ++ new).
Proof.
  intros Hl Hin Hj. unfold J. apply ja_skip. cbn [Nat.add].
  destruct (length lg) as [|n] eqn:E; [lia|]. eapply ja_late; [|exact Hin|exact Hj]. lia.
Qed.

(** The last event of caller j justifies d: good for every start position. *)
Definition LastJ (j d : nat) (lg : list sx) : Prop :=
  exists l1 e l2, lg = l1 ++ e :: l2 /\ justifies d e = true /\ lg_caller e = j /\
                  forall x, In x l2 -> lg_caller x <> j.

Lemma LastJ_J j d lg st : LastJ j d lg -> J d st lg.
Proof.
  intros (l1 & e & l2 & -> & Hj & Hc & Hn). unfold J. apply ja_skip. cbn [justified_after].
  apply orb_true_iff. left. rewrite Hj. cbn [andb].
  rewrite iw_none; [reflexivity|]. intros x Hx. apply Nat.eqb_neq. rewrite Hc. apply Hn. exact Hx.
Qed.

Lemma LastJ_app j d lg new : LastJ j d lg -> (forall x, In x new -> lg_caller x <> j) -> LastJ j d (lg ++ new).
Proof.
  intros (l1 & e & l2 & -> & Hj & Hc & Hn) H. exists l1, e, (l2 ++ new). repeat split; try assumption.
  - rewrite <- app_assoc. reflexivity.
  - intros x Hx. apply in_app_or in Hx. destruct Hx as [Hx|Hx]; [apply Hn|apply H]; exact Hx.
Qed.

Lemma LastJ_new j d lg pre e : justifies d e = true -> lg_caller e = j -> LastJ j d ((lg ++ pre) ++ [e]).
Proof. intros Hj Hc. exists (lg ++ pre), e, []. repeat split; try assumption. intros x []. Qed.

Lemma justifies_put_ok i d t : justifies d (ev_ret i 0 1 d 0 [] t) = true.
Proof.
  unfold justifies. change (lg_kind (ev_ret i 0 1 d 0 [] t)) with 2%Z.
  change (sx_nth (ev_ret i 0 1 d 0 [] t) 4) with (of_nats [d]). rewrite sx_eqb_refl. reflexivity.
Qed.
Lemma justifies_fm_present i d t : justifies d (ev_ret i 0 2 d 0 [] t) = true.
Proof.
  unfold justifies. change (lg_kind (ev_ret i 0 2 d 0 [] t)) with 2%Z.
  change (sx_nth (ev_ret i 0 2 d 0 [] t) 4) with (of_nats [d]). rewrite sx_eqb_refl. reflexivity.
Qed.

(** * [copied_within] *)
Definition put_ok (d : nat) (e : sx) : bool :=
  Z.eqb (lg_kind e) 2 && Z.eqb (sx_Z (sx_nth e 2)) 0 && Z.eqb (sx_Z (sx_nth e 3)) 1
  && sx_eqb (sx_nth e 4) (of_nats [d]) && Z.eqb (sx_Z (sx_nth e 5)) 0.

Lemma put_ok_ret i d t : put_ok d (ev_ret i 0 1 d 0 [] t) = true.
Proof.
  unfold put_ok. change (sx_nth (ev_ret i 0 1 d 0 [] t) 4) with (of_nats [d]). rewrite sx_eqb_refl. reflexivity.
Qed.

Lemma copied_within_intro d dur tstart lg e f :
  In e lg -> In f lg -> put_ok d e = true -> is_succ (lg_caller e) f = true ->
  (tstart <= sx_N (sx_nth f 3) + dur)%N -> copied_within d dur tstart lg = true.
Proof.
  intros He Hf Pe Sf Ht. unfold copied_within. apply existsb_exists. exists e. split; [exact He|].
  unfold put_ok in Pe. rewrite Pe. cbn [andb]. apply existsb_exists. exists f. split; [exact Hf|].
  unfold is_succ in Sf. apply andb_prop in Sf. destruct Sf as [Sf S3]. apply andb_prop in Sf. destruct Sf as [S1 S2].
  rewrite S1, S2, S3. cbn [andb]. apply N.leb_le. exact Ht.
Qed.

Lemma existsb_app_l {T} (p : T -> bool) l1 l2 : existsb p l1 = true -> existsb p (l1 ++ l2) = true.
Proof. intros H. rewrite existsb_app, H. reflexivity. Qed.

Lemma copied_within_app d dur tstart lg new : copied_within d dur tstart lg = true ->
  copied_within d dur tstart (lg ++ new) = true.
Proof.
  unfold copied_within. intros H. apply existsb_exists in H. destruct H as (e & He & H).
  apply existsb_exists. exists e. split; [apply in_or_app; left; exact He|].
  apply andb_prop in H. destruct H as [H1 H2]. rewrite H1. cbn [andb]. apply existsb_app_l. exact H2.
Qed.

(** * Threads of a state *)
Lemma pc_of_at s i t : nth_error (thr s) i = Some t -> pc_of s i = tpc t.
Proof. unfold pc_of. intros ->. reflexivity. Qed.

Lemma pc_of_set_thr s i t x : nth_error (thr s) i = Some t -> pc_of (set_thr i x s) i = tpc x.
Proof. intros H. unfold pc_of. cbn [set_thr thr]. rewrite (nth_error_upd_eq _ _ _ _ H). reflexivity. Qed.

(** Who acts in a step. *)
Definition actor (e : ev) : option nat :=
  match e with EStart i | ERel i _ | ECancel i | ETau i _ => Some i | EAdv _ => None end.

(** * Induction over traces *)
Lemma run_snoc' m tr : forall s0 e, run m s0 (tr ++ [e]) = match run m s0 tr with Some s => step m s e | None => None end.
Proof.
  induction tr as [|a tr IH]; intros s0 e; cbn [app run].
  - destruct (step m s0 e); reflexivity.
  - destruct (step m s0 a); [apply IH|reflexivity].
Qed.

Lemma tlog_snoc m tr : forall s0 e s1 s2, run m s0 tr = Some s1 -> step m s1 e = Some s2 ->
  tlog m s0 (tr ++ [e]) = tlog m s0 tr ++ emit m s1 e.
Proof.
  induction tr as [|a tr IH]; intros s0 e s1 s2 H St; cbn [app run tlog] in *.
  - inversion H; subst. rewrite St. rewrite app_nil_r. reflexivity.
  - destruct (step m s0 a) as [sa|]; [|discriminate]. rewrite (IH sa e s1 s2 H St). rewrite app_assoc. reflexivity.
Qed.

Theorem tlog_inv (m : mode) (P : cstate -> list sx -> Prop) s0 :
  P s0 [] ->
  (forall s lg e s', P s lg -> step m s e = Some s' -> P s' (lg ++ emit m s e)) ->
  forall tr s, run m s0 tr = Some s -> P s (tlog m s0 tr).
Proof.
  intros H0 Hs. induction tr as [|e tr IH] using rev_ind; intros s H.
  - cbn in *. inversion H; subst. exact H0.
  - rewrite run_snoc' in H. destruct (run m s0 tr) as [s1|] eqn:R; [|discriminate].
    rewrite (tlog_snoc m tr s0 e s1 s R H). apply Hs; [apply IH; reflexivity|exact H].
Qed.

(** * Semaphore hand-over touches only waiting callers *)
Definition QW (s : cstate) : Prop :=
  NoDup (semq s) /\ forall j tj, In j (semq s) -> nth_error (thr s) j = Some tj -> tpc tj = WaitSem.

Lemma Inv_QW m s : Inv m s -> QW s.
Proof. intros I. split; [apply (i_nd _ _ I)|apply (i_q _ _ I)]. Qed.

Lemma notify_frame k : forall fuel s j tj', QW s -> nth_error (thr (notify fuel k s)) j = Some tj' ->
  exists tj, nth_error (thr s) j = Some tj /\
             (tj' = tj \/ (tpc tj = WaitSem /\ tj' = mkthr Granted (todo tj) (cancelled tj) (bset tj))).
Proof.
  induction fuel as [|f IH]; intros s j tj' Q H; cbn [notify] in H; [exists tj'; auto|].
  destruct (semq s) as [|j0 q'] eqn:Eq; [exists tj'; auto|].
  destruct (Nat.ltb (cur s) k); [|exists tj'; auto].
  destruct (nth_error (thr s) j0) as [t0|] eqn:H0; [|exists tj'; auto].
  destruct Q as [N Q]. rewrite Eq in N, Q. inversion N as [|? ? Hn0 Nq]; subst.
  assert (P0 : tpc t0 = WaitSem) by (apply (Q j0 t0); [left; reflexivity|exact H0]).
  apply IH in H.
  - destruct H as (tj & Hj & D). cbn [thr] in Hj. apply nth_error_upd_inv in Hj.
    destruct Hj as [[-> ->]|[Hne Hj]].
    + exists t0. split; [exact H0|]. right. split; [exact P0|].
      destruct D as [->|[X _]]; [reflexivity|discriminate X].
    + exists tj. split; [exact Hj|exact D].
  - split; cbn [semq thr]; [exact Nq|]. intros j1 t1 Hin Hn. apply nth_error_upd_inv in Hn.
    destruct Hn as [[-> _]|[_ Hn]]; [contradiction|]. apply (Q j1 t1); [right; exact Hin|exact Hn].
Qed.

(** * The number of callers never changes *)
Lemma upd_length {T} i (x : T) l : length (upd i x l) = length l.
Proof. revert i. induction l as [|h t IH]; intros [|i]; cbn; auto. Qed.

Lemma notify_length k : forall fuel s, length (thr (notify fuel k s)) = length (thr s).
Proof.
  induction fuel as [|f IH]; intros s; cbn [notify]; [reflexivity|].
  destruct (semq s) as [|j q']; [reflexivity|]. destruct (Nat.ltb (cur s) k); [|reflexivity].
  destruct (nth_error (thr s) j); [|reflexivity]. rewrite IH. cbn [thr]. apply upd_length.
Qed.

Lemma finish_base_length m i t e k c s : length (thr (finish_base m i t e k c s)) = length (thr s).
Proof.
  destruct m; cbn [finish_base]; unfold sem_release; rewrite ?notify_length; cbn [thr set_thr]; apply upd_length.
Qed.

Lemma begin_base_length m i t ds e k s : length (thr (begin_base m i t ds e k s)) = length (thr s).
Proof.
  unfold begin_base. destruct ds; [rewrite finish_base_length|]; cbn [thr set_thr note_max]; rewrite ?upd_length; reflexivity.
Qed.

Local Opaque notify begin_base finish_base.
Lemma step_length m s e s' : step m s e = Some s' -> length (thr s') = length (thr s).
Proof.
  intros H. destruct e as [i|i f|i|dt|i alt]; cbn [step] in H.
  - destruct (nth_error (thr s) i) as [t|]; [|discriminate]. destruct (tpc t); try discriminate.
    injection H as <-. apply upd_length.
  - destruct (nth_error (thr s) i) as [t|]; [|discriminate]. destruct (tpc t); try discriminate.
    + destruct m; try discriminate. destruct (negb (f =? 0)%Z); [injection H as <-; apply upd_length|].
      destruct (memn k (snk s)); injection H as <-; [apply upd_length|].
      first [apply begin_base_length | cbn [thr set_thr set_pc note_max]; rewrite ?upd_length; reflexivity].
    + injection H as <-. apply upd_length.
    + destruct ((if negb (f =? 0)%Z then f else b) =? 0)%Z.
      * destruct rest; injection H as <-; [rewrite finish_base_length; reflexivity|cbn [thr set_pc set_thr]; apply upd_length].
      * injection H as <-. apply finish_base_length.
  - destruct (nth_error (thr s) i) as [t|]; [|discriminate]. destruct (cancelled t); [discriminate|].
    injection H as <-. apply upd_length.
  - injection H as <-. reflexivity.
  - destruct (nth_error (thr s) i) as [t|]; [|discriminate].
    destruct (tpc t); destruct alt; try discriminate.
    + destruct m.
      * destruct (todo t); [discriminate|]. destruct (lookup_key n (inflight s)); injection H as <-; cbn [thr set_pc set_thr]; apply upd_length.
      * destruct (cancelled t); [injection H as <-; apply upd_length|].
        destruct (_ && _); injection H as <-; [rewrite begin_base_length; reflexivity|cbn [thr set_pc set_thr]; apply upd_length].
      * destruct (ec_remove_existing dur (clk s) (todo t) (qcache s)). injection H as <-. cbn [thr set_pc set_thr]. apply upd_length.
    + destruct (cancelled t); [|discriminate]. injection H as <-. apply upd_length.
    + destruct (nth_error (ents s) e) as [[[] []]|]; try discriminate; injection H as <-; apply upd_length.
    + injection H as <-. cbn [thr set_pc set_thr]. apply upd_length.
    + destruct (c =? 0)%Z; injection H as <-; cbn [thr set_pc set_thr set_ent]; apply upd_length.
    + destruct (cancelled t); [|discriminate]. destruct m; try discriminate. injection H as <-.
      rewrite notify_length. cbn [thr set_pc set_thr]. apply upd_length.
    + destruct m; try discriminate. destruct (cancelled t); injection H as <-.
      * unfold sem_release. rewrite notify_length. cbn [thr set_pc set_thr]. apply upd_length.
      * apply begin_base_length.
    + destruct (cancelled t); [|discriminate]. injection H as <-. apply upd_length.
    + destruct m; try discriminate. destruct (tok s); [|discriminate].
      destruct (ec_remove_existing dur (clk s) (todo t) (qcache s)). injection H as <-. rewrite begin_base_length. reflexivity.
Qed.

Local Transparent notify begin_base finish_base.

Lemma run_length m tr : forall s s', run m s tr = Some s' -> length (thr s') = length (thr s).
Proof.
  induction tr as [|e r IH]; intros s s' H; cbn [run] in H; [inversion H; reflexivity|].
  destruct (step m s e) as [s1|] eqn:E; [|discriminate]. rewrite (IH _ _ H). eapply step_length; exact E.
Qed.

Lemma init_length sets source sink : length (thr (init_state sets source sink)) = length sets.
Proof. cbn [init_state thr]. apply map_length. Qed.

Lemma init_thread_at sets source sink j tj : nth_error (thr (init_state sets source sink)) j = Some tj ->
  tj = init_thread (nth j sets []).
Proof.
  cbn [init_state thr]. intros H. rewrite nth_error_map in H. destruct (nth_error sets j) as [ds|] eqn:E; [|discriminate].
  inversion H; subst. f_equal. symmetry. apply nth_error_nth. exact E.
Qed.

(** * What clauses 24 / 25 / 27 demand of a log *)
Definition clause24_ok (sets : list (list nat)) (lg : list sx) : Prop :=
  forall i p st, i < length sets -> index_where (is_succ i) lg 0 = Some p -> started_at i lg st ->
    forallb (fun d => justified_after d st lg 0) (nth i sets []) = true.

Definition clause25_ok (dur : N) (sets : list (list nat)) (lg : list sx) : Prop :=
  forall i p st, i < length sets -> index_where (is_succ i) lg 0 = Some p -> started_at i lg st ->
    forallb (fun d => copied_within d dur (tstart_of lg st) lg) (nth i sets []) = true.

Lemma is_succ_caller j x : is_succ j x = true -> lg_caller x = j.
Proof. unfold is_succ. intros H. apply andb_prop in H. destruct H as [H _]. apply andb_prop in H. destruct H as [_ H]. apply Nat.eqb_eq, H. Qed.
Lemma is_start_caller j x : is_start j x = true -> lg_caller x = j.
Proof. unfold is_start. intros H. apply andb_prop in H. destruct H as [_ H]. apply Nat.eqb_eq, H. Qed.
Lemma not_caller_not_start j x : lg_caller x <> j -> is_start j x = false.
Proof. intros H. destruct (is_start j x) eqn:E; [|reflexivity]. apply is_start_caller in E. contradiction. Qed.
Lemma not_caller_not_succ j x : lg_caller x <> j -> is_succ j x = false.
Proof. intros H. destruct (is_succ j x) eqn:E; [|reflexivity]. apply is_succ_caller in E. contradiction. Qed.

Lemma is_succ_done_true i t : is_succ i (ev_done i 0 t) = true.
Proof. unfold is_succ. rewrite caller_done, Nat.eqb_refl. reflexivity. Qed.

(** A start event appended to the log: where caller j started. *)
Lemma started_new j lg i t rest st : (forall x, In x rest -> is_start j x = false) ->
  started_at j (lg ++ ev_start i t :: rest) st -> started_at j lg st \/ (i = j /\ st = length lg /\ index_where (is_start j) lg 0 = None).
Proof.
  intros Hr H. unfold started_at in *. destruct (index_where (is_start j) lg 0) as [st0|] eqn:E.
  - left. rewrite (iw_app_some _ _ _ _ _ E) in H. exact H.
  - right. rewrite iw_app_none in H by exact E. cbn [index_where Nat.add] in H. rewrite is_start_start in H.
    destruct (Nat.eqb i j) eqn:Eij.
    + apply Nat.eqb_eq in Eij. inversion H. auto.
    + rewrite iw_none in H by exact Hr. discriminate.
Qed.

Lemma tstart_new lg i t rest : tstart_of (lg ++ ev_start i t :: rest) (length lg) = t.
Proof. unfold tstart_of. rewrite app_nth2 by lia. rewrite Nat.sub_diag. cbn [nth]. apply sx_N_of_N. Qed.

(** Every event of a step is an event of the caller that acts. *)
Lemma emit_with_caller arr s e s' x :
  (forall i t p y, In y (arr i t p) -> lg_caller y = i) ->
  In x (emit_with arr s e s') -> exists i, actor e = Some i /\ lg_caller x = i.
Proof.
  intros Harr. destruct e as [i|i f|i|dt|i alt]; cbn [emit_with actor]; intros H; try contradiction.
  - exists i. split; [reflexivity|]. destruct H as [<-|H]; [apply caller_start|eapply Harr; exact H].
  - exists i. split; [reflexivity|]. apply in_app_or in H. destruct H as [H|H]; [eapply returned_caller; exact H|eapply Harr; exact H].
  - exists i. split; [reflexivity|]. eapply Harr; exact H.
Qed.

Ltac nosucc Sx := first [discriminate Sx | apply is_succ_done in Sx; destruct Sx as [_ Sx]; discriminate Sx].
Ltac callers := let x := fresh "x" in let Hx := fresh "Hx" in intros x Hx; cbn [app] in Hx;
  repeat (destruct Hx as [<-|Hx]; [apply sx_nat_of_nat|]); destruct Hx.
