(** C03, monitor versus model — part 6: whole observations (all incarnations), in terms of the
    judge's own functions [replay03] and [mon03].

    [mon03_silent_on_accepted_partial]: for every input and every observation that the model
    accepts ([replay03 inp obs = []], not a panic / hang marker) and whose upload results are
    consistent with the finalizer entries ([u_obs], see Run/R03MonAck.v), the monitor can only
    report clauses 1, 4 or 5: clauses 2, 3, 7, 8 are silent.
    [mon03_obligations_sound]: for every accepted observation, incarnation by incarnation: whenever
    the monitor carries durability obligations into the next incarnation (the premise of clauses 1
    and 4), the state that the next incarnation is restored from is the state of the model's newest
    completed write, whose cohort is every acknowledgement the model made and which covers each
    of them.
    Not covered: that the read-back (entry 32) of an owed key succeeds when its acknowledgement is
    covered, and clause 5 (right bytes) — both need the key-location map, the old/current/new map
    and the data device, which the C03 model does not contain (C01/C02/C05/C06 do). *)
From Coq Require Import List NArith ZArith Bool Arith Lia.
From BBS Require Import Common.Sx Persist.PBL Persist.PBLProofs Persist.Syncer Persist.SyncerProofs
  Persist.Shutdown Persist.ShutdownProofs Persist.ShutdownOrder Run.R03 Run.R03MonGhost Run.R03MonFields
  Run.R03MonReplay Run.R03Mon Run.R03MonAck.
Import ListNotations.
Local Open Scope nat_scope.

Lemma dedupz_in z l : In z (dedupz l) -> In z l.
Proof.
  induction l as [|x r IH]; cbn; [auto|]. destruct (zmem x r); [auto|]. intros [->|H]; auto.
Qed.

(** the violations the monitor can record are clauses 1..5 *)
Lemma entry_range cfgsx objs ops m e z : In z (m_viol (mon_entry cfgsx objs ops m e)) ->
  In z (m_viol m) \/ z = 1%Z \/ z = 2%Z \/ z = 3%Z \/ z = 4%Z \/ z = 5%Z.
Proof.
  intros Hin. destruct (Z.eq_dec (tag e) 30) as [E30|N30].
  - destruct (mon_entry_viol_30 _ _ _ _ _ _ E30 Hin) as [H|[->|[_ [_ [[-> _]|[-> _]]]]]]; auto 10.
  - destruct (Z.eq_dec (tag e) 32) as [E32|N32].
    + destruct (mon_entry_viol_32 _ _ _ _ _ _ E32 Hin) as [H|[->|[->| ->]]]; auto 10.
    + rewrite (mon_entry_viol_other _ _ _ _ _ N30 N32) in Hin. auto.
Qed.

Lemma entries_range cfgsx objs ops es : forall m z, In z (m_viol (fold_left (mon_entry cfgsx objs ops) es m)) ->
  In z (m_viol m) \/ z = 1%Z \/ z = 2%Z \/ z = 3%Z \/ z = 4%Z \/ z = 5%Z.
Proof.
  induction es as [|e es IH]; intros m z H; cbn in H; [auto|].
  destruct (IH _ _ H) as [H1|H1]; [|auto]. apply entry_range in H1. exact H1.
Qed.

Lemma incs_range cfgsx objs : forall hists incs m z, In z (m_viol (mon_incs cfgsx objs incs hists m)) ->
  In z (m_viol m) \/ z = 1%Z \/ z = 2%Z \/ z = 3%Z \/ z = 4%Z \/ z = 5%Z.
Proof.
  induction hists as [|h hs IH]; intros [|inc incs] m z H; cbn in H; auto.
  destruct (IH _ _ _ H) as [H1|H1]; [|auto]. cbn [mon_exit m_viol] in H1. eapply entries_range; eauto.
Qed.

(** ---- the store-level consistency check over all incarnations ---- *)
Fixpoint u_incs (cfgsx objs : sx) (incs hists : list sx) (m : mst) : bool :=
  match incs, hists with
  | inc :: incs', h :: hists' =>
      let ops := sx_list (sx_nth inc 1) in
      u_all cfgsx objs ops m (mkU [] false) (sx_list h) &&
      u_incs cfgsx objs incs' hists' (mon_exit (fold_left (mon_entry cfgsx objs ops) (sx_list h) m))
  | _, _ => true
  end.

Definition u_obs (inp obs : sx) : bool :=
  u_incs (sx_nth inp 0) (sx_nth inp 1) (sx_list (sx_nth inp 2)) (sx_list obs) m_init.

(** what [replay_hists = []] says about the first incarnation *)
Lemma replay_hists_cons c cfg bs inc st0 now h hs : replay_hists c cfg bs inc st0 now (h :: hs) = [] ->
  exists e0 es x0 x1, sx_list h = e0 :: es /\ replay_restore c cfg bs st0 now e0 = Some x0 /\
    replay_entries cfg bs 1 x0 es = (x1, []) /\
    replay_hists c cfg bs (S inc) (x_state x1) (s_now (x_sys x1)) hs = [].
Proof.
  cbn [replay_hists]. destruct (sx_list h) as [|e0 es]; [discriminate|].
  destruct (replay_restore c cfg bs st0 now e0) as [x0|] eqn:R0; [|discriminate].
  destruct (replay_entries cfg bs 1 x0 es) as [x1 [|b bad]] eqn:R; [|discriminate].
  intros H. exists e0, es, x0, x1. repeat split; auto.
Qed.

Lemma incs_no23 c cfg bs cfgsx objs : forall hists incs m inc st0 now,
  m_fresh m -> replay_hists c cfg bs inc st0 now hists = [] -> u_incs cfgsx objs incs hists m = true ->
  forall z, In z (m_viol (mon_incs cfgsx objs incs hists m)) -> In z (m_viol m) \/ no23 z.
Proof.
  induction hists as [|h hs IH]; intros [|ic incs] m inc st0 now Hf Hr Hu z Hin; cbn [mon_incs] in Hin; auto.
  cbn [u_incs] in Hu. apply andb_prop in Hu. destruct Hu as [Hu1 Hu2].
  destruct (replay_hists_cons _ _ _ _ _ _ _ _ Hr) as [e0 [es [x0 [x1 [Eh [R0 [R1 R2]]]]]]].
  rewrite Eh in *.
  destruct (IH _ _ _ _ _ (mon_exit_fresh _) R2 Hu2 z Hin) as [H|H]; [|right; exact H].
  cbn [mon_exit m_viol] in H.
  eapply mon03_clauses23_silent; eauto.
Qed.

(** ---- clauses 2, 3, 7, 8 ---- *)
Theorem mon03_silent_on_accepted_partial inp obs :
  is_marker obs = false -> replay03 inp obs = [] -> u_obs inp obs = true ->
  forall z, In z (mon03 inp obs) -> z = 1%Z \/ z = 4%Z \/ z = 5%Z.
Proof.
  intros Hm Hr Hu z Hin. unfold mon03 in Hin. rewrite Hm in Hin. apply dedupz_in in Hin.
  unfold replay03 in Hr. unfold u_obs in Hu.
  destruct (incs_no23 _ _ _ _ _ _ _ _ _ _ _ m_init_fresh Hr Hu z Hin) as [H|[N2 N3]]; [destruct H|].
  destruct (incs_range _ _ _ _ _ _ Hin) as [H|[H|[H|[H|[H|H]]]]]; auto; try destruct H; congruence.
Qed.

(** ---- the obligations the monitor carries from one incarnation into the next ---- *)
Fixpoint obl_sound (cfgsx objs c : sx) (cfg : config) (bs : Z) (incs hists : list sx) (m : mst)
    (st0 : pstate) (now : N) : Prop :=
  match incs, hists with
  | inc :: incs', h :: hists' =>
      match sx_list h with
      | e0 :: es =>
          exists x0 x1, replay_restore c cfg bs st0 now e0 = Some x0 /\ replay_entries cfg bs 1 x0 es = (x1, []) /\
            let m1 := fold_left (mon_entry cfgsx objs (sx_list (sx_nth inc 1))) (e0 :: es) m in
            (exists alloc oldest init gx,
               greachable cfg alloc oldest init now (x_sys x1) gx /\
               (m_final m1 = true -> closedForWriting (s_pbl (x_sys x1)) = true) /\
               (m_exited m1 = true -> s_p (x_sys x1) = PExit) /\
               (m_prev (mon_exit m1) <> 0%Z ->
                  exists w rest, gs_writes gx = w :: rest /\ x_state x1 = gw_state w /\
                                 gw_cohort w = g_acks (gs_g gx) /\
                                 forall a, In a (g_acks (gs_g gx)) -> covers w a)) /\
            (* the next incarnation: restored from [x_state x1], with the obligations of [mon_exit m1] *)
            obl_sound cfgsx objs c cfg bs incs' hists' (mon_exit m1) (x_state x1) (s_now (x_sys x1))
      | [] => False
      end
  | _, _ => True
  end.

Lemma incs_obl_sound cfgsx objs c cfg bs : forall hists incs m inc st0 now,
  m_fresh m -> replay_hists c cfg bs inc st0 now hists = [] ->
  obl_sound cfgsx objs c cfg bs incs hists m st0 now.
Proof.
  induction hists as [|h hs IH]; intros [|ic incs] m inc st0 now Hf Hr; cbn [obl_sound]; auto.
  destruct (replay_hists_cons _ _ _ _ _ _ _ _ Hr) as [e0 [es [x0 [x1 [Eh [R0 [R1 R2]]]]]]].
  rewrite Eh. exists x0, x1. split; [exact R0|]. split; [exact R1|]. cbv zeta. split.
  - destruct (mon03_incarnation_sound c cfg bs st0 now e0 es x0 x1 cfgsx objs (sx_list (sx_nth ic 1)) m R0 R1 Hf)
      as [alloc [oldest [init [gx [A [_ [B [C D]]]]]]]].
    exists alloc, oldest, init, gx. auto.
  - eapply IH; [apply mon_exit_fresh|exact R2].
Qed.

Theorem mon03_obligations_sound inp obs : replay03 inp obs = [] ->
  let c := sx_nth inp 0 in
  obl_sound c (sx_nth inp 1) c (mkConfig (sx_N (sx_nth c 9)) (sx_N (sx_nth c 10))) (sx_Z (sx_nth c 0))
            (sx_list (sx_nth inp 2)) (sx_list obs) m_init init_pstate 0%N.
Proof. intros Hr c. eapply incs_obl_sound; [apply m_init_fresh|exact Hr]. Qed.
