(** C13: the monitor of Run/R13.v (the property as a decidable check on what
    the implementation did) is silent on the model's own output, for every
    environment.

    The observation the monitor reads is [(code same calls env)]; the model
    predicts [code] and [calls] from [env] ([run13 env]).  The theorem is stated
    for every observation the judge accepts as agreeing with the model
    ([sx_eqb (run13 env) (L [code; calls]) = true]) and, as a corollary, for the
    observation assembled from the model's output.

    Hypotheses ([env_wf]), each shown necessary by a [vm_compute] witness at the
    end of this file:
      - batch size >= 1                      (else clause 5 fires on the model);
      - maxtree >= 0 or an output directory  (else clause 4 fires on the model);
      - the harness's own parse of each Tree stream ([st_fields], [st_clean])
        is consistent with the model's byte-level visit of the same bytes
        whenever that visit succeeds ([stream_consistent]; else clauses 1/3 fire).
    harness/c13.go rejects batch < 1 and maxtree < 0 ([c13Build]) and computes
    [env] itself from the real bytes, so none of the witnesses is an input the
    harness can produce. *)
From Coq Require Import List Arith ZArith Bool Lia.
Import ListNotations.
From BBS Require Import Common.Sx Common.ListX Generated.Consts Complete.WireVisit Complete.WireVisitProofs
  Complete.Completeness Complete.CompletenessProofs Run.MonSilentSx Run.R13.
Local Open Scope Z_scope.

(** * Model-level invariants not needed by Props/C13.v so far *)

(** ** Error codes are never 0 (the monitor reads code 0 as "returned") *)
Section NZ.
  Variable batch : nat.
  Variables maxmsg maxtree : Z.
  Variable fm : nat -> list nat -> fm_answer.
  Variable gets : list tget.
  Hypothesis fm_nz : forall k b, fm k b <> FmErr 0.
  Hypothesis gets_nz : forall i, tg_end (nth i gets get_not_found) <> Some 0
                                 /\ tg_term (nth i gets get_not_found) <> Some 0.

  Definition nz (a : action) : Prop := forall q c q', a q = (Some c, q') -> c <> 0.

  Lemma nz_ret : nz ret.
  Proof. intros q c q' H. discriminate. Qed.
  Lemma nz_fail c : c <> 0 -> nz (fail c).
  Proof. intros Hc q c' q' H. inversion H. subst. exact Hc. Qed.
  Lemma nz_seq a b : nz a -> nz b -> nz (seq a b).
  Proof.
    intros Ha Hb q c q' H. apply seq_inv in H. destruct H as [(c' & H & E)|(q1 & _ & H)]; [|eauto].
    inversion E. subst. eauto.
  Qed.
  Lemma nz_finalize : nz (finalize fm).
  Proof.
    intros q c q' H. destruct (finalize_inv _ _ _ _ H) as (_ & _ & Hc).
    destruct (Hc c eq_refl) as [E|[E _]].
    - intro. subst. eapply fm_nz; eauto.
    - subst. discriminate.
  Qed.
  Lemma nz_add o : nz (add batch fm o).
  Proof.
    intros q c q' H. apply add_cases in H. inversion H; subst.
    - discriminate.
    - eapply nz_finalize; eauto.
  Qed.
  Lemma nz_add_all l : nz (add_all batch fm l).
  Proof. induction l; cbn [add_all]; [apply nz_ret|apply nz_seq; [apply nz_add|assumption]]. Qed.
  Lemma nz_add_outdirs l : nz (add_outdirs batch fm l).
  Proof. induction l; cbn [add_outdirs]; [apply nz_ret|repeat apply nz_seq; try apply nz_add; assumption]. Qed.
  Lemma nz_visit_dir r it : nz (visit_dir batch maxmsg fm r it).
  Proof.
    unfold visit_dir. destruct (Z.ltb maxmsg (snd it)); [apply nz_fail; discriminate|].
    apply nz_seq; [apply nz_add_all|destruct r; [apply nz_add_all|apply nz_ret]].
  Qed.
  Lemma nz_visit_items r l : nz (visit_items batch maxmsg fm r l).
  Proof. induction l; cbn [visit_items]; [apply nz_ret|apply nz_seq; [apply nz_visit_dir|assumption]]. Qed.
  Lemma nz_visit_tree od g :
    tg_end g <> Some 0 -> tg_term g <> Some 0 -> nz (visit_tree batch maxmsg fm od g).
  Proof.
    intros He Ht q c q' H. unfold visit_tree in H.
    destruct (visit_items batch maxmsg fm (is_some (od_root od)) (tg_items g) q) as [[c1|] q1] eqn:Hv.
    - inversion H. subst. unfold prefer. destruct (tg_term g) as [t|]; [congruence|].
      eapply nz_visit_items; eauto.
    - destruct (tg_end g) as [c2|]; [|discriminate]. inversion H. subst.
      unfold prefer. destruct (tg_term g) as [t|]; congruence.
  Qed.
  Lemma nz_tree_loop dirs : forall i rem, nz (tree_loop batch maxmsg fm gets i rem dirs).
  Proof.
    induction dirs as [|od t IH]; intros i rem; cbn [tree_loop]; [apply nz_ret|].
    destruct (derive (od_tree od)) as [w|]; [|apply nz_fail; discriminate].
    destruct (Z.ltb rem (wd_size w)); [apply nz_fail; discriminate|].
    apply nz_seq; [intros q c q' H; discriminate|].
    apply nz_seq; [apply nz_visit_tree; apply gets_nz|apply IH].
  Qed.
  Lemma nz_check_action ar : nz (check_action batch maxmsg maxtree fm gets ar).
  Proof.
    unfold check_action.
    repeat apply nz_seq; auto using nz_add_all, nz_add_outdirs, nz_add, nz_tree_loop, nz_finalize.
  Qed.
  Lemma nz_decorator_get size ar c q :
    decorator_get batch maxmsg maxtree fm gets (AcOk size ar) = (Some c, q) -> c <> 0.
  Proof.
    unfold decorator_get. destruct (Z.ltb maxmsg size).
    - intro H. inversion H. discriminate.
    - apply nz_check_action.
  Qed.
End NZ.

(** ** A FindMissing answer naming a missing object ends the call with
       NOT_FOUND when no Tree reader ended in an error of its own *)
Section NF6.
  Variable batch : nat.
  Variables maxmsg maxtree : Z.
  Variable fm : nat -> list nat -> fm_answer.
  Variable gets : list tget.
  Hypothesis gets_term : forall i, tg_term (nth i gets get_not_found) = None
                                   \/ tg_term (nth i gets get_not_found) = Some code_not_found.

  Definition J (q : qstate) : Prop :=
    forall k b x m, ~ In (CFm k b (FmMissing (x :: m))) (q_log q).
  Definition nf6 (a : action) : Prop :=
    forall q r q', J q -> a q = (r, q') -> J q' \/ r = Some code_not_found.

  Lemma nf6_ret : nf6 ret.
  Proof. intros q r q' Jq H. inversion H. subst. left. exact Jq. Qed.
  Lemma nf6_fail c : nf6 (fail c).
  Proof. intros q r q' Jq H. inversion H. subst. left. exact Jq. Qed.
  Lemma nf6_seq a b : nf6 a -> nf6 b -> nf6 (seq a b).
  Proof.
    intros Ha Hb q r q' Jq H. apply seq_inv in H. destruct H as [(c & H & ->)|(q1 & H1 & H2)].
    - eapply Ha; eauto.
    - destruct (Ha _ _ _ Jq H1) as [J1|E]; [eauto|discriminate].
  Qed.
  Lemma nf6_finalize : nf6 (finalize fm).
  Proof.
    intros q r q' Jq H. unfold finalize in H. cbv zeta in H.
    destruct (fm (q_fmcalls q) (q_pending q)) as [[|x m]|c]; inversion H; subst.
    - left. intros k b x m [E|Hin]; [discriminate|]. eapply Jq; eauto.
    - right. reflexivity.
    - left. intros k b x m [E|Hin]; [discriminate|]. eapply Jq; eauto.
  Qed.
  Lemma nf6_add o : nf6 (add batch fm o).
  Proof.
    intros q r q' Jq H. apply add_cases in H. inversion H; subst.
    - left. exact Jq.
    - right. reflexivity.
    - left. exact Jq.
    - left. intros k b x m [E|Hin]; [discriminate|]. eapply Jq; eauto.
    - eapply nf6_finalize; eauto.
  Qed.
  Lemma nf6_add_all l : nf6 (add_all batch fm l).
  Proof. induction l; cbn [add_all]; [apply nf6_ret|apply nf6_seq; [apply nf6_add|assumption]]. Qed.
  Lemma nf6_add_outdirs l : nf6 (add_outdirs batch fm l).
  Proof. induction l; cbn [add_outdirs]; [apply nf6_ret|repeat apply nf6_seq; try apply nf6_add; assumption]. Qed.
  Lemma nf6_visit_dir r it : nf6 (visit_dir batch maxmsg fm r it).
  Proof.
    unfold visit_dir. destruct (Z.ltb maxmsg (snd it)); [apply nf6_fail|].
    apply nf6_seq; [apply nf6_add_all|destruct r; [apply nf6_add_all|apply nf6_ret]].
  Qed.
  Lemma nf6_visit_items r l : nf6 (visit_items batch maxmsg fm r l).
  Proof. induction l; cbn [visit_items]; [apply nf6_ret|apply nf6_seq; [apply nf6_visit_dir|assumption]]. Qed.
  Lemma nf6_visit_tree od g :
    tg_term g = None \/ tg_term g = Some code_not_found -> nf6 (visit_tree batch maxmsg fm od g).
  Proof.
    intros Hg q r q' Jq H. unfold visit_tree in H.
    destruct (visit_items batch maxmsg fm (is_some (od_root od)) (tg_items g) q) as [[c1|] q1] eqn:Hv.
    - inversion H. subst. destruct (nf6_visit_items _ _ _ _ _ Jq Hv) as [J1|E]; [left; exact J1|].
      right. inversion E. subst. unfold prefer. destruct Hg as [->| ->]; reflexivity.
    - destruct (nf6_visit_items _ _ _ _ _ Jq Hv) as [J1|E]; [|discriminate].
      destruct (tg_end g); inversion H; subst; left; exact J1.
  Qed.
  Lemma nf6_log_get i id : nf6 (log_get i id).
  Proof.
    intros q r q' Jq H. inversion H. subst. left.
    intros k b x m [E|Hin]; [discriminate|]. eapply Jq; eauto.
  Qed.
  Lemma nf6_tree_loop dirs : forall i rem, nf6 (tree_loop batch maxmsg fm gets i rem dirs).
  Proof.
    induction dirs as [|od t IH]; intros i rem; cbn [tree_loop]; [apply nf6_ret|].
    destruct (derive (od_tree od)) as [w|]; [|apply nf6_fail].
    destruct (Z.ltb rem (wd_size w)); [apply nf6_fail|].
    apply nf6_seq; [apply nf6_log_get|].
    apply nf6_seq; [apply nf6_visit_tree; apply gets_term|apply IH].
  Qed.
  Lemma nf6_check_action ar : nf6 (check_action batch maxmsg maxtree fm gets ar).
  Proof.
    unfold check_action.
    repeat apply nf6_seq; auto using nf6_add_all, nf6_add_outdirs, nf6_add, nf6_tree_loop, nf6_finalize.
  Qed.
  Lemma J_init : J init_q.
  Proof. intros k b x m []. Qed.
  Lemma nf6_decorator_get size ar r q k b x m :
    decorator_get batch maxmsg maxtree fm gets (AcOk size ar) = (r, q) ->
    In (CFm k b (FmMissing (x :: m))) (q_log q) -> r = Some code_not_found.
  Proof.
    unfold decorator_get. destruct (Z.ltb maxmsg size).
    - intro H. inversion H. subst. intros [].
    - intros H Hin. destruct (nf6_check_action ar _ _ _ J_init H) as [Jq|E]; [|exact E].
      exfalso. eapply Jq; eauto.
  Qed.
End NF6.

(** * Streams: what the model makes of them *)

Lemma tget_empty : tget_of_stream empty_stream = get_not_found.
Proof. reflexivity. Qed.

Lemma tget_term s : tg_term (tget_of_stream s) = st_term s.
Proof.
  unfold tget_of_stream. destruct (wire_visit_all (st_bytes s) (st_term s)) as [vs r].
  destruct (items_of (st_fields s) vs) as [its e]. reflexivity.
Qed.

Lemma tget_end_none s :
  tg_end (tget_of_stream s) = None ->
  exists vs, wire_visit_all (st_bytes s) (st_term s) = (vs, WOk)
             /\ items_of (st_fields s) vs = (tg_items (tget_of_stream s), None).
Proof.
  unfold tget_of_stream. destruct (wire_visit_all (st_bytes s) (st_term s)) as [vs r] eqn:Hw.
  destruct (items_of (st_fields s) vs) as [its e] eqn:Hi. cbn [tg_end tg_items].
  destruct e as [c|]; [discriminate|]. destruct r; try discriminate.
  intros _. exists vs. split; [reflexivity|exact Hi].
Qed.

Lemma items_of_ok fs : forall vs its, items_of fs vs = (its, None) ->
  forall v, In v vs -> is_tree_field (v_num v) = true ->
  exists d, lookup_field (v_off v) fs = Some d /\ In (d, Z.of_N (v_size v)) its.
Proof.
  induction vs as [|v0 t IH]; intros its H v Hin Ht; [destruct Hin|].
  cbn [items_of] in H. destruct (is_tree_field (v_num v0)) eqn:E0.
  - destruct (lookup_field (v_off v0) fs) as [d0|] eqn:El; [|discriminate].
    destruct (items_of fs t) as [its' e'] eqn:Et. inversion H. subst.
    destruct Hin as [->|Hin].
    + exists d0. split; [exact El|left; reflexivity].
    + destruct (IH _ eq_refl v Hin Ht) as (d & Hd & Hi). exists d. split; [exact Hd|right; exact Hi].
  - destruct Hin as [->|Hin]; [congruence|]. eapply IH; eauto.
Qed.

Lemma items_of_err fs : forall vs its c, items_of fs vs = (its, Some c) -> c = code_invalid.
Proof.
  induction vs as [|v0 t IH]; intros its c H; [discriminate|].
  cbn [items_of] in H. destruct (is_tree_field (v_num v0)).
  - destruct (lookup_field (v_off v0) fs) as [d0|]; [|inversion H; reflexivity].
    destruct (items_of fs t) as [its' e'] eqn:Et. inversion H. subst. eapply IH; eauto.
  - eapply IH; eauto.
Qed.

Lemma wire_visit_err fuel : forall bs term off vs c,
  wire_visit fuel bs term off = (vs, WErr c) -> c = code_invalid_argument \/ term = Some c.
Proof.
  induction fuel as [|f IH]; intros bs term off vs c H; [discriminate|].
  rewrite wire_visit_S in H.
  destruct (if (length bs <? 32)%nat then term else None) as [c0|] eqn:Ep.
  - inversion H. subst. right. destruct (length bs <? 32)%nat; [exact Ep|discriminate].
  - destruct bs as [|b t]; [discriminate|].
    cbv zeta in H.
    destruct (consume_tag (firstn 32 (b :: t))) as [num typ ntag|]; [|inversion H; left; reflexivity].
    destruct (negb (N.eqb typ bytes_type)); [inversion H; left; reflexivity|].
    destruct (consume_varint (skipn ntag (firstn 32 (b :: t)))) as [size nlen| |];
      try (inversion H; left; reflexivity).
    destruct (N.ltb (max_int64 - off) size); [inversion H; left; reflexivity|].
    destruct (N.ltb (N.of_nat (length (skipn (ntag + nlen) (b :: t)))) size).
    + inversion H. destruct term; [right|left]; reflexivity.
    + destruct (wire_visit f (skipn (N.to_nat size) (skipn (ntag + nlen) (b :: t))) term
                  (off + N.of_nat (ntag + nlen) + size)%N) as [vs' r'] eqn:E.
      inversion H. subst. eapply IH; eauto.
Qed.

Lemma tget_end_nz s : st_term s <> Some 0 -> tg_end (tget_of_stream s) <> Some 0.
Proof.
  intro Ht. unfold tget_of_stream.
  destruct (wire_visit_all (st_bytes s) (st_term s)) as [vs r] eqn:Hw.
  destruct (items_of (st_fields s) vs) as [its e] eqn:Hi. cbn [tg_end].
  destruct e as [c|].
  - apply items_of_err in Hi. subst. discriminate.
  - destruct r as [|c|]; try discriminate.
    apply wire_visit_err in Hw. destruct Hw as [->|Hw]; [discriminate|].
    intro E. inversion E. subst. exact (Ht Hw).
Qed.

(** * The consistency the harness's own parse must have *)

(** Whenever the model's visit of the delivered bytes succeeds, the harness
    must have seen the stream as completely parsed, and every root/children
    field it lists must be a field the visitor hands over, found under its
    payload offset. *)
Definition stream_consistent (s : stream) : Prop :=
  forall vs, wire_visit_all (st_bytes s) (st_term s) = (vs, WOk) ->
    st_clean s = true /\
    forall o num d, In (o, num, d) (st_fields s) -> is_tree_field num = true ->
      lookup_field o (st_fields s) = d /\
      exists v, In v vs /\ v_off v = o /\ is_tree_field (v_num v) = true.

Lemma empty_stream_consistent : stream_consistent empty_stream.
Proof. intros vs H. vm_compute in H. discriminate. Qed.

Lemma consistent_nth ss j : Forall stream_consistent ss -> stream_consistent (nth j ss empty_stream).
Proof.
  intro H. destruct (Nat.lt_ge_cases j (length ss)) as [Hl|Hl].
  - rewrite Forall_forall in H. apply H, nth_In, Hl.
  - rewrite nth_overflow by exact Hl. apply empty_stream_consistent.
Qed.

Lemma tree_fields_in s x :
  In x (tree_fields s) <-> exists o num, In (o, num, x) (st_fields s) /\ is_tree_field num = true.
Proof.
  unfold tree_fields. rewrite in_flat_map. split.
  - intros ([[o num] d] & Hin & Hx). destruct (is_tree_field num) eqn:E; [|destruct Hx].
    destruct Hx as [<-|[]]. exists o, num. split; [exact Hin|exact E].
  - intros (o & num & Hin & E). exists (o, num, x). split; [exact Hin|]. rewrite E. left. reflexivity.
Qed.

Lemma visit_ok_facts s :
  stream_consistent s -> tg_end (tget_of_stream s) = None ->
  st_term s = None /\ st_clean s = true /\
  forall x, In x (tree_fields s) ->
    exists d sz, x = Some d /\ In (d, sz) (tg_items (tget_of_stream s)).
Proof.
  intros Hc He. destruct (tget_end_none _ He) as (vs & Hw & Hi).
  destruct (Hc vs Hw) as [Hclean Hf]. split; [|split; [exact Hclean|]].
  - destruct (st_term s) as [c|] eqn:Et; [|reflexivity].
    exfalso. apply (wire_visit_all_read_error (st_bytes s) c). rewrite Hw. reflexivity.
  - intros x Hx. apply tree_fields_in in Hx. destruct Hx as (o & num & Hin & Hn).
    destruct (Hf _ _ _ Hin Hn) as (Hl & v & Hv & Ho & Hvn).
    destruct (items_of_ok _ _ _ Hi v Hv Hvn) as (d & Hd & Hit).
    exists d, (Z.of_N (v_size v)). split; [|exact Hit]. rewrite Ho in Hd. congruence.
Qed.

Lemma stream_intact_intro s :
  st_term s = None -> st_clean s = true ->
  (forall x, In x (tree_fields s) -> exists d, x = Some d) -> stream_intact s = true.
Proof.
  intros Ht Hc Hf. unfold stream_intact. rewrite Ht, Hc. cbn.
  apply forallb_forall. intros x Hx. destruct (Hf x Hx) as (d & ->). reflexivity.
Qed.

(** * Lists *)

Lemma zip_streams_in dirs : forall ss od s,
  In (od, s) (zip_streams dirs ss) -> exists j, nth_error dirs j = Some od /\ s = nth j ss empty_stream.
Proof.
  induction dirs as [|od0 t IH]; intros ss od s H; [destruct H|].
  cbn [zip_streams] in H. destruct H as [E|H].
  - inversion E. subst. exists 0%nat. split; [reflexivity|]. destruct ss; reflexivity.
  - destruct (IH _ _ _ H) as (j & Hj & Hs). exists (S j). split; [exact Hj|].
    destruct ss as [|s0 ss']; cbn [tl] in Hs; cbn [nth]; [|exact Hs].
    destruct j; exact Hs.
Qed.

Lemma nth_gets ss j :
  nth j (map tget_of_stream ss) get_not_found = tget_of_stream (nth j ss empty_stream).
Proof. rewrite <- tget_empty. apply map_nth. Qed.

Lemma mem_true d l : mem d l = true <-> In d l.
Proof.
  unfold mem. rewrite existsb_exists. split.
  - intros (x & Hx & E). apply Nat.eqb_eq in E. subst. exact Hx.
  - intro H. exists d. split; [exact H|apply Nat.eqb_refl].
Qed.

Lemma insert_sorted_length n l : (length (insert_sorted n l) <= S (length l))%nat.
Proof.
  induction l as [|h t IH]; cbn [insert_sorted length]; [lia|].
  destruct (Nat.ltb n h); [cbn [length]; lia|]. destruct (Nat.eqb n h); cbn [length]; lia.
Qed.

Lemma dedup_sort_length l : (length (dedup_sort l) <= length l)%nat.
Proof.
  induction l as [|h t IH]; cbn [dedup_sort fold_right length]; [lia|].
  fold (dedup_sort t). pose proof (insert_sorted_length h (dedup_sort t)). lia.
Qed.

Lemma valid_ids_in d l :
  In d (valid_ids l) <-> exists w, In (Some w) l /\ wd_ok w = true /\ d = wd_id w.
Proof.
  unfold valid_ids. rewrite in_flat_map. split.
  - intros ([w|] & Hin & Hd); [|destruct Hd]. destruct (wd_ok w) eqn:E; [|destruct Hd].
    destruct Hd as [<-|[]]. exists w. auto.
  - intros (w & Hin & Hok & ->). exists (Some w). split; [exact Hin|]. rewrite Hok. left. reflexivity.
Qed.

Lemma has_malformed_true l :
  has_malformed l = true -> exists w, In (Some w) l /\ wd_ok w = false.
Proof.
  unfold has_malformed. rewrite existsb_exists. intros ([w|] & Hin & H); [|discriminate].
  exists w. split; [exact Hin|]. destruct (wd_ok w); [discriminate|reflexivity].
Qed.

Lemma ids_of_in w l : In (Some w) l -> In (wd_id w) (ids_of l).
Proof. intro H. unfold ids_of. apply in_flat_map. exists (Some w). split; [exact H|left; reflexivity]. Qed.

Lemma tree_ids_in gets dirs : forall i j od x,
  nth_error dirs j = Some od ->
  In x (flat_map (item_ids (is_some (od_root od))) (tg_items (nth (i + j) gets get_not_found))) ->
  In x (tree_ids i gets dirs).
Proof.
  induction dirs as [|od0 t IH]; intros i j od x Hj Hx; [destruct j; discriminate|].
  cbn [tree_ids]. apply in_app_iff. destruct j as [|j].
  - cbn in Hj. inversion Hj. subst. rewrite Nat.add_0_r in Hx. left. exact Hx.
  - right. eapply (IH (S i) j); [exact Hj|]. replace (S i + j)%nat with (i + S j)%nat by lia. exact Hx.
Qed.

(** * The encoded call log *)

Lemma enc_call_fm c :
  Z.eqb (sx_Z (sx_nth (enc_call c) 0)) 0 = true -> exists k b a, c = CFm k b a.
Proof. destruct c as [k b a|i id]; [eauto|]. cbn. discriminate. Qed.

Lemma in_calls log c :
  In c (map enc_call (rev log)) -> exists x, In x log /\ c = enc_call x.
Proof.
  intro H. apply in_map_iff in H. destruct H as (x & <- & Hx). apply in_rev in Hx. eauto.
Qed.

Lemma reported_present_intro log k b m d :
  In (CFm k b (FmMissing m)) log -> In d b -> ~ In d m ->
  In d (reported_present (map enc_call (rev log))).
Proof.
  intros Hin Hb Hm. unfold reported_present. apply in_flat_map.
  exists (enc_call (CFm k b (FmMissing m))). split.
  - apply in_map, in_rev. rewrite rev_involutive. exact Hin.
  - cbn [enc_call]. rewrite !sx_nth_L. cbn [nth sx_Z]. cbn [Z.eqb andb].
    rewrite !sx_nats_of_nats. apply filter_In. split.
    + apply dedup_sort_in. exact Hb.
    + destruct (mem d (dedup_sort m)) eqn:E; [|reflexivity].
      apply (proj1 (mem_true _ _)) in E. apply (proj1 (dedup_sort_in _ _)) in E. contradiction.
Qed.

(** * The monitor, clause by clause (definitionally the text of [mon_env]) *)

Definition m_zs (ar : action_result) (ss : list stream) := zip_streams (ar_dirs ar) ss.
Definition m_ar_digs (ar : action_result) : list odig :=
  ar_files ar ++ flat_map (fun od => [od_tree od; od_root od]) (ar_dirs ar) ++ [ar_stdout ar; ar_stderr ar].
Definition m_tdigs (ar : action_result) (ss : list stream) : list odig :=
  flat_map (fun p => tree_digs (fst p) (snd p)) (filter (fun p => stream_intact (snd p)) (m_zs ar ss)).
Definition m_fmcalls (calls : list sx) := filter (fun c => Z.eqb (sx_Z (sx_nth c 0)) 0) calls.

Definition cl1 ar ss code calls : bool :=
  Z.eqb code 0 && negb (forallb (fun d => mem d (reported_present calls)) (valid_ids (m_ar_digs ar ++ m_tdigs ar ss))).
Definition cl2 ar ss code : bool :=
  Z.eqb code 0 && (has_malformed (m_ar_digs ar ++ m_tdigs ar ss)
                   || existsb (fun od => negb (is_some (od_tree od))) (ar_dirs ar)).
Definition cl3 ar ss code : bool :=
  Z.eqb code 0 && negb (forallb (fun p : outdir * stream => stream_intact (snd p)) (m_zs ar ss)).
Definition cl4 maxtree ar code : bool :=
  Z.eqb code 0 && Z.ltb maxtree
    (fold_right Z.add 0 (map (fun od => match od_tree od with Some w => if wd_ok w then wd_size w else 0 | None => 0 end) (ar_dirs ar))).
Definition cl5 (batch : nat) calls : bool :=
  existsb (fun c => Nat.ltb batch (length (sx_list (sx_nth c 1)))) (m_fmcalls calls).
Definition cl6 (ss : list stream) code calls : bool :=
  existsb (fun c => Z.eqb (sx_Z (sx_nth c 2)) 0 && negb (Nat.eqb (length (sx_list (sx_nth c 3))) 0)) (m_fmcalls calls)
  && forallb (fun s => negb (is_some (st_term s))) ss
  && negb (Z.eqb code code_not_found).

Lemma mon_env_clauses env code calls :
  mon_env env code calls =
  let batch := sx_nat (sx_nth (sx_nth env 0) 0) in
  let maxtree := sx_Z (sx_nth (sx_nth env 0) 2) in
  let ar := dec_ar (sx_nth env 2) in
  let ss := map dec_stream (sx_list (sx_nth env 3)) in
  (if cl1 ar ss code calls then [1] else []) ++ (if cl2 ar ss code then [2] else []) ++
  (if cl3 ar ss code then [3] else []) ++ (if cl4 maxtree ar code then [4] else []) ++
  (if cl5 batch calls then [5] else []) ++ (if cl6 ss code calls then [6] else []).
Proof. reflexivity. Qed.

Section Silent.
  Variables (batch : nat) (maxmsg maxtree : Z) (fm : nat -> list nat -> fm_answer).
  Variables (ss : list stream) (size : Z) (ar : action_result) (r : option Z) (q : qstate).
  Hypothesis Hrun :
    decorator_get batch maxmsg maxtree fm (map tget_of_stream ss) (AcOk size ar) = (r, q).
  Hypothesis Hcons : Forall stream_consistent ss.
  Hypothesis Hfm_nz : forall k b, fm k b <> FmErr 0.
  Hypothesis Hterm_nz : forall s, In s ss -> st_term s <> Some 0.

  Local Notation gets := (map tget_of_stream ss).
  Local Notation code := (match r with None => 0 | Some c => c end).
  Local Notation calls := (map enc_call (rev (q_log q))).

  Lemma nth_term_nz j : st_term (nth j ss empty_stream) <> Some 0.
  Proof.
    destruct (Nat.lt_ge_cases j (length ss)) as [Hl|Hl].
    - apply Hterm_nz, nth_In, Hl.
    - rewrite nth_overflow by exact Hl. discriminate.
  Qed.

  Lemma returned_inv : Z.eqb code 0 = true -> r = None.
  Proof.
    destruct r as [c|] eqn:Er; [|reflexivity]. intro H. apply Z.eqb_eq in H. exfalso.
    revert H. eapply nz_decorator_get; [exact Hfm_nz| |exact Hrun].
    intro i. rewrite nth_gets, tget_term. split; [apply tget_end_nz|]; apply nth_term_nz.
  Qed.

  Section Returned.
    Hypothesis Hr : r = None.

    Lemma run_ok : decorator_get batch maxmsg maxtree fm gets (AcOk size ar) = (None, q).
    Proof. rewrite Hrun, Hr. reflexivity. Qed.

    Lemma contra (P : Prop) :
      (P -> fst (decorator_get batch maxmsg maxtree fm gets (AcOk size ar)) <> None) -> ~ P.
    Proof. intros H HP. apply (H HP). rewrite run_ok. reflexivity. Qed.

    Lemma dir_facts j od :
      nth_error (ar_dirs ar) j = Some od ->
      tg_end (tget_of_stream (nth j ss empty_stream)) = None
      /\ forall it, In it (tg_items (tget_of_stream (nth j ss empty_stream))) ->
           ~ Exists (malformed) (item_digs (is_some (od_root od)) it).
    Proof.
      intro Hj.
      pose proof (contra _ (get_tree_error_is_error batch maxmsg maxtree fm gets size ar j od Hj)) as Hnb.
      rewrite nth_gets in Hnb. unfold bad_tget in Hnb. split.
      - destruct (tg_end (tget_of_stream (nth j ss empty_stream))) as [c|]; [|reflexivity].
        exfalso. apply Hnb. left. eauto.
      - intros it Hit Hm. apply Hnb. right. apply Exists_exists. exists it. split; [exact Hit|left; exact Hm].
    Qed.

    Lemma zs_facts od s :
      In (od, s) (m_zs ar ss) ->
      exists j, nth_error (ar_dirs ar) j = Some od /\ s = nth j ss empty_stream
                /\ stream_consistent s /\ tg_end (tget_of_stream s) = None.
    Proof.
      intro H. apply zip_streams_in in H. destruct H as (j & Hj & ->). exists j.
      split; [exact Hj|]. split; [reflexivity|].
      split; [apply consistent_nth, Hcons|apply (dir_facts _ _ Hj)].
    Qed.

    Lemma zs_intact od s : In (od, s) (m_zs ar ss) -> stream_intact s = true.
    Proof.
      intro H. destruct (zs_facts _ _ H) as (j & _ & _ & Hc & He).
      destruct (visit_ok_facts _ Hc He) as (Ht & Hcl & Hf).
      apply stream_intact_intro; [exact Ht|exact Hcl|].
      intros x Hx. destruct (Hf x Hx) as (d & sz & -> & _). eauto.
    Qed.

    (** A digest the monitor takes from an intact tree is one the model took
        from the delivered items of that tree. *)
    Lemma tdigs_items o :
      In o (m_tdigs ar ss) ->
      exists j od it, nth_error (ar_dirs ar) j = Some od
                      /\ In it (tg_items (nth j gets get_not_found))
                      /\ In o (item_digs (is_some (od_root od)) it).
    Proof.
      unfold m_tdigs. rewrite in_flat_map. intros ([od s] & Hp & Ho). cbn [fst snd] in Ho.
      apply filter_In in Hp. destruct Hp as [Hp _].
      destruct (zs_facts _ _ Hp) as (j & Hj & Hs & Hc & He).
      destruct (visit_ok_facts _ Hc He) as (_ & _ & Hf).
      unfold tree_digs in Ho. apply in_flat_map in Ho. destruct Ho as (x & Hx & Ho).
      destruct (Hf x Hx) as (d & sz & -> & Hit).
      exists j, od, (d, sz). rewrite nth_gets, <- Hs. repeat split; [exact Hj|exact Hit|exact Ho].
    Qed.

    Lemma no_malformed_ar :
      ~ (Exists malformed (ar_files ar)
         \/ Exists (fun od => malformed (od_tree od) \/ malformed (od_root od) \/ od_tree od = None) (ar_dirs ar)
         \/ malformed (ar_stdout ar) \/ malformed (ar_stderr ar)).
    Proof. apply contra. apply get_malformed_is_error. Qed.

    Lemma refd_referenced d :
      In d (valid_ids (m_ar_digs ar ++ m_tdigs ar ss)) -> In d (referenced ar gets).
    Proof.
      intro H. apply valid_ids_in in H. destruct H as (w & Hin & _ & ->).
      unfold referenced. apply in_app_iff in Hin. destruct Hin as [Hin|Hin].
      - unfold m_ar_digs in Hin. apply in_app_iff in Hin. destruct Hin as [Hin|Hin].
        + apply in_app_iff. left. apply ids_of_in, Hin.
        + apply in_app_iff in Hin. apply in_app_iff. right. destruct Hin as [Hin|Hin].
          * apply in_app_iff. left. unfold outdir_ids. apply in_flat_map in Hin.
            destruct Hin as (od & Hod & Hin). apply in_flat_map. exists od. split; [exact Hod|].
            apply ids_of_in, Hin.
          * apply in_app_iff. right. apply in_app_iff. left. apply ids_of_in, Hin.
      - destruct (tdigs_items _ Hin) as (j & od & it & Hj & Hit & Ho).
        do 3 (apply in_app_iff; right).
        eapply (tree_ids_in gets (ar_dirs ar) 0 j od); [exact Hj|]. cbn [Nat.add].
        apply in_flat_map. exists it. split; [exact Hit|].
        unfold item_digs in Ho. unfold item_ids. apply in_app_iff in Ho. apply in_app_iff.
        destruct Ho as [Ho|Ho]; [left; apply ids_of_in, Ho|right].
        destruct (is_some (od_root od)); [apply ids_of_in, Ho|destruct Ho].
    Qed.

    Lemma cl1_false : cl1 ar ss code calls = false.
    Proof.
      unfold cl1. apply andb_false_iff. right. apply negb_false_iff, forallb_forall.
      intros d Hd. apply mem_true. apply refd_referenced in Hd.
      destruct (get_complete_only_if_all_present _ _ _ _ _ _ _ _ run_ok d Hd) as (k & b & m & Hlog & _ & Hb & Hm).
      eapply reported_present_intro; eauto.
    Qed.

    Lemma cl2_false : cl2 ar ss code = false.
    Proof.
      unfold cl2. apply andb_false_iff. right. apply orb_false_iff. split.
      - destruct (has_malformed (m_ar_digs ar ++ m_tdigs ar ss)) eqn:E; [exfalso|reflexivity].
        apply has_malformed_true in E. destruct E as (w & Hin & Hw).
        assert (Hmal : malformed (Some w)) by (exists w; auto).
        apply in_app_iff in Hin. destruct Hin as [Hin|Hin].
        + apply no_malformed_ar. unfold m_ar_digs in Hin.
          apply in_app_iff in Hin. destruct Hin as [Hin|Hin].
          * left. apply Exists_exists. eauto.
          * apply in_app_iff in Hin. destruct Hin as [Hin|Hin].
            -- right; left. apply in_flat_map in Hin. destruct Hin as (od & Hod & Hin).
               apply Exists_exists. exists od. split; [exact Hod|].
               destruct Hin as [E|[E|[]]]; rewrite E; auto.
            -- right; right. destruct Hin as [E|[E|[]]]; rewrite E; auto.
        + destruct (tdigs_items _ Hin) as (j & od & it & Hj & Hit & Ho).
          rewrite nth_gets in Hit. apply (proj2 (dir_facts _ _ Hj) it Hit).
          apply Exists_exists. eauto.
      - destruct (existsb (fun od => negb (is_some (od_tree od))) (ar_dirs ar)) eqn:E; [exfalso|reflexivity].
        apply existsb_exists in E. destruct E as (od & Hod & E).
        apply no_malformed_ar. right; left. apply Exists_exists. exists od. split; [exact Hod|].
        right; right. destruct (od_tree od); [discriminate|reflexivity].
    Qed.

    Lemma cl3_false : cl3 ar ss code = false.
    Proof.
      unfold cl3. apply andb_false_iff. right. apply negb_false_iff, forallb_forall.
      intros [od s] Hp. cbn [snd]. eapply zs_intact; eauto.
    Qed.

    Lemma sum_tree_sizes dirs :
      (forall od, In od dirs -> exists w, od_tree od = Some w /\ wd_ok w = true) ->
      fold_right Z.add 0 (map (fun od => match od_tree od with Some w => if wd_ok w then wd_size w else 0 | None => 0 end) dirs)
      = tree_sizes dirs.
    Proof.
      induction dirs as [|od t IH]; intro H; [reflexivity|].
      unfold tree_sizes. cbn [map fold_right]. fold (tree_sizes t).
      rewrite IH by (intros od' Hod'; apply H; right; exact Hod').
      destruct (H od (or_introl eq_refl)) as (w & -> & ->). reflexivity.
    Qed.

    Hypothesis Hbudget : ar_dirs ar <> [] \/ 0 <= maxtree.

    Lemma cl4_false : cl4 maxtree ar code = false.
    Proof.
      unfold cl4. apply andb_false_iff. right. apply Z.ltb_ge.
      rewrite sum_tree_sizes.
      - apply Z.nlt_ge. apply contra. apply get_tree_budget. exact Hbudget.
      - intros od Hod. destruct (od_tree od) as [w|] eqn:Et.
        + exists w. split; [reflexivity|]. destruct (wd_ok w) eqn:Ew; [reflexivity|exfalso].
          apply no_malformed_ar. right; left. apply Exists_exists. exists od. split; [exact Hod|].
          left. exists w. auto.
        + exfalso. apply no_malformed_ar. right; left. apply Exists_exists. exists od. auto.
    Qed.
  End Returned.

  Lemma cl5_false : (1 <= batch)%nat -> cl5 batch calls = false.
  Proof.
    intro Hb. unfold cl5. destruct (existsb _ _) eqn:E; [exfalso|reflexivity].
    apply existsb_exists in E. destruct E as (c & Hc & Hlt). apply Nat.ltb_lt in Hlt.
    unfold m_fmcalls in Hc. apply filter_In in Hc. destruct Hc as [Hc Hfmc].
    apply in_calls in Hc. destruct Hc as (x & Hx & ->).
    apply enc_call_fm in Hfmc. destruct Hfmc as (k & b & a & ->).
    destruct (get_every_batch_bounded _ _ _ _ _ _ _ _ Hb Hrun _ _ _ Hx) as [Hlen _].
    assert (Hl : length (sx_list (sx_nth (enc_call (CFm k b a)) 1)) = length (dedup_sort b)).
    { destruct a; cbn [enc_call]; rewrite sx_nth_L; cbn [nth]; apply sx_list_of_nats_length. }
    rewrite Hl in Hlt. pose proof (dedup_sort_length b). lia.
  Qed.

  Lemma cl6_false : cl6 ss code calls = false.
  Proof.
    unfold cl6.
    destruct (existsb _ (m_fmcalls calls)) eqn:E; [|reflexivity].
    destruct (forallb (fun s => negb (is_some (st_term s))) ss) eqn:F; [|reflexivity].
    cbn [andb]. apply negb_false_iff.
    apply existsb_exists in E. destruct E as (c & Hc & Hm).
    unfold m_fmcalls in Hc. apply filter_In in Hc. destruct Hc as [Hc Hfmc].
    apply in_calls in Hc. destruct Hc as (x & Hx & ->).
    apply enc_call_fm in Hfmc. destruct Hfmc as (k & b & a & ->).
    destruct a as [m|e].
    2:{ cbn in Hm. rewrite andb_false_r in Hm. discriminate. }
    cbn [enc_call] in Hm. rewrite !sx_nth_L in Hm. cbn [nth] in Hm.
    rewrite sx_list_of_nats_length in Hm. apply andb_prop in Hm. destruct Hm as [_ Hm].
    destruct m as [|x0 m]; [discriminate|].
    assert (Hres : r = Some code_not_found).
    { eapply nf6_decorator_get; [|exact Hrun|exact Hx].
      intro i. rewrite nth_gets, tget_term.
      destruct (Nat.lt_ge_cases i (length ss)) as [Hl|Hl].
      - left. rewrite forallb_forall in F. specialize (F _ (nth_In ss empty_stream Hl)).
        destruct (st_term (nth i ss empty_stream)); [discriminate|reflexivity].
      - right. rewrite nth_overflow by exact Hl. reflexivity. }
    rewrite Hres. reflexivity.
  Qed.
End Silent.

(** * The theorem *)

Definition env_wf (env : sx) : Prop :=
  (1 <= sx_nat (sx_nth (sx_nth env 0) 0))%nat
  /\ (ar_dirs (dec_ar (sx_nth env 2)) <> [] \/ 0 <= sx_Z (sx_nth (sx_nth env 0) 2))
  /\ Forall stream_consistent (map dec_stream (sx_list (sx_nth env 3))).

Lemma dec_code_nz s c : dec_code s = Some c -> c <> 0.
Proof.
  unfold dec_code. destruct (Z.eqb (sx_Z s) 0) eqn:E; [discriminate|].
  intro H. inversion H. subst. apply Z.eqb_neq. exact E.
Qed.

Lemma fm_of_nz script default k b : fm_of script default k b <> FmErr 0.
Proof.
  unfold fm_of. destruct (Z.eqb (fst (nth k script (0, default))) 0) eqn:E; [discriminate|].
  intro H. inversion H as [H0]. rewrite H0 in E. discriminate.
Qed.

Lemma mon_env_silent env :
  env_wf env -> dec_code (sx_nth (sx_nth env 1) 0) = None ->
  mon_env env (match fst (run_env env) with None => 0 | Some c => c end)
          (map enc_call (rev (q_log (snd (run_env env))))) = [].
Proof.
  intros (Hb & Hbud & Hcons) Hac. rewrite mon_env_clauses. cbv zeta.
  unfold run_env. rewrite Hac.
  set (batch := sx_nat (sx_nth (sx_nth env 0) 0)) in *.
  set (maxtree := sx_Z (sx_nth (sx_nth env 0) 2)) in *.
  set (maxmsg := sx_Z (sx_nth (sx_nth env 0) 1)).
  set (ar := dec_ar (sx_nth env 2)) in *.
  set (ss := map dec_stream (sx_list (sx_nth env 3))) in *.
  set (fm := fm_of _ _).
  set (size := sx_Z (sx_nth (sx_nth env 1) 1)).
  assert (Hg : map (fun s => tget_of_stream (dec_stream s)) (sx_list (sx_nth env 3)) = map tget_of_stream ss)
    by (unfold ss; rewrite map_map; reflexivity).
  rewrite Hg. clear Hg.
  destruct (decorator_get batch maxmsg maxtree fm (map tget_of_stream ss) (AcOk size ar)) as [r q] eqn:Hrun.
  cbn [fst snd].
  assert (Hfm : forall k b, fm k b <> FmErr 0) by (intros; apply fm_of_nz).
  assert (Hterm : forall s, In s ss -> st_term s <> Some 0).
  { intros s Hs. apply in_map_iff in Hs. destruct Hs as (x & <- & _).
    cbn [dec_stream st_term]. intro E. exact (dec_code_nz _ _ E eq_refl). }
  rewrite (cl5_false _ _ _ _ _ _ _ _ _ Hrun Hb), (cl6_false _ _ _ _ _ _ _ _ _ Hrun).
  destruct (Z.eqb (match r with None => 0 | Some c => c end) 0) eqn:Hret.
  - pose proof (returned_inv _ _ _ _ _ _ _ _ _ Hrun Hfm Hterm Hret) as Hr.
    rewrite (cl1_false _ _ _ _ _ _ _ _ _ Hrun Hcons Hr), (cl2_false _ _ _ _ _ _ _ _ _ Hrun Hcons Hr),
      (cl3_false _ _ _ _ _ _ _ _ _ Hrun Hcons Hr), (cl4_false _ _ _ _ _ _ _ _ _ Hrun Hr Hbud).
    reflexivity.
  - unfold cl1, cl2, cl3, cl4. rewrite Hret. reflexivity.
Qed.

(** Every observation the judge accepts as agreeing with the model. *)
Theorem mon13_silent_on_agreeing : forall inp obs,
  env_wf (env_of obs) ->
  sx_eqb (run13 (env_of obs)) (L [sx_nth obs 0; sx_nth obs 2]) = true ->
  mon13 inp obs = [].
Proof.
  intros inp obs Hwf Hag. apply sx_eqb_eq in Hag. unfold mon13.
  destruct (dec_code (sx_nth (sx_nth (env_of obs) 1) 0)) eqn:Hac; [reflexivity|].
  unfold run13, enc_out in Hag. inversion Hag as [[H0 H2]].
  cbn [sx_Z sx_list]. apply mon_env_silent; assumption.
Qed.

(** The observation assembled from the model's own output. *)
Definition model_obs (env same : sx) : sx :=
  L [sx_nth (run13 env) 0; same; sx_nth (run13 env) 1; env].

Theorem mon13_silent_on_model : forall inp env same,
  env_wf env -> mon13 inp (model_obs env same) = [].
Proof.
  intros inp env same Hwf. apply mon13_silent_on_agreeing; [exact Hwf|].
  unfold model_obs, env_of. rewrite !sx_nth_L. cbn [nth].
  unfold run13, enc_out. rewrite !sx_nth_L. cbn [nth]. apply sx_eqb_refl.
Qed.

(** * Every hypothesis is needed: the monitor fires on the model without it *)

Definition nec_env (cfg files dirs gets absent : sx) : sx :=
  L [cfg; L [A 0; A 10]; L [files; dirs; L []; L []; A 0]; gets; L [L []; absent]].

(** batch size 0: the final flush holds one digest, a batch larger than 0. *)
Example batch_needed :
  mon13 (L []) (model_obs (nec_env (L [A 0; A 100; A 100]) (L [L [A 1; A 1; A 5]]) (L []) (L []) (L [])) (A 1))
  = [5].
Proof. vm_compute. reflexivity. Qed.

(** negative tree budget and no output directory: the loop never compares. *)
Example budget_needed :
  mon13 (L []) (model_obs (nec_env (L [A 1; A 100; A (-1)]) (L []) (L []) (L []) (L [])) (A 1)) = [4].
Proof. vm_compute. reflexivity. Qed.

(** harness parse flagged unclean although the visit of the (empty) Tree succeeds. *)
Example clean_needed :
  mon13 (L []) (model_obs (nec_env (L [A 1; A 100; A 100]) (L []) (L [L [L [A 1; A 2; A 0]; L []]])
                            (L [L [L []; A 0; L []; A 0]]) (L [])) (A 1)) = [3].
Proof. vm_compute. reflexivity. Qed.

(** a listed root field (file 9, absent from the CAS) that the visitor never hands over. *)
Example field_visited_needed :
  mon13 (L []) (model_obs (nec_env (L [A 1; A 100; A 100]) (L []) (L [L [L [A 1; A 2; A 0]; L []]])
                            (L [L [L []; A 0; L [L [A 0; A 1; L [L [L [A 1; A 9; A 5]]; L []]]]; A 1]])
                            (L [A 9])) (A 1)) = [1].
Proof. vm_compute. reflexivity. Qed.

(** two listed fields under the same payload offset: the model decodes the first. *)
Example field_lookup_needed :
  mon13 (L []) (model_obs (nec_env (L [A 1; A 100; A 100]) (L []) (L [L [L [A 1; A 2; A 2]; L []]])
                            (L [L [L [A 10; A 0]; A 0;
                                   L [L [A 2; A 1; L [L []; L []]]; L [A 2; A 1; L [L [L [A 1; A 9; A 5]]; L []]]];
                                   A 1]])
                            (L [A 9])) (A 1)) = [1].
Proof. vm_compute. reflexivity. Qed.

(** Non-vacuity: a consistent environment with one Tree (root directory with
    file 5) satisfies [env_wf]; everything present => returned, silent. *)
Definition ok_env : sx :=
  nec_env (L [A 2; A 100; A 100]) (L [L [A 1; A 1; A 5]]) (L [L [L [A 1; A 2; A 2]; L [A 1; A 3; A 1]]])
          (L [L [L [A 10; A 0]; A 0; L [L [A 2; A 1; L [L [L [A 1; A 5; A 5]]; L []]]]; A 1]]) (L []).

Example ok_env_wf : env_wf ok_env.
Proof.
  split; [vm_compute; lia|]. split; [left; vm_compute; discriminate|].
  apply Forall_forall. intros s Hs. vm_compute in Hs. destruct Hs as [<-|[]].
  intros vs H. vm_compute in H. inversion H. subst. clear H.
  split; [reflexivity|]. intros o num d Hin Hn. cbn [st_fields] in Hin.
  destruct Hin as [E|[]]. inversion E. subst.
  split; [vm_compute; reflexivity|]. eexists. split; [left; reflexivity|]. split; vm_compute; reflexivity.
Qed.

Example ok_env_run : run13 ok_env = L [A 0; L [L [A 0; L [A 1; A 2]; A 0; L []]; L [A 1; A 2];
                                               L [A 0; L [A 3; A 5]; A 0; L []]]].
Proof. vm_compute. reflexivity. Qed.
