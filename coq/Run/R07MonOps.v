(** C07, "the monitor is silent on the model" — part 2: what one operation
    of the coarse executor does.

    [do_op_tri]: an operation never panics and is one of: nothing (with a
    result the monitor does not mistake for an effect), exactly one
    environment event of the LTS, or exactly one thread step with an external
    answer (I/O completion, timer expiry).  [qtraj]: what the following
    [quiesce] can do (clock, cancellation and lastSynchronizationTime
    untouched; at most one new DataSyncer call; a sync with keep = true can
    only be entered from [PNotify true], which only a timer expiry creates).
    [init_quiet]: the state after construction. *)
From Coq Require Import List NArith ZArith Bool Arith Lia.
From BBS Require Import Common.Sx Persist.PBL Persist.PBLProofs Persist.Syncer Persist.SyncerProofs
  Persist.LiveActs Persist.LiveCover Persist.LiveRelease Run.R07 Run.R07MonBase.
Import ListNotations.
Local Open Scope nat_scope.

(** ---- the branches of do_op ---- *)
Definition d_noop (x : xst) (r : Z) : outcome (xst * sx) := Ok (x, L [A r]).
Definition d_lift (x : xst) (o : option (outcome xst)) (r : sx) (no : Z) : outcome (xst * sx) :=
  match o with
  | None => Ok (x, L [A no])
  | Some Panic => Panic
  | Some (Ok x') => Ok (x', r)
  end.

Definition op1 (cfg : config) (op : sx) (x : xst) : outcome (xst * sx) :=
  let s := x_sys x in
  let p := s_pbl s in
  let back := sx_nat (sx_nth op 1) in
  let n := length (blocks p) in
  if (back <? n)%nat then
    let idx := (n - 1 - back)%nat in
    let blk := if sx_bool (sx_nth op 4) then None else Some (sx_Z (sx_nth op 3)) in
    let lo := if closedForWriting p then (-1)%Z else
              match nth_error (blocks p) idx with Some b => fst (b_loc b) | None => (-1)%Z end in
    match env_step cfg x (EPutStart idx (sx_Z (sx_nth op 2))) with
    | None => d_noop x 0
    | Some Panic => Panic
    | Some (Ok x') =>
        Ok (mkX (x_sys x') (x_nalloc x') (x_nseed x') (x_blk x' ++ [blk]) (x_nwr x') (x_nsy x'),
            L [A 1; A lo])
    end
  else d_noop x 0.

Definition op2 (cfg : config) (op : sx) (x : xst) : outcome (xst * sx) :=
  let s := x_sys x in
  let p := s_pbl s in
  let k := sx_nat (sx_nth op 1) in
  match nth_error (s_uploads s) k, nth_error (x_blk x) k with
  | Some (Some (tok, size)), Some blk =>
      let seed := (1000 + x_nseed x)%N in
      match put_finalize tok blk size seed p with
      | Panic => Panic
      | Ok (p', fr) =>
          match env_step cfg x (EFinalize k blk seed) with
          | None => d_noop x (-1)
          | Some Panic => Panic
          | Some (Ok x') =>
              let grew := (length (epochSeeds p) <? length (epochSeeds p'))%nat in
              let x'' := mkX (x_sys x') (x_nalloc x') (if grew then x_nseed x' + 1 else x_nseed x')%N
                             (x_blk x') (x_nwr x') (x_nsy x') in
              match fr with
              | FinOk off =>
                  let idx := match tok with PutAt abs => (abs - totalReleased p')%nat | PutClosed => O end in
                  match index_to_ref idx p' with
                  | Panic => Panic
                  | Ok ((e, bfl), sd) => Ok (x'', L [A 0; A off; of_N e; of_N bfl; of_N sd])
                  end
              | FinBlockError => Ok (x'', L [A 10])
              | FinClosed => Ok (x'', L [A 14])
              | FinReleased => Ok (x'', L [A 13])
              end
          end
      end
  | _, _ => d_noop x (-1)
  end.

Definition op3 (cfg : config) (op : sx) (x : xst) := d_lift x (env_step cfg x EPopFront) (L [A 1]) 0.

Definition op4 (cfg : config) (op : sx) (x : xst) : outcome (xst * sx) :=
  let p := s_pbl (x_sys x) in
  let ok := sx_bool (sx_nth op 1) in
  let l : loc := ((10000 + 100 * Z.of_nat (x_nalloc x))%Z, 100%Z) in
  let alloc := if ok then Some l else None in
  match snd (push_back alloc p) with
  | PushOk =>
      match env_step cfg x (EPushBack alloc) with
      | Some (Ok x') => Ok (mkX (x_sys x') (S (x_nalloc x')) (x_nseed x') (x_blk x') (x_nwr x') (x_nsy x'),
                            L [A 0; A (fst l)])
      | _ => Panic
      end
  | PushClosed => Ok (x, L [A 14])
  | PushAllocFailed => Ok (x, L [A 8])
  end.

Definition op5 (cfg : config) (op : sx) (x : xst) : outcome (xst * sx) :=
  let s := x_sys x in
  if is_syncing s then d_lift x (tstep cfg TP (mkAns (sx_bool (sx_nth op 1)) (s_now s)) x) (L [A 1]) 0
  else d_noop x 0.

Definition op6 (cfg : config) (op : sx) (x : xst) : outcome (xst * sx) :=
  let s := x_sys x in
  match writer s with
  | Some t => d_lift x (tstep cfg t (mkAns (sx_bool (sx_nth op 1)) (s_now s)) x) (L [A 1]) 0
  | None => d_noop x 0
  end.

Definition op7 (cfg : config) (op : sx) (x : xst) := d_lift x (env_step cfg x (ETick (sx_N (sx_nth op 1)))) (L []) 0.

Definition op8 (cfg : config) (op : sx) (x : xst) : outcome (xst * sx) :=
  let s := x_sys x in
  if Z.eqb (sx_Z (sx_nth op 1)) 0 then
    match s_r s with
    | RW (WSleep dl) => if due dl s then d_lift x (tstep cfg TR (mkAns false (s_now s)) x) (L [A 1]) 0 else d_noop x 0
    | _ => d_noop x 0
    end
  else
    match s_p s with
    | PTimer dl | PSyncSleep _ _ dl | PW _ (WSleep dl) =>
        if due dl s then d_lift x (tstep cfg TP (mkAns false (s_now s)) x) (L [A 1]) 0 else d_noop x 0
    | _ => d_noop x 0
    end.

Definition op9 (cfg : config) (op : sx) (x : xst) := d_lift x (env_step cfg x ECancel) (L []) 0.

Definition op10 (cfg : config) (op : sx) (x : xst) : outcome (xst * sx) :=
  match ref_to_index (sx_N (sx_nth op 1)) (sx_N (sx_nth op 2)) (s_pbl (x_sys x)) with
  | Panic => Panic
  | Ok None => d_noop x (-1)
  | Ok (Some (i, sd)) => Ok (x, L [of_nat i; of_N sd])
  end.

Definition op11 (cfg : config) (op : sx) (x : xst) : outcome (xst * sx) :=
  match index_to_ref (sx_nat (sx_nth op 1)) (s_pbl (x_sys x)) with
  | Panic => d_noop x (-2)
  | Ok ((e, bfl), sd) => Ok (x, L [of_N e; of_N bfl; of_N sd])
  end.

Ltac do_op_leaf :=
  solve [left; split; reflexivity] || (right; do_op_leaf) || (split; [lia|reflexivity]).

Lemma do_op_cases cfg op x :
  (tag op = 1%Z /\ do_op cfg op x = op1 cfg op x) \/
  (tag op = 2%Z /\ do_op cfg op x = op2 cfg op x) \/
  (tag op = 3%Z /\ do_op cfg op x = op3 cfg op x) \/
  (tag op = 4%Z /\ do_op cfg op x = op4 cfg op x) \/
  (tag op = 5%Z /\ do_op cfg op x = op5 cfg op x) \/
  (tag op = 6%Z /\ do_op cfg op x = op6 cfg op x) \/
  (tag op = 7%Z /\ do_op cfg op x = op7 cfg op x) \/
  (tag op = 8%Z /\ do_op cfg op x = op8 cfg op x) \/
  (tag op = 9%Z /\ do_op cfg op x = op9 cfg op x) \/
  (tag op = 10%Z /\ do_op cfg op x = op10 cfg op x) \/
  (tag op = 11%Z /\ do_op cfg op x = op11 cfg op x) \/
  ((tag op < 1 \/ 11 < tag op)%Z /\ do_op cfg op x = Ok (x, L [A (-9)%Z])).
Proof.
  unfold tag, do_op. destruct (sx_Z (sx_nth op 0)) as [|p|p].
  - do_op_leaf.
  - destruct p as [p|p|]; [destruct p as [p|p|]; [destruct p as [p|p|]; [destruct p as [p|p|]| destruct p as [p|p|]|]
                                                  |destruct p as [p|p|]; [destruct p as [p|p|]| destruct p as [p|p|]|]|]
                          |destruct p as [p|p|]; [destruct p as [p|p|]; [destruct p as [p|p|]| destruct p as [p|p|]|]
                                                  |destruct p as [p|p|]; [destruct p as [p|p|]| destruct p as [p|p|]|]|]|];
      do_op_leaf.
  - do_op_leaf.
Qed.

(** ---- trichotomy ---- *)
Definition op_none (code : Z) (res : sx) : Prop :=
  ((code = 1 \/ code = 3 \/ code = 5 \/ code = 6 \/ code = 8)%Z -> tag res = 0%Z)
  /\ (code = 4%Z -> tag res <> 0%Z)
  /\ (code = 2%Z -> tag res <> 0%Z)
  /\ code <> 7%Z /\ code <> 9%Z.

Definition env_ok (op : sx) (x : xst) (e : event) (res : sx) : Prop :=
  match e with
  | EPushBack al => tag op = 4%Z /\ exists l, al = Some l /\ res = L [A 0; A (fst l)]
                                    /\ closedForWriting (s_pbl (x_sys x)) = false
  | EPopFront => tag op = 3%Z /\ res = L [A 1]
  | EPutStart _ _ => tag op = 1%Z /\ tag res = 1%Z
  | EFinalize _ _ _ => tag op = 2%Z
  | ETick d => tag op = 7%Z /\ d = sx_N (sx_nth op 1) /\ res = L []
  | ECancel => tag op = 9%Z /\ res = L []
  | EStep _ _ => False
  end.

Definition p_timer_at (s : sys) (dl : N) : Prop :=
  s_p s = PTimer dl \/ (exists k f, s_p s = PSyncSleep k f dl) \/ (exists k, s_p s = PW k (WSleep dl)).

Definition thr_ok (op : sx) (x : xst) (t : tid) (a : ans) (res : sx) : Prop :=
  res = L [A 1] /\ a_time a = s_now (x_sys x) /\
  ((tag op = 5%Z /\ t = TP /\ is_syncing (x_sys x) = true /\ a_ok a = sx_bool (sx_nth op 1)) \/
   (tag op = 6%Z /\ writer (x_sys x) = Some t /\ a_ok a = sx_bool (sx_nth op 1)) \/
   (tag op = 8%Z /\ a_ok a = false /\
    ((sx_Z (sx_nth op 1) = 0%Z /\ t = TR /\ exists dl, s_r (x_sys x) = RW (WSleep dl)) \/
     (sx_Z (sx_nth op 1) <> 0%Z /\ t = TP /\
      exists dl, p_timer_at (x_sys x) dl /\ (dl <= s_now (x_sys x))%N)))).

Definition tri (cfg : config) (op : sx) (x x1 : xst) (res : sx) : Prop :=
  (x1 = x /\ op_none (tag op) res)
  \/ (exists e, env_ok op x e res /\ step cfg (x_sys x) e = Some (Ok (x_sys x1))
                /\ x_nsy x1 = x_nsy x /\ x_nwr x1 = x_nwr x)
  \/ (exists t a, thr_ok op x t a res /\ tstep cfg t a x = Some (Ok x1)).

Ltac none_tac Hc :=
  left; split; [reflexivity|]; unfold op_none; rewrite Hc; unfold tag; cbn;
  repeat split; intros; try lia; try discriminate.

Lemma index_to_ref_ok i p : pbl_inv p -> epochSeeds p <> [] -> exists r, index_to_ref i p = Ok r.
Proof.
  intros I Hne. unfold index_to_ref. destruct (length (epochSeeds p)) as [|n] eqn:El.
  - destruct (epochSeeds p); [congruence|discriminate].
  - destruct (nth_error (epochLast p) n) eqn:E1.
    + destruct (nth_error (epochSeeds p) n) eqn:E2; [eexists; reflexivity|].
      apply nth_error_None in E2. lia.
    + apply nth_error_None in E1. rewrite (i_len _ I) in E1. lia.
Qed.

Section Tri.
Variable cfg : config.
Variable alloc : loc -> Z -> bool.
Variable oldest : N.
Variable init : list bstate.
Variable t0 : N.
Notation good := (good cfg alloc oldest init t0).

Lemma d_lift_env op x e r no : good (x_sys x) -> env_ok op x e r ->
  op_none (tag op) (L [A no]) ->
  exists x1 res, d_lift x (env_step cfg x e) r no = Ok (x1, res) /\ tri cfg op x x1 res.
Proof.
  intros G He Hn. unfold d_lift. destruct (env_step cfg x e) as [[x'|]|] eqn:E.
  - eexists _, _. split; [reflexivity|]. right. left. exists e.
    destruct (env_step_ok _ _ _ _ E) as [Hs [_ [H1 H2]]]. auto.
  - exfalso. eapply env_step_nopanic; eauto.
  - eexists _, _. split; [reflexivity|]. left. auto.
Qed.

Lemma d_lift_thr op x t a : good (x_sys x) -> thr_ok op x t a (L [A 1]) ->
  op_none (tag op) (L [A 0]) ->
  exists x1 res, d_lift x (tstep cfg t a x) (L [A 1]) 0 = Ok (x1, res) /\ tri cfg op x x1 res.
Proof.
  intros G He Hn. unfold d_lift. destruct (tstep cfg t a x) as [[x'|]|] eqn:E.
  - eexists _, _. split; [reflexivity|]. right. right. exists t, a. auto.
  - exfalso. eapply tstep_nopanic; eauto.
  - eexists _, _. split; [reflexivity|]. left. auto.
Qed.

Lemma tri_op1 op x : tag op = 1%Z -> good (x_sys x) ->
  exists x1 res, op1 cfg op x = Ok (x1, res) /\ tri cfg op x x1 res.
Proof.
  intros Hc G. unfold op1. cbv zeta. destruct (_ <? _)%nat.
  - destruct (env_step cfg x _) as [[x'|]|] eqn:E.
    + destruct (env_step_ok _ _ _ _ E) as [Hs [_ [H1 H2]]].
      eexists _, _. split; [reflexivity|]. right. left. eexists.
      refine (conj _ (conj Hs (conj _ _))); unfold tag; cbn; auto.
    + exfalso. eapply env_step_nopanic; eauto.
    + eexists _, _. split; [reflexivity|]. none_tac Hc.
  - eexists _, _. split; [reflexivity|]. none_tac Hc.
Qed.

Lemma tri_op2 op x : tag op = 2%Z -> good (x_sys x) ->
  exists x1 res, op2 cfg op x = Ok (x1, res) /\ tri cfg op x x1 res.
Proof.
  intros Hc G. unfold op2. cbv zeta.
  destruct (nth_error (s_uploads (x_sys x)) _) as [[[tok size]|]|] eqn:Eu;
    try (eexists _, _; split; [reflexivity|]; none_tac Hc).
  destruct (nth_error (x_blk x) _) as [blk|] eqn:Eb;
    try (eexists _, _; split; [reflexivity|]; none_tac Hc).
  pose proof (good_inv1 _ _ _ _ _ _ G) as [I U].
  assert (tok_ok (s_pbl (x_sys x)) tok) as Hok.
  { apply nth_error_In in Eu. rewrite Forall_forall in U. apply (U _ Eu). }
  destruct (put_finalize_inv tok blk size (1000 + x_nseed x)%N _ I Hok) as [p' [fr [Hf [I' _]]]].
  rewrite Hf.
  destruct (env_step cfg x _) as [[x'|]|] eqn:E.
  - destruct (env_step_ok _ _ _ _ E) as [Hs [_ [H1 H2]]].
    assert (forall x1 res, x_sys x1 = x_sys x' -> x_nsy x1 = x_nsy x' -> x_nwr x1 = x_nwr x' ->
                           tri cfg op x x1 res) as Hdone.
    { intros x1 res E1 E2 E3. right. left. exists (EFinalize (sx_nat (sx_nth op 1)) blk (1000 + x_nseed x)%N).
      cbn [env_ok]. splits; [exact Hc|rewrite E1; exact Hs|congruence|congruence]. }
    destruct fr as [off| | |]; try (eexists _, _; split; [reflexivity|]; apply Hdone; reflexivity).
    assert (epochSeeds p' <> []) as Hne.
    { destruct (fin_cases _ _ _ _ _ _ _ Hf) as [[_ Hno]|
        (abs & off' & bumped & _ & _ & _ & _ & _ & _ & _ & Fs & Fl & Fb & _)]; [exfalso; eapply Hno; reflexivity|].
      destruct bumped.
      - rewrite Fs. destruct (epochSeeds (s_pbl (x_sys x))); discriminate.
      - destruct (Fb eq_refl) as [_ [la Hla]]. intros Hn.
        pose proof (i_len _ I') as Hlen. rewrite Fl, Hn in Hlen.
        destruct (epochLast (s_pbl (x_sys x))); [|discriminate]. destruct Hla as [Hla _]. discriminate. }
    destruct (index_to_ref_ok (match tok with PutAt abs => abs - totalReleased p' | PutClosed => 0 end) p' I' Hne)
      as [[[e bfl] sd] Hr].
    rewrite Hr. eexists _, _. split; [reflexivity|]. apply Hdone; reflexivity.
  - exfalso. eapply env_step_nopanic; eauto.
  - eexists _, _. split; [reflexivity|]. none_tac Hc.
Qed.

Lemma tri_op3 op x : tag op = 3%Z -> good (x_sys x) ->
  exists x1 res, op3 cfg op x = Ok (x1, res) /\ tri cfg op x x1 res.
Proof.
  intros Hc G. unfold op3. apply d_lift_env; auto.
  - cbn. auto.
  - unfold op_none. rewrite Hc. unfold tag. cbn. repeat split; intros; try lia; try discriminate.
Qed.

Lemma tri_op4 op x : tag op = 4%Z -> good (x_sys x) ->
  exists x1 res, op4 cfg op x = Ok (x1, res) /\ tri cfg op x x1 res.
Proof.
  intros Hc G. unfold op4. cbv zeta.
  match goal with |- context [push_back ?a _] => set (al := a) end.
  destruct (snd (push_back al (s_pbl (x_sys x)))) eqn:Ep.
  - unfold env_step. cbn [step].
    eexists _, _. split; [reflexivity|]. right. left. exists (EPushBack al).
    split; [|split; [reflexivity|cbn; auto]].
    cbn [env_ok]. split; [exact Hc|]. unfold push_back in Ep.
    destruct (closedForWriting (s_pbl (x_sys x))); [discriminate|].
    unfold al in *. destruct (sx_bool (sx_nth op 1)); [|discriminate].
    eexists. splits; reflexivity.
  - eexists _, _. split; [reflexivity|]. none_tac Hc.
  - eexists _, _. split; [reflexivity|]. none_tac Hc.
Qed.

Lemma tri_op5 op x : tag op = 5%Z -> good (x_sys x) ->
  exists x1 res, op5 cfg op x = Ok (x1, res) /\ tri cfg op x x1 res.
Proof.
  intros Hc G. unfold op5. cbv zeta. destruct (is_syncing (x_sys x)) eqn:Es.
  - apply d_lift_thr; auto.
    + unfold thr_ok. cbn. splits; auto.
    + unfold op_none. rewrite Hc. unfold tag. cbn. repeat split; intros; try lia; try discriminate.
  - eexists _, _. split; [reflexivity|]. none_tac Hc.
Qed.

Lemma tri_op6 op x : tag op = 6%Z -> good (x_sys x) ->
  exists x1 res, op6 cfg op x = Ok (x1, res) /\ tri cfg op x x1 res.
Proof.
  intros Hc G. unfold op6. cbv zeta. destruct (writer (x_sys x)) as [t|] eqn:Ew.
  - apply d_lift_thr; auto.
    + unfold thr_ok. cbn. splits; auto.
    + unfold op_none. rewrite Hc. unfold tag. cbn. repeat split; intros; try lia; try discriminate.
  - eexists _, _. split; [reflexivity|]. none_tac Hc.
Qed.

Lemma tri_op7 op x : tag op = 7%Z -> good (x_sys x) ->
  exists x1 res, op7 cfg op x = Ok (x1, res) /\ tri cfg op x x1 res.
Proof.
  intros Hc G. unfold op7, d_lift, env_step. cbn [step].
  eexists _, _. split; [reflexivity|]. right. left. exists (ETick (sx_N (sx_nth op 1))).
  split; [|split; [reflexivity|cbn; auto]].
  cbn. auto.
Qed.

Lemma tri_op9 op x : tag op = 9%Z -> good (x_sys x) ->
  exists x1 res, op9 cfg op x = Ok (x1, res) /\ tri cfg op x x1 res.
Proof.
  intros Hc G. unfold op9, d_lift, env_step. cbn [step].
  eexists _, _. split; [reflexivity|]. right. left. exists ECancel.
  split; [|split; [reflexivity|cbn; auto]].
  cbn. auto.
Qed.

Lemma tri_op8 op x : tag op = 8%Z -> good (x_sys x) ->
  exists x1 res, op8 cfg op x = Ok (x1, res) /\ tri cfg op x x1 res.
Proof.
  intros Hc G. unfold op8. cbv zeta.
  assert (Hn : op_none (tag op) (L [A 0%Z])).
  { unfold op_none. rewrite Hc. unfold tag. cbn. repeat split; intros; try lia; try discriminate. }
  destruct (Z.eqb_spec (sx_Z (sx_nth op 1)) 0) as [Hw|Hw].
  - destruct (s_r (x_sys x)) as [| |[| | | |dl]] eqn:Er;
      try (eexists _, _; split; [reflexivity|]; left; auto).
    destruct (due dl (x_sys x)) eqn:Ed; [|eexists _, _; split; [reflexivity|]; left; auto].
    apply d_lift_thr; auto. unfold thr_ok. cbn. splits; auto.
    right. right. splits; auto. left. splits; eauto.
  - assert (forall dl, p_timer_at (x_sys x) dl ->
              exists x1 res, (if due dl (x_sys x)
                              then d_lift x (tstep cfg TP (mkAns false (s_now (x_sys x))) x) (L [A 1%Z]) 0
                              else d_noop x 0) = Ok (x1, res) /\ tri cfg op x x1 res) as Hcase.
    { intros dl Hat. destruct (due dl (x_sys x)) eqn:Ed; [|eexists _, _; split; [reflexivity|]; left; auto].
      apply d_lift_thr; auto. unfold thr_ok. cbn. splits; auto.
      right. right. splits; auto. right. splits; auto. exists dl. split; [exact Hat|].
      unfold due in Ed. apply N.leb_le. exact Ed. }
    destruct (s_p (x_sys x)) as [|ch|ch|dl|keep|keep final|keep final|keep final dl|keep [| | | |dl]|] eqn:Ep;
      try (eexists _, _; split; [reflexivity|]; left; auto).
    + apply Hcase. left. exact Ep.
    + apply Hcase. right. left. eauto.
    + apply Hcase. right. right. eauto.
Qed.

Lemma tri_op10 op x : tag op = 10%Z -> good (x_sys x) ->
  exists x1 res, op10 cfg op x = Ok (x1, res) /\ tri cfg op x x1 res.
Proof.
  intros Hc G. unfold op10.
  assert (Hn : forall res, op_none (tag op) res).
  { intros res. unfold op_none. rewrite Hc. repeat split; intros; try lia; try discriminate. }
  destruct (ref_to_index _ _ _) as [[[i sd]|]|] eqn:E.
  - eexists _, _. split; [reflexivity|]. left. auto.
  - eexists _, _. split; [reflexivity|]. left. auto.
  - exfalso. pose proof (good_inv1 _ _ _ _ _ _ G) as [I _]. unfold ref_to_index in E.
    destruct (_ <=? _)%N eqn:El; [discriminate|]. apply N.leb_gt in El.
    set (n := N.to_nat (u32 (sx_N (sx_nth op 1) + 2 ^ 32 - oldestEpochID (s_pbl (x_sys x))))) in *.
    assert (n < length (epochSeeds (s_pbl (x_sys x)))) as Hlt by (unfold n; lia).
    destruct (nth_error (epochLast (s_pbl (x_sys x))) n) eqn:E1.
    + destruct (nth_error (epochSeeds (s_pbl (x_sys x))) n) eqn:E2.
      * destruct (_ <? _)%Z; discriminate.
      * apply nth_error_None in E2. lia.
    + apply nth_error_None in E1. rewrite (i_len _ I) in E1. lia.
Qed.

Lemma tri_op11 op x : tag op = 11%Z -> good (x_sys x) ->
  exists x1 res, op11 cfg op x = Ok (x1, res) /\ tri cfg op x x1 res.
Proof.
  intros Hc G. unfold op11.
  assert (Hn : forall res, op_none (tag op) res).
  { intros res. unfold op_none. rewrite Hc. repeat split; intros; try lia; try discriminate. }
  destruct (index_to_ref _ _) as [[[e bfl] sd]|]; eexists _, _; (split; [reflexivity|]); left; auto.
Qed.

Theorem do_op_tri op x : good (x_sys x) ->
  exists x1 res, do_op cfg op x = Ok (x1, res) /\ tri cfg op x x1 res.
Proof.
  intros G.
  destruct (do_op_cases cfg op x) as [[Hc ->]|[[Hc ->]|[[Hc ->]|[[Hc ->]|[[Hc ->]|[[Hc ->]|[[Hc ->]|[[Hc ->]|
    [[Hc ->]|[[Hc ->]|[[Hc ->]|[Hc ->]]]]]]]]]]]].
  - apply tri_op1; auto.
  - apply tri_op2; auto.
  - apply tri_op3; auto.
  - apply tri_op4; auto.
  - apply tri_op5; auto.
  - apply tri_op6; auto.
  - apply tri_op7; auto.
  - apply tri_op8; auto.
  - apply tri_op9; auto.
  - apply tri_op10; auto.
  - apply tri_op11; auto.
  - eexists _, _. split; [reflexivity|]. left. split; [reflexivity|].
    unfold op_none. repeat split; intros; lia.
Qed.

Lemma tri_good op x x1 res : good (x_sys x) -> tri cfg op x x1 res -> good (x_sys x1).
Proof.
  intros G [[-> _]|[[e [_ [Hs _]]]|[t [a [_ Ht]]]]]; auto.
  - eapply step_good; eauto.
  - destruct (tstep_ok _ _ _ _ _ Ht) as [Hs _]. eapply step_good; eauto.
Qed.

(** ---- what quiesce does ---- *)
Definition is_sleep (p : ppc) : bool := match p with PSyncSleep _ _ _ => true | _ => false end.

Record qtraj (x1 x2 : xst) : Prop := mkQ {
  q_now : s_now (x_sys x2) = s_now (x_sys x1);
  q_cancel : s_cancel (x_sys x2) = s_cancel (x_sys x1);
  q_last : s_last (x_sys x2) = s_last (x_sys x1);
  q_tr : totalReleased (s_pbl (x_sys x2)) = totalReleased (s_pbl (x_sys x1));
  q_nsy : if is_syncing (x_sys x1) then x_nsy x2 = x_nsy x1 /\ s_p (x_sys x2) = s_p (x_sys x1)
          else x_nsy x2 = (if is_syncing (x_sys x2) then S (x_nsy x1) else x_nsy x1);
  q_keep : s_p (x_sys x2) = PNotify true \/ (exists f, s_p (x_sys x2) = PSyncing true f) ->
           s_p (x_sys x1) = PNotify true \/ s_p (x_sys x1) = s_p (x_sys x2);
  q_sleep1 : is_sleep (s_p (x_sys x2)) = true -> s_p (x_sys x1) = s_p (x_sys x2);
  q_sleep2 : is_sleep (s_p (x_sys x1)) = true -> s_p (x_sys x2) = s_p (x_sys x1);
  q_notify : forall k, s_p (x_sys x1) = PNotify k -> s_p (x_sys x2) = PNotify k \/ s_p (x_sys x2) = PSyncing k false
}.

Lemma qtraj_refl x : qtraj x x.
Proof.
  constructor; auto. destruct (is_syncing (x_sys x)); auto.
Qed.

Lemma internal_act_tr s t a s' : step cfg s (EStep t a) = Some (Ok s') ->
  totalReleased (s_pbl s') = totalReleased (s_pbl s).
Proof.
  intros H. pose proof (step_act _ _ _ _ H) as Ha.
  pose proof (act_rel _ _ _ Ha) as F. revert F.
  destruct (act_of s (EStep t a)) eqn:Ea; intros F; try (destruct F as [_ [_ [_ F]]]; exact F).
  exfalso. revert Ea. cbn.
  destruct t; [destruct (s_r s) as [| |[]]|destruct (s_p s) as [| | | | | | | |? []|]]; cbn; intros Ea; discriminate Ea.
Qed.

Lemma qtraj_step x1 x t x' : qtraj x1 x -> good (x_sys x) -> t_internal cfg (x_sys x) t = true ->
  tstep cfg t internal_ans x = Some (Ok x') -> qtraj x1 x'.
Proof.
  intros Q G Hi Ht. destruct (tstep_ok _ _ _ _ _ Ht) as [Hs [_ [_ Hsy]]].
  pose proof (good_inv1 _ _ _ _ _ _ G) as II.
  pose proof (internal_act_tr _ _ _ _ Hs) as Htr.
  destruct Q as [Q1 Q2 Q3 Q4 Q5 Q6 Q7 Q8 Q9].
  destruct t; cbn [step t_internal] in *.
  - pose proof (rstep_frame _ _ _ _ II Hs) as Ep. pose proof (rstep_cancel _ _ _ _ II Hs) as Ec.
    destruct (rstep_frame_t _ _ _ _ II Hs) as [El [_ En]].
    unfold is_syncing in *. constructor; unfold is_syncing; try congruence.
    + rewrite Ep, Hsy. exact Q5.
    + rewrite Ep. exact Q6.
    + rewrite Ep. exact Q7.
    + rewrite Ep. exact Q8.
    + rewrite Ep. exact Q9.
  - destruct (pstep_shape _ _ _ _ II Hs) as [Ec [En [Sh Hl]]].
    unfold p_internal, p_in_io, p_in_timer in Hi. unfold internal_ans in Sh. cbn [a_ok a_time] in Sh.
    unfold is_syncing, is_sleep in *.
    remember (s_p (x_sys x)) as pc eqn:Ep.
    assert (Hns : match pc with PSyncing _ _ => false | _ => true end = true).
    { destruct pc; try reflexivity. cbn in Hi. discriminate. }
    assert (Hl' : s_last (x_sys x') = s_last (x_sys x)).
    { destruct pc; auto. destruct Sh as [[_ [_ [Sl _]]]|[_ [_ [_ [_ [Hc|Hc]]]]]]; [exact Sl|congruence|discriminate]. }
    constructor; unfold is_syncing, is_sleep; try congruence.
    + revert Q5. destruct (s_p (x_sys x1)) eqn:E1; intros Q5;
        try (rewrite Hsy, Q5; destruct pc; try discriminate Hns; destruct (s_p (x_sys x')); reflexivity).
      destruct Q5 as [_ Q5]. exfalso. rewrite Q5 in Hns. discriminate Hns.
    + intros Hk. assert (pc = PNotify true) as Hpc.
      { clear Hl Hns Q5 Q6 Q7 Q8.
        destruct pc as [|ch|ch|dl|keep|keep final|keep final|keep final dl|keep w|];
          cbn in Hi; try discriminate Hi.
        * exfalso. destruct Sh as [c Sh]. rewrite Sh in Hk. destruct Hk as [Hk|[f Hk]]; discriminate.
        * exfalso. destruct Sh as [Sh|Sh]; rewrite Sh in Hk; destruct Hk as [Hk|[f Hk]]; discriminate.
        * exfalso. destruct Sh as [[_ Sh]|Sh]; rewrite Sh in Hk; destruct Hk as [Hk|[f Hk]]; discriminate.
        * exfalso. destruct Sh as [[_ [Sh _]]|[_ [_ [_ [_ [Hc|Hc]]]]]]; try congruence.
          rewrite Sh in Hk; destruct Hk as [Hk|[f Hk]]; discriminate.
        * rewrite Sh in Hk. destruct Hk as [Hk|[f Hk]]; [discriminate|]. inversion Hk; subst. reflexivity.
        * exfalso. destruct Sh as [[_ [_ Sh]]|[_ Sh]]; rewrite Sh in Hk; destruct Hk as [Hk|[f Hk]]; discriminate.
        * exfalso. destruct Sh as [[w' [Sh _]]|[_ Sh]]; rewrite Sh in Hk; destruct Hk as [Hk|[f Hk]]; try discriminate;
            destruct keep; discriminate.
        * destruct Sh. }
      destruct (Q6 (or_introl Hpc)) as [E|E]; left; congruence.
    + intros Hk. exfalso.
      destruct pc as [|ch|ch|dl|keep|keep final|keep final|keep final dl|keep w|];
        cbn in Hi; try discriminate.
      * destruct Sh as [c Sh]. rewrite Sh in Hk. discriminate.
      * destruct Sh as [Sh|Sh]; rewrite Sh in Hk; discriminate.
      * destruct Sh as [[_ Sh]|Sh]; rewrite Sh in Hk; discriminate.
      * destruct Sh as [[_ [Sh _]]|[Sh _]]; rewrite Sh in Hk; discriminate.
      * rewrite Sh in Hk. discriminate.
      * destruct Sh as [[_ [_ Sh]]|[_ Sh]]; rewrite Sh in Hk; discriminate.
      * destruct Sh as [[w' [Sh _]]|[_ Sh]]; rewrite Sh in Hk; try discriminate. destruct keep; discriminate.
      * destruct Sh.
    + intros Hk. pose proof (Q8 Hk) as E. rewrite <- E in Hk. exfalso.
      destruct pc; cbn in Hi, Hk; discriminate.
    + intros k Hk. destruct (Q9 k Hk) as [E|E].
      * rewrite E in Sh. right. exact Sh.
      * exfalso. rewrite E in Hns. discriminate Hns.
Qed.

Lemma quiesce_traj f rw x1 x2 : good (x_sys x1) -> quiesce cfg f rw x1 = Ok x2 -> qtraj x1 x2.
Proof.
  intros G H.
  destruct (quiesce_ind cfg alloc oldest init t0 (qtraj x1)
              (fun x t x' Q Gx Hi Ht => qtraj_step x1 x t x' Q Gx Hi Ht) f rw x1 x2 G (qtraj_refl x1) H) as [Q _].
  exact Q.
Qed.

End Tri.
