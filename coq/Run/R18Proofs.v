From BBS Require Import Common.Sx Common.ListX Routing.Names Routing.Trie Auth.Auth Auth.AuthProofs Run.R18.

Lemma sx_bool_of_bool b : sx_bool (of_bool b) = b.
Proof. destruct b; reflexivity. Qed.

Theorem R18_monitor_silent : forall inp, mon18 inp (run18 inp) = [].
Proof.
  intros inp. unfold mon18, run18.
  set (nm := dec_nm (sx_nth inp 4)).
  set (g := dec_tree (sx_nth inp 0)). set (p := dec_tree (sx_nth inp 1)).
  set (f := dec_tree (sx_nth inp 2)). set (o := dec_op (sx_nth inp 3)).
  set (r := authorizing nm g p f o).
  unfold enc_res. unfold sx_nth. cbn [sx_list nth].
  rewrite sx_bool_of_bool. cbn [sx_Z].
  pose proof (backend_only_if_all_allowed nm g p f o) as Hfw.
  pose proof (rejected_gets_authorizer_error nm g p f o) as Hrej.
  pose proof (static_backend_iff_covered nm g p f o) as Hst.
  pose proof (static_rejection_is_permission_denied nm g p f o) as Hpd.
  fold r in Hfw, Hrej, Hst, Hpd.
  (* clauses 4 and 5 *)
  assert (H45 : (if static_only (tree_of g p f o)
                 then (if forwarded r && negb (forallb (fun n => covered (all_prefixes (tree_of g p f o)) (nm n)) (names_of o)) then [4] else []) ++
                      (if negb (forwarded r) && (forallb (fun n => covered (all_prefixes (tree_of g p f o)) (nm n)) (names_of o)
                                                 || negb (Z.eqb (if forwarded r then 0 else code r) 7)) then [5] else [])
                 else []) = []).
  { destruct (static_only (tree_of g p f o)) eqn:Hs; [|reflexivity].
    rewrite <- (Hst eq_refl).
    destruct (forwarded r) eqn:Hf; cbn [andb negb orb app]; [reflexivity|].
    rewrite (Hpd eq_refl eq_refl). reflexivity. }
  rewrite H45. rewrite !app_nil_r. clear H45 Hst Hpd.
  destruct (forwarded r) eqn:Hf.
  - assert (Hall : forallb (fun n => allowed (sem nm (tree_of g p f o) n)) (names_of o) = true).
    { apply forallb_forall. intros n Hn. rewrite (Hfw eq_refl n Hn). reflexivity. }
    rewrite Hall. cbn [andb negb app].
    destruct o as [n|pp c|n|ns]; try reflexivity.
    pose proof (put_buffer_exactly_once nm g p f n) as [Hb _]. cbn zeta in Hb.
    fold r in Hb. unfold r in Hf. rewrite (Hb Hf). reflexivity.
  - cbn [andb negb app].
    destruct (Hrej eq_refl) as (n & Hin & Hc & Hna).
    assert (Hex : existsb (fun n0 => negb (allowed (sem nm (tree_of g p f o) n0))
                                     && Z.eqb (sem nm (tree_of g p f o) n0) (code r)) (names_of o) = true).
    { apply existsb_exists. exists n. split; [exact Hin|].
      rewrite Hna, Hc, Z.eqb_refl. reflexivity. }
    rewrite Hex. cbn [negb app].
    destruct o as [n0|pp c|n0|ns]; try reflexivity.
    pose proof (put_buffer_exactly_once nm g p f n0) as [_ Hb]. cbn zeta in Hb.
    fold r in Hb. unfold r in Hf. rewrite (Hb Hf). reflexivity.
Qed.
