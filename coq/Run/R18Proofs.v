From BBS Require Import Common.Sx Common.ListX Auth.Auth Auth.AuthProofs Run.R18.

Lemma sx_bool_of_bool b : sx_bool (of_bool b) = b.
Proof. destruct b; reflexivity. Qed.

Theorem R18_monitor_silent : forall inp, mon18 inp (run18 inp) = [].
Proof.
  intros inp. unfold mon18, run18.
  set (g := dec_tree (sx_nth inp 0)). set (p := dec_tree (sx_nth inp 1)).
  set (f := dec_tree (sx_nth inp 2)). set (o := dec_op (sx_nth inp 3)).
  set (r := authorizing g p f o).
  unfold enc_res. unfold sx_nth at 1 2 3. cbn [sx_list nth].
  rewrite sx_bool_of_bool. cbn [sx_Z].
  pose proof (backend_only_if_all_allowed g p f o) as Hfw.
  pose proof (rejected_gets_authorizer_error g p f o) as Hrej.
  fold r in Hfw, Hrej.
  destruct (forwarded r) eqn:Hf.
  - assert (Hall : forallb (fun n => allowed (sem (tree_of g p f o) n)) (names_of o) = true).
    { apply forallb_forall. intros n Hn. rewrite (Hfw eq_refl n Hn). reflexivity. }
    rewrite Hall. cbn [andb negb app].
    destruct o as [n|pp c|n|ns]; try reflexivity.
    pose proof (put_buffer_exactly_once g p f n) as [Hb _]. cbn zeta in Hb.
    fold r in Hb. unfold r in Hf. rewrite (Hb Hf). reflexivity.
  - cbn [andb negb app].
    destruct (Hrej eq_refl) as (n & Hin & Hc & Hna).
    assert (Hex : existsb (fun n0 => negb (allowed (sem (tree_of g p f o) n0))
                                     && Z.eqb (sem (tree_of g p f o) n0) (code r)) (names_of o) = true).
    { apply existsb_exists. exists n. split; [exact Hin|].
      rewrite Hna, Hc, Z.eqb_refl. reflexivity. }
    rewrite Hex. cbn [negb app].
    destruct o as [n0|pp c|n0|ns]; try reflexivity.
    pose proof (put_buffer_exactly_once g p f n0) as [_ Hb]. cbn zeta in Hb.
    fold r in Hb. unfold r in Hf. rewrite (Hb Hf). reflexivity.
Qed.
