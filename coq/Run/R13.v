(** C13: sx interface (decoders, run, monitor, judge).

    Observation written by harness/c13.go:  (code same calls env)
      code   gRPC code of decorator.Get(...).ToByteSlice (0 = ActionResult returned)
      same   1 iff the returned bytes are the Action Cache's bytes
      calls  calls received by the model CAS, in order:
               (0 (sorted batch ids) code (sorted missing ids))  FindMissing
               (1 id)                                            Get
      env    what the environment was, resolved to ids by the harness:
             (cfg ac ar gets fms)
               cfg  = (batch maxmsg maxtree)
               ac   = (code size)             Action Cache answer
               ar   = (files dirs stdout stderr inlined); digest = () | (ok id size);
                      dirs = ((tree root) ...)
               gets = one per output directory: (bytes term fields clean) -- the
                      stream CAS.Get(tree).ToReader() delivers (bytes, then EOF (0) or
                      an error code), and the harness's own parse of it:
                      fields = ((payload_offset number decoded) ...), decoded = () |
                      ((files) (dirs)); clean = 1 iff that parse consumed all bytes
               fms  = (script default): script = ((code (absent ids)) ...) per
                      FindMissing call, default = absent ids afterwards. *)
From BBS Require Import Common.Sx Common.ListX Generated.Consts Complete.WireVisit Complete.Completeness.

Definition dec_wd (s : sx) : odig :=
  match s with
  | L [A ok; A id; A size] => Some (mkWd (negb (Z.eqb ok 0)) (Z.to_nat id) size)
  | _ => None
  end.
Definition dec_wds (s : sx) : list odig := map dec_wd (sx_list s).
Definition dec_dir (s : sx) : directory := mkDir (dec_wds (sx_nth s 0)) (dec_wds (sx_nth s 1)).
Definition dec_outdir (s : sx) : outdir := mkOutDir (dec_wd (sx_nth s 0)) (dec_wd (sx_nth s 1)).
Definition dec_ar (s : sx) : action_result :=
  mkAR (dec_wds (sx_nth s 0)) (map dec_outdir (sx_list (sx_nth s 1)))
       (dec_wd (sx_nth s 2)) (dec_wd (sx_nth s 3)) (sx_nat (sx_nth s 4)).

Definition dec_code (s : sx) : option Z := let c := sx_Z s in if Z.eqb c 0 then None else Some c.

Record stream := mkStream {
  st_bytes : list N;
  st_term : option Z;
  st_fields : list (N * N * option directory);
  st_clean : bool
}.

Definition dec_field (s : sx) : N * N * option directory :=
  (sx_N (sx_nth s 0), sx_N (sx_nth s 1),
   match sx_nth s 2 with L [_; _] => Some (dec_dir (sx_nth s 2)) | _ => None end).

Definition dec_stream (s : sx) : stream :=
  mkStream (sx_Ns (sx_nth s 0)) (dec_code (sx_nth s 1)) (map dec_field (sx_list (sx_nth s 2)))
           (sx_bool (sx_nth s 3)).

Fixpoint lookup_field (off : N) (fs : list (N * N * option directory)) : option directory :=
  match fs with
  | [] => None
  | (o, _, d) :: t => if N.eqb o off then d else lookup_field off t
  end.

Definition is_tree_field (num : N) : bool :=
  N.eqb num c13_tree_root_field || N.eqb num c13_tree_children_field.

(** Fields root (1) and children (2) are unmarshalled as Directory; a field
    that does not unmarshal stops the visit with INVALID_ARGUMENT. *)
Fixpoint items_of (fs : list (N * N * option directory)) (vs : list visit)
  : list (directory * Z) * option Z :=
  match vs with
  | [] => ([], None)
  | v :: t =>
      if is_tree_field (v_num v) then
        match lookup_field (v_off v) fs with
        | Some d => let (its, e) := items_of fs t in ((d, Z.of_N (v_size v)) :: its, e)
        | None => ([], Some code_invalid)
        end
      else items_of fs t
  end.

Definition tget_of_stream (s : stream) : tget :=
  let (vs, r) := wire_visit_all (st_bytes s) (st_term s) in
  let (its, e) := items_of (st_fields s) vs in
  mkTget its
         (match e with
          | Some c => Some c
          | None => match r with WOk => None | WErr c => Some c | WFuel => Some (-1) end
          end)
         (st_term s).

Definition mem (d : nat) (l : list nat) : bool := existsb (Nat.eqb d) l.

Definition dec_script (s : sx) : list (Z * list nat) :=
  map (fun e => (sx_Z (sx_nth e 0), sx_nats (sx_nth e 1))) (sx_list s).

Definition fm_of (script : list (Z * list nat)) (default : list nat) (k : nat) (b : list nat) : fm_answer :=
  let e := nth k script (0, default) in
  if Z.eqb (fst e) 0 then FmMissing (filter (fun d => mem d (snd e)) b) else FmErr (fst e).

Definition enc_call (c : call) : sx :=
  match c with
  | CFm _ b (FmMissing m) => L [A 0; of_nats (dedup_sort b); A 0; of_nats (dedup_sort m)]
  | CFm _ b (FmErr e) => L [A 0; of_nats (dedup_sort b); A e; L []]
  | CGet _ id => L [A 1; of_nat id]
  end.

Definition enc_out (r : option Z * qstate) : sx :=
  L [A (match fst r with None => 0 | Some c => c end); L (map enc_call (rev (q_log (snd r))))].

Definition env_of (obs : sx) : sx := sx_nth obs 3.

Definition run_env (env : sx) : option Z * qstate :=
  let cfg := sx_nth env 0 in
  let acs := sx_nth env 1 in
  let ar := dec_ar (sx_nth env 2) in
  let gets := map (fun s => tget_of_stream (dec_stream s)) (sx_list (sx_nth env 3)) in
  let fms := sx_nth env 4 in
  let fm := fm_of (dec_script (sx_nth fms 0)) (sx_nats (sx_nth fms 1)) in
  let ac := match dec_code (sx_nth acs 0) with
            | Some c => AcErr c
            | None => AcOk (sx_Z (sx_nth acs 1)) ar
            end in
  decorator_get (sx_nat (sx_nth cfg 0)) (sx_Z (sx_nth cfg 1)) (sx_Z (sx_nth cfg 2)) fm gets ac.

Definition run13 (env : sx) : sx := enc_out (run_env env).

(** ---- Monitor: the property, evaluated on what the implementation did.
    It does not use [check], [wire_visit] or [tget_of_stream]; a tree counts
    as delivered intact when its stream ended with EOF and the harness's own
    parse consumed it completely with every root/children field decodable. *)
Definition valid_ids (l : list odig) : list nat :=
  flat_map (fun o => match o with Some w => if wd_ok w then [wd_id w] else [] | None => [] end) l.
Definition has_malformed (l : list odig) : bool :=
  existsb (fun o => match o with Some w => negb (wd_ok w) | None => false end) l.

Definition tree_fields (s : stream) : list (option directory) :=
  flat_map (fun f => match f with (_, num, d) => if is_tree_field num then [d] else [] end) (st_fields s).

Definition stream_intact (s : stream) : bool :=
  negb (is_some (st_term s)) && st_clean s && forallb (fun d => is_some d) (tree_fields s).

Definition dir_digs (rootset : bool) (d : option directory) : list odig :=
  match d with
  | Some d => d_files d ++ (if rootset then d_dirs d else [])
  | None => []
  end.

Definition tree_digs (od : outdir) (s : stream) : list odig :=
  flat_map (dir_digs (is_some (od_root od))) (tree_fields s).

Definition empty_stream : stream := mkStream [] (Some code_not_found) [] false.

Fixpoint zip_streams (dirs : list outdir) (ss : list stream) : list (outdir * stream) :=
  match dirs with
  | [] => []
  | od :: t => (od, hd empty_stream ss) :: zip_streams t (tl ss)
  end.

Definition reported_present (calls : list sx) : list nat :=
  flat_map (fun c =>
    if Z.eqb (sx_Z (sx_nth c 0)) 0 && Z.eqb (sx_Z (sx_nth c 2)) 0 then
      let miss := sx_nats (sx_nth c 3) in
      filter (fun d => negb (mem d miss)) (sx_nats (sx_nth c 1))
    else []) calls.

Definition mon_env (env : sx) (code : Z) (calls : list sx) : list Z :=
  let cfg := sx_nth env 0 in
  let batch := sx_nat (sx_nth cfg 0) in
  let maxtree := sx_Z (sx_nth cfg 2) in
  let ar := dec_ar (sx_nth env 2) in
  let ss := map dec_stream (sx_list (sx_nth env 3)) in
  let zs := zip_streams (ar_dirs ar) ss in
  let ar_digs := ar_files ar ++ flat_map (fun od => [od_tree od; od_root od]) (ar_dirs ar)
                 ++ [ar_stdout ar; ar_stderr ar] in
  let intact := filter (fun p => stream_intact (snd p)) zs in
  let tdigs := flat_map (fun p => tree_digs (fst p) (snd p)) intact in
  let refd := valid_ids (ar_digs ++ tdigs) in
  let present := reported_present calls in
  let returned := Z.eqb code 0 in
  let fmcalls := filter (fun c => Z.eqb (sx_Z (sx_nth c 0)) 0) calls in
  (* 1: returned although a referenced object was never reported present *)
  (if returned && negb (forallb (fun d => mem d present) refd) then [1] else []) ++
  (* 2: returned although a digest is malformed / a tree digest is absent *)
  (if returned && (has_malformed (ar_digs ++ tdigs)
                   || existsb (fun od => negb (is_some (od_tree od))) (ar_dirs ar)) then [2] else []) ++
  (* 3: returned although a Tree was unreadable or corrupted *)
  (if returned && negb (forallb (fun p => stream_intact (snd p)) zs) then [3] else []) ++
  (* 4: returned although the Trees exceed the configured total size *)
  (if returned && Z.ltb maxtree
        (fold_right Z.add 0 (map (fun od => match od_tree od with Some w => if wd_ok w then wd_size w else 0 | None => 0 end) (ar_dirs ar)))
   then [4] else []) ++
  (* 5: a FindMissing batch larger than the batch size *)
  (if existsb (fun c => Nat.ltb batch (length (sx_list (sx_nth c 1)))) fmcalls then [5] else []) ++
  (* 6: the CAS reported an object missing, no Tree read failed, and the caller
        did not receive NOT_FOUND *)
  (if existsb (fun c => Z.eqb (sx_Z (sx_nth c 2)) 0 && negb (Nat.eqb (length (sx_list (sx_nth c 3))) 0)) fmcalls
      && forallb (fun s => negb (is_some (st_term s))) ss
      && negb (Z.eqb code code_not_found) then [6] else []).

Definition mon13 (inp obs : sx) : list Z :=
  match dec_code (sx_nth (sx_nth (env_of obs) 1) 0) with
  | Some _ => []    (* the Action Cache had no entry: nothing to check *)
  | None => mon_env (env_of obs) (sx_Z (sx_nth obs 0)) (sx_list (sx_nth obs 2))
  end.

Definition judge13 (inp obs : sx) : sx :=
  let m := run13 (env_of obs) in
  let v := mon13 inp obs in
  let same_ok := if Z.eqb (sx_Z (sx_nth obs 0)) 0 then sx_bool (sx_nth obs 1) else true in
  verdict (sx_eqb m (L [sx_nth obs 0; sx_nth obs 2]) && same_ok)
          (negb (match v with [] => true | _ => false end)) m (of_Zs v).
