(** C03, monitor versus model — part 4: the bookkeeping of the monitor of Run/R03.v is SOUND
    with respect to the model, on EVERY history that the judge's replay accepts (every
    interleaving, every I/O outcome, every allocator answer — the judge resolves the
    nondeterminism from the observation, so "every accepted history" is "every resolution").

    Run/R03.v has no generative [run03 inp]: the model side of the judge is trace validation
    ([replay03]).  The monitor state [mst] decides from the entries of a history
      (a) [m_final]  : "the final synchronisation has begun" (clauses 2, 3),
      (b) [m_exited] : "the shutdown was graceful" (clause 1),
      (c) [m_lastput < m_commit] : "a commit completed that began after the last
                       BlockList.Put / finalizer" (clause 4),
    and, at the end of an incarnation ([mon_exit]), keeps its list of acknowledged copies as
    OBLIGATIONS for the read-back of the next incarnation iff (b) or (c).
    The theorems below: on every accepted history
      (a) implies that the model's list is closed for writing — hence ([refused_not_lost],
          [replay_tag4_closed]) every finalizer entry accepted afterwards is a refusal;
      (b) implies that the model's put loop has exited;
      (b) or (c) implies that the model's newest completed state write — the state on the
          medium, the one the next incarnation is restored from — has EVERY acknowledgement the
          model ever made in its cohort and covers each of them ([covers]: the block was rotated
          out before the snapshot, or NewPersistentBlockList lists its epoch seed, its block and a
          write cursor at or above the object's end; [record_resolves_after_restart]).
    So the monitor never imposes a durability obligation (clauses 1, 4) nor a refusal obligation
    (clauses 2, 3) that the model does not guarantee.  What is NOT covered (no model in
    Persist/*.v): the store level — which op result (entry 30) acknowledges which finalizer,
    which key a block-list Put belongs to, and the read-back (entry 32) through the
    key-location map and the data device. *)
From Coq Require Import List NArith ZArith Bool Arith Lia.
From BBS Require Import Common.Sx Persist.PBL Persist.PBLProofs Persist.Syncer Persist.SyncerProofs
  Persist.Shutdown Persist.ShutdownProofs Persist.ShutdownOrder Run.R03 Run.R03MonGhost Run.R03MonFields
  Run.R03MonReplay.
Import ListNotations.
Local Open Scope nat_scope.

(** ---- the invariant relating the monitor's bookkeeping to the ghost history ---- *)
Record Jc (pos lastput sstart sdone commit : nat) (wcover : list (Z * nat)) (final exited : bool)
          (s : sys) (gx : gsys) : Prop := mkJc {
  j_b1 : sdone <= sstart;
  j_b2 : sstart <= pos;
  j_b3 : commit <= sdone;
  j_b4 : forall z, assoc_Z z wcover <= sdone;
  j_b5 : lastput <= pos;
  (* no Put/finalizer since the latest NotifySyncStarting: its cohort is every ack *)
  j_p1 : lastput < sstart -> g_syncing (gs_g gx) = g_acks (gs_g gx);
  (* ... since the start of the latest completed sync *)
  j_p2 : lastput < sdone -> g_synced (gs_g gx) = g_acks (gs_g gx);
  (* ... since the start of the sync whose completion preceded a loop's pending snapshot *)
  j_p3 : forall z w, get_pend gx (tid_of z) = Some w -> lastput < assoc_Z z wcover ->
                     gw_cohort w = g_acks (gs_g gx);
  (* ... since the start of a commit that ran to completion *)
  j_p4 : lastput < commit -> exists w, In w (gs_writes gx) /\ gw_cohort w = g_acks (gs_g gx);
  j_f : final = true -> closedForWriting (s_pbl s) = true;
  j_e : exited = true -> s_p s = PExit
}.

Definition J (m : mst) : sys -> gsys -> Prop :=
  Jc (m_pos m) (m_lastput m) (m_sync_start m) (m_sync_done m) (m_commit m) (m_wcover m) (m_final m) (m_exited m).

Lemma G_inv1 o s gx : G o s gx -> inv1 s.
Proof. intros [[[[I1 _] _] _] _]. exact I1. Qed.

(** steps the monitor does not see (and that are not finalizers) preserve the invariant *)
Lemma Jc_step cfg pos lp ss sd cm wc fi ex s e s1 gx : inv1 s -> notfin e -> step cfg s e = Some (Ok s1) ->
  Jc pos lp ss sd cm wc fi ex s gx -> Jc pos lp ss sd cm wc fi ex s1 (gstep s e s1 gx).
Proof.
  intros I1 Hn Hs [B1 B2 B3 B4 B5 P1 P2 P3 P4 F E].
  destruct (gstep_gsh s e s1 gx) as [S1 [S2 [S3 [S4 S5]]]].
  pose proof (gstep_acks_same s e s1 gx Hn) as Ha.
  constructor; auto.
  - intros L. destruct S1 as [S1|S1]; [|exact S1]. rewrite S1, Ha. auto.
  - intros L. rewrite Ha. destruct S2 as [S2|S2]; rewrite S2; [auto|]. apply P1. lia.
  - intros z w Hp L. rewrite Ha. destruct (S3 _ _ Hp) as [Hold|Hc]; [eapply P3; eauto|].
    rewrite Hc. apply P2. specialize (B4 z). lia.
  - intros L. destruct (P4 L) as [w [Hin Hc]]. exists w. split; [apply S5; exact Hin|]. rewrite Ha. exact Hc.
  - intros C. eapply step_closed_mono; eauto.
  - intros C. eapply step_pexit; eauto.
Qed.

Lemma Jc_gpath o cfg pos lp ss sd cm wc fi ex s gx s' gx' : G o s gx -> gpath cfg (fun _ e => notfin e) s gx s' gx' ->
  Jc pos lp ss sd cm wc fi ex s gx -> Jc pos lp ss sd cm wc fi ex s' gx'.
Proof.
  intros Hg Hp. induction Hp as [|s x e s1 s' x' Hn Hs Hp IH]; [auto|]. intros Hj.
  apply IH; [eapply G_step; eauto|]. eapply Jc_step; eauto. eapply G_inv1; eauto.
Qed.

Lemma gpath_acks_same cfg s gx s' gx' : gpath cfg (fun _ e => notfin e) s gx s' gx' -> g_acks (gs_g gx') = g_acks (gs_g gx).
Proof. induction 1 as [|s x e s1 s' x' Hn Hs Hp IH]; [reflexivity|]. rewrite IH. apply gstep_acks_same. exact Hn. Qed.

Lemma gpath_closed cfg P s gx s' gx' : gpath cfg P s gx s' gx' ->
  closedForWriting (s_pbl s) = true -> closedForWriting (s_pbl s') = true.
Proof. induction 1 as [|s x e s1 s' x' _ Hs Hp IH]; [auto|]. intros C. apply IH. eapply step_closed_mono; eauto. Qed.

Lemma gpath_pexit o cfg P s gx s' gx' : G o s gx -> gpath cfg P s gx s' gx' -> s_p s = PExit -> s_p s' = PExit.
Proof.
  intros Hg Hp. induction Hp as [|s x e s1 s' x' _ Hs Hp IH]; [auto|]. intros C.
  apply IH; [eapply G_step; eauto|]. eapply step_pexit; eauto. eapply G_inv1; eauto.
Qed.

Lemma neqb z k : z <> k -> (z =? k)%Z = false.
Proof. apply Z.eqb_neq. Qed.

(** ---- one accepted entry ---- *)
Lemma entry_inv o cfg bs cfgsx objs ops m x e x' gx :
  G o (x_sys x) gx -> J m (x_sys x) gx -> replay_entry cfg bs x e = Some x' ->
  exists gx', gpath cfg (allowed e) (x_sys x) gx (x_sys x') gx' /\
              J (mon_entry cfgsx objs ops m e) (x_sys x') gx' /\ post cfg bs e x gx x' gx'.
Proof.
  intros Hg Hj H.
  destruct (replay_entry_sound cfg bs x e x' gx (proj2 Hg) H) as [gx' [Hp Hpost]].
  exists gx'. split; [exact Hp|]. split; [|exact Hpost].
  assert (Hg' : G o (x_sys x') gx') by (eapply G_gpath; eauto).
  destruct (mon_entry_fields cfgsx objs ops m e) as [F1 [F2 [F3 [F4 [F5 [F6 [F7 [F8 _]]]]]]]].
  unfold J. rewrite F1, F2, F3, F4, F5, F6, F7, F8. clear F1 F2 F3 F4 F5 F6 F7 F8.
  destruct (Z.eq_dec (tag e) 4) as [E4|N4].
  { (* a finalizer: every "no Put since" premise becomes false *)
    rewrite E4. cbn [Z.eqb Pos.eqb orb andb]. rewrite !Bool.orb_false_r.
    destruct Hj as [B1 B2 B3 B4 B5 P1 P2 P3 P4 F E].
    constructor; try lia.
    - intros z. apply B4.
    - intros z w _ L. specialize (B4 z). lia.
    - intros C. apply (gpath_closed _ _ _ _ _ _ Hp). apply F. exact C.
    - intros C. apply (gpath_pexit o _ _ _ _ _ _ Hg Hp). apply E. exact C. }
  assert (Hp' : gpath cfg (fun _ ev => notfin ev) (x_sys x) gx (x_sys x') gx').
  { eapply gpath_weaken; [|exact Hp]. intros s0 ev [[Hc|Hc] _]; [contradiction|exact Hc]. }
  pose proof (Jc_gpath _ _ _ _ _ _ _ _ _ _ _ _ _ _ Hg Hp' Hj) as Hj'.
  pose proof (gpath_acks_same _ _ _ _ _ Hp') as Hacks.
  destruct Hpost as [Q8a [Q8b [Q9 [Q6 [Q13 [_ [Q18 [_ _]]]]]]]].
  rewrite (neqb _ _ N4), Bool.orb_false_r.
  destruct (Z.eq_dec (tag e) 3) as [E|N3].
  { rewrite E. cbn [Z.eqb Pos.eqb orb andb]. rewrite !Bool.orb_false_r.
    destruct Hj' as [B1 B2 B3 B4 B5 P1 P2 P3 P4 F E'].
    constructor; try lia; auto.
    intros z w _ L. specialize (B4 z). lia. }
  rewrite (neqb _ _ N3).
  destruct (Z.eq_dec (tag e) 6) as [E|N6].
  { rewrite E. cbn [Z.eqb Pos.eqb orb andb]. rewrite !Bool.orb_false_r.
    destruct Hj' as [B1 B2 B3 B4 B5 P1 P2 P3 P4 F E'].
    destruct (Q6 E) as [w0 [Hw0 Hc0]].
    constructor; try lia; auto.
    - intros z. cbn [assoc_Z]. destruct (Z.eqb z _); [lia|apply B4].
    - intros z w Hw. cbn [assoc_Z]. destruct (Z.eqb_spec z (sx_Z (sx_nth e 1))) as [->|Hne]; [|apply P3; exact Hw].
      intros L. rewrite Hw0 in Hw. inversion Hw; subst w0. rewrite Hc0. apply P2. exact L. }
  rewrite (neqb _ _ N6).
  destruct (Z.eq_dec (tag e) 8) as [E|N8].
  { rewrite E. cbn [Z.eqb Pos.eqb orb andb]. rewrite !Bool.orb_false_r.
    destruct Hj' as [B1 B2 B3 B4 B5 P1 P2 P3 P4 F E'].
    constructor; try lia; auto.
    - intros _. destruct (sx_bool (sx_nth e 1)) eqn:B; [|apply Q8a; auto].
      destruct Hg' as [[[_ [_ [Hfi _]]] _] _]. destruct (Hfi (Q8b E eq_refl)) as [Hsy _]. exact Hsy.
    - intros C. apply Bool.orb_true_iff in C. destruct C as [C|C]; [auto|apply Q8b; auto]. }
  rewrite (neqb _ _ N8).
  destruct (Z.eq_dec (tag e) 9) as [E|N9].
  { rewrite E. cbn [Z.eqb Pos.eqb orb andb]. rewrite !Bool.orb_false_r.
    destruct Hj' as [B1 B2 B3 B4 B5 P1 P2 P3 P4 F E'].
    destruct (m_sync_ok m); [|constructor; auto].
    constructor; try lia; auto.
    - intros z. specialize (B4 z). lia.
    - intros L. rewrite (Q9 E), Hacks. apply (j_p1 _ _ _ _ _ _ _ _ _ _ Hj). exact L. }
  rewrite (neqb _ _ N9).
  destruct (Z.eq_dec (tag e) 13) as [E|N13].
  { rewrite E. cbn [Z.eqb Pos.eqb orb andb]. rewrite !Bool.orb_false_r.
    destruct Hj' as [B1 B2 B3 B4 B5 P1 P2 P3 P4 F E'].
    destruct (sx_bool (sx_nth e 2)) eqn:B; [|constructor; auto].
    destruct (Q13 E eq_refl) as [w [Hw [Hws _]]].
    constructor; try lia; auto.
    - specialize (B4 (sx_Z (sx_nth e 1))). lia.
    - intros L. destruct (Nat.lt_ge_cases (m_lastput m) (m_commit m)) as [Lc|Lc]; [auto|].
      exists w. split; [rewrite Hws; left; reflexivity|]. rewrite Hacks.
      apply (j_p3 _ _ _ _ _ _ _ _ _ _ Hj _ _ Hw). lia. }
  rewrite (neqb _ _ N13).
  destruct (Z.eq_dec (tag e) 18) as [E|N18].
  { rewrite E. cbn [Z.eqb Pos.eqb orb andb]. rewrite !Bool.orb_true_r.
    destruct Hj' as [B1 B2 B3 B4 B5 P1 P2 P3 P4 F E'].
    constructor; try lia; auto.
    intros _. destruct Hg' as [[[_ [_ [_ Hpc]]] _] _]. unfold pcinv in Hpc. rewrite (Q18 E) in Hpc. exact Hpc. }
  rewrite (neqb _ _ N18). cbn [andb]. rewrite !Bool.orb_false_r.
  destruct Hj' as [B1 B2 B3 B4 B5 P1 P2 P3 P4 F E'].
  constructor; try lia; auto.
Qed.

(** ---- the state on the medium ([x_state], what the next incarnation is restored from) is the
    state of the model's newest completed write ---- *)
Definition K (st0 : pstate) (x : xst) (gx : gsys) : Prop :=
  x_state x = match gs_writes gx with w :: _ => gw_state w | [] => st0 end.

Lemma entry_K cfg bs st0 e x gx x' gx' : K st0 x gx -> gpath cfg (allowed e) (x_sys x) gx (x_sys x') gx' ->
  post cfg bs e x gx x' gx' -> K st0 x' gx'.
Proof.
  intros Hk Hp [_ [_ [_ [_ [Q13 [Q13f [_ [Qs _]]]]]]]]. unfold K in *.
  destruct (Z.eq_dec (tag e) 13) as [E|N].
  - destruct (sx_bool (sx_nth e 2)) eqn:B.
    + destruct (Q13 E eq_refl) as [w [_ [Hw Hs]]]. rewrite Hw. exact Hs.
    + destruct (Q13f E eq_refl) as [Hs Hw]. rewrite Hs, Hw. exact Hk.
  - rewrite (Qs N).
    assert (Hw : gs_writes gx' = gs_writes gx).
    { apply (gpath_writes_same cfg (x_sys x) gx (x_sys x') gx'). eapply gpath_weaken; [|exact Hp].
      intros s0 ev [_ [[Hc|Hc] _]]; [contradiction|exact Hc]. }
    rewrite Hw. exact Hk.
Qed.

(** ---- all entries of an incarnation ---- *)
Lemma entries_inv o cfg bs cfgsx objs ops st0 : forall es n m x x1 gx,
  G o (x_sys x) gx -> J m (x_sys x) gx -> K st0 x gx -> replay_entries cfg bs n x es = (x1, []) ->
  exists gx1, gpath cfg (fun _ _ => True) (x_sys x) gx (x_sys x1) gx1 /\
              J (fold_left (mon_entry cfgsx objs ops) es m) (x_sys x1) gx1 /\ K st0 x1 gx1.
Proof.
  induction es as [|e es IH]; intros n m x x1 gx Hg Hj Hk H; cbn in H.
  - inversion H; subst. exists gx. split; [constructor|auto].
  - destruct (replay_entry cfg bs x e) as [x'|] eqn:R; [|discriminate].
    destruct (entry_inv o cfg bs cfgsx objs ops m x e x' gx Hg Hj R) as [gx' [Hp [Hj' Hpost]]].
    assert (Hg' : G o (x_sys x') gx') by (eapply G_gpath; eauto).
    pose proof (entry_K cfg bs st0 e x gx x' gx' Hk Hp Hpost) as Hk'.
    destruct (IH _ _ _ _ _ Hg' Hj' Hk' H) as [gx1 [Hp1 [Hj1 Hk1]]].
    exists gx1. split; [|auto]. eapply gpath_trans; [|exact Hp1]. eapply gpath_weaken; [|exact Hp]. auto.
Qed.

(** ---- the start of an incarnation ---- *)
Definition m_fresh (m : mst) : Prop :=
  m_pos m = 0 /\ m_lastput m = 0 /\ m_sync_start m = 0 /\ m_sync_done m = 0 /\ m_commit m = 0 /\
  m_wcover m = [] /\ m_final m = false /\ m_exited m = false.

Lemma m_init_fresh : m_fresh m_init.
Proof. unfold m_fresh, m_init. cbn. tauto. Qed.
Lemma mon_exit_fresh m : m_fresh (mon_exit m).
Proof. unfold m_fresh, mon_exit. cbn. tauto. Qed.

Lemma J_fresh m s gx : m_fresh m -> J m s gx.
Proof.
  intros [E1 [E2 [E3 [E4 [E5 [E6 [E7 E8]]]]]]]. unfold J. rewrite E1, E2, E3, E4, E5, E6, E7, E8.
  constructor; try lia; try discriminate; auto.
  intros z w _ L. cbn in L. lia.
Qed.

Lemma gps_new alloc oldest init p' view :
  get_persistent_state (fst (pbl_new alloc oldest init)) = Ok (p', view) -> p' = fst (pbl_new alloc oldest init).
Proof.
  unfold pbl_new. destruct (restore_blocks alloc init 0) as [[bl sd] ls]. cbn [fst new_nc].
  unfold get_persistent_state. cbn. destruct (gps_loop _ _ _ _); cbn; [|discriminate].
  intros H; inversion H. reflexivity.
Qed.

(** the state the replay starts an incarnation in is NewPersistentBlockList + NewPeriodicSyncer *)
Lemma replay_restore_init c cfg bs st0 now e0 x0 : replay_restore c cfg bs st0 now e0 = Some x0 ->
  tag e0 = 0%Z /\ x_state x0 = st0 /\
  exists alloc oldest init, x_sys x0 = init_sys (fst (pbl_new alloc oldest init)) now.
Proof.
  unfold replay_restore. cbv zeta. destruct (negb (Z.eqb (tag e0) 0)) eqn:T; cbn [orb]; [discriminate|].
  destruct (negb (pstate_eqb _ _)); [discriminate|].
  match goal with |- context [pbl_new ?a ?b ?c] => set (al := a); set (ol := b); set (il := c) end.
  destruct (pbl_new al ol il) as [p n] eqn:Ep.
  destruct (get_persistent_state p) as [[p' view]|] eqn:Eg; [|discriminate].
  match goal with |- (if ?c then _ else _) = _ -> _ => destruct c; [|discriminate] end.
  intros H; inversion H; subst x0. cbn [x_sys x_state]. split; [|split; [reflexivity|]].
  - apply Bool.negb_false_iff, Z.eqb_eq in T. exact T.
  - exists al, ol, il. rewrite Ep. cbn [fst].
    assert (p = fst (pbl_new al ol il)) by (rewrite Ep; reflexivity). subst p.
    rewrite (gps_new _ _ _ _ _ Eg). rewrite Ep. reflexivity.
Qed.

(** the restore entry (tag 0) touches none of the bookkeeping fields *)
Lemma J_restore_entry cfgsx objs ops m e0 s gx : tag e0 = 0%Z -> m_fresh m -> J (mon_entry cfgsx objs ops m e0) s gx.
Proof.
  intros E [E1 [E2 [E3 [E4 [E5 [E6 [E7 E8]]]]]]].
  destruct (mon_entry_fields cfgsx objs ops m e0) as [F1 [F2 [F3 [F4 [F5 [F6 [F7 [F8 _]]]]]]]].
  unfold J. rewrite F1, F2, F3, F4, F5, F6, F7, F8, E. cbn [Z.eqb orb andb].
  rewrite E1, E2, E3, E4, E5, E6, E7, E8. cbn [orb].
  constructor; try lia; try discriminate; auto.
  intros z w _ L. cbn in L. lia.
Qed.

(** ---- one incarnation ---- *)
Theorem mon03_incarnation_sound c cfg bs st0 now e0 es x0 x1 cfgsx objs ops m0 :
  replay_restore c cfg bs st0 now e0 = Some x0 ->
  replay_entries cfg bs 1 x0 es = (x1, []) ->
  m_fresh m0 ->
  let m1 := fold_left (mon_entry cfgsx objs ops) (e0 :: es) m0 in
  exists alloc oldest init gx,
    greachable cfg alloc oldest init now (x_sys x1) gx /\
    (* the state on the medium at the end of the incarnation *)
    x_state x1 = match gs_writes gx with w :: _ => gw_state w | [] => st0 end /\
    (m_final m1 = true -> closedForWriting (s_pbl (x_sys x1)) = true) /\
    (m_exited m1 = true -> s_p (x_sys x1) = PExit) /\
    (m_prev (mon_exit m1) <> 0%Z ->
       exists w rest, gs_writes gx = w :: rest /\ x_state x1 = gw_state w /\
                      gw_cohort w = g_acks (gs_g gx) /\
                      forall a, In a (g_acks (gs_g gx)) -> covers w a).
Proof.
  intros Hr He Hf m1. subst m1. cbn [fold_left].
  destruct (replay_restore_init _ _ _ _ _ _ _ Hr) as [T0 [Hst [alloc [oldest [init Hx0]]]]].
  pose proof (G_init alloc oldest init now) as Hg0. rewrite <- Hx0 in Hg0.
  pose proof (J_restore_entry cfgsx objs ops m0 e0 (x_sys x0) g0 T0 Hf) as Hj0.
  assert (Hk0 : K st0 x0 g0) by (unfold K; cbn; exact Hst).
  destruct (entries_inv oldest cfg bs cfgsx objs ops st0 es 1 _ x0 x1 g0 Hg0 Hj0 Hk0 He) as [gx [Hp [Hj Hk]]].
  assert (R : greachable cfg alloc oldest init now (x_sys x1) gx).
  { eapply greachable_gpath; [|exact Hp]. exists []. cbn. rewrite Hx0. reflexivity. }
  exists alloc, oldest, init, gx. split; [exact R|]. split; [exact Hk|].
  set (m1 := fold_left _ es _) in *.
  split; [apply (j_f _ _ _ _ _ _ _ _ _ _ Hj)|]. split; [apply (j_e _ _ _ _ _ _ _ _ _ _ Hj)|].
  assert (Hfin : (exists w rest, gs_writes gx = w :: rest /\ gw_cohort w = g_acks (gs_g gx) /\
                   forall a, In a (g_acks (gs_g gx)) -> covers w a) ->
                 exists w rest, gs_writes gx = w :: rest /\ x_state x1 = gw_state w /\
                   gw_cohort w = g_acks (gs_g gx) /\ forall a, In a (g_acks (gs_g gx)) -> covers w a).
  { intros [w [rest [Hw [Hc Ha]]]]. exists w, rest. unfold K in Hk. rewrite Hw in Hk. auto. }
  unfold mon_exit. cbn [m_prev]. destruct (m_exited m1) eqn:Ex.
  - intros _. apply Hfin.
    destruct (graceful_all _ _ _ _ _ _ _ R (j_e _ _ _ _ _ _ _ _ _ _ Hj Ex)) as [_ Hw]. exact Hw.
  - destruct (Nat.ltb_spec (m_lastput m1) (m_commit m1)) as [L|L]; [|intros Hc; exfalso; apply Hc; reflexivity].
    intros _. apply Hfin. destruct (j_p4 _ _ _ _ _ _ _ _ _ _ Hj L) as [w [Hin Hc]].
    eapply crash_commit_covers_all; eauto.
Qed.

(** clause 2/3 side: once the monitor has seen the final synchronisation begin, every finalizer
    entry the replay accepts is a refusal (class 1) or the block's own error (class 3) *)
Theorem mon03_no_ack_after_final o cfg bs m x gx e x' :
  G o (x_sys x) gx -> J m (x_sys x) gx -> m_final m = true ->
  tag e = 4%Z -> replay_entry cfg bs x e = Some x' ->
  sx_Z (sx_nth e 2) = 1%Z \/ sx_Z (sx_nth e 2) = 3%Z.
Proof.
  intros _ Hj Hf E H. eapply replay_tag4_closed; eauto. apply (j_f _ _ _ _ _ _ _ _ _ _ Hj Hf).
Qed.
