(** C19W: sub-check of C19 — the WIRING of the demultiplexing backend in
    pkg/blobstore/configuration/new_blob_access.go.  The composite is built from a
    configuration message (a map from instance name prefix to backend and
    add_instance_name_prefix) by the real NewBlobAccessFromConfiguration; every
    backend is a remote-CAS client over an in-process fake that holds a set of
    digests, may be faulty, and records the requests it receives.

    Input: (2 cfg backends ops), exactly C19's demultiplexer cases
           (cfg entry = (prefix add_prefix); backend = (present fault);
            op = (0 d) Get | (2 d) Put | (3 (d...)) FindMissing).
    Observation: one (code data calls errname) per op; code, data, calls as in
           C19; errname = () or (name): the backend name with which the error
           message is annotated ("Backend <name>: ...").

    The model IS C19's demultiplexer ([run_demux_op] of Run/R19.v over
    Routing/Demux.v): nothing is modelled anew but the backend name in the error
    annotation, which the getter of new_blob_access.go sets to the matched prefix
    of the entry ([get_backend] returns it as the partition key). *)
From BBS Require Import Common.Sx Routing.Names Routing.Trie Routing.Patcher Routing.Demux Run.R19.
Open Scope Z_scope.

(** backendName of entry [i]: matchInstanceNamePrefix.String() *)
Definition prefix_of (cfg : list centry) (i : nat) : str := fst (nth i cfg ([], [])).

(** util.StatusWrapf(err, "Backend %#v", backendName): only an error returned by
    a backend is annotated (the getter's own InvalidArgument is not); in the model
    a backend error is a non-zero code after at least one call, and the backend
    that failed is the one called last *)
Definition errname (cfg : list centry) (code : Z) (calls : list sx) : sx :=
  if (code =? 0) || is_nil calls then L []
  else L [enc_str (prefix_of cfg (call_idx (last calls (L []))))].

(** an observation of C19W without its annotation is an observation of C19 *)
Definition strip3 (ob : sx) : sx := L [sx_nth ob 0; sx_nth ob 1; sx_nth ob 2].

Definition run_op19W (cfg : list centry) (bs : list (backend ddata)) (op : sx) : sx :=
  let ob := run_demux_op cfg bs op in
  L [sx_nth ob 0; sx_nth ob 1; sx_nth ob 2; errname cfg (sx_Z (sx_nth ob 0)) (sx_list (sx_nth ob 2))].

Definition run19W (inp : sx) : sx :=
  let cfg := dec_cfg (sx_nth inp 1) in
  let bs := mk_backends 0 (sx_list (sx_nth inp 2)) in
  L (map (run_op19W cfg bs) (sx_list (sx_nth inp 3))).

(** Monitor clause 15 — errors name the matched prefix (specification level: the
    owner is [owner cfg], no trie, no calls involved):
    - an operation that succeeds, or is rejected for an unknown instance name,
      carries no backend annotation;
    - a failing Get / Put names the longest matching prefix of its digest;
    - a failing FindMissing names the longest matching prefix of one of the
      requested digests, whose backend fails with the code returned.
    (GetFromComposite is not exercised by this sub-check.) *)
Definition named (en : list sx) (s : str) : bool :=
  match en with [x] => str_eqb (dec_str x) s | _ => false end.
Definition mon15_single (cfg : list centry) (code : Z) (en : list sx) (d : digest) : list Z :=
  let o := owner cfg (fst d) in
  if (o <? 0) || (code =? 0) then (if is_nil en then [] else [15])
  else if named en (prefix_of cfg (Z.to_nat o)) then [] else [15].
Definition mon15_fm (cfg : list centry) (bsx : list sx) (code : Z) (en : list sx) (ds0 : list digest) : list Z :=
  let ds := canon ds0 in
  if existsb (fun d => owner cfg (fst d) <? 0) ds || (code =? 0)
  then (if is_nil en then [] else [15])
  else if existsb (fun d => let i := Z.to_nat (owner cfg (fst d)) in
                            (bfault bsx i =? code) && named en (prefix_of cfg i)) ds
       then [] else [15].
Definition mon15_op (cfg : list centry) (bsx : list sx) (op ob : sx) : list Z :=
  let code := sx_Z (sx_nth ob 0) in
  let en := sx_list (sx_nth ob 3) in
  match sx_Z (sx_nth op 0) with
  | 0 => mon15_single cfg code en (dec_dg (sx_nth op 1))
  | 1 => []
  | 2 => mon15_single cfg code en (dec_dg (sx_nth op 1))
  | _ => mon15_fm cfg bsx code en (dec_dgs (sx_nth op 1))
  end.

(** C19's demultiplexer clauses 6-10 on (code data calls) — a digest is only ever
    asked of the backend of its longest matching prefix, under the patched name;
    FindMissing returns exactly the requested digests, under their original
    names, that their own backend lacks; unknown names are rejected — then 15. *)
Definition mon19W (inp obs : sx) : list Z :=
  let cfg := dec_cfg (sx_nth inp 1) in
  let bsx := sx_list (sx_nth inp 2) in
  let ops := sx_list (sx_nth inp 3) in
  concat (zip_with (mon_demux_op cfg bsx) ops (sx_list obs))
  ++ concat (zip_with (mon15_op cfg bsx) ops (sx_list obs)).

(** agreement: Get / Put exactly; FindMissing up to the order of sets and of the
    per-backend calls; with a failing backend (Go map order; the remote-CAS client
    issues one RPC per instance name and stops at the first failure): the calls
    are parts of the calls of the fault-free run, exactly one of them went to a
    faulty backend, whose code is returned and whose prefix is named. *)
Definition agree_op19W (cfg : list centry) (bsx : list sx) (op ob : sx) : bool :=
  let m := run_op19W cfg (mk_backends 0 bsx) op in
  Nat.eqb (length (sx_list ob)) 4 &&
  match sx_Z (sx_nth op 0) with
  | 0 | 1 | 2 => sx_eqb m ob
  | _ =>
      if (sx_Z (sx_nth m 0) =? 0) || is_nil (sx_list (sx_nth m 2))
      then sx_eqb (norm_fm_obs m) (norm_fm_obs ob) && sx_eqb (sx_nth m 3) (sx_nth ob 3)
      else
        let full := norm_fm_obs (run_demux_op cfg (mk_backends 0 (map no_fault bsx)) op) in
        let on := norm_fm_obs ob in
        let ocalls := sx_list (sx_nth on 2) in
        let bad := filter (fun c => negb (bfault bsx (call_idx c) =? 0)) ocalls in
        forallb (fun c => existsb (fun f => Nat.eqb (call_idx f) (call_idx c) && (call_kind c =? 3)
                                            && subset (call_dgs c) (call_dgs f))
                                  (sx_list (sx_nth full 2))) ocalls
        && nodup_nat (map call_idx ocalls)
        && match bad with
           | [c] => (sx_Z (sx_nth on 0) =? bfault bsx (call_idx c))
                    && sx_eqb (sx_nth ob 3) (L [enc_str (prefix_of cfg (call_idx c))])
           | _ => false
           end
        && is_nil (sx_list (sx_nth on 1))
  end.

Definition agree19W (inp obs : sx) : bool :=
  let cfg := dec_cfg (sx_nth inp 1) in
  let bsx := sx_list (sx_nth inp 2) in
  let ops := sx_list (sx_nth inp 3) in
  Nat.eqb (length ops) (length (sx_list obs))
  && forallb (fun b => b) (zip_with (agree_op19W cfg bsx) ops (sx_list obs)).

Definition judge19W (inp obs : sx) : sx :=
  let v := mon19W inp obs in
  verdict (agree19W inp obs) (negb (is_nil v)) (run19W inp) (of_Zs v).
