(** C02: the sx-level monitor of Run/R02.v ([mon_life]) versus the crash model's theorems.

    Run/R02.v has no function "run02 inp" that GENERATES an observation from the input: its model tie
    ([tie_life]) is a trace validation of the implementation's own I/O log.  So "the monitor is
    silent on the model" cannot be stated as [mon02 inp (run02 inp) = []].  What is stated and proved
    here instead is the connection between the monitor's clauses and the model's safety theorem
    [CrashRepeatSafe.repeated_crash]:

    (1) the model's observation of the restart probe, RELATIONALLY ([model_get_obs], [model_fm_obs]):
        which answers to [Get key] / [FindMissing key] the crash model admits right after the restart
        on the medium [m] left by a history [H] of lives.  A [Get] either misses (the key-location
        map's probing is not modelled: a miss is always possible), or some record of the key resolves
        and the bytes of its location — as [hist_data H] left them — are served.  The bytes are the
        content of ONE object version iff the location is exactly the allocation of one completed
        upload of that key which owns every byte of it ([designates]); otherwise they are foreign /
        garbage bytes and ANY payload may be observed.  [probe_get_silent_on_model]: the monitor's
        [get_clauses] is silent on every model observation — the foreign disjunct is REFUTED by
        [repeated_crash], the good one is accepted because the history's uploads are uploads the
        input attempted ([labelled]).
    (2) the list form: the probe component of [mon_life]'s clause list ([probe_clauses]) is empty on
        a probe list whose i-th entry is a model observation for key i ([probe_silent_on_model]).
    (3) [mon_life] decomposed ([mon_life_nil_iff]) and the tree form
        [mon02_silent_on_model_partial]: on an observation tree every node of which (depth >= 1) is
        reached by a model history — one more life per nesting level, [model_tree] — and whose probe
        components are model observations, [mon_life] reports nothing.  PARTIAL: the [final] and
        [opres] components (reads in a RUNNING store after the restart and after further uploads)
        are assumed clean by an explicit hypothesis of [model_tree], or — the only case the crash
        model can speak about — are themselves model observations of the restart medium, which is
        what they are when the life has made no model step (see the comment at [model_tree]).

    Abstractions (say what the labelling means).  The model has keys ([N]) but no object versions and
    no bytes.  [ver j k] labels upload [k] of life [j] with the version it uploaded; "the bytes are
    exactly that upload's content" is rendered as the harness's canonical payload (1 key ver), which
    presumes that distinct versions of one key have distinct contents (harness/c02.go generates at
    most one empty version per key; [c02Content] stamps the version into byte 1).  The probe reads are
    modelled as reads of the restart medium: side effects of earlier probe reads in the running store
    (a Get may refresh an object into a new block) are not modelled; [C02.no_overwrite_after_restart]
    is the model's statement that such writes do not touch resolvable locations.  [L [A 14]]
    (UNAVAILABLE: the refresh could not allocate) is admitted as an always-possible answer for the
    same reason.  Stdlib only; no axioms. *)
From Coq Require Import List NArith ZArith Bool Arith Lia.
From BBS Require Import Common.Sx Persist.PBL Persist.Crash Persist.CrashLts Persist.CrashRepeat
                        Persist.CrashRepeatSafe Run.R02.
Import ListNotations.
Local Open Scope Z_scope.

(** ------------------------------------------------------------------ *)
(** * the three components of [mon_life]'s clause list at a node, by name *)

Definition probe_entry (opss : list sx) (kp : Z * sx) : list Z :=
  fm_clauses (sx_nth (snd kp) 0) ++ get_clauses opss (fst kp) (sx_nth (snd kp) 1).
Definition probe_clauses (opss : list sx) (obs : sx) : list Z :=
  flat_map (probe_entry opss) (zip_index 0 (sx_list (sx_nth obs 2))).
Definition final_clauses (opss : list sx) (obs : sx) : list Z :=
  flat_map (fun kg => get_clauses opss (fst kg) (snd kg)) (zip_index 0 (sx_list (sx_nth obs 4))).
Definition opres_clauses (opss : list sx) (ops obs : sx) : list Z :=
  flat_map (fun oo => match sx_Z (sx_nth (fst oo) 0) with
                      | 5 => get_clauses opss (sx_Z (sx_nth (fst oo) 1)) (snd oo)
                      | 6 => fm_clauses (snd oo)
                      | _ => []
                      end)
           (combine (sx_list ops) (sx_list (sx_nth obs 3))).
Definition here_clauses (d : nat) (opss : list sx) (ops obs : sx) : list Z :=
  match d with
  | O => []
  | _ => probe_clauses opss obs ++ final_clauses opss obs ++ opres_clauses opss ops obs
  end.

Lemma mon_life_S f d opss ing obs :
  mon_life (S f) d opss ing obs =
  if abnormal obs then [3%Z] else
    here_clauses d (sx_nth ing 0 :: opss) (sx_nth ing 0) obs ++
    flat_map (fun eo => mon_life f (S d) (sx_nth ing 0 :: opss) (sx_nth (fst eo) 6) (sx_nth (snd eo) 4))
             (combine (sx_list (sx_nth ing 1)) (sx_list (sx_nth obs 6))).
Proof. destruct d; reflexivity. Qed.

Lemma flat_map_nil_iff {A B} (f : A -> list B) (l : list A) :
  flat_map f l = [] <-> Forall (fun x => f x = []) l.
Proof.
  induction l as [|x l IH]; cbn [flat_map].
  - split; intros; [constructor|reflexivity].
  - split.
    + intros E. apply app_eq_nil in E. destruct E as [E1 E2]. constructor; [exact E1|apply IH; exact E2].
    + intros F. inversion F as [|? ? F1 F2]; subst. rewrite F1. apply IH. exact F2.
Qed.

(** [mon_life] reports nothing iff the node is not abnormal, its three components (at depth >= 1)
    are empty, and every experiment's subtree reports nothing *)
Theorem mon_life_nil_iff f d opss ing obs :
  mon_life (S f) d opss ing obs = [] <->
  abnormal obs = false /\
  (d <> O -> probe_clauses (sx_nth ing 0 :: opss) obs = [] /\
             final_clauses (sx_nth ing 0 :: opss) obs = [] /\
             opres_clauses (sx_nth ing 0 :: opss) (sx_nth ing 0) obs = []) /\
  Forall (fun eo => mon_life f (S d) (sx_nth ing 0 :: opss) (sx_nth (fst eo) 6) (sx_nth (snd eo) 4) = [])
         (combine (sx_list (sx_nth ing 1)) (sx_list (sx_nth obs 6))).
Proof.
  rewrite mon_life_S. destruct (abnormal obs).
  - split; [discriminate|]. intros (E & _). discriminate.
  - split.
    + intros E. apply app_eq_nil in E. destruct E as [E1 E2]. split; [reflexivity|]. split.
      * intros Hd. destruct d as [|d]; [contradiction|]. cbn [here_clauses] in E1.
        apply app_eq_nil in E1. destruct E1 as [E1 E3]. apply app_eq_nil in E3. destruct E3 as [E3 E4].
        repeat split; assumption.
      * apply flat_map_nil_iff. exact E2.
    + intros (_ & Hh & Hc). apply flat_map_nil_iff in Hc. rewrite Hc, app_nil_r.
      destruct d as [|d]; [reflexivity|]. cbn [here_clauses].
      destruct (Hh (Nat.neq_succ_0 d)) as (E1 & E2 & E3). rewrite E1, E2, E3. reflexivity.
Qed.

(** ------------------------------------------------------------------ *)
(** * indexed lists ([zip_index]) *)

Fixpoint indexed {T} (P : Z -> T -> Prop) (i : Z) (l : list T) : Prop :=
  match l with
  | [] => True
  | x :: t => P i x /\ indexed P (i + 1) t
  end.

Lemma flat_map_zip_index_nil {T B} (f : Z * T -> list B) (P : Z -> T -> Prop) :
  (forall i x, P i x -> f (i, x) = []) ->
  forall l i, indexed P i l -> flat_map f (zip_index i l) = [].
Proof.
  intros Hf. induction l as [|x l IH]; intros i Hl; [reflexivity|].
  cbn [zip_index flat_map]. destruct Hl as [Hx Hl]. rewrite (Hf i x Hx). apply IH. exact Hl.
Qed.

Lemma indexed_nth {T} (P : Z -> T -> Prop) : forall l i n x, indexed P i l -> nth_error l n = Some x ->
  P (i + Z.of_nat n) x.
Proof.
  induction l as [|y l IH]; intros i n x Hl Hn; [destruct n; discriminate|].
  destruct Hl as [Hy Hl]. destruct n as [|n].
  - injection Hn as <-. replace (i + Z.of_nat 0) with i by lia. exact Hy.
  - replace (i + Z.of_nat (S n)) with (i + 1 + Z.of_nat n) by lia. apply (IH _ _ _ Hl Hn).
Qed.

(** ------------------------------------------------------------------ *)
(** * attempted uploads *)

Lemma attempted_cons ops opss key v : attempted opss key v = true -> attempted (ops :: opss) key v = true.
Proof. unfold attempted. intros E. cbn [existsb]. rewrite E. apply orb_true_r. Qed.

Section Model.
  Variable g : geo.
  (** [ver j k]: the object version uploaded by upload [k] of life [j] *)
  Variable ver : nat -> nat -> Z.

  (** the geometry hypotheses of [repeated_crash] *)
  Definition geo_ok : Prop :=
    (length (g_locs g) < 65536)%nat /\ NoDup (g_locs g) /\ (0 < g_sector g)%Z.

  (** every upload of the model history is an upload the input's op lists attempted
      ([opss] = the op lists of the lives along the path, as [mon_life] accumulates them) *)
  Definition labelled (H : list life) (opss : list sx) : Prop :=
    forall j lf k up, nth_error H j = Some lf -> nth_error (cs_ups (lf_c lf)) k = Some up ->
      attempted opss (Z.of_N (up_key up)) (ver j k) = true.

  Lemma labelled_cons H ops opss : labelled H opss -> labelled H (ops :: opss).
  Proof. intros HL j lf k up Hj Hk. apply attempted_cons. exact (HL j lf k up Hj Hk). Qed.

  Lemma labelled_nil opss : labelled [] opss.
  Proof. intros j lf k up Hj. destruct j; discriminate. Qed.

  (** the location of record [r] in region [l] is exactly the allocation of the completed upload
      (life [j], index [k]) of the record's key, and that upload owns every byte of it on the data
      device as the history left it: the bytes there are that upload's content, nothing else *)
  Definition designates (H : list life) (l : loc) (r : irec) (j k : nat) : Prop :=
    exists lf up, nth_error H j = Some lf /\ nth_error (cs_ups (lf_c lf)) k = Some up /\
      up_key up = r_key r /\ up_off up = r_off r /\ up_size up = r_size r /\
      up_state up = UpFin true /\ up_issued up = up_size up /\
      forall z, (r_off r <= z < r_off r + r_size r)%Z -> towner (hist_data H) l z None = Some (j, k).

  (** the same without the key: "one completed upload, whose allocation is exactly the range, owns
      every byte".  For a non-empty range it determines the upload, and then the key follows
      ([owner_designates]); for an empty range the bytes say nothing and the key is part of
      [designates]. *)
  Definition owned_by (H : list life) (l : loc) (r : irec) (j k : nat) : Prop :=
    exists lf up, nth_error H j = Some lf /\ nth_error (cs_ups (lf_c lf)) k = Some up /\
      up_off up = r_off r /\ up_size up = r_size r /\
      up_state up = UpFin true /\ up_issued up = up_size up /\
      forall z, (r_off r <= z < r_off r + r_size r)%Z -> towner (hist_data H) l z None = Some (j, k).

  Lemma designates_owned H l r j k : designates H l r j k -> owned_by H l r j k.
  Proof.
    intros (lf & up & A1 & A2 & A3 & A4 & A5 & A6 & A7 & A8). exists lf, up. repeat split; assumption.
  Qed.

  (** what [repeated_crash] says, in these words *)
  Lemma resolved_designates H m slot r i b : geo_ok -> lives g H m ->
    resolves g m slot r i -> nth_error (blocks (fst (restart (geom g) (m_state m)))) i = Some b ->
    exists j k, designates H (b_loc b) r j k.
  Proof.
    intros (G1 & G2 & G3) HL HR Hb.
    destruct (repeated_crash g H m G1 G2 G3 HL slot r i HR)
      as (j & lf & k & up & b' & l & A1 & A2 & A3 & A4 & A5 & A6 & A7 & _ & _ & A10 & A11 & _ & A13).
    unfold pre in A10. rewrite Hb in A10. injection A10 as <-. subst l.
    exists j, k, lf, up. repeat split; assumption.
  Qed.

  (** [towner] is a function: on a non-empty range the owner is the upload [repeated_crash] names *)
  Lemma owner_designates H m slot r i b j k : geo_ok -> lives g H m ->
    resolves g m slot r i -> nth_error (blocks (fst (restart (geom g) (m_state m)))) i = Some b ->
    (0 < r_size r)%Z -> owned_by H (b_loc b) r j k -> designates H (b_loc b) r j k.
  Proof.
    intros G HL HR Hb Hs (lf & up & A1 & A2 & A3 & A4 & A5 & A6 & A7).
    destruct (resolved_designates H m slot r i b G HL HR Hb)
      as (j' & k' & lf' & up' & B1 & B2 & B3 & B4 & B5 & B6 & B7 & B8).
    assert (Hz : (r_off r <= r_off r < r_off r + r_size r)%Z) by lia.
    pose proof (A7 _ Hz) as E1. pose proof (B8 _ Hz) as E2. rewrite E1 in E2.
    injection E2 as <- <-. rewrite A1 in B1. injection B1 as <-. rewrite A2 in B2. injection B2 as <-.
    exists lf, up. repeat split; assumption.
  Qed.

  (** ---- (1) the model's observations of the restart probe ---- *)
  Inductive model_get_obs (H : list life) (m : medium irec) (key : Z) : sx -> Prop :=
  | mgo_miss : model_get_obs H m key (L [A 5])          (* NOT_FOUND: always possible *)
  | mgo_unavailable : model_get_obs H m key (L [A 14])  (* refresh could not allocate: not modelled *)
  | mgo_served slot r i b j k :
      resolves g m slot r i -> Z.of_N (r_key r) = key ->
      nth_error (blocks (fst (restart (geom g) (m_state m)))) i = Some b ->
      designates H (b_loc b) r j k ->
      model_get_obs H m key (L [A 0; L [A 1; A key; A (ver j k)]])
  | mgo_foreign slot r i b pay :                        (* anything at all may be read *)
      resolves g m slot r i -> Z.of_N (r_key r) = key ->
      nth_error (blocks (fst (restart (geom g) (m_state m)))) i = Some b ->
      (forall j k, ~ designates H (b_loc b) r j k) ->
      model_get_obs H m key (L [A 0; pay]).

  (** FindMissing of one key: missing is always possible; present only if a record of it resolves *)
  Inductive model_fm_obs (m : medium irec) (key : Z) : sx -> Prop :=
  | mfo_missing : model_fm_obs m key (L [A 0; L [A key]])
  | mfo_unavailable : model_fm_obs m key (L [A 14])
  | mfo_present slot r i :
      resolves g m slot r i -> Z.of_N (r_key r) = key -> model_fm_obs m key (L [A 0; L []]).

  Theorem probe_get_silent_on_model H m opss key o : geo_ok -> lives g H m -> labelled H opss ->
    model_get_obs H m key o -> get_clauses opss key o = [].
  Proof.
    intros G HL Lb MO. destruct MO as [| |slot r i b j k HR Hk Hb HD|slot r i b pay HR Hk Hb HN].
    - reflexivity.
    - reflexivity.
    - destruct HD as (lf & up & A1 & A2 & A3 & _).
      pose proof (Lb j lf k up A1 A2) as Hatt. rewrite A3, Hk in Hatt.
      unfold get_clauses. cbn [sx_list sx_nth nth sx_Z]. rewrite !Z.eqb_refl, Hatt. reflexivity.
    - exfalso. destruct (resolved_designates H m slot r i b G HL HR Hb) as (j & k & HD).
      exact (HN j k HD).
  Qed.

  Theorem probe_fm_silent_on_model m key o : model_fm_obs m key o -> fm_clauses o = [].
  Proof. intros MO. destruct MO; reflexivity. Qed.

  (** the foreign disjunct is empty: stated on its own (the content of [repeated_crash] at this level) *)
  Theorem model_get_obs_never_foreign H m key o : geo_ok -> lives g H m -> model_get_obs H m key o ->
    o = L [A 5] \/ o = L [A 14] \/
    exists slot r i b j k, resolves g m slot r i /\ Z.of_N (r_key r) = key /\
      nth_error (blocks (fst (restart (geom g) (m_state m)))) i = Some b /\
      designates H (b_loc b) r j k /\ o = L [A 0; L [A 1; A key; A (ver j k)]].
  Proof.
    intros G HL MO. destruct MO as [| |slot r i b j k HR Hk Hb HD|slot r i b pay HR Hk Hb HN].
    - left. reflexivity.
    - right. left. reflexivity.
    - right. right. exists slot, r, i, b, j, k.
      split; [exact HR|split; [exact Hk|split; [exact Hb|split; [exact HD|reflexivity]]]].
    - exfalso. destruct (resolved_designates H m slot r i b G HL HR Hb) as (j & k & HD).
      exact (HN j k HD).
  Qed.

  (** ---- (2) the probe list ---- *)
  (** entry for key [key] of the probe list: (fm get) *)
  Definition model_probe_obs (H : list life) (m : medium irec) (key : Z) (e : sx) : Prop :=
    model_fm_obs m key (sx_nth e 0) /\ model_get_obs H m key (sx_nth e 1).

  Theorem probe_silent_on_model H m opss probe : geo_ok -> lives g H m -> labelled H opss ->
    indexed (model_probe_obs H m) 0 probe ->
    flat_map (probe_entry opss) (zip_index 0 probe) = [].
  Proof.
    intros G HL Lb. apply flat_map_zip_index_nil. intros i e (Hf & Hg). unfold probe_entry. cbn [fst snd].
    rewrite (probe_fm_silent_on_model m i _ Hf), (probe_get_silent_on_model H m opss i _ G HL Lb Hg).
    reflexivity.
  Qed.

  (** the same for a list of [Get] answers, one per key (the shape of the [final] component) *)
  Theorem gets_silent_on_model H m opss gets : geo_ok -> lives g H m -> labelled H opss ->
    indexed (model_get_obs H m) 0 gets ->
    flat_map (fun kg => get_clauses opss (fst kg) (snd kg)) (zip_index 0 gets) = [].
  Proof.
    intros G HL Lb. apply flat_map_zip_index_nil. intros i e Hg. cbn [fst snd].
    exact (probe_get_silent_on_model H m opss i _ G HL Lb Hg).
  Qed.

  (** FindMissing of a key list: UNAVAILABLE, or the list of missing keys; a key reported present has
      a resolving record *)
  Definition model_fms_obs (m : medium irec) (keys : list Z) (o : sx) : Prop :=
    o = L [A 14] \/
    exists miss, o = L [A 0; L (map A miss)] /\
      forall k, In k keys -> ~ In k miss -> exists slot r i, resolves g m slot r i /\ Z.of_N (r_key r) = k.

  (** the answer to one operation of the op list, read as an operation on the restart medium:
      (5 key) = Get, (6 (key ...)) = FindMissing, anything else is not looked at by the monitor *)
  Definition model_opres_obs (H : list life) (m : medium irec) (oo : sx * sx) : Prop :=
    match sx_Z (sx_nth (fst oo) 0) with
    | 5 => model_get_obs H m (sx_Z (sx_nth (fst oo) 1)) (snd oo)
    | 6 => model_fms_obs m (sx_Zs (sx_nth (fst oo) 1)) (snd oo)
    | _ => True
    end.

  Theorem opres_silent_on_model H m opss ops obs : geo_ok -> lives g H m -> labelled H opss ->
    Forall (model_opres_obs H m) (combine (sx_list ops) (sx_list (sx_nth obs 3))) ->
    opres_clauses opss ops obs = [].
  Proof.
    intros G HL Lb F. unfold opres_clauses. apply flat_map_nil_iff. eapply Forall_impl; [|exact F].
    intros oo Ho. unfold model_opres_obs in Ho. destruct (sx_Z (sx_nth (fst oo) 0)) as [|p|p]; try reflexivity.
    destruct p as [p|p|]; try reflexivity; destruct p as [p|p|]; try reflexivity;
      destruct p as [p|p|]; try reflexivity.
    - (* 5 *) exact (probe_get_silent_on_model H m opss _ _ G HL Lb Ho).
    - (* 6 *) destruct Ho as [->|(miss & -> & _)]; reflexivity.
  Qed.

  (** ---- (3) observation trees reached by model histories ----
      [model_tree d H m opss ing obs]: the node (ing, obs) at depth [d] is the observation of a life that
      started on the medium [m] left by the history [H] ([d] = length H; [opss] = the op lists of the
      lives of [H], newest first).  At depth >= 1 its probe list consists of model observations for
      [H], [m].  Every experiment of the node is a crash of this life: a model life [lf] on [m] (any
      reachable state, any crash point, any loss choice) whose uploads are labelled by the node's op
      list, and the subtree is a model tree for the history [H ++ [lf]] and the medium the crash
      leaves.  (The judge's [tie_life] checks, case by case, that the implementation's media after
      each crash are what [crash_medium] computes from the implementation's own log; here the life
      is the model's.)

      The [final] and [opres] components are answers of a RUNNING store: after the restart, after
      the probe, after the life's own operations.  They are ASSUMED clean (left disjuncts).  Why the
      crash model cannot do better: the LTS [crun] has no read event and no volatile view of the
      data device — a running store reads every write ISSUED so far through its volatile index
      ([cs_tbl], [live_index]), not the post-crash selection [crash_medium]; that every record the
      volatile index accepts designates a completed upload owning its bytes in that view is the
      running-store analogue of [SafeF], a different invariant, not a consequence of the crash
      theorems.  Nor is a life without upload operations quiescent: a Get of an object in an old
      block refreshes it (allocation, data writes, a record move — in the LTS [CPutStart] / [CData] /
      [CFinalize] with a move), block rotation may release blocks, the syncer loops write state
      files; so "no store step" cannot be read off the op list.  The one case the crash model does
      describe is a life that has made NO model step at all (its state is [cinit g m t0]): then the
      store reads exactly the restart medium and its answers are [model_get_obs] answers for
      [H], [m] — the right disjuncts, covered by [gets_silent_on_model] / [opres_silent_on_model].
      Whether that is the case is a hypothesis about the node, like everything in [model_tree]. *)
  Inductive model_tree : nat -> list life -> medium irec -> list sx -> sx -> sx -> Prop :=
  | mt_node d H m opss ing obs :
      abnormal obs = false ->
      (d <> O ->
         indexed (model_probe_obs H m) 0 (sx_list (sx_nth obs 2)) /\
         (final_clauses (sx_nth ing 0 :: opss) obs = [] \/
          indexed (model_get_obs H m) 0 (sx_list (sx_nth obs 4))) /\
         (opres_clauses (sx_nth ing 0 :: opss) (sx_nth ing 0) obs = [] \/
          Forall (model_opres_obs H m) (combine (sx_list (sx_nth ing 0)) (sx_list (sx_nth obs 3))))) ->
      Forall (fun eo => exists lf,
                creach g (lf_cfg lf) m (lf_t0 lf) (lf_c lf) /\
                labelled (H ++ [lf]) (sx_nth ing 0 :: opss) /\
                model_tree (S d) (H ++ [lf]) (crash_of m (lf_c lf) (lf_n lf) (lf_ch lf))
                           (sx_nth ing 0 :: opss) (sx_nth (fst eo) 6) (sx_nth (snd eo) 4))
             (combine (sx_list (sx_nth ing 1)) (sx_list (sx_nth obs 6))) ->
      model_tree d H m opss ing obs.

  Theorem mon_life_silent_on_model_tree : geo_ok -> forall fuel d H m opss ing obs,
    lives g H m -> labelled H opss -> model_tree d H m opss ing obs ->
    mon_life fuel d opss ing obs = [].
  Proof.
    intros G. induction fuel as [|f IH]; intros d H m opss ing obs HL Lb MT; [reflexivity|].
    inversion MT as [d' H' m' opss' ing' obs' Hab Hh Hc]; subst.
    apply mon_life_nil_iff. split; [exact Hab|]. split.
    - intros Hd. destruct (Hh Hd) as (Hp & Hf & Ho).
      pose proof (labelled_cons H (sx_nth ing 0) opss Lb) as Lb1. split; [|split].
      + apply (probe_silent_on_model H m); [exact G|exact HL|exact Lb1|exact Hp].
      + destruct Hf as [Hf|Hf]; [exact Hf|]. exact (gets_silent_on_model H m _ _ G HL Lb1 Hf).
      + destruct Ho as [Ho|Ho]; [exact Ho|]. exact (opres_silent_on_model H m _ _ _ G HL Lb1 Ho).
    - eapply Forall_impl; [|exact Hc]. intros eo (lf & HR & Lb' & MT').
      apply (IH _ _ _ _ _ _ (lives_snoc g H m lf HL HR) Lb' MT').
  Qed.

  (** the root: the first life, on empty media, nothing accumulated *)
  Theorem mon02_silent_on_model_partial : geo_ok -> forall fuel ing obs,
    model_tree 0 [] medium_empty [] ing obs -> mon_life fuel 0 [] ing obs = [].
  Proof.
    intros G fuel ing obs MT.
    exact (mon_life_silent_on_model_tree G fuel 0%nat [] medium_empty [] ing obs (lives_nil g) (labelled_nil []) MT).
  Qed.
End Model.
