(** C14P (sub-check of C14): client <-> server uploads that fail at the END
    of the ByteStream.Write RPC (harness/c14p.go).  Definitions only.

    The client is handed buffers without a client-side digest check, so data
    that does not match the digest reaches the server; the backend's next
    Put can be armed to fail with a gRPC code
      fm 1: after consuming (and validating) the whole upload,
      fm 2: before reading anything,   fm 3: after reading a first chunk.
    In the first and in the mismatch case the verdict exists only as the
    final status of the Write RPC (the answer to finish_write).

    Input: (blobs mode chunk ops)
      op = (0 bi size fm code di) Put of digest (hash of blob bi, size) with the bytes of blob di
           (1 bi size) Get      (2 ((bi size) ...)) FindMissing
    Observation: (results final), result = (code payload bcode),
      bcode = what the backend's Put returned during the operation (-1: not called). *)
From BBS Require Import Common.Sx Rpc.ByteStream Rpc.Batch Rpc.ClientServer Run.R14.

Section Pair.
Variable hashf : bytes -> Z.
Variable decompress : bytes -> dres.
Variable compress : bytes -> bytes.

(** ** The reference: the armed backend used directly — a Put of a CAS buffer
    with digest [d] and data [x].  Unarmed (and armed "after consuming") it
    reads the buffer to the end, which validates it. *)
Definition backend_put (st : store) (d : dig) (x : bytes) (fm code : Z) : store * Z :=
  if fm =? 0 then
    if valid hashf d x then (st_put st d x, 0) else (st, cInvalidArgument)
  else if fm =? 1 then
    (st, if valid hashf d x then code else cInvalidArgument)
  else (st, code).

(** ** The pair.  The client sends all of [x] (no check on its side), cut
    into messages, then finish_write; the server's Write ([Rpc.ByteStream.write])
    feeds the validating buffer to the armed backend; the client's Put returns
    the FINAL STATUS of the RPC. *)
Definition pair_msgs (zstd : bool) (chunk : nat) (pieces : list nat) (x : bytes) : list wmsg :=
  if zstd then client_msgs (cut pieces (compress x)) else client_msgs (chunks_of chunk x).
Definition pair_rn (zstd : bool) (d : dig) : rname := if zstd then RZstd d else RIdentity d.

Definition pair_put (zstd : bool) (chunk : nat) (pieces : list nat)
    (st : store) (d : dig) (x : bytes) (fm code : Z) : store * Z :=
  let ms := pair_msgs zstd chunk pieces x in
  if fm =? 0 then
    let r := write hashf decompress 0 (pair_rn zstd d) ms TEof in
    (match wr_stored r with Some y => st_put st d y | None => st end, wr_code r)
  else if fm =? 1 then
    (* the backend consumes the upload as if it were to store it, then fails *)
    let r := write hashf decompress 0 (pair_rn zstd d) ms TEof in
    (st, if wr_code r =? 0 then code else wr_code r)
  else
    (* the backend releases the buffer and fails *)
    let r := write hashf decompress code (pair_rn zstd d) ms TEof in
    (match wr_stored r with Some y => st_put st d y | None => st end, wr_code r).

(** Get through the pair (C14's client model) and on the backend itself. *)
Definition pair_get (zstd : bool) (chunk : nat) (st : store) (d : dig) : bytes + Z :=
  client_get hashf decompress compress zstd chunk [] []
             (fun d' => backend_get hashf (st_get st d') d') d.
Definition direct_get (st : store) (d : dig) : bytes + Z := backend_get hashf (st_get st d) d.

End Pair.

(** ** Histories, parametrised by the Put and Get used (pair / backend) *)
Definition put_fn := store -> dig -> bytes -> Z -> Z -> store * Z.
Definition get_fn := store -> dig -> bytes + Z.

Definition missing_in (st : store) (d : dig) : bool :=
  match st_get st d with None => true | Some _ => false end.

Definition p_op (blobs : list bytes) (put : put_fn) (get : get_fn) (st : store) (op : sx) : store * sx :=
  let k := sx_Z (sx_nth op 0) in
  if k =? 0 then
    let d := dec_dig blobs (sx_nth op 1) (sx_nth op 2) in
    let '(st', c) := put st d (blob blobs (sx_Z (sx_nth op 5))) (sx_Z (sx_nth op 3)) (sx_Z (sx_nth op 4)) in
    (st', L [A c; L []; A c])
  else if k =? 1 then
    let d := dec_dig blobs (sx_nth op 1) (sx_nth op 2) in
    match get st d with
    | inl x => (st, L [A 0; of_Zs x; A (-1)])
    | inr c => (st, L [A c; L []; A (-1)])
    end
  else
    let ds := map (fun e => dec_dig blobs (sx_nth e 0) (sx_nth e 1)) (sx_list (sx_nth op 1)) in
    let '(c, ms) := find_missing (missing_in st) 0 ds in
    (st, L [A c; L (map (fun d => L (enc_ident d)) ms); A (-1)]).

Fixpoint p_ops (blobs : list bytes) (put : put_fn) (get : get_fn) (st : store) (ops : list sx) : store * list sx :=
  match ops with
  | [] => (st, [])
  | op :: ops' => let '(st', r) := p_op blobs put get st op in
                  let '(st'', rs) := p_ops blobs put get st' ops' in (st'', r :: rs)
  end.

Definition enc_final (st : store) : list sx := map (fun e => L (enc_ident (fst e) ++ [of_Zs (snd e)])) st.

Definition mode_zstd (mode : Z) : bool := (mode =? 1) || (mode =? 2).

(** the model of the PAIR (what the judge compares with) *)
Definition run14P (inp : sx) : sx :=
  let blobs := dec_blobs (sx_nth inp 0) in
  let zstd := mode_zstd (sx_Z (sx_nth inp 1)) in
  let chunk := sx_nat (sx_nth inp 2) in
  let '(st, rs) := p_ops blobs (pair_put (hash_of blobs) fdecompress fcompress zstd chunk [])
                         (pair_get (hash_of blobs) fdecompress fcompress zstd chunk) [] (sx_list (sx_nth inp 3)) in
  L [L rs; L (enc_final st)].

(** the reference: the same history on the armed backend itself *)
Definition run14P_backend (inp : sx) : sx :=
  let blobs := dec_blobs (sx_nth inp 0) in
  let '(st, rs) := p_ops blobs (backend_put (hash_of blobs)) (direct_get (hash_of blobs)) [] (sx_list (sx_nth inp 3)) in
  L [L rs; L (enc_final st)].

(** ** Agreement.  When the server can end the RPC before the client has
    sent finish_write — the backend fails BEFORE the upload was consumed
    (fm 2, 3), or the upload is LONGER than the digest says (the validating
    reader objects as soon as the surplus arrives) — the client reports the
    RPC's status or, when one of its Sends hits the ended stream first, that
    Send's error (io.EOF, code UNKNOWN).  Both are failures; everything else
    is compared exactly (FindMissing answers and the final contents as sets). *)
Definition early_end (blobs : list bytes) (op : sx) : bool :=
  (sx_Z (sx_nth op 0) =? 0)
  && ((sx_Z (sx_nth op 3) =? 2) || (sx_Z (sx_nth op 3) =? 3)
      || (sx_Z (sx_nth op 2) <? blen (blob blobs (sx_Z (sx_nth op 5))))).

Definition p_res_eqb (blobs : list bytes) (op r m : sx) : bool :=
  let k := sx_Z (sx_nth op 0) in
  if k =? 2
  then sx_eqb (sx_nth r 0) (sx_nth m 0) && sx_seteq (sx_list (sx_nth r 1)) (sx_list (sx_nth m 1))
  else if early_end blobs op
  then (sx_eqb (sx_nth r 0) (sx_nth m 0)
        || ((sx_Z (sx_nth r 0) =? cUnknown) && negb (sx_Z (sx_nth m 0) =? 0)))
       && sx_eqb (sx_nth r 1) (sx_nth m 1) && sx_eqb (sx_nth r 2) (sx_nth m 2)
  else sx_eqb r m.

Fixpoint p_res_all (blobs : list bytes) (ops rs ms : list sx) : bool :=
  match ops, rs, ms with
  | [], [], [] => true
  | op :: ops', r :: rs', m :: ms' => p_res_eqb blobs op r m && p_res_all blobs ops' rs' ms'
  | _, _, _ => false
  end.

Definition agree14P (inp m obs : sx) : bool :=
  p_res_all (dec_blobs (sx_nth inp 0)) (sx_list (sx_nth inp 3)) (sx_list (sx_nth obs 0)) (sx_list (sx_nth m 0))
  && (length (sx_list (sx_nth obs 1)) =? length (sx_list (sx_nth m 1)))%nat
  && sx_seteq (sx_list (sx_nth obs 1)) (sx_list (sx_nth m 1)).

(** ** The monitor: the property's clauses on the implementation's
    observation, the same for every compression mode.  It keeps its own
    account of what ought to be visible: the uploads that were rightly
    acknowledged.  It uses neither [write] nor [pair_put] nor [backend_put].

    1: a Put returned OK although the data does not match the digest, or the
       backend was armed to fail, or the backend did not accept it
    2: a Put of matching data on an unarmed backend failed
    3: the final contents of the backend differ from the account (a failed
       Put left something behind, or an acknowledged one is gone)
    4: the backend's Put failed and the client reports another code (where the
       RPC can end before the upload does — [early_end] — also UNKNOWN is let
       through; clause 1 stays strict)
    5: a Get or FindMissing disagrees with the account / malformed observation *)
Definition mon_p_op (blobs : list bytes) (acct : store) (op r : sx) : list Z * store :=
  let k := sx_Z (sx_nth op 0) in
  let code := sx_Z (sx_nth r 0) in
  if k =? 0 then
    let d := dec_dig blobs (sx_nth op 1) (sx_nth op 2) in
    let x := blob blobs (sx_Z (sx_nth op 5)) in
    let fm := sx_Z (sx_nth op 3) in
    let bcode := sx_Z (sx_nth r 2) in
    let v := valid (hash_of blobs) d x in
    let rightly := v && (fm =? 0) && (bcode =? 0) in
    (cl ((code =? 0) && negb rightly) 1
     ++ cl (v && (fm =? 0) && negb (code =? 0)) 2
     ++ cl ((0 <? bcode) && negb ((code =? bcode) || (early_end blobs op && (code =? cUnknown)))) 4,
     if (code =? 0) && rightly then st_put acct d x else acct)
  else if k =? 1 then
    let d := dec_dig blobs (sx_nth op 1) (sx_nth op 2) in
    let good := match st_get acct d with
                | Some x => (code =? 0) && bytes_eqb (sx_Zs (sx_nth r 1)) x
                | None => (code =? cNotFound) && bytes_eqb (sx_Zs (sx_nth r 1)) []
                end in
    (cl (negb good) 5, acct)
  else
    let ds := map (fun e => dec_dig blobs (sx_nth e 0) (sx_nth e 1)) (sx_list (sx_nth op 1)) in
    let ms := sx_list (sx_nth r 1) in
    let good := (code =? 0)
                && forallb (fun m => existsb (fun d => ident_eqb m d && missing_in acct d) ds) ms
                && forallb (fun d => negb (missing_in acct d) || existsb (fun m => ident_eqb m d) ms) ds in
    (cl (negb good) 5, acct).

Fixpoint mon_p_ops (blobs : list bytes) (acct : store) (ops rs : list sx) : list Z * store :=
  match ops, rs with
  | [], [] => ([], acct)
  | op :: ops', r :: rs' =>
      let '(v, acct') := mon_p_op blobs acct op r in
      let '(vs, a) := mon_p_ops blobs acct' ops' rs' in (v ++ vs, a)
  | _, _ => ([5], acct)
  end.

Definition mon14P (inp obs : sx) : list Z :=
  let blobs := dec_blobs (sx_nth inp 0) in
  let '(vs, acct) := mon_p_ops blobs [] (sx_list (sx_nth inp 3)) (sx_list (sx_nth obs 0)) in
  vs ++ cl (negb ((length (sx_list (sx_nth obs 1)) =? length acct)%nat
                  && sx_seteq (sx_list (sx_nth obs 1)) (enc_final acct))) 3.

Definition judge14P (inp obs : sx) : sx :=
  let m := run14P inp in
  let v := mon14P inp obs in
  verdict (agree14P inp m obs) (negb (match v with [] => true | _ => false end)) m (of_Zs v).
