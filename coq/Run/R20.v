(** C20: sx interface of the pkg/digest model (decoders, run, monitor, judge).

    Input kinds (first atom):
      (0 path)                          NewDigestFromByteStreamReadPath
      (1 path uuid16)                   NewDigestFromByteStreamWritePath
      (2 name)                          NewInstanceName (+ GetComponents, NewInstanceNameFromComponents)
      (3 inst fn hash size comp uuid16) structured digest: construct, all getters, all round trips
      (4 inst bytes)                    NewDigestFromCompactBinary
      (6 universe sets)                 set operations; universe entry = (inst fn hash size), set = indices
    Outcomes are encoded as (0 value) | (code) | (-1) for a panic; (-2) = step skipped. *)
From BBS Require Import Common.Sx Generated.Consts Digest.DigestModel Digest.SetModel.
Open Scope Z_scope.

Definition enc_bytes (b : bytes) : sx := of_Ns b.
Definition enc_out {T} (f : T -> sx) (o : outcome T) : sx :=
  match o with Ok x => L [A 0; f x] | Err c => L [A c] | Panic => L [A (-1)] end.
Definition skipped : sx := L [A (-2)].
Definition enc_list (l : list bytes) : sx := L (map enc_bytes l).
Definition enc_parse (o : outcome (bytes * N)) : sx :=
  enc_out (fun p => L [enc_bytes (fst p); of_N (snd p)]) o.

(** everything observable about one digest *)
Definition enc_dobs (v : bytes) : sx :=
  L [enc_bytes v;
     enc_out of_N (get_function_enum v);
     enc_out enc_bytes (get_hash_string v);
     enc_out A (get_size_bytes v);
     enc_out enc_bytes (get_instance_name v);
     enc_out enc_bytes (get_key v 0);
     enc_out (fun p => L [enc_bytes (fst p); A (snd p)]) (get_proto v);
     enc_out enc_bytes (get_hash_bytes v);
     enc_out enc_bytes (get_compact_binary v);
     enc_out enc_list (get_parents v)].

(** uuid.UUID.String() *)
Definition uuid_string (u : bytes) : bytes :=
  let h := hex_encode u in
  firstn 8 h ++ dash :: firstn 4 (skipn 8 h) ++ dash :: firstn 4 (skipn 12 h) ++ dash
    :: firstn 4 (skipn 16 h) ++ dash :: skipn 20 h.

Definition after_format (fmt : outcome bytes) (parse : bytes -> outcome (bytes * N)) : sx :=
  match fmt with Ok s => enc_parse (parse s) | _ => skipped end.

Definition run_parse (parse : bytes -> outcome (bytes * N)) (fmt : bytes -> N -> outcome bytes) (path : bytes) : sx :=
  match parse path with
  | Ok (v, c) => L [A 0; enc_dobs v; of_N c; enc_out enc_bytes (fmt v c); after_format (fmt v c) parse]
  | Err c => L [A c]
  | Panic => L [A (-1)]
  end.

Definition run_instance_name (name : bytes) : sx :=
  match new_instance_name name with
  | Ok v => L [A 0; enc_bytes v; enc_list (fields_by_slash v);
               enc_out enc_bytes (new_instance_name_from_components (fields_by_slash v))]
  | Err c => L [A c]
  | Panic => L [A (-1)]
  end.

Definition trailing_garbage : bytes := [200%N; 1%N].

Definition run_structured (inst : bytes) (fn : N) (hash : bytes) (size : Z) (comp : N) (uuid : bytes) : sx :=
  match new_instance_name inst with
  | Panic => L [A (-1)]
  | Err c => L [A 1; A c]
  | Ok inm =>
      match get_digest_function fn (N.of_nat (length hash)) with
      | Panic => L [A (-1)]
      | Err c => L [A 2; A c]
      | Ok f =>
          match new_digest inm f hash size with
          | Panic => L [A (-1)]
          | Err c => L [A 3; A c]
          | Ok v =>
              let rp := get_read_path v comp in
              let wp := get_write_path v (uuid_string uuid) comp in
              L [A 0; enc_dobs v;
                 enc_out enc_bytes rp; after_format rp parse_read_path;
                 enc_out enc_bytes wp; after_format wp parse_write_path;
                 match get_proto v with
                 | Ok (h, s) => enc_out enc_bytes (new_digest inm f h s)
                 | _ => skipped
                 end;
                 match get_compact_binary v with
                 | Ok b => enc_out (fun p => L [enc_bytes (fst p); of_nat (length (snd p))])
                                   (new_digest_from_compact_binary inm (b ++ trailing_garbage))
                 | _ => skipped
                 end]
          end
      end
  end.

Definition run_compact (inst inp : bytes) : sx :=
  match new_instance_name inst with
  | Panic => L [A (-1)]
  | Err c => L [A 1; A c]
  | Ok inm =>
      match new_digest_from_compact_binary inm inp with
      | Ok (v, rest) => L [A 0; enc_dobs v; of_nat (length rest)]
      | Err c => L [A c]
      | Panic => L [A (-1)]
      end
  end.

(** universe entry -> packed digest *)
Definition dec_entry (e : sx) : outcome bytes :=
  let inst := sx_Ns (sx_nth e 0) in
  let hash := sx_Ns (sx_nth e 2) in
  inm <- new_instance_name inst ;;
  f <- get_digest_function (sx_N (sx_nth e 1)) 0 ;;
  new_digest inm f hash (sx_Z (sx_nth e 3)).

Definition enc_sets (l : list (list bytes)) : sx := L (map enc_list l).

Definition run_sets (universe sets : sx) : sx :=
  match map_outcome dec_entry (sx_list universe) with
  | Ok us =>
      let pick (s : sx) : list bytes := map (fun i => nth i us []) (sx_nats s) in
      let built := map (fun s => build (pick s)) (sx_list sets) in
      let u := union built in
      let a := nth 0 built [] in
      let b := nth 1 built [] in
      let '(oa, bo, ob) := diff_inter a b in
      L [enc_list us;
         L (map (fun v => enc_out enc_bytes (get_key v 0)) us);
         enc_sets built;
         enc_list u;
         L [enc_list oa; enc_list bo; enc_list ob];
         enc_out enc_sets (partition_by_instance_name u);
         enc_out enc_list (remove_empty_blob u);
         L (map (fun s => of_option enc_bytes (first s)) built);
         match partition_by_instance_name u with
         | Ok ps => enc_list (union ps)
         | _ => skipped
         end]
  | _ => L [A (-9)]
  end.

Definition run20 (inp : sx) : sx :=
  let b i := sx_Ns (sx_nth inp i) in
  match sx_Z (sx_nth inp 0) with
  | 0 => run_parse parse_read_path get_read_path (b 1%nat)
  | 1 => run_parse parse_write_path (fun v c => get_write_path v (uuid_string (b 2%nat)) c) (b 1%nat)
  | 2 => run_instance_name (b 1%nat)
  | 3 => run_structured (b 1%nat) (sx_N (sx_nth inp 2)) (b 3%nat) (sx_Z (sx_nth inp 4)) (sx_N (sx_nth inp 5)) (b 6%nat)
  | 4 => run_compact (b 1%nat) (b 2%nat)
  | 6 => run_sets (sx_nth inp 1) (sx_nth inp 2)
  | _ => L [A (-9)]
  end.

(** ** Monitor: the property, as a check on the implementation's observation.
    It uses the specification vocabulary only (byte order, membership, the
    literal tables), not the operational functions of the model. *)

Fixpoint has_panic (s : sx) : bool :=
  match s with
  | A z => z =? -1
  | L l => (fix go (l : list sx) : bool := match l with [] => false | x :: r => has_panic x || go r end) l
  end.

Definition is_ok (s : sx) : bool := match s with L [A 0; _] => true | _ => false end.
Definition ok_val (s : sx) : sx := match s with L [A 0; x] => x | _ => L [] end.
Definition sxb (s : sx) : bytes := sx_Ns s.

Fixpoint strictly_sorted (l : list bytes) : bool :=
  match l with
  | [] => true
  | x :: r => match r with [] => true | y :: _ => bltb x y && strictly_sorted r end
  end.
Definition subset (a b : list bytes) : bool := forallb (fun x => memb x b) a.
Definition same_set (a b : list bytes) : bool := subset a b && subset b a.

(** specification of a valid instance name, written on the string *)
Definition spec_components (s : bytes) : list bytes := fields_by_slash s.
Definition inst_wf (s : bytes) : bool :=
  negb (has_prefix [slash] s) && negb (has_suffix [slash] s) && negb (contains [slash; slash] s)
  && forallb (fun c => negb (memb c c20_reserved)) (spec_components s).

Definition hash_size_of (fn : N) : option N :=
  match assoc fn c20_bare_by_enum with Some f => Some (snd f) | None => None end.
Definition is_supported (fn : N) : bool := existsb (fun p => N.eqb (fst p) fn) c20_supported.
Definition valid_comp (c : N) : bool :=
  N.eqb c c20_compressor_identity || existsb (fun p => N.eqb (fst p) c) c20_compressors.

(** a digest observation describes a non-degenerate digest *)
Definition dobs_wf (d : sx) : bool :=
  let fn := sx_N (ok_val (sx_nth d 1)) in
  let hash := sxb (ok_val (sx_nth d 2)) in
  let size := sx_Z (ok_val (sx_nth d 3)) in
  let inst := sxb (ok_val (sx_nth d 4)) in
  is_ok (sx_nth d 1) && is_ok (sx_nth d 2) && is_ok (sx_nth d 3) && is_ok (sx_nth d 4)
  && is_supported fn
  && match hash_size_of fn with Some hb => N.eqb (N.of_nat (length hash)) (2 * hb) | None => false end
  && forallb lowerhex hash && (0 <=? size) && (size <? 2 ^ 63) && inst_wf inst.

(** the getters of one digest agree with each other and with the fields *)
Definition seq_prefixes {T} (l : list T) : list (list T) := map (fun n => firstn n l) (seq 0 (S (length l))).
Definition dobs_consistent (d : sx) : bool :=
  let key1 := sxb (sx_nth d 0) in
  let fn := sx_N (ok_val (sx_nth d 1)) in
  let hash := sxb (ok_val (sx_nth d 2)) in
  let size := sx_Z (ok_val (sx_nth d 3)) in
  let inst := sxb (ok_val (sx_nth d 4)) in
  let key0 := sxb (ok_val (sx_nth d 5)) in
  let proto := ok_val (sx_nth d 6) in
  let want0 := dec fn ++ dash :: hash ++ dash :: dec (Z.to_N size) in
  beqb key0 want0 && beqb key1 (want0 ++ dash :: inst)
  && beqb (sxb (sx_nth proto 0)) hash && (sx_Z (sx_nth proto 1) =? size)
  && beqb (hex_encode (sxb (ok_val (sx_nth d 7)))) hash
  (* ancestors: exactly the chain of component prefixes *)
  && sx_eqb (ok_val (sx_nth d 9))
            (enc_list (map (fun p => want0 ++ dash :: join_slash p) (seq_prefixes (spec_components inst)))).

Definition flag (n : Z) (bad : bool) : list Z := if bad then [n] else [].

(** clauses: 1 getters disagree with the constructed fields; 2 read path round trip;
    3 write path round trip; 4 proto round trip; 5 compact binary round trip;
    6 key equality iff fields agree; 7 ancestors / getter consistency; 8 a degenerate
    digest or instance name was accepted; 9 panic; 10 Build; 11 GetUnion;
    12 GetDifferenceAndIntersection; 13 PartitionByInstanceName; 14 RemoveEmptyBlob;
    15 First; 16 a valid input was rejected; 17 an accepted resource name does not contain
    the hash and the decimal size of the digest it was parsed to *)
Definition head_is0 (obs : sx) : bool := match obs with L (A 0 :: _) => true | _ => false end.

(** [s] is a plain decimal numeral (optional sign, at least one digit, digits only) denoting [z] *)
Definition decimal_of (s : bytes) (z : Z) : bool :=
  let '(neg, ds) := match s with
                    | c :: r => if N.eqb c 43 then (false, r) else if N.eqb c dash then (true, r) else (false, s)
                    | [] => (false, []) end in
  nonempty ds && forallb is_digit ds
  && (Z.eqb (if neg then - Z.of_N (horner 0 ds) else Z.of_N (horner 0 ds)) z).
Fixpoint adjacent_fields (hash : bytes) (size : Z) (fs : list bytes) : bool :=
  match fs with
  | h :: ((s :: _) as r) => (beqb h hash && decimal_of s size) || adjacent_fields hash size r
  | _ => false
  end.

(** parse cases: obs = (0 dobs comp formatted reparsed) *)
Definition mon_parse (clause : Z) (path : bytes) (obs : sx) : list Z :=
  flag 9 (has_panic obs) ++
  (if head_is0 obs then
     let d := sx_nth obs 1 in
     flag 8 (negb (dobs_wf d)) ++ flag 7 (dobs_wf d && negb (dobs_consistent d)) ++
     (* the accepted name really contains "<hash>/<decimal size>" of the digest it was parsed to *)
     flag 17 (negb (adjacent_fields (sxb (ok_val (sx_nth d 2))) (sx_Z (ok_val (sx_nth d 3)))
                                    (fields_by_slash path))) ++
     flag clause (negb (sx_eqb (sx_nth obs 4) (L [A 0; L [sx_nth d 0; sx_nth obs 2]])))
   else []).

Definition mon_instance_name (name : bytes) (obs : sx) : list Z :=
  flag 9 (has_panic obs) ++
  (if head_is0 obs then
     flag 8 (negb (inst_wf name) || negb (beqb (sxb (sx_nth obs 1)) name)) ++
     flag 7 (negb (sx_eqb (sx_nth obs 2) (enc_list (spec_components name)))
             || negb (sx_eqb (sx_nth obs 3) (L [A 0; enc_bytes name])))
   else flag 16 (inst_wf name && negb (has_panic obs))).

Definition mon_structured (inp obs : sx) : list Z :=
  let inst := sxb (sx_nth inp 1) in
  let fn := sx_N (sx_nth inp 2) in
  let hash := sxb (sx_nth inp 3) in
  let size := sx_Z (sx_nth inp 4) in
  let comp := sx_N (sx_nth inp 5) in
  let len_ok := match hash_size_of fn with
                | Some hb => N.eqb (N.of_nat (length hash)) (2 * hb)
                | None => true end in
  flag 9 (has_panic obs) ++
  match sx_Z (sx_nth obs 0) with
  | 0 =>
      let d := sx_nth obs 1 in
      let key1 := sx_nth d 0 in
      flag 8 (negb (dobs_wf d)) ++
      flag 1 (negb (beqb (sxb (ok_val (sx_nth d 2))) hash && (sx_Z (ok_val (sx_nth d 3)) =? size)
                    && beqb (sxb (ok_val (sx_nth d 4))) inst
                    && (N.eqb fn c20_enum_unknown || N.eqb (sx_N (ok_val (sx_nth d 1))) fn))) ++
      flag 7 (dobs_wf d && negb (dobs_consistent d)) ++
      flag 2 (valid_comp comp && negb (sx_eqb (sx_nth obs 3) (L [A 0; L [key1; of_N comp]]))) ++
      flag 3 (valid_comp comp && negb (sx_eqb (sx_nth obs 5) (L [A 0; L [key1; of_N comp]]))) ++
      flag 4 (negb (sx_eqb (sx_nth obs 6) (L [A 0; key1]))) ++
      flag 5 (negb (sx_eqb (sx_nth obs 7) (L [A 0; L [key1; A 2]])))
  | 1 => flag 16 (inst_wf inst)
  | 2 => flag 16 (if N.eqb fn c20_enum_unknown
                  then match assoc (N.of_nat (length hash)) c20_bare_by_size with Some _ => true | None => false end
                  else is_supported fn)
  | 3 => flag 16 (len_ok && forallb lowerhex hash && (0 <=? size))
  | _ => []
  end.

Definition mon_compact (obs : sx) : list Z :=
  flag 9 (has_panic obs) ++
  (if head_is0 obs then
     let d := sx_nth obs 1 in
     flag 8 (negb (dobs_wf d)) ++ flag 7 (dobs_wf d && negb (dobs_consistent d))
   else []).

(** first occurrences, in order *)
Fixpoint first_occ (seen l : list bytes) : list bytes :=
  match l with
  | [] => []
  | x :: r => if memb x seen then first_occ seen r else x :: first_occ (x :: seen) r
  end.

Definition mon_sets (inp obs : sx) : list Z :=
  let entries := sx_list (sx_nth inp 1) in
  let sets := map sx_nats (sx_list (sx_nth inp 2)) in
  let us := map sxb (sx_list (sx_nth obs 0)) in
  let k0 := map (fun s => sxb (ok_val s)) (sx_list (sx_nth obs 1)) in
  let built := map (fun s => map sxb (sx_list s)) (sx_list (sx_nth obs 2)) in
  let u := map sxb (sx_list (sx_nth obs 3)) in
  let di := sx_nth obs 4 in
  let lst (s : sx) := map sxb (sx_list s) in
  let a := nth 0 built [] in
  let b := nth 1 built [] in
  let idx := seq 0 (length entries) in
  let ent i := nth i entries (L []) in
  let noinst (e : sx) := L [sx_nth e 1; sx_nth e 2; sx_nth e 3] in
  (* entry of a key, found through the implementation's own keys *)
  let entry_of (x : bytes) : sx :=
    match find (fun i => beqb (nth i us []) x) idx with Some i => ent i | None => L [] end in
  let inst_of x := sxb (sx_nth (entry_of x) 0) in
  let size_of x := sx_Z (sx_nth (entry_of x) 3) in
  let insts := first_occ [] (map inst_of u) in
  flag 9 (has_panic obs) ++
  flag 6 (negb (forallb (fun i => forallb (fun j =>
            Bool.eqb (beqb (nth i us []) (nth j us [])) (sx_eqb (ent i) (ent j))
            && Bool.eqb (beqb (nth i k0 []) (nth j k0 [])) (sx_eqb (noinst (ent i)) (noinst (ent j)))) idx) idx)
          || negb (Nat.eqb (length us) (length entries)) || negb (Nat.eqb (length k0) (length entries))) ++
  flag 10 (negb (Nat.eqb (length built) (length sets))
           || negb (forallb (fun p => strictly_sorted (snd p)
                                      && same_set (snd p) (map (fun i => nth i us []) (fst p)))
                            (combine sets built))) ++
  flag 11 (negb (strictly_sorted u && same_set u (concat built))
           || negb (sx_eqb (sx_nth obs 8) (sx_nth obs 3))) ++
  flag 12 (negb (strictly_sorted (lst (sx_nth di 0)) && strictly_sorted (lst (sx_nth di 1))
                 && strictly_sorted (lst (sx_nth di 2))
                 && same_set (lst (sx_nth di 0)) (filter (fun x => negb (memb x b)) a)
                 && same_set (lst (sx_nth di 1)) (filter (fun x => memb x b) a)
                 && same_set (lst (sx_nth di 2)) (filter (fun x => negb (memb x a)) b))) ++
  flag 13 (negb (sx_eqb (sx_nth obs 5)
                   (L [A 0; enc_sets (map (fun i => filter (fun x => beqb (inst_of x) i) u) insts)]))) ++
  flag 14 (negb (sx_eqb (sx_nth obs 6)
                   (L [A 0; enc_list (filter (fun x => negb (size_of x =? 0)) u)]))) ++
  flag 15 (negb (sx_eqb (sx_nth obs 7)
                   (L (map (fun s => of_option enc_bytes (match s with [] => None | x :: _ => Some x end)) built)))).

Definition mon20 (inp obs : sx) : list Z :=
  match sx_Z (sx_nth inp 0) with
  | 0 => mon_parse 2 (sxb (sx_nth inp 1)) obs
  | 1 => mon_parse 3 (sxb (sx_nth inp 1)) obs
  | 2 => mon_instance_name (sxb (sx_nth inp 1)) obs
  | 3 => mon_structured inp obs
  | 4 => mon_compact obs
  | 6 => mon_sets inp obs
  | _ => []
  end.

Definition judge20 (inp obs : sx) : sx := judge_det run20 mon20 inp obs.
