(** C15P — the monitor is silent on the model, for every valid input. *)
From Coq Require Import List ZArith Bool Lia.
From BBS Require Import Common.Sx Run.R15P.
Import ListNotations.
Open Scope Z_scope.

Definition valid15P (inp : sx) : Prop :=
  1 <= sx_Z (sx_nth inp 0) /\ 1 <= sx_Z (sx_nth inp 1) /\
  Forall (fun m => 0 <= sx_Z (sx_nth m 1)) (sx_list (sx_nth inp 2)).

Ltac leb_true := match goal with |- context [?a <=? ?b] => replace (a <=? b) with true by (symmetry; apply Z.leb_le; lia) end.

Lemma expect_ok n chunk m :
  1 <= n -> 1 <= chunk -> 0 <= sx_Z (sx_nth m 1) ->
  mon_consumers n [m] [expect n chunk m] = [].
Proof.
  intros Hn Hc Hk. unfold mon_consumers, expect, reads_all, ok_code.
  set (z := sx_Z (sx_nth m 0)). set (k := sx_Z (sx_nth m 1)) in *.
  destruct (z =? 0) eqn:E0; [|destruct (z =? 1) eqn:E1; [|destruct (z =? 2) eqn:E2; [|destruct (z =? 3) eqn:E3]]];
    cbn [orb].
  - apply Z.eqb_eq in E0. rewrite E0. cbn. rewrite Z.eqb_refl. leb_true. reflexivity.
  - apply Z.eqb_eq in E1. rewrite E1. cbn. rewrite Z.eqb_refl. leb_true. reflexivity.
  - cbn. rewrite Z.eqb_refl. leb_true. reflexivity.
  - destruct (nchunks n chunk <? k) eqn:E; cbn; rewrite ?Z.eqb_refl; cbn; leb_true; reflexivity.
  - cbn. leb_true. reflexivity.
Qed.

Lemma mon_consumers_cons n m o ms os :
  mon_consumers n (m :: ms) (o :: os) = mon_consumers n [m] [o] ++ mon_consumers n ms os.
Proof. cbn [mon_consumers]. rewrite !app_nil_r, <- !app_assoc. reflexivity. Qed.

Lemma consumers_silent n chunk ms :
  1 <= n -> 1 <= chunk -> Forall (fun m => 0 <= sx_Z (sx_nth m 1)) ms ->
  mon_consumers n ms (map (expect n chunk) ms) = [].
Proof.
  intros Hn Hc H. induction H as [|m ms Hm _ IH]; [reflexivity|].
  cbn [map]. rewrite mon_consumers_cons, (expect_ok n chunk m Hn Hc Hm), IH. reflexivity.
Qed.

Theorem mon15P_silent_on_model inp : valid15P inp -> mon15P inp (run15P inp) = [].
Proof.
  intros (Hn & Hc & Hk). unfold mon15P, run15P. cbn [is_marker].
  cbn [sx_nth sx_list nth sx_Z Z.eqb Pos.eqb].
  rewrite (consumers_silent _ _ _ Hn Hc Hk). reflexivity.
Qed.
