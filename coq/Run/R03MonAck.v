(** C03, monitor versus model — part 5: clauses 2 and 3 (an upload acknowledged / failed with
    something other than UNAVAILABLE after the final synchronisation began) never fire on a history
    that the model accepts, PROVIDED the results of the upload ops are consistent with the
    finalizer entries of the same op.

    The model of C03 (Persist/PBL.v + Syncer.v) stops at the BlockList interface: it says what
    every finalizer returns, not what the store's Put returns to its caller.  That link is made
    explicit as the decidable check [u_all] on the history:
      (u1) inside the segment of an upload op (from its entry 19 to its result, entry 30) there is
           no NotifySyncStarting(true) and no return of ProcessBlockPut (the harness drives the
           syncer's I/O completions by ops of their own);
      (u2) an upload that wrote into the block list and is acknowledged (code 0) had a finalizer
           that returned class 0 (OK) in its segment;
      (u3) a well-formed upload that wrote into the block list had a finalizer of class 0 / 1 / 2 in
           its segment and its code is the one the store derives from it (OK / UNAVAILABLE /
           INTERNAL).
    Theorem [mon03_clauses23_silent]: on every accepted incarnation history satisfying [u_all],
    clauses 2 and 3 are not added.  The model-side content is [refused_not_lost] (through
    [mon03_no_ack_after_final]): once the monitor has seen the final synchronisation begin the
    model's list is closed, so every accepted finalizer entry has class 1 or 3. *)
From Coq Require Import List NArith ZArith Bool Arith Lia.
From BBS Require Import Common.Sx Persist.PBL Persist.PBLProofs Persist.Syncer Persist.SyncerProofs
  Persist.Shutdown Persist.ShutdownProofs Persist.ShutdownOrder Run.R03 Run.R03MonGhost Run.R03MonFields
  Run.R03MonReplay Run.R03Mon.
Import ListNotations.
Local Open Scope nat_scope.

(** ---- where the monitor adds violations ---- *)
Lemma mon_entry_viol_other cfg objs ops m x : tag x <> 30%Z -> tag x <> 32%Z ->
  m_viol (mon_entry cfg objs ops m x) = m_viol m.
Proof.
  unfold mon_entry. generalize (tag x) as z. intro z. ztag z; intros N30 N32; cbv beta iota zeta;
    try (exfalso; congruence); brk; prj; reflexivity.
Qed.

Definition up_wrote (m : mst) : bool :=
  match assoc_nat (sx_nat (sx_nth (m_op m) 1)) (m_upl m) with Some (_, Some _) => true | _ => false end.

Lemma mon_entry_viol_30 cfg objs ops m x z : tag x = 30%Z ->
  In z (m_viol (mon_entry cfg objs ops m x)) ->
  In z (m_viol m) \/ z = 5%Z \/
  (tag (sx_nth x 2) = 0%Z /\ is_upload_op (m_op m) = true /\
   ((z = 2%Z /\ (Z.eqb (sx_Z (sx_nth (sx_nth x 2) 1)) 0 && m_final m && up_wrote m)%bool = true) \/
    (z = 3%Z /\ (m_final m && sx_bool (sx_nth (sx_nth x 2) 2) && up_wrote m
                 && negb (Z.eqb (sx_Z (sx_nth (sx_nth x 2) 1)) 0)
                 && negb (Z.eqb (sx_Z (sx_nth (sx_nth x 2) 1)) 14))%bool = true))).
Proof.
  intros E. unfold mon_entry. rewrite E. cbv beta iota zeta. unfold up_wrote.
  destruct (tag (sx_nth x 2)) as [|[q|[q|q|]|]|]; prj; try (intros H; left; exact H).
  - (* an upload result *)
    destruct (is_upload_op (m_op m)); prj; [|intros H; left; exact H].
    rewrite !in_app_iff. intros [H|[H|H]]; [left; exact H| |].
    + destruct (_ && _ && _)%bool eqn:C; [|destruct H]. destruct H as [<-|[]].
      right. right. split; [reflexivity|]. split; [reflexivity|]. left. split; [reflexivity|first [exact C|reflexivity]].
    + match type of H with In _ (if ?c then _ else _) => destruct c eqn:C; [|destruct H] end.
      destruct H as [<-|[]].
      right. right. split; [reflexivity|]. split; [reflexivity|]. right. split; [reflexivity|first [exact C|reflexivity]].
  - (* a Get result *)
    rewrite in_app_iff. intros [H|H]; [left; exact H|].
    match type of H with In _ (if ?c then _ else _) => destruct c; [|destruct H] end.
    destruct H as [<-|[]]. right. left. reflexivity.
Qed.

Lemma mon_entry_viol_32 cfg objs ops m x z : tag x = 32%Z ->
  In z (m_viol (mon_entry cfg objs ops m x)) -> In z (m_viol m) \/ z = 5%Z \/ z = 1%Z \/ z = 4%Z.
Proof.
  intros E. unfold mon_entry. rewrite E. cbv beta iota zeta. prj.
  rewrite !in_app_iff. intros [H|[H|H]]; [left; exact H| |].
  - match type of H with In _ (if ?c then _ else _) => destruct c; [|destruct H] end.
    destruct H as [<-|[]]. auto.
  - match type of H with In _ (if ?c then _ else _) => destruct c; [|destruct H] end.
    destruct H as [<-|[]]. destruct (Z.eqb (m_prev m) 1); auto.
Qed.

(** the monitor's record of the current op and of the uploads' Puts is not needed below beyond
    [up_wrote]; the final flag evolves as in [mon_entry_fields] *)

(** ---- the store-level consistency check ---- *)
Record ust := mkU { u_cls : list Z; u_fin : bool }.

Definition u_step (u : ust) (x : sx) : ust :=
  if (tag x =? 19)%Z then mkU [] false
  else if (tag x =? 4)%Z then mkU (sx_Z (sx_nth x 2) :: u_cls u) (u_fin u)
  else if ((tag x =? 8)%Z && sx_bool (sx_nth x 1)) || (tag x =? 18)%Z then mkU (u_cls u) true
  else u.

Definition code_of_class (c : Z) : Z := if (c =? 0)%Z then 0%Z else if (c =? 1)%Z then 14%Z else 13%Z.

Definition u_check (m : mst) (u : ust) (x : sx) : bool :=
  if (tag x =? 30)%Z && (tag (sx_nth x 2) =? 0)%Z && is_upload_op (m_op m) then
    let code := sx_Z (sx_nth (sx_nth x 2) 1) in
    let wf := sx_bool (sx_nth (sx_nth x 2) 2) in
    negb (u_fin u) &&
    (if (code =? 0)%Z && up_wrote m then existsb (Z.eqb 0) (u_cls u) else true) &&
    (if wf && up_wrote m
     then existsb (fun c => ((c =? 0) || (c =? 1) || (c =? 2))%Z && (code =? code_of_class c)%Z) (u_cls u)
     else true)
  else true.

Fixpoint u_all (cfgsx objs : sx) (ops : list sx) (m : mst) (u : ust) (es : list sx) : bool :=
  match es with
  | [] => true
  | x :: r => u_check m u x && u_all cfgsx objs ops (mon_entry cfgsx objs ops m x) (u_step u x) r
  end.

(** while the monitor's final flag is set and no final-setting entry lies in the current op's
    segment, every finalizer of the segment was refused *)
Definition Uinv (m : mst) (u : ust) : Prop :=
  m_final m = true -> u_fin u = false -> Forall (fun c => c = 1%Z \/ c = 3%Z) (u_cls u).

Lemma Uinv_step o cfg bs cfgsx objs ops m u x e x' gx :
  G o (x_sys x) gx -> J m (x_sys x) gx -> replay_entry cfg bs x e = Some x' ->
  Uinv m u -> Uinv (mon_entry cfgsx objs ops m e) (u_step u e).
Proof.
  intros Hg Hj H U.
  destruct (mon_entry_fields cfgsx objs ops m e) as [_ [_ [_ [_ [_ [_ [F7 _]]]]]]].
  unfold Uinv, u_step. rewrite F7.
  destruct (Z.eqb_spec (tag e) 19) as [E19|N19]; [intros _ _; constructor|].
  destruct (Z.eqb_spec (tag e) 4) as [E4|N4].
  - rewrite E4. cbn [Z.eqb Pos.eqb andb orb u_cls u_fin]. rewrite !Bool.orb_false_r. intros Hf Hu.
    constructor; [|apply U; assumption].
    eapply mon03_no_ack_after_final; eauto.
  - destruct (((tag e =? 8)%Z && sx_bool (sx_nth e 1)) || (tag e =? 18)%Z)%bool eqn:C.
    + cbn [u_fin]. intros _ Hc. discriminate.
    + apply Bool.orb_false_iff in C. destruct C as [C1 C2]. rewrite C1, C2, !Bool.orb_false_r. exact U.
Qed.

Definition no23 (z : Z) : Prop := z <> 2%Z /\ z <> 3%Z.

Lemma existsb_Forall_contra (cls : list Z) (f : Z -> bool) :
  Forall (fun c => c = 1%Z \/ c = 3%Z) cls -> existsb f cls = true -> f 1%Z = true \/ f 3%Z = true.
Proof.
  intros F E. apply existsb_exists in E. destruct E as [c [Hin Hc]].
  rewrite Forall_forall in F. destruct (F c Hin) as [->| ->]; auto.
Qed.

(** one entry: under the check, neither 2 nor 3 is added *)
Lemma entry_no23 cfgsx objs ops m u e z : Uinv m u -> u_check m u e = true ->
  In z (m_viol (mon_entry cfgsx objs ops m e)) -> In z (m_viol m) \/ no23 z.
Proof.
  intros U C Hin.
  destruct (Z.eq_dec (tag e) 30) as [E30|N30].
  - destruct (mon_entry_viol_30 _ _ _ _ _ _ E30 Hin) as [H|[->|[T0 [Hup H]]]]; [left; exact H|right; split; discriminate|].
    unfold u_check in C. rewrite E30, T0, Hup in C. cbn [Z.eqb Pos.eqb andb] in C.
    apply andb_prop in C. destruct C as [C C3]. apply andb_prop in C. destruct C as [C1 C2].
    apply Bool.negb_true_iff in C1.
    destruct H as [[-> H]|[-> H]]; exfalso.
    + (* clause 2 *)
      apply andb_prop in H. destruct H as [H Hw]. apply andb_prop in H. destruct H as [Hc Hf].
      rewrite Hc, Hw in C2. cbn [andb] in C2.
      destruct (existsb_Forall_contra _ _ (U Hf C1) C2) as [X|X]; discriminate X.
    + (* clause 3 *)
      repeat (apply andb_prop in H; let H' := fresh "K" in destruct H as [H H']).
      rewrite K2, K1 in C3. cbn [andb] in C3.
      destruct (existsb_Forall_contra _ _ (U H C1) C3) as [X|X]; cbn in X.
      * unfold code_of_class in X. cbn in X. rewrite X in K. discriminate.
      * discriminate.
  - destruct (Z.eq_dec (tag e) 32) as [E32|N32].
    + destruct (mon_entry_viol_32 _ _ _ _ _ _ E32 Hin) as [H|[->|[->| ->]]]; [left; exact H| | |]; right; split; discriminate.
    + rewrite (mon_entry_viol_other _ _ _ _ _ N30 N32) in Hin. left. exact Hin.
Qed.

(** all entries of an incarnation *)
Lemma entries_no23 o cfg bs cfgsx objs ops : forall es n m u x x1 gx,
  G o (x_sys x) gx -> J m (x_sys x) gx -> Uinv m u ->
  replay_entries cfg bs n x es = (x1, []) -> u_all cfgsx objs ops m u es = true ->
  forall z, In z (m_viol (fold_left (mon_entry cfgsx objs ops) es m)) -> In z (m_viol m) \/ no23 z.
Proof.
  induction es as [|e es IH]; intros n m u x x1 gx Hg Hj U H C z Hin; cbn in *.
  - left. exact Hin.
  - destruct (replay_entry cfg bs x e) as [x'|] eqn:R; [|discriminate].
    apply andb_prop in C. destruct C as [C1 C2].
    destruct (entry_inv o cfg bs cfgsx objs ops m x e x' gx Hg Hj R) as [gx' [Hp [Hj' _]]].
    assert (Hg' : G o (x_sys x') gx') by (eapply G_gpath; eauto).
    pose proof (Uinv_step o cfg bs cfgsx objs ops m u x e x' gx Hg Hj R U) as U'.
    destruct (IH _ _ _ _ _ _ Hg' Hj' U' H C2 z Hin) as [Hz|Hz]; [|right; exact Hz].
    eapply entry_no23; eauto.
Qed.

Lemma Uinv_fresh m u : m_fresh m -> Uinv m u.
Proof. intros [_ [_ [_ [_ [_ [_ [Hf _]]]]]]] C. congruence. Qed.

Lemma u_step_restore u e0 : tag e0 = 0%Z -> u_step u e0 = u.
Proof. intros E. unfold u_step. rewrite E. reflexivity. Qed.

Lemma Uinv_restore cfgsx objs ops m u e0 : tag e0 = 0%Z -> m_fresh m -> Uinv (mon_entry cfgsx objs ops m e0) u.
Proof.
  intros E [_ [_ [_ [_ [_ [_ [Hf _]]]]]]] C.
  destruct (mon_entry_fields cfgsx objs ops m e0) as [_ [_ [_ [_ [_ [_ [F7 _]]]]]]].
  rewrite F7, Hf, E in C. discriminate C.
Qed.

(** ---- one incarnation: clauses 2 and 3 stay silent ---- *)
Theorem mon03_clauses23_silent c cfg bs st0 now e0 es x0 x1 cfgsx objs ops m0 u0 :
  replay_restore c cfg bs st0 now e0 = Some x0 ->
  replay_entries cfg bs 1 x0 es = (x1, []) ->
  m_fresh m0 ->
  u_all cfgsx objs ops m0 u0 (e0 :: es) = true ->
  forall z, In z (m_viol (fold_left (mon_entry cfgsx objs ops) (e0 :: es) m0)) -> In z (m_viol m0) \/ no23 z.
Proof.
  intros Hr He Hf C z Hin. cbn [fold_left u_all] in *.
  destruct (replay_restore_init _ _ _ _ _ _ _ Hr) as [T0 [_ [alloc [oldest [init Hx0]]]]].
  pose proof (G_init alloc oldest init now) as Hg0. rewrite <- Hx0 in Hg0.
  pose proof (J_restore_entry cfgsx objs ops m0 e0 (x_sys x0) g0 T0 Hf) as Hj0.
  apply andb_prop in C. destruct C as [_ C]. rewrite (u_step_restore _ _ T0) in C.
  destruct (entries_no23 oldest cfg bs cfgsx objs ops es 1 _ u0 x0 x1 g0 Hg0 Hj0
              (Uinv_restore cfgsx objs ops m0 u0 e0 T0 Hf) He C z Hin) as [H|H]; [|right; exact H].
  rewrite (mon_entry_viol_other _ _ _ _ _) in H by (rewrite T0; discriminate). left. exact H.
Qed.
