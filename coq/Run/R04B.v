(** C04B: sub-check of C04 — "every buffer handed to or obtained inside a storage
    operation is consumed or released exactly once on every path", for the
    stream-backed CAS buffers (cas_reader_buffer.go, cas_chunk_reader_buffer.go: the
    buffers the local store hands out for block-device reads; closing their source
    is what drops a block's use count).  Cases, execution and model are C09's
    (harness/c09.go, Run/R09.v): every constructor x method x script, including
    rejected parameters, size limits smaller than the object, invalid content and
    I/O errors.  The monitor looks at one thing only: the source saw exactly one
    Close(), whatever the method and the outcome. *)
From Coq Require Import List ZArith Bool.
From BBS Require Import Common.Sx Run.R09.
Import ListNotations.
Open Scope Z_scope.

Definition run04B (inp : sx) : sx := run09 inp.

Definition stream_backed (inp : sx) : bool :=
  let k := sx_Z (sx_nth inp 0) in (k =? 1) || (k =? 2).

Definition mon04B (inp obs : sx) : list Z :=
  (* 1: the source of a reader- or chunk-reader-backed buffer is closed exactly once *)
  if stream_backed inp && negb (sx_Z (sx_nth obs 4) =? 1) then [1] else [].

Definition judge04B : sx -> sx -> sx := judge_det run04B mon04B.
