(** C17: the monitors of Run/R17.v and Run/R17Conc.v are silent on the model.

    [mon17 inp obs] is the property as a decidable check on what the
    implementation was observed to do; [agree17 inp obs] is the judge's own
    "agrees with the model" bit ([judge17]).

    Sequential kinds (0 composites, 1 existence cache, 3 LRU set): the model is
    deterministic, the judge accepts exactly [run17 inp], and every clause is
    silent on it - for EVERY input, without any well-formedness hypothesis
    (decoders clamp, and the monitors only use decoded values and values the
    model encoded itself).

    Concurrent kind (2, replicator decorators): the judge accepts a SET of
    observations (all schedules of the lock-protected sections between two
    quiescent points).  For every accepted observation the clauses 21/22/23
    (more concurrent copies than allowed) are silent.  The clauses 24/25
    (unjustified success) read the harness's event log, obs[4], which the
    judge's agreement test never looks at and of which the model has no
    counterpart; "agreement => silent" is FALSE for them (witness
    [conc_success_clauses_not_determined_by_agreement]). *)
From Coq Require Import List ZArith NArith Bool Arith Lia.
From BBS Require Import Common.Sx Common.ListX
  Compose.Caching Compose.CachingProofs Compose.MonSilentCaching
  Compose.ExistenceCache Compose.ExistenceCacheProofs Compose.MonSilentEC
  Compose.Replicators Compose.ReplicatorsProofs Compose.MonSilentRepl
  Run.MonSilentSx Run.R17Conc Run.R17.
Import ListNotations.
Open Scope Z_scope.

(** * The statement's vocabulary *)
Definition mon17 (inp obs : sx) : list Z :=
  match sx_Z (sx_nth inp 0) with
  | 0 => mon_seq inp obs
  | 1 => mon_ec inp obs
  | 2 => mon_conc inp obs
  | 3 => mon_lru inp obs
  | _ => []
  end.

(** The model's output for the deterministic kinds.  Kind 2 has no single
    model output (the judge follows a set of states); [L []] is a placeholder
    and the theorem about kind 2 is [conc_counts_silent_on_agreeing] below. *)
Definition run17 (inp : sx) : sx :=
  match sx_Z (sx_nth inp 0) with
  | 0 => run_seq inp
  | 1 => run_ec inp
  | 3 => run_lru inp
  | _ => L []
  end.

(** The judge's own agreement bit. *)
Definition agree17 (inp obs : sx) : bool := sx_bool (sx_nth (judge17 inp obs) 0).

Lemma agree_verdict a v m d : sx_bool (sx_nth (verdict a v m d) 0) = a.
Proof. destruct a; reflexivity. Qed.

Lemma sx_Ns_of_Ns l : sx_Ns (of_Ns l) = l.
Proof.
  unfold sx_Ns, of_Ns. cbn [sx_list]. rewrite map_map.
  induction l as [|x t IH]; [reflexivity|]. cbn [map]. rewrite IH. f_equal.
  unfold sx_N, of_N. cbn [sx_Z]. apply N2Z.id.
Qed.

Lemma list_eqb_refl l : list_eqb l l = true.
Proof. apply sx_eqb_refl. Qed.

(** * Kind 0: read caching / read fallback *)

Lemma unfaulted_rev l : unfaulted (rev l) = unfaulted l.
Proof.
  unfold unfaulted. induction l as [|c l IH]; [reflexivity|].
  cbn [rev forallb]. rewrite forallb_app, IH. cbn [forallb]. rewrite andb_true_r. apply andb_comm.
Qed.

Lemma obs_faulted_enc x0 x1 l x3 x4 x5 :
  obs_faulted (L [x0; x1; L (map enc_call l); x3; x4; x5]) = negb (unfaulted l).
Proof.
  unfold obs_faulted. rewrite sx_nth_L. cbn [nth sx_list]. unfold unfaulted.
  induction l as [|c l IH]; [reflexivity|]. cbn [map existsb forallb]. rewrite IH, negb_andb. reflexivity.
Qed.

Lemma hard_rev l : hard (rev l) = hard l.
Proof.
  unfold hard. induction l as [|c l IH]; [reflexivity|].
  cbn [rev existsb]. rewrite existsb_app, IH. cbn [existsb]. rewrite orb_false_r. apply orb_comm.
Qed.

Lemma obs_hard_enc x0 x1 l x3 x4 x5 :
  obs_hard (L [x0; x1; L (map enc_call l); x3; x4; x5]) = hard l.
Proof.
  unfold obs_hard. rewrite sx_nth_L. cbn [nth sx_list]. unfold hard.
  induction l as [|c l IH]; [reflexivity|]. cbn [map existsb]. rewrite IH. reflexivity.
Qed.

Lemma sensible_cases r : sensible r = true -> copying r = true \/ r = RNoop.
Proof.
  unfold sensible. intros H. apply orb_prop in H. destruct H as [H|H]; [left; exact H|].
  destruct r; try discriminate. right. reflexivity.
Qed.

Lemma seq_step_silent k r o fs a b :
  let '(res, s1) := exec_op k r o (mkst a b fs []) in
  forall px, mon_seq_step k r o a b (enc_obs (mkobs res (rev (lg s1)) (sa s1) (sb s1) px)) = [].
Proof.
  destruct (exec_op k r o (mkst a b fs [])) as [res s1] eqn:E. intros px.
  unfold mon_seq_step, enc_obs. cbv zeta. cbn [o_res o_calls o_a o_b o_pfx].
  rewrite obs_faulted_enc, unfaulted_rev, obs_hard_enc, hard_rev. rewrite !sx_nth_L.
  cbn [nth sx_Z sx_list]. rewrite !sx_nats_of_nats.
  destruct o as [d|d|ds|d]; cbn [exec_op] in E.
  - (* Get *)
    destruct (cget r d (mkst a b fs [])) as [c s1'] eqn:G. inversion E; subst res s1'; clear E. cbn [fst snd].
    assert (C1 : (c =? 0) && negb (memb d a || memb d b) = false).
    { destruct (c =? 0) eqn:Ec; [|reflexivity]. apply Z.eqb_eq in Ec. subst c.
      destruct (cget_sound _ _ _ _ G) as [H|H]; cbn [sa sb] in H; rewrite H; cbn; [reflexivity|].
      rewrite orb_true_r. reflexivity. }
    assert (C2 : sensible r && negb (negb (unfaulted (lg s1)))
                 && (if memb d a || memb d b then negb (c =? 0) else negb (c =? 5)) = false).
    { destruct (sensible r) eqn:S; [|reflexivity]. rewrite negb_involutive.
      destruct (unfaulted (lg s1)) eqn:U; [|reflexivity]. cbn [andb].
      pose proof (cget_complete_unfaulted r d _ c s1 (sensible_cases r S) G U) as Hc. cbn [sa sb] in Hc.
      rewrite Hc. destruct (memb d a || memb d b); reflexivity. }
    assert (C5 : (c =? 0) && copying r && negb (memb d (sa s1)) = false).
    { destruct (c =? 0) eqn:Ec; [|reflexivity]. apply Z.eqb_eq in Ec. subst c.
      destruct (copying r) eqn:Hc; [|reflexivity]. rewrite (cget_populates r d _ s1 Hc G). reflexivity. }
    assert (C15 : (c =? 0) && hard (lg s1) = false).
    { destruct (c =? 0) eqn:Ec; [|reflexivity]. apply Z.eqb_eq in Ec. cbn [andb].
      destruct (hard (lg s1)) eqn:Hh; [|reflexivity]. exfalso.
      destruct (cget_hard_fault_surfaces _ _ _ _ _ G) as (l & Hl & Hs). cbn [lg] in Hl. rewrite app_nil_r in Hl.
      subst l. apply (Hs Hh Ec). }
    rewrite C1, C2, C5, C15. reflexivity.
  - (* Put *)
    destruct (cput k d (mkst a b fs [])) as [c s1'] eqn:P. inversion E; subst res s1'; clear E. cbn [fst snd].
    destruct (cput_only_target _ _ _ _ _ P) as ((f & Hl) & Ho & Hc). cbn [lg] in Hl. rewrite Hl. cbn [rev app map forallb].
    assert (C3 : negb ((sx_Z (sx_nth (enc_call (mkcall (put_target k) CPut [d] f)) 0) =? match put_target k with BA => 0 | BB => 1 end)
                       && (sx_Z (sx_nth (enc_call (mkcall (put_target k) CPut [d] f)) 1) =? 1) && true)
                 || negb (match put_target k with BA => list_eqb b (sb s1) | BB => list_eqb a (sa s1) end) = false).
    { destruct k; cbn [put_target] in *.
      - pose proof (Ho BA ltac:(discriminate)) as X. cbn [contents sa] in X. rewrite X, list_eqb_refl. reflexivity.
      - pose proof (Ho BB ltac:(discriminate)) as X. cbn [contents sb] in X. rewrite X, list_eqb_refl. reflexivity. }
    assert (C4 : (c =? 0) && negb (memb d (match put_target k with BA => sa s1 | BB => sb s1 end)) = false).
    { destruct (c =? 0) eqn:Ec; [|reflexivity]. apply Z.eqb_eq in Ec. specialize (Hc Ec).
      destruct k; cbn [put_target contents] in *; rewrite Hc; reflexivity. }
    rewrite C3, C4. reflexivity.
  - (* FindMissing *)
    destruct k; [reflexivity|].
    destruct (cfm ReadFallback r (dedup_sort ds) (mkst a b fs [])) as [[c m] s1'] eqn:F.
    inversion E; subst res s1'; clear E. cbn [fst snd].
    assert (C6 : (c =? 0) && negb (list_eqb m (filter (fun d => negb (memb d a) && negb (memb d b)) (dedup_sort ds))) = false).
    { destruct (c =? 0) eqn:Ec; [|reflexivity]. apply Z.eqb_eq in Ec. subst c.
      rewrite (cfm_fallback_exact _ _ _ _ _ F). cbn [sa sb]. rewrite list_eqb_refl. reflexivity. }
    assert (C7 : negb (negb (unfaulted (lg s1))) && negb (c =? 0) = false).
    { rewrite negb_involutive. destruct (unfaulted (lg s1)) eqn:U; [|reflexivity].
      rewrite (cfm_fallback_answers_unfaulted _ _ _ _ _ _ F U). reflexivity. }
    rewrite C6, C7. reflexivity.
  - (* GetFromComposite *)
    destruct (cgfc r d (mkst a b fs [])) as [c s1'] eqn:G. inversion E; subst res s1'; clear E. cbn [fst snd].
    assert (C8 : (c =? 0) && negb (memb d a || memb d b) = false).
    { destruct (c =? 0) eqn:Ec; [|reflexivity]. apply Z.eqb_eq in Ec. subst c.
      destruct (cgfc_sound _ _ _ _ G) as [H|H]; cbn [sa sb] in H; rewrite H; cbn; [reflexivity|].
      rewrite orb_true_r. reflexivity. }
    assert (C9 : sensible r && negb (negb (unfaulted (lg s1)))
                 && (if memb d a || memb d b then negb (c =? 0) else negb (c =? 5)) = false).
    { destruct (sensible r) eqn:S; [|reflexivity]. rewrite negb_involutive.
      destruct (unfaulted (lg s1)) eqn:U; [|reflexivity]. cbn [andb].
      pose proof (cgfc_complete_unfaulted r d _ c s1 (sensible_cases r S) G U) as Hc. cbn [sa sb] in Hc.
      rewrite Hc. destruct (memb d a || memb d b); reflexivity. }
    assert (C10 : (c =? 0) && copying r && negb (memb d (sa s1)) = false).
    { destruct (c =? 0) eqn:Ec; [|reflexivity]. apply Z.eqb_eq in Ec. subst c.
      destruct (copying r) eqn:Hc; [|reflexivity].
      rewrite (cgfc_populates r d _ s1 (copying_not_noop r Hc) G). reflexivity. }
    assert (C15 : (c =? 0) && hard (lg s1) = false).
    { destruct (c =? 0) eqn:Ec; [|reflexivity]. apply Z.eqb_eq in Ec. cbn [andb].
      destruct (hard (lg s1)) eqn:Hh; [|reflexivity]. exfalso.
      destruct (cgfc_hard_fault_surfaces _ _ _ _ _ G) as (l & Hl & Hs). cbn [lg] in Hl. rewrite app_nil_r in Hl.
      subst l. apply (Hs Hh Ec). }
    rewrite C8, C9, C10, C15. reflexivity.
Qed.

Lemma seq_go_silent k r h : forall a b,
  mon_seq_go k r h a b (map enc_obs (run_hist k r h (a, b))) = [].
Proof.
  induction h as [|of h IH]; intros a b; [reflexivity|].
  cbn [run_hist]. unfold run_step. cbn [fst snd]. cbv zeta.
  pose proof (seq_step_silent k r (fst of) (snd of) a b) as S.
  destruct (exec_op k r (fst of) (mkst a b (snd of) [])) as [res s1].
  cbn [map mon_seq_go]. rewrite S. cbn [app].
  unfold enc_obs at 1 2. rewrite !sx_nth_L. cbn [nth o_a o_b]. rewrite !sx_nats_of_nats. apply IH.
Qed.

Theorem mon_seq_silent_on_model inp : mon_seq inp (run_seq inp) = [].
Proof.
  unfold mon_seq, run_seq. destruct (seq_cfg inp) as [[[[k r] a] b] h].
  destruct (is_panic _); [reflexivity|]. cbn [sx_list]. apply seq_go_silent.
Qed.

(** * Kind 3: the LRU set *)
Fixpoint desc (m : list (nat * nat)) : Prop :=
  match m with
  | [] => True
  | p :: r => Forall (fun q => (snd q < snd p)%nat) r /\ desc r
  end.

Lemma desc_app_l m1 m2 : desc (m1 ++ m2) -> desc m1.
Proof.
  induction m1 as [|p m1 IH]; cbn [app desc]; [auto|]. intros [F D]. split; [|apply IH, D].
  apply Forall_app in F. apply F.
Qed.

Lemma desc_filter f m : desc m -> desc (filter f m).
Proof.
  induction m as [|p m IH]; cbn [filter desc]; [auto|]. intros [F D]. specialize (IH D).
  destruct (f p); [|exact IH]. cbn [desc]. split; [|exact IH].
  rewrite Forall_forall in *. intros q Hq. apply filter_In in Hq. apply F, Hq.
Qed.

Lemma argmin_snoc m0 p : desc (m0 ++ [p]) -> argmin (m0 ++ [p]) = Some p.
Proof.
  induction m0 as [|[v i] m0 IH]; cbn [app desc argmin].
  - destruct p. reflexivity.
  - intros [F D]. rewrite (IH D). destruct p as [v' i'].
    rewrite Forall_forall in F. specialize (F (v', i') ltac:(apply in_or_app; right; left; reflexivity)). cbn [snd] in F.
    apply Nat.ltb_lt in F. rewrite F. reflexivity.
Qed.

Lemma filter_all {T} (f : T -> bool) l : (forall x, In x l -> f x = true) -> filter f l = l.
Proof.
  induction l as [|x l IH]; intros H; [reflexivity|]. cbn [filter]. rewrite (H x (or_introl eq_refl)).
  f_equal. apply IH. intros y Hy. apply H. right. exact Hy.
Qed.

Lemma map_fst_drop_key v m : map fst (drop_key v m) = remove_nat v (map fst m).
Proof.
  unfold drop_key. induction m as [|[a i] m IH]; [reflexivity|]. cbn [filter map fst remove_nat].
  rewrite (Nat.eqb_sym a v). destruct (Nat.eqb v a); cbn [negb map fst]; rewrite IH; reflexivity.
Qed.

Lemma remove_nat_app d l1 l2 : remove_nat d (l1 ++ l2) = remove_nat d l1 ++ remove_nat d l2.
Proof.
  induction l1 as [|h t IH]; [reflexivity|]. cbn [app remove_nat]. destruct (Nat.eqb d h); rewrite IH; reflexivity.
Qed.

Lemma remove_nat_rev d l : remove_nat d (rev l) = rev (remove_nat d l).
Proof.
  induction l as [|h t IH]; [reflexivity|]. cbn [rev remove_nat]. rewrite remove_nat_app, IH. cbn [remove_nat].
  destruct (Nat.eqb d h); cbn [rev]; [apply app_nil_r|reflexivity].
Qed.

(** The queue's front is the monitor's least-index element. *)
Lemma front_decomp s x q m : lru_ok s -> lq s = x :: q -> map fst m = rev (lq s) -> desc m ->
  exists m0 j, m = m0 ++ [(x, j)] /\ map fst m0 = rev q /\ argmin m = Some (x, j) /\ drop_key x m = m0.
Proof.
  intros [Hn _] E Hm D. rewrite E in Hm, Hn. cbn [rev] in Hm.
  apply map_eq_app in Hm. destruct Hm as (m0 & m1 & -> & H0 & H1).
  destruct m1 as [|[x' j] [|? ?]]; try discriminate. cbn in H1. inversion H1; subst x'.
  exists m0, j. split; [reflexivity|]. split; [exact H0|]. split; [apply argmin_snoc, D|].
  unfold drop_key. rewrite filter_app. cbn [filter fst]. rewrite Nat.eqb_refl. cbn [negb]. rewrite app_nil_r.
  apply filter_all. intros [a i] Ha. cbn [fst]. apply negb_true_iff, Nat.eqb_neq. intros ->.
  inversion Hn as [|? ? Hx _]; subst. apply Hx. apply in_rev. rewrite <- H0. apply (in_map fst _ _ Ha).
Qed.

Lemma lru_go_silent ops : forall s i m, lru_ok s -> map fst m = rev (lq s) -> desc m ->
  Forall (fun p => (snd p < i)%nat) m -> lpanic (snd (lru_run ops s)) = false ->
  mon_lru_go ops i m (map enc_peek (fst (lru_run ops s))) = [].
Proof.
  induction ops as [|o r IH]; intros s i m Hok Hm D B Hp; [reflexivity|].
  assert (Bs : forall m' : list (nat * nat), Forall (fun p => (snd p < i)%nat) m' -> Forall (fun p => (snd p < S i)%nat) m').
  { intros m'. apply Forall_impl. intros p. lia. }
  assert (Hnew : forall v s', lru_ok s' -> rev (lq s') = v :: rev (remove_nat v (lq s)) ->
            lpanic (snd (lru_run r s')) = false ->
            mon_lru_go r (S i) ((v, i) :: drop_key v m) (map enc_peek (fst (lru_run r s'))) = []).
  { intros v s' Hok' Hq' Hp'. apply IH; [exact Hok'| | | |exact Hp'].
    - cbn [map fst]. rewrite map_fst_drop_key, Hm, remove_nat_rev. symmetry. exact Hq'.
    - cbn [desc snd]. split; [|apply desc_filter, D].
      rewrite Forall_forall in *. intros p Hp0. apply filter_In in Hp0. apply B, Hp0.
    - constructor; [cbn; lia|]. apply Bs. rewrite Forall_forall in *. intros p Hp0. apply filter_In in Hp0. apply B, Hp0. }
  destruct o as [v|v| |]; cbn [lru_run mon_lru_go] in *.
  - (* Insert *)
    destruct (memn v (lq s)) eqn:M.
    + exfalso. rewrite lru_run_panic in Hp; [discriminate|]. unfold lru_insert. rewrite M. reflexivity.
    + assert (Hni : ~ In v (lq s)) by (intros X; apply memn_in in X; rewrite X in M; discriminate).
      destruct (lru_insert_spec v s Hok Hni) as [Hok' Hq']. apply Hnew; [exact Hok'| |exact Hp].
      rewrite Hq', rev_unit, (remove_nat_notin v (lq s) Hni). reflexivity.
  - (* Touch *)
    destruct (memn v (lq s)) eqn:M.
    + assert (Hi : In v (lq s)) by (apply memn_in; exact M).
      destruct (lru_touch_spec v s Hok Hi) as [Hok' Hq']. apply Hnew; [exact Hok'| |exact Hp].
      rewrite Hq', rev_unit. reflexivity.
    + exfalso. rewrite lru_run_panic in Hp; [discriminate|]. unfold lru_touch. rewrite M. reflexivity.
  - (* Peek *)
    destruct (lru_run r s) as [a s'] eqn:R. cbn [fst snd map] in *.
    assert (Hrest : mon_lru_go r (S i) m (map enc_peek a) = []).
    { specialize (IH s (S i) m Hok Hm D (Bs m B)). rewrite R in IH. apply IH. exact Hp. }
    rewrite Hrest, app_nil_r.
    destruct (lq s) as [|x q] eqn:E.
    + cbn [rev] in Hm. apply map_eq_nil in Hm. subst m. reflexivity.
    + rewrite <- E in Hm. destruct (front_decomp s x q m Hok E Hm D) as (m0 & j & _ & _ & Ha & _).
      rewrite Ha. unfold lru_peek. rewrite E. cbn [enc_peek of_nat sx_Z]. rewrite Z.eqb_refl. reflexivity.
  - (* Remove *)
    destruct (lq s) as [|x q] eqn:E.
    + exfalso. rewrite lru_run_panic in Hp; [discriminate|]. unfold lru_remove. rewrite E. reflexivity.
    + destruct (lru_remove_spec s x q Hok E) as (_ & Hok' & Hq').
      rewrite <- E in Hm. destruct (front_decomp s x q m Hok E Hm D) as (m0 & j & Hm0 & Hk & Ha & Hd).
      rewrite Ha, Hd. apply IH; [exact Hok'|rewrite Hq'; exact Hk| | |exact Hp].
      * subst m. apply desc_app_l in D. exact D.
      * apply Bs. subst m. apply Forall_app in B. apply B.
Qed.

Theorem mon_lru_silent_on_model inp : mon_lru inp (run_lru inp) = [].
Proof.
  unfold mon_lru, run_lru.
  pose proof (lru_go_silent (map dec_lop (sx_list (sx_nth inp 1))) lru_empty 0 []) as G.
  destruct (lru_run (map dec_lop (sx_list (sx_nth inp 1))) lru_empty) as [a s] eqn:R. cbn [fst snd] in G.
  destruct (lpanic s) eqn:P; [reflexivity|].
  destruct (is_panic _); [reflexivity|]. rewrite sx_nth_L. cbn [nth sx_list].
  apply G; [split; [constructor|reflexivity]|reflexivity|exact I|constructor|reflexivity].
Qed.

(** * Kind 1: the existence cache *)
Lemma justified_true dur recs t d : justified_by dur recs t d -> justified dur recs t d = true.
Proof.
  intros (t0 & Hin & H1 & H2). unfold justified. apply existsb_exists. exists (d, t0). split; [exact Hin|].
  cbn [fst snd]. rewrite Nat.eqb_refl. cbn [andb]. apply andb_true_intro. split; apply N.leb_le; assumption.
Qed.

Lemma filter_present bk mm :
  filter (fun d => negb (memn d (filter (fun d => negb (memn d bk)) mm))) mm = filter (fun d => memn d bk) mm.
Proof.
  apply filter_ext_in. intros d Hd. destruct (memn d bk) eqn:M.
  - apply negb_true_iff. destruct (memn d (filter _ mm)) eqn:X; [|reflexivity].
    apply memn_in, filter_In in X. destruct X as [_ X]. rewrite M in X. discriminate.
  - apply negb_false_iff. apply memn_in, filter_In. split; [exact Hd|]. rewrite M. reflexivity.
Qed.

Lemma cached_forallb dur recs t ds mm :
  (forall d, In d ds -> ~ In d mm -> justified_by dur recs t d) ->
  forallb (justified dur recs t) (filter (fun d => negb (memn d mm)) ds) = true.
Proof.
  intros H. apply forallb_forall. intros d Hd. apply filter_In in Hd. destruct Hd as [Hd Hm].
  apply justified_true, H; [exact Hd|]. intros X. apply memn_in in X. rewrite X in Hm. discriminate.
Qed.

Lemma ltb_false_of_le a b : (b <= a)%nat -> Nat.ltb a b = false.
Proof. intros H. apply Nat.ltb_ge. exact H. Qed.

Lemma ec_step_silent size dur o s recs :
  step_sound dur o (fst (estep size dur o s)) recs -> (length (times (cache s)) <= size)%nat ->
  mon_ec_step size dur o recs (backend s) (enc_eobs (fst (estep size dur o s))) = ([], step_recs dur o s ++ recs).
Proof.
  intros Hs Hb. destruct o as [ds d1 d2 fault|ds d1|ds d1|d|d|d fault]; cbn [estep step_recs step_sound mon_ec_step] in *.
  - destruct (ec_remove_existing dur (now s + d1) (dedup_sort ds) (cache s)) as [mm c1] eqn:R. cbn [fst].
    pose proof (cached_bound _ _ _ _ _ _ R (dedup_sort_nodup ds)) as CB.
    destruct (negb (fault =? 0)) eqn:Ef; cbn [fst] in *; unfold enc_eobs; rewrite !sx_nth_L;
      cbn [nth sx_Z e_code e_ans e_call e_clock of_option]; rewrite !sx_nth_L; cbn [nth];
      rewrite !sx_nats_of_nats, sx_Ns_of_Ns; cbn [nth hd e_call e_clock] in *.
    + rewrite (cached_forallb dur recs _ _ mm (fun d Hd Hn => Hs d mm Hd eq_refl Hn)).
      apply negb_true_iff in Ef. rewrite Ef. cbn [andb app].
      rewrite (ltb_false_of_le _ _ (Nat.le_trans _ _ _ CB Hb)). reflexivity.
    + rewrite (cached_forallb dur recs _ _ mm (fun d Hd Hn => Hs d mm Hd eq_refl Hn)).
      change (0 =? 0) with true. cbn [andb app]. rewrite list_eqb_refl. cbn [negb].
      rewrite (ltb_false_of_le _ _ (Nat.le_trans _ _ _ CB Hb)). rewrite filter_present. reflexivity.
  - destruct (ec_remove_existing dur (now s + d1) (dedup_sort ds) (cache s)) as [mm c1] eqn:R. cbn [fst] in *.
    pose proof (cached_bound _ _ _ _ _ _ R (dedup_sort_nodup ds)) as CB.
    unfold enc_eobs; rewrite !sx_nth_L; cbn [nth sx_Z e_code e_ans e_call e_clock of_option];
      rewrite !sx_nats_of_nats, sx_Ns_of_Ns; cbn [nth hd e_ans e_clock] in *.
    rewrite (cached_forallb dur recs _ _ mm Hs). cbn [app].
    rewrite (ltb_false_of_le _ _ (Nat.le_trans _ _ _ CB Hb)). reflexivity.
  - cbn [fst]. unfold enc_eobs. rewrite !sx_nth_L. cbn [nth e_clock]. rewrite sx_Ns_of_Ns. reflexivity.
  - reflexivity.
  - reflexivity.
  - cbn [fst]. unfold enc_eobs. rewrite !sx_nth_L. cbn [nth sx_Z e_code e_call of_option]. rewrite !sx_nth_L. cbn [nth].
    rewrite sx_nats_of_nats, list_eqb_refl. cbn [andb app].
    destruct (fault =? 0) eqn:Ef; cbn [negb].
    + rewrite Z.eqb_refl. reflexivity.
    + rewrite Ef. reflexivity.
Qed.

Lemma backend_estep size dur o s :
  backend (snd (estep size dur o s)) =
  match o with
  | EBackendPut d => insert_sorted d (backend s)
  | EBackendDel d => remove_nat d (backend s)
  | _ => backend s
  end.
Proof.
  destruct o as [ds d1 d2 fault|ds d1|ds d1|d|d|d fault]; cbn [estep]; try reflexivity.
  - destruct (ec_remove_existing _ _ _ _). destruct (negb _); reflexivity.
  - destruct (ec_remove_existing _ _ _ _). reflexivity.
Qed.

Lemma ec_go_silent size dur ops : forall s recs,
  sound_hist size dur ops s recs -> small_hist size dur ops s ->
  mon_ec_go size dur ops recs (backend s) (map enc_eobs (fst (erun size dur ops s))) = [].
Proof.
  induction ops as [|o r IH]; intros s recs Hs Hb; [reflexivity|].
  cbn [sound_hist small_hist] in Hs, Hb. destruct Hs as [Hs1 Hs2]. destruct Hb as [Hb1 Hb2].
  pose proof (ec_step_silent size dur o s recs Hs1 Hb1) as St.
  pose proof (backend_estep size dur o s) as Bk.
  cbn [erun]. destruct (estep size dur o s) as [ob s1]. cbn [fst snd] in *.
  specialize (IH s1 _ Hs2 Hb2). destruct (erun size dur r s1) as [obs s2]. cbn [fst map mon_ec_go] in *.
  rewrite St. cbn [app]. rewrite <- Bk. exact IH.
Qed.

Theorem mon_ec_silent_on_model inp : mon_ec inp (run_ec inp) = [].
Proof.
  unfold mon_ec, run_ec. destruct (ec_cfg inp) as [[size dur] ops].
  pose proof (ec_go_silent size dur ops (mkest ec_empty 0%N []) [] (ec_sound size dur ops)) as G.
  pose proof (small_hist_from_empty size dur ops) as Sm.
  destruct (erun size dur ops (mkest ec_empty 0%N [])) as [obs s]. cbn [fst snd] in *.
  destruct (lpanic (elru (cache s))); [reflexivity|].
  destruct (is_panic _); [reflexivity|]. cbn [sx_list]. apply G, Sm. reflexivity.
Qed.

(** * The sequential kinds together *)
Lemma flat_map_nil {T U} (f : T -> list U) l : (forall x, f x = []) -> flat_map f l = [].
Proof. intros H. induction l as [|x l IH]; [reflexivity|]. cbn [flat_map]. rewrite H, IH. reflexivity. Qed.

Lemma mon_conc_placeholder inp : mon_conc inp (L []) = [].
Proof.
  unfold mon_conc. change (sx_eqb (L []) (L [A (-1)])) with false. cbn iota.
  destruct (conc_cfg inp) as [[[[m sets] source] sink] evs].
  change (sx_nat (sx_nth (L []) 1)) with 0%nat. change (sx_nat (sx_nth (L []) 2)) with 0%nat.
  change (sx_list (sx_nth (L []) 4)) with (@nil sx).
  rewrite flat_map_nil; [|intros i; reflexivity].
  destruct m as [|k|? ?]; reflexivity.
Qed.

Theorem mon17_silent_on_model inp : mon17 inp (run17 inp) = [].
Proof.
  unfold mon17, run17. destruct (sx_Z (sx_nth inp 0)) as [|p|p]; [apply mon_seq_silent_on_model| |reflexivity].
  destruct p as [p|p|]; [destruct p; try reflexivity; apply mon_lru_silent_on_model
                        |destruct p; try reflexivity; apply mon_conc_placeholder
                        |apply mon_ec_silent_on_model].
Qed.

(** The same for every observation the judge accepts as agreeing with the
    model.  For the deterministic kinds that is exactly [run17 inp].  The
    hypothesis "kind <> 2" is necessary: see
    [conc_success_clauses_not_determined_by_agreement]. *)
Theorem mon17_silent_on_agreeing_sequential inp obs :
  sx_Z (sx_nth inp 0) <> 2 -> agree17 inp obs = true -> mon17 inp obs = [].
Proof.
  intros Hk. pose proof (mon17_silent_on_model inp) as M. revert M.
  unfold agree17, judge17, mon17, run17, judge_det.
  destruct (sx_Z (sx_nth inp 0)) as [|p|p]; [| |reflexivity].
  - rewrite agree_verdict. intros M H. apply sx_eqb_eq in H. subst obs. exact M.
  - destruct p as [p|p|].
    + destruct p; try reflexivity. rewrite agree_verdict. intros M H. apply sx_eqb_eq in H. subst obs. exact M.
    + destruct p; try reflexivity. contradiction Hk. reflexivity.
    + rewrite agree_verdict. intros M H. apply sx_eqb_eq in H. subst obs. exact M.
Qed.

Theorem model_output_agrees inp :
  sx_Z (sx_nth inp 0) = 0 \/ sx_Z (sx_nth inp 0) = 1 \/ sx_Z (sx_nth inp 0) = 3 ->
  agree17 inp (run17 inp) = true.
Proof.
  unfold agree17, judge17, run17, judge_det.
  intros [H|[H|H]]; rewrite H; rewrite agree_verdict; apply sx_eqb_refl.
Qed.

(** * Non-vacuity (sequential kinds): inputs whose model runs exercise the clauses. *)
Example seq_example :
  let inp := L [A 0; A 1; L [A 2; A 0]; L [A 0]; L [A 1; A 2];
                L [L [A 0; A 1; L []]; L [A 0; A 2; L [A 0; A 0; A 14]]; L [A 1; A 3; L []];
                   L [A 2; L [A 0; A 3; A 4; A 2]; L []]; L [A 0; A 4; L []]]] in
  map (fun o => sx_Z (sx_nth o 0)) (sx_list (run17 inp)) = [0; 14; 0; 0; 5]
  /\ sx_nth (sx_nth (run17 inp) 3) 1 = L [A 4]
  /\ agree17 inp (run17 inp) = true /\ mon17 inp (run17 inp) = [].
Proof. vm_compute. repeat split; reflexivity. Qed.

(** Composite reads (GetFromComposite, op 3).  Read caching over the
    deduplicating local replicator, fast {0}, slow {1, 2}: parent 0 from fast;
    parent 1 read through (sink FindMissing, source Get, sink Put of the WHOLE
    parent, child read back from the sink), then from fast; parent 2 with a
    failing sink Put; with a failing fast backend; absent parent 4.  Read
    fallback over the local replicator, primary {}, secondary {1}: the
    primary's failure carries "Primary" (1), the secondary's "Secondary" (2),
    so does the INTERNAL made of the sink's NOT_FOUND after the copy. *)
Example seq_gfc_example :
  (let inp := L [A 0; A 0; L [A 2; A 0]; L [A 0]; L [A 1; A 2];
                 L [L [A 3; A 0; L []]; L [A 3; A 1; L []]; L [A 3; A 1; L []]; L [A 3; A 2; L [A 0; A 0; A 0; A 14]];
                    L [A 3; A 2; L [A 13]]; L [A 3; A 4; L []]]] in
   map (fun o => sx_Z (sx_nth o 0)) (sx_list (run17 inp)) = [0; 0; 0; 14; 13; 5]
   /\ map (fun o => length (sx_list (sx_nth o 2))) (sx_list (run17 inp)) = [1; 5; 1; 4; 1; 4]%nat
   /\ sx_nth (sx_nth (run17 inp) 1) 3 = L [A 0; A 1]
   /\ agree17 inp (run17 inp) = true /\ mon17 inp (run17 inp) = [])
  /\ (let inp := L [A 0; A 1; A 0; L []; L [A 1];
                 L [L [A 3; A 1; L [A 14]]; L [A 3; A 1; L [A 0; A 14]]; L [A 3; A 1; L [A 0; A 0; A 0; A 5]];
                    L [A 0; A 1; L [A 5; A 2]]; L [A 3; A 1; L []]]] in
      map (fun o => (sx_Z (sx_nth o 0), sx_Z (sx_nth o 5))) (sx_list (run17 inp)) = [(14, 1); (14, 2); (13, 2); (2, 2); (0, 0)]
      /\ agree17 inp (run17 inp) = true /\ mon17 inp (run17 inp) = [])
  /\ (* existence cache, size 1, duration 5: object 0 recorded present, lost by the backend; a
        FindMissing is still answered from the cache, a composite read is the backend's NOT_FOUND *)
     (let inp := L [A 1; A 1; A 5;
                L [L [A 3; A 0]; L [A 0; L [A 0]; A 0; A 0; A 0]; L [A 4; A 0]; L [A 0; L [A 0]; A 1; A 0; A 0];
                   L [A 5; A 0; A 0]; L [A 3; A 0]; L [A 5; A 0; A 0]; L [A 5; A 0; A 14]]] in
      map (fun o => (sx_Z (sx_nth o 0), sx_nth o 2)) (sx_list (run17 inp)) =
        [(0, L []); (0, L [L [A 0]]); (0, L []); (0, L [L []]); (5, L [L [A 0]]); (0, L []); (0, L [L [A 0]]); (14, L [L [A 0]])]
      /\ agree17 inp (run17 inp) = true /\ mon17 inp (run17 inp) = []).
Proof. vm_compute. repeat split; reflexivity. Qed.

Example ec_example :
  let inp := L [A 1; A 1; A 5;
                L [L [A 3; A 0]; L [A 3; A 1]; L [A 0; L [A 0]; A 0; A 0; A 0]; L [A 4; A 0];
                   L [A 0; L [A 0]; A 5; A 0; A 0]; L [A 0; L [A 0]; A 1; A 0; A 0];
                   L [A 0; L [A 0; A 1]; A 0; A 0; A 14]; L [A 1; L [A 0; A 1]; A 0]; L [A 2; L [A 1]; A 0]]] in
  map (fun o => sx_nth o 2) (sx_list (run17 inp)) =
    [L []; L []; L [L [A 0]]; L []; L [L []]; L [L [A 0]]; L [L [A 0; A 1]]; L []; L []]
  /\ agree17 inp (run17 inp) = true /\ mon17 inp (run17 inp) = [].
Proof. vm_compute. repeat split; reflexivity. Qed.

Example lru_example :
  let inp := L [A 3; L [L [A 0; A 5]; L [A 0; A 7]; L [A 2]; L [A 1; A 5]; L [A 2]; L [A 3]; L [A 2]]] in
  run17 inp = L [L [A 5; A 7; A 5]] /\ agree17 inp (run17 inp) = true /\ mon17 inp (run17 inp) = [].
Proof. vm_compute. repeat split; reflexivity. Qed.

(** Size 0 (rejected by the harness, accepted by the theorem): the first
    recording panics in the model, and the monitor does not judge a panic. *)
Example ec_size0_example :
  let inp := L [A 1; A 0; A 5; L [L [A 3; A 0]; L [A 0; L [A 0]; A 0; A 0; A 0]]] in
  run17 inp = L [A (-1)] /\ mon17 inp (run17 inp) = [].
Proof. vm_compute. split; reflexivity. Qed.

(** * Kind 2: replicator decorators (concurrent schedules) *)

(** The monitor, clause group by clause group. *)
Definition conc_counts (m : mode) (mk ma : nat) : list Z :=
  match m with
  | MDedup => if Nat.ltb 1 mk then [21] else []
  | MLimit k => if Nat.ltb k ma then [22] else []
  | MQueued _ _ => if Nat.ltb 1 ma then [23] else []
  end.

Definition mon_conc_counts (inp obs : sx) : list Z :=
  let '(m, sets, source, sink, evs) := conc_cfg inp in
  conc_counts m (sx_nat (sx_nth obs 1)) (sx_nat (sx_nth obs 2)).

Definition mon_conc_success (inp obs : sx) : list Z :=
  let '(m, sets, source, sink, evs) := conc_cfg inp in
  let lg := sx_list (sx_nth obs 4) in
  flat_map (fun i =>
    let ds := nth i sets [] in
    match index_where (fun e => Z.eqb (lg_kind e) 3 && Nat.eqb (lg_caller e) i && Z.eqb (sx_Z (sx_nth e 2)) 0) lg 0,
          index_where (fun e => Z.eqb (lg_kind e) 0 && Nat.eqb (lg_caller e) i) lg 0 with
    | Some _, Some st =>
        match m with
        | MQueued _ dur =>
            let tstart := sx_N (sx_nth (nth st lg (L [])) 2) in
            if forallb (fun d => copied_within d dur tstart lg) ds then [] else [25]
        | _ => if forallb (fun d => justified_after d st lg 0) ds then [] else [24]
        end
    | _, _ => []
    end) (seq 0 (length sets)).

Lemma mon_conc_split inp obs :
  mon_conc inp obs = if sx_eqb obs (L [A (-1)]) then [] else mon_conc_counts inp obs ++ mon_conc_success inp obs.
Proof.
  unfold mon_conc, mon_conc_counts, mon_conc_success, conc_counts.
  destruct (conc_cfg inp) as [[[[m sets] source] sink] evs]. reflexivity.
Qed.

(** Every state the judge keeps is reachable in the transition system. *)
Lemma fold_left_inv {S T} (f : S -> T -> S) (I : S -> Prop) l : forall a, I a ->
  (forall a x, I a -> In x l -> I (f a x)) -> I (fold_left f l a).
Proof.
  induction l as [|x l IH]; intros a Ha H; cbn [fold_left]; [exact Ha|].
  apply IH; [apply H; [exact Ha|left; reflexivity]|]. intros a' y Ha' Hy. apply H; [exact Ha'|right; exact Hy].
Qed.

Section Reach.
  Variable m : mode.
  Variable P : cstate -> Prop.
  Hypothesis Pstep : forall s e s', P s -> step m s e = Some s' -> P s'.

  Definition allP (l : list (cstate * sx)) : Prop := Forall (fun x => P (fst x)) l.

  Lemma allP_add_new x l : P (fst x) -> allP l -> allP (add_new x l).
  Proof. intros Hx Hl. unfold add_new. destruct (existsb _ l); [exact Hl|constructor; assumption]. Qed.

  Lemma allP_filter f l : allP l -> allP (filter f l).
  Proof. unfold allP. rewrite !Forall_forall. intros H x Hx. apply filter_In in Hx. apply H, Hx. Qed.

  Lemma tau_succ_P s : P s -> Forall P (tau_succ m s).
  Proof.
    intros Hs. unfold tau_succ. apply Forall_forall. intros s' Hin. apply in_flat_map in Hin.
    destruct Hin as (i & _ & Hin). apply in_app_or in Hin. destruct Hin as [Hin|Hin].
    - destruct (step m s (ETau i false)) eqn:E; [|destruct Hin]. destruct Hin as [<-|[]]. eapply Pstep; eassumption.
    - destruct (step m s (ETau i true)) eqn:E; [|destruct Hin]. destruct Hin as [<-|[]]. eapply Pstep; eassumption.
  Qed.

  Lemma quiesce_P fuel : forall frontier finals, allP frontier -> allP finals -> allP (quiesce fuel m frontier finals).
  Proof.
    induction fuel as [|f IH]; intros frontier finals Hf Hn; cbn [quiesce]; [exact Hn|].
    destruct frontier as [|x0 fr]; [exact Hn|].
    match goal with |- context [fold_left ?F ?l ?a] =>
      assert (FI : allP (fst (fold_left F l a)) /\ allP (snd (fold_left F l a))) end.
    { apply (fold_left_inv _ (fun acc => allP (fst acc) /\ allP (snd acc))); [split; [constructor|exact Hn]|].
      intros acc x [A1 A2] Hx.
      assert (Px : P (fst x)) by (unfold allP in Hf; rewrite Forall_forall in Hf; apply Hf, Hx).
      pose proof (tau_succ_P (fst x) Px) as T.
      destruct (tau_succ m (fst x)) as [|s1 succ]; cbn [fst snd].
      - split; [exact A1|apply allP_add_new; assumption].
      - split; [|exact A2]. apply (fold_left_inv _ allP); [exact A1|].
        intros a s' Ha Hs'. apply allP_add_new; [|exact Ha]. cbn [tag fst]. rewrite Forall_forall in T. apply T, Hs'. }
    destruct (fold_left _ (x0 :: fr) ([], finals)) as [next finals']. cbn [fst snd] in FI.
    apply IH; apply FI.
  Qed.

  Lemma round_P e o states : allP states -> allP (round m e o states).
  Proof.
    intros H. unfold round. apply allP_filter, quiesce_P; [|constructor].
    apply (fold_left_inv _ allP); [constructor|]. intros a x Ha Hx. apply allP_add_new; [|exact Ha]. cbn [tag fst].
    assert (Px : P (fst x)) by (unfold allP in H; rewrite Forall_forall in H; apply H, Hx).
    unfold apply_ev. destruct (step m (fst x) e) eqn:E; [eapply Pstep; eassumption|exact Px].
  Qed.

  Lemma rounds_P evs : forall obs states n, allP states -> allP (fst (rounds m evs obs states n)).
  Proof.
    induction evs as [|e evs IH]; intros [|o obs] states n H; cbn [rounds fst]; try constructor; [exact H|].
    pose proof (round_P e o states H) as R. destruct (round m e o states) as [|x l]; [constructor|].
    apply IH, R.
  Qed.
End Reach.

Lemma run_snoc m tr : forall s0 e, run m s0 (tr ++ [e]) = match run m s0 tr with Some s => step m s e | None => None end.
Proof.
  induction tr as [|a tr IH]; intros s0 e; cbn [app run].
  - destruct (step m s0 e); reflexivity.
  - destruct (step m s0 a); [apply IH|reflexivity].
Qed.

(** Clauses 21/22/23 are silent on every observation the judge accepts. *)
Theorem conc_counts_silent_run_conc inp obs : fst (run_conc inp obs) = true -> mon_conc_counts inp obs = [].
Proof.
  unfold run_conc, mon_conc_counts. destruct (conc_cfg inp) as [[[[m sets] source] sink] evs].
  set (P := fun s => exists tr, run m (init_state sets source sink) tr = Some s).
  assert (Pstep : forall s e s', P s -> step m s e = Some s' -> P s').
  { intros s e s' [tr Htr] St. exists (tr ++ [e]). rewrite run_snoc, Htr. exact St. }
  assert (Hinit : allP P [tag (init_state sets source sink)]).
  { constructor; [|constructor]. exists []. reflexivity. }
  pose proof (rounds_P m P Pstep evs (sx_list (sx_nth obs 0)) _ 0%nat Hinit) as R.
  destruct (rounds m evs (sx_list (sx_nth obs 0)) [tag (init_state sets source sink)] 0) as [fin n]. cbn [fst] in R.
  cbv zeta.
  destruct (filter _ fin) as [|x l] eqn:F; cbn [fst]; [discriminate|]. intros _.
  assert (Hx : In x (x :: l)) by (left; reflexivity). rewrite <- F in Hx. apply filter_In in Hx. destruct Hx as [Hin Hc].
  apply andb_prop in Hc. destruct Hc as [Hc _]. apply andb_prop in Hc. destruct Hc as [Hk Ha].
  apply Nat.eqb_eq in Hk, Ha. rewrite <- Hk, <- Ha.
  unfold allP in R. rewrite Forall_forall in R. destruct (R x Hin) as [tr Htr].
  pose proof (maxima_bounded m sets source sink tr (fst x) Htr) as B.
  unfold conc_counts. destruct m as [|lim|size dur]; cbn [bound_ok] in B;
    match goal with |- (if ?c then _ else _) = _ => assert (E : c = false) by (apply Nat.ltb_ge; exact B); rewrite E end; reflexivity.
Qed.

Theorem conc_counts_silent_on_agreeing inp obs :
  sx_Z (sx_nth inp 0) = 2 -> agree17 inp obs = true -> mon_conc_counts inp obs = [].
Proof.
  intros Hk. unfold agree17, judge17, judge_conc. rewrite Hk.
  pose proof (conc_counts_silent_run_conc inp obs) as C.
  destruct (run_conc inp obs) as [agree model]. rewrite agree_verdict. exact C.
Qed.

(** The judge's agreement test reads obs[0..3] only; the clauses 24/25 read
    the event log obs[4].  An observation that agrees with the model (no
    event, one caller that has not started) with a made-up log "caller 0
    starts; caller 0 returns OK" is accepted by the judge and makes clause 24
    fire: agreement does not determine the success clauses, so "agree =>
    silent" cannot be a theorem for them (and is not claimed).  The harness
    derives the log from the real run, so it never produces this pair. *)
Example conc_success_clauses_not_determined_by_agreement :
  let inp := L [A 2; L [A 0]; L [L [A 0]]; L [A 0]; L []; L []] in
  let obs := L [L []; A 0; A 0; L []; L [L [A 0; A 0; A 0]; L [A 3; A 0; A 0; A 0]]] in
  agree17 inp obs = true /\ mon17 inp obs = [24] /\ mon_conc_counts inp obs = [].
Proof. vm_compute. repeat split; reflexivity. Qed.

(** Non-vacuity for kind 2: two callers of the deduplicating replicator for the
    same object; the second waits while the first copies; the judge accepts
    the observation (statuses per round, maxima 1 / 1, sink [0]). *)
Example conc_example :
  let inp := L [A 2; L [A 0]; L [L [A 0]; L [A 0]]; L [A 0]; L [];
                L [L [A 0; A 0]; L [A 0; A 1]; L [A 1; A 0; A 0]; L [A 1; A 0; A 0]; L [A 1; A 0; A 0]]] in
  let obs := L [L [L [L [A 1; A 0; A 2; L [A 0]]; L [A 0]];
                   L [L [A 1; A 0; A 2; L [A 0]]; L [A 2]];
                   L [L [A 1; A 1; A 0; L [A 0]]; L [A 2]];
                   L [L [A 1; A 0; A 1; L [A 0]]; L [A 2]];
                   L [L [A 3; A 0]; L [A 3; A 0]]];
                A 1; A 1; L [A 0]; L []] in
  agree17 inp obs = true /\ mon17 inp obs = [].
Proof. vm_compute. split; reflexivity. Qed.

(** In general: the judge's agreement test for kind 2 is a function of
    obs[0..3]; the event log obs[4] is free. *)
Lemma run_conc_ignores_log inp o0 o1 o2 o3 lg lg' :
  run_conc inp (L [o0; o1; o2; o3; lg]) = run_conc inp (L [o0; o1; o2; o3; lg']).
Proof. reflexivity. Qed.

Theorem agreement_ignores_log inp o0 o1 o2 o3 lg lg' : sx_Z (sx_nth inp 0) = 2 ->
  agree17 inp (L [o0; o1; o2; o3; lg]) = agree17 inp (L [o0; o1; o2; o3; lg']).
Proof.
  intros Hk. unfold agree17, judge17, judge_conc. rewrite Hk.
  rewrite (run_conc_ignores_log inp o0 o1 o2 o3 lg lg').
  destruct (run_conc inp (L [o0; o1; o2; o3; lg'])) as [a mo]. rewrite !agree_verdict. reflexivity.
Qed.
